--------------------------- MODULE MC_SysOrderMaps ---------------------------
(* X02, function tables of the Rvectors index maps: every duplicate-free R-list of at most MAXL vectors from POOL (plus a few
   lists with a repeated vector) for iR / iR0 / index_R / reverseR, every pair of lists (<= MAXM vectors of POOLM) and every
   triple (<= 2 vectors of POOL3) for merge_Rvectors.  Init enumerates the inputs, Call evaluates the specification; every
   "done" state is one test of the real functions. *)
EXTENDS SysOrder
CONSTANTS MAXL, MAXM, NPOOL, NPOOLM, NPOOL3
VARIABLES kind, l1, l2, l3, pc, out
vars == <<kind, l1, l2, l3, pc, out>>
PoolSeq == << Z3, <<1, 0, 0>>, <<-1, 0, 0>>, <<0, 1, 0>>, <<1, 1, 0>>, <<0, -1, 0>> >>
Pool(n) == {PoolSeq[i] : i \in 1..n}
Lists(P, L) == UNION {{q \in [1..n -> P] : NoDup(q)} : n \in 0..L}
DupLists == { << <<1, 0, 0>>, Z3, <<1, 0, 0>>, <<-1, 0, 0>> >>, <<Z3, Z3>>, << <<1, 0, 0>>, <<-1, 0, 0>>, <<-1, 0, 0>> >> }
None == <<>>
Init == /\ pc = "in" /\ out = None
        /\ \/ kind = "idx" /\ l1 \in (Lists(Pool(NPOOL), MAXL) \ {<<>>}) \cup DupLists /\ l2 = <<>> /\ l3 = <<>>
           \/ kind = "merge2" /\ l1 \in Lists(Pool(NPOOLM), MAXM) /\ l2 \in Lists(Pool(NPOOLM), MAXM) /\ l3 = <<>>
           \/ kind = "merge3" /\ l1 \in Lists(Pool(NPOOL3), 2) /\ l2 \in Lists(Pool(NPOOL3), 2) /\ l3 \in Lists(Pool(NPOOL3), 2)
Call == /\ pc = "in" /\ pc' = "done"
        /\ out' = CASE kind = "idx" -> [ir |-> [n \in 1..Len(PoolSeq) |-> RvIR(l1, PoolSeq[n])], ir0 |-> RvIR0(l1),
                                        index |-> RvIndexR(l1), rev |-> RvReverseR(l1), notfound |-> NotFound(l1)]
                    [] kind = "merge2" -> MergeRvectors(<<l1, l2>>)
                    [] kind = "merge3" -> MergeRvectors(<<l1, l2, l3>>)
        /\ UNCHANGED <<kind, l1, l2, l3>>
Next == Call
Spec == Init /\ [][Next]_vars

Done == pc = "done"
InModel == Done /\ kind = "idx" => l1 # <<>>
(* iR names the position of the vector, absent vectors are refused; index_R agrees with iR; iR0 is iR of the zero vector *)
IndexLaws == (Done /\ kind = "idx" /\ NoDup(l1)) =>
    /\ \A n \in 1..Len(PoolSeq) : IF Has(l1, PoolSeq[n]) THEN out.ir[n].err = "" /\ l1[out.ir[n].val + 1] = PoolSeq[n] ELSE out.ir[n].err = "ValueError"
    /\ \A j \in 1..Len(l1) : out.index[l1[j]] = j - 1 /\ RvIR(l1, l1[j]) = Ok(j - 1)
    /\ DOMAIN out.index = SetOf(l1)
    /\ out.ir0 = (IF Has(l1, Z3) THEN Ok(FirstAt(l1, Z3) - 1) ELSE Err("ValueError"))
(* reverseR: valid pairs, every position either listed or without partner (counting law), the zero vector is its own partner *)
ReverseLaws == (Done /\ kind = "idx" /\ NoDup(l1)) =>
    /\ out.rev.err = "" /\ ReverseRValid(l1, out.rev.lstR, out.rev.lstmR)
    /\ Len(out.rev.lstR) + Cardinality(out.notfound) = Len(l1)
    /\ SetOf(out.rev.lstR) \cap out.notfound = {}
    /\ \A n \in 1..Len(out.rev.lstR) : l1[out.rev.lstR[n] + 1] = Z3 => out.rev.lstmR[n] = out.rev.lstR[n]
(* a repeated vector with a partner is refused *)
DupRefused == (Done /\ kind = "idx" /\ ~NoDup(l1)) => (out.rev.err = "RuntimeError") = (\E i \in 1..Len(l1) : Cardinality(Partners(l1, i)) > 1)
Lists12 == IF kind = "merge2" THEN <<l1, l2>> ELSE <<l1, l2, l3>>
MergeLaws == (Done /\ kind \in {"merge2", "merge3"}) =>
    /\ MergeValid(Lists12, out.rv, out.maps) /\ MapsInjective(Lists12, out.maps)
    /\ Len(out.rv) <= Len(l1) + Len(l2) + Len(l3)
    /\ (l1 = l2 => out.maps[1] = out.maps[2])
    /\ (kind = "merge2" /\ SetOf(l2) \subseteq SetOf(l1)) => SetOf(out.maps[1]) = 0..(Len(out.rv) - 1)         \* onto when nothing is added
MergeComposesLaw == (Done /\ kind = "merge3") => MergeComposes(l1, l2, l3)
=============================================================================
