----------------------------- MODULE SumRuleRec -----------------------------
(* code -> spec: records of the real formula/covariant.py:Omega (through Formula_ln.trace, tabulate.BerryCurvature and
   static.AHC) evaluated on integer data; one TLC state per record. The harness multiplies the returned floats by den,
   verifies integrality and records the integers. *)
EXTENDS SumRule, Json, IOUtils, TLCExt
VARIABLE i
Recs == JsonDeserialize(IOEnv.TRACE_FILE).recs
Rec == Recs[i]
AsSeq(s) == [k \in 1..Len(s) |-> s[k]]
Mat(M) == [m \in 1..Len(M) |-> [n \in 1..Len(M) |-> <<M[m][n][1], M[m][n][2]>>]]

Clauses ==
   LET E == AsSeq(Rec.E)  Vx == Mat(Rec.Vx)  Vy == Mat(Rec.Vy)  om == AsSeq(Rec.om)  nb == Len(Rec.E) IN
   [ hermitian_input |-> IsHermitian(Vx, nb) /\ IsHermitian(Vy, nb),
     den_equals_spec |-> Rec.den = Den(E),
     band_equals_spec |-> \A n \in 1..nb : om[n] = OmegaBand(E, Vx, Vy, n, "code"),
     sum_rule |-> SumRuleHolds(E, om),
     (* Rec.grp: [ib1, ib2, numerator] with 0-based half-open band blocks as in the code *)
     block_equals_spec |-> \A g \in 1..Len(Rec.grp) :
                              Rec.grp[g][3] = OmegaNum(E, Vx, Vy, (Rec.grp[g][1] + 1)..Rec.grp[g][2], "code"),
     block_additive |-> \A g \in 1..Len(Rec.grp) :
                              Rec.grp[g][3] = SumR(Rec.grp[g][1] + 1, Rec.grp[g][2], LAMBDA n : om[n]),
     (* Rec.sea[j] = numerator of the Fermi-sea sum with j bands occupied (from static.AHC on the same data), j = 0..nb *)
     sea_equals_spec |-> \A j \in 1..Len(Rec.sea) : Rec.sea[j] = SeaNum(om, j - 1),
     sea_full_zero |-> Len(Rec.sea) = nb + 1 => Rec.sea[nb + 1] = 0 ]
Report == \A n \in DOMAIN Clauses : Clauses[n] \/ PrintT(<<"BAD", i, n>>)
RecInit == i \in 1..Len(Recs)
RecSpec == RecInit /\ [][UNCHANGED i]_i
=============================================================================
