----------------------------- MODULE SumRuleRec -----------------------------
(* code -> spec: records of the real formula/covariant.py:Omega (through Formula_ln.trace, tabulate.BerryCurvature and
   static.AHC) evaluated on integer data; one TLC state per record. The harness multiplies the returned floats by den,
   verifies integrality and records the integers. *)
EXTENDS SumRule, Json, IOUtils, TLCExt, FiniteSets
VARIABLE i
Recs == JsonDeserialize(IOEnv.TRACE_FILE).recs
Rec == Recs[i]
AsSeq(s) == [k \in 1..Len(s) |-> s[k]]
Mat(M) == [m \in 1..Len(M) |-> [n \in 1..Len(M) |-> <<M[m][n][1], M[m][n][2]>>]]

(* records of non-degenerate spectra carry om / den / grp / sea; records of degenerate spectra (no field om) carry
     mult : [a, b, v]  0-based half-open blocks = the multiplets, v = round(trace over the multiplet * DenIO)
     msea : [b, v]     Fermi sea up to (excluding) band b, a multiplet border, v = round(sea * DenIO(E, 1..b)) *)
NonDegClauses ==
   LET E == AsSeq(Rec.E)  Vx == Mat(Rec.Vx)  Vy == Mat(Rec.Vy)  om == AsSeq(Rec.om)  nb == Len(Rec.E) IN
   [ hermitian_input |-> IsHermitian(Vx, nb) /\ IsHermitian(Vy, nb),
     den_equals_spec |-> Rec.den = Den(E),
     band_equals_spec |-> \A n \in 1..nb : om[n] = OmegaBand(E, Vx, Vy, n, "code"),
     sum_rule |-> SumRuleHolds(E, om),
     (* Rec.grp: [ib1, ib2, numerator] with 0-based half-open band blocks as in the code *)
     block_equals_spec |-> \A g \in 1..Len(Rec.grp) :
                              Rec.grp[g][3] = OmegaNum(E, Vx, Vy, (Rec.grp[g][1] + 1)..Rec.grp[g][2], "code"),
     block_additive |-> \A g \in 1..Len(Rec.grp) :
                              Rec.grp[g][3] = SumR(Rec.grp[g][1] + 1, Rec.grp[g][2], LAMBDA n : om[n]),
     (* Rec.sea[j] = numerator of the Fermi-sea sum with j bands occupied (from static.AHC on the same data), j = 0..nb *)
     sea_equals_spec |-> \A j \in 1..Len(Rec.sea) : Rec.sea[j] = SeaNum(om, j - 1),
     sea_full_zero |-> Len(Rec.sea) = nb + 1 => Rec.sea[nb + 1] = 0,
     (* Rec.scans: [lo4, grouping code (0 none, 1 chain, 2 kramers), <<numerators at the levels lo4/4, lo4/4 + 1, ...>>] from
        static.AHC with Efermi starting INSIDE the bands; the last level is above all bands *)
     scan_above_all_zero |-> \A q \in 1..Len(Rec.scans) :
                                LET sc == Rec.scans[q]  nl == Len(sc[3]) IN
                                nl > 0 /\ sc[1] + 4 * (nl - 1) > 4 * E[nb] /\ sc[3][nl] = 0,
     scan_levels_outside_groups |-> \A q \in 1..Len(Rec.scans) :
                                LET sc == Rec.scans[q]
                                    grouping == IF sc[2] = 1 THEN "chain" ELSE IF sc[2] = 2 THEN "kramers" ELSE "none" IN
                                \A j \in 1..Len(sc[3]) :
                                   LET l4 == sc[1] + 4 * (j - 1) IN
                                   LevelInsideGroup(E, l4, grouping) \/
                                   sc[3][j] = SeaNum(om, Cardinality({n \in 1..nb : 4 * E[n] < l4})) ]
DegClauses ==
   LET E == AsSeq(Rec.E)  Vx == Mat(Rec.Vx)  Vy == Mat(Rec.Vy)  nb == Len(Rec.E)  ng == Len(Rec.mult)
       Blk(g) == (Rec.mult[g][1] + 1)..Rec.mult[g][2]
       DenOthers(g) == ProdR(1, ng, LAMBDA h : IF h = g THEN 1 ELSE DenIO(E, Blk(h)))
   IN
   [ hermitian_input |-> IsHermitian(Vx, nb) /\ IsHermitian(Vy, nb),
     multiplets_cover |-> /\ ng >= 1 /\ Rec.mult[1][1] = 0 /\ Rec.mult[ng][2] = nb
                          /\ \A g \in 1..ng : Rec.mult[g][1] < Rec.mult[g][2] /\ \A m, n \in Blk(g) : E[m] = E[n]
                          /\ \A g \in 1..(ng - 1) : Rec.mult[g][2] = Rec.mult[g + 1][1] /\ E[Rec.mult[g][2]] < E[Rec.mult[g][2] + 1],
     multiplet_equals_spec |-> \A g \in 1..ng : Rec.mult[g][3] = OmegaNumIO(E, Vx, Vy, Blk(g)),
     multiplet_sum_rule |-> SumR(1, ng, LAMBDA g : Rec.mult[g][3] * DenOthers(g)) = 0,
     msea_equals_spec |-> \A j \in 1..Len(Rec.msea) : Rec.msea[j][2] = OmegaNumIO(E, Vx, Vy, 1..Rec.msea[j][1]),
     msea_full_zero |-> \A j \in 1..Len(Rec.msea) : Rec.msea[j][1] = nb => Rec.msea[j][2] = 0 ]
Clauses == IF "om" \in DOMAIN Rec THEN NonDegClauses ELSE DegClauses
Report == \A n \in DOMAIN Clauses : Clauses[n] \/ PrintT(<<"BAD", i, n>>)
RecInit == i \in 1..Len(Recs)
RecSpec == RecInit /\ [][UNCHANGED i]_i
=============================================================================
