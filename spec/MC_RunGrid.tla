---------------------------- MODULE MC_RunGrid ----------------------------
(* Model of RunGrid for TLC: an uninterrupted reference run A followed by a run B of the same calculation that is
   stopped and restarted (one or several times) with the same refinement choices.  All modes, stopping points,
   splits, directory listings, refinement choices and completion schedules inside the constants are explored. *)
EXTENDS RunGrid

CONSTANTS NITER,       \* total number of refinement iterations of the calculation
          AdptFac,     \* number of points refined per iteration (the three criteria agree in the model)
          ParA, ParB,  \* sets of values of `parallel` explored in phases A and B
          DumpSet, AllowASet, SymSet,
          WithB,       \* explore phase B
          AllOrders,   \* TRUE: every iteration order of the selected set; FALSE: ascending only
          RestartIters,\* values of restart_iteration explored (as offsets: -1 = latest, -2, ...; see RIters)
          MaxLeg,      \* largest adpt_num_iter of one call of run() in phase B (small: many stops and restarts)
          FirstLegMax, \* largest adpt_num_iter of the first (fresh) call of phase B (0: stopped right after iteration 0)
          AllowArgB    \* values of the argument allow_restart of that call (FALSE with dump_results: restartable "for free")

VARIABLES phase, ref, refRet, script
mcvars == <<phase, ref, refRet, script>>
allvars == <<vars, mcvars>>

GInv1 == { <<1,0,0,1>>, <<-1,0,0,-1>> }
GNone == { <<1,0,0,1>> }
GC4   == { <<1,0,0,1>>, <<0,-1,1,0>>, <<-1,0,0,-1>>, <<0,1,-1,0>> }
GC4v  == GC4 \cup { <<-1,0,0,1>>, <<1,0,0,-1>>, <<0,1,1,0>>, <<0,-1,-1,0>> }
GMx   == { <<1,0,0,1>>, <<-1,0,0,1>> }
GH3   == { <<1,0,0,1>>, <<-1,-1,1,0>>, <<0,1,-1,-1>> }
GH6   == GH3 \cup { <<-1,0,0,-1>>, <<0,-1,1,1>>, <<1,1,-1,0>> }
GH3m  == GH3 \cup { <<-1,0,1,1>>, <<0,-1,-1,0>>, <<1,1,0,-1>> }

RIters == {0 - r : r \in RestartIters}
MCInit == Init /\ phase = "A" /\ ref = <<>> /\ refRet = {} /\ script = <<>>

LiveIdx == {i \in 1..Len(kl) : kl[i].fac > 0 /\ kl[i].ev /\ kl[i].lev < LMAX}
Orders ==
   LET k == IF Cardinality(LiveIdx) < AdptFac THEN Cardinality(LiveIdx) ELSE AdptFac
       subs == kSubset(k, LiveIdx)
   IN IF AllOrders THEN UNION { SetToSeqs(T) : T \in subs }
      ELSE { SetToSortSeq(T, <) : T \in subs }

CellsOf(ord) == [i \in 1..Len(ord) |-> <<kl[ord[i]].c, kl[ord[i]].lev>>]

StartA == /\ phase = "A" /\ pc = "idle" /\ returned = {}
          /\ \E p \in ParA, d \in DumpSet, a \in AllowASet, s \in SymSet :
                StartFresh([par |-> p, dump |-> d, allow |-> (a \/ d), sym |-> s, restart |-> FALSE], NITER)
          /\ UNCHANGED mcvars
RefineA == /\ phase = "A" /\ LiveIdx # {}
           /\ \E ord \in Orders : Refine(ord) /\ script' = Append(script, CellsOf(ord))
           /\ UNCHANGED <<phase, ref, refRet>>
EndA == /\ WithB /\ phase = "A" /\ pc = "idle" /\ returned # {}
        /\ phase' = "B" /\ ref' = saved /\ refRet' = returned /\ saved' = <<>> /\ returned' = {}
        /\ act' = [name |-> "EndA"]
        /\ UNCHANGED <<ffiles, pick, pc, mode, kl, coef, resNone, facs, it, start, nit, nkprev, rsum, rsNone, plocal, script>>
StartB == /\ phase = "B" /\ pc = "idle" /\ returned = {}
          /\ \E p \in ParB, d \in DumpSet, n \in 0..(NITER - 1), aarg \in AllowArgB :
                /\ n <= MaxLeg /\ n <= FirstLegMax
                /\ StartFreshL([par |-> p, dump |-> d, allow |-> TRUE, sym |-> mode.sym, restart |-> FALSE], n, InitList(mode.sym), aarg)
          /\ UNCHANGED mcvars
(* back = TRUE: the restart resumes from an iteration before the latest one on disk (restart_iteration < -1 or explicit) *)
RestartBG(back) ==
            /\ phase = "B" /\ pc = "idle" /\ returned # {} /\ mode.allow /\ start + nit < NITER
            /\ \E p \in ParB, d \in DumpSet, a \in BOOLEAN, listing \in SetToSeqs(DOMAIN ffiles), ri \in RIters :
                 \E n \in 1..(NITER - ReadIter(listing, ri)) :
                  /\ n <= MaxLeg
                  /\ (ReadIter(listing, ri) < Max(DOMAIN ffiles)) = back
                  /\ (ReadIter(listing, ri) < Max(DOMAIN ffiles) => mode.sym)  \* going back without symmetry re-creates (not re-uses) the later points
                  /\ StartRestart([par |-> p, dump |-> d, allow |-> (a \/ d), sym |-> mode.sym, restart |-> TRUE], n, listing, ri)
            /\ UNCHANGED mcvars
RestartBLatest == phase = "B" /\ RestartBG(FALSE)     \* (conjunctions, so that TLC's coverage reports them under these names)
RestartBBack   == phase = "B" /\ RestartBG(TRUE)
RestartB       == RestartBLatest \/ RestartBBack
RefineB == /\ phase = "B" /\ it + start + 1 <= Len(script)
           /\ \E ord \in Orders : CellsOf(ord) = script[it + start + 1] /\ Refine(ord)
           /\ UNCHANGED mcvars

(* the actions of RunGrid.Step under their own names, so that the coverage report of TLC shows which of them occurred *)
MBeginProcess   == BeginProcess /\ UNCHANGED mcvars
MEvalSerial     == EvalSerial /\ UNCHANGED mcvars
MEndSerial      == EndSerial /\ UNCHANGED mcvars
MComplete       == (\E t \in 1..Len(sel) : Complete(t)) /\ UNCHANGED mcvars
MWaitFull       == (\E R \in SUBSET done : WaitReturn(R) /\ Cardinality(R) = NumReturns) /\ UNCHANGED mcvars
MWaitTimeout    == (\E R \in SUBSET done : WaitReturn(R) /\ Cardinality(R) < NumReturns) /\ UNCHANGED mcvars
MCollect        == Collect /\ UNCHANGED mcvars
MEndCollect     == EndCollect /\ UNCHANGED mcvars
MAppendPickle   == AppendPickle /\ UNCHANGED mcvars
MUpdateFirst    == resNone /\ UpdateIntegral /\ UNCHANGED mcvars
MUpdateIncr     == ~resNone /\ UpdateIntegral /\ UNCHANGED mcvars
MSaveData       == SaveData /\ UNCHANGED mcvars
MReturn         == Return /\ UNCHANGED mcvars

MCNext == \/ StartA \/ RefineA \/ EndA \/ StartB \/ RestartBLatest \/ RestartBBack \/ RefineB
          \/ MBeginProcess \/ MEvalSerial \/ MEndSerial \/ MComplete \/ MWaitFull \/ MWaitTimeout \/ MCollect
          \/ MEndCollect \/ MAppendPickle \/ MUpdateFirst \/ MUpdateIncr \/ MSaveData \/ MReturn
MCSpec == MCInit /\ [][MCNext]_allvars

mcview == <<view, mcvars>>

(* C11: every result saved or returned by the interrupted-and-restarted calculation equals that of the
   uninterrupted one at the same global iteration *)
RestartEquivalence ==
   phase = "B" =>
      /\ \A g \in DOMAIN saved : g \in DOMAIN ref /\ saved[g] = ref[g]
      /\ (pc = "idle" /\ returned # {}) => returned = ref[start + it]
(* reachability probes (expected to be VIOLATED: TLC exhibits a state in which the situation occurs) *)
NeverCleared   == \A i \in 1..Len(kl) : kl[i].st # "cleared"          \* "discarded" storage mode of C10
=============================================================================
