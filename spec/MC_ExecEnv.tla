----------------------------- MODULE MC_ExecEnv -----------------------------
(* bounded models of ExecEnv (X05), selected by Part:
     "ray"      the session machine: every sequence of at most MAXLEN calls of ray_init / ray_init_cluster / ray_shutdown /
                check_ray_initialized / get_ray_cpus_count / run(parallel) / the user's own ray.init, from every world
                (module importable or not, environment variables of the batch script set / unset / partly set); the first
                call ranges over the wide argument catalogue, later calls over the narrow one.  One state = one behaviour (hist).
     "envtab"   function table of get_ray_runtime_env over all runtime environments with at most MAXLEN py_modules
     "cluster"  function table of utils/cluster.py main(): every argument combination of the catalogue
     "runopts"  function table of the option handling of run()
   Variant selects a switch set: "good" is the documented behaviour, every other value a plausible wrong implementation that
   TLC must reject (sensitivity self-tests). *)
EXTENDS ExecEnv
CONSTANTS Part, MAXLEN, Variant, Size
VARIABLES pc, inp, out, w, log, hist
vars == <<pc, inp, out, w, log, hist>>

RayV == [Good EXCEPT !.shutdownGuard = Variant # "no_shutdown_guard", !.initGuard = Variant # "no_init_guard",
                     !.dedup = Variant # "no_dedup", !.userWins = Variant # "defaults_win", !.runIgnoresRay = Variant = "run_ignores_ray"]
ScriptV == [GoodScript EXCEPT !.quoting = IF Variant = "raw_quoting" THEN "raw" ELSE "escaped", !.headBackground = Variant # "head_blocks",
                              !.sleepsSwapped = Variant = "sleeps_swapped", !.cpusOnWorkers = Variant # "workers_without_cpus",
                              !.envFirst = Variant = "env_first"]
RunV == [RunSwitches EXCEPT !.irredForcesSym = Variant # "irred_not_forcing", !.dumpForcesAllow = Variant # "dump_not_forcing",
                            !.pathStoresNothing = Variant # "path_stores"]
Thorough == Size = "thorough"

(* ---------------- ray *)
Env(pymGiven, pym, other) == [given |-> TRUE, pymGiven |-> pymGiven, pym |-> pym, other |-> other]
EnvsNarrow == {NoEnv, Env(TRUE, << "/opt/mod", PKG >>, {"pip"})}
EnvsWide == {NoEnv, Env(FALSE, <<>>, {}), Env(TRUE, <<>>, {}), Env(TRUE, << "/opt/mod" >>, {}), Env(TRUE, << PKG, "/opt/mod" >>, {"pip"}),
             Env(FALSE, <<>>, {"pip", "env_vars"})}
KwInit == { {}, { <<"num_cpus", "4">>, <<"num_gpus", "0">> } }
TestKw == { <<"address", "None">>, <<"_node_ip_address", "0.0.0.0">>, <<"_redis_password", "some_password">>, <<"num_gpus", "0">> }   \* tests/common_parallel.py
KwClusterWide == { {}, TestKw, { <<"address", "10.1.1.1:6379">> }, { <<"_redis_password", "pw2">>, <<"num_gpus", "0">> }, { <<"_node_ip_address", "10.9.9.9">> } }
KwClusterNarrow == { {}, TestKw }
D(act, kw, env, flags, num, par) == [act |-> act, kw |-> kw, env |-> env, flags |-> flags, num |-> num, par |-> par]
FlagSets(S) == SUBSET S
Wide == {D("ray_init", kw, e, f, "None", "") : kw \in KwInit, e \in EnvsWide, f \in FlagSets({"ignore_missing", "ucc"})}
        \cup {D("ray_init_cluster", kw, e, f, n, "") : kw \in KwClusterWide, e \in EnvsNarrow, f \in FlagSets({"ignore_initialized", "ucc"}), n \in {"None", "2"}}
Narrow == {D("ray_init", {}, NoEnv, {"ignore_missing", "ucc"}, "None", ""),
           D("ray_init", { <<"num_cpus", "4">>, <<"num_gpus", "0">> }, Env(TRUE, << "/opt/mod" >>, {}), {}, "None", "")}
          \cup {D("ray_init_cluster", kw, NoEnv, f, "2", "") : kw \in KwClusterNarrow, f \in {{"ucc"}, {"ignore_initialized"}}}
          \cup {D("ray_shutdown", {}, NoEnv, {}, "None", ""), D("check_ray_initialized", {}, NoEnv, {}, "None", ""),
                D("get_ray_cpus_count", {}, NoEnv, {}, "None", "")}
          \cup {D("run", {}, NoEnv, {}, "None", p) : p \in {"True", "False", "1"}}
          \cup {D("ext_init", {}, NoEnv, {}, c, "") : c \in {"36", "44"}}
NK == 3
Apply(ww, d) ==
   CASE d.act = "ray_init" -> RayInit(ww, d.kw, d.env, "ignore_missing" \in d.flags, "ucc" \in d.flags, RayV)
     [] d.act = "ray_init_cluster" -> RayInitCluster(ww, d.num, "ignore_initialized" \in d.flags, "ucc" \in d.flags, d.kw, d.env, RayV)
     [] d.act = "ray_shutdown" -> RayShutdown(ww, RayV)
     [] d.act = "check_ray_initialized" -> CheckRayInitialized(ww)
     [] d.act = "get_ray_cpus_count" -> GetRayCpusCount(ww)
     [] d.act = "run" -> RunParallel(ww, d.par, NK, RayV)
     [] d.act = "ext_init" -> ExtInit(ww, IF d.num = "36" THEN 36 ELSE 44)
(* exclusions (named): ray_init_cluster imports ray unguarded (nothing documented without ray); the user's own ray.init needs
   the module and a session that is down (ray itself refuses a second init) *)
ClusterNeedsRay(ww, d) == d.act = "ray_init_cluster" => ww.installed
ExtInitAllowed(ww, d) == d.act = "ext_init" => (ww.installed /\ ~ww.up)
Worlds == {[installed |-> TRUE, up |-> FALSE, cpus10 |-> 0, ipHead |-> ip, redis |-> pw] : ip \in {<<>>, << "10.0.0.7", "6379" >>}, pw \in {"", "secret"}}
          \cup {[installed |-> FALSE, up |-> FALSE, cpus10 |-> 0, ipHead |-> <<>>, redis |-> ""]}
Step(d) == /\ ClusterNeedsRay(w, d) /\ ExtInitAllowed(w, d)
           /\ \E r \in {Apply(w, d)} :
                /\ w' = r[1]
                /\ log' = log \o r[2].calls
                /\ hist' = Append(hist, [d |-> d, res |-> r[2], up |-> r[1].up])
           /\ UNCHANGED <<pc, inp, out>>
FirstCall == Len(hist) = 0 /\ \E d \in Wide \cup Narrow : Step(d)
LaterCall == Len(hist) > 0 /\ Len(hist) < MAXLEN /\ \E d \in Narrow : Step(d)

(* ---------------- envtab *)
Mods == {"/opt/mod", PKG, "b"}
RECURSIVE SeqsUpTo(_, _)
SeqsUpTo(S, n) == IF n = 0 THEN {<<>>} ELSE LET T == SeqsUpTo(S, n - 1) IN T \cup {Append(t, x) : t \in {u \in T : Len(u) = n - 1}, x \in S}
EnvInputs == {NoEnv} \cup {Env(FALSE, <<>>, o) : o \in SUBSET {"pip", "env_vars"}}
             \cup {Env(TRUE, s, o) : s \in SeqsUpTo(Mods, MAXLEN), o \in SUBSET {"pip", "env_vars"}}
EnvCall == /\ pc = "in" /\ pc' = "done"
           /\ out' = [g |-> GetRayRuntimeEnvV(inp.e, inp.ucc, RayV.dedup), passed |-> PassedEnv(inp.e, inp.ucc, RayV.dedup),
                      failed |-> LET c == EnvLaws(inp.e, inp.ucc, RayV.dedup) IN {k \in DOMAIN c : ~c[k]}]
           /\ UNCHANGED <<inp, w, log, hist>>

(* ---------------- cluster *)
Cmd == << "python", "-u", "wb-example.py", "2-nodes" >>
Sleeps == { << "30.0", 3000 >>, << "12.34", 1234 >>, << "5.0", 500 >> }
ClusterArgs ==
   {[bs |-> bs, exp |-> "job1", nodes |-> n, node |-> nd, cpus |-> c, gpus |-> g, partition |-> p, loadenv |-> le, command |-> Cmd,
     sleeph |-> sh, sleepw |-> sw, spill |-> sp, submit |-> sub, missing |-> {}] :
       bs \in {"slurm", "pbs", "SLURM", "PBS", "lsf"}, n \in {"1", "4"}, nd \in {"", "cn[01-04]"}, c \in {"None", "3"}, g \in {"0", "3"},
       p \in (IF Thorough THEN {"chpc", "express"} ELSE {"express"}), le \in {<<>>, << "module", "load", "wb/1.0" >>},
       sh \in (IF Thorough THEN Sleeps ELSE {<< "30.0", 3000 >>, << "12.34", 1234 >>}), sw \in {<< "5.0", 500 >>, << "12.34", 1234 >>},
       sp \in {"", "/scratch/spill"}, sub \in BOOLEAN}
   \cup {[bs |-> "slurm", exp |-> "job1", nodes |-> "1", node |-> "", cpus |-> "None", gpus |-> "0", partition |-> "chpc", loadenv |-> <<>>,
          command |-> Cmd, sleeph |-> << "30.0", 3000 >>, sleepw |-> << "5.0", 500 >>, spill |-> "", submit |-> FALSE, missing |-> m] :
            m \in (SUBSET {"--batch-system", "--exp-name", "--command"}) \ {{}}}
ClusterCall == /\ pc = "in" /\ pc' = "done"
               /\ \E r \in {ClusterMain(inp, ScriptV)} : out' = [r |-> r, failed |-> FailedScriptClauses(inp, r)]
               /\ UNCHANGED <<inp, w, log, hist>>

(* ---------------- runopts *)
Meshes == { << <<2, 2, 2>>, TRUE >>, << <<1, 1, 1>>, TRUE >>, << <<>>, FALSE >>, << <<2, 1, 1>>, FALSE >>, << <<1, 1, 1>>, FALSE >> }
RunInputs ==
   {[grid |-> g, calcs |-> c, irred |-> ir, sym |-> sy, restart |-> rs, allow |-> al, dump |-> du, niter |-> ni, fac |-> fa,
     mesh |-> me[1], meshInt |-> me[2], dir |-> di, klpath |-> kl, nkfull |-> IF g = "path" THEN 1 ELSE 4, nkirr |-> IF g = "path" THEN 1 ELSE 3,
     pdiv |-> IF g = "path" THEN 3 ELSE 4] :
       g \in {"grid", "path"}, c \in {"both", "gridonly", "pathonly", "mixed"}, ir \in BOOLEAN, sy \in BOOLEAN, rs \in BOOLEAN,
       al \in BOOLEAN, du \in BOOLEAN, ni \in (IF Thorough THEN {0, 1, 2, 0 - 1, 0 - 3} ELSE {0, 2, 0 - 1}), fa \in (IF Thorough THEN {1, 2} ELSE {1}),
       me \in Meshes, di \in {"absent", "stale", "restartable"}, kl \in {"None", "given"}}
(* the quick model keeps the full cross product of the flags and slices the independent dimensions *)
QuickSlice(o) == Thorough \/ ( /\ (o.klpath = "None" => (o.niter = 0 /\ o.meshInt /\ o.mesh = <<2, 2, 2>>))
                               /\ (o.calcs = "mixed" => (o.niter = 0 /\ o.meshInt))
                               /\ (o.niter = 0 => (o.meshInt \/ o.mesh = <<>>)) )
RunInModel(o) == ~NegIterTie(o) /\ ~NegIterNoMesh(o) /\ ~PathRefine(o) /\ ~PathRestart(o)
RunCall == /\ pc = "in" /\ pc' = "done"
           /\ \E r \in {RunOptions(inp, RunV)} : out' = [r |-> r, failed |-> FailedRunLaws(inp, r)]
           /\ UNCHANGED <<inp, w, log, hist>>

(* ---------------- *)
Dummy == [installed |-> FALSE, up |-> FALSE, cpus10 |-> 0, ipHead |-> <<>>, redis |-> ""]
Init == /\ log = <<>> /\ hist = <<>> /\ out = 0
        /\ \/ Part = "ray" /\ pc = "run" /\ inp = 0 /\ w \in Worlds
           \/ Part = "envtab" /\ pc = "in" /\ w = Dummy /\ inp \in {[e |-> e, ucc |-> u] : e \in EnvInputs, u \in BOOLEAN}
           \/ Part = "cluster" /\ pc = "in" /\ w = Dummy /\ inp \in ClusterArgs
           \/ Part = "runopts" /\ pc = "in" /\ w = Dummy /\ inp \in {o \in RunInputs : RunInModel(o) /\ QuickSlice(o)}
Next == \/ Part = "ray" /\ (FirstCall \/ LaterCall)
        \/ Part = "envtab" /\ EnvCall
        \/ Part = "cluster" /\ ClusterCall
        \/ Part = "runopts" /\ RunCall
Spec == Init /\ [][Next]_vars

(* ---------------- invariants (the clauses live in ExecEnv.tla: the record validation evaluates the same ones on recorded calls) *)
IsRay == Part = "ray"
LogIsHistory == IsRay => log = LogOf(hist)
LogWellBracketed == IsRay => CLogWellBracketed(w, hist)
NotInstalledNoCalls == IsRay => CNotInstalledNoCalls(w, hist)
ShutdownIdempotent == IsRay => CShutdownIdempotent(w, hist)
LiveSessionKept == IsRay => CLiveSessionKept(w, hist)
InitPassesKwargs == IsRay => CInitPassesKwargs(w, hist)
MissingModule == IsRay => CMissingModule(w, hist)
ClusterOptions == IsRay => CClusterOptions(w, hist)
QueriesTruthful == IsRay => CQueriesTruthful(w, hist)
RunParallelOnlyWithRay == IsRay => CRunParallelOnlyWithRay(w, hist, NK)
EnvLawsHold == (Part = "envtab" /\ pc = "done") => out.failed = {}
ScriptOK == (Part = "cluster" /\ pc = "done") => out.failed = {}
RunLawsHold == (Part = "runopts" /\ pc = "done") => out.failed = {}
=============================================================================
