--------------------------- MODULE MC_UtilTables ---------------------------
(* every call of the tabulated functions inside the constants; Init enumerates (fn, inp), Call evaluates the table;
   every "done" state is one test of the real function. *)
EXTENDS UtilTables
CONSTANTS SMAX,       \* iterate_nd: sizes 0..SMAX per direction, 1..3 directions
          NHEAD,      \* get_head(n) for n in -1..NHEAD
          DLEN        \* find_degen: arrays of up to DLEN values
VARIABLES fn, inp, pc, out
vars == <<fn, inp, pc, out>>

Words == {"f", "false", ".false.", "t", "true", ".true.", "", "yes", "no", "0", "1", ".t.", ".f.", "true.", "falsee", "tr ue", "truefalse", "none"}
Cases == {"lower", "upper", "title"}
Pads == {"", " ", "tab", "nl"}
Vec == {<<a, b, c>> : a, b, c \in -1..1}
Mat01 == {<<r1, r2, r3>> : r1, r2, r3 \in {<<a, b, c>> : a, b, c \in 0..1}}
SeqsUpTo(S, n) == UNION {[1..m -> S] : m \in 1..n}
Sizes == SeqsUpTo(0..SMAX, 3)
Starts(size) == {NoStart} \cup [1..Len(size) -> {-1, 2}]
(* ascending arrays from their steps 0..2 *)
RECURSIVE Cumul(_, _)
Cumul(steps, q) == IF q = 0 THEN 0 ELSE Cumul(steps, q - 1) + steps[q]
Arrays == {<<>>} \cup {[q \in 1..(Len(st) + 1) |-> Cumul(st, q - 1)] : st \in {<<>>} \cup SeqsUpTo(0..2, DLEN - 1)}
O23Args == {[t |-> "none", i |-> 0, q |-> <<>>]} \cup {[t |-> "int", i |-> n, q |-> <<>>] : n \in -1..3}
           \cup {[t |-> "float", i |-> n, q |-> <<>>] : n \in 1..2}
           \cup {[t |-> k, i |-> 0, q |-> s] : k \in {"seq", "seqf"}, s \in UNION {[1..m -> 0..2] : m \in 2..3} \cup {<<1, 2, 3, 4>>, <<3, 1, 2>>, <<-1, 1, 1>>}}
Tabs == {<< <<0, 4, -12>>, <<8, -16, 1>> >>, << <<3>> >>, << <<0, 0>> >>, << <<-1>>, <<1>>, <<100>> >>}
CTabs == {<< << <<0, 4>>, <<-12, 8>> >> >>, << << <<1, 0>> >>, << <<0, -3>> >> >>}
Init == /\ pc = "in" /\ out = <<>>
        /\ \/ fn = "str2bool" /\ inp \in [base : Words, cs : Cases, pl : Pads, pr : Pads]
           \/ fn = "cross" /\ inp \in [u : Vec, v : Vec]
           \/ fn = "axial" /\ inp \in [F : Mat01]
           \/ fn = "iterate_nd" /\ \E size \in Sizes : \/ inp = [size |-> size, pm |-> TRUE, start |-> NoStart]
                                                         \/ \E st \in Starts(size) : inp = [size |-> size, pm |-> FALSE, start |-> st]
           \/ fn = "iterate3dpm" /\ inp \in [size : {s \in Sizes : Len(s) >= 2}]
           \/ fn = "one2three" /\ inp \in O23Args
           \/ fn = "get_head" /\ inp \in [n : -1..NHEAD]
           \/ fn = "find_degen" /\ inp \in [arr : Arrays, thr : 0..2]
           \/ fn = "arr_to_string" /\ (inp \in [arr : Tabs, kind : {"real"}] \/ inp \in [arr : CTabs, kind : {"complex"}]
                                       \/ inp \in [arr : {<<0, 4, 2>>, <<-8>>}, kind : {"vector"}])
Eval == CASE fn = "str2bool" -> Str2Bool(inp)
          [] fn = "cross" -> CrossTables(inp.u, inp.v)
          [] fn = "axial" -> AxialTables(inp.F)
          [] fn = "iterate_nd" -> IterateNd(inp.size, inp.pm, inp.start)
          [] fn = "iterate3dpm" -> Iterate3dpm(inp.size)
          [] fn = "one2three" -> One2Three(inp)
          [] fn = "get_head" -> GetHead(inp.n)
          [] fn = "find_degen" -> FindDegen(inp.arr, inp.thr)
          [] fn = "arr_to_string" -> ArrToString(inp.arr, inp.kind)
Call == pc = "in" /\ pc' = "done" /\ out' = Eval /\ UNCHANGED <<fn, inp>>
Next == Call
Spec == Init /\ [][Next]_vars

Done(f) == pc = "done" /\ fn = f
(* str2bool: the two word lists are disjoint, the answer does not depend on case and surrounding blanks, everything
   else is refused *)
BoolWords == FalseWords \cap TrueWords = {} /\
             (Done("str2bool") => /\ out = Str2Bool([inp EXCEPT !.cs = "lower", !.pl = "", !.pr = ""])
                                  /\ (out.err = "") = (inp.base \in FalseWords \cup TrueWords)
                                  /\ (out.err = "" => out.val = (inp.base \in TrueWords)))
(* alpha_A, beta_A: (a, alpha_A[a], beta_A[a]) is an even permutation of (0,1,2); the cross product and the axial vector
   written with the tables are the ones of the Levi-Civita symbol *)
TablesCyclic == Done("cross") => \A a \in 1..3 : LeviCivita(a - 1, AlphaA[a], BetaA[a]) = 1 /\ LeviCivita(a - 1, BetaA[a], AlphaA[a]) = -1
CrossIsLeviCivita == Done("cross") => out = CrossLC(inp.u, inp.v)
AxialIsLeviCivita == Done("axial") => out = AxialLC(inp.F)
(* iterate_nd: every point of the box exactly once, first index outermost; pm: the box -n..n (symmetric, holds n) *)
IterOnce == Done("iterate_nd") => EveryPointOnce(out, inp.size, inp.pm, inp.start)
IterLex == Done("iterate_nd") => Lexicographic(out)
IterPm == (Done("iterate_nd") /\ inp.pm) => PmSymmetric(out, inp.size) /\ PmHoldsCorner(out, inp.size)
Iter3 == Done("iterate3dpm") => /\ (out.err = "") = (Len(inp.size) = 3)
                                /\ (out.err = "" => /\ EveryPointOnce(out.val, inp.size, TRUE, NoStart)
                                                    /\ PmSymmetric(out.val, inp.size) /\ PmHoldsCorner(out.val, inp.size))
(* one2three: defined exactly for None, a positive integer, three positive integers; idempotent *)
OneToThree == Done("one2three") =>
                 /\ (out.err = "") = One2ThreeDefined(inp)
                 /\ ((out.err = "" /\ inp.t # "none") => /\ Len(out.val) = 3 /\ \A d \in 1..3 : out.val[d] > 0
                                                         /\ One2Three([t |-> "seq", i |-> 0, q |-> out.val]) = out)
                 /\ ((out.err = "" /\ inp.t = "int") => out.val = <<inp.i, inp.i, inp.i>>)
                 /\ ((out.err = "" /\ inp.t = "seq") => out.val = inp.q)
HeadLabels == Done("get_head") => HeadIsFlattenOrder(out, inp.n) /\ Cardinality({out[p] : p \in 1..Len(out)}) = Len(out)
Degen == Done("find_degen") => ShellsPartition(out, Len(inp.arr)) /\ ShellsRespectThreshold(out, inp.arr, inp.thr)
(* arr_to_string: one line per row, one token per number, in order *)
ArrTable == Done("arr_to_string") =>
               LET rows == IF inp.kind = "vector" THEN <<inp.arr>> ELSE inp.arr IN
               Len(out) = Len(rows) /\ \A r \in 1..Len(rows) : out[r] = rows[r]
=============================================================================
