---------------------------- MODULE MC_KMeshTetra ----------------------------
(* GridTetra.__init__ as a state machine: starting tetrahedra, then the while loop of split_tetra_volume (one action
   per iteration), then the while loop of split_tetra_size, for every metric, starting set and pair of thresholds in
   the constants.  hist holds the splits (parent, children) of the last iteration.  Vertices are integers in units of
   1/S, sample points in units of 1/(S*M). *)
EXTENDS KMesh
CONSTANTS S,           \* coordinate unit (48: halves down to 1/16 and thirds are integers)
          M,           \* sample refinement
          NS,          \* samples per direction
          WT,          \* the weight "one"
          Metrics,     \* subset of {"cub", "tet", "ort", "hex", "hex120"}
          TVq, TSq,    \* thresholds in eighths of the largest starting volume / squared edge (9 = nothing to split)
          EvenThresholds, \* FALSE: thresholds never equal an attained value (odd numerators); TRUE: they do (even numerators)
          BreakOnEqual,   \* FALSE: the loops as written (`break` only if max < threshold); TRUE: `break` if max <= threshold
          KeepWeight   \* FALSE: the code; TRUE: children inherit the full weight (sensitivity self-test)
VARIABLES metric, tv2, ts2, phase, kl, hist, nround
vars == <<metric, tv2, ts2, phase, kl, hist, nround>>

Gram(m)      == GramOf(m)
StartList(m) == StartListOf(m, S, WT)
CellVol6(m)  == CellVol6Of(m, S)
MaxVol6(l)   == Max({Vol6(l[i].v) : i \in 1..Len(l)})
MaxSize2(l, g) == Max({Size2(l[i].v, g) : i \in 1..Len(l)})
Odd(x) == IF EvenThresholds THEN 2 * x ELSE 2 * x + 1
(* loop exit tests of split_tetra_volume / split_tetra_size *)
VolExit == IF BreakOnEqual THEN \A i \in 1..Len(kl) : 2 * Vol6(kl[i].v) <= tv2 ELSE VolumeDone(kl, tv2)
SizExit == IF BreakOnEqual THEN \A i \in 1..Len(kl) : 2 * Size2(kl[i].v, Gram(metric)) <= ts2 ELSE SizeDone(kl, ts2, Gram(metric))

Init == /\ metric \in Metrics
        /\ tv2 \in {Odd((MaxVol6(StartList(metric)) * q) \div 8) : q \in TVq}
        /\ ts2 \in {Odd((MaxSize2(StartList(metric), Gram(metric)) * q) \div 8) : q \in TSq}
        /\ phase = "volume" /\ kl = StartList(metric) /\ hist = <<>> /\ nround = 0

SplitV(t) == SplitLongestEdgeV(t, 2, Gram(metric), FALSE, KeepWeight)
RECURSIVE RoundV(_, _, _, _)
RoundV(l, i, mode, T2) == IF i > Len(l) THEN <<>>
                          ELSE (IF TooBig(l[i], mode, T2, Gram(metric)) THEN SplitV(l[i]) ELSE <<l[i]>>) \o RoundV(l, i + 1, mode, T2)
HistOf(l, mode, T2) == LET big == SelectSeq(l, LAMBDA t : TooBig(t, mode, T2, Gram(metric)))
                       IN [i \in 1..Len(big) |-> [p |-> big[i], ch |-> SplitV(big[i])]]
(* while True: if max(volumes) < vmax: break; split every tetrahedron with v > vmax *)
VolRound == /\ phase = "volume" /\ ~VolExit
            /\ kl' = RoundV(kl, 1, "volume", tv2) /\ hist' = HistOf(kl, "volume", tv2) /\ nround' = nround + 1
            /\ UNCHANGED <<metric, tv2, ts2, phase>>
VolEnd   == /\ phase = "volume" /\ VolExit /\ phase' = "size" /\ hist' = <<>>
            /\ UNCHANGED <<metric, tv2, ts2, kl, nround>>
(* while True: if size_max < dkmax: break; split every tetrahedron with size > dkmax *)
SizRound == /\ phase = "size" /\ ~SizExit
            /\ kl' = RoundV(kl, 1, "size", ts2) /\ hist' = HistOf(kl, "size", ts2) /\ nround' = nround + 1
            /\ UNCHANGED <<metric, tv2, ts2, phase>>
SizEnd   == /\ phase = "size" /\ SizExit /\ phase' = "done" /\ hist' = <<>>
            /\ UNCHANGED <<metric, tv2, ts2, kl, nround>>
Next == VolRound \/ VolEnd \/ SizRound \/ SizEnd
Spec == Init /\ [][Next]_vars /\ WF_vars(Next)

Smp == SamplesOf(metric, S, M, NS)
(* the integer embedding suffices (otherwise the model, not the code, is at fault) and the sample points are generic *)
Embedding == /\ \A i \in 1..Len(kl) :
                   (\/ (phase = "volume" /\ TooBig(kl[i], "volume", tv2, Gram(metric)))
                    \/ (phase = "size" /\ TooBig(kl[i], "size", ts2, Gram(metric)))) => Splittable(kl[i], 2, Gram(metric))
             /\ SamplesGeneric(kl, Smp, M)
             /\ WT % 6 = 0 /\ S % 48 = 0
(* C06, tetrahedral grids *)
Positive      == PositiveVolumes(kl)
VolumeKept    == SumSeq(TVols(kl)) = CellVol6(metric)
WeightKept    == SumSeq(TFacs(kl)) = WT
WeightByVolume == WeightPropVolume(kl, WT)
Tiling        == IF IsTrigonal(metric) THEN NoOverlap(kl, Smp, M) ELSE TilesCell(kl, Smp, M)
SplitsOK      == \A h \in 1..Len(hist) : SplitOK(hist[h].p, hist[h].ch, Smp, M)
ThresholdsMet == phase = "done" => (\A i \in 1..Len(kl) : 2 * Vol6(kl[i].v) <= tv2 /\ 2 * Size2(kl[i].v, Gram(metric)) <= ts2)
(* an iteration that is entered splits at least one tetrahedron: otherwise the list never changes and the loop never ends *)
NoStall       == /\ (phase = "volume" /\ ~VolExit) => \E i \in 1..Len(kl) : TooBig(kl[i], "volume", tv2, Gram(metric))
                 /\ (phase = "size" /\ ~SizExit) => \E i \in 1..Len(kl) : TooBig(kl[i], "size", ts2, Gram(metric))
(* the state machine ends in the list computed by the recursive definition of the two loops *)
EqualsLoops   == (phase = "done" /\ ~KeepWeight /\ ~EvenThresholds) => kl = GridTetraList(StartList(metric), tv2, ts2, Gram(metric))
Termination   == <>(phase = "done")
=============================================================================
