--------------------------- MODULE MC_WSRoundTrip ---------------------------
(* Bounded model for the transforms of C01, as the sequence of calls of the code:

      new --CallSetRvec--> rvec --SetFFTq(order of the mesh points)--> fft --QtoR(Hermitian data)--> R
                       rvec --DoWsDist(old Hermitian system)--> ws

   for every listed Gram matrix, mesh, tolerance and centre configuration; every ordering of the mesh points (all
   permutations up to ORDALL points, three fixed ones above); scalar / vector / tensor valued Hermitian data: the one-hot
   basis (DATAMODE = "basis") and dense pseudo-random data with entries in Z[zeta12].
   X is kept multiplied by NK * L (q_to_R) or L (do_ws_dist), L = lcm of all degeneracies. *)
EXTENDS WignerSeitz

CONSTANTS GRAMS, MESHES, TOLS,   \* as in MC_WignerSeitz
          NWS, TAUIDS,           \* numbers of Wannier functions and centre configurations (TauOf)
          BOXDIM,                \* translations searched along directions 1..BOXDIM (3 = the code)
          ORDALL,                \* all permutations of the mesh points if there are at most ORDALL of them
          NCS,                   \* numbers of Cartesian components of the data: subset of {1, 3, 9}
          DATAMODE,              \* "basis": one-hot Hermitian basis and dense data; "dense": dense data only
          NDENSE,                \* number of dense data sets / old systems
          NoWeights,             \* sensitivity: weights 1/Ndegen replaced by 1 (RoundTrip must fail where Ndegen > 1)
          SS                     \* denominator of the centres: TauOf is in units of 1/SS (4: the comments of TauOf; 3: thirds)
VARIABLES gram, mesh, tolid, nw, tauid, phase,
          W,        \* shift -> set of <<R, Ndegen>>          (iRvec_list, Ndegen_list through shift_index)
          amb,      \* some distance lies exactly on the tolerance boundary (excluded: floating point undetermined)
          ord,      \* the mesh coordinates of the k-points in the order of the list     (kpt_mp_grid)
          nc, dat,  \* the data on the mesh (q_to_R) or the old real-space matrices (do_ws_dist)
          X         \* the resulting real-space matrices
vars == <<gram, mesh, tolid, nw, tauid, phase, W, amb, ord, nc, dat, X>>

Digit(x, k) == (x \div IntPow(10, k)) % 10
GramOf(x) == LET g12 == Digit(x, 2) - 4  g13 == Digit(x, 1) - 4  g23 == Digit(x, 0) - 4
             IN << <<Digit(x, 5), g12, g13>>, <<g12, Digit(x, 4), g23>>, <<g13, g23, Digit(x, 3)>> >>
MeshOf(x) == <<x \div 100, (x \div 10) % 10, x % 10>>
TolOf(id) == CASE id = 1 -> <<1, 1000>> [] id = 2 -> <<1, 100000>> [] id = 3 -> <<1, 4>> [] id = 4 -> <<1, 2>>
TauOf(n, id) ==
   CASE n = 1 -> << <<0, 0, 0>> >>
     [] n = 2 /\ id = 1 -> << <<0, 0, 0>>, <<2, 0, 0>> >>          \* half a lattice vector apart
     [] n = 2 /\ id = 2 -> << <<1, 0, 0>>, <<-2, 3, 0>> >>         \* quarters, one centre outside the home cell
     [] n = 2 /\ id = 3 -> << <<0, 0, 0>>, <<0, 0, 0>> >>          \* coinciding
     [] n = 2 /\ id = 4 -> << <<0, 0, 0>>, <<2, 2, 0>> >>          \* face centre
     [] n = 2 /\ id = 5 -> << <<-1, -2, 0>>, <<5, 4, 0>> >>        \* 1.5 lattice vectors apart (edge of the precondition)
     [] n = 2 /\ id = 6 -> << <<0, 0, 0>>, <<9, 0, 0>> >>          \* 2.25 lattice vectors apart (outside the precondition)
     [] n = 2 /\ id = 7 -> << <<0, 0, 0>>, <<2, 2, 2>> >>          \* body centre (3-D)
     [] n = 2 /\ id = 8 -> << <<3, 0, 0>>, <<0, 0, 0>> >>
     [] n = 3 /\ id = 1 -> << <<0, 0, 0>>, <<2, 0, 0>>, <<0, 2, 0>> >>
     [] n = 3 /\ id = 2 -> << <<1, 0, 0>>, <<-2, 3, 0>>, <<2, 2, 0>> >>
     [] n = 3 -> << <<0, 0, 0>>, <<1, 0, 0>>, <<4, 0, 0>> >>
Tau == TauOf(nw, tauid)
Prob == [G |-> GramOf(gram), N |-> MeshOf(mesh), S |-> SS, tol |-> TolOf(tolid), box |-> BoxDim(BOXDIM)]
PosDef(G) == /\ G[1][1] > 0 /\ G[1][1] * G[2][2] - G[1][2] * G[1][2] > 0
             /\ G[1][1] * (G[2][2] * G[3][3] - G[2][3] * G[2][3]) - G[1][2] * (G[1][2] * G[3][3] - G[2][3] * G[1][3])
                + G[1][3] * (G[1][2] * G[2][3] - G[2][2] * G[1][3]) > 0
NKm == NK(MeshOf(mesh))
(* what the remapping uses; NoWeights models forgetting the weights 1/Ndegen *)
Wu == IF NoWeights THEN [d \in DOMAIN W |-> {<<e[1], 1>> : e \in W[d]}] ELSE W
L == LcmDeg(Wu)

(* ---------------- orders of the mesh points *)
Orders ==
   LET n == NKm  ms == MeshSeq(MeshOf(mesh))
       perms == IF n <= ORDALL THEN Permutations(1..n)
                ELSE {[i \in 1..n |-> i], [i \in 1..n |-> n + 1 - i], [i \in 1..n |-> (i % n) + 1]}
   IN {[i \in 1..n |-> ms[p[i]]] : p \in perms}

(* ---------------- Hermitian data on the mesh: descriptor -> dat[i][a][b][c] *)
Small(x) == (x % 5) - 2
DenseEntry(s, i, a, b, c) ==
   IF a = b THEN CInt(Small(5 * i + a + 3 * c + s))
   ELSE LET lo == IF a < b THEN a ELSE b  hi == IF a < b THEN b ELSE a
            v == CRot(CGauss(Small(7 * i + 3 * lo + 5 * hi + 11 * c + s), Small(3 * i + 5 * lo + 2 * hi + 7 * c + 2 * s)), i + c + s)
        IN IF a < b THEN v ELSE CConj(v)
OneHotEntry(kind, i0, a0, b0, i, a, b, c) ==
   IF i # i0 THEN CZero
   ELSE IF a = a0 /\ b = b0 THEN (IF kind = "re" THEN CInt(c) ELSE CScale(c, CI))
   ELSE IF a = b0 /\ b = a0 THEN (IF kind = "re" THEN CInt(c) ELSE CScale(-c, CI))
   ELSE CZero
DataOf(desc, n, ncc) ==
   [i \in 1..NKm |-> [a \in 1..n |-> [b \in 1..n |-> [c \in 1..ncc |->
        IF desc[1] = "dense" THEN DenseEntry(desc[2], i, a, b, c)
        ELSE OneHotEntry(desc[1], desc[2], desc[3], desc[4], i, a, b, c)]]]]
Descs(n) ==
   {<<"dense", s, 0, 0>> : s \in 1..NDENSE}
   \cup (IF DATAMODE = "basis"
         THEN {d \in {"re"} \X (1..NKm) \X (1..n) \X (1..n) : d[3] <= d[4]}
              \cup {d \in {"im"} \X (1..NKm) \X (1..n) \X (1..n) : d[3] < d[4]}
         ELSE {})
(* an old Hermitian real-space system on R within +-2 along the first BOXDIM directions *)
OldRs == {R \in BoxOfSize(2) : \A j \in (BOXDIM + 1)..3 : R[j] = 0}
LexPos(R) == R[1] > 0 \/ (R[1] = 0 /\ (R[2] > 0 \/ (R[2] = 0 /\ R[3] > 0)))
RIndex(R) == 25 * (R[1] + 2) + 5 * (R[2] + 2) + R[3] + 2
OldEntry(s, R, a, b, c) ==
   IF R = <<0, 0, 0>> THEN DenseEntry(s, 1, a, b, c)
   ELSE LET v(RR, aa, bb) == CGauss(Small(RIndex(RR) + 3 * aa + 7 * bb + 2 * c + s), Small(2 * RIndex(RR) + aa + 4 * bb + c + 3 * s))
        IN IF LexPos(R) THEN v(R, a, b) ELSE CConj(v(Neg3(R), b, a))
OldOf(s, n, ncc) == [R \in OldRs |-> [a \in 1..n |-> [b \in 1..n |-> [c \in 1..ncc |-> OldEntry(s, R, a, b, c)]]]]

(* ---------------- the calls *)
Init == /\ gram \in GRAMS /\ PosDef(GramOf(gram)) /\ mesh \in MESHES /\ tolid \in TOLS /\ nw \in NWS /\ tauid \in TAUIDS
        /\ (nw = 1 => tauid = 1)
        /\ (BOXDIM < 3 => tolid \in {1, 2} /\ \A d \in Shifts(Tau) : DirectionsInert(Prob, d, BOXDIM))
        /\ phase = "new" /\ W = <<>> /\ amb = FALSE /\ ord = <<>> /\ nc = 0 /\ dat = <<>> /\ X = <<>>
(* Rvectors(lattice, shifts_left_red = centres).set_Rvec(mp_grid, ws_tolerance) *)
CallSetRvec == /\ phase = "new" /\ phase' = "rvec"
           /\ \E CC \in {[d \in Shifts(Tau) |-> WSClasses(Prob, d)]} :      \* one WignerSeitz.__call__ per distinct shift
                   /\ W' = [d \in Shifts(Tau) |-> WSFrom(CC[d])]          \* = SetRvec(Prob, Tau)
                   /\ amb' = (\E d \in Shifts(Tau) : AmbiguousIn(CC[d]))
           /\ UNCHANGED <<gram, mesh, tolid, nw, tauid, ord, nc, dat, X>>
(* set_fft_q_to_R(kpt_red = the mesh points in some order) *)
SetFFTq == /\ phase = "rvec" /\ ~amb /\ phase' = "fft"
           /\ ord' \in Orders
           /\ UNCHANGED <<gram, mesh, tolid, nw, tauid, W, amb, nc, dat, X>>
(* q_to_R(data) *)
DoQtoR == /\ phase = "fft" /\ phase' = "R"
          /\ nc' \in NCS
          /\ \E desc \in Descs(nw) : dat' = DataOf(desc, nw, nc')
          /\ X' = QtoR(Prob, Tau, Wu, ord, dat', L, nw, nc')
          /\ UNCHANGED <<gram, mesh, tolid, nw, tauid, W, amb, ord>>
(* System_R.do_ws_dist(mp_grid) of a system with the old matrices dat (remap_XX_R, exclude_zeros) *)
DoWsDist == /\ phase = "rvec" /\ ~amb /\ phase' = "ws"
            /\ nc' \in NCS \cap {1, 3}
            /\ \E s \in 1..NDENSE : dat' = OldOf(s, nw, nc')
            /\ X' = ExcludeZeros(RemapXXR(Prob, Tau, Wu, dat', L, nw, nc'))
            /\ UNCHANGED <<gram, mesh, tolid, nw, tauid, W, amb, ord>>
Next == CallSetRvec \/ SetFFTq \/ DoQtoR \/ DoWsDist
Spec == Init /\ [][Next]_vars

(* ---------------- C01 *)
HasRvec == phase \in {"rvec", "fft", "R", "ws"}
AllInSearchBox == \A d \in Shifts(Tau) : InSearchBox(Prob, d)
AllMinusSymmetric == \A d \in DOMAIN W : W[Sub3(<<0, 0, 0>>, d)] = MinusSet(W[d])
(* the replica weights of every pair of Wannier functions add up to one per mesh class / to the number of mesh points *)
WeightsOne    == phase = "rvec" => \A d \in DOMAIN W : WeightsPerClass(Prob, W[d]) /\ NoDuplicates(W[d])
                                                      /\ TotalWeightOK(Prob, W[d], LcmDeg(W))
(* R-set of (b,a) = negative of the R-set of (a,b) -- inside the search-box precondition *)
MinusSymmetry == phase = "rvec" /\ AllInSearchBox /\ ~amb => AllMinusSymmetric
(* q -> R -> k on the mesh is the identity, for every order of the mesh points, also outside the precondition *)
RoundTrip     == phase = "R" => RoundTripOK(Prob, X, ord, dat, L, nw, nc)
InputHermitian == phase = "R" => IsHermitianData(dat)
(* X(-R) = X(R)^dagger, conj_XX_R(X) = X *)
HermitianXR   == phase \in {"R", "ws"} /\ AllMinusSymmetric => HermitianR(X)
(* do_ws_dist keeps the values at the mesh points *)
WsDistKeeps   == phase = "ws" => MeshValuesKept(Prob, X, dat, L, nw, nc)
=============================================================================
