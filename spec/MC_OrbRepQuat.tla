--------------------------- MODULE MC_OrbRepQuat ---------------------------
(* rational rotations: every primitive integer quaternion with entries in -QMAX..QMAX gives a rotation matrix with
   rational entries (denominator a^2+b^2+c^2+d^2), with or without inversion.  These are dense in O(3) as QMAX grows and
   are not crystallographic for QMAX >= 2 (e.g. (2,1,0,0): rotation about x with cos = 3/5).  One TLC state per rotation:
   exact s, p, d matrices, orthogonality, parity, and the homomorphism law against a fixed set of partner rotations. *)
EXTENDS OrbRep
CONSTANTS QMAX, NORMS, NPART, Variant,
          SGNS      \* subset of {1, -1}: proper rotations, rotations times inversion
SgnsBoth == {1, -1}          \* for the cfg (no negative literals there):  SGNS <- SgnsBoth  /  SGNS <- SgnsImproper
SgnsImproper == {-1}
VARIABLES q, sgn, R, dp, dd
vars == <<q, sgn, R, dp, dd>>

QN(x) == x[1] * x[1] + x[2] * x[2] + x[3] * x[3] + x[4] * x[4]
FirstNonZeroPositive(x) == \/ x[1] > 0 \/ (x[1] = 0 /\ x[2] > 0) \/ (x[1] = 0 /\ x[2] = 0 /\ x[3] > 0)
                           \/ (x[1] = 0 /\ x[2] = 0 /\ x[3] = 0 /\ x[4] > 0)
Quats == {x \in ((-QMAX)..QMAX) \X ((-QMAX)..QMAX) \X ((-QMAX)..QMAX) \X ((-QMAX)..QMAX) :
             /\ QN(x) \in NORMS /\ FirstNonZeroPositive(x) /\ GCD(GCD(Abs(x[1]), Abs(x[2])), GCD(Abs(x[3]), Abs(x[4]))) = 1}
RotOf(x, s) == LET a == x[1]  b == x[2]  c == x[3]  d == x[4]  n == QN(x) IN
   << <<Rat(s * (a * a + b * b - c * c - d * d), n), Rat(s * 2 * (b * c - a * d), n), Rat(s * 2 * (b * d + a * c), n)>>,
      <<Rat(s * 2 * (b * c + a * d), n), Rat(s * (a * a - b * b + c * c - d * d), n), Rat(s * 2 * (c * d - a * b), n)>>,
      <<Rat(s * 2 * (b * d - a * c), n), Rat(s * 2 * (c * d + a * b), n), Rat(s * (a * a - b * b - c * c + d * d), n)>> >>
Partners == <<C4z, C3d, Inv, C2x>>

Init == /\ q \in Quats /\ sgn \in SGNS
        /\ R = RotOf(q, sgn) /\ dp = DP(R, Variant) /\ dd = DD(R, Variant)
Next == UNCHANGED vars
Spec == Init /\ [][Next]_vars

InO3          == IsOrthogonal(R) /\ Det3(R) = Num(sgn)
RepOrthogonal == IsOrthogonal(dp) /\ IsOrthogonal(dd)
RepParity     == DP(NegM(R), Variant) = NegM(dp) /\ DD(NegM(R), Variant) = dd
RepHom        == \A n \in 1..NPART :
                    LET P == Partners[n] IN
                    /\ MatMul(dp, DP(P, Variant)) = DP(MatMul(R, P), Variant) /\ MatMul(DP(P, Variant), dp) = DP(MatMul(P, R), Variant)
                    /\ MatMul(dd, DD(P, Variant)) = DD(MatMul(R, P), Variant) /\ MatMul(DD(P, Variant), dd) = DD(MatMul(P, R), Variant)
(* the inverse rotation is represented by the transpose *)
RepInverse    == DP(Transpose(R), Variant) = Transpose(dp) /\ DD(Transpose(R), Variant) = Transpose(dd)
Compression   == \A sh \in SubShells : Preserves(sh, R) <=> IsOrthogonal(DSub(sh, dp, dd))
=============================================================================
