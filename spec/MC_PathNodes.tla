---------------------------- MODULE MC_PathNodes ----------------------------
(* Path.from_nodes as its zip loop (one action per iteration), for every node list (with `None` breaks), label choice
   and nk / dk / length choice inside the constants; the finished path is checked against the loop-free statement of
   C29 (explicit positions) and against its refinements. *)
EXTENDS PathSpec

CONSTANTS NodeSet,     \* set of integer node vectors
          MaxNodes,    \* 1..MaxNodes real nodes
          MaxNone,     \* at most this many `None` entries (anywhere but at the end)
          NKS,         \* values of nk
          INVS,        \* values of 1/dk as <<p, q>> (units of LatA)
          LatA,        \* integer reciprocal lattice (rows)
          Factors,     \* refinement factors checked on every finished path
          FullProduct  \* TRUE: default labels with every nk specification; FALSE: default labels only with an integer nk

NodeSetTiny == {<<0, 0, 0>>, <<1, 0, 2>>, <<-1, 1, 1>>}
NodeSetQuick == {<<0, 0, 0>>, <<1, 0, 0>>, <<0, 1, 1>>, <<1, 2, -1>>}
NodeSetCube == {<<x, y, z>> : x \in 0..1, y \in 0..1, z \in 0..1}
NodeSetMid == {<<0, 0, 0>>, <<1, 0, 0>>, <<0, 1, 1>>, <<1, 2, -1>>, <<1, 1, 1>>, <<-1, 0, 2>>}
InvsDef == {<<1, 1>>, <<3, 2>>, <<5, 7>>}
InvsTwo == {<<3, 2>>, <<5, 7>>}
LatOrtho == <<<<1, 0, 0>>, <<0, 2, 0>>, <<0, 0, 3>>>>
LatSkew == <<<<1, 0, 0>>, <<1, 2, 0>>, <<0, -1, 2>>>>

VARIABLES nodes, labs, deflab, spec, i, st, pc
vars == <<nodes, labs, deflab, spec, i, st, pc>>

RealLists == UNION {[1..n -> NodeSet] : n \in 1..MaxNodes}
(* cnt[g] `None` entries in front of real node g (g = 1: leading) *)
NonePatterns(n) == {c \in [1..n -> 0..MaxNone] : FoldLeft(LAMBDA a, b : a + b, 0, c) <= MaxNone}
InsertNones(r, c) == FlattenSeq([m \in 1..Len(r) |-> [x \in 1..c[m] |-> NoneNode] \o <<r[m]>>])
NodeLists == UNION {{InsertNones(r, c) : c \in NonePatterns(Len(r))} : r \in RealLists}
NodeName(v) == "k" \o ToString(v[1]) \o ToString(v[2]) \o ToString(v[3])
Specs(nseg) == {[mode |-> "int", nk |-> <<n>>, inv |-> <<0, 1>>, A |-> LatA] : n \in NKS}
          \cup {[mode |-> "list", nk |-> s, inv |-> <<0, 1>>, A |-> LatA] : s \in [1..nseg -> NKS]}
          \cup {[mode |-> m, nk |-> <<>>, inv |-> v, A |-> LatA] : m \in {"dk", "length"}, v \in INVS}

Init == /\ nodes \in NodeLists
        /\ deflab \in BOOLEAN
        /\ labs = IF deflab THEN DefaultLabels(nodes)
                  ELSE LET rp == RealPositions(nodes) IN [m \in 1..Len(rp) |-> NodeName(nodes[rp[m]])]
        /\ spec \in Specs(NumSegments(nodes))
        /\ NodesOK(nodes) /\ NkOK(nodes, spec)
        /\ (FullProduct \/ (deflab => spec.mode = "int"))
        /\ i = 1 /\ st = ZipInit /\ pc = "zip"

NL == NodeLabels(nodes, labs)
Segment == /\ pc = "zip" /\ i <= Len(nodes) - 1 /\ StartsSegment(nodes, i)
           /\ st' = ZipStep(st, nodes[i], nodes[i + 1], NL[i], spec) /\ i' = i + 1
           /\ UNCHANGED <<nodes, labs, deflab, spec, pc>>
BreakEnd == /\ pc = "zip" /\ i <= Len(nodes) - 1 /\ StartsBreak(nodes, i)
            /\ st' = ZipStep(st, nodes[i], nodes[i + 1], NL[i], spec) /\ i' = i + 1
            /\ UNCHANGED <<nodes, labs, deflab, spec, pc>>
SkipNone == /\ pc = "zip" /\ i <= Len(nodes) - 1 /\ IsNone(nodes[i])
            /\ st' = ZipStep(st, nodes[i], nodes[i + 1], NL[i], spec) /\ i' = i + 1
            /\ UNCHANGED <<nodes, labs, deflab, spec, pc>>
Finish == /\ pc = "zip" /\ i > Len(nodes) - 1
          /\ st' = ZipFinish(st, nodes[Len(nodes)], NL[Len(nodes)]) /\ pc' = "done"
          /\ UNCHANGED <<nodes, labs, deflab, spec, i>>
Next == Segment \/ BreakEnd \/ SkipNone \/ Finish
Spec == Init /\ [][Next]_vars

Done == pc = "done"
(* the loop is the operator used for record validation *)
LoopIsOperator == Done => st = FromNodes(nodes, labs, spec)
(* C29, construction *)
InvNodesInOrder == Done => NodesInOrder(nodes, spec, st)
InvLabelsExact == Done => LabelsExact(nodes, labs, spec, st)
InvUniform == Done => UniformSegments(nodes, spec, st)
InvBreaksExact == Done => BreaksExact(nodes, spec, st)
InvLength == Done => LengthExact(nodes, spec, st)
InvPathOK == Done => PathOK(st) /\ KlineOK(st)
(* the nk chosen from dk / length is the nearest integer of distance / dk (plus one) *)
InvRound == spec.mode \in {"dk", "length"} =>
               \A k \in 1..Len(nodes) : StartsSegment(nodes, k) => RoundIsNearest(Dist2(nodes[k], nodes[k + 1], spec.A), spec.inv)
(* ... and is one of the samplings the relaxed binding accepts for dk / length (DkSpacingOK) *)
InvDkSpacing == spec.mode \in {"dk", "length"} =>
               \A k \in 1..Len(nodes) : StartsSegment(nodes, k) => DkSpacingOK(Dist2(nodes[k], nodes[k + 1], spec.A), spec.inv, NkDecl(nodes, spec, k))
(* C29, path coordinate *)
InvKline == Done => /\ KlineMonotone(st, LatA) /\ KlineFlatAtBreaks(st, LatA) /\ KlineIsDistance(st, LatA)
                    /\ KlineUniform(nodes, spec, st, LatA)
(* C29, refinement of a path built from nodes: every node is still there, at the refined position, with its label *)
InvRefinedNodes ==
   Done => \A f \in Factors :
      LET R == Refined(st, f) rp == RealPositions(nodes) pos == PosSeq(nodes, spec) nk == NkSeq(nodes, spec) IN
      /\ KeepsPoints(st, f, R) /\ KeepsLabels(st, f, R) /\ KeepsBreaks(st, f, R) /\ RefLength(st, f, R) /\ RefUniform(st, f, R)
      /\ KlineRefined(st, f, R, LatA)
      /\ \A m \in 1..Len(rp) :
            LET q == RefIdx(st, f, pos[rp[m]]) IN
            /\ PtEq(R.K[q + 1], Pt(nodes[rp[m]])) /\ R.labels[m] = <<q, NL[rp[m]]>>
      (* a segment sampled with nk points and refined by f is the segment sampled with f (nk - 1) + 1 points *)
      /\ \A k \in 1..Len(nodes) : StartsSegment(nodes, k) =>
            LET n == nk[k] - 1 q == RefIdx(st, f, pos[k]) IN
            \A j \in 0..(f * n) : IsInterp(R.K[q + j + 1], Pt(nodes[k]), Pt(nodes[k + 1]), j, f * n)
=============================================================================
