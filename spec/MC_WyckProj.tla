---------------------------- MODULE MC_WyckProj ----------------------------
(* bounded models for X04, selected by MODE:
   "orbit" : structure (lattice type + sites) -> Build (space group, spatial parts) -> Probe (a list of given positions):
             get_orbit, orbit_and_rottrans, WyckoffPositionNumeric, orbit_from_positions, split_into_orbits
   "proj"  : structure -> Build -> MkSet (a projection set of one or two projections, spinor or not): counting
             properties and the tables of Wannier functions (blocks of the symmetriser, centres / amn order, lines of
             the Wannier90 block)
   "frame" : read_xzaxis on every pair (xaxis, zaxis) of the vector catalogue (None included)
   Every action evaluates the property clauses on what the transcription computed and stores the names of the failed
   ones in `failed`; the invariant is failed = {}.  Every finished state is one test of the real code. *)
EXTENDS WyckProj
CONSTANTS MODE, LATS, STRUCTS, PTSCAT, TOKCAT,
          UNIQEXACT,    \* FALSE: the code; TRUE: orbit_from_positions compares items exactly (must fail)
          BYRANK,       \* FALSE: the code; TRUE: WyckoffPositionNumeric takes the k-th operation (must fail)
          AMNORDER,     \* "entry": centres in the order of the symmetriser's blocks; "site": the code as it is (must fail)
          DOUBLESPIN,   \* TRUE: the code; FALSE: spinor projections counted once (must fail)
          RIGHTHANDED   \* TRUE: the code; FALSE: y = x cross z (must fail)
VARIABLES pc, lat, sites, ops, inp, res, failed
vars == <<pc, lat, sites, ops, inp, res, failed>>

St(t1, p1) == << [type |-> t1, pos |-> p1, mom |-> ZeroV] >>
St2(t1, p1, t2, p2) == << [type |-> t1, pos |-> p1, mom |-> ZeroV], [type |-> t2, pos |-> p2, mom |-> ZeroV] >>
O == <<0, 0, 0>>
StructCat == CASE STRUCTS = "quick" -> { St(1, O), St2(1, O, 2, <<6, 6, 3>>), St2(1, O, 2, <<4, 8, 6>>), St2(1, <<4, 8, 3>>, 1, <<8, 4, 9>>),
                                         St2(1, O, 1, <<6, 6, 6>>) }
               [] STRUCTS = "thorough" -> { St(1, O), St2(1, O, 2, <<6, 6, 3>>), St2(1, O, 2, <<4, 8, 6>>), St2(1, <<4, 8, 3>>, 1, <<8, 4, 9>>),
                                            St2(1, O, 1, <<6, 6, 6>>), St2(1, O, 2, <<6, 6, 6>>), St2(1, O, 2, <<3, 3, 3>>), St2(1, O, 1, <<3, 3, 3>>),
                                            St2(1, O, 2, <<6, 0, 3>>), St2(1, <<0, 0, 2>>, 1, <<6, 6, 8>>) }
               [] STRUCTS = "tiny" -> { St2(1, O, 2, <<6, 6, 3>>) }
               [] STRUCTS = "proj" -> { St(1, O), St2(1, O, 2, <<6, 6, 3>>), St2(1, O, 2, <<4, 8, 6>>) }
Pts == CASE PTSCAT = "quick" -> << O, <<6, 6, 0>>, <<6, 0, 3>>, <<0, 0, 3>>, <<4, 8, 0>>, <<1, 2, 5>> >>
         [] PTSCAT = "thorough" -> << O, <<6, 6, 0>>, <<6, 0, 3>>, <<0, 0, 3>>, <<4, 8, 0>>, <<1, 2, 5>>, <<3, 3, 3>>, <<6, 6, 6>>, <<2, 2, 0>>, <<6, 0, 0>>, <<4, 8, 3>> >>
         [] PTSCAT = "proj" -> << O, <<6, 0, 3>>, <<6, 6, 0>>, <<0, 0, 3>> >>
Toks == CASE TOKCAT = "quick" -> { <<"s">>, <<"p">>, <<"s", "p">>, <<"pz", "s">>, <<"sp3">>, <<"s", "p", "d">> }
          [] TOKCAT = "thorough" -> { <<"s">>, <<"p">>, <<"d">>, <<"f">>, <<"s", "p">>, <<"pz", "s">>, <<"sp3">>, <<"s", "p", "d">>, <<"sp2", "pz">>,
                                      <<"t2g", "eg">>, <<"sp3d2">>, <<"sp", "p2">>, <<"pxy", "pz", "s">>, <<"p", "p">> }
Vecs == {v \in ((-1)..1) \X ((-1)..1) \X ((-1)..1) : TRUE} \cup { <<1, 1, 2>>, <<2, -1, 0>>, <<0, 2, 1>>, <<1, -2, 2>>, <<3, 0, 0>>, <<0, 0, -2>> }

Nil == [none |-> TRUE]
Init == /\ pc = "chosen" /\ ops = <<>> /\ inp = Nil /\ res = Nil /\ failed = {}
        /\ IF MODE = "frame" THEN lat = "none" /\ sites = <<>> ELSE lat \in LATS /\ sites \in StructCat

(* spatial parts of the space group (the structures are non-magnetic); non-primitive cells are left unbuilt *)
Build == /\ pc = "chosen" /\ MODE # "frame"
         /\ LET SG == {g \in SpaceGroupOf(lat, sites) : ~g.tr} IN
              IF PrimitiveCell(SG) THEN pc' = "built" /\ ops' = SetToSeq(SG) ELSE pc' = "excluded" /\ ops' = <<>>
         /\ UNCHANGED <<lat, sites, inp, res, failed>>

-----------------------------------------------------------------------------
(* MODE = "orbit" *)
Shift(p, s) == VAdd(p, VScale(DEN, s))
NextPt(k) == Pts[(k % Len(Pts)) + 1]
Givens == UNION {LET p == Pts[k]  im == Img(ops[Len(ops)], p)  im2 == Img(ops[(Len(ops) + 1) \div 2], p)  q == NextPt(k) IN
                 { <<p>>, <<p, Shift(im, <<1, -1, 0>>)>>, <<Shift(p, <<0, 0, 1>>), im2>>, <<p, Shift(p, <<-1, 0, 2>>), im>>, <<p, q>>,
                   <<q, im, Img(ops[Len(ops)], q), p>> } : k \in 1..Len(Pts)}
OrbitLaws(gv, r) ==
   LET p == gv[1]
       inorbit == \A j \in 1..Len(gv) : SameOrbit(ops, p, gv[j])
   IN {n \in {"orbit", "closed", "orbit_stabiliser", "rottrans", "wyck_status", "wyck_orbit", "wyck_given_first", "wyck_rottrans",
              "ofp_union", "ofp_given_first", "ofp_closed", "split"} :
       ~ CASE n = "orbit" -> IsOrbitOf(r.orbit, ops, p)
           [] n = "closed" -> ClosedUnder(r.orbit, ops)
           [] n = "orbit_stabiliser" -> OrbitStabiliser(ops, p, Len(r.orbit)) /\ r.nstab = StabCount(ops, p)
           [] n = "rottrans" -> RotTransMap(r.ort.orbit, r.ort.rot, r.ort.trans, p) /\ r.ort.orbit = r.orbit
           [] n = "wyck_status" -> r.wy.ok = inorbit
           [] n = "wyck_orbit" -> r.wy.ok => IsOrbitOf(r.wy.pos, ops, p)
           [] n = "wyck_given_first" -> r.wy.ok => GivenFirst(r.wy.pos, gv)
           [] n = "wyck_rottrans" -> r.wy.ok => RotTransMap(r.wy.pos, r.wy.rot, r.wy.trans, p)
           [] n = "ofp_union" -> UnionOfOrbits(r.ofp, ops, gv)
           [] n = "ofp_given_first" -> GivenFirst(r.ofp, gv)
           [] n = "ofp_closed" -> ClosedUnder(r.ofp, ops)
           [] n = "split" -> IsPartitionByOrbit(r.split, ops, gv) }
Probe == /\ pc = "built" /\ MODE = "orbit"
         /\ \E gv \in Givens :
              \E r \in {[orbit |-> GetOrbit(ops, gv[1]), nstab |-> StabCount(ops, gv[1]), ort |-> OrbitAndRotTrans(ops, gv[1]),
                         wy |-> WyckNumericV(ops, gv, BYRANK), ofp |-> OrbitFromPositionsV(ops, gv, UNIQEXACT),
                         split |-> SplitIntoOrbits(ops, gv), nops |-> Len(ops)]} :
                 /\ inp' = [given |-> gv] /\ res' = r /\ failed' = OrbitLaws(gv, r)
         /\ pc' = "probed" /\ ops' = <<>>        \* the group stays in the "built" state only (small dumps)
         /\ UNCHANGED <<lat, sites>>

-----------------------------------------------------------------------------
(* MODE = "proj": a projection is given by [pt, tokens, nosplit]; npts is the size of the orbit of pt *)
ProjCat == {[pt |-> Pts[k], tokens |-> t, nosplit |-> ns] : k \in 1..Len(Pts), t \in Toks, ns \in BOOLEAN} \ 
           {c \in [pt : SeqSet(Pts), tokens : Toks, nosplit : {TRUE}] : Len(c.tokens) = 1}
Second == { [pt |-> Pts[1], tokens |-> <<"s">>, nosplit |-> FALSE], [pt |-> Pts[2], tokens |-> <<"p", "s">>, nosplit |-> FALSE] }
ProjOf(c, sp) == [npts |-> Len(GetOrbit(ops, c.pt)), entries |-> SplitOrbital(c.tokens, c.nosplit), spinor |-> sp]
ProjLaws(S, r) ==
   {n \in {"count", "total", "blocks", "dwann_once", "amn_once", "lines", "centres_match_blocks", "agree_iff"} :
      ~ CASE n = "count" -> \A i \in 1..Len(S) : /\ r.nums[i].per_site = r.nums[i].per_site_scalar * (IF S[i].spinor THEN 2 ELSE 1)
                                                  /\ r.nums[i].num_wann = S[i].npts * r.nums[i].per_site
                                                  /\ r.nums[i].per_site_scalar = SeqSum([k \in 1..Len(S[i].entries) |-> NumOrbEntry(S[i].entries[k])])
          [] n = "total" -> r.num_wann = SeqSum([i \in 1..Len(S) |-> r.nums[i].num_wann]) /\ Len(r.tdwann) = r.num_wann
          [] n = "blocks" -> /\ (Len(r.blocks) > 0 => r.blocks[1][1] = 0 /\ r.blocks[Len(r.blocks)][2] = r.num_wann)
                             /\ \A b \in 1..(Len(r.blocks) - 1) : r.blocks[b][2] = r.blocks[b + 1][1]
                             /\ Len(r.blocks) = SeqSum([i \in 1..Len(S) |-> Len(S[i].entries)])
          [] n = "dwann_once" -> EveryFunctionOnce(r.tdwann, S)
          [] n = "amn_once" -> EveryFunctionOnce(r.tamn, S)
          [] n = "lines" -> ExpandLines(S, r.lines) = r.tdwann
          [] n = "centres_match_blocks" -> SitesOf(r.tamn) = SitesOf(r.tdwann)
          [] n = "agree_iff" -> (CentreSites(S, "site") = SitesOf(r.tdwann)) = SingleEntryOrPoint(S) }
MkSet == /\ pc = "built" /\ MODE = "proj"
         /\ \E sp \in BOOLEAN : \E cs \in {<<c>> : c \in ProjCat} \cup {<<c, d>> : c \in ProjCat, d \in Second} :
              \E S \in {[i \in 1..Len(cs) |-> ProjOf(cs[i], sp)]} :
              \E r \in {[nums |-> [i \in 1..Len(S) |-> [per_site_scalar |-> PerSiteScalar(S[i]), per_site |-> PerSiteV(S[i], DOUBLESPIN),
                                                         num_wann |-> NumWannV(S[i], DOUBLESPIN), num_wann_scalar |-> NumWannScalar(S[i])]],
                         num_wann |-> SetNumWannV(S, DOUBLESPIN), tdwann |-> TblDwann(S), tamn |-> TblAmn(S, AMNORDER),
                         blocks |-> Blocks(S), lines |-> W90Lines(S), agree_site |-> SitesAgree(S, "site")]} :
                 /\ inp' = [cs |-> cs, spinor |-> sp, set |-> S] /\ res' = r /\ failed' = ProjLaws(S, r)
         /\ pc' = "made" /\ ops' = <<>>
         /\ UNCHANGED <<lat, sites>>

-----------------------------------------------------------------------------
(* MODE = "frame" *)
FrameLaws(x, z, f) ==
   {n \in {"refuse_iff", "frame_ok", "keeps_given", "towards_default"} :
      ~ CASE n = "refuse_iff" -> (~f.ok) = MustRefuse(x, z)
          [] n = "frame_ok" -> f.ok => FrameOK(f)
          [] n = "keeps_given" -> f.ok => KeepsGiven(f, x, z)
          [] n = "towards_default" -> f.ok => TowardsDefault(f, x, z) }
Eval == /\ pc = "chosen" /\ MODE = "frame"
        /\ \E x \in Vecs \cup {NoneV} : \E z \in Vecs \cup {NoneV} : \E f \in {ReadXZV(x, z, RIGHTHANDED)} :
              inp' = [x |-> x, z |-> z] /\ res' = f /\ failed' = FrameLaws(x, z, f)
        /\ pc' = "framed" /\ UNCHANGED <<lat, sites, ops>>

Next == Build \/ Probe \/ MkSet \/ Eval
Spec == Init /\ [][Next]_vars
NoFailedLaw == failed = {}
(* the exclusion of frames is never needed inside the catalogue *)
FramesSmall == pc = "framed" => SmallVec(inp.x, 3) /\ SmallVec(inp.z, 3)
=============================================================================
