---------------------------- MODULE MC_SymOrbits ----------------------------
(* every structure of a small catalogue = one TLC state: lattice type (cubic, tetra, ortho, hex), one or two sites (equal or different species,
   optionally with magnetic moments along z), positions with denominator DEN.  The state carries the space group
   (modulo lattice translations), the site maps, the integer shifts T, the images of a list of hopping triples and
   the irreducible triples; the invariants are the group axioms and C20/C21's discrete clauses. *)
EXTENDS SymOrbits
CONSTANTS LATS, NSITES,
          POSCAT,     \* name of the position catalogue
          MAGNETIC,   \* "none"; "z": sites may carry moments 0, +z, -z; "zx": also +x
          BLOCKMAP,   \* how the image of a hopping triple (R, a, b) between two projection blocks finds its sites: "own" = a through the
                      \* site map of its block, b through the site map of its block (the code); "row" = both through the map of the
                      \* row block (must fail BlockTripleMap)
          SUBREPS     \* symmetrisation with a subgroup H (option use_symmetries_index): "sub" = representatives of the triples
                      \* w.r.t. H (the code); "full" = w.r.t. the full group while averaging uses H (must fail SubReach)

POS == CASE POSCAT = "c3v"   -> { <<0, 0, 0>>, <<1, 1, 1>> }
         [] POSCAT = "pair"  -> { <<0, 0, 0>>, <<2, 0, 1>> }
         [] POSCAT = "tiny"  -> { <<0, 0, 0>>, <<2, 2, 2>>, <<2, 0, 1>> }
         [] POSCAT = "small" -> { <<0, 0, 0>>, <<2, 2, 2>>, <<2, 0, 1>>, <<2, 2, 0>>, <<1, 1, 1>> }
         [] POSCAT = "large" -> { <<0, 0, 0>>, <<2, 2, 2>>, <<2, 0, 1>>, <<2, 2, 0>>, <<1, 1, 1>>, <<2, 0, 0>>, <<0, 0, 1>>, <<0, 2, 3>>, <<3, 1, 0>> }
MOMS == CASE MAGNETIC = "none" -> { <<0, 0, 0>> }
          [] MAGNETIC = "z" -> { <<0, 0, 0>>, <<0, 0, 1>>, <<0, 0, -1>> }
          [] MAGNETIC = "zx" -> { <<0, 0, 0>>, <<0, 0, 1>>, <<0, 0, -1>>, <<1, 0, 0>> }

VARIABLES pc, lat, sites, ops, amap, tvec, rlist, tmap, irr, shells, mixed,
          sub,     \* for every kind of subgroup: the set of operation numbers (indices into ops) that form it
          irrs     \* for every kind of subgroup: the irreducible triples used when only that subgroup is applied
vars == <<pc, lat, sites, ops, amap, tvec, rlist, tmap, irr, shells, mixed, sub, irrs>>
(* proper subgroups a user may select: proper rotations without time reversal; identity + one two-fold rotation (the first in
   the list, possibly a screw); identity + inversion.  A kind the group does not have degenerates to {identity}. *)
SubKinds == {"proper", "c2", "inv"}
NegId3 == M3(LAMBDA i, j : IF i = j THEN -1 ELSE 0)
SubIdx(o, kind) ==
   LET N == 1..Len(o)
       id == {n \in N : o[n] = Identity}
       P == {n \in N : DetI(o[n].W) = 1 /\ ~o[n].tr}
       C == {n \in P : o[n].W # Id3 /\ Compose(o[n], o[n]) = Identity}
   IN CASE kind = "proper" -> P
        [] kind = "c2" -> id \cup (IF C = {} THEN {} ELSE {CHOOSE n \in C : \A m \in C : n <= m})
        [] kind = "inv" -> {n \in N : ~o[n].tr /\ o[n].W \in {Id3, NegId3}}

(* R vectors used for the triple maps: deliberately not closed under the point groups (images may fall outside) *)
RL == << <<0, 0, 0>>, <<1, 0, 0>>, <<0, 1, 0>>, <<0, 0, 1>>, <<-1, 0, 0>>, <<1, 1, 0>>, <<0, -1, 1>>, <<1, 1, 1>>, <<0, 0, -2>> >>
(* class two_multi_site_blocks_permuted_differently: two species, each an orbit of two sites, and an operation that permutes
   the two species differently as permutations of the listed sites (POSCAT = "twoblocks"; NSITES is ignored) *)
Site(ty, p) == [type |-> ty, pos |-> p, mom |-> <<0, 0, 0>>]
TwoBlockInPlane == <<Site(1, <<1, 0, 0>>), Site(1, <<3, 0, 0>>), Site(2, <<0, 1, 0>>), Site(2, <<0, 3, 0>>)>>   \* not in the class on the hexagonal cell
TwoBlockStructures == { TwoBlockInPlane,
                        <<Site(1, <<1, 0, 0>>), Site(1, <<3, 0, 0>>), Site(2, <<0, 0, 3>>), Site(2, <<0, 0, 1>>)>>,
                        <<Site(1, <<1, 1, 0>>), Site(2, <<2, 0, 3>>), Site(1, <<3, 3, 0>>), Site(2, <<2, 0, 1>>)>> }
GenericStructures == UNION { {[n \in 1..ns |-> [type |-> ty[n], pos |-> ps[n], mom |-> ms[n]]] :
                           ty \in {f \in [1..ns -> 1..2] : f[1] = 1}, ps \in [1..ns -> POS], ms \in [1..ns -> MOMS]} : ns \in NSITES }
Structures == IF POSCAT = "twoblocks" THEN (IF lat = "hex" THEN TwoBlockStructures \ {TwoBlockInPlane} ELSE TwoBlockStructures) ELSE GenericStructures
G == {ops[n] : n \in 1..Len(ops)}
AllSites == 1..Len(sites)
(* cached action: operation number n on a triple, using the tabulated site maps and shifts *)
TM(n, x) == <<VAdd(MV(ops[n].W, x[1]), VSub(tvec[n][x[2]], tvec[n][x[3]])), amap[n][x[2]], amap[n][x[3]]>>
Init == /\ pc = "chosen" /\ lat \in LATS /\ sites \in Structures /\ DistinctSites(sites)
        /\ ops = <<>> /\ amap = <<>> /\ tvec = <<>> /\ rlist = RL /\ tmap = <<>> /\ irr = {} /\ shells = {} /\ mixed = {}
        /\ sub = <<>> /\ irrs = <<>>
(* structures whose cell is not primitive are left unbuilt (named exclusion PrimitiveCell) *)
Build == /\ pc = "chosen"
         /\ LET SG == SpaceGroupOf(lat, sites) IN
              IF PrimitiveCell(SG)
              THEN /\ pc' = "built"
                   /\ ops' = SetToSeq(SG)
                   /\ amap' = [n \in 1..Len(ops') |-> AtomMap(sites, ops'[n])]
                   /\ tvec' = [n \in 1..Len(ops') |-> TVec(sites, ops'[n])]
                   /\ tmap' = [n \in 1..Len(ops') |-> [r \in 1..Len(RL) |-> [a \in AllSites |-> [b \in AllSites |->
                                  <<VAdd(MV(ops'[n].W, RL[r]), VSub(tvec'[n][a], tvec'[n][b])), amap'[n][a], amap'[n][b]>>]]]]
                   /\ irr' = LET X == Triples(RL, AllSites, AllSites) IN
                             {x \in X : \A n \in 1..Len(ops') :
                                 LET y == <<VAdd(MV(ops'[n].W, x[1]), VSub(tvec'[n][x[2]], tvec'[n][x[3]])), amap'[n][x[2]], amap'[n][x[3]]>>
                                 IN y \in X => (y = x \/ KeyLess(Key(RL, x), Key(RL, y)))}
                   /\ shells' = {sh \in ProjShells : ShellAllowedIn(lat, SG, sh)}
                   /\ mixed' = MixedCentreSites(lat, sites, SG)
                   /\ sub' = [kind \in SubKinds |-> SubIdx(ops', kind)]
                   /\ irrs' = [kind \in SubKinds |->
                                LET X == Triples(RL, AllSites, AllSites)
                                    H == IF SUBREPS = "full" THEN 1..Len(ops') ELSE SubIdx(ops', kind) IN
                                {x \in X : \A n \in H :
                                    LET y == <<VAdd(MV(ops'[n].W, x[1]), VSub(tvec'[n][x[2]], tvec'[n][x[3]])), amap'[n][x[2]], amap'[n][x[3]]>>
                                    IN y \in X => (y = x \/ KeyLess(Key(RL, x), Key(RL, y)))}]
              ELSE /\ pc' = "excluded" /\ UNCHANGED <<ops, amap, tvec, tmap, irr, shells, mixed, sub, irrs>>
         /\ UNCHANGED <<lat, sites, rlist>>
Next == Build
Spec == Init /\ [][Next]_vars

Box == Triples(RL, AllSites, AllSites)
SmallBox == {y \in Box : y[1] \in {RL[1], RL[2], RL[7]}}
(* one representative per spatial part (time reversal does not act on sites) *)
N0 == {n \in 1..Len(ops) : \A m \in 1..(n - 1) : ops[m].W # ops[n].W \/ ops[m].t # ops[n].t}
MulIdx(NN, n, m) == LET c == Compose(ops[n], ops[m]) IN CHOOSE k \in NN : ops[k].W = c.W /\ ops[k].t = c.t
OrbitN(NN, x) == {TM(n, x) : n \in NN}
Built == pc = "built"
(* definitions are re-evaluated at every use by TLC, hence the LETs that bind the sets once per invariant *)
-----------------------------------------------------------------------------
CachedTables == Built => \A n \in {k \in 1..Len(ops) : k <= 16} :
                  /\ amap[n] = AtomMap(sites, ops[n]) /\ tvec[n] = TVec(sites, ops[n])
                  /\ \A x \in {y \in SmallBox : y[1] = RL[7]} : TM(n, x) = TripleMap(sites, ops[n], x)
IrrDefinition == (Built /\ Len(ops) <= 16) => irr = Irreducible(sites, G, RL, AllSites, AllSites)
GroupAxioms == Built => LET GG == G IN
                        /\ Identity \in GG
                        /\ \A g, f \in GG : Compose(g, f) \in GG
                        /\ \A g \in GG : \E f \in GG : Compose(g, f) = Identity
(* non-magnetic structures: time reversal itself is a symmetry, every operation comes with and without it *)
GreyGroup == (Built /\ ~Magnetic(sites)) => LET GG == G IN \A g \in GG : [g EXCEPT !.tr = ~g.tr] \in GG
SiteMapPermutation == Built => \A n \in 1..Len(ops) : {amap[n][k] : k \in AllSites} = AllSites
                                             /\ \A k \in AllSites : sites[amap[n][k]].type = sites[k].type
ShiftsIntegral == Built => \A n \in 1..Len(ops) : TExact(sites, ops[n])
(* centres map onto their symmetry images: p_map(a) = g(p_a) + DEN * T[a] *)
CentreMap == Built => \A n \in 1..Len(ops) : \A k \in AllSites :
                 sites[amap[n][k]].pos = VAdd(Apply(ops[n], sites[k].pos), VScale(DEN, tvec[n][k]))
(* the action on sites and triples is a group action *)
SiteAction == Built => LET NN == N0 IN \A n, m \in NN : LET k == MulIdx(NN, n, m) IN \A a \in AllSites : amap[k][a] = amap[n][amap[m][a]]
TripleAction == Built => LET NN == N0  SB == SmallBox IN
                         \A n, m \in NN : LET k == MulIdx(NN, n, m) IN \A x \in SB : TM(k, x) = TM(n, TM(m, x))
TripleInjective == Built => LET NN == N0  BB == Box  c == Cardinality(BB) IN \A n \in NN : Cardinality({TM(n, x) : x \in BB}) = c
TripleInverse == Built => LET NN == N0  SB == SmallBox IN \A n \in NN : \E m \in NN : \A x \in SB : TM(m, TM(n, x)) = x
OrbitsPartition == Built => LET NN == N0  BB == Box  O == {OrbitN(NN, x) : x \in BB} IN \A A, B \in O : A = B \/ A \cap B = {}
(* find_irreducible_Rab: every listed triple lies in the orbit of exactly one irreducible listed triple *)
IrreducibleReach == Built => LET NN == N0  BB == Box  OI == {<<r, OrbitN(NN, r)>> : r \in irr} IN
                             \A x \in BB : Cardinality({o \in OI : x \in o[2]}) = 1
(* Hermiticity partner: (R, a, b) <-> (-R, b, a) commutes with the action, so symmetrisation keeps X(-R) = X(R)^dagger *)
Flip(x) == <<VNeg(x[1]), x[3], x[2]>>
FullShellsAllowed == Built => (IF lat = "hex" THEN {"s", "p", "d"} ELSE {"s", "p", "d", "sp3d2", "t2g", "eg"}) \subseteq shells
(* equivalent sites are alike *)
MixedOrbitClosed == Built => \A n \in 1..Len(ops) : \A k \in AllSites : (k \in mixed) <=> (amap[n][k] \in mixed)
(* projection blocks = the species, sites in the listed order.  The site map of a block is the permutation of its own list; the
   image of a triple between two blocks takes the row site through the map of the row block and the column site through the
   map of the column block *)
BlockOf(ty) == SelectSeq([k \in 1..Len(sites) |-> k], LAMBDA k : sites[k].type = ty)
PosIn(blk, k) == CHOOSE i \in 1..Len(blk) : blk[i] = k
LocalMap(blk, n) == [i \in 1..Len(blk) |-> PosIn(blk, amap[n][blk[i]])]
Types == {sites[k].type : k \in AllSites}
BlockTripleMap == Built => \A ta, tb \in Types : LET A == BlockOf(ta)  B == BlockOf(tb) IN
                     \A n \in 1..Len(ops) : \A i \in 1..Len(A) : \A j \in 1..Len(B) :
                        LET ma == LocalMap(A, n)  mb == IF BLOCKMAP = "row" THEN LocalMap(A, n) ELSE LocalMap(B, n)
                            y == TM(n, <<RL[2], A[i], B[j]>>)
                        IN (Len(A) = Len(B) \/ BLOCKMAP = "own") => (y[2] = A[ma[i]] /\ y[3] = B[mb[j]])
(* the class is not empty in the catalogue "twoblocks" *)
BlocksPermutedDifferently == (Built /\ POSCAT = "twoblocks") =>
                     \E n \in 1..Len(ops) : Len(BlockOf(1)) > 1 /\ Len(BlockOf(1)) = Len(BlockOf(2)) /\ LocalMap(BlockOf(1), n) # LocalMap(BlockOf(2), n)
(* symmetrisation with a subgroup: the selected operations form a group, and the representatives reach every listed triple
   under the operations that are actually applied *)
SubgroupClosed == Built => \A kind \in SubKinds : LET H == sub[kind] IN
                     /\ \E n \in H : ops[n] = Identity
                     /\ \A n, m \in H : \E k \in H : ops[k] = Compose(ops[n], ops[m])
SubReach == Built => LET BB == Box IN \A kind \in SubKinds : LET H == sub[kind]  I == irrs[kind] IN
                     I \subseteq BB /\ \A x \in BB : \E r \in I : \E n \in H : TM(n, r) = x
FlipCommutes == Built => LET NN == N0  BB == Box IN \A n \in NN : \A x \in BB : TM(n, Flip(x)) = Flip(TM(n, x))
=============================================================================
