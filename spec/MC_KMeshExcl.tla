---------------------------- MODULE MC_KMeshExcl ----------------------------
(* exclude_equiv_points as the two nested loops of the code, for every short K list over a small universe of points
   (several members of two orbits, two refinement levels), every number of old points, every processing order
   np.argsort may produce and every wall structure that keeps equivalent points together: the result never depends
   on the order, equals the declarative ExcludeEquiv, and no weight is lost.  Init enumerates the inputs, the action
   Call evaluates the loops (inputs violating the preconditions of the call have no successor). *)
EXTENDS KMesh
CONSTANTS LenMax,      \* longest K list
          NKinds,      \* number of point kinds used (<= 8)
          LoseWeight   \* FALSE: the code; TRUE: deletion without absorb (sensitivity self-test)
VARIABLES kl, nOld, srt, walls, pc, res
vars == <<kl, nOld, srt, walls, pc, res>>

gx == [n |-> <<2, 2, 1>>, nd |-> <<2, 2, 1>>, L |-> 1]          \* fine lattice 8 x 8 x 2
Gx == TLCEval(GroupOf("tet_C4v"))
(* (1,3),(5,1),(7,3) lie on one orbit of eight points, (1,1),(7,7) on an orbit of four, (4,0),(0,4) are two images of
   a coarse grid point; the last kind has the coordinates of the first one on another refinement level *)
KindTable == << KPt(<<1, 3, 0>>, 1, 0), KPt(<<5, 1, 0>>, 1, 0), KPt(<<1, 1, 0>>, 1, 0), KPt(<<4, 0, 0>>, 0, 0),
                KPt(<<0, 4, 0>>, 0, 0), KPt(<<7, 7, 0>>, 1, 0), KPt(<<7, 3, 0>>, 1, 0), KPt(<<1, 3, 0>>, 0, 0) >>

Lists == UNION { [1..m -> 1..NKinds] : m \in 1..LenMax }
(* the i-th K-point carries the weight 2^(i-1): every subset of the list has its own total *)
MkList(f) == [i \in 1..Len(f) |-> [KindTable[f[i]] EXCEPT !.fac = Pow(2, i - 1)]]
WallsOf(B, m) == LET cuts == SetToSortSeq(B \cup {m}, <) IN [g \in 1..Len(cuts) |-> << IF g = 1 THEN 1 ELSE cuts[g - 1] + 1, cuts[g] >>]
AllWalls(m) == {WallsOf(B, m) : B \in SUBSET (1..(m - 1))}

Init == /\ kl \in {MkList(f) : f \in Lists}
        /\ nOld \in 0..Len(kl)
        /\ srt \in SetToSeqs(1..Len(kl))
        /\ walls \in AllWalls(Len(kl))
        /\ pc = "in" /\ res = <<>>
(* preconditions of a call: the old points are pairwise inequivalent (previous call) and equivalent points have the
   same distance to Gamma, hence share a wall group *)
Call == /\ pc = "in"
        /\ LET key == Keys(kl, gx, Gx) IN
             /\ OldDistinctK(key, nOld) /\ WallsRespectOrbitsK(key, srt, walls)
             /\ res' = ExclLoopK(kl, nOld, srt, walls, key, LoseWeight)
        /\ pc' = "done" /\ UNCHANGED <<kl, nOld, srt, walls>>
Next == Call
Spec == Init /\ [][Next]_vars

Done == pc = "done"
WellFormed == IsPermutation(srt, Len(kl)) /\ IsWalls(walls, Len(kl))
LoopEqualsDeclarative == Done => res = ExcludeEquiv(kl, nOld, gx, Gx)
WeightKept    == Done => TotalWeight(res) = TotalWeight(kl)
Lossless      == Done => MergeLossless(kl, res, gx, Gx)
(* after the call no new point is equivalent to any other point of the list *)
NewPointsUnique == Done => LET key == Keys(res, gx, Gx) IN \A i, j \in 1..Len(res) : (i < j /\ j > nOld) => key[i] # key[j]
OldPointsStay == Done => \A i \in 1..nOld : res[i].c = kl[i].c /\ res[i].lev = kl[i].lev /\ res[i].fac >= kl[i].fac
=============================================================================
