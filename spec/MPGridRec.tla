----------------------------- MODULE MPGridRec -----------------------------
(* code -> spec for C23: recorded calls of the real get_mp_grid / grid_from_kpoints, one TLC state per record *)
EXTENDS MPGrid, Json, IOUtils, TLCExt
VARIABLE i
Recs == JsonDeserialize(IOEnv.TRACE_FILE).recs
Rec == Recs[i]
T3(s) == << s[1], s[2], s[3] >>
Pts == TLCEval([q \in 1..Len(Rec.pts) |-> T3(Rec.pts[q])])       \* TLCEval: tabulated once
Res(r) == [err |-> r.err, val |-> [q \in 1..Len(r.val) |-> r.val[q]]]
Same(r, x) == r.err = x.err /\ Len(r.val) = Len(x.val) /\ \A q \in 1..Len(r.val) : r.val[q] = x.val[q]
Grid == IF Len(Rec.grid) = 0 THEN NoGrid ELSE T3(Rec.grid)
N == T3(Rec.n)
Clauses ==
   [ in_model   |-> Representable(Pts, Rec.DEN),
     mp_equals_spec   |-> Same(Res(Rec.mp), GetMpGrid(Pts, Rec.DEN)),
     gfk_equals_spec  |-> Same(Res(Rec.gfk), GridFromKpoints(Pts, Grid, Rec.DEN)),
     complete_detected |-> (Rec.kind \in {"complete", "dup"}) => (Same(Res(Rec.mp), Ok(N)) /\
                              (Grid = NoGrid => Same(Res(Rec.gfk), Ok(N)))),
     each_point_once  |-> (Rec.kind \in {"complete", "dup"} /\ Grid # NoGrid) =>
                              (Rec.gfk.err = "" /\ EachMeshPointOnce(Res(Rec.gfk).val, Pts, Grid, Rec.DEN)),
     incomplete_rejected |-> (Rec.kind = "removed" /\ Grid = N) => Rec.gfk.err = "ValueError" ]
Report == \A c \in DOMAIN Clauses : Clauses[c] \/ PrintT(<<"BAD", i, c>>)
RecInit == i \in 1..Len(Recs)
RecSpec == RecInit /\ [][UNCHANGED i]_i
=============================================================================
