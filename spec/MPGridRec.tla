----------------------------- MODULE MPGridRec -----------------------------
(* code -> spec for C23: recorded calls of the real get_mp_grid / grid_from_kpoints, one TLC state per record *)
EXTENDS MPGrid, Json, IOUtils, TLCExt
VARIABLE i
Recs == JsonDeserialize(IOEnv.TRACE_FILE).recs
Rec == Recs[i]
T3(s) == << s[1], s[2], s[3] >>
Pts == TLCEval([q \in 1..Len(Rec.pts) |-> T3(Rec.pts[q])])       \* TLCEval: tabulated once
Res(r) == [err |-> r.err, val |-> [q \in 1..Len(r.val) |-> r.val[q]]]
Same(r, x) == r.err = x.err /\ Len(r.val) = Len(x.val) /\ \A q \in 1..Len(r.val) : r.val[q] = x.val[q]
Grid == IF Len(Rec.grid) = 0 THEN NoGrid ELSE T3(Rec.grid)
N == T3(Rec.n)
(* Property clauses (representation-free: any exception class, any order of the selection, any copy of a repeated point).
   Clauses whose name starts with info_ compare with the transcription of today's code (exception class, order of the
   indices, behaviour of get_mp_grid on lists that are not meshes); they are reported as information, never as violation *)
GridOK == Grid = NoGrid \/ (Grid[1] >= 1 /\ Grid[2] >= 1 /\ Grid[3] >= 1)
LcmT == LET L == LcmGrid(Pts, Rec.DEN) IN << L[1], L[2], L[3] >>
Defined == IF Grid = NoGrid THEN IsSomeMesh(Pts, Rec.DEN) ELSE SelectionDefined(Pts, Grid, Rec.DEN)
Clauses ==
   [ in_model   |-> Representable(Pts, Rec.DEN) /\ GridOK,
     status_is_property |-> (Rec.gfk.err = "") = Defined,
     detected_grid |-> (Rec.gfk.err = "" /\ Grid = NoGrid) => Same(Res(Rec.gfk), Ok(LcmT)),
     each_point_once  |-> (Rec.gfk.err = "" /\ Grid # NoGrid) => EachMeshPointOnce(Res(Rec.gfk).val, Pts, Grid, Rec.DEN),
     complete_detected |-> (NoDuplicates(Pts) /\ IsSomeMesh(Pts, Rec.DEN)) => Same(Res(Rec.mp), Ok(LcmT)),
     kind_consistent |-> /\ (Rec.kind \in {"complete", "dup"} => (IsSomeMesh(Pts, Rec.DEN) /\ LcmT = N))
                         /\ (Rec.kind = "removed" => ~SelectionDefined(Pts, N, Rec.DEN)),
     info_mp_equals_spec   |-> Same(Res(Rec.mp), GetMpGrid(Pts, Rec.DEN)),
     info_gfk_equals_spec  |-> Len(Pts) <= 150 => Same(Res(Rec.gfk), GridFromKpoints(Pts, Grid, Rec.DEN)) ]   \* (quadratic: small lists only)
Report == \A c \in DOMAIN Clauses : Clauses[c] \/ PrintT(<<"BAD", i, c>>)
RecInit == i \in 1..Len(Recs)
RecSpec == RecInit /\ [][UNCHANGED i]_i
=============================================================================
