---------------------------- MODULE MC_SysFiles ----------------------------
(* one state per (system, Ndegen pattern): the token tables of the three text files as written (TbLinesNd, HrLinesNd,
   WccLines) and what the readers make of them.  Ndegen pattern 0 is what the writers of the code produce (all ones);
   the other patterns are files of other origin (Wannier90 writes the Wigner-Seitz degeneracies), whose matrix rows carry
   H(R) * Ndegen(R) and must be read back as H(R). *)
EXTENDS MC_SysStore
CONSTANTS NDPATS
VARIABLES par, ndp, sys, nd, tb, hr, wcc, rtb, rtbAA, rhr, tbI, rtbI
fvars == <<par, ndp, sys, nd, tb, hr, wcc, rtb, rtbAA, rhr, tbI, rtbI>>
NdOf(p, n) == [ir \in 1..n |-> IF p = 0 THEN 1 ELSE 1 + ((ir * p) % 3)]
FInit == \E p \in Params : \E q \in NDPATS :
   /\ store = <<>> /\ disk = <<>> /\ hist = <<>>          \* the state machine of MC_SysStore is not used here
   /\ par = p /\ ndp = q
   /\ sys = SysOf(p[1], p[2], p[3], p[4], p[5], p[6])
   /\ nd = NdOf(q, Len(sys.R))
   /\ tb = TbLinesNd(sys, nd) /\ hr = HrLinesNd(sys, nd) /\ wcc = WccLines(sys.cen)
   /\ rtb = ReadTb(tb, FALSE, TRUE, sys.cen)
   /\ rtbAA = IF Has(sys, "AA") THEN ReadTb(tb, TRUE, FALSE, sys.cen) ELSE Fail("not applicable")
   /\ rhr = ReadHr(hr, wcc, sys.lat, FALSE, sys.cen)
   \* convention I on both sides: to_tb_file(use_convention_II=False), from_tb_file(convention_II_to_I=False, centres passed)
   /\ tbI = IF Has(sys, "AA") THEN TbLinesNdC(sys, nd, FALSE) ELSE <<>>
   /\ rtbI = IF Has(sys, "AA") THEN ReadTbC(tbI, TRUE, TRUE, sys.cen, FALSE) ELSE Fail("not applicable")
FNext == UNCHANGED <<fvars, vars>>
FSpec == FInit /\ [][FNext]_<<fvars, vars>>
(* C18 on files: the readers invert the writers for every Ndegen pattern *)
TbFileInverse == rtb.err = "" /\ SameCore(sys, rtb.sys) /\ SameLattice(sys, rtb.sys) /\ SameCentres(sys, rtb.sys)
TbFileInverseAA == Has(sys, "AA") => /\ rtbAA.err = "" /\ SameCore(sys, rtbAA.sys)
                                     /\ (AADiagZero(sys) => SameCentres(sys, rtbAA.sys) /\ SameTable(sys, rtbAA.sys, "AA"))
(* a file in convention I read without the conversion gives AA back whatever its diagonal is *)
TbFileInverseConvI == Has(sys, "AA") => /\ rtbI.err = "" /\ SameCore(sys, rtbI.sys) /\ SameLattice(sys, rtbI.sys)
                                        /\ SameCentres(sys, rtbI.sys) /\ SameTable(sys, rtbI.sys, "AA")
HrFileInverse == rhr.err = "" /\ SameCore(sys, rhr.sys) /\ SameCentres(sys, rhr.sys)
(* layout facts the readers rely on *)
NdegenLayout == LET nR == Len(sys.R)  nl == (nR + 14) \div 15 IN
                /\ \A l \in 1..nl : Len(tb[6 + l]) = (IF l < nl THEN 15 ELSE nR - 15 * (nl - 1))
                /\ Len(tb) = 6 + nl + (IF Has(sys, "AA") THEN 2 ELSE 1) * nR * (sys.nw * sys.nw + 2)
                /\ Len(hr) = 3 + nl + nR * sys.nw * sys.nw
                /\ Len(wcc) = sys.nw
=============================================================================
