------------------------------ MODULE W90Store ------------------------------
(* C19: the Wannier90 file objects (w90files/*.py) with their text writers/readers and their npz persistence
   (io.SavableNPZ), and the WannierData container (wandata.py).

   A file object is a record [cls, attr, dic, dim]:
     attr : the npz_tags / npz_tags_optional that are set           (tag name -> value)
     dic  : the npz_keys_dict_int(_optional) dictionaries           (tag name -> (k-point index -> table))
     dim  : what the constructor derives (NB, NW, NNB, NK)          (checked by WannierData.check_conform)
   Numbers are integers in units of 1/8 (exactly printable), complex numbers <<re, im>>, tables nested sequences; k-point and
   neighbour indices are 0-based as in the code.  A text file is a sequence of lines of integers (the comment line is <<>>).
   An .npz file is a function from keys to values, a key being the sequence of the "_"-separated segments of its name
   ("bk_reorder_0" = <<"bk", "reorder", "0">>), which is what dic_to_keydic / keydic_to_dic depend on. *)
EXTENDS Integers, Sequences, FiniteSets, TLC, SequencesExt, FiniteSetsExt

CONSTANTS WriterIndexing,    \* "nested": the writers address data[ik][ib..] (eig.py, amn.py since 4825d857); "tuple": data[ik, ib..] on
                             \* the dict (the former defect, kept as a must-fail sensitivity variant)
          MmnWriterBkvec,    \* TRUE: MMN.to_w90_file takes neighbours and G from the b-vector table (the intended writer); FALSE: from
                             \* self (mmn.py as it is: MMN keeps no such attributes - known finding MMN.to_w90_file:exception)
          LoadtxtSqueeze     \* FALSE: the .eig reader always gets a 2-d array (loadtxt(ndmin=2), eig.py since 4825d857); TRUE: a 1-d
                             \* array for a one-line file (the former defect, must-fail sensitivity variant)

Fail(msg) == [err |-> msg]
OkObj(x) == [err |-> "", obj |-> x]
MAXK == 8
IndexStr == {ToString(n) : n \in 0..MAXK}
ParseIndex(seg) == CHOOSE n \in 0..MAXK : ToString(n) = seg
Keys(x, tag) == DOMAIN x.dic[tag]
AllK(nk) == 0..(nk - 1)

(* ------------------------------------------------------------------ class tables (io.SavableNPZ class attributes) *)
Classes == {"eig", "amn", "mmn", "bkvec", "chk", "spn", "uhu", "uiu", "shu", "siu"}
Tags(cls) == CASE cls = "bkvec" -> {"bk_grid", "wk", "kpt_grid", "kptirr", "mp_grid", "recip_lattice"}
               [] cls = "chk" -> {"mp_grid", "real_lattice", "num_wann", "num_bands", "num_kpts", "kpt_red"}
               [] OTHER -> {"NK"}
TagsOpt(cls) == CASE cls = "amn" -> {"positions", "orbitals", "radial_nodes_list", "basis_list", "spread_list", "spinor"}
                  [] cls = "chk" -> {"wannier_centers_cart", "wannier_spreads", "selected_bands"}
                  [] OTHER -> {}
DictTags(cls) == CASE cls = "mmn" -> {"data", "bk_reorder"}
                   [] cls = "bkvec" -> {"neighbours", "G"}
                   [] cls = "chk" -> {}
                   [] OTHER -> {"data"}
DictTagsOpt(cls) == IF cls = "chk" THEN {"v_matrix"} ELSE {}
Extension(cls) == CASE cls = "uhu" -> "uHu" [] cls = "uiu" -> "uIu" [] cls = "shu" -> "sHu" [] cls = "siu" -> "sIu" [] OTHER -> cls
AllTags == UNION {Tags(c) \cup TagsOpt(c) \cup DictTags(c) \cup DictTagsOpt(c) : c \in Classes}
(* the "_"-separated segments of a tag name *)
Seg(tag) == CASE tag = "bk_reorder" -> <<"bk", "reorder">>
              [] tag = "bk_grid" -> <<"bk", "grid">>
              [] tag = "kpt_grid" -> <<"kpt", "grid">>
              [] tag = "mp_grid" -> <<"mp", "grid">>
              [] tag = "recip_lattice" -> <<"recip", "lattice">>
              [] tag = "real_lattice" -> <<"real", "lattice">>
              [] tag = "num_wann" -> <<"num", "wann">>
              [] tag = "num_bands" -> <<"num", "bands">>
              [] tag = "num_kpts" -> <<"num", "kpts">>
              [] tag = "kpt_red" -> <<"kpt", "red">>
              [] tag = "wannier_centers_cart" -> <<"wannier", "centers", "cart">>
              [] tag = "wannier_spreads" -> <<"wannier", "spreads">>
              [] tag = "selected_bands" -> <<"selected", "bands">>
              [] tag = "v_matrix" -> <<"v", "matrix">>
              [] tag = "radial_nodes_list" -> <<"radial", "nodes", "list">>
              [] tag = "basis_list" -> <<"basis", "list">>
              [] tag = "spread_list" -> <<"spread", "list">>
              [] OTHER -> <<tag>>

(* ------------------------------------------------------------------ io.py *)
(* dic_to_keydic: name + "_" + str(k) *)
KeyOf(tag, k) == Seg(tag) \o <<ToString(k)>>
(* SavableNPZ.as_dict *)
AsDict(x) ==
   LET plain == {t \in Tags(x.cls) \cup TagsOpt(x.cls) : t \in DOMAIN x.attr}
       dts == {t \in DictTags(x.cls) \cup DictTagsOpt(x.cls) : t \in DOMAIN x.dic}
       keys == {Seg(t) : t \in plain} \cup UNION {{KeyOf(t, k) : k \in DOMAIN x.dic[t]} : t \in dts}
   IN [key \in keys |-> IF \E t \in plain : Seg(t) = key THEN x.attr[CHOOSE t \in plain : Seg(t) = key]
                        ELSE LET t == CHOOSE u \in dts : \E k \in DOMAIN x.dic[u] : KeyOf(u, k) = key
                                 k == CHOOSE j \in DOMAIN x.dic[t] : KeyOf(t, j) = key
                             IN x.dic[t][k]]
(* the saved names are pairwise different (a clash would silently lose an entry in the dict passed to np.savez) *)
NoKeyClash(x) ==
   LET plain == {t \in Tags(x.cls) \cup TagsOpt(x.cls) : t \in DOMAIN x.attr}
       dts == {t \in DictTags(x.cls) \cup DictTagsOpt(x.cls) : t \in DOMAIN x.dic}
   IN Cardinality(DOMAIN AsDict(x)) = Cardinality(plain) + FoldSet(LAMBDA t, acc : acc + Cardinality(DOMAIN x.dic[t]), 0, dts)
(* keydic_to_dic(keydic, name): keys that start with name + "_" ; the rest must be an integer *)
HasPrefix(key, pre) == Len(key) > Len(pre) /\ SubSeq(key, 1, Len(pre)) = pre
Rest(key, pre) == SubSeq(key, Len(pre) + 1, Len(key))
KeydicToDic(d, tag) ==
   LET pre == Seg(tag)
       ks == {key \in DOMAIN d : HasPrefix(key, pre)}
   IN IF pre \in DOMAIN d THEN Fail("legacy whole-array entry")          \* branch `if name in keydic` (never written by as_dict)
      ELSE IF \E key \in ks : Len(Rest(key, pre)) # 1 \/ Rest(key, pre)[1] \notin IndexStr THEN Fail("ValueError")   \* int(...)
      ELSE [err |-> "", val |-> [k \in {ParseIndex(Rest(key, pre)[1]) : key \in ks} |-> d[pre \o <<ToString(k)>>]]]

(* ------------------------------------------------------------------ constructors (what __init__ checks and derives) *)
RECURSIVE ShapeOf(_, _)
ShapeOf(t, rank) == IF rank = 0 THEN <<>> ELSE <<Len(t)>> \o ShapeOf(t[1], rank - 1)
Rank(cls) == CASE cls = "eig" -> 1 [] cls = "amn" -> 2 [] cls \in {"mmn", "spn"} -> 3 [] OTHER -> 4
(* w90file.check_shape: all k-points have the shape of the first one; empty data is an error *)
CommonShape(dat, rank) ==
   IF DOMAIN dat = {} THEN <<>>
   ELSE LET sh == ShapeOf(dat[Min(DOMAIN dat)], rank)
        IN IF \A k \in DOMAIN dat : ShapeOf(dat[k], rank) = sh THEN sh ELSE <<>>
DimsOf(cls, sh) == CASE cls = "eig" -> [NB |-> sh[1]]
                     [] cls = "amn" -> [NB |-> sh[1], NW |-> sh[2]]
                     [] cls = "mmn" -> [NNB |-> sh[1], NB |-> sh[2]]
                     [] cls = "spn" -> [NB |-> sh[1]]
                     [] cls \in {"uhu", "uiu"} -> [NNB |-> sh[1], NB |-> sh[3]]
                     [] cls \in {"shu", "siu"} -> [NNB |-> sh[1], NB |-> sh[3]]
ShapeAccepted(cls, sh) == CASE cls = "mmn" -> sh[2] = sh[3]
                            [] cls = "spn" -> sh[1] = sh[2] /\ sh[3] = 3
                            [] cls \in {"uhu", "uiu"} -> sh[1] = sh[2] /\ sh[3] = sh[4]
                            [] cls \in {"shu", "siu"} -> sh[2] = sh[3] /\ sh[4] = 3
                            [] OTHER -> TRUE
IdentityReorder(nnb) == [j \in 1..nnb |-> j - 1]
(* W90_file subclasses: cls(data = {k: table}, NK = NK, ...) ; kw is the keyword dictionary (attr part, dic part) *)
ConstructTable(cls, attr, dic) ==
   IF "data" \notin DOMAIN dic \/ "NK" \notin DOMAIN attr THEN Fail("TypeError")
   ELSE LET sh == CommonShape(dic["data"], Rank(cls)) IN
        IF sh = <<>> THEN Fail("ValueError")
        ELSE IF ~ShapeAccepted(cls, sh) THEN Fail("AssertionError")
        ELSE OkObj([cls |-> cls, attr |-> attr,
                    dic |-> IF cls = "mmn" /\ "bk_reorder" \notin DOMAIN dic
                            THEN dic @@ [bk_reorder |-> [k \in DOMAIN dic["data"] |-> IdentityReorder(sh[1])]] ELSE dic,
                    dim |-> DimsOf(cls, sh) @@ [NK |-> attr["NK"]]])
(* BKVectors(recip_lattice, mp_grid, wk, bk_grid, G, neighbours, kpt_grid, kptirr) *)
ConstructBkvec(attr, dic) ==
   IF Tags("bkvec") \ DOMAIN attr # {} \/ {"G", "neighbours"} \ DOMAIN dic # {} THEN Fail("TypeError")
   ELSE LET nnb == Len(attr["wk"])  nk == Len(attr["kpt_grid"]) IN
        IF DOMAIN dic["G"] # {attr["kptirr"][j] : j \in 1..Len(attr["kptirr"])} THEN Fail("AssertionError")
        ELSE IF CommonShape(dic["neighbours"], 1) # <<nnb>> \/ CommonShape(dic["G"], 2) # <<nnb, 3>> \/ Len(attr["bk_grid"]) # nnb
             THEN Fail("AssertionError")
        ELSE OkObj([cls |-> "bkvec", attr |-> attr, dic |-> dic, dim |-> [NK |-> nk, NNB |-> nnb]])
(* CheckPoint(keywords): v_matrix fixes/check num_bands and num_wann *)
ConstructChk(attr, dic) ==
   IF "v_matrix" \in DOMAIN dic /\ DOMAIN dic["v_matrix"] # {} /\
      CommonShape(dic["v_matrix"], 2) # <<attr["num_bands"], attr["num_wann"]>> THEN Fail("AssertionError")
   ELSE OkObj([cls |-> "chk", attr |-> attr, dic |-> dic, dim |-> [NK |-> attr["num_kpts"]]])
Construct(cls, attr, dic) == CASE cls = "bkvec" -> ConstructBkvec(attr, dic)
                              [] cls = "chk" -> ConstructChk(attr, dic)
                              [] OTHER -> ConstructTable(cls, attr, dic)
(* SavableNPZ.from_dict *)
FromDict(cls, d) ==
   LET plain == {t \in Tags(cls) \cup TagsOpt(cls) : Seg(t) \in DOMAIN d}
       req == [t \in DictTags(cls) |-> KeydicToDic(d, t)]
       opt == [t \in DictTagsOpt(cls) |-> KeydicToDic(d, t)]
       optset == {t \in DictTagsOpt(cls) : opt[t].err = "" /\ DOMAIN opt[t].val # {}}
   IN IF \E t \in DictTags(cls) : req[t].err # "" THEN Fail("ValueError")
      ELSE IF \E t \in DictTags(cls) : DOMAIN req[t].val = {} THEN Fail("ValueError")        \* "Missing required key subdictionary"
      ELSE IF \E t \in DictTagsOpt(cls) : opt[t].err # "" THEN Fail("ValueError")
      ELSE Construct(cls, [t \in plain |-> d[Seg(t)]],
                     [t \in DictTags(cls) \cup optset |-> IF t \in DictTags(cls) THEN req[t].val ELSE opt[t].val])

(* ------------------------------------------------------------------ text formats *)
(* the writers loop over range(NK): every k-point has to be there; with WriterIndexing = "tuple" the lookup key is the
   tuple (ik, ib, ..), which is never a key of the dictionary *)
FullK(x) == Keys(x, "data") = AllK(x.dim.NK)
WriterLookupOK(x) == WriterIndexing = "nested" /\ FullK(x)
(* EIG.to_w90_file: " ib+1 ik+1 E" *)
EigLines(x) == [r \in 1..(x.dim.NK * x.dim.NB) |->
                  LET ik == (r - 1) \div x.dim.NB  ib == (r - 1) % x.dim.NB IN <<ib + 1, ik + 1, x.dic["data"][ik][ib + 1]>>]
WriteEig(x) == IF WriterLookupOK(x) THEN [err |-> "", lines |-> EigLines(x)] ELSE Fail("KeyError")
(* EIG.from_w90_file: loadtxt, NB/NK from the maxima of the index columns, reshape(NK, NB, 3), asserts on the index columns *)
Max0(S) == IF S = {} THEN 0 ELSE Max(S)
ReadEig(f) ==
   IF Len(f) = 0 THEN Fail("IndexError")
   ELSE IF Len(f) = 1 /\ LoadtxtSqueeze THEN Fail("IndexError")
   ELSE LET nb == Max({f[r][1] : r \in 1..Len(f)})  nk == Max({f[r][2] : r \in 1..Len(f)}) IN
        IF nb * nk # Len(f) THEN Fail("ValueError")
        ELSE IF \E r \in 1..Len(f) : f[r][1] # ((r - 1) % nb) + 1 \/ f[r][2] # ((r - 1) \div nb) + 1 THEN Fail("AssertionError")
        ELSE Construct("eig", [NK |-> nk], [data |-> [k \in AllK(nk) |-> [b \in 1..nb |-> f[k * nb + b][3]]]])
(* AMN.to_w90_file: header, "NB NK NW", then for ik, iw, ib: "ib+1 iw+1 ik+1 re im" *)
AmnLines(x) ==
   LET nb == x.dim.NB  nw == x.dim.NW IN
   << <<>>, <<nb, x.dim.NK, nw>> >> \o
   [r \in 1..(x.dim.NK * nw * nb) |->
       LET ik == (r - 1) \div (nw * nb)  iw == ((r - 1) % (nw * nb)) \div nb  ib == (r - 1) % nb
           v == x.dic["data"][ik][ib + 1][iw + 1]
       IN <<ib + 1, iw + 1, ik + 1, v[1], v[2]>>]
WriteAmn(x) == IF WriterLookupOK(x) THEN [err |-> "", lines |-> AmnLines(x)] ELSE Fail("KeyError")
(* AMN.from_w90_file: sizes from line 2, the index columns are ignored, reshape((NK, NW, NB)).transpose(0, 2, 1) *)
ReadAmn(f) ==
   LET nb == f[2][1]  nk == f[2][2]  nw == f[2][3] IN
   IF Len(f) # 2 + nk * nw * nb THEN Fail("ValueError")
   ELSE Construct("amn", [NK |-> nk],
                  [data |-> [k \in AllK(nk) |-> [b \in 1..nb |-> [w \in 1..nw |->
                       LET l == f[2 + k * nw * nb + (w - 1) * nb + b] IN <<l[4], l[5]>>]]]])
(* MMN.to_w90_file(seedname): "MMN file", "NB NK NNB", then for ik, ib: "ik+1 neighbour+1 G1 G2 G3" and, for m, n:
   data[ik][ib, n, m].  neighbours and G belong to the b-vector table *)
MmnLines(x, bk) ==
   LET nb == x.dim.NB  nnb == x.dim.NNB  blk == nb * nb + 1 IN
   << <<>>, <<nb, x.dim.NK, nnb>> >> \o
   [r \in 1..(x.dim.NK * nnb * blk) |->
       LET ik == (r - 1) \div (nnb * blk)  ib == ((r - 1) % (nnb * blk)) \div blk  q == (r - 1) % blk IN
       IF q = 0 THEN <<ik + 1, bk.dic["neighbours"][ik][ib + 1] + 1>> \o bk.dic["G"][ik][ib + 1]
       ELSE LET m == (q - 1) \div nb  n == (q - 1) % nb  v == x.dic["data"][ik][ib + 1][n + 1][m + 1] IN <<v[1], v[2]>>]
WriteMmn(x, bk) == IF ~MmnWriterBkvec THEN Fail("AttributeError")
                   ELSE IF ~FullK(x) \/ ~FullK([dic |-> [data |-> bk.dic["G"]], dim |-> bk.dim]) THEN Fail("KeyError")
                   ELSE [err |-> "", lines |-> MmnLines(x, bk)]
(* MMN.from_w90_file(seedname, bkvec): reshape(NK, NNB, NB, NB).transpose(0, 1, 3, 2), then BKVectors.reorder_bk_vectors *)
Vec3Add(a, b) == <<a[1] + b[1], a[2] + b[2], a[3] + b[3]>>
Vec3Sub(a, b) == <<a[1] - b[1], a[2] - b[2], a[3] - b[3]>>
Vec3Mul(a, b) == <<a[1] * b[1], a[2] * b[2], a[3] * b[3]>>
ReadMmn(f, bk) ==
   LET nb == f[2][1]  nk == f[2][2]  nnb == f[2][3]  blk == nb * nb + 1
       HeadLine(k, p) == f[2 + (k * nnb + p) * blk + 1]                       \* p = 0-based position in the file
       Row(k, p, a, b) == f[2 + (k * nnb + p) * blk + 1 + (b - 1) * nb + a]
       nbf(k, p) == HeadLine(k, p)[2] - 1
       Gf(k, p) == SubSeq(HeadLine(k, p), 3, 5)
       kg == bk.attr["kpt_grid"]
       bknew(k, p) == Vec3Add(Vec3Sub(kg[nbf(k, p) + 1], kg[k + 1]), Vec3Mul(Gf(k, p), bk.attr["mp_grid"]))
       found(k, j) == {p \in 0..(nnb - 1) : bknew(k, p) = bk.attr["bk_grid"][j]}
       srt(k) == [j \in 1..nnb |-> Min(found(k, j))]                      \* list.index: the first occurrence
   IN IF Len(f) # 2 + nk * nnb * blk THEN Fail("ValueError")
      ELSE IF \E k \in AllK(nk) : \E p \in 0..(nnb - 1) : HeadLine(k, p)[1] # k + 1 THEN Fail("AssertionError")
      ELSE IF nnb # bk.dim.NNB \/ \E k \in AllK(nk) : \E j \in 1..nnb : found(k, j) = {} THEN Fail("ValueError")
      ELSE IF \E k \in AllK(nk) : \E j \in 1..nnb : nbf(k, srt(k)[j]) # bk.dic["neighbours"][k][j] \/ Gf(k, srt(k)[j]) # bk.dic["G"][k][j]
           THEN Fail("AssertionError")
      ELSE Construct("mmn", [NK |-> nk],
                     [data |-> [k \in AllK(nk) |-> [j \in 1..nnb |-> [a \in 1..nb |-> [b \in 1..nb |->
                                   LET l == Row(k, srt(k)[j], a, b) IN <<l[1], l[2]>>]]]],
                      bk_reorder |-> [k \in AllK(nk) |-> srt(k)]])
Writable == {"eig", "amn", "mmn"}

(* ------------------------------------------------------------------ WannierData *)
ContKeys == {"eig", "amn", "mmn", "bkvec", "chk", "spn", "uhu", "uiu", "shu", "siu"}
EmptyCont == [files |-> << >>, selected |-> FALSE, irreducible |-> FALSE]
HasFile(c, key) == key \in DOMAIN c.files
(* check_conform: NK, NB, NW, NNB of `this` against every file that is set (only attributes both have) *)
Conform(c, this) == \A key2 \in DOMAIN c.files : \A a \in DOMAIN this.dim \cap DOMAIN c.files[key2].dim : this.dim[a] = c.files[key2].dim[a]
Without(f, key) == [k \in DOMAIN f \ {key} |-> f[k]]
(* unset_file *)
UnsetFile(c, key, ignoreMissing) ==
   IF ~HasFile(c, key) THEN [cont |-> c, err |-> IF ignoreMissing THEN "" ELSE "ValueError"]
   ELSE [cont |-> [c EXCEPT !.files = Without(@, key)], err |-> ""]
(* set_file(key, val, overwrite, allow_selected_bands) -- the order of the tests is the code's *)
SetFile(c, key, val, overwrite, allowSelected) ==
   IF c.selected /\ ~allowSelected THEN [cont |-> c, err |-> "RuntimeError"]
   ELSE IF key = "chk" THEN
        IF ~overwrite /\ HasFile(c, "chk") THEN [cont |-> c, err |-> "RuntimeError"]
        ELSE [cont |-> [c EXCEPT !.files = (key :> val) @@ @], err |-> ""]                 \* set_chk: no check_conform
   ELSE IF HasFile(c, key) /\ ~overwrite THEN [cont |-> c, err |-> "RuntimeError"]
   ELSE LET c1 == IF HasFile(c, key) THEN [c EXCEPT !.files = Without(@, key)] ELSE c IN    \* unset before the check
        IF ~Conform(c1, val) THEN [cont |-> c1, err |-> "AssertionError"]
        ELSE LET f1 == IF key = "amn" /\ HasFile(c1, "chk")                                 \* chk.num_wann = val.NW
                       THEN [c1.files EXCEPT !["chk"].attr = ("num_wann" :> val.dim.NW) @@ @] ELSE c1.files
             IN [cont |-> [c1 EXCEPT !.files = (key :> val) @@ f1], err |-> ""]
(* to_npz(seedname, files = None): one <seedname>.<extension>.npz per file that is set; nothing is removed *)
ContToNpz(c, disk) == [key \in DOMAIN c.files \cup DOMAIN disk |-> IF key \in DOMAIN c.files THEN AsDict(c.files[key]) ELSE disk[key]]
(* from_npz(seedname): the default list of files, in this order; "win" and "soc" are not in it *)
DefaultOrder == <<"mmn", "eig", "amn", "uiu", "uhu", "siu", "shu", "spn", "bkvec", "chk">>
RECURSIVE LoadFrom(_, _, _)
LoadFrom(c, disk, i) ==
   IF i > Len(DefaultOrder) THEN [cont |-> c, err |-> ""]
   ELSE LET key == DefaultOrder[i] IN
        IF key \notin DOMAIN disk THEN LoadFrom(c, disk, i + 1)                            \* FileNotFoundError is ignored
        ELSE LET r == FromDict(key, disk[key]) IN
             IF r.err # "" THEN [cont |-> c, err |-> r.err]
             ELSE LET s == SetFile(c, key, r.obj, FALSE, FALSE) IN
                  IF s.err # "" THEN s ELSE LoadFrom(s.cont, disk, i + 1)
NKeys(x) == IF x.cls = "bkvec" THEN Cardinality(DOMAIN x.dic["G"])
            ELSE IF x.cls = "chk" THEN (IF "v_matrix" \in DOMAIN x.dic THEN Cardinality(DOMAIN x.dic["v_matrix"]) ELSE x.dim.NK)
            ELSE Cardinality(DOMAIN x.dic["data"])
ContFromNpz(disk) ==
   LET r == LoadFrom(EmptyCont, disk, 1) IN
   IF r.err # "" THEN r
   ELSE [cont |-> [r.cont EXCEPT !.irreducible = \E key \in DOMAIN r.cont.files : NKeys(r.cont.files[key]) < r.cont.files[key].dim.NK],
         err |-> ""]
(* the files of two containers compare equal *)
SameFiles(c, d) == DOMAIN c.files = DOMAIN d.files /\ \A key \in DOMAIN c.files : c.files[key] = d.files[key]
=============================================================================
