------------------------------- MODULE Bands -------------------------------
(* Band groups, degenerate multiplets and energy windows (C15; used by C13, C14, C24).
   Energies are integers (the harness scales them by an exactly representable unit), band indices are 0-based
   half-open intervals [ib1, ib2) exactly as in the code. *)
EXTENDS Integers, Sequences, FiniteSets, TLC, SequencesExt, FiniteSetsExt

(* grid/tetrahedron.py get_borders, utility.py find_degen (degen_Kramers = FALSE).
   Kramers mode keeps the even borders and the final border Len(E): with an odd number of bands the last band stays in a
   group (of odd size).  keeplast = FALSE is the behaviour before the repair 69ca1f4e (the odd final border was dropped and
   the highest band belonged to no group): kept as the named must-fail variant BordersDropOddFinal. *)
BorderSetV(E, th, kr, keeplast) ==
   LET b == {0, Len(E)} \cup {i \in 1..(Len(E) - 1) : E[i + 1] - E[i] > th}
   IN IF kr THEN {i \in b : i % 2 = 0 \/ (keeplast /\ i = Len(E))} ELSE b
BorderSet(E, th, kr) == BorderSetV(E, th, kr, TRUE)
BordersOf(bs) ==
   LET s == SetToSortSeq(bs, <)
   IN [j \in 1..(Len(s) - 1) |-> <<s[j], s[j + 1]>>]
Borders(E, th, kr) == BordersOf(BorderSet(E, th, kr))
BordersDropOddFinal(E, th, kr) == BordersOf(BorderSetV(E, th, kr, FALSE))

(* what C15 demands of a list of groups G for energies E *)
IsPartition(E, G) ==
   /\ Len(G) >= 1 /\ G[1][1] = 0 /\ G[Len(G)][2] = Len(E)
   /\ \A j \in 1..Len(G) : G[j][1] < G[j][2]
   /\ \A j \in 1..(Len(G) - 1) : G[j][2] = G[j + 1][1]
InternalGapsSmall(E, G, th) ==
   \A j \in 1..Len(G) : \A i \in (G[j][1] + 1)..(G[j][2] - 1) : E[i + 1] - E[i] <= th
BoundaryGapsLarge(E, G, th) ==
   \A j \in 1..(Len(G) - 1) : E[G[j][2] + 1] - E[G[j][2]] > th
(* G sorted: every boundary is even, except the final one (= number of bands) when that is odd *)
BoundariesEven(G) == \A j \in 1..Len(G) : G[j][1] % 2 = 0 /\ (G[j][2] % 2 = 0 \/ j = Len(G))
(* Kramers mode presupposes paired input: E[2i-1] and E[2i] (1-based) within the threshold; with an odd number of bands
   the highest band has no partner *)
KramersPaired(E, th) == \A i \in 1..(Len(E) \div 2) : E[2 * i] - E[2 * i - 1] <= th
(* with Kramers pairs the block boundaries are exactly the even positions whose gap exceeds the threshold *)
KramersMaximal(E, G, th) ==
   {G[j][2] : j \in 1..(Len(G) - 1)} = {i \in 1..(Len(E) - 1) : i % 2 = 0 /\ E[i + 1] - E[i] > th}

(* get_bands_in_range(emin, emax, E, th, kr): the groups whose energy span [E[ib1], E[ib2-1]] meets [emin, emax] *)
GroupsInRange(E, th, kr, emin, emax) ==
   SelectSeq(Borders(E, th, kr), LAMBDA g : E[g[2]] >= emin /\ E[g[1] + 1] <= emax)
(* what the properties need of a set S of band groups "in the range [emin, emax]": whole groups of the partition only,
   every group that strictly overlaps the range is present, no group strictly outside it; whether a group that only
   touches an end of the range (top = emin or bottom = emax) is listed is a free choice of the implementation (closed
   or open ends change no result: such a group is completely occupied / empty at every level of the range) *)
InRangeAdmissible(E, th, kr, emin, emax, S) ==
   LET B == Borders(E, th, kr)  BS == {B[j] : j \in 1..Len(B)} IN
   /\ S \subseteq BS
   /\ \A g \in BS : (E[g[2]] > emin /\ E[g[1] + 1] < emax) => g \in S
   /\ \A g \in S : E[g[2]] >= emin /\ E[g[1] + 1] <= emax
(* get_bands_below_range(emin, E) : number of bands strictly below emin *)
BandsBelow(E, emin) == Cardinality({i \in 1..Len(E) : E[i] < emin})
BandsAboveStart(E, emax) == Len(E) - Cardinality({i \in 1..Len(E) : E[i] > emax})

-----------------------------------------------------------------------------
(* utility.select_window_degen: multiplets are chains of gaps strictly smaller than the threshold *)
Between(a, b) == IF a <= b THEN a..(b - 1) ELSE b..(a - 1)
Multiplet(E, th, j) == {k \in 1..Len(E) : \A m \in Between(j, k) : E[m + 1] - E[m] < th}
Inside0(E, lo, hi) == {j \in 1..Len(E) : E[j] >= lo /\ E[j] <= hi}
(* declarative meaning: never separate bands closer than th; include_degen adds the multiplets cut by an edge,
   otherwise they are left out completely *)
SelectWindow(E, th, lo, hi, incl) ==
   LET in0 == Inside0(E, lo, hi)
   IN IF incl THEN UNION {Multiplet(E, th, j) : j \in in0}
      ELSE {j \in in0 : Multiplet(E, th, j) \subseteq in0}
NeverSplits(E, th, S) == \A j \in 1..(Len(E) - 1) : E[j + 1] - E[j] < th => ((j \in S) <=> ((j + 1) \in S))
=============================================================================
