--------------------------- MODULE MC_SysAlgCreate ---------------------------
(* C32: tight-binding builders as state machines (one action per builder call) and the import get_system_tb_py.
     LIB = "ptb"     PythTB TBModel: set_onsite / set_hop with modes "set" and "add", refusals of set_hop
     LIB = "tbm"     TBmodels Model: on_site of the constructor, add_hop, add_on_site
     LIB = "pair"    the same hoppings given to both libraries must import to the same system
     LIB = "haldane" models.Haldane_ptb / Haldane_tbm over a parameter grid (OverrideDelta models `delta = 0.2` in Haldane_ptb)
   Every state carries the call history `steps`, the builder's internal state and is replayed on the real libraries. *)
EXTENDS SysAlg
CONSTANTS LIB, NORB, NS, MAXSTEPS, KDIRS, NAMP, OverrideDelta
VARIABLES steps, m, t, raised,
          impP, impT      \* the imported systems (get_system_tb_py) of the current builder states
vars == <<steps, m, t, raised, impP, impT>>

RSTEP == IF KDIRS = 1 THEN {<<1, 0, 0>>, <<-1, 0, 0>>} ELSE {<<1, 0, 0>>, <<0, -1, 0>>, <<-1, 1, 0>>}
RU == {<<x, y, 0>> : x \in -1..1, y \in -1..1}
POS == IF NORB = 1 THEN <<<<3, 0, 0>>>> ELSE <<<<0, 0, 0>>, <<15, 6, 0>>>>        \* 15/12 lies outside the home cell: import takes it mod 1
Scal(g) == IF NS = 1 THEN <<<<g>>>> ELSE <<<<g, GZ>>, <<GZ, g>>>>
(* amplitude blocks: scalars, and for spinors i sigma_z and sigma_x + i sigma_y-like blocks *)
FirstN(seq, n) == {seq[j] : j \in 1..(IF n < Len(seq) THEN n ELSE Len(seq))}
AMPB == FirstN(IF NS = 1 THEN <<Scal(<<-2, 1>>), Scal(<<0, 1>>), Scal(<<1, 0>>)>>
               ELSE <<<<<<GZ, <<2, 0>>>>, <<GZ, <<1, 1>>>>>>, <<<<GI, GZ>>, <<GZ, <<0, -1>>>>>>, Scal(<<1, 0>>)>>, NAMP)
ONSB == FirstN(IF NS = 1 THEN <<Scal(<<-2, 0>>), Scal(<<1, 0>>)>> ELSE <<<<<<<<1, 0>>, <<0, -1>>>>, <<<<0, 1>>, <<-1, 0>>>>>>, Scal(<<1, 0>>)>>, NAMP)
AMPG == FirstN(<<<<-2, 1>>, <<0, 1>>, <<1, 0>>>>, NAMP)
ONSI == FirstN(<<-2, 1>>, NAMP)
Empty == [none |-> TRUE]
HasP == LIB \in {"ptb", "pair", "haldane"}
HasT == LIB \in {"tbm", "pair", "haldane"}
ImpP(mm) == IF HasP THEN PtbImport(mm) ELSE Empty
ImpT(tt) == IF HasT THEN TbmImport(tt) ELSE Empty

Init == /\ steps = <<>> /\ raised = FALSE
        /\ IF LIB = "haldane"
           THEN \E delta \in {-1, 0, 1, 2}, hop1 \in {-5, 3}, t2 \in {<<0, 0>>, <<0, 1>>, <<2, 0>>, <<0, -2>>, <<-1, 0>>} :
                   /\ m = HaldanePtb(delta, hop1, t2, OverrideDelta, 1)
                   /\ t = HaldaneTbm(delta, hop1, t2)
           ELSE /\ m = (IF LIB \in {"ptb", "pair"} THEN PtbNew(NORB, NS, POS) ELSE Empty)
                /\ t \in (IF LIB = "tbm" THEN {TbmNew(NORB, POS, [i \in 1..NORB |-> e * i], RU) : e \in {0, 1}}
                          ELSE IF LIB = "pair" THEN {TbmNew(NORB, POS, [i \in 1..NORB |-> 0], RU)} ELSE {Empty})
        /\ impP = ImpP(m) /\ impT = ImpT(t)
More == Len(steps) < MAXSTEPS /\ LIB # "haldane"
Log(s) == steps' = Append(steps, s)

PSetOnsiteAll == /\ LIB = "ptb" /\ More
                 /\ \E v \in ONSB, mode \in {"set", "add"} :
                       LET vals == [i \in 1..NORB |-> IF i = 1 THEN v ELSE MatScale(GInt(-1), v)] IN
                       /\ m' = PtbSetOnsiteAll(m, vals, mode) /\ Log([f |-> "set_onsite_all", vals |-> vals, mode |-> mode])
                       /\ raised' = FALSE /\ UNCHANGED t
PSetOnsite == /\ LIB = "ptb" /\ More
              /\ \E v \in ONSB, i \in 1..NORB, mode \in {"set", "add"} :
                    /\ m' = PtbSetOnsite(m, v, i, mode) /\ Log([f |-> "set_onsite", val |-> v, i |-> i, mode |-> mode])
                    /\ raised' = FALSE /\ UNCHANGED t
PSetHop == /\ LIB = "ptb" /\ More
           /\ \E a \in AMPB, i \in 1..NORB, j \in 1..NORB, R \in RSTEP \cup {Z3}, mode \in {"set", "add"}, acp \in BOOLEAN :
                 /\ Log([f |-> "set_hop", amp |-> a, i |-> i, j |-> j, R |-> R, mode |-> mode, acp |-> acp])
                 /\ IF PtbSetHopRaises(m, i, j, R, acp) THEN raised' = TRUE /\ UNCHANGED <<m, t>>
                    ELSE raised' = FALSE /\ m' = PtbSetHop(m, a, i, j, R, mode) /\ UNCHANGED t
TAddHop == /\ LIB = "tbm" /\ More
           /\ \E g \in AMPG, i \in 1..NORB, j \in 1..NORB, R \in RSTEP \cup {Z3} :
                 /\ t' = TbmAddHop(t, g, i, j, R) /\ Log([f |-> "add_hop", amp |-> g, i |-> i, j |-> j, R |-> R])
                 /\ raised' = FALSE /\ UNCHANGED m
TAddOnSite == /\ LIB = "tbm" /\ More
              /\ \E e \in ONSI : LET vals == [i \in 1..NORB |-> e * i] IN
                    /\ t' = TbmAddOnSite(t, vals) /\ Log([f |-> "add_on_site", vals |-> vals])
                    /\ raised' = FALSE /\ UNCHANGED m
(* the same hopping / on-site energies to both libraries: set_hop(mode="add", allow_conjugate_pair=True) ~ add_hop *)
BothHop == /\ LIB = "pair" /\ More
           /\ \E g \in AMPG, i \in 1..NORB, j \in 1..NORB, R \in RSTEP \cup {Z3} :
                 /\ ~(i = j /\ R = Z3)
                 /\ m' = PtbSetHop(m, Scal(g), i, j, R, "add") /\ t' = TbmAddHop(t, g, i, j, R)
                 /\ Log([f |-> "hop", amp |-> g, i |-> i, j |-> j, R |-> R]) /\ raised' = FALSE
BothOnsite == /\ LIB = "pair" /\ More
              /\ \E e \in ONSI : LET vals == [i \in 1..NORB |-> e * i] IN
                    /\ m' = PtbSetOnsiteAll(m, [i \in 1..NORB |-> Scal(GInt(vals[i]))], "add") /\ t' = TbmAddOnSite(t, vals)
                    /\ Log([f |-> "onsite", vals |-> vals]) /\ raised' = FALSE
Next == /\ (PSetOnsiteAll \/ PSetOnsite \/ PSetHop \/ TAddHop \/ TAddOnSite \/ BothHop \/ BothOnsite)
        /\ impP' = ImpP(m') /\ impT' = ImpT(t')
Spec == Init /\ [][Next]_vars

(* C32 *)
PtbImportIsSource == HasP => HermSys(impP) /\ SameSystem(impP, PtbSource(m))
PtbNoOnsiteHop == HasP => \A e \in m.tab : ~(e.i = e.j /\ e.R = Z3)
TbmImportLaws == HasT => TbmImportExact(t) /\ HermSys(impT) /\ TbmImportIsSource(t)
TbmKeysCanonical == HasT => \A K \in t.keys : K = Z3 \/ PositiveR(K)
BuildersAgree == (HasP /\ HasT) => SameSystem(impP, impT)
=============================================================================
