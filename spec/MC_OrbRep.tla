----------------------------- MODULE MC_OrbRep -----------------------------
(* A finite point group is generated from its generators by a work-list closure (one action per processed element),
   then its multiplication table and the exact s/p/d representation matrices are tabulated; the invariants state the
   group axioms and C21's clauses (identity, orthogonality, D(g)D(h) = D(gh) over the whole table, parity under
   inversion, compression of sub-shell hybrids is orthogonal exactly on the stabiliser of the span). *)
EXTENDS OrbRep
CONSTANTS GroupName, Variant

VARIABLES pc, elems, ptr, table, dp, dd, pres
vars == <<pc, elems, ptr, table, dp, dd, pres>>

Gens == Generators(GroupName)
IndexOf(seq, x) == IF \E k \in 1..Len(seq) : seq[k] = x THEN CHOOSE k \in 1..Len(seq) : seq[k] = x ELSE 0
RECURSIVE AppendNewTo(_, _, _)
AppendNewTo(seq, cands, n) == IF n = 0 THEN seq ELSE LET acc == AppendNewTo(seq, cands, n - 1) IN IF IndexOf(acc, cands[n]) = 0 THEN Append(acc, cands[n]) ELSE acc
AppendNew(seq, cands) == AppendNewTo(seq, cands, Len(cands))

Init == pc = "gen" /\ elems = <<Ident(3)>> /\ ptr = 1 /\ table = <<>> /\ dp = <<>> /\ dd = <<>> /\ pres = <<>>
(* for e in elems (growing): for g in generators: append e*g if new *)
Gen == /\ pc = "gen" /\ ptr <= Len(elems)
       /\ elems' = AppendNew(elems, [n \in 1..Len(Gens) |-> MatMul(elems[ptr], Gens[n])])
       /\ ptr' = ptr + 1
       /\ UNCHANGED <<pc, table, dp, dd, pres>>
GenDone == /\ pc = "gen" /\ ptr > Len(elems) /\ pc' = "table" /\ UNCHANGED <<elems, ptr, table, dp, dd, pres>>
MkTable == /\ pc = "table"
           /\ table' = [i \in 1..Len(elems) |-> [j \in 1..Len(elems) |-> IndexOf(elems, MatMul(elems[i], elems[j]))]]
           /\ pc' = "reps" /\ UNCHANGED <<elems, ptr, dp, dd, pres>>
MkReps == /\ pc = "reps"
          /\ dp' = [i \in 1..Len(elems) |-> DP(elems[i], Variant)]
          /\ dd' = [i \in 1..Len(elems) |-> DD(elems[i], Variant)]
          /\ pres' = [sh \in AllShells |-> {i \in 1..Len(elems) : Preserves(sh, elems[i])}]
          /\ pc' = "done" /\ UNCHANGED <<elems, ptr, table>>
Next == Gen \/ GenDone \/ MkTable \/ MkReps
Spec == Init /\ [][Next]_vars

N == Len(elems)
Done == pc = "done"
-----------------------------------------------------------------------------
(* group axioms *)
GroupOrder   == Done => N = Order(GroupName)
Closed       == Done => \A i, j \in 1..N : table[i][j] \in 1..N
IdentityLaw  == Done => \A i \in 1..N : table[1][i] = i /\ table[i][1] = i
Inverses     == Done => \A i \in 1..N : \E j \in 1..N : table[i][j] = 1 /\ table[j][i] = 1
LatinSquare  == Done => \A i \in 1..N : {table[i][j] : j \in 1..N} = 1..N /\ {table[j][i] : j \in 1..N} = 1..N
Associative  == Done => \A i, j, k \in 1..N : table[table[i][j]][k] = table[i][table[j][k]]
ElemsO3      == Done => \A i \in 1..N : IsOrthogonal(elems[i]) /\ Det3(elems[i]) \in {One, Neg(One)}
ElemsNumbers == Done => \A i \in 1..N : \A a, b \in 1..3 : IsNumber(elems[i][a][b])
(* C21 *)
RepIdentity   == Done => dp[1] = Ident(3) /\ dd[1] = Ident(5) /\ DS(elems[1]) = Ident(1)
RepOrthogonal == Done => \A i \in 1..N : IsOrthogonal(dp[i]) /\ IsOrthogonal(dd[i])
RepHomP       == Done => \A i, j \in 1..N : MatMul(dp[i], dp[j]) = dp[table[i][j]]
RepHomD       == Done => \A i, j \in 1..N : MatMul(dd[i], dd[j]) = dd[table[i][j]]
(* improper rotations: D^l(-R) = (-1)^l D^l(R) *)
RepParity     == Done => \A i \in 1..N : /\ DP(NegM(elems[i]), Variant) = NegM(dp[i])
                                         /\ DD(NegM(elems[i]), Variant) = dd[i]
RepFaithfulP  == Done => \A i, j \in 1..N : dp[i] = dp[j] => i = j
(* the compression returned for a sub-shell hybrid is orthogonal exactly when the rotation preserves its span *)
Compression   == Done => \A sh \in SubShells : \A i \in 1..N : (i \in pres[sh]) <=> IsOrthogonal(DSub(sh, dp[i], dd[i]))
SubHom        == Done => \A sh \in SubShells : \A i, j \in pres[sh] :
                             MatMul(DSub(sh, dp[i], dd[i]), DSub(sh, dp[j], dd[j])) = DSub(sh, dp[table[i][j]], dd[table[i][j]])
(* local frames: orbitals given in a frame b (rows = local axes, b in the group) transform with the matrix of b R b^T, which is the
   representation conjugated by D(b); a common frame therefore leaves the composition law intact.  Variant "noframe" ignores
   the frame (valid only for b = 1 or b commuting with R) and must violate RepFrame.  Composite symbols 'a;b' are the
   block-diagonal sums of their parts in the same frames (nothing to state beyond the parts). *)
InvIdx(b) == CHOOSE j \in 1..N : table[b][j] = 1
InFrame(b, i) == IF Variant = "noframe" THEN i ELSE table[table[b][i]][InvIdx(b)]
Frames == {b \in 1..N : b <= 8}
RepFrame      == Done => \A b \in Frames : \A i \in 1..N :
                    /\ dp[InFrame(b, i)] = MatMul(MatMul(dp[b], dp[i]), Transpose(dp[b]))
                    /\ dd[InFrame(b, i)] = MatMul(MatMul(dd[b], dd[i]), Transpose(dd[b]))
                    /\ \A sh \in AllShells : (i \in pres[sh] /\ b \in pres[sh]) => table[table[b][i]][InvIdx(b)] \in pres[sh]
Stabiliser    == Done => \A sh \in AllShells : 1 \in pres[sh] /\ \A i, j \in pres[sh] : table[i][j] \in pres[sh]
FullShells    == Done => \A sh \in {"s", "p", "d", "f", "sp3"} : pres[sh] = 1..N
=============================================================================
