----------------------------- MODULE FermiScanRec -----------------------------
(* code -> spec (C13): recorded calls of the real StaticCalculator (synthetic band-value formula) on a duck-typed data_K.
   A record carries the integer inputs and the results as integer numerators:
     outK[k][i] = k-resolved result * SELUNIT * c_n * dEF^n,  outU[i] = unresolved result * SELUNIT * c_n * dEF^n * nk
   (c_n = 1, 2, 1, 2; the harness verified that these numbers are integral). *)
EXTENDS FermiScan, Json, IOUtils, TLCExt
VARIABLE i
Recs == JsonDeserialize(IOEnv.TRACE_FILE).recs
Rec == Recs[i]
AsSeq(s) == [k \in 1..Len(s) |-> s[k]]
Clauses ==
   LET NKr == Len(Rec.E)
       E == [k \in 1..NKr |-> AsSeq(Rec.E[k])]
       V == [k \in 1..NKr |-> AsSeq(Rec.V[k])]
       g == [Q |-> Rec.grid.Q, a |-> Rec.grid.a, d |-> Rec.grid.d, n |-> Rec.grid.n]
       fder == Rec.fder  th == Rec.th  kr == Rec.kr
       sel == IF Rec.selon THEN [on |-> TRUE, bands |-> {Rec.sel[j] : j \in 1..Len(Rec.sel)}] ELSE NoSel
       outK == [k \in 1..NKr |-> AsSeq(Rec.outK[k])]
       outU == AsSeq(Rec.outU)
       raw == RawRows(E, V, th, kr, g, fder, sel)
       codeK == [k \in 1..NKr |-> DiffRow(raw[k], fder, g.n)]
       declK == [k \in 1..NKr |-> DeclRowK(E[k], V[k], th, kr, g, fder, sel)]
       ones == \A k \in 1..NKr : \A b \in 1..Len(V[k]) : V[k][b] = 1
   IN
   [ admissible |-> /\ Supported(fder, sel) /\ g.d > 0 /\ g.n >= 1 /\ SingleLevelOK(g, th)
                    /\ \A k \in 1..NKr : NoTieK(E[k], th, kr, g, fder) /\ NoLevelInsideGroupK(E[k], th, kr, g, fder)
                    /\ (kr => \A k \in 1..NKr : KramersPaired(E[k], th)),
     equals_transcription |-> outK = codeK,
     equals_declarative |-> outK = declK,
     k_resolved_sum |-> outU = SumRows(outK, NKr),
     surface_is_difference_of_sea |-> (~sel.on) =>
          \A k \in 1..NKr : outK[k] = CentralDiff(RawRows(E, V, th, kr, ExtendedGrid(g, fder), 0, NoSel)[k], fder),
     sea_monotone_for_nonnegative_values |-> (fder = 0 /\ \A k \in 1..NKr : \A b \in 1..Len(V[k]) : V[k][b] >= 0) =>
          \A r \in 1..(g.n - 1) : outU[r] <= outU[r + 1] ]
(* the clause table is evaluated once per record (bound variable) *)
Report == \A C \in {Clauses} : \A n \in DOMAIN C : C[n] \/ PrintT(<<"BAD", i, n>>)
RecInit == i \in 1..Len(Recs)
RecSpec == RecInit /\ [][UNCHANGED i]_i
=============================================================================
