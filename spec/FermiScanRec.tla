----------------------------- MODULE FermiScanRec -----------------------------
(* code -> spec (C13): recorded calls of the real StaticCalculator (synthetic band-value formula) on a duck-typed data_K.
   A record carries the integer inputs and the results as integer numerators:
     outK[k][i] = k-resolved result * SELUNIT * c_n * dEF^n,  outU[i] = unresolved result * SELUNIT * c_n * dEF^n * nk
   (c_n = 1, 2, 1, 2; the harness verified that these numbers are integral). *)
EXTENDS FermiScan, Json, IOUtils, TLCExt
VARIABLE i
Recs == JsonDeserialize(IOEnv.TRACE_FILE).recs
Rec == Recs[i]
AsSeq(s) == [k \in 1..Len(s) |-> s[k]]
Clauses ==
   LET NKr == Len(Rec.E)
       E == [k \in 1..NKr |-> AsSeq(Rec.E[k])]
       V == [k \in 1..NKr |-> AsSeq(Rec.V[k])]
       g == [Q |-> Rec.grid.Q, a |-> Rec.grid.a, d |-> Rec.grid.d, n |-> Rec.grid.n]
       fder == Rec.fder  th == Rec.th  kr == Rec.kr
       sel == IF Rec.selon THEN [on |-> TRUE, bands |-> {Rec.sel[j] : j \in 1..Len(Rec.sel)}] ELSE NoSel
       outK == [k \in 1..NKr |-> AsSeq(Rec.outK[k])]
       outU == AsSeq(Rec.outU)
       raw == RawRows(E, V, th, kr, g, fder, sel)
       codeK == [k \in 1..NKr |-> DiffRow(raw[k], fder, g.n)]
       declK == [k \in 1..NKr |-> DeclRowK(E[k], V[k], th, kr, g, fder, sel)]
       ones == \A k \in 1..NKr : \A b \in 1..Len(V[k]) : V[k][b] = 1
       insideL == ~(\A k \in 1..NKr : NoLevelInsideGroupK(E[k], th, kr, g, fder))
       gx == ExtendedGrid(g, fder)
       seaK == [k \in 1..NKr |-> AsSeq(Rec.seaK[k])]          \* the code's own fder = 0 result on the extended grid (numerators, 1/SELUNIT)
       nonneg == \A k \in 1..NKr : \A b \in 1..Len(V[k]) : V[k][b] >= 0
   IN
   [ admissible |-> /\ Supported(fder, sel) /\ g.d > 0 /\ g.n >= 1 /\ SingleLevelOK(g, th)
                    /\ \A k \in 1..NKr : NoTieK(E[k], th, kr, g, fder)
                    /\ Rec.inside = insideL
                    /\ (kr => \A k \in 1..NKr : KramersPaired(E[k], th)),
     (* exact values: only where no level lies inside a group (there the representative energy of a group is not demanded) *)
     equals_transcription |-> insideL \/ outK = codeK,
     equals_declarative |-> insideL \/ outK = declK,
     k_resolved_sum |-> outU = SumRows(outK, NKr),
     (* relational: fder = n is the n-th central difference of the code's own sea on the extended grid *)
     surface_is_difference_of_own_sea |-> (~sel.on) => \A k \in 1..NKr : outK[k] = CentralDiff(seaK[k], fder),
     (* representation-free: whole groups, every band at most once *)
     own_sea_within_bounds |-> (~sel.on) => \A k \in 1..NKr : \A r \in 1..gx.n :
          /\ SeaBoundRowK(E[k], V[k], th, kr, NoSel, gx, FALSE)[r] <= seaK[k][r]
          /\ seaK[k][r] <= SeaBoundRowK(E[k], V[k], th, kr, NoSel, gx, TRUE)[r],
     own_sea_exact |-> (insideL \/ sel.on) \/ \A k \in 1..NKr : seaK[k] = RawRows(E, V, th, kr, gx, 0, NoSel)[k],
     sea_monotone_for_nonnegative_values |-> (nonneg /\ ~sel.on) =>
          \A k \in 1..NKr : \A r \in 1..(gx.n - 1) : seaK[k][r] <= seaK[k][r + 1] ]
(* the clause table is evaluated once per record (bound variable) *)
Report == \A C \in {Clauses} : \A n \in DOMAIN C : C[n] \/ PrintT(<<"BAD", i, n>>)
RecInit == i \in 1..Len(Recs)
RecSpec == RecInit /\ [][UNCHANGED i]_i
=============================================================================
