----------------------------- MODULE BShellsCat -----------------------------
(* the catalogue of integer reciprocal lattices used by MC_BShells (C22) and MC_KPStencil (C31) *)
EXTENDS BShells
(* integer Gram matrices G (true Gram = G / gs) and, where it exists, an integer Cartesian basis A with A A^T = G *)
Catalogue ==
  [ cubic   |-> [G |-> <<<<1, 0, 0>>, <<0, 1, 0>>, <<0, 0, 1>>>>, gs |-> 1, A |-> <<<<1, 0, 0>>, <<0, 1, 0>>, <<0, 0, 1>>>>],
    fcc     |-> [G |-> <<<<2, 1, 1>>, <<1, 2, 1>>, <<1, 1, 2>>>>, gs |-> 1, A |-> <<<<0, 1, 1>>, <<1, 0, 1>>, <<1, 1, 0>>>>],
    bcc     |-> [G |-> <<<<3, -1, -1>>, <<-1, 3, -1>>, <<-1, -1, 3>>>>, gs |-> 1, A |-> <<<<-1, 1, 1>>, <<1, -1, 1>>, <<1, 1, -1>>>>],
    tetra2  |-> [G |-> <<<<1, 0, 0>>, <<0, 1, 0>>, <<0, 0, 4>>>>, gs |-> 1, A |-> <<<<1, 0, 0>>, <<0, 1, 0>>, <<0, 0, 2>>>>],
    tetraS2 |-> [G |-> <<<<1, 0, 0>>, <<0, 1, 0>>, <<0, 0, 2>>>>, gs |-> 1, A |-> <<>>],
    ortho   |-> [G |-> <<<<4, 0, 0>>, <<0, 9, 0>>, <<0, 0, 16>>>>, gs |-> 1, A |-> <<<<2, 0, 0>>, <<0, 3, 0>>, <<0, 0, 4>>>>],
    hex     |-> [G |-> <<<<2, -1, 0>>, <<-1, 2, 0>>, <<0, 0, 3>>>>, gs |-> 2, A |-> <<>>],
    hex60   |-> [G |-> <<<<2, 1, 0>>, <<1, 2, 0>>, <<0, 0, 5>>>>, gs |-> 2, A |-> <<>>],
    mono    |-> [G |-> <<<<4, 0, 2>>, <<0, 9, 0>>, <<2, 0, 5>>>>, gs |-> 1, A |-> <<<<2, 0, 0>>, <<0, 3, 0>>, <<1, 0, 2>>>>],
    tri     |-> [G |-> <<<<4, 2, 2>>, <<2, 5, 3>>, <<2, 3, 11>>>>, gs |-> 1, A |-> <<<<2, 0, 0>>, <<1, 2, 0>>, <<1, 1, 3>>>>],
    (* two lattices on which the shell procedure (mesh <<1,1,1>>) ends with a NEGATIVE shell weight (used by C31):
       triN: weights -1/6, 1/6, 1/2 on 8 vectors;  orthoN (3:4:5, the shell of length 5 holds (0,0,+-1) and (+-1,+-1,0)):
       weights -7/800, 7/450, 1/50 on 10 vectors *)
    triN    |-> [G |-> <<<<9, 0, -6>>, <<0, 5, 8>>, <<-6, 8, 17>>>>, gs |-> 1, A |-> <<<<3, 0, 0>>, <<0, 2, 1>>, <<-2, 3, 2>>>>],
    orthoN  |-> [G |-> <<<<9, 0, 0>>, <<0, 16, 0>>, <<0, 0, 25>>>>, gs |-> 1, A |-> <<<<3, 0, 0>>, <<0, 4, 0>>, <<0, 0, 5>>>>] ]
ASSUME \A n \in DOMAIN Catalogue : IsGram(Catalogue[n].G)
ASSUME \A n \in DOMAIN Catalogue : Catalogue[n].A # <<>> =>
          \A i, j \in I3 : Dot(Catalogue[n].A[i], Catalogue[n].A[j]) = Catalogue[n].G[i][j]
=============================================================================
