--------------------------- MODULE NeededDataRec ---------------------------
(* code -> spec for X01 (a): recorded calls of the real NeededData, one TLC state per record.
     kind "init"  : on / off = the flags passed as True / False (the others take their defaults), matrices, files as the
                    real object holds them, need_any = [[keys, truthy]], not_in = [[list, returned]]
     kind "split" : keys of the dictionary given to get_parameters, rest / selected = keys of the two returned dictionaries
   Clauses named info_* compare with the transcription literally; the others are the laws of NeededData.tla evaluated on
   the recorded sets. *)
EXTENDS NeededData, Json, IOUtils, TLCExt
VARIABLE i
Recs == JsonDeserialize(IOEnv.TRACE_FILE).recs
Rec == Recs[i]
S(q) == {q[n] : n \in 1..Len(q)}
fl == [f \in Flags |-> IF f \in S(Rec.on) THEN TRUE ELSE IF f \in S(Rec.off) THEN FALSE ELSE Defaults[f]]
ms == S(Rec.matrices)
fs == S(Rec.files)
InitClauses ==
   [ in_model |-> S(Rec.on) \cup S(Rec.off) \subseteq Flags /\ S(Rec.on) \cap S(Rec.off) = {},
     table_matrices |-> ms = Matrices(fl),
     table_files |-> fs = Files(fl),
     law_ham |-> LawHam(ms),
     law_promise |-> LawPromise(fl, ms) /\ LawSpinInternal(fl, ms),
     law_internal |-> LawInternal(fl, ms, fs),
     law_minimal |-> LawMinimal(fl, ms),
     law_files_cover |-> LawFilesCover(ms, fs),
     law_files_minimal |-> LawFilesMinimal(fl, ms, fs),
     law_chk |-> LawChk(fl, fs),
     law_keep |-> LawKeep(fl, ms),
     law_known |-> LawKnown(ms),
     no_duplicates |-> Cardinality(ms) = Len(Rec.matrices) /\ Cardinality(fs) = Len(Rec.files),
     need_any |-> \A n \in 1..Len(Rec.need_any) : Rec.need_any[n][2] = (S(Rec.need_any[n][1]) \cap ms # {}),
     not_in_list |-> \A n \in 1..Len(Rec.not_in) : S(Rec.not_in[n][2]) = ms \ S(Rec.not_in[n][1]) ]
SplitClauses ==
   LET ks == S(Rec.keys)  r == S(Rec.rest)  s == S(Rec.selected) IN
   [ covers |-> r \cup s = ks,
     overlap |-> r \cap s = ks \cap {Fito},
     selected_are_flags |-> s = ks \cap Flags,
     foreign_stay |-> ks \ Flags \subseteq r,
     info_equals_spec |-> GetParameters(ks) = [rest |-> r, selected |-> s] ]
Clauses == IF Rec.kind = "init" THEN InitClauses ELSE SplitClauses
Report == \A c \in DOMAIN Clauses : Clauses[c] \/ PrintT(<<"BAD", i, c>>)
RecInit == i \in 1..Len(Recs)
RecSpec == RecInit /\ [][UNCHANGED i]_i
=============================================================================
