---------------------------- MODULE SymOrbitsRec ----------------------------
(* code -> spec for C20: records taken from the real irrep space group, Dwann / SymWann index maps and System_R.symmetrize
   runs on structures chosen by the harness (more sites and positions than the TLC catalogue).
     fn = "struct" : the complete list of operations, the site maps, shifts, images of triples and the irreducible triples
     fn = "symm"   : residual buckets of one symmetrize run (ceil(log10(r / 1e-16)); bucket <= 8  <=>  r <= 1e-8) *)
EXTENDS SymOrbits, Json, IOUtils, TLCExt
VARIABLE i
Recs == JsonDeserialize(IOEnv.TRACE_FILE).recs
Rec == Recs[i]
Vec(v) == <<v[1], v[2], v[3]>>
MatI(m) == <<Vec(m[1]), Vec(m[2]), Vec(m[3])>>
Sites == [k \in 1..Len(Rec.sites) |-> [type |-> Rec.sites[k].type, pos |-> Vec(Rec.sites[k].pos), mom |-> Vec(Rec.sites[k].mom)]]
Op(o) == [W |-> MatI(o.W), t |-> Vec(o.t), tr |-> o.tr]
OpsSeq == [n \in 1..Len(Rec.ops) |-> Op(Rec.ops[n])]
Limit == 8
LimitBerry == 11     \* 1e-5: the curvature carries 1/gap^2, test points have gaps down to 0.01

StructClauses ==
   LET S == Sites  SG == SpaceGroupOf(Rec.lat, S)  O == OpsSeq
       A == {k + 1 : k \in {Rec.blockA[j] : j \in 1..Len(Rec.blockA)}}
       B == {k + 1 : k \in {Rec.blockB[j] : j \in 1..Len(Rec.blockB)}}
       RLs == [n \in 1..Len(Rec.rlist) |-> Vec(Rec.rlist[n])]
       (* the operations that were applied (use_symmetries_index): 0-based positions in Rec.ops; all of them = the full group *)
       H == {O[Rec.sub[j] + 1] : j \in 1..Len(Rec.sub)}
   IN
   [ structure_ok   |-> DistinctSites(S) /\ PrimitiveCell(SG),
     group_complete |-> {O[n] : n \in 1..Len(O)} = SG /\ Len(O) = Cardinality(SG),
     atommap        |-> \A n \in 1..Len(O) : [k \in 1..Len(S) |-> Rec.amap[n][k] + 1] = AtomMap(S, O[n]),
     (* the sign convention of the shifts is internal: p_map(a) - g(p_a) or its negative, the same for all operations *)
     shifts         |-> \/ \A n \in 1..Len(O) : [k \in 1..Len(S) |-> Vec(Rec.tvec[n][k])] = TVec(S, O[n])
                        \/ \A n \in 1..Len(O) : [k \in 1..Len(S) |-> VNeg(Vec(Rec.tvec[n][k]))] = TVec(S, O[n]),
     triple_images  |-> \A m \in 1..Len(Rec.rmap) : LET e == Rec.rmap[m] IN
                           TripleMap(S, O[e.op + 1], <<Vec(e.R), e.a + 1, e.b + 1>>) = <<Vec(e.R2), e.a2 + 1, e.b2 + 1>>,
     (* any set of representatives will do: inside the listed triples, and every orbit of listed triples is represented
        (which member of an orbit is kept, and whether exactly one, is the implementation's choice) *)
     subgroup_ok    |-> H \subseteq SG /\ Identity \in H /\ \A g, f \in H : Compose(g, f) \in H,
     irreducible    |-> LET I == {<<Vec(Rec.irr[m][1]), Rec.irr[m][2] + 1, Rec.irr[m][3] + 1>> : m \in 1..Len(Rec.irr)}
                            X == Triples(RLs, A, B)
                        IN I \subseteq X /\ \A x \in X : Orbit(S, H, x) \cap I # {} ]
SymmClauses ==
   LET S == Sites  SG == SpaceGroupOf(Rec.lat, S)
       (* the operations the model was symmetrised with and is tested under: an empty list = the full group *)
       Hs == IF Len(Rec.subops) = 0 THEN SG ELSE {Op(Rec.subops[n]) : n \in 1..Len(Rec.subops)}
       (* inputs on which the per-orbital centre treatment cannot be exact (SymOrbits!MixedCentreSitesFor) are judged by one clause *)
       mixedClass == \E k \in 1..Len(Rec.shells) : MixedCentreSitesFor(Rec.lat, S, SG, Rec.shells[k]) # {}
       covariant == Rec.b_berry <= LimitBerry /\ Rec.b_centres <= Limit /\ Rec.b_idem <= Limit
   IN
   [ structure_ok   |-> DistinctSites(S) /\ PrimitiveCell(SG),
     (* projections in site-dependent local frames (rotate_basis): only complete shells, whose span every rotation preserves *)
     shells_allowed |-> \A k \in 1..Len(Rec.shells) : IF Rec.frames = "site" THEN Rec.shells[k] \in {"s", "p", "d"}
                                                                              ELSE ShellAllowedIn(Rec.lat, SG, Rec.shells[k]),
     subgroup_ok    |-> Hs \subseteq SG /\ Identity \in Hs /\ \A g, f \in Hs : Compose(g, f) \in Hs,
     class_recorded |-> Rec.mixed_class = mixedClass,
     (* the harness applies every (W, time reversal) of the specification's point group; it records their number *)
     group_size     |-> Rec.nops = Cardinality({<<g.W, g.tr>> : g \in Hs}),
     energy_symmetric |-> Rec.b_energy <= Limit,
     spin_covariant   |-> Rec.b_spin <= Limit,
     hermitian        |-> Rec.b_herm <= Limit,
     berry_covariant  |-> mixedClass \/ Rec.b_berry <= LimitBerry,
     centres_mapped   |-> mixedClass \/ Rec.b_centres <= Limit,
     idempotent       |-> mixedClass \/ Rec.b_idem <= Limit,
     mixed_centres    |-> mixedClass => covariant ]
Clauses == CASE Rec.fn = "struct" -> StructClauses [] Rec.fn = "symm" -> SymmClauses
Report == \A n \in DOMAIN Clauses : Clauses[n] \/ PrintT(<<"BAD", i, n>>)
RecInit == i \in 1..Len(Recs)
RecSpec == RecInit /\ [][UNCHANGED i]_i
=============================================================================
