---------------------------- MODULE MC_Component ----------------------------
(* kbandresult.get_component on every small integer tensor of rank 0..2 and every component specification of the
   domain (None, x/y/z strings, trace, norm, sq, unknown names, index tuples, too long strings on rank <= 1); one TLC state per case.
   The result is checked against the algebra it should be. *)
EXTENDS ToGrid
CONSTANTS Entries0, Entries1, Entries2     \* sets of tensor entries for rank 0, 1, 2
VARIABLES ndim, T, comp, out
vars == <<ndim, T, comp, out>>

EntriesSmall == {0, 1}
EntriesSigned == {-1, 0, 1}
EntriesWide == -2..2
Generic2 == { <<<<1, 2, 3>>, <<4, 5, 6>>, <<7, 8, 9>>>>, <<<<-4, 7, 2>>, <<3, -1, -9>>, <<5, 8, 6>>>> }
Tensors(r) == CASE r = 0 -> Entries0
                [] r = 1 -> [1..3 -> Entries1]
                [] r = 2 -> [1..3 -> [1..3 -> Entries2]] \cup Generic2
Comps(r) == {[kind |-> "none", c |-> <<>>]}
       \cup {[kind |-> "name", c |-> <<n>>] : n \in {"trace", "norm", "sq", "w"}}
       \cup {[kind |-> "xyz", c |-> s] : s \in XYZStrings(1) \cup XYZStrings(r) \cup {s2 \o <<"y">> : s2 \in XYZStrings(r)}}
       \cup {[kind |-> "tuple", c |-> s] : s \in XYZStrings(r)}
Init == /\ ndim \in 0..2 /\ T \in Tensors(ndim)
        /\ comp \in {c \in Comps(ndim) : CompOK(ndim, c) /\ (c.kind = "xyz" => Len(c.c) >= 1)}
        /\ out = GetComponent(T, ndim, comp)
Next == UNCHANGED vars
Spec == Init /\ [][Next]_vars

Idx(s) == [k \in 1..Len(s) |-> XYZ(s[k])]
Str(s) == [kind |-> "xyz", c |-> s]
Name(n) == [kind |-> "name", c |-> <<n>>]
(* C30: a component is the corresponding algebraic operation on the stored tensor *)
InvSelect == comp.kind \in {"xyz", "tuple"} /\ Len(comp.c) = ndim /\ ndim >= 1 => out = Val(TIndex(T, Idx(comp.c)))
InvStringIsTuple == comp.kind = "xyz" /\ Len(comp.c) = ndim => out = GetComponent(T, ndim, [kind |-> "tuple", c |-> comp.c])
InvTrace == ndim = 2 /\ comp = Name("trace") => out = Val(T[1][1] + T[2][2] + T[3][3])
InvTraceOfStrings == ndim = 2 /\ comp = Name("trace") =>
                        out.v = GetComponent(T, 2, Str(<<"x", "x">>)).v + GetComponent(T, 2, Str(<<"y", "y">>)).v + GetComponent(T, 2, Str(<<"z", "z">>)).v
InvNorm == ndim = 1 /\ comp = Name("norm") => out.tag = "sqrt" /\ out.v = T[1] * T[1] + T[2] * T[2] + T[3] * T[3] /\ out.v = GetComponent(T, 1, Name("sq")).v
InvSq == ndim = 1 /\ comp = Name("sq") =>
            out.v = GetComponent(T, 1, Str(<<"x">>)).v * GetComponent(T, 1, Str(<<"x">>)).v + GetComponent(T, 1, Str(<<"y">>)).v * GetComponent(T, 1, Str(<<"y">>)).v
                    + GetComponent(T, 1, Str(<<"z">>)).v * GetComponent(T, 1, Str(<<"z">>)).v
InvScalar == ndim = 0 => out = (IF comp.kind \in {"none", "tuple"} THEN Val(T) ELSE NoComponent)
InvErrors == out = NoComponent <=> \/ (ndim = 0 /\ comp.kind \in {"xyz", "name"})
                                   \/ (ndim = 1 /\ (comp.kind = "none" \/ (comp.kind = "xyz" /\ Len(comp.c) # 1) \/ (comp.kind = "name" /\ comp.c \notin {<<"norm">>, <<"sq">>})))
(* every entry of get_component_list can be extracted *)
InvList == \A c \in ComponentList(ndim) : CompOK(ndim, c) /\ GetComponent(T, ndim, c).tag = "val"
=============================================================================
