------------------------------ MODULE BandsRec ------------------------------
(* code -> spec: records of calls of the real band-grouping functions, one TLC state per record *)
EXTENDS Bands, Json, IOUtils, TLCExt
VARIABLE i
Recs == JsonDeserialize(IOEnv.TRACE_FILE).recs
Rec == Recs[i]
AsSeq(s) == [k \in 1..Len(s) |-> s[k]]
Pairs(s) == [k \in 1..Len(s) |-> <<s[k][1], s[k][2]>>]
SetOf(s) == {s[k] : k \in 1..Len(s)}

(* the partition is unique, so the groups are compared as a set (the order of the list is not part of the property) *)
BordersClauses ==
   LET E == AsSeq(Rec.E)  G == Pairs(Rec.out)  B == Borders(E, Rec.th, Rec.kr)
       Gs == SortSeq(G, LAMBDA a, b : a[1] < b[1])
       part == IsPartition(E, Gs)          \* the gap clauses index E through the groups: evaluated for partitions only
   IN
   [ equals_spec |-> SetOf(G) = {B[j] : j \in 1..Len(B)} /\ Len(G) = Len(B),
     partition   |-> part,
     internal    |-> (part /\ (~Rec.kr \/ KramersPaired(E, Rec.th))) => InternalGapsSmall(E, Gs, Rec.th),
     boundary    |-> part => BoundaryGapsLarge(E, Gs, Rec.th),
     kramers     |-> Rec.kr => BoundariesEven(Gs) ]
WindowClauses ==
   LET E == AsSeq(Rec.E)  S == {k + 1 : k \in SetOf(Rec.out)} IN
   [ equals_spec  |-> S = SelectWindow(E, Rec.th, Rec.lo, Rec.hi, Rec.incl),
     never_splits |-> NeverSplits(E, Rec.th, S),
     monotone     |-> IF Rec.incl THEN Inside0(E, Rec.lo, Rec.hi) \subseteq S ELSE S \subseteq Inside0(E, Rec.lo, Rec.hi),
     empty_window |-> Rec.lo > Rec.hi => S = {} ]
(* get_bands_in_range / Data_K.get_bands_in_range_groups: admissible set of whole groups (ends of the range are free) *)
InRangeClauses ==
   LET E == AsSeq(Rec.E)  G == Pairs(Rec.out) IN
   [ admissible_groups |-> InRangeAdmissible(E, Rec.th, Rec.kr, Rec.emin, Rec.emax, SetOf(G)),
     no_duplicates |-> Cardinality(SetOf(G)) = Len(G) ]
(* Tabulator at one k-point: Rec.vin[b] = integer value of band b given to the synthetic formula (its trace over a set of
   bands is the sum), Rec.ib = tabulated band indices (0-based, any subset / order), Rec.vals[p] = tabulated value for
   band ib[p]; the blocks are the specification's own Borders(E, th, kr) *)
TabClauses ==
   LET E == AsSeq(Rec.E)  G == Borders(E, Rec.th, Rec.kr)  vin == AsSeq(Rec.vin)  ib == AsSeq(Rec.ib)  V == AsSeq(Rec.vals)
       GroupOf(b) == CHOOSE j \in 1..Len(G) : G[j][1] <= b /\ b < G[j][2]
       BlockSum(g) == LET S[b \in g[1]..g[2]] == IF b = g[1] THEN 0 ELSE S[b - 1] + vin[b] IN S[g[2]]
   IN
   [ shape |-> Len(V) = Len(ib),
     equal_inside_block |-> \A p, q \in 1..Len(ib) : GroupOf(ib[p]) = GroupOf(ib[q]) => V[p] = V[q],
     block_average |-> \A p \in 1..Len(ib) : LET g == G[GroupOf(ib[p])] IN V[p] * (g[2] - g[1]) = BlockSum(g) ]
Clauses == CASE Rec.fn = "borders" -> BordersClauses
             [] Rec.fn = "window" -> WindowClauses
             [] Rec.fn = "inrange" -> InRangeClauses
             [] Rec.fn = "tab" -> TabClauses
Report == \A n \in DOMAIN Clauses : Clauses[n] \/ PrintT(<<"BAD", i, n>>)
RecInit == i \in 1..Len(Recs)
RecSpec == RecInit /\ [][UNCHANGED i]_i
=============================================================================
