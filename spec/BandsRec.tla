------------------------------ MODULE BandsRec ------------------------------
(* code -> spec: records of calls of the real band-grouping functions, one TLC state per record *)
EXTENDS Bands, Json, IOUtils, TLCExt
VARIABLE i
Recs == JsonDeserialize(IOEnv.TRACE_FILE).recs
Rec == Recs[i]
AsSeq(s) == [k \in 1..Len(s) |-> s[k]]
Pairs(s) == [k \in 1..Len(s) |-> <<s[k][1], s[k][2]>>]
SetOf(s) == {s[k] : k \in 1..Len(s)}

BordersClauses ==
   LET E == AsSeq(Rec.E)  G == Pairs(Rec.out) IN
   [ equals_spec |-> G = Borders(E, Rec.th, Rec.kr),
     partition   |-> IsPartition(E, G),
     internal    |-> (~Rec.kr \/ KramersPaired(E, Rec.th)) => InternalGapsSmall(E, G, Rec.th),
     boundary    |-> BoundaryGapsLarge(E, G, Rec.th),
     kramers     |-> Rec.kr => BoundariesEven(G) ]
WindowClauses ==
   LET E == AsSeq(Rec.E)  S == {k + 1 : k \in SetOf(Rec.out)} IN
   [ equals_spec  |-> S = SelectWindow(E, Rec.th, Rec.lo, Rec.hi, Rec.incl),
     never_splits |-> NeverSplits(E, Rec.th, S),
     monotone     |-> IF Rec.incl THEN Inside0(E, Rec.lo, Rec.hi) \subseteq S ELSE S \subseteq Inside0(E, Rec.lo, Rec.hi) ]
InRangeClauses ==
   LET E == AsSeq(Rec.E) IN
   [ equals_spec |-> Pairs(Rec.out) = GroupsInRange(E, Rec.th, Rec.kr, Rec.emin, Rec.emax) ]
TabClauses ==
   (* tabulated values: Rec.groups = groups, Rec.vals[b] = integer value tabulated for band b (0-based list) *)
   LET G == Pairs(Rec.groups) V == AsSeq(Rec.vals) IN
   [ equal_inside_block |-> \A j \in 1..Len(G) : \A a, b \in (G[j][1] + 1)..G[j][2] : V[a] = V[b],
     block_average |-> \A j \in 1..Len(G) : \A a \in (G[j][1] + 1)..G[j][2] :
                            V[a] * (G[j][2] - G[j][1]) = Rec.tr[j] ]
Clauses == CASE Rec.fn = "borders" -> BordersClauses
             [] Rec.fn = "window" -> WindowClauses
             [] Rec.fn = "inrange" -> InRangeClauses
             [] Rec.fn = "tab" -> TabClauses
Report == \A n \in DOMAIN Clauses : Clauses[n] \/ PrintT(<<"BAD", i, n>>)
RecInit == i \in 1..Len(Recs)
RecSpec == RecInit /\ [][UNCHANGED i]_i
=============================================================================
