SPECIFICATION MCSpec
CONSTANTS
  D = 1
  N = 4
  NDIV = 2
  LMAX = 2
  Group <- GInv1
  NSTEP = 2
  Accumulate = TRUE
  SortedListing = TRUE
  CellSymmetric = TRUE
  WaitFirstN = FALSE
  NITER = 2
  AdptFac = 1
  ParA = {FALSE, TRUE}
  ParB = {FALSE, TRUE}
  DumpSet = {FALSE, TRUE}
  AllowASet = {FALSE, TRUE}
  SymSet = {TRUE, FALSE}
  WithB = TRUE
  AllOrders = TRUE
  RestartIters = {1}
  MaxLeg = 9
  FirstLegMax = 9
  AllowArgB = {TRUE, FALSE}
INVARIANT TypeOK
INVARIANT NoError
INVARIANT WeightOne
INVARIANT IntegralConsistent
INVARIANT CollectedOnce
INVARIANT RestartEquivalence
CHECK_DEADLOCK FALSE
