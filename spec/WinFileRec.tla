----------------------------- MODULE WinFileRec -----------------------------
(* code -> spec for X01 (b): recorded calls of the real WIN, one TLC state per record.
     kind "read"      : file = the token lines of a .win file the harness wrote, seed, out = {err, data} what
                        WIN.from_w90_file returned (data: list of [key, value])
     kind "write"     : data, order (keys in dictionary order), out = {err, file} the token lines of what WIN.write wrote
     kind "roundtrip" : data, target, out = {err, data}: write(target) then from_w90_file(target)
   Clauses named info_* compare with the transcription literally (layout of the file, exception class, statuses outside
   the statement); the others are the statement. *)
EXTENDS WinFile, Json, IOUtils, TLCExt
VARIABLE i
Recs == JsonDeserialize(IOEnv.TRACE_FILE).recs
Rec == Recs[i]
Val(v) == Mk(v.t, v.i, v.s, v.q, v.l)
DataOf(ps) == [k \in {ps[n][1] : n \in 1..Len(ps)} |-> Val(ps[CHOOSE n \in 1..Len(ps) : ps[n][1] = k][2])]
FileOf(ls) == [n \in 1..Len(ls) |-> Line(ls[n].k, ls[n].name, ls[n].cs, ls[n].sep, Val(ls[n].v))]
OutOK == Rec.out.err = ""
ReadClauses ==
   LET f == TLCEval(FileOf(Rec.file))  r == TLCEval(FromFile(f, Rec.seed))  d == TLCEval(DataOf(Rec.out.data)) IN
   [ in_model |-> WellFormed(f) /\ Complete(f) /\ AtomsDyadic(Significant(f)),
     status |-> Rec.mesh => ((r.err = "") = OutOK),
     data |-> (r.err = "" /\ OutOK) => SameData(r.data, d),
     info_status |-> (r.err = "") = OutOK ]
FileKeys(f) == LET F == Significant(f) IN {F[p].name : p \in {n \in 1..Len(F) : F[n].k \in {"param", "begin"}}}
WriteClauses ==
   LET d == TLCEval(DataOf(Rec.data))  f == TLCEval(FileOf(Rec.out.file)) IN
   [ in_model |-> Writable(d),
     no_failure |-> OutOK,
     well_formed |-> OutOK => WellFormed(f),
     every_entry_once |-> OutOK => /\ FileKeys(f) = Written(d)
                                   /\ \A k \in FileKeys(f) : Cardinality({p \in 1..Len(f) : f[p].k \in {"param", "begin"} /\ f[p].name = k}) = 1,
     \* the file, read by the format's own rules, holds the dictionary
     file_holds_data |-> (OutOK /\ MeshConsistent(d)) =>
                            LET r == FromFile(f, Rec.target) IN
                            /\ r.err = "" /\ SameBut(r.data, d, {"seedname", "mp_grid"})
                            /\ (Get(d, "mp_grid").t # "none" => r.data["mp_grid"] = d["mp_grid"]),
     info_layout |-> OutOK => Significant(f) = Significant(WriteWin(d, Rec.order)) ]
RoundClauses ==
   LET d == TLCEval(DataOf(Rec.data))  g == TLCEval(DataOf(Rec.out.data)) IN
   [ in_model |-> Writable(d),
     read_back |-> MeshConsistent(d) => OutOK,
     round_trip |-> (MeshConsistent(d) /\ OutOK) => /\ SameBut(g, d, {"seedname", "mp_grid"})
                                                    /\ (Get(d, "mp_grid").t # "none" => Get(g, "mp_grid") = d["mp_grid"]),
     mp_grid_derived |-> OutOK => (Get(g, "mp_grid").t = "ints" /\ MeshConsistent(g)),
     seedname_follows_file |-> OutOK => Get(g, "seedname") = VStr(Rec.target),
     inconsistent_rejected |-> ~MeshConsistent(d) => ~OutOK ]
Clauses == CASE Rec.kind = "read" -> ReadClauses [] Rec.kind = "write" -> WriteClauses [] Rec.kind = "roundtrip" -> RoundClauses
Report == \A c \in DOMAIN Clauses : Clauses[c] \/ PrintT(<<"BAD", i, c>>)
RecInit == i \in 1..Len(Recs)
RecSpec == RecInit /\ [][UNCHANGED i]_i
=============================================================================
