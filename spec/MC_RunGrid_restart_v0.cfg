SPECIFICATION MCSpec
CONSTANTS
  D = 1
  N = 4
  NDIV = 2
  LMAX = 2
  Group <- GInv1
  NSTEP = 2
  Accumulate = TRUE
  SortedListing = FALSE
  CellSymmetric = TRUE
  WaitFirstN = FALSE
  NITER = 2
  AdptFac = 1
  ParA = {FALSE}
  ParB = {FALSE}
  DumpSet = {FALSE, TRUE}
  AllowASet = {FALSE, TRUE}
  SymSet = {TRUE, FALSE}
  WithB = TRUE
  AllOrders = TRUE
  RestartIters = {1}
  MaxLeg = 9
  FirstLegMax = 9
  AllowArgB = {TRUE, FALSE}
VIEW mcview
INVARIANT TypeOK
INVARIANT NoError
INVARIANT WeightOne
INVARIANT NoEquivDup
INVARIANT OrbitWeight
INVARIANT Tiling
INVARIANT IntegralConsistent
INVARIANT SavedWeightOne
INVARIANT ReturnedWeightOne
INVARIANT CollectedOnce
INVARIANT AllCollected
INVARIANT RestartEquivalence
PROPERTY PickleAppendOnly
PROPERTY FactorFilesGrow
CHECK_DEADLOCK FALSE
PROPERTY ResumeLatest
