----------------------------- MODULE PathSpecRec -----------------------------
(* code -> spec (C29): records of calls of the real Path.from_nodes / get_refined / getKline / get_K_list /
   TABresult.self_to_path, one TLC state per record.  Points arrive as 4-tuples [x, y, z, d] (the harness multiplies
   the floating-point coordinates by the known common denominator, verifies integrality and reduces), squared
   path-coordinate steps as reduced fractions [num, den] in the units of the integer lattice A (the harness divides
   them by a common positive constant if the code's path coordinate has another unit).  Clauses named info_* are
   internal details that the statement of C29 does not name: they are counted, they never decide. *)
EXTENDS PathSpec, Json, IOUtils, TLCExt
VARIABLE i
Recs == JsonDeserialize(IOEnv.TRACE_FILE).recs
Rec == Recs[i]
(* TLCEval: evaluate once, eagerly (the values are used many times) *)
AsSeq(s) == TLCEval([k \in 1..Len(s) |-> s[k]])
Seq2(s) == TLCEval([k \in 1..Len(s) |-> AsSeq(s[k])])
Mat(s) == <<AsSeq(s[1]), AsSeq(s[2]), AsSeq(s[3])>>
PathOf(p) == TLCEval([K |-> Seq2(p.K), labels |-> [k \in 1..Len(p.labels) |-> <<p.labels[k][1], p.labels[k][2]>>], breaks |-> AsSeq(p.breaks)])
Strip(p) == [K |-> p.K, labels |-> p.labels, breaks |-> p.breaks]
SameSteps(a, b) == Len(a) = Len(b) /\ \A k \in 1..Len(a) : a[k][1] * b[k][2] = b[k][1] * a[k][2]

(* from_nodes.  dk / length: the record carries nkout, the number of points per sampled segment read off the real
   path (distance between the labelled node positions); the path must be THE uniform path with these nk and every nk
   must be a sampling with dk (DkSpacingOK).  Which of the admissible nk the code picks (its rounding rule) is
   information only (info_* clauses never decide).  labels=None: the harness replaces the label texts by the
   specification's default texts (only the labelled index set is compared). *)
NodesClauses ==
   LET nodes == Seq2(Rec.nodes)
       labels == IF Rec.deflab THEN DefaultLabels(nodes) ELSE AsSeq(Rec.labels)
       spec0 == [mode |-> Rec.mode, nk |-> AsSeq(Rec.nk), inv |-> AsSeq(Rec.inv), A |-> Mat(Rec.A)]
       byDk == Rec.mode \in {"dk", "length"}
       nkout == AsSeq(Rec.nkout)
       spec == IF byDk THEN [mode |-> "list", nk |-> nkout, inv |-> <<0, 1>>, A |-> Mat(Rec.A)] ELSE spec0
       P == PathOf(Rec.out)
       segs == {k \in 1..Len(nodes) : StartsSegment(nodes, k)}
   IN [ in_domain      |-> NodesOK(nodes) /\ (IF byDk THEN Len(nkout) = NumSegments(nodes) ELSE NkOK(nodes, spec0)),
        nk_at_least_2  |-> byDk => \A k \in 1..Len(nkout) : nkout[k] >= 2,
        dk_spacing     |-> byDk => \A k \in segs : DkSpacingOK(Dist2(nodes[k], nodes[k + 1], spec0.A), spec0.inv, NkDecl(nodes, spec, k)),
        equals_spec    |-> SamePath(Strip(FromNodes(nodes, labels, spec)), P),
        nodes_in_order |-> NodesInOrder(nodes, spec, P),
        labels_exact   |-> LabelsExact(nodes, labels, spec, P),
        uniform        |-> UniformSegments(nodes, spec, P),
        breaks_exact   |-> BreaksExact(nodes, spec, P),
        length         |-> LengthExact(nodes, spec, P),
        kline_flat     |-> \A b \in BreakSet(P) : Rec.kline2[b + 1][1] = 0,
        kline_monotone |-> \A k \in 1..Len(Rec.kline2) : Rec.kline2[k][1] >= 0 /\ Rec.kline2[k][2] > 0,
        info_round_nearest |-> byDk /\ NkOK(nodes, spec0) => \A k \in segs : NkDecl(nodes, spec, k) = NkDecl(nodes, spec0, k),
        info_kline_steps   |-> SameSteps(Seq2(Rec.kline2), KlineSteps(P, spec.A, NoThresh)),
        info_kline_uniform |-> KlineUniform(nodes, spec, P, spec.A) ]
RefinedClauses ==
   LET P == PathOf(Rec.path) R == PathOf(Rec.out) f == Rec.f A == Mat(Rec.A)
   IN [ in_domain     |-> PathOK(P) /\ f >= 1,
        equals_spec   |-> SamePath(Refined(P, f), R),
        keeps_points  |-> KeepsPoints(P, f, R),
        keeps_labels  |-> KeepsLabels(P, f, R),
        keeps_breaks  |-> KeepsBreaks(P, f, R),
        length        |-> RefLength(P, f, R),
        uniform       |-> RefUniform(P, f, R),
        no_breaks     |-> RefNoBreaks(P, f, R),
        kline_flat     |-> \A b \in BreakSet(R) : Rec.kline2[b + 1][1] = 0,
        kline_monotone |-> \A k \in 1..Len(Rec.kline2) : Rec.kline2[k][1] >= 0 /\ Rec.kline2[k][2] > 0,
        info_kline_steps   |-> SameSteps(Seq2(Rec.kline2), KlineSteps(R, A, NoThresh)),
        info_kline_refined |-> KlineRefined(P, f, R, A) ]
(* get_K_list: C29 needs that the batches together hold every path point exactly once (each is evaluated; the order
   is restored by self_to_path).  How the points are cut into batches is internal chunking: information only. *)
BatchClauses ==
   LET P == [K |-> Seq2(Rec.K), labels |-> <<>>, breaks |-> <<>>]
       bs == [t \in 1..Len(Rec.out) |-> Seq2(Rec.out[t])]
   IN [ covers           |-> SameBag(FlattenSeq(bs), P.K),
        info_equals_spec |-> bs = Batches(P, Rec.kb),
        info_concat      |-> BatchesConcat(bs, P),
        info_sizes       |-> BatchesSizes(bs, P, Rec.kb) ]
(* self_to_path: Rec.kp = result k-points in the order they were collected, Rec.tags = the class tag stored as data
   of each of them, Rec.out = the tags found along the path after self_to_path *)
ToPathClauses ==
   LET pathK == Seq2(Rec.K) kp == Seq2(Rec.kp) map == ToPathMap(kp, pathK)
   IN [ covers      |-> \A j \in 1..Len(pathK) : \E t \in 1..Len(kp) : PtEquiv(kp[t], pathK[j]),
        equals_spec |-> AsSeq(Rec.out) = [j \in 1..Len(pathK) |-> Rec.tags[map[j]]],
        own_values  |-> \A j \in 1..Len(pathK) : Rec.out[j] = PtClass(pathK)[j] ]
Clauses == CASE Rec.fn = "from_nodes" -> NodesClauses
             [] Rec.fn = "refined" -> RefinedClauses
             [] Rec.fn = "batches" -> BatchClauses
             [] Rec.fn = "to_path" -> ToPathClauses
Report == \A n \in DOMAIN Clauses : Clauses[n] \/ PrintT(<<"BAD", i, n>>)
RecInit == i \in 1..Len(Recs)
RecSpec == RecInit /\ [][UNCHANGED i]_i
=============================================================================
