-------------------------- MODULE MC_TBFourierHist --------------------------
(* C02 -- call HISTORIES on ONE transform object (one Rvectors): the statement "all back ends give the same k-space matrices"
   is about values, so it must hold for every call whatever was called before on the same object, and every array that was
   ever returned must keep its value (results are values, not views of buffers that later calls reuse).

      new --SetTarget(t)--> (CallRtoK(arg) | ReTarget(t'))*            hist = the sequence of calls made so far

   SetTarget / ReTarget = Rvectors.set_fft_R_to_k(NK, fftlib, dK)  (an FFT grid shifted by dK, back end `lib` in the caller's
                          spelling) or set_fft_R_to_k(k_list = ...)  (explicit list of k-points), on the SAME Rvectors object;
   CallRtoK(cs, herm)   = Rvectors.R_to_k(apply_expdK(Ham_R), der = Len(cs), hermitian = herm), component cs of the result.

   The implementation state that could make a result depend on the history is modelled explicitly:
      planbuf  the input buffer of the FFTW plan of the current FFT_R_to_k object (a returned array may alias it),
      olddk    the K-shift phases exp(2 pi i R.dK) left on the Rvectors object by the last grid target,
      lib      the spelling of fftlib (the constructor lower-cases it: documented as case-insensitive).
   The three switches model the plausible wrong implementations (must-fail sensitivity runs); all FALSE = the code. *)
EXTENDS TBFourier

CONSTANTS MODELIDS,      \* models (ModelOf)
          TARGETIDS,     \* targets (TargetOf)
          ARGIDS,        \* arguments of CallRtoK (ArgOf)
          LIBS,          \* spellings of fftlib, e.g. {"fftw", "FFTW", "numpy", "NumPy", "slow", "Slow"}
          DEPTH,         \* number of calls in a history (the first one is SetTarget)
          MAXRET,        \* at most this many ReTarget calls
          SharedBuffer,  \* TRUE: the array returned by fftw for der = 0, hermitian = FALSE is the plan's input buffer, which every
                         \*       later transform of the same plan overwrites (the defect repaired by "fftw transform must not hand
                         \*       out its input buffer")
          StaleDK,       \* TRUE: a k-list target set after a shifted grid still multiplies the old K-shift phases in
          KeepSpelling   \* TRUE: the spelling of fftlib is not lower-cased: a mixed-case name selects no transform at all

VARIABLES model, hops, lib, target, hist, planbuf, olddk, nret
vars == <<model, hops, lib, target, hist, planbuf, olddk, nret>>

DD == 4
Lat == << <<1, 0, 0>>, <<1, 2, 0>>, <<0, 0, 1>> >>
Tau == << <<1, 0, 0>>, <<-2, 3, 0>> >>
Hop(R, a, b, v) == [R |-> R, a |-> a, b |-> b, v |-> v]
HopsOf(id) == CASE id = 1 -> {Hop(<<1, 0, 0>>, 1, 2, CI)}
                [] id = 2 -> {Hop(<<2, 0, 0>>, 1, 1, COne), Hop(<<0, 0, 0>>, 1, 2, CI)}
                [] id = 3 -> {Hop(<<1, 0, 0>>, 2, 1, Zeta(1)), Hop(<<0, 0, 0>>, 2, 2, CInt(2))}
M == [nw |-> 2, lat |-> Lat, D |-> DD, tau |-> Tau, hops |-> hops]          \* hops = HermitianClosure(HopsOf(model))

GridT(fft, dk) == [kind |-> "grid", fft |-> fft, dk |-> dk, kl |-> <<>>]
ListT(kl) == [kind |-> "klist", fft |-> <<1, 1, 1>>, dk |-> <<0, 0, 0>>, kl |-> kl]
TargetOf(id) == CASE id = 1 -> GridT(<<2, 1, 1>>, <<1, 0, 0>>)                                   \* shifted grid
                  [] id = 2 -> GridT(<<3, 1, 1>>, <<0, 0, 0>>)                                   \* another grid, no shift
                  [] id = 3 -> ListT(<< <<1, 0, 0>>, <<5, 0, 0>>, <<-4, 12, 0>> >>)              \* explicit list
                  [] id = 4 -> GridT(<<4, 1, 1>>, <<7, 0, 0>>)
                  [] id = 5 -> ListT(<< <<0, 0, 0>>, <<3, 6, 0>> >>)
Arg(cs, herm) == [cs |-> cs, herm |-> herm]
ArgOf(id) == CASE id = 1 -> Arg(<<>>, FALSE) [] id = 2 -> Arg(<<>>, TRUE) [] id = 3 -> Arg(<<1>>, FALSE)
               [] id = 4 -> Arg(<<1, 2>>, FALSE) [] id = 5 -> Arg(<<2>>, TRUE)

(* FFT_R_to_k.__init__: fftlib.lower() *)
Canon(sp) == CASE sp \in {"fftw", "FFTW", "fftW"} -> "fftw" [] sp \in {"numpy", "NumPy", "NuMpY"} -> "numpy"
               [] sp \in {"slow", "Slow", "SLOW"} -> "slow"
IsCanon(sp) == sp = Canon(sp)

(* ---------------- the exact value of a call: depends on its own arguments only *)
ListRows(X, kl) == [j \in 1..Len(kl) |-> RtoKDirect(M, X, kl[j])]
Exact(t, a) ==
   IF t.kind = "grid" THEN FFTPath(M, t.fft, t.dk, a.cs, FALSE)
   ELSE ListRows(DerTable(M, HamTable(M), a.cs), t.kl)
(* ---------------- what the modelled implementation returns *)
Untransformed(t, a) ==      \* the R-space matrices placed on the grid, times prod(NKFFT): transform() matched no back end
   With(DerTable(M, ApplyExpdK(M, HamTable(M), t.dk, t.fft, FALSE), a.cs), LAMBDA X :
        [j \in 1..NK(t.fft) |-> [a1 \in Orb(M) |-> [b1 \in Orb(M) |-> CScale(NK(t.fft), Place(X, t.fft, a1, b1)[KOfIndex(t.fft, j)])]]])
Returned(t, a) ==
   IF t.kind = "grid" THEN (IF KeepSpelling /\ ~IsCanon(lib) THEN Untransformed(t, a) ELSE Exact(t, a))
   ELSE IF StaleDK THEN ListRows(DerTable(M, HamTable(M), a.cs), [j \in 1..Len(t.kl) |-> Add3(t.kl[j], olddk)])
        ELSE Exact(t, a)
(* the array handed out is the plan's own input buffer *)
HandsOutBuffer(t, a) == SharedBuffer /\ t.kind = "grid" /\ Canon(lib) = "fftw" /\ Len(a.cs) = 0 /\ ~a.herm
UsesPlan(t) == t.kind = "grid" /\ Canon(lib) = "fftw"
(* the buffer after a later transform of the same plan wrote its own data into it (same type as a table of rows) *)
Junk == [j \in 1..1 |-> [a1 \in 1..2 |-> [b1 \in 1..2 |-> <<9, 9, 9, 9>>]]]
(* what the caller sees now in the array returned by the i-th call *)
Visible(e) == IF e.alias THEN planbuf ELSE e.rows

Init == /\ model \in MODELIDS /\ hops = HermitianClosure(HopsOf(model)) /\ lib \in LIBS
        /\ target = <<>> /\ hist = <<>> /\ planbuf = <<>> /\ olddk = <<0, 0, 0>> /\ nret = 0
SetTargetTo(id) ==
   /\ target' = TargetOf(id)
   /\ olddk' = IF TargetOf(id).kind = "grid" THEN TargetOf(id).dk ELSE olddk      \* the k-list branch leaves dK / expdK untouched
   (* a new FFT_R_to_k (a new plan): arrays aliasing the old plan's buffer keep what they hold now *)
   /\ hist' = Append([i \in 1..Len(hist) |-> IF hist[i].op = "transform" THEN [hist[i] EXCEPT !.rows = Visible(hist[i]), !.alias = FALSE] ELSE hist[i]],
                     [op |-> "target", id |-> id, t |-> TargetOf(id)])
   /\ planbuf' = <<>>
SetTarget == /\ hist = <<>> /\ \E id \in TARGETIDS : SetTargetTo(id)
             /\ UNCHANGED <<model, hops, lib, nret>>
ReTarget == /\ hist # <<>> /\ Len(hist) < DEPTH - 1 /\ nret < MAXRET          \* never the last call: a transform follows
            /\ \E id \in TARGETIDS : TargetOf(id) # target /\ SetTargetTo(id)
            /\ nret' = nret + 1 /\ UNCHANGED <<model, hops, lib>>
CallRtoK == /\ hist # <<>> /\ Len(hist) < DEPTH
             /\ \E id \in ARGIDS :
                   LET a == ArgOf(id)  r == Returned(target, a)
                   IN /\ hist' = Append(hist, [op |-> "transform", id |-> id, cs |-> a.cs, herm |-> a.herm, rows |-> r, alias |-> HandsOutBuffer(target, a)])
                      /\ planbuf' = IF HandsOutBuffer(target, a) THEN r
                                    ELSE IF UsesPlan(target) /\ planbuf # <<>> THEN Junk ELSE planbuf
             /\ UNCHANGED <<model, hops, lib, target, olddk, nret>>
Next == SetTarget \/ ReTarget \/ CallRtoK
Spec == Init /\ [][Next]_vars

(* the target / arguments of the i-th call *)
TargetAt(i) == TargetOf(hist[CHOOSE j \in 1..i : hist[j].op = "target" /\ \A l \in (j + 1)..i : hist[l].op # "target"].id)
(* C02 on histories: every result ever returned still equals the exact value for its own arguments *)
ResultsAreValues == \A i \in 1..Len(hist) : hist[i].op = "transform" => Visible(hist[i]) = Exact(TargetAt(i), ArgOf(hist[i].id))
(* hermitian = TRUE changes nothing (the model is Hermitian) *)
HermNoop == \A i \in 1..Len(hist) : hist[i].op = "transform" /\ hist[i].herm => HermSymNoop(Exact(TargetAt(i), ArgOf(hist[i].id)))
Complete == Len(hist) = DEPTH
=============================================================================
