------------------------ MODULE MC_PointGroupTransforms ------------------------
(* class Transform / TransformProduct on their own: which transforms are involutions, which pairs commute (the
   conditions under which transform_tensor is a group action), and the product rule of TransformProduct.
   One state per (rank, t, u) (action Eval); `out` carries what the harness replays on the real Transform objects. *)
EXTENDS PointGroupAlg
CONSTANTS RANKS
VARIABLES rank, t, u, out
vars == <<rank, t, u, out>>
Extra == [cyc_120 |-> [factor |-> 1, conj |-> FALSE, axes |-> <<1, 2, 0>>],
          cyc_201 |-> [factor |-> -1, conj |-> FALSE, axes |-> <<2, 0, 1>>],
          rev_210 |-> [factor |-> 1, conj |-> TRUE, axes |-> <<2, 1, 0>>],
          conj |-> [factor |-> 1, conj |-> TRUE, axes |-> <<>>],
          conj_trans |-> [factor |-> -1, conj |-> TRUE, axes |-> <<1, 0>>],
          \* realised by the harness through Transform(swap_axes=...): the same permutations given the other way
          \* equal in value to transform_odd but another object (a product must multiply the factors' values)
          odd_copy |-> [factor |-> -1, conj |-> FALSE, axes |-> <<>>],
          swap_12 |-> [factor |-> 1, conj |-> FALSE, axes |-> <<1, 0>>],
          swap_13c |-> [factor |-> -1, conj |-> TRUE, axes |-> <<2, 1, 0>>]]
All == [n \in (DOMAIN Predefined) \cup (DOMAIN Extra) |-> IF n \in DOMAIN Predefined THEN Predefined[n] ELSE Extra[n]]
Names(r) == {n \in DOMAIN All : Len(All[n].axes) <= r}
Generic(r, v) == [rank |-> r, re |-> [p \in 1..Pow3(r) |-> ((p * p * (v + 1) + 3 * p + v) % 7) - 3],
                              im |-> [p \in 1..Pow3(r) |-> ((5 * p + v * p * p + 1) % 5) - 2]]
BasisT(r, q, imag) == [rank |-> r, re |-> [p \in 1..Pow3(r) |-> IF p = q /\ ~imag THEN 1 ELSE 0],
                                   im |-> [p \in 1..Pow3(r) |-> IF p = q /\ imag THEN 1 ELSE 0]]
(* all components distinct in absolute value, real and imaginary parts non-zero: a signed, possibly conjugating
   permutation of the components fixes this tensor iff it is the identity map (Apply is such a map) *)
Distinct(r) == [rank |-> r, re |-> [p \in 1..Pow3(r) |-> p], im |-> [p \in 1..Pow3(r) |-> 100 + p]]
BasisTensors(r) == {Distinct(r)} \cup {BasisT(r, q, FALSE) : q \in {1, 2, Pow3(r)}}
T0 == Generic(rank, 1)
Init == /\ rank \in RANKS /\ t \in Names(rank) /\ u \in Names(rank) /\ out = <<>>
Eval == /\ out = <<>>
        /\ LET T1 == Generic(rank, 1) IN
           out' = [ t_T |-> Apply(All[t], T1), u_t_T |-> Apply(All[u], Apply(All[t], T1)),
                    involution |-> IsInvolution(All[t]), commute |-> Commute(All[t], All[u]),
                    product_defined |-> TransformProductDefined(<<All[t], All[u]>>),
                    product |-> IF TransformProductDefined(<<All[t], All[u]>>) THEN TransformProduct(<<All[t], All[u]>>) ELSE <<>> ]
        /\ UNCHANGED <<rank, t, u>>
Next == Eval
Spec == Init /\ [][Next]_vars
Picked == out # <<>>

P_TransformsOK == TransformOK(All[t], rank) /\ TransformOK(All[u], rank)
(* the structural predicates decide exactly the behaviour *)
P_InvolutionCharacterised == IsInvolution(All[t]) = (\A T \in BasisTensors(rank) : Apply(All[t], Apply(All[t], T)) = T)
P_CommuteCharacterised == Commute(All[t], All[u]) = (\A T \in BasisTensors(rank) : Apply(All[t], Apply(All[u], T)) = Apply(All[u], Apply(All[t], T)))
P_PredefinedInvolutions == t \in DOMAIN Predefined => IsInvolution(All[t])
P_PredefinedPairs == (t \in DOMAIN Predefined /\ u \in DOMAIN Predefined) =>
                      (ValidPair(All[t], All[u]) = ({t, u} \notin {{"odd_trans_021", "odd_trans_102"}, {"odd_trans_102", "trans"}}))
(* TransformProduct is the transform of a product of quantities: tp(A x B) = t(A) x u(B) *)
P_ProductRule == out.product_defined =>
                  /\ IsInvolution(out.product) /\ \A n \in Names(rank) : Commute(out.product, All[n])
                  /\ \A ra \in 0..rank : LET A == Generic(ra, 1)  B == Generic(rank - ra, 2) IN
                        Apply(out.product, Outer(A, B)) = Outer(Apply(All[t], A), Apply(All[u], B))
P_ProductDefinedIff == out.product_defined = (All[t].conj = All[u].conj /\ All[t].axes = <<>> /\ All[u].axes = <<>>)
TransformsOK == Picked => P_TransformsOK
InvolutionCharacterised == Picked => P_InvolutionCharacterised
CommuteCharacterised == Picked => P_CommuteCharacterised
PredefinedInvolutions == Picked => P_PredefinedInvolutions
PredefinedPairs == Picked => P_PredefinedPairs
ProductRule == Picked => P_ProductRule
ProductDefinedIff == Picked => P_ProductDefinedIff
=============================================================================
