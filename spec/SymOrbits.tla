----------------------------- MODULE SymOrbits -----------------------------
(* C20 / C21: space-group operations acting on sites and on hopping triples (R, a, b).

   Lattices are orthogonal (cubic a=b=c, tetragonal a=b#c, orthorhombic), where every point operation is a signed
   permutation matrix W, the same in lattice and in Cartesian coordinates, or hexagonal ("hex"), where W is an integer
   matrix in lattice coordinates that differs from the Cartesian one (the harness converts: W_cart = A^T W A^-T, rows
   of A = lattice vectors; non-magnetic structures only).  Positions and translations are rationals
   n/DEN stored as integer numerators.  An operation g = [W, t] acts as  g(p) = W p + t  (irrep: transform_r).

   Transcribed from the code:
     Dwann.__init__ / irrep.get_atom_map :  atommap[a] = index of g(p_a) mod 1,   T[a] = p_atommap[a] - g(p_a)  (integer)
     SymWann.get_atom_R_map              :  (R, a, b) |-> (W R + T[a] - T[b], atommap[a], atommap[b])
     SymWann.find_irreducible_Rab        :  marks every triple that is the image of a smaller still-irreducible one;
                                            declaratively the survivors are the minima of the orbits (order (a, b, iR)) *)
EXTENDS Integers, Sequences, FiniteSets, TLC, FiniteSetsExt, SequencesExt
CONSTANT DEN

V3(f(_)) == <<f(1), f(2), f(3)>>
M3(f(_, _)) == << <<f(1, 1), f(1, 2), f(1, 3)>>, <<f(2, 1), f(2, 2), f(2, 3)>>, <<f(3, 1), f(3, 2), f(3, 3)>> >>
(* written out: higher-order operators are slow in TLC *)
Row(r, v) == r[1] * v[1] + r[2] * v[2] + r[3] * v[3]
MV(W, v) == <<Row(W[1], v), Row(W[2], v), Row(W[3], v)>>
Col(B, j) == <<B[1][j], B[2][j], B[3][j]>>
MM(A, B) == LET c1 == Col(B, 1)  c2 == Col(B, 2)  c3 == Col(B, 3)
            IN << <<Row(A[1], c1), Row(A[1], c2), Row(A[1], c3)>>,
                  <<Row(A[2], c1), Row(A[2], c2), Row(A[2], c3)>>,
                  <<Row(A[3], c1), Row(A[3], c2), Row(A[3], c3)>> >>
VAdd(u, v) == <<u[1] + v[1], u[2] + v[2], u[3] + v[3]>>
VSub(u, v) == <<u[1] - v[1], u[2] - v[2], u[3] - v[3]>>
VMod(v) == <<v[1] % DEN, v[2] % DEN, v[3] % DEN>>
VDiv(v) == <<v[1] \div DEN, v[2] \div DEN, v[3] \div DEN>>
VNeg(v) == <<-v[1], -v[2], -v[3]>>
VScale(c, v) == <<c * v[1], c * v[2], c * v[3]>>
Id3 == M3(LAMBDA i, j : IF i = j THEN 1 ELSE 0)
ZeroV == <<0, 0, 0>>
TransposeI(W) == M3(LAMBDA i, j : W[j][i])
DetI(W) == W[1][1] * (W[2][2] * W[3][3] - W[2][3] * W[3][2]) - W[1][2] * (W[2][1] * W[3][3] - W[2][3] * W[3][1])
           + W[1][3] * (W[2][1] * W[3][2] - W[2][2] * W[3][1])

Perms3 == {p \in [1..3 -> 1..3] : {p[1], p[2], p[3]} = {1, 2, 3}}
SignedPerms == {M3(LAMBDA i, j : IF p[i] = j THEN s[i] ELSE 0) : p \in Perms3, s \in [1..3 -> {1, -1}]}
(* hexagonal cell a1 = a x, a2 = a (-1/2, sqrt3/2, 0), a3 = c z: operations are integer matrices in lattice coordinates that
   keep the metric a1.a1 : a1.a2 : a2.a2 = 2 : -1 : 2 (the c axis decouples); here W differs from the Cartesian matrix *)
HexMetric == << <<2, -1, 0>>, <<-1, 2, 0>>, <<0, 0, 5>> >>
HexCands == {<< <<a, b, 0>>, <<c, d, 0>>, <<0, 0, e>> >> : a \in (-1)..1, b \in (-1)..1, c \in (-1)..1, d \in (-1)..1, e \in {1, -1}}
(* holohedry of the lattice: a signed permutation may only exchange axes of equal length *)
Holohedry(lat) == CASE lat = "cubic" -> SignedPerms
                    [] lat = "tetra" -> {W \in SignedPerms : W[3][3] # 0}
                    [] lat = "ortho" -> {W \in SignedPerms : W[1][1] # 0 /\ W[2][2] # 0 /\ W[3][3] # 0}
                    [] lat = "hex"   -> {W \in HexCands : MM(TransposeI(W), MM(HexMetric, W)) = HexMetric}

-----------------------------------------------------------------------------
(* a structure: sequence of sites [type, pos (numerators), mom (integer axial vector, ZeroV = non-magnetic)] *)
Apply(g, p) == VAdd(MV(g.W, p), g.t)
(* an axial vector under (W, time reversal) *)
ApplyMom(g, m) == VScale(DetI(g.W) * (IF g.tr THEN -1 ELSE 1), MV(g.W, m))
SiteIndex(sites, ty, q) == LET S == {k \in 1..Len(sites) : sites[k].type = ty /\ VMod(VSub(sites[k].pos, q)) = ZeroV}
                           IN IF S = {} THEN 0 ELSE CHOOSE k \in S : TRUE
IsSymmetry(sites, g) == \A k \in 1..Len(sites) :
                           LET k2 == SiteIndex(sites, sites[k].type, Apply(g, sites[k].pos))
                           IN k2 # 0 /\ sites[k2].mom = ApplyMom(g, sites[k].mom)
Magnetic(sites) == \E k \in 1..Len(sites) : sites[k].mom # ZeroV
(* all operations of the (magnetic) space group modulo lattice translations; translations are fixed by the image of site 1 *)
SpaceGroupOf(lat, sites) ==
   UNION { {g \in {[W |-> W, t |-> VMod(VSub(sites[j].pos, MV(W, sites[1].pos))), tr |-> r] : j \in 1..Len(sites), r \in BOOLEAN} :
               IsSymmetry(sites, g)} : W \in Holohedry(lat) }
Compose(g, f) == [W |-> MM(g.W, f.W), t |-> VMod(VAdd(MV(g.W, f.t), g.t)), tr |-> (g.tr # f.tr)]
Identity == [W |-> Id3, t |-> ZeroV, tr |-> FALSE]
DistinctSites(sites) == \A j, k \in 1..Len(sites) : j # k => VMod(VSub(sites[j].pos, sites[k].pos)) # ZeroV
(* the cell is primitive: no pure translation other than lattice vectors (named exclusion: spglib would reduce the cell) *)
PrimitiveCell(G) == \A g \in G : (g.W = Id3 /\ ~g.tr) => g.t = ZeroV

AtomMap(sites, g) == [k \in 1..Len(sites) |-> SiteIndex(sites, sites[k].type, Apply(g, sites[k].pos))]
TVec(sites, g) == [k \in 1..Len(sites) |-> VDiv(VSub(sites[AtomMap(sites, g)[k]].pos, Apply(g, sites[k].pos)))]
TExact(sites, g) == \A k \in 1..Len(sites) : VMod(VSub(sites[AtomMap(sites, g)[k]].pos, Apply(g, sites[k].pos))) = ZeroV
(* hopping triple x = <<R, a, b>> : from site a in cell 0 to site b in cell R *)
TripleMap(sites, g, x) == LET m == AtomMap(sites, g)  T == TVec(sites, g)
                          IN <<VAdd(MV(g.W, x[1]), VSub(T[x[2]], T[x[3]])), m[x[2]], m[x[3]]>>
Orbit(sites, G, x) == {TripleMap(sites, g, x) : g \in G}

(* find_irreducible_Rab on a list of R vectors (sequence), sites a in A, b in B (a block pair) *)
Triples(Rlist, A, B) == {<<Rlist[n], a, b>> : n \in 1..Len(Rlist), a \in A, b \in B}
RIndex(Rlist, R) == CHOOSE n \in 1..Len(Rlist) : Rlist[n] = R
Key(Rlist, x) == <<x[2], x[3], RIndex(Rlist, x[1])>>
KeyLess(k1, k2) == \/ k1[1] < k2[1] \/ (k1[1] = k2[1] /\ k1[2] < k2[2]) \/ (k1[1] = k2[1] /\ k1[2] = k2[2] /\ k1[3] < k2[3])
Irreducible(sites, G, Rlist, A, B) ==
   LET X == Triples(Rlist, A, B) IN
   {x \in X : \A y \in Orbit(sites, G, x) \cap X : y = x \/ KeyLess(Key(Rlist, x), Key(Rlist, y))}

(* which projection shells may sit on the sites without a rotated local basis ("consistent projections"):
   every point operation must map the span of the shell onto itself and must permute the hybrids among themselves
   (up to sign).  For signed permutations only the p directions matter for the span (OrbRep!PAxes); t2g, eg and the
   full shells are invariant under every signed permutation (checked in MC_OrbRep for O_h).
   sp3 hybrids point along (1,1,1),(1,-1,-1),(-1,1,-1),(-1,-1,1); sp2 along (2,0,0),(-1,+-sqrt3,0); sp along +-x;
   sp3d2 along +-x,+-y,+-z. *)
ShellAxes(shell) == CASE shell \in {"s", "p", "d", "sp3", "sp3d2", "t2g", "eg"} -> {}
                      [] shell = "sp" -> {1} [] shell = "pz" -> {3} [] shell = "p2" -> {2, 3} [] shell \in {"pxy", "sp2"} -> {1, 2}
AxesPreserved(W, S) == \A a \in S : \A b \in {1, 2, 3} \ S : W[b][a] = 0
Sp3Dirs == { <<1, 1, 1>>, <<1, -1, -1>>, <<-1, 1, -1>>, <<-1, -1, 1>> }
HybridsPermuted(W, shell) == CASE shell = "sp3" -> \A d \in Sp3Dirs : MV(W, d) \in Sp3Dirs
                               [] shell = "sp2" -> W[1][1] = 1 /\ W[2][2] # 0
                               [] OTHER -> TRUE
ShellAllowed(G, shell) == \A g \in G : AxesPreserved(g.W, ShellAxes(shell)) /\ HybridsPermuted(g.W, shell)
ProjShells == {"s", "p", "d", "sp3", "sp3d2", "t2g", "eg", "sp", "pz", "p2", "pxy", "sp2"}
(* on the hexagonal cell W is not the Cartesian matrix: only the full shells and pz (the c axis is Cartesian z) are admitted *)
HexShells == {"s", "p", "d", "pz"}
ShellAllowedIn(lat, G, shell) == IF lat = "hex" THEN shell \in HexShells /\ ShellAllowed(G, shell) ELSE ShellAllowed(G, shell)

(* the class of inputs on which the symmetriser's per-orbital treatment of Wannier centres is not exact: a site whose
   symmetry group leaves a vector invariant (the centres may move off the site) and contains an operation whose orbital
   matrix on the shell is not a signed permutation of the orbitals:
     orthogonal lattices : an operation that mixes dz2 and dx2-y2 (a signed permutation that moves the z axis), with a
                           shell given in the d basis
     hexagonal cell      : an operation whose Cartesian matrix is not diagonal (rotations by 60/120 degrees, mirrors and
                           two-fold axes that are oblique to Cartesian x, y), with a p or d shell (px, py are mixed) *)
SiteGroup(sites, G, k) == {g \in G : VMod(VSub(Apply(g, sites[k].pos), sites[k].pos)) = ZeroV}
PolarSite(sites, G, k) == \E v \in ((-1)..1) \X ((-1)..1) \X ((-1)..1) : v # ZeroV /\ \A g \in SiteGroup(sites, G, k) : MV(g.W, v) = v
MixesEg(W) == W[3][3] = 0
EgBasisShells == {"d", "eg"}
(* in-plane blocks of the hexagonal operations whose Cartesian matrix is diagonal: 1, C2z, the mirrors y -> -y and x -> -x
   (a1 along x, a2 at 120 degrees) *)
HexCartDiag(W) == << <<W[1][1], W[1][2]>>, <<W[2][1], W[2][2]>> >> \in
                     { << <<1, 0>>, <<0, 1>> >>, << <<-1, 0>>, <<0, -1>> >>, << <<1, -1>>, <<0, -1>> >>, << <<-1, 1>>, <<0, 1>> >> }
HexMixedShells == {"p", "d"}
MixesShell(lat, W, shell) == IF lat = "hex" THEN shell \in HexMixedShells /\ ~HexCartDiag(W)
                                            ELSE shell \in EgBasisShells /\ MixesEg(W)
MixedCentreSitesFor(lat, sites, G, shell) ==
   {k \in 1..Len(sites) : PolarSite(sites, G, k) /\ \E g \in SiteGroup(sites, G, k) : MixesShell(lat, g.W, shell)}
(* sites that are in the class for some shell *)
MixedCentreSites(lat, sites, G) == MixedCentreSitesFor(lat, sites, G, IF lat = "hex" THEN "p" ELSE "d")
=============================================================================
