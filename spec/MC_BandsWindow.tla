--------------------------- MODULE MC_BandsWindow ---------------------------
(* select_window_degen as the two scanning loops of the code (one action per loop iteration), checked against the
   declarative SelectWindow for every sorted energy array, window, threshold and include_degen inside the constants. *)
EXTENDS Bands

CONSTANTS NB, EMAX, THS,
          WholeMultiplet   \* TRUE: repaired code (the whole multiplet cut by an edge is dropped); FALSE: original code

VARIABLES E, th, lo, hi, incl, inside, pc, i, first, last
vars == <<E, th, lo, hi, incl, inside, pc, i, first, last>>

SortedArrays == UNION { {s \in [1..n -> 0..EMAX] : \A k \in 1..(n - 1) : s[k] <= s[k + 1]} : n \in 1..NB }

(* lo > hi: the empty window; the pair (EMAX + 1, -1) stands for the defaults win_min = +inf, win_max = -inf
   ("nothing frozen"), the pair (2, 0) for an ordinary inverted window *)
Init == /\ E \in SortedArrays /\ th \in THS /\ lo \in (-1)..(EMAX + 1) /\ hi \in (-1)..(EMAX + 1)
        /\ (lo <= hi \/ <<lo, hi>> \in {<<EMAX + 1, -1>>, <<2, 0>>})
        /\ incl \in BOOLEAN
        /\ inside = [j \in 1..Len(E) |-> E[j] >= lo /\ E[j] <= hi]
        /\ pc = "start" /\ i = 0 /\ first = 0 /\ last = 0

Start == /\ pc = "start"
         /\ LET ind == {j \in 1..Len(E) : inside[j]} IN
              IF ind = {} THEN pc' = "done" /\ UNCHANGED <<i, first, last>>
              ELSE first' = Min(ind) /\ last' = Max(ind) /\ i' = Max(ind) /\ pc' = "up"
         /\ UNCHANGED <<E, th, lo, hi, incl, inside>>

(* for i in range(ind[-1], NB - 1) *)
RemoveDown(ins, j) == [k \in 1..Len(E) |-> IF k \in Multiplet(E, th, j) /\ k <= j THEN FALSE ELSE ins[k]]
RemoveUp(ins, j)   == [k \in 1..Len(E) |-> IF k \in Multiplet(E, th, j) /\ k >= j THEN FALSE ELSE ins[k]]
Up == /\ pc = "up"
      /\ IF i > Len(E) - 1 THEN pc' = "down" /\ i' = first /\ UNCHANGED inside
         ELSE IF E[i + 1] - E[i] < th
              THEN IF incl THEN inside' = [inside EXCEPT ![i + 1] = TRUE] /\ i' = i + 1 /\ pc' = "up"
                   ELSE /\ inside' = (IF WholeMultiplet THEN RemoveDown(inside, i) ELSE [inside EXCEPT ![i] = FALSE])
                        /\ pc' = "down" /\ i' = first
              ELSE pc' = "down" /\ i' = first /\ UNCHANGED inside
      /\ UNCHANGED <<E, th, lo, hi, incl, first, last>>
(* for i in range(ind[0], 0, -1) *)
Down == /\ pc = "down"
        /\ IF i < 2 THEN pc' = "done" /\ UNCHANGED <<inside, i>>
           ELSE IF E[i] - E[i - 1] < th
                THEN IF incl THEN inside' = [inside EXCEPT ![i - 1] = TRUE] /\ i' = i - 1 /\ pc' = "down"
                     ELSE /\ inside' = (IF WholeMultiplet THEN RemoveUp(inside, i) ELSE [inside EXCEPT ![i] = FALSE])
                          /\ pc' = "done" /\ UNCHANGED i
                ELSE pc' = "done" /\ UNCHANGED <<inside, i>>
        /\ UNCHANGED <<E, th, lo, hi, incl, first, last>>
Next == Start \/ Up \/ Down
Spec == Init /\ [][Next]_vars

Result == {j \in 1..Len(E) : inside[j]}
(* C15 *)
WindowNeverSplits == pc = "done" => NeverSplits(E, th, Result)
WindowMeaning     == pc = "done" => Result = SelectWindow(E, th, lo, hi, incl)
WindowMonotone    == pc = "done" => (IF incl THEN Inside0(E, lo, hi) \subseteq Result ELSE Result \subseteq Inside0(E, lo, hi))
EmptyWindowEmpty  == (pc = "done" /\ lo > hi) => Result = {}
=============================================================================
