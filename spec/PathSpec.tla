------------------------------ MODULE PathSpec ------------------------------
(* k-paths (C29): grid/path.py  Path.from_nodes, Path.get_refined, Path.getKline, Path.get_K_list and
   result/tabresult.py TABresult.self_to_path.

   Numbers.  Node coordinates are integers (the harness may divide all of them by a power of two).  A path point is a
   4-tuple <<x, y, z, d>> standing for the rational vector (x, y, z)/d ("points are rationals with denominator nk-1");
   two points are equal iff they are equal after cross-multiplication (PtEq).  Indices of path points, labels and
   breaks are 0-based exactly as in the code; TLA+ sequences are 1-based, so point i is K[i + 1].
   A path is a record [K |-> sequence of points, labels |-> sequence of <<index, label>> (the dict, by increasing
   index), breaks |-> sequence of indices (the list)].  The node `None` is the empty tuple. *)
EXTENDS Integers, Sequences, FiniteSets, TLC, SequencesExt, FiniteSetsExt

NoneNode == <<>>
IsNone(n) == Len(n) = 0
Sq(x) == x * x
Pt(v) == <<v[1], v[2], v[3], 1>>
PtEq(p, q) == \A c \in 1..3 : p[c] * q[4] = q[c] * p[4]
(* p == a + (j/n) (b - a) for points a, b *)
IsInterp(p, a, b, j, n) == \A c \in 1..3 : p[c] * (a[4] * b[4] * n) = (a[c] * b[4] * n + j * (b[c] * a[4] - a[c] * b[4])) * p[4]
Abs(x) == IF x < 0 THEN -x ELSE x
RECURSIVE GCD(_, _)
GCD(a, b) == IF b = 0 THEN Abs(a) ELSE GCD(b, a % Abs(b))
LCM(a, b) == (a \div GCD(a, b)) * b
(* the same rational point / fraction in lowest terms (keeps TLC's 32-bit integers small) *)
Reduced(p) == LET g == GCD(GCD(p[1], p[2]), GCD(p[3], p[4])) IN <<p[1] \div g, p[2] \div g, p[3] \div g, p[4] \div g>>
ReducedFrac(q) == LET g == GCD(q[1], q[2]) IN <<q[1] \div g, q[2] \div g>>
(* the elements of a finite set of integers in increasing order *)
SortedSeq(S) == [m \in 1..Cardinality(S) |-> CHOOSE x \in S : Cardinality({y \in S : y < x}) = m - 1]
SeqRange(s) == {s[k] : k \in 1..Len(s)}
RealCount(nodes, i) == Cardinality({j \in 1..i : ~IsNone(nodes[j])})

-----------------------------------------------------------------------------
(* ---- Path.from_nodes ---- *)

(* labels = [None if k is None else next(labels) for k in nodes]   ("" stands for None) *)
NodeLabels(nodes, labels) == [i \in 1..Len(nodes) |-> IF IsNone(nodes[i]) THEN "" ELSE labels[RealCount(nodes, i)]]
(* labels is None: str(i + 1) for the i-th real node *)
DefaultLabels(nodes) == [m \in 1..RealCount(nodes, Len(nodes)) |-> ToString(m)]

(* |(start - end) . recip_lattice|^2 for the integer matrix A (rows = reciprocal lattice vectors) *)
Dist2(a, b, A) == Sq((a[1] - b[1]) * A[1][1] + (a[2] - b[2]) * A[2][1] + (a[3] - b[3]) * A[3][1])
                + Sq((a[1] - b[1]) * A[1][2] + (a[2] - b[2]) * A[2][2] + (a[3] - b[3]) * A[3][2])
                + Sq((a[1] - b[1]) * A[1][3] + (a[2] - b[2]) * A[2][3] + (a[3] - b[3]) * A[3][3])
(* round(sqrt(s2) / dk) with 1/dk = inv[1]/inv[2] in the units of A: the n with (2n-1)^2 < 4 s2 / dk^2 < (2n+1)^2, i.e.
   the first n with 4 s2 / dk^2 <= (2n+1)^2 (TLC enumerates 0..bound in ascending order and stops there).
   A value exactly half-way (RoundTie) is excluded: the code rounds a floating-point quotient there. *)
RoundBound(s2, inv) == 2 * s2 * inv[1] + 1
RoundRatio(s2, inv) == CHOOSE n \in 0..RoundBound(s2, inv) : 4 * s2 * Sq(inv[1]) <= Sq(2 * n + 1) * Sq(inv[2])
RoundTie(s2, inv) == 4 * s2 * Sq(inv[1]) = Sq(2 * RoundRatio(s2, inv) + 1) * Sq(inv[2])
RoundIsNearest(s2, inv) == LET n == RoundRatio(s2, inv) IN n = 0 \/ Sq(2 * n - 1) * Sq(inv[2]) < 4 * s2 * Sq(inv[1])

(* nk specification, a record [mode, nk, inv, A]: mode "int" (nk = <<n>>), "list" (nk = <<n1, n2, ..>>, one per sampled
   segment), "dk" or "length" (inv = <<p, q>> = 1/dk in the units of the integer lattice A; length = 2 pi / dk).
   _nk of the segment start -> end when `pos` values of the nk generator have been consumed *)
NkOf(spec, pos, start, end) ==
   CASE spec.mode = "int" -> spec.nk[1]
     [] spec.mode = "list" -> spec.nk[pos + 1]
     [] OTHER -> LET n == RoundRatio(Dist2(start, end, spec.A), spec.inv) + 1 IN IF n = 1 THEN 2 ELSE n

(* start[None, :] + linspace(0, 1, nk - 1, endpoint=False)[:, None] * (end - start)[None, :] *)
SegPoints(start, end, nk) ==
   [j \in 1..(nk - 1) |-> <<start[1] * (nk - 1) + (j - 1) * (end[1] - start[1]),
                            start[2] * (nk - 1) + (j - 1) * (end[2] - start[2]),
                            start[3] * (nk - 1) + (j - 1) * (end[3] - start[3]), nk - 1>>]

ZipInit == [K |-> <<>>, labels |-> <<>>, breaks |-> <<>>, nkpos |-> 0]
(* body of  `for start, end, l1, l2 in zip(nodes, nodes[1:], labels, labels[1:])` *)
ZipStep(st, start, end, l1, spec) ==
   IF ~IsNone(start) /\ ~IsNone(end)
   THEN [st EXCEPT !.labels = Append(@, <<Len(st.K), l1>>),
                   !.K = @ \o SegPoints(start, end, NkOf(spec, st.nkpos, start, end)),
                   !.nkpos = @ + 1]
   ELSE IF IsNone(start) THEN st
   ELSE [st EXCEPT !.labels = Append(@, <<Len(st.K), l1>>),
                   !.K = Append(@, Pt(start)),
                   !.breaks = Append(@, Len(st.K))]
(* after the loop: K_list = vstack(K_list, nodes[-1]); new_labels[len - 1] = labels[-1] *)
ZipFinish(st, last, llast) == [K |-> Append(st.K, Pt(last)), labels |-> Append(st.labels, <<Len(st.K), llast>>), breaks |-> st.breaks]

RECURSIVE ZipLoop(_, _, _, _, _)
ZipLoop(st, i, nodes, nl, spec) ==
   IF i > Len(nodes) - 1 THEN st ELSE ZipLoop(TLCEval(ZipStep(st, nodes[i], nodes[i + 1], nl[i], spec)), i + 1, nodes, nl, spec)
(* labels: the per-real-node label sequence (use DefaultLabels(nodes) for labels=None) *)
FromNodes(nodes, labels, spec) ==
   LET nl == NodeLabels(nodes, labels)
   IN ZipFinish(ZipLoop(ZipInit, 1, nodes, nl, spec), nodes[Len(nodes)], nl[Len(nodes)])

(* domain of from_nodes *)
StartsSegment(nodes, i) == i < Len(nodes) /\ ~IsNone(nodes[i]) /\ ~IsNone(nodes[i + 1])
StartsBreak(nodes, i) == i < Len(nodes) /\ ~IsNone(nodes[i]) /\ IsNone(nodes[i + 1])
SegOrdinal(nodes, i) == Cardinality({j \in 1..i : StartsSegment(nodes, j)})
NumSegments(nodes) == SegOrdinal(nodes, Len(nodes))
(* nk of the segment that starts at node position i, stated without the loop *)
NkDecl(nodes, spec, i) == NkOf(spec, SegOrdinal(nodes, i) - 1, nodes[i], nodes[i + 1])
NodesOK(nodes) == Len(nodes) >= 1 /\ ~IsNone(nodes[Len(nodes)])
NkOK(nodes, spec) ==
   /\ spec.mode = "list" => Len(spec.nk) >= NumSegments(nodes)
   /\ spec.mode \in {"dk", "length"} => \A i \in 1..Len(nodes) : StartsSegment(nodes, i) => ~RoundTie(Dist2(nodes[i], nodes[i + 1], spec.A), spec.inv)
   /\ \A i \in 1..Len(nodes) : StartsSegment(nodes, i) => NkDecl(nodes, spec, i) >= 2

(* dk / length: the statement of C29 asks for uniform sampling, not for one rounding rule.  Any nk >= 2 whose spacing
   dist/(nk-1) differs from dk by at most dk is a sampling "with dk" (the code's round(dist/dk)+1 is one of them, ceil
   is another): |dist/(nk-1) - dk| <= dk  <=>  dist <= 2 dk (nk-1)  <=>  s2 p^2 <= 4 q^2 (nk-1)^2   (1/dk = p/q) *)
DkSpacingOK(s2, inv, nk) == nk >= 2 /\ s2 * Sq(inv[1]) <= 4 * Sq(inv[2]) * Sq(nk - 1)
(* the same points with the same multiplicities, in any order *)
SameBag(s, t) == /\ Len(s) = Len(t)
                 /\ \A k \in 1..Len(s) : Cardinality({i \in 1..Len(s) : s[i] = s[k]}) = Cardinality({i \in 1..Len(t) : t[i] = s[k]})

(* ---- what C29 demands of a path P built from (nodes, labels, spec); stated with explicit positions ---- *)
(* nk of the segment starting at node position i (0 where no segment starts); evaluated once *)
NkSeq(nodes, spec) == TLCEval([i \in 1..Len(nodes) |-> IF StartsSegment(nodes, i) THEN NkDecl(nodes, spec, i) ELSE 0])
(* number of path points contributed by the real node at position i, and its 0-based index in the path *)
PosSeq(nodes, spec) ==
   LET nk == NkSeq(nodes, spec)
       cnt(i) == IF IsNone(nodes[i]) THEN 0 ELSE IF StartsSegment(nodes, i) THEN nk[i] - 1 ELSE 1
       pos[k \in 1..Len(nodes)] == IF k = 1 THEN 0 ELSE pos[k - 1] + cnt(k - 1)
   IN TLCEval([k \in 1..Len(nodes) |-> pos[k]])
Pos(nodes, spec, i) == PosSeq(nodes, spec)[i]
RealPositions(nodes) == SortedSeq({i \in 1..Len(nodes) : ~IsNone(nodes[i])})
BreakPositions(nodes) == SortedSeq({i \in 1..Len(nodes) : StartsBreak(nodes, i)})

NodesInOrder(nodes, spec, P) ==       \* every node is a path point, in the order of the node list
   LET pos == PosSeq(nodes, spec) IN
   \A i \in 1..Len(nodes) : ~IsNone(nodes[i]) => pos[i] < Len(P.K) /\ PtEq(P.K[pos[i] + 1], Pt(nodes[i]))
LabelsExact(nodes, labels, spec, P) ==  \* the labelled points are exactly the nodes, each with its own label
   LET rp == RealPositions(nodes) nl == NodeLabels(nodes, labels) pos == PosSeq(nodes, spec)
   IN P.labels = [m \in 1..Len(rp) |-> <<pos[rp[m]], nl[rp[m]]>>]
UniformSegments(nodes, spec, P) ==    \* segment i -> i+1 with nk points: point j is start + j/(nk-1) (end - start), j = 0..nk-1
   LET pos == PosSeq(nodes, spec) nk == NkSeq(nodes, spec) IN
   \A i \in 1..Len(nodes) : StartsSegment(nodes, i) =>
      /\ pos[i] + nk[i] - 1 < Len(P.K)
      /\ \A j \in 0..(nk[i] - 1) : IsInterp(P.K[pos[i] + j + 1], Pt(nodes[i]), Pt(nodes[i + 1]), j, nk[i] - 1)
BreaksExact(nodes, spec, P) ==        \* one break per `None`-terminated node, at that node
   LET bp == BreakPositions(nodes) pos == PosSeq(nodes, spec) IN P.breaks = [m \in 1..Len(bp) |-> pos[bp[m]]]
LengthExact(nodes, spec, P) == Len(P.K) = Pos(nodes, spec, Len(nodes)) + 1

-----------------------------------------------------------------------------
(* ---- Path.get_refined(factor) ---- *)
BreakSet(P) == SeqRange(P.breaks)
LabelIdx(P) == {P.labels[k][1] : k \in 1..Len(P.labels)}
LabelAt(P, i) == (CHOOSE k \in 1..Len(P.labels) : P.labels[k][1] = i)
(* self.K_list[i] + j * (self.K_list[i + 1] - self.K_list[i]) / factor *)
Interp(a, b, j, f) == Reduced(<<a[1] * b[4] * f + j * (b[1] * a[4] - a[1] * b[4]),
                                a[2] * b[4] * f + j * (b[2] * a[4] - a[2] * b[4]),
                                a[3] * b[4] * f + j * (b[3] * a[4] - a[3] * b[4]), a[4] * b[4] * f>>)
RefInit == [K |-> <<>>, labels |-> <<>>, breaks |-> <<>>]
(* K_list_refined.append(K[i]); label; break  -- used by the loop body (i < last) and by the tail (i = last) *)
RefAppend(r, P, i) ==
   [K |-> Append(r.K, P.K[i + 1]),
    labels |-> IF i \in LabelIdx(P) THEN Append(r.labels, <<Len(r.K), P.labels[LabelAt(P, i)][2]>>) ELSE r.labels,
    breaks |-> IF i \in BreakSet(P) THEN Append(r.breaks, Len(r.K)) ELSE r.breaks]
(* body of `for i in range(last_point_index)` *)
RefStep(r, P, i, f) ==
   LET r1 == RefAppend(r, P, i)
   IN IF i \in BreakSet(P) THEN r1
      ELSE [r1 EXCEPT !.K = @ \o [j \in 1..(f - 1) |-> Interp(P.K[i + 1], P.K[i + 2], j, f)]]
RECURSIVE RefLoop(_, _, _, _)
RefLoop(r, P, i, f) == IF i >= Len(P.K) - 1 THEN r ELSE RefLoop(TLCEval(RefStep(r, P, i, f)), P, i + 1, f)    \* TLCEval: evaluate eagerly
Refined(P, f) == TLCEval(RefAppend(RefLoop(RefInit, P, 0, f), P, Len(P.K) - 1))

(* a break is the index of the point AFTER which the path jumps: a "break" at the last point separates nothing (and
   getKline, which indexes the steps with the breaks, has no step there): such paths are outside the domain *)
KlineOK(P) == \A k \in 1..Len(P.breaks) : P.breaks[k] < Len(P.K) - 1
(* domain: the labels dict is listed by increasing index, breaks increasing, all indices inside the path, no break at
   the last point *)
PathOK(P) == /\ Len(P.K) >= 1
             /\ \A k \in 1..Len(P.labels) : P.labels[k][1] \in 0..(Len(P.K) - 1)
             /\ \A k \in 1..(Len(P.labels) - 1) : P.labels[k][1] < P.labels[k + 1][1]
             /\ \A k \in 1..Len(P.breaks) : P.breaks[k] \in 0..(Len(P.K) - 1)
             /\ \A k \in 1..(Len(P.breaks) - 1) : P.breaks[k] < P.breaks[k + 1]
             /\ KlineOK(P)

(* where original point i goes: every non-break step before it is divided into f *)
RefIdx(P, f, i) == f * i - (f - 1) * Cardinality({b \in BreakSet(P) : b < i})
RefIdxSeq(P, f) == TLCEval([k \in 1..Len(P.K) |-> RefIdx(P, f, k - 1)])      \* RefIdx of point k-1, evaluated once
KeepsPoints(P, f, R) == LET ri == RefIdxSeq(P, f) IN \A k \in 1..Len(P.K) : ri[k] < Len(R.K) /\ PtEq(R.K[ri[k] + 1], P.K[k])
KeepsLabels(P, f, R) == R.labels = [k \in 1..Len(P.labels) |-> <<RefIdx(P, f, P.labels[k][1]), P.labels[k][2]>>]
KeepsBreaks(P, f, R) == R.breaks = [k \in 1..Len(P.breaks) |-> RefIdx(P, f, P.breaks[k])]
RefLength(P, f, R) == Len(R.K) = RefIdx(P, f, Len(P.K) - 1) + 1
RefUniform(P, f, R) ==         \* the f-1 new points of every non-break step divide it uniformly
   LET ri == RefIdxSeq(P, f) bset == BreakSet(P) IN
   \A i \in 0..(Len(P.K) - 2) : i \notin bset =>
      \A j \in 0..f : IsInterp(R.K[ri[i + 1] + j + 1], P.K[i + 1], P.K[i + 2], j, f)
RefNoBreaks(P, f, R) == BreakSet(P) = {} => \A i \in 0..(Len(P.K) - 1) : PtEq(R.K[f * i + 1], P.K[i + 1])
SamePath(P, Q) == /\ Len(P.K) = Len(Q.K) /\ \A k \in 1..Len(P.K) : PtEq(P.K[k], Q.K[k])
                  /\ P.labels = Q.labels /\ P.breaks = Q.breaks

-----------------------------------------------------------------------------
(* ---- Path.getKline(break_thresh): the path coordinate; K[j+1] - K[j] = |K_list[j+1] - K_list[j]| (cartesian), 0 at a
   break and 0 where the step exceeds break_thresh.  Steps are represented by their squares <<num, den>> (exact). ---- *)
PDist2(a, b, A) ==
   LET L == LCM(a[4], b[4])
       d == [c \in 1..3 |-> b[c] * (L \div b[4]) - a[c] * (L \div a[4])]      \* b - a = d / L
   IN ReducedFrac(<<Sq(d[1] * A[1][1] + d[2] * A[2][1] + d[3] * A[3][1]) + Sq(d[1] * A[1][2] + d[2] * A[2][2] + d[3] * A[3][2])
                    + Sq(d[1] * A[1][3] + d[2] * A[2][3] + d[3] * A[3][3]), Sq(L)>>)
(* thr2 = <<p, q>>: break_thresh^2 = p/q; thr2 = <<0, 0>> stands for break_thresh = inf *)
Step2(P, A, thr2, j) ==
   LET d == PDist2(P.K[j + 1], P.K[j + 2], A)
   IN IF j \in BreakSet(P) THEN <<0, 1>>
      ELSE IF thr2[2] > 0 /\ d[1] * thr2[2] > thr2[1] * d[2] THEN <<0, 1>>
      ELSE d
KlineSteps(P, A, thr2) == [j \in 1..(Len(P.K) - 1) |-> Step2(P, A, thr2, j - 1)]
ThreshTie(P, A, thr2) == thr2[2] > 0 /\ \E j \in 0..(Len(P.K) - 2) : LET d == PDist2(P.K[j + 1], P.K[j + 2], A) IN d[1] * thr2[2] = thr2[1] * d[2]
NoThresh == <<0, 0>>
(* C29: non-decreasing, flat across breaks *)
KlineMonotone(P, A) == \A j \in 0..(Len(P.K) - 2) : Step2(P, A, NoThresh, j)[1] >= 0 /\ Step2(P, A, NoThresh, j)[2] > 0
KlineFlatAtBreaks(P, A) == \A b \in BreakSet(P) : b < Len(P.K) - 1 => Step2(P, A, NoThresh, b)[1] = 0
KlineIsDistance(P, A) == \A j \in 0..(Len(P.K) - 2) : j \notin BreakSet(P) => Step2(P, A, NoThresh, j) = PDist2(P.K[j + 1], P.K[j + 2], A)
(* refinement does not move the original points along the path: each of the f sub-steps is 1/f of the original step *)
KlineRefined(P, f, R, A) ==
   LET ri == RefIdxSeq(P, f) bset == BreakSet(P) IN
   \A i \in 0..(Len(P.K) - 2) :
      LET s == Step2(P, A, NoThresh, i) IN
      IF i \in bset THEN Step2(R, A, NoThresh, ri[i + 1])[1] = 0
      ELSE \A j \in 0..(f - 1) : LET t == Step2(R, A, NoThresh, ri[i + 1] + j) IN t[1] * Sq(f) * s[2] = s[1] * t[2]
(* a path from nodes: inside a segment all steps are equal, nk-1 of them make up the node distance *)
KlineUniform(nodes, spec, P, A) ==
   LET pos == PosSeq(nodes, spec) nk == NkSeq(nodes, spec) IN
   \A i \in 1..Len(nodes) : StartsSegment(nodes, i) =>
      \A j \in 0..(nk[i] - 2) : LET t == Step2(P, A, NoThresh, pos[i] + j) IN t[1] * Sq(nk[i] - 1) = Dist2(nodes[i], nodes[i + 1], A) * t[2]

-----------------------------------------------------------------------------
(* ---- Path.get_K_list(k_batch): for ik in range(0, len, k_batch): K_list[ik:ik+k_batch] ---- *)
BatchStep(bs, P, ik, kb) == Append(bs, SubSeq(P.K, ik + 1, Min({ik + kb, Len(P.K)})))
RECURSIVE BatchLoop(_, _, _, _)
BatchLoop(bs, P, ik, kb) == IF ik >= Len(P.K) THEN bs ELSE BatchLoop(TLCEval(BatchStep(bs, P, ik, kb)), P, ik + kb, kb)
Batches(P, kb) == BatchLoop(<<>>, P, 0, kb)
BatchesConcat(bs, P) == FlattenSeq(bs) = P.K
BatchesSizes(bs, P, kb) == /\ \A t \in 1..Len(bs) : Len(bs[t]) >= 1 /\ Len(bs[t]) <= kb
                           /\ \A t \in 1..(Len(bs) - 1) : Len(bs[t]) = kb

(* ---- TABresult.self_to_path: result k-points (reduced modulo 1, any batch order) are mapped back onto the path:
   mapping[j] = first result point that is the path point j modulo a reciprocal lattice vector ---- *)
PtEquiv(p, q) == \A c \in 1..3 : (p[c] * q[4] - q[c] * p[4]) % (p[4] * q[4]) = 0
ToPathMap(kp, pathK) == [j \in 1..Len(pathK) |-> Min({i \in 1..Len(kp) : PtEquiv(kp[i], pathK[j])})]
(* class of a path point: the first path point it is equivalent to; per-point data are a function of the class *)
PtClass(pathK) == [j \in 1..Len(pathK) |-> Min({i \in 1..Len(pathK) : PtEquiv(pathK[i], pathK[j])})]
=============================================================================
