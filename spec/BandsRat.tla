------------------------------ MODULE BandsRat ------------------------------
(* exact rationals <<num, den>> (den > 0, lowest terms) over TLC's 32-bit integers; TLC reports an error on overflow,
   so a silently wrong value is impossible.  Used by TetraWeights.tla and FermiScan.tla (C13, C14). *)
EXTENDS Integers

RAbs(x) == IF x < 0 THEN -x ELSE x
RECURSIVE RGcd(_, _)
RGcd(a, b) == IF b = 0 THEN a ELSE RGcd(b, a % b)
(* normal form; d # 0 *)
RNV(n, d) == LET g == RGcd(RAbs(n), RAbs(d))
                 s == IF d < 0 THEN -1 ELSE 1
             IN <<s * (n \div g), s * (d \div g)>>
RN(n0, d0) == CHOOSE r \in {RNV(n, d) : n \in {n0}, d \in {d0}} : TRUE
RI(n) == <<n, 1>>
(* TLC passes operator arguments unevaluated and re-evaluates them at every use; binding them as bound variables of a
   one-element set forces a single evaluation (otherwise nested rational expressions cost exponential time) *)
RAddV(x, y) == LET g == RGcd(x[2], y[2]) IN RN(x[1] * (y[2] \div g) + y[1] * (x[2] \div g), (x[2] \div g) * y[2])
RAdd(x0, y0) == CHOOSE r \in {RAddV(x, y) : x \in {x0}, y \in {y0}} : TRUE
RNeg(x0) == CHOOSE r \in {<<-x[1], x[2]>> : x \in {x0}} : TRUE
RSub(x0, y0) == CHOOSE r \in {RAddV(x, <<-y[1], y[2]>>) : x \in {x0}, y \in {y0}} : TRUE
RMulV(x, y) == LET a == RN(x[1], y[2])  b == RN(y[1], x[2]) IN RN(a[1] * b[1], a[2] * b[2])
RMul(x0, y0) == CHOOSE r \in {RMulV(x, y) : x \in {x0}, y \in {y0}} : TRUE
RDiv(x0, y0) == CHOOSE r \in {RMulV(x, RN(y[2], y[1])) : x \in {x0}, y \in {y0}} : TRUE         \* y # 0
RScale(k0, x0) == CHOOSE r \in {RMulV(<<k, 1>>, x) : k \in {k0}, x \in {x0}} : TRUE
RDivI(x0, k0) == CHOOSE r \in {RMulV(x, RN(1, k)) : k \in {k0}, x \in {x0}} : TRUE              \* k # 0
REq(x0, y0) == \E x \in {x0}, y \in {y0} : x[1] * y[2] = y[1] * x[2]
RLe(x0, y0) == \E x \in {x0}, y \in {y0} : x[1] * y[2] <= y[1] * x[2]
RLt(x0, y0) == \E x \in {x0}, y \in {y0} : x[1] * y[2] < y[1] * x[2]
RZero == <<0, 1>>
ROne == <<1, 1>>
(* Floor(x * 10^8) by long division in base 100 (needs x[2] < 2*10^7 and |x| < 21) *)
RFloorDigits(r, d) == <<(r * 100) \div d, (r * 100) % d>>
RFloor8V(x) ==
   LET d  == x[2]
       ip == x[1] \div d                 \* floor, also for negative numerators
       r0 == x[1] % d                    \* 0 <= r0 < d
   IN CHOOSE v \in { ip * 100000000 + s1[1] * 1000000 + s2[1] * 10000 + s3[1] * 100 + s4[1] :
                       s1 \in {RFloorDigits(r0, d)},
                       s2 \in {RFloorDigits(RFloorDigits(r0, d)[2], d)},
                       s3 \in {RFloorDigits(RFloorDigits(RFloorDigits(r0, d)[2], d)[2], d)},
                       s4 \in {RFloorDigits(RFloorDigits(RFloorDigits(RFloorDigits(r0, d)[2], d)[2], d)[2], d)} } : TRUE
RFloor8(x0) == CHOOSE r \in {RFloor8V(x) : x \in {x0}} : TRUE
=============================================================================
