---------------------------- MODULE MC_BandSelect ----------------------------
(* X03, the container as a state machine: WannierData with select_bands (list / boolean mask / energy window / band range /
   no argument, allow_again), apply_window, set_file and unset_file after a selection, set_projections, the manual cut of a
   file added later, over a pool of small file objects (NK = 2, NB = 3, NW = 2, NNB = 2); every action sequence up to
   MAXLEN, plus (DEEP) the three-step behaviours select; select; <file added later | select>.
   `hist` keeps the behaviour (one state = one behaviour); `clab` is a ghost: the bands of the files as they were set that
   the container holds now (the composition of all selections); `rets` the values the calls returned. *)
EXTENDS MC_BandSelectFiles
CONSTANTS MAXLEN, PRESETS, ARGS, DEEP
VARIABLES cont, clab, rets, hist
cvars == <<cont, clab, rets, hist>>
NB0 == 3

(* energies (eighths): band 1 lies below, band 2 around 0..1 eV, band 3 at 0.5 eV at the first k-point and 5 eV at the second *)
Energies == << <<-16, 0, 4>>, <<-12, 8, 40>> >>
EigPool(ks) == Must(Construct("eig", [NK |-> 2], [data |-> [k \in ks |-> Energies[k + 1]]]))
PoolObj(id) ==
   CASE id = "eig"   -> EigPool(AllK(2))
     [] id = "eigP"  -> EigPool({0})                                   \* irreducible k-points only
     [] id = "eig2"  -> EigObj(2, 2, AllK(2), 5)                       \* two bands: conforms after a selection of two
     [] id = "amn"   -> AmnObj(2, 3, 2, AllK(2), 1, TRUE)
     [] id = "amnF"  -> AmnObj(2, 3, 2, AllK(2), 2, TRUE)              \* the freshly computed projections (all bands)
     [] id = "mmn"   -> MmnObj(2, 3, 2, AllK(2), 1, FALSE)
     [] id = "bkvec" -> BkObj(2, 2, AllK(2))
     [] id = "chk"   -> ChkObj(2, 3, 2, AllK(2), 1, FALSE)
     [] id = "chkW"  -> ChkObj(2, 3, 2, AllK(2), 1, TRUE)              \* wannierised: select_bands of the checkpoint refuses
     [] id = "spn"   -> SpnObj(2, 3, AllK(2), 1)
     [] id = "uhu"   -> UxuObj("uhu", 2, 3, 2, AllK(2), 1)
     [] id = "siu"   -> SxuObj("siu", 2, 3, 2, AllK(2), 1)
PoolKey(id) == PoolObj(id).cls
ArgOf(aid) ==
   CASE aid = "L012" -> ListArg(<<0, 1, 2>>)
     [] aid = "L01"  -> ListArg(<<0, 1>>)
     [] aid = "L12"  -> ListArg(<<1, 2>>)
     [] aid = "L20"  -> ListArg(<<2, 0>>)
     [] aid = "L10"  -> ListArg(<<1, 0>>)
     [] aid = "L1"   -> ListArg(<<1>>)
     [] aid = "L0"   -> ListArg(<<0>>)
     [] aid = "L112" -> ListArg(<<1, 1, 2>>)
     [] aid = "L3"   -> ListArg(<<3>>)
     [] aid = "Lm1"  -> ListArg(<<-1>>)
     [] aid = "Le"   -> ListArg(<< >>)
     [] aid = "MTFT" -> MaskArg(<<TRUE, FALSE, TRUE>>)
     [] aid = "MFTT" -> MaskArg(<<FALSE, TRUE, TRUE>>)
     [] aid = "MTTT" -> MaskArg(<<TRUE, TRUE, TRUE>>)
     [] aid = "MFT"  -> MaskArg(<<FALSE, TRUE>>)
     [] aid = "MTT"  -> MaskArg(<<TRUE, TRUE>>)
     [] aid = "Win"  -> WinArg(-4, 50, NoIdx, NoIdx)                   \* bands 2, 3
     [] aid = "Wlow" -> WinArg(InfLo, 2, NoIdx, NoIdx)                 \* one edge only: bands 1, 2
     [] aid = "Wnone" -> WinArg(100, 200, NoIdx, NoIdx)                \* no band
     [] aid = "Wtie" -> WinArg(-12, 50, NoIdx, NoIdx)                  \* band 1 touches the lower edge at one k-point
     [] aid = "Wstr" -> WinArg(2, 6, NoIdx, NoIdx)                     \* band 2 is below at one k-point and above at the other
     [] aid = "Winf" -> WinArg(InfLo, InfHi, NoIdx, NoIdx)             \* win_min = -inf, win_max = inf given explicitly
     [] aid = "Wbs"  -> WinArg(InfLo, InfHi, 1, 3)                     \* band_start, band_end
     [] aid = "Wbe"  -> WinArg(-4, 50, NoIdx, 2)                       \* window and band_end
     [] aid = "NONE" -> NoArg
Entry0(op) == [op |-> op, aid |-> "", id |-> "", flag |-> FALSE, err |-> "", ret |-> << >>, at |-> "", class |-> "", nb |-> 0,
               ident |-> FALSE, unchanged |-> FALSE, same |-> FALSE, restr |-> FALSE, doc |-> {}, wassel |-> FALSE, wann |-> FALSE, taint |-> FALSE,
               arg |-> NoArg, ids |-> << >>, must |-> ""]

Preset(p) == CASE p = 1 -> <<"chk", "eig", "amn", "mmn", "bkvec">>
               [] p = 2 -> <<"eig", "amn", "spn", "uhu", "siu">>
               [] p = 3 -> <<"chkW", "eig", "amn">>
               [] p = 4 -> <<"eigP", "amn">>
               [] p = 5 -> <<"amn", "mmn">>
RECURSIVE Fill(_, _, _)
Fill(c, ids, n) == IF n > Len(ids) THEN c ELSE Fill(SetFile(c, PoolKey(ids[n]), PoolObj(ids[n]), FALSE, FALSE).cont, ids, n + 1)
CInit == /\ \E p \in PRESETS : /\ cont = Fill(EmptySel, Preset(p), 1)
                              /\ hist = <<[Entry0("init") EXCEPT !.id = ToString(p), !.ids = Preset(p)]>>
         /\ clab = Ident(NB0) /\ rets = << >>
         /\ par = << >> /\ obj = << >> /\ sel = << >> /\ out = << >> /\ sel2 = << >> /\ out2 = << >>

Tainted(c) == HasFile(c, "chk") /\ HasFile(c, "eig") /\ c.files["chk"].attr["num_bands"] # NbNow(c)
(* what the documentation demands of the call: "refuse", "accept", "refuse_wannierised" (the checkpoint holds a gauge), or
   nothing ("info": the input is outside what the documentation decides) *)
MustOf(c, a, again) == LET cl == ArgClass(c, a, again) IN
   IF cl \in MustRefuse THEN "refuse"
   ELSE IF cl \notin MustAccept THEN "info"
   ELSE IF HasFile(c, "chk") /\ Wannierised(c.files["chk"]) THEN "refuse_wannierised"
   ELSE IF Tainted(c) THEN "info" ELSE "accept"
Len3OK == /\ DEEP /\ Len(hist) = 3
          /\ hist[2].op = "select" /\ hist[2].err = "" /\ hist[3].op = "select" /\ hist[3].err = ""
Room == Len(hist) <= MAXLEN
DoSelect(aid, again) ==
   /\ IF Room THEN TRUE ELSE Len3OK /\ aid \in {"L0", "NONE"}
   /\ (again => cont.selected)
   /\ ((cont.selected /\ ~again) => aid \in {"L1", "Win"})
   /\ LET a == ArgOf(aid) IN \E r \in {ContSelect(cont, a, again)} :
        /\ cont' = r.cont
        /\ clab' = IF r.err = "" /\ InRange(r.ret, Len(clab)) THEN Compose(clab, r.ret) ELSE clab
        /\ rets' = IF r.err = "" THEN Append(rets, r.ret) ELSE rets
        /\ hist' = Append(hist, [Entry0("select") EXCEPT !.aid = aid, !.flag = again, !.err = r.err, !.ret = r.ret, !.at = r.at,
                                    !.class = ArgClass(cont, a, again), !.nb = NbNow(cont),
                                    !.ident = (r.err = "" /\ r.ret = Ident(NbNow(cont))),
                                    !.unchanged = FilesSameButBook(r.cont.files, cont.files),
                                    !.same = (r.cont = cont),
                                    !.restr = (r.err = "" /\ DOMAIN r.cont.files = DOMAIN cont.files /\
                                               \A key \in DOMAIN cont.files : Restricted(r.cont.files[key], cont.files[key], r.ret)),
                                    !.doc = IF HasFile(cont, "eig") /\ a.kind \in {"window", "none"} THEN DocWindowSet(cont.files["eig"], a) ELSE {},
                                    !.wassel = cont.selected,
                                    !.wann = (HasFile(cont, "chk") /\ Wannierised(cont.files["chk"])),
                                    !.taint = Tainted(cont), !.arg = a, !.must = MustOf(cont, a, again)])
DoApplyWindow ==
   /\ Room
   /\ \E r \in {ApplyWindow(cont)} :
        /\ cont' = r.cont
        /\ hist' = Append(hist, [Entry0("apply_window") EXCEPT !.err = r.err, !.same = (r.cont = cont), !.wassel = cont.selected])
   /\ UNCHANGED <<clab, rets>>
(* set_file(key, val, overwrite=True, allow_selected_bands=allow) *)
DoSet(id, allow) ==
   /\ Room
   /\ (allow => cont.selected)
   /\ \E r \in {SetFile(cont, PoolKey(id), PoolObj(id), TRUE, allow)} :
        /\ cont' = r.cont
        /\ hist' = Append(hist, [Entry0("set_file") EXCEPT !.id = id, !.flag = allow, !.err = r.err, !.same = (r.cont = cont), !.wassel = cont.selected,
                                    !.class = IF cont.selected /\ ~allow THEN "after_selection" ELSE IF Conform([cont EXCEPT !.files = Without(@, PoolKey(id))], PoolObj(id)) THEN "conforming" ELSE "not_conforming"])
   /\ UNCHANGED <<clab, rets>>
DoUnset(key) ==
   /\ Room /\ HasFile(cont, key)
   /\ cont' = UnsetFile(cont, key, FALSE).cont
   /\ hist' = Append(hist, [Entry0("unset_file") EXCEPT !.id = key, !.wassel = cont.selected])
   /\ UNCHANGED <<clab, rets>>
DoSetProjections ==
   /\ Room \/ Len3OK
   /\ \E r \in {SetProjections(cont, PoolObj("amnF"))} :
        /\ cont' = r.cont
        /\ hist' = Append(hist, [Entry0("set_projections") EXCEPT !.id = "amnF", !.err = r.err, !.wassel = cont.selected])
   /\ UNCHANGED <<clab, rets>>
DoSetManually ==
   /\ Room \/ Len3OK
   /\ \E r \in {SetManually(cont, "amn", PoolObj("amnF"), rets)} :
        /\ cont' = r.cont
        /\ hist' = Append(hist, [Entry0("set_manually") EXCEPT !.id = "amnF", !.err = r.err, !.wassel = cont.selected])
   /\ UNCHANGED <<clab, rets>>
CNext == (\/ \E aid \in ARGS : \E g \in BOOLEAN : DoSelect(aid, g)
          \/ DoApplyWindow
          \/ \E id \in {"eig", "eig2", "amnF"} : \E g \in BOOLEAN : DoSet(id, g)
          \/ \E key \in {"eig", "chk"} : DoUnset(key)
          \/ DoSetProjections \/ DoSetManually)
         /\ UNCHANGED fvars
CSpec == CInit /\ [][CNext]_<<cvars, fvars>>

(* the pool alone (one state): what the harness builds the real objects from *)
POOLIDS == {"eig", "eigP", "eig2", "amn", "amnF", "mmn", "bkvec", "chk", "chkW", "spn", "uhu", "siu"}
PInit == /\ par = [id \in POOLIDS |-> PoolObj(id)]
         /\ obj = << >> /\ sel = << >> /\ out = << >> /\ sel2 = << >> /\ out2 = << >>
         /\ cont = << >> /\ clab = << >> /\ rets = << >> /\ hist = << >>
PSpec == PInit /\ [][UNCHANGED <<cvars, fvars>>]_<<cvars, fvars>>

(* ---- the properties *)
Steps(op) == {k \in 1..Len(hist) : hist[k].op = op}
LastK == Len(hist)
Clean(k) == ~hist[k].wann                    \* no wannierised checkpoint in the container (its select_bands refuses)
Sound(k) == ~hist[k].taint                   \* the checkpoint counts the bands of the files (not so after a selection with repeated bands)
(* what must be refused is refused and leaves the container as it was; what the documentation offers is done *)
Status == \A k \in Steps("select") :
             /\ (hist[k].class \in MustRefuse => hist[k].err # "" /\ hist[k].same)
             /\ ((hist[k].class \in MustAccept /\ Clean(k) /\ Sound(k)) => hist[k].err = "")
             /\ ((hist[k].class \in MustAccept /\ ~Clean(k)) => hist[k].err # "")
(* a boolean mask of length NB is the list of its True positions *)
MaskEqualsList == \A k \in Steps("select") : (hist[k].class \in {"mask_all", "mask_partial"} /\ Clean(k) /\ Sound(k)) =>
                     hist[k].err = "" /\ hist[k].ret = Where(ArgOf(hist[k].aid).mask)
(* every file of the container is restricted to the returned bands (every entry from the right place) *)
AllRestricted == \A k \in Steps("select") : hist[k].err = "" => hist[k].restr
(* selecting all bands (identity list, all-True mask, no argument, an infinite window) changes no file *)
IdentityNoop == \A k \in Steps("select") : (hist[k].err = "" /\ hist[k].ident /\ Sound(k)) => hist[k].unchanged
(* the docstring of the window: exactly the bands that are not entirely below win_min or entirely above win_max, inside
   band_start..band_end - where the docstring decides *)
WindowDoc == \A k \in Steps("select") : (hist[k].err = "" /\ hist[k].class \in {"window_clean", "window_all", "none", "range"}) =>
                SelSet(hist[k].ret) = hist[k].doc /\ Ascending(hist[k].ret)
(* after a successful selection the files conform, the checkpoint counts their bands, the flag is set *)
AfterSelect == (hist[LastK].op = "select" /\ hist[LastK].err = "") =>
                  /\ cont.selected
                  /\ BandsOf(cont) \subseteq {Len(hist[LastK].ret)}
                  /\ (0 \notin BandsOf(cont) => Conforming(cont))
                  /\ (hist[LastK].class # "duplicates" => ChkCounts(cont))
(* the container never holds files that disagree on a size *)
AlwaysConform == \A k1, k2 \in DOMAIN cont.files \ {"chk"} : \A d \in DOMAIN cont.files[k1].dim \cap DOMAIN cont.files[k2].dim :
                    cont.files[k1].dim[d] = cont.files[k2].dim[d]
(* after a selection set_file refuses unless allow_selected_bands; with it, a conforming file is taken, another one is not *)
SetAfterSelection == \A k \in Steps("set_file") :
                        /\ (hist[k].class = "after_selection" => hist[k].err # "" /\ hist[k].same)
                        /\ (hist[k].class = "conforming" => hist[k].err = "")
                        /\ (hist[k].class = "not_conforming" => hist[k].err # "")
(* a file computed afresh and cut by set_projections holds the bands of the container *)
SetProjectionsRight == (hist[LastK].op = "set_projections" /\ hist[LastK].err = "") =>
                          Restricted(cont.files["amn"], PoolObj("amnF"), IF hist[LastK].wassel THEN clab ELSE Ident(NB0))
(* ... and so does a file cut by hand with the returned selections, one after the other *)
SetManuallyRight == (hist[LastK].op = "set_manually" /\ hist[LastK].err = "") =>
                       Restricted(cont.files["amn"], PoolObj("amnF"), clab) /\ (0 \notin BandsOf(cont) => Conforming(cont))
(* whenever the recorded selection exists it has the size of the container, so that the cut file is taken *)
SetLaterAccepted == (hist[LastK].op \in {"set_projections", "set_manually"} /\ 0 \notin BandsOf(cont) /\ LastK > 1 /\
                     \A k \in 2..(LastK - 1) : hist[k].op = "select" /\ hist[k].err = "" /\ hist[k].class # "duplicates")
                       => hist[LastK].err = ""
(* apply_window is gone: it refuses and touches nothing *)
Deprecated == \A k \in Steps("apply_window") : hist[k].err # "" /\ hist[k].same
(* a selected container survives to_npz / from_npz, and selection commutes with it *)
Savable(c) == DOMAIN c.files # {} /\ 0 \notin BandsOf(c)
NpzKeeps == Savable(cont) => LET t == ThroughNpz(cont) IN t.err = "" /\ SameFiles(t.cont, cont)
COMMUTE == {"L1", "Wlow"}
NpzCommutes == (Savable(cont) /\ HasFile(cont, "eig") /\ Len(hist) <= 2) =>
   \A aid \in COMMUTE :
      LET r1 == ContSelect(cont, ArgOf(aid), TRUE) IN
      (r1.err = "" /\ Savable(r1.cont)) =>
         LET t == ThroughNpz(cont)
             r2 == ContSelect(t.cont, ArgOf(aid), FALSE)
             t1 == ThroughNpz(r1.cont)
         IN t.err = "" /\ r2.err = "" /\ t1.err = "" /\ r2.ret = r1.ret /\ FilesSameButBook(r2.cont.files, t1.cont.files)
=============================================================================
