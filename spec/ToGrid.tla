------------------------------- MODULE ToGrid -------------------------------
(* Grid tabulation (C30): result/tabresult.py TABresult.to_grid, find_grid, self_to_grid, get_data;
   result/kbandresult.py K__Result.to_grid, get_component, get_component_list.

   Numbers.  A grid is g = <<g1, g2, g3>>.  A k-point is an integer triple p on the mesh M = <<g1 m1, g2 m2, g3 m3>>
   (coordinate c is p[c] / M[c]; m = <<1, 1, 1>>: every point is on the grid; p may lie outside 0..M-1: periodic
   images).  Data are integers, one per k-point (the harness multiplies them with distinct integer weights per band
   and tensor component); an averaged value is the pair <<sum, count>>.  In the models all images of one grid point
   carry the same value (they are symmetry / periodic images): which of them is taken, or that they are averaged, is
   a tie-break the statement of C30 does not fix.  Indices are 0-based as in the code. *)
EXTENDS Integers, Sequences, FiniteSets, TLC, SequencesExt, FiniteSetsExt

NPoints(g) == g[1] * g[2] * g[3]
(* ind_grid = k2 + grid[2] * (k1 + grid[1] * k0) *)
SlotIndex(k, g) == k[3] + g[3] * (k[2] + g[2] * k[1])
(* k_new: meshgrid(indexing='ij').reshape((3, -1), order='C').T -- slot s holds the grid point Unflatten(s) *)
Unflatten(s, g) == <<s \div (g[2] * g[3]), (s \div g[3]) % g[2], s % g[3]>>
GridPoints(g) == {<<a, b, c>> : a \in 0..(g[1] - 1), b \in 0..(g[2] - 1), c \in 0..(g[3] - 1)}
COrder(g) == [s \in 1..NPoints(g) |-> Unflatten(s - 1, g)]
(* C30: the slot index is a bijection between the grid and 0..N-1, and it is the C order *)
SlotBijection(g) ==
   /\ \A s \in 0..(NPoints(g) - 1) : Unflatten(s, g) \in GridPoints(g) /\ SlotIndex(Unflatten(s, g), g) = s
   /\ \A k \in GridPoints(g) : SlotIndex(k, g) \in 0..(NPoints(g) - 1) /\ Unflatten(SlotIndex(k, g), g) = k
   /\ \A s \in 0..(NPoints(g) - 2) :     \* C order: the last index runs fastest
         LET a == Unflatten(s, g) b == Unflatten(s + 1, g) IN
         \/ (a[1] = b[1] /\ a[2] = b[2] /\ b[3] = a[3] + 1)
         \/ (a[1] = b[1] /\ b[2] = a[2] + 1 /\ a[3] = g[3] - 1 /\ b[3] = 0)
         \/ (b[1] = a[1] + 1 /\ a[2] = g[2] - 1 /\ b[2] = 0 /\ a[3] = g[3] - 1 /\ b[3] = 0)

(* ---- TABresult.to_grid ---- *)
Mesh(g, m) == <<g[1] * m[1], g[2] * m[2], g[3] * m[3]>>
(* self.kpoints = kpoints % 1 *)
Reduce1(p, M) == <<p[1] % M[1], p[2] % M[2], p[3] % M[3]>>
(* on_grid: |rint(k * grid) / grid - k| < 1e-5 -- the point is a grid point *)
OnGrid(p, m) == p[1] % m[1] = 0 /\ p[2] % m[2] = 0 /\ p[3] % m[3] = 0
(* kpoints_int % grid *)
KInt(p, g, m) == <<(p[1] \div m[1]) % g[1], (p[2] \div m[2]) % g[2], (p[3] \div m[3]) % g[3]>>
KMapInit(g) == [s \in 1..NPoints(g) |-> <<>>]
(* body of `for ik in range(len(self.kpoints))`; ik 0-based; kmap[s + 1] is k_map[s] *)
KMapStep(kmap, ik, p, g, m) ==
   IF OnGrid(p, m) THEN [kmap EXCEPT ![SlotIndex(KInt(p, g, m), g) + 1] = Append(@, ik)] ELSE kmap
RECURSIVE KMapLoop(_, _, _, _, _)
KMapLoop(kmap, ik, pts, g, m) == IF ik >= Len(pts) THEN kmap ELSE KMapLoop(TLCEval(KMapStep(kmap, ik, pts[ik + 1], g, m)), ik + 1, pts, g, m)   \* TLCEval: evaluate eagerly
KMap(pts, g, m) == KMapLoop(KMapInit(g), 0, pts, g, m)
SumOver(vals, km) == FoldLeft(LAMBDA a, ik : a + vals[ik + 1], 0, km)
(* K__Result.to_grid: data[s] = sum(dataall[ik] for ik in km) / len(km).  An empty km has no value: err = "missing" (the
   code divides 0 by 0 and raises; returning NaN in exactly the empty slots would serve the property as well -- the
   binding accepts any exception or NaN in exactly the slots with count 0); data[s] = <<sum, count>>, <<0, 0>> if empty *)
HasEmptySlot(kmap) == \E s \in 1..Len(kmap) : Len(kmap[s]) = 0
Collect(vals, kmap) ==
   [err |-> IF HasEmptySlot(kmap) THEN "missing" ELSE "",
    data |-> [s \in 1..Len(kmap) |-> <<SumOver(vals, kmap[s]), Len(kmap[s])>>]]
ToGridOp(pts, vals, g, m) == Collect(vals, KMap(pts, g, m))

(* ---- what C30 demands ---- *)
(* p is (an image of) the grid point k *)
IsImageOf(p, k, g, m) == \A c \in 1..3 : (p[c] - k[c] * m[c]) % (g[c] * m[c]) = 0
ImagesOf(pts, k, g, m) == {ik \in 0..(Len(pts) - 1) : IsImageOf(pts[ik + 1], k, g, m)}
Complete(pts, g, m) == \A k \in GridPoints(g) : ImagesOf(pts, k, g, m) # {}
ExactlyOnce(pts, g, m) == \A k \in GridPoints(g) : Cardinality(ImagesOf(pts, k, g, m)) = 1
SumSetOf(vals, S) == MapThenSumSet(LAMBDA ik : vals[ik + 1], S)
(* every grid point, in C order, carries the average of the values of its own images and of nothing else *)
OwnValues(pts, vals, g, m, res) ==
   Complete(pts, g, m) =>
      /\ res.err = "" /\ Len(res.data) = NPoints(g)
      /\ \A s \in 0..(NPoints(g) - 1) :
            LET im == ImagesOf(pts, Unflatten(s, g), g, m)
            IN res.data[s + 1] = <<SumSetOf(vals, im), Cardinality(im)>>
OnceOwnValue(pts, vals, g, m, res) ==
   ExactlyOnce(pts, g, m) =>
      \A ik \in 0..(Len(pts) - 1) : OnGrid(pts[ik + 1], m) => res.data[SlotIndex(KInt(pts[ik + 1], g, m), g) + 1] = <<vals[ik + 1], 1>>
MissingIsError(pts, g, m, res) == (~Complete(pts, g, m)) <=> res.err = "missing"
(* ... and the slots without a value are exactly the grid points without image *)
EmptySlotsAreMissing(pts, g, m, res) ==
   \A s \in 0..(NPoints(g) - 1) : res.data[s + 1][2] = 0 <=> ImagesOf(pts, Unflatten(s, g), g, m) = {}

(* ---- TABresult.find_grid: per direction the largest gap between sorted coordinates (1 appended) ---- *)
Coords(pts, M, c) == {Reduce1(pts[ik], M)[c] : ik \in 1..Len(pts)} \cup {M[c]}
MaxGap(S) == Max({b - Max({a \in S : a < b}) : b \in {x \in S : \E a \in S : a < x}})
(* int(np.round(1 / dk)) with dk = d / Mc; exactly half-way values are excluded (floating-point quotient) *)
RoundDiv(Mc, d) == (2 * Mc + d) \div (2 * d)
RoundDivTie(Mc, d) == (2 * Mc) % (2 * d) = d
FindGrid(pts, M) == [c \in 1..3 |-> RoundDiv(M[c], MaxGap(Coords(pts, M, c)))]
FindGridTie(pts, M) == \E c \in 1..3 : RoundDivTie(M[c], MaxGap(Coords(pts, M, c)))
(* every coordinate value of the grid occurs in every direction *)
AllPlanes(pts, g, m) == \A c \in 1..3 : \A v \in 0..(g[c] - 1) : \E ik \in 1..Len(pts) : (pts[ik][c] - v * m[c]) % (g[c] * m[c]) = 0
AllOnGrid(pts, m) == \A ik \in 1..Len(pts) : OnGrid(pts[ik], m)
FindGridRecovers(pts, g, m) == AllPlanes(pts, g, m) /\ AllOnGrid(pts, m) => FindGrid(pts, Mesh(g, m)) = g

(* ---- orders in which k-points arrive ---- *)
FOrder(g) == [s \in 1..NPoints(g) |-> <<(s - 1) % g[1], ((s - 1) \div g[1]) % g[2], (s - 1) \div (g[1] * g[2])>>]
(* run() with NKdiv = div, NKFFT = fft (g = div * fft): K-points in C order, each with its FFT points in C order;
   the FFT point n of K-point K is the grid point K + n * div *)
FactOrder(div, fft) ==
   LET nf == NPoints(fft) IN
   [s \in 1..(NPoints(div) * nf) |->
      LET K == Unflatten((s - 1) \div nf, div) n == Unflatten((s - 1) % nf, fft)
      IN <<K[1] + n[1] * div[1], K[2] + n[2] * div[2], K[3] + n[3] * div[3]>>]
Factorisations(g) == {<<d, <<g[1] \div d[1], g[2] \div d[2], g[3] \div d[3]>>>> :
                        d \in {x \in GridPoints(<<g[1] + 1, g[2] + 1, g[3] + 1>>) : x[1] > 0 /\ x[2] > 0 /\ x[3] > 0 /\ g[1] % x[1] = 0 /\ g[2] % x[2] = 0 /\ g[3] % x[3] = 0}}
(* C03 kernel used here: every factorisation lists every grid point exactly once *)
FactCovers(g) == \A df \in Factorisations(g) : LET o == FactOrder(df[1], df[2]) IN
                    Len(o) = NPoints(g) /\ {o[s] : s \in 1..Len(o)} = GridPoints(g)

-----------------------------------------------------------------------------
(* ---- kbandresult.get_component(data, ndim, component) on one tensor T (nested 3-tuples, rank ndim) ----
   component specifications: [kind |-> "none"] (None), [kind |-> "xyz", c |-> <<"x", "y">>] (a string of x/y/z, the code
   lower-cases it first), [kind |-> "name", c |-> <<"trace">>] (any other string), [kind |-> "tuple", c |-> <<"x", "y">>] (the
   index tuple (0, 1): indices are written with the same letters so that all specifications are comparable in TLC).
   results: [tag |-> "val", v |-> n], [tag |-> "sqrt", v |-> n] (the square root of n), [tag |-> "err", v |-> 0]
   (NoComponentError) *)
XYZ(ch) == CASE ch = "x" -> 0 [] ch = "y" -> 1 [] ch = "z" -> 2
RECURSIVE TIndex(_, _)
TIndex(T, idx) == IF Len(idx) = 0 THEN T ELSE TIndex(T[idx[1] + 1], Tail(idx))
Diag(T, ndim, a) == TIndex(T, [k \in 1..ndim |-> a])
SumSq(T) == T[1] * T[1] + T[2] * T[2] + T[3] * T[3]
Val(n) == [tag |-> "val", v |-> n]
NoComponent == [tag |-> "err", v |-> 0]
(* the specification's domain: what the code defines.  Elsewhere it fails with TypeError / KeyError (None or an
   unknown name on a tensor of rank >= 2), returns a sub-tensor (too few indices) or indexes the k-point / band axes
   (too many indices on rank >= 2: `_data[tuple]` only raises the IndexError that is turned into NoComponentError
   when an index exceeds the number of k-points) *)
CompOK(ndim, comp) ==
   CASE comp.kind = "tuple" -> Len(comp.c) = ndim
     [] comp.kind = "none" -> ndim <= 1
     [] comp.kind = "xyz" -> ndim <= 1 \/ Len(comp.c) = ndim
     [] comp.kind = "name" -> ndim <= 1 \/ comp.c = <<"trace">>
GetComponent(T, ndim, comp) ==
   IF comp.kind = "tuple" THEN Val(TIndex(T, [k \in 1..Len(comp.c) |-> XYZ(comp.c[k])]))    \* for k in component[-1::-1]: Xnk = Xnk[..., k]
   ELSE IF ndim = 0 THEN (IF comp.kind = "none" THEN Val(T) ELSE NoComponent)
   ELSE IF ndim = 1 THEN
      (IF comp.kind = "xyz" /\ Len(comp.c) = 1 THEN Val(T[XYZ(comp.c[1]) + 1])
       ELSE IF comp.kind = "name" /\ comp.c = <<"norm">> THEN [tag |-> "sqrt", v |-> SumSq(T)]
       ELSE IF comp.kind = "name" /\ comp.c = <<"sq">> THEN Val(SumSq(T))
       ELSE NoComponent)
   ELSE (IF comp.kind = "name" /\ comp.c = <<"trace">> THEN Val(Diag(T, ndim, 0) + Diag(T, ndim, 1) + Diag(T, ndim, 2))
         ELSE Val(TIndex(T, [k \in 1..ndim |-> XYZ(comp.c[k])])))    \* _data[tuple(xyz[c] for c in component)]
(* K__Result.get_component_list *)
RECURSIVE XYZStrings(_)
XYZStrings(n) == IF n = 0 THEN {<<>>} ELSE {<<ch>> \o s : ch \in {"x", "y", "z"}, s \in XYZStrings(n - 1)}
ComponentList(ndim) ==
   IF ndim = 0 THEN {[kind |-> "none", c |-> <<>>]}
   ELSE {[kind |-> "xyz", c |-> s] : s \in XYZStrings(ndim)} \cup (IF ndim >= 2 THEN {[kind |-> "name", c |-> <<"trace">>]} ELSE {})
=============================================================================
