------------------------------ MODULE FermiScan ------------------------------
(* C13: StaticCalculator.__call__ without the tetrahedron method (calculators/static.py) in integers.
   E[k]    sorted integer band energies of k-point k (1-based sequences, unit chosen by the harness)
   V[k][b] integer value of band b: the formula's trace over a set of bands is the sum of their values
           (a non-additive formula is used by the code only through differences of traces over 0..n: the same numbers)
   grid    [Q, a, d, n]: Fermi level i (0-based) = (a + i d)/Q in the unit of E ; d > 0
   th, kr  degeneracy threshold (unit of E) and Kramers flag; sel = [on, bands] = select_bands (0-based indices)
   Results are exact rationals in the unit (value unit)/(energy unit)^fder, before the constant factor and the division
   by the cell volume (both exact powers of two in the harness). *)
EXTENDS Bands, BandsRat

SELUNIT == 12     \* lcm(1..4): band-selection weights |sel /\ group| / |group| times SELUNIT are integers for <= 4 bands

Extra(fder) == CASE fder = 0 -> 0 [] fder = 1 -> 1 [] fder = 2 -> 1 [] fder = 3 -> 2          \* self.extraEf
EFminN(g, fder) == g.a - Extra(fder) * g.d                                                   \* self.EFmin * Q
EFmaxN(g, fder) == g.a + (g.n - 1) * g.d + Extra(fder) * g.d                                 \* self.EFmax * Q
NEFx(g, fder) == g.n + 2 * Extra(fder)                                                       \* self.nEF_extra
ExtendedGrid(g, fder) == [Q |-> g.Q, a |-> EFminN(g, fder), d |-> g.d, n |-> NEFx(g, fder)]
TimesQ(Ek, Q) == [j \in 1..Len(Ek) |-> Ek[j] * Q]
NoSel == [on |-> FALSE, bands |-> {}]

GroupSum(Ek, gp) == LET S[b \in gp[1]..gp[2]] == IF b = gp[1] THEN 0 ELSE S[b - 1] + Ek[b] IN S[gp[2]]
GroupSize(gp) == gp[2] - gp[1]
SelCount(gp, sel) == Cardinality({b \in sel.bands : gp[1] <= b /\ b < gp[2]})
(* weight_select_bands(ib1, ib2, select_bands) * SELUNIT *)
WSel(gp, sel) == IF sel.on THEN (SELUNIT * SelCount(gp, sel)) \div GroupSize(gp) ELSE SELUNIT

(* Data_K.get_bands_in_range_groups_ik(ik, EFmin, EFmax, th, kr, sea, select_bands): sequence of entries
   [g |-> <<ib1, ib2>>, inf |-> the value is -inf (bands below the scan), s, m |-> mean energy = s/m] *)
Entries(Ek, th, kr, g, fder, sel) ==
   LET Q == g.Q  lo == EFminN(g, fder)  hi == EFmaxN(g, fder)  EQ == TimesQ(Ek, Q)
       inr0 == GroupsInRange(EQ, th * Q, kr, lo, hi)
       inr == SelectSeq(inr0, LAMBDA gp : (~sel.on) \/ SelCount(gp, sel) > 0)
       main == [j \in 1..Len(inr) |-> [g |-> inr[j], inf |-> FALSE, s |-> GroupSum(Ek, inr[j]), m |-> GroupSize(inr[j])]]
       below0 == BandsBelow(EQ, lo)
       below == IF Len(inr) > 0 THEN Min({below0, inr[1][1]}) ELSE below0
   IN IF fder = 0 /\ below > 0 THEN Append(main, [g |-> <<0, below>>, inf |-> TRUE, s |-> 0, m |-> 1]) ELSE main
(* the code refuses band selection for the Fermi sea *)
Supported(fder, sel) == fder = 0 => ~sel.on

(* the three branches of the accumulation loop; p/q = (E - EFmin)/dEF *)
BinP(en, g, fder) == en.s * g.Q - en.m * EFminN(g, fder)
BinQ(en, g) == en.m * g.d
Branch(en, g, fder) ==
   IF en.inf \/ BinP(en, g, fder) < 0 THEN "below"
   ELSE IF en.s * g.Q <= en.m * EFmaxN(g, fder) THEN "bin" ELSE "above"
CeilDiv(p, q) == -((-p) \div q)           \* q > 0
(* named exclusion: a band-group energy that coincides with a level of the (extended) Fermi grid is binned by a floating
   point ceil of an integer-valued quotient *)
EntryTie(en, g, fder) == ~en.inf /\ BinP(en, g, fder) % BinQ(en, g) = 0 /\ BinP(en, g, fder) >= 0 /\ BinP(en, g, fder) <= BinQ(en, g) * (NEFx(g, fder) - 1)
NoTieK(Ek, th, kr, g, fder) ==
   \A gp \in {Borders(Ek, th, kr)[j] : j \in 1..Len(Borders(Ek, th, kr))} : \A i \in 0..(NEFx(g, fder) - 1) :
       GroupSum(Ek, gp) * g.Q # GroupSize(gp) * (EFminN(g, fder) + i * g.d)

(* named exclusion: no level of the (extended) Fermi grid lies inside the energy span [E[ib1], E[ib2-1]] of a band group of
   more than one band.  The property counts a degenerate group whole; at which energy inside its span the group switches
   from "above" to "below" the level (the code: its mean energy) is a free choice of the implementation that the binding
   does not demand.  (For groups of exactly equal energies this is NoTie.) *)
NoLevelInsideGroupK(Ek, th, kr, g, fder) ==
   \A gp \in {Borders(Ek, th, kr)[j] : j \in 1..Len(Borders(Ek, th, kr))} : \A i \in 0..(NEFx(g, fder) - 1) :
       GroupSize(gp) > 1 => LET x == EFminN(g, fder) + i * g.d IN ~(Ek[gp[1] + 1] * g.Q <= x /\ x <= Ek[gp[2]] * g.Q)
(* a single Fermi level: the code cannot know a spacing and takes dEF = 0.001; the model's grid then has n = 1 and its d is
   that step (the harness chooses the energy unit accordingly, which is not a binary fraction: threshold comparisons of
   non-zero gaps would not be exact, hence th = 0 in this class) *)
SingleLevelOK(g, th) == g.n = 1 => th = 0

GroupValue(Vk, gp) == LET S[b \in gp[1]..gp[2]] == IF b = gp[1] THEN 0 ELSE S[b - 1] + Vk[b] IN S[gp[2]]
(* non-additive formulas: _values[n] = trace over bands 0..n-1 ; values[n] = _values[ib2] - _values[ib1] *)
GroupValueNonAdditive(Vk, gp) == GroupValue(Vk, <<0, gp[2]>>) - GroupValue(Vk, <<0, gp[1]>>)

AddFrom(row, from0, c) == [i \in 1..Len(row) |-> IF i - 1 >= from0 THEN row[i] + c ELSE row[i]]
(* for n, E in sorted(weights.items()): ... one k-point, row = restot[ik_to_result(ik)] (in units 1/SELUNIT) *)
RECURSIVE AccEntries(_, _, _, _, _, _, _)
AccEntries(row, ens, j, Vk, g, fder, sel) ==
   IF j > Len(ens) THEN row
   ELSE LET en == ens[j]  c == GroupValue(Vk, en.g) * WSel(en.g, sel)  br == Branch(en, g, fder)
            row2 == CASE br = "below" -> AddFrom(row, 0, c)
                      [] br = "bin" -> AddFrom(row, CeilDiv(BinP(en, g, fder), BinQ(en, g)), c)
                      [] br = "above" -> row
        IN AccEntries(row2, ens, j + 1, Vk, g, fder, sel)
AccumulateK(row, Ek, Vk, th, kr, g, fder, sel) == AccEntries(row, Entries(Ek, th, kr, g, fder, sel), 1, Vk, g, fder, sel)
ZeroRow(g, fder) == [i \in 1..NEFx(g, fder) |-> 0]
BranchesTaken(Ek, th, kr, g, fder, sel) ==
   LET ens == Entries(Ek, th, kr, g, fder, sel) IN
   {Branch(ens[j], g, fder) : j \in 1..Len(ens)} \cup {"seagroup" : j \in {j \in 1..Len(ens) : ens[j].inf}}

(* finite differences exactly as written in the code *)
DiffRow(row, fder, n) ==
   CASE fder = 0 -> row
     [] fder = 1 -> [i \in 1..n |-> row[i + 2] - row[i]]
     [] fder = 2 -> [i \in 1..n |-> row[i + 2] + row[i] - 2 * row[i + 1]]
     [] fder = 3 -> [i \in 1..n |-> row[i + 4] - row[i] - 2 * (row[i + 3] - row[i + 1])]
DiffDen(fder, d) == CASE fder = 0 -> 1 [] fder = 1 -> 2 * d [] fder = 2 -> d * d [] fder = 3 -> 2 * d * d * d
QPow(Q, fder) == CASE fder = 0 -> 1 [] fder = 1 -> Q [] fder = 2 -> Q * Q [] fder = 3 -> Q * Q * Q
(* restot = differences / dEF^n ; /= nk when not k-resolved *)
FinishRow(row, g, fder, nkdiv) ==
   LET dr == DiffRow(row, fder, g.n) IN [i \in 1..g.n |-> RN(dr[i] * QPow(g.Q, fder), SELUNIT * DiffDen(fder, g.d) * nkdiv)]

RECURSIVE SumRows(_, _)
SumRows(rows, k) == IF k = 0 THEN [i \in 1..Len(rows[1]) |-> 0] ELSE LET r == SumRows(rows, k - 1) IN [i \in 1..Len(rows[1]) |-> r[i] + rows[k][i]]
(* the whole call: result[ikr][i] ; kres: one row per k-point, otherwise a single row *)
RawRows(E, V, th, kr, g, fder, sel) == [k \in 1..Len(E) |-> AccumulateK(ZeroRow(g, fder), E[k], V[k], th, kr, g, fder, sel)]
Scan(E, V, th, kr, g, fder, sel, kres) ==
   LET rows == RawRows(E, V, th, kr, g, fder, sel) IN
   IF kres THEN [k \in 1..Len(E) |-> FinishRow(rows[k], g, fder, 1)]
   ELSE <<FinishRow(SumRows(rows, Len(E)), g, fder, Len(E))>>

-----------------------------------------------------------------------------
(* declarative meaning *)
(* Fermi sea of one k-point at the level x/Q: every degenerate group whose mean energy is <= the level, counted whole
   (times the selected fraction of the group when a band selection is given); in units 1/SELUNIT *)
SeaK(Ek, Vk, th, kr, sel, Q, x) ==
   LET B == Borders(Ek, th, kr)
       T[j \in 0..Len(B)] == IF j = 0 THEN 0
                             ELSE T[j - 1] + (IF GroupSum(Ek, B[j]) * Q <= GroupSize(B[j]) * x THEN GroupValue(Vk, B[j]) * WSel(B[j], sel) ELSE 0)
   IN T[Len(B)]
SeaOnGrid(Ek, Vk, th, kr, sel, gx) == [i \in 1..gx.n |-> SeaK(Ek, Vk, th, kr, sel, gx.Q, gx.a + (i - 1) * gx.d)]
(* central differences on a uniform grid with step h: D1 f(x) = (f(x+h) - f(x-h))/(2h), D2 f(x) = (f(x+h) - 2 f(x) + f(x-h))/h^2,
   third = D1 after D2; numerators only *)
D1(s) == [i \in 1..(Len(s) - 2) |-> s[i + 2] - s[i]]
D2(s) == [i \in 1..(Len(s) - 2) |-> s[i + 2] - 2 * s[i + 1] + s[i]]
CentralDiff(s, fder) == CASE fder = 0 -> s [] fder = 1 -> D1(s) [] fder = 2 -> D2(s) [] fder = 3 -> D1(D2(s))
DeclRowK(Ek, Vk, th, kr, g, fder, sel) == CentralDiff(SeaOnGrid(Ek, Vk, th, kr, sel, ExtendedGrid(g, fder)), fder)
Normalise(row, g, fder, nkdiv) == [i \in 1..Len(row) |-> RN(row[i] * QPow(g.Q, fder), SELUNIT * DiffDen(fder, g.d) * nkdiv)]
Declarative(E, V, th, kr, g, fder, sel, kres) ==
   LET rows == [k \in 1..Len(E) |-> DeclRowK(E[k], V[k], th, kr, g, fder, sel)] IN
   IF kres THEN [k \in 1..Len(E) |-> Normalise(rows[k], g, fder, 1)]
   ELSE <<Normalise(SumRows(rows, Len(E)), g, fder, Len(E))>>

(* representation-free bounds of the sea (used where a level lies inside the energy span of a group, i.e. where
   NoLevelInsideGroupK fails): whole groups only, every band at most once, any representative energy of a group.
   A group whose TOP band energy is <= the level is counted, one whose BOTTOM band energy is > the level is not, a group that
   contains the level may or may not be counted: lower / upper = fixed part + sum of the negative / positive optional
   group values (for non-negative values: groups with top <= x  ...  groups with bottom <= x).  Units 1/SELUNIT. *)
SeaBoundK(Ek, Vk, th, kr, sel, Q, x, upper) ==
   LET B == Borders(Ek, th, kr)
       T[j \in 0..Len(B)] ==
          IF j = 0 THEN 0
          ELSE LET c == GroupValue(Vk, B[j]) * WSel(B[j], sel) IN
               T[j - 1] + (IF Ek[B[j][2]] * Q <= x THEN c
                           ELSE IF Ek[B[j][1] + 1] * Q <= x THEN (IF upper THEN (IF c > 0 THEN c ELSE 0) ELSE (IF c < 0 THEN c ELSE 0))
                           ELSE 0)
   IN T[Len(B)]
SeaBoundRowK(Ek, Vk, th, kr, sel, g, upper) == [i \in 1..g.n |-> SeaBoundK(Ek, Vk, th, kr, sel, g.Q, g.a + (i - 1) * g.d, upper)]
(* the lowest level of the (extended) grid lies inside a group and at least one band of that group is strictly below it: the
   bands below the scan that already belong to a group of the scan must not be counted twice *)
LowestLevelInsideGroupK(Ek, th, kr, g, fder) ==
   \E gp \in {Borders(Ek, th, kr)[j] : j \in 1..Len(Borders(Ek, th, kr))} :
       Ek[gp[1] + 1] * g.Q < EFminN(g, fder) /\ EFminN(g, fder) <= Ek[gp[2]] * g.Q

(* a group of several bands reaches up to the lowest level of the (extended) grid (top band >= level) while its mean energy is
   at least one and a half Fermi steps below that level (needs a threshold of several steps): the bin index of the code's
   representative energy would be negative; the group must still be counted at every level above its top band *)
GroupMeanFarBelowLowestLevelK(Ek, th, kr, g, fder) ==
   \E gp \in {Borders(Ek, th, kr)[j] : j \in 1..Len(Borders(Ek, th, kr))} :
       /\ GroupSize(gp) > 1 /\ Ek[gp[2]] * g.Q >= EFminN(g, fder)
       /\ 2 * GroupSum(Ek, gp) * g.Q <= GroupSize(gp) * (2 * EFminN(g, fder) - 3 * g.d)

RSumK(rows, i, nk) == LET T[k \in 0..nk] == IF k = 0 THEN RZero ELSE RAdd(T[k - 1], rows[k][i]) IN T[nk]

(* a stencil is the n-th central difference iff it is exact on polynomials of degree <= n+1 : applied to x^k on the integer
   grid (h = 1) it gives n! [k = n] for k <= n and (n+1)! x for k = n+1 ; den = 1, 2, 1, 2 *)
IntPow(x, k) == LET P[j \in 0..k] == IF j = 0 THEN 1 ELSE x * P[j - 1] IN P[k]
FactN(n) == LET P[j \in 0..n] == IF j = 0 THEN 1 ELSE j * P[j - 1] IN P[n]
StencilExact(fder) ==
   \A k \in 0..(fder + 1) : \A x \in -3..3 :
      LET ex == Extra(fder)
          s == [i \in 1..(1 + 2 * ex) |-> IntPow(x - ex + (i - 1), k)]
          got == DiffRow(s, fder, 1)[1]
          want == IF k < fder THEN 0 ELSE IF k = fder THEN FactN(fder) ELSE FactN(fder + 1) * x
      IN got = want * DiffDen(fder, 1)
=============================================================================
