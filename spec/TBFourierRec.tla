---------------------------- MODULE TBFourierRec ----------------------------
(* code -> spec for C02: one TLC state per recorded call of the real Fourier back ends
   (Data_K_R.HH_K / Xbar('Ham', der) / Rvectors.R_to_k with fftlib fftw | numpy | slow, or with an explicit k-list).
   The harness rounds the k-space matrices (times D^der) to cyclotomic integers after verifying integrality. *)
EXTENDS TBFourier, Json, IOUtils, TLCExt
VARIABLE i
Recs == JsonDeserialize(IOEnv.TRACE_FILE).recs
Rec == Recs[i]
T3(s) == <<s[1], s[2], s[3]>>
T4(s) == <<s[1], s[2], s[3], s[4]>>
Hops == {[R |-> T3(Rec.hops[k].R), a |-> Rec.hops[k].a, b |-> Rec.hops[k].b, v |-> T4(Rec.hops[k].v)] : k \in 1..Len(Rec.hops)}
M == [nw |-> Rec.nw, lat |-> [j \in 1..3 |-> T3(Rec.lat[j])], D |-> Rec.D,
      tau |-> [a \in 1..Rec.nw |-> T3(Rec.tau[a])], hops |-> Hops]
Cs == [l \in 1..Len(Rec.cs) |-> Rec.cs[l]]
Rows == [j \in 1..Len(Rec.rows) |-> [a \in 1..Rec.nw |-> [b \in 1..Rec.nw |-> T4(Rec.rows[j][a][b])]]]
Fft == T3(Rec.fft)
Dk == T3(Rec.dk)
(* the k-points of the rows, in twelfths: the explicit list, or the code's own Data_K.kpoints_all (recorded, reduced modulo 12):
   the statement is about the values at the k-points, not about the order in which the FFT grid is listed *)
Ks == [j \in 1..Len(Rec.k12) |-> T3(Rec.k12[j])]
Grid == KpointsAll(Fft, Dk)
SameOrderAsSpec == Len(Ks) = Len(Grid) /\ \A j \in 1..Len(Ks) : Ks[j] = Grid[j]
Clauses ==
   [ model_hermitian |-> IsHermitianModel(M),
     n_rows          |-> Len(Rec.rows) = Len(Ks),
     (* the FFT paths return the points of the FFT grid shifted by dK, each once, in any order *)
     kpoints_are_grid |-> Rec.kind = "klist" \/ (Len(Ks) = Len(Grid) /\ {Ks[j] : j \in 1..Len(Ks)} = {Grid[j] : j \in 1..Len(Grid)}),
     equals_direct   |-> With(DerTable(M, HamTable(M), Cs), LAMBDA X : Rows = [j \in 1..Len(Ks) |-> RtoKDirect(M, X, Ks[j])]),
     (* binding of the modelled FFT path (placement modulo NKFFT, K-shift phase, transform, C-order reshape); only meaningful
        while the code lists the grid in the order of the model *)
     equals_fftpath  |-> Rec.kind = "klist" \/ ~SameOrderAsSpec \/ Rows = FFTPath(M, Fft, Dk, Cs, FALSE),
     hermitian       |-> RowsHermitian(Rows) ]
Report == \A n \in DOMAIN Clauses : Clauses[n] \/ PrintT(<<"BAD", i, n>>)
RecInit == i \in 1..Len(Recs)
RecSpec == RecInit /\ [][UNCHANGED i]_i
=============================================================================
