---------------------------- MODULE TBFourierRec ----------------------------
(* code -> spec for C02: one TLC state per recorded call of the real Fourier back ends
   (Data_K_R.HH_K / Xbar('Ham', der) / Rvectors.R_to_k with fftlib fftw | numpy | slow, or with an explicit k-list).
   The harness rounds the k-space matrices (times D^der) to cyclotomic integers after verifying integrality. *)
EXTENDS TBFourier, Json, IOUtils, TLCExt
VARIABLE i
Recs == JsonDeserialize(IOEnv.TRACE_FILE).recs
Rec == Recs[i]
T3(s) == <<s[1], s[2], s[3]>>
T4(s) == <<s[1], s[2], s[3], s[4]>>
Hops == {[R |-> T3(Rec.hops[k].R), a |-> Rec.hops[k].a, b |-> Rec.hops[k].b, v |-> T4(Rec.hops[k].v)] : k \in 1..Len(Rec.hops)}
M == [nw |-> Rec.nw, lat |-> [j \in 1..3 |-> T3(Rec.lat[j])], D |-> Rec.D,
      tau |-> [a \in 1..Rec.nw |-> T3(Rec.tau[a])], hops |-> Hops]
Cs == [l \in 1..Len(Rec.cs) |-> Rec.cs[l]]
Rows == [j \in 1..Len(Rec.rows) |-> [a \in 1..Rec.nw |-> [b \in 1..Rec.nw |-> T4(Rec.rows[j][a][b])]]]
Fft == T3(Rec.fft)
Dk == T3(Rec.dk)
(* the k-points of the rows, in twelfths: kpoints_all of the FFT grid, or the explicit list *)
Ks == IF Rec.kind = "klist" THEN [j \in 1..Len(Rec.k12) |-> T3(Rec.k12[j])] ELSE KpointsAll(Fft, Dk)
Clauses ==
   [ model_hermitian |-> IsHermitianModel(M),
     n_rows          |-> Len(Rec.rows) = Len(Ks),
     equals_direct   |-> With(DerTable(M, HamTable(M), Cs), LAMBDA X : Rows = [j \in 1..Len(Ks) |-> RtoKDirect(M, X, Ks[j])]),
     equals_fftpath  |-> Rec.kind = "klist" \/ Rows = FFTPath(M, Fft, Dk, Cs, FALSE),
     hermitian       |-> RowsHermitian(Rows) ]
Report == \A n \in DOMAIN Clauses : Clauses[n] \/ PrintT(<<"BAD", i, n>>)
RecInit == i \in 1..Len(Recs)
RecSpec == RecInit /\ [][UNCHANGED i]_i
=============================================================================
