------------------------------ MODULE KMeshRec ------------------------------
(* code -> spec for C06: records of calls of the real Grid.get_K_list, KpointBZparallel.divide, exclude_equiv_points,
   KpointBZtetra.divide, GridTetra / GridTrigonal (+ split_tetra_volume / split_tetra_size), one TLC state per record.
   Every named clause of `Clauses` is evaluated on the recorded values; all numbers are the integers of KMesh.tla. *)
EXTENDS KMesh, Json, IOUtils, TLCExt
VARIABLE i
Recs == JsonDeserialize(IOEnv.TRACE_FILE).recs
Rec == Recs[i]
T3(s)  == << s[1], s[2], s[3] >>
T4v(s) == << T3(s[1]), T3(s[2]), T3(s[3]), T3(s[4]) >>
(* K list of a grid: [[k1,k2,k3,w], ...] *)
KList(s) == [q \in 1..Len(s) |-> [k |-> << s[q][1], s[q][2], s[q][3] >>, w |-> s[q][4]]]
(* fine K-points: [[c1,c2,c3,lev,fac], ...] *)
FPoint(p) == KPt(<< p[1], p[2], p[3] >>, p[4], p[5])
FList(s)  == [q \in 1..Len(s) |-> FPoint(s[q])]
(* tetrahedra: [[v(4x3), fac, lev, spl], ...] *)
TetOf(t)  == Tet(T4v(t[1]), t[2], t[3], t[4])
TList(s)  == [q \in 1..Len(s) |-> TetOf(s[q])]
GeoOf(r)  == [n |-> T3(r.n), nd |-> T3(r.nd), L |-> r.L]

KlistClauses ==
   LET n == T3(Rec.n)  G == GroupOf(Rec.grp)  kl == KList(Rec.out)  GE == IF Rec.sym THEN G ELSE {Id3} IN
   [ accepted_iff_compatible |-> Rec.ok = Compatible(n, G),
     equals_spec  |-> Rec.ok => kl = IrreducibleList(n, G, Rec.sym),
     nonnegative  |-> Rec.ok => WeightsNonNegative(kl),
     sum_to_one   |-> Rec.ok => WeightsSumToOne(kl, n),
     partition    |-> Rec.ok => StarsPartition(kl, n, GE),
     orbit_weight |-> Rec.ok => WeightIsOrbitSize(kl, n, GE),
     covered_once |-> Rec.ok => CoveredOnce(kl, n, GE) ]
DivideClauses ==
   LET geo == GeoOf(Rec)  G == GroupOf(Rec.grp)  GE == IF Rec.sym THEN G ELSE {Id3}
       k == FPoint(Rec.parent)  ch == FList(Rec.out) IN
   [ in_model     |-> Divisible(k, geo) /\ Compatible(FineU(geo), G),
     equals_spec  |-> ch = Children(k, geo, G, Rec.sym),
     weight_kept  |-> TotalWeight(ch) = k.fac,
     nonnegative  |-> \A q \in 1..Len(ch) : ch[q].fac > 0,
     tile_parent  |-> (~Rec.sym) => ChildrenTileParent(k, ch, geo),
     lossless     |-> MergeLossless(ChildrenRaw(k, geo), ch, geo, GE),
     no_duplicates |-> Rec.sym => NoEquivDup(ch, geo, G) ]
ExcludeClauses ==
   LET geo == GeoOf(Rec)  G == GroupOf(Rec.grp)  a == FList(Rec.inp)  b == FList(Rec.out)  kb == Keys(b, geo, G) IN
   [ in_model     |-> Compatible(FineU(geo), G) /\ OldDistinctK(Keys(a, geo, G), Rec.nold),
     equals_spec  |-> b = ExcludeEquiv(a, Rec.nold, geo, G),
     weight_kept  |-> TotalWeight(a) = TotalWeight(b),
     lossless     |-> MergeLossless(a, b, geo, G),
     new_unique   |-> \A p, q \in 1..Len(b) : (p < q /\ q > Rec.nold) => kb[p] # kb[q],
     old_stay     |-> \A q \in 1..Rec.nold : b[q].c = a[q].c /\ b[q].lev = a[q].lev /\ b[q].fac >= a[q].fac ]
TSplitClauses ==
   LET t == TetOf(Rec.parent)  ch == TList(Rec.out)  gram == GramOf(Rec.metric)
       P == TetSamples(Rec.S, Rec.M, Rec.NS, << -(Rec.S \div 2), -(Rec.S \div 2), -(Rec.S \div 2) >>, <<1, 3, 5>>) IN
   [ in_model     |-> Splittable(t, Rec.ndiv, gram) /\ Vol6(t.v) > 0,
     equals_spec  |-> ch = SplitLongestEdge(t, Rec.ndiv, gram, Rec.refine),
     generic      |-> SamplesGeneric(ch, P, Rec.M) /\ SamplesGeneric(<<t>>, P, Rec.M),
     split_ok     |-> SplitOK(t, ch, P, Rec.M) ]
TGridClauses ==
   LET kl == TList(Rec.out)  gram == GramOf(Rec.metric)  P == SamplesOf(Rec.metric, Rec.S, Rec.M, Rec.NS) IN
   [ equals_spec  |-> kl = GridTetraList(StartListOf(Rec.metric, Rec.S, Rec.WT), Rec.tv2, Rec.ts2, gram),
     positive     |-> PositiveVolumes(kl),
     volume_kept  |-> SumSeq(TVols(kl)) = CellVol6Of(Rec.metric, Rec.S),
     weight_one   |-> SumSeq(TFacs(kl)) = Rec.WT,
     weight_by_volume |-> WeightPropVolume(kl, Rec.WT),
     generic      |-> SamplesGeneric(kl, P, Rec.M),
     tiling       |-> IF Rec.metric = "hex" THEN NoOverlap(kl, P, Rec.M) ELSE TilesCell(kl, P, Rec.M),
     thresholds   |-> (Rec.tv2 = 0 \/ VolumeDone(kl, Rec.tv2)) /\ (Rec.ts2 = 0 \/ SizeDone(kl, Rec.ts2, gram)) ]
Clauses == CASE Rec.fn = "klist" -> KlistClauses
             [] Rec.fn = "divide" -> DivideClauses
             [] Rec.fn = "exclude" -> ExcludeClauses
             [] Rec.fn = "tsplit" -> TSplitClauses
             [] Rec.fn = "tgrid" -> TGridClauses
Report == \A c \in DOMAIN Clauses : Clauses[c] \/ PrintT(<<"BAD", i, c>>)
RecInit == i \in 1..Len(Recs)
RecSpec == RecInit /\ [][UNCHANGED i]_i
=============================================================================
