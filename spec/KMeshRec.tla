------------------------------ MODULE KMeshRec ------------------------------
(* code -> spec for C06: records of calls of the real Grid.get_K_list, KpointBZparallel.divide, exclude_equiv_points,
   whole refinement steps (of run() and of the harness's copy of its loop), KpointBZtetra.divide, GridTetra /
   GridTrigonal (+ split_tetra_volume / split_tetra_size), one TLC state per record.
   Every named clause of `Clauses` is evaluated on the recorded values; all numbers are the integers of KMesh.tla.
   The clauses that can raise a violation are the statements of the property and comparisons with the specification UP TO
   THE SYMMETRY THE PROPERTY ALLOWS (order of a list, which member of an orbit / of a class of equivalent points is kept,
   order of the vertices of a tetrahedron, tie-break between equally long edges).  Clauses named info_* compare with the
   literal result of today's code; they are reported as information only. *)
EXTENDS KMesh, Json, IOUtils, TLCExt
VARIABLES i, grpset       \* grpset: the group of the record, generated once per record (TLC re-evaluates definitions at every mention)
Recs == JsonDeserialize(IOEnv.TRACE_FILE).recs
Rec == Recs[i]
T3(s)  == << s[1], s[2], s[3] >>
T4v(s) == << T3(s[1]), T3(s[2]), T3(s[3]), T3(s[4]) >>
(* K list of a grid: [[k1,k2,k3,w], ...] *)
KList(s) == [q \in 1..Len(s) |-> [k |-> << s[q][1], s[q][2], s[q][3] >>, w |-> s[q][4]]]
(* fine K-points: [[c1,c2,c3,lev,fac], ...] *)
FPoint(p) == KPt(<< p[1], p[2], p[3] >>, p[4], p[5])
FList(s)  == [q \in 1..Len(s) |-> FPoint(s[q])]
(* tetrahedra: [[v(4x3), fac, lev, spl], ...] *)
TetOf(t)  == Tet(T4v(t[1]), t[2], t[3], t[4])
TList(s)  == [q \in 1..Len(s) |-> TetOf(s[q])]
GeoOf(r)  == [n |-> T3(r.n), nd |-> T3(r.nd), L |-> r.L]

KlistClauses ==
   LET n == T3(Rec.n)  G == grpset  kl == KList(Rec.out)  GE == IF Rec.sym THEN G ELSE {Id3}
       comp == Compatible(n, G)
       A == Rec.ok /\ comp          \* the property speaks about the grids that the group maps to themselves
   IN
   [ compatible_accepted |-> comp => Rec.ok,
     in_range     |-> A => \A q \in 1..Len(kl) : kl[q].k \in GridPts(n),
     nonnegative  |-> A => WeightsNonNegative(kl),
     sum_to_one   |-> A => WeightsSumToOne(kl, n),
     partition    |-> A => StarsPartition(kl, n, GE),
     orbit_weight |-> A => WeightIsOrbitSize(kl, n, GE),
     covered_once |-> A => CoveredOnce(kl, n, GE),
     same_up_to_symmetry |-> A => (SameOrbitWeights(kl, IrreducibleList(n, G, Rec.sym), n, GE) /\ NoOrbitTwice(kl, n, GE)),
     info_incompatible_rejected |-> (~comp) => ~Rec.ok,
     info_equals_spec  |-> A => kl = IrreducibleList(n, G, Rec.sym) ]
DivideClauses ==
   LET geo == GeoOf(Rec)  G == grpset  GE == IF Rec.sym THEN G ELSE {Id3}
       k == FPoint(Rec.parent)  ch == FList(Rec.out) IN
   [ in_model     |-> Divisible(k, geo) /\ Compatible(FineU(geo), G),
     weight_kept  |-> TotalWeight(ch) = k.fac,
     nonnegative  |-> \A q \in 1..Len(ch) : ch[q].fac > 0,
     tile_parent  |-> (~Rec.sym) => ChildrenTileParent(k, ch, geo),
     same_up_to_symmetry |-> SameClassWeights(ch, ChildrenRaw(k, geo), geo, GE),
     no_duplicates |-> Rec.sym => NoEquivDup(ch, geo, G),
     info_equals_spec  |-> ch = Children(k, geo, G, Rec.sym) ]
ExcludeClauses ==
   LET geo == GeoOf(Rec)  G == grpset  a == FList(Rec.inp)  b == FList(Rec.out) IN
   [ in_model     |-> Compatible(FineU(geo), G) /\ OldDistinctK(Keys(a, geo, G), Rec.nold),
     weight_kept  |-> TotalWeight(a) = TotalWeight(b),
     same_up_to_symmetry |-> SameClassWeights(a, b, geo, G),
     no_duplicates |-> NoEquivDup(b, geo, G),
     info_equals_spec  |-> b = ExcludeEquiv(a, Rec.nold, geo, G),
     info_old_stay     |-> Len(b) >= Rec.nold /\ \A q \in 1..Rec.nold : b[q].c = a[q].c /\ b[q].lev = a[q].lev /\ b[q].fac >= a[q].fac ]
(* one refinement step: before = K list, ord = the refined points in the order of the loop, after = K list after the
   step (run(): the lists at the hook events UpdateIntegral / Refine; or the harness's copy of the loop of run()) *)
RefineClauses ==
   LET geo == GeoOf(Rec)  G == grpset  GE == IF Rec.sym THEN G ELSE {Id3}
       a == FList(Rec.before)  b == FList(Rec.after)  ord == [q \in 1..Len(Rec.ord) |-> Rec.ord[q]]
       exp == RefineList(a, ord, geo, G, Rec.sym) IN
   [ in_model     |-> /\ Compatible(FineU(geo), G) /\ Len(ord) >= 1
                      /\ \A q \in 1..Len(ord) : ord[q] \in 1..Len(a) /\ Divisible(a[ord[q]], geo)
                      /\ \A q, r \in 1..Len(ord) : q # r => ord[q] # ord[r]
                      /\ (Rec.sym => OldDistinctK(Keys(a, geo, G), Len(a))),
     weight_kept  |-> TotalWeight(b) = TotalWeight(a),
     nonnegative  |-> \A q \in 1..Len(b) : b[q].fac >= 0,
     same_up_to_symmetry |-> SameClassWeights(b, exp, geo, GE),
     no_duplicates |-> Rec.sym => LiveNoDup(b, geo, G),
     info_equals_spec  |-> b = exp ]
(* the K list of run() at a hook event (fresh runs and restarts from a stored iteration): what C06 demands of any K list.
   (The tiling by the image cells of the live points is evaluated on the same lists by the harness, FineGeo.images_tile.) *)
KStateClauses ==
   LET geo == GeoOf(Rec)  G == grpset  GE == IF Rec.sym THEN G ELSE {Id3}  kl == FList(Rec.kl) IN
   [ in_model     |-> Compatible(FineU(geo), G) /\ \A q \in 1..Len(kl) : kl[q].lev \in 0..geo.L,
     nonnegative  |-> \A q \in 1..Len(kl) : kl[q].fac >= 0,
     sum_to_one   |-> TotalWeight(kl) = WOne(geo),
     no_duplicates |-> LiveNoDup(kl, geo, GE),
     orbit_weights |-> BoxPreserving(GE) => OrbitWeights(kl, geo, GE) ]
TSplitClauses ==
   LET t == TetOf(Rec.parent)  ch == TList(Rec.out)  gram == GramOf(Rec.metric)
       P == TetSamples(Rec.S, Rec.M, Rec.NS, << -(Rec.S \div 2), -(Rec.S \div 2), -(Rec.S \div 2) >>, <<1, 3, 5>>)
       generic == SamplesGeneric(ch, P, Rec.M) /\ SamplesGeneric(<<t>>, P, Rec.M) IN
   [ in_model     |-> Vol6(t.v) > 0,
     split_exact  |-> SplitExact(t, ch),
     positive     |-> PositiveVolumes(ch),
     split_tiles  |-> generic => SplitTiles(t, ch, P, Rec.M),
     info_generic |-> generic,
     info_equals_spec  |-> Splittable(t, Rec.ndiv, gram) /\ ch = SplitLongestEdge(t, Rec.ndiv, gram, Rec.refine) ]
TGridClauses ==
   LET kl == TList(Rec.out)  gram == GramOf(Rec.metric)  P == SamplesOf(Rec.metric, Rec.S, Rec.M, Rec.NS)
       generic == SamplesGeneric(kl, P, Rec.M) IN
   [ positive     |-> PositiveVolumes(kl),
     volume_kept  |-> SumSeq(TVols(kl)) = CellVol6Of(Rec.metric, Rec.S),
     weight_one   |-> SumSeq(TFacs(kl)) = Rec.WT,
     weight_by_volume |-> WeightPropVolume(kl, Rec.WT),
     tiling       |-> generic => (IF IsTrigonal(Rec.metric) THEN NoOverlap(kl, P, Rec.M) ELSE TilesCell(kl, P, Rec.M)),
     info_generic |-> generic,
     info_thresholds |-> (Rec.tv2 = 0 \/ VolumeDone(kl, Rec.tv2)) /\ (Rec.ts2 = 0 \/ SizeDone(kl, Rec.ts2, gram)),
     info_equals_spec  |-> kl = GridTetraList(StartListOf(Rec.metric, Rec.S, Rec.WT), Rec.tv2, Rec.ts2, gram) ]
Clauses == CASE Rec.fn = "klist" -> KlistClauses
             [] Rec.fn = "divide" -> DivideClauses
             [] Rec.fn = "exclude" -> ExcludeClauses
             [] Rec.fn = "refine" -> RefineClauses
             [] Rec.fn = "kstate" -> KStateClauses
             [] Rec.fn = "tsplit" -> TSplitClauses
             [] Rec.fn = "tgrid" -> TGridClauses
Report == \A c \in DOMAIN Clauses : Clauses[c] \/ PrintT(<<"BAD", i, c>>)
RecInit == i \in 1..Len(Recs) /\ grpset = (IF "grp" \in DOMAIN Recs[i] THEN GroupOf(Recs[i].grp) ELSE {Id3})
RecSpec == RecInit /\ [][UNCHANGED <<i, grpset>>]_<<i, grpset>>
=============================================================================
