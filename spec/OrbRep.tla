------------------------------- MODULE OrbRep -------------------------------
(* C21: how real orbitals transform under proper and improper rotations (symmetry/orbitals.py), exact part.

   Numbers are elements of Q(sqrt 3) written <<a, b, d>> = (a + b*sqrt(3))/d with d > 0 and gcd(a, b, d) = 1, so that
   equality of numbers is equality of triples.  This field contains the Cartesian matrices of all cubic (O_h) and
   hexagonal (D_6h) point operations, every rational rotation (integer quaternions), and the representation matrices
   of the s, p and d shells in the real orbital bases of orbitals.py (the d basis needs 1/sqrt(3)).

   Conventions transcribed from orbitals.py (Orbitals.rot_orb_basis):  (g phi)(r) = phi(R^-1 r),
   g phi_j = sum_i phi_i D_ij.   p shell in the order (pz, px, py);  d shell (dz2, dxz, dyz, dx2-y2, dxy).
   Hybrid shells are rows M of coefficients over basis shells; rot_orb returns the compression  M D M^T, which is an
   orthogonal matrix exactly when the rotation maps the span of the hybrid onto itself (Preserves below). *)
EXTENDS Integers, Sequences, FiniteSets, TLC, SequencesExt, FiniteSetsExt

RECURSIVE GCD(_, _)
GCD(a, b) == IF b = 0 THEN a ELSE GCD(b, a % b)
Abs(x) == IF x < 0 THEN -x ELSE x
Norm(x) == LET g == GCD(GCD(Abs(x[1]), Abs(x[2])), x[3]) IN <<x[1] \div g, x[2] \div g, x[3] \div g>>
Zero == <<0, 0, 1>>
One == <<1, 0, 1>>
Num(n) == <<n, 0, 1>>
Rat(n, d) == Norm(<<n, 0, d>>)
Sqrt3Over(n, d) == Norm(<<0, n, d>>)       \* n*sqrt(3)/d
Add(x, y) == Norm(<<x[1] * y[3] + y[1] * x[3], x[2] * y[3] + y[2] * x[3], x[3] * y[3]>>)
Mul(x, y) == Norm(<<x[1] * y[1] + 3 * x[2] * y[2], x[1] * y[2] + x[2] * y[1], x[3] * y[3]>>)
Neg(x) == <<-x[1], -x[2], x[3]>>
RECURSIVE SumTo(_, _)
SumTo(seq, n) == IF n = 0 THEN Zero ELSE Add(SumTo(seq, n - 1), seq[n])
Sum(seq) == SumTo(seq, Len(seq))
IsNumber(x) == x[3] > 0 /\ Norm(x) = x

(* matrices = tuples of rows; built eagerly (a TLC function constructor would be re-evaluated at every application) *)
Tup(n, e(_)) == CASE n = 1 -> <<e(1)>> [] n = 2 -> <<e(1), e(2)>> [] n = 3 -> <<e(1), e(2), e(3)>>
                  [] n = 4 -> <<e(1), e(2), e(3), e(4)>> [] n = 5 -> <<e(1), e(2), e(3), e(4), e(5)>>
                  [] n = 6 -> <<e(1), e(2), e(3), e(4), e(5), e(6)>>
Mat(n, m, e(_, _)) == Tup(n, LAMBDA i : Tup(m, LAMBDA j : e(i, j)))
(* dot products accumulate without reducing (common denominator = lcm) and are reduced once at the end *)
AddL(x, y) == IF x[3] = y[3] THEN <<x[1] + y[1], x[2] + y[2], x[3]>>
              ELSE LET l == (x[3] \div GCD(x[3], y[3])) * y[3]  fx == l \div x[3]  fy == l \div y[3]
                   IN <<x[1] * fx + y[1] * fy, x[2] * fx + y[2] * fy, l>>
MulRaw(x, y) == <<x[1] * y[1] + 3 * x[2] * y[2], x[1] * y[2] + x[2] * y[1], x[3] * y[3]>>
RECURSIVE DotRaw(_, _, _, _, _)
DotRaw(A, B, i, j, n) == IF n = 0 THEN Zero ELSE AddL(DotRaw(A, B, i, j, n - 1), MulRaw(A[i][n], B[n][j]))
DotTo(A, B, i, j, n) == Norm(DotRaw(A, B, i, j, n))
MatMul(A, B) == Mat(Len(A), Len(B[1]), LAMBDA i, j : DotTo(A, B, i, j, Len(B)))
Transpose(A) == Mat(Len(A[1]), Len(A), LAMBDA i, j : A[j][i])
Ident(n) == Mat(n, n, LAMBDA i, j : IF i = j THEN One ELSE Zero)
NegM(A) == Mat(Len(A), Len(A[1]), LAMBDA i, j : Neg(A[i][j]))
IntM(A) == Mat(Len(A), Len(A[1]), LAMBDA i, j : Num(A[i][j]))
IsOrthogonal(A) == MatMul(A, Transpose(A)) = Ident(Len(A))
Det3(A) == Sum(<<Mul(A[1][1], Add(Mul(A[2][2], A[3][3]), Neg(Mul(A[2][3], A[3][2])))),
                 Mul(A[1][2], Add(Mul(A[2][3], A[3][1]), Neg(Mul(A[2][1], A[3][3])))),
                 Mul(A[1][3], Add(Mul(A[2][1], A[3][2]), Neg(Mul(A[2][2], A[3][1]))))>>)
RECURSIVE TraceTo(_, _, _)
TraceTo(A, B, n) == IF n = 0 THEN Zero ELSE Add(TraceTo(A, B, n - 1), DotTo(A, B, n, n, Len(B)))
Trace2(A, B) == TraceTo(A, B, Len(A))          \* tr(A B)
SubBlock(D, idx) == Mat(Len(idx), Len(idx), LAMBDA i, j : D[idx[i]][idx[j]])

-----------------------------------------------------------------------------
(* generators, Cartesian axes x = 1, y = 2, z = 3 *)
h == Rat(1, 2)
s3 == Sqrt3Over(1, 2)
C4z == IntM(<< <<0, -1, 0>>, <<1, 0, 0>>, <<0, 0, 1>> >>)
C3d == IntM(<< <<0, 0, 1>>, <<1, 0, 0>>, <<0, 1, 0>> >>)
C2x == IntM(<< <<1, 0, 0>>, <<0, -1, 0>>, <<0, 0, -1>> >>)
C2z == IntM(<< <<-1, 0, 0>>, <<0, -1, 0>>, <<0, 0, 1>> >>)
Inv == NegM(Ident(3))
S4z == NegM(C4z)
C6z == << <<h, Neg(s3), Zero>>, <<s3, h, Zero>>, <<Zero, Zero, One>> >>
C3z == MatMul(C6z, C6z)
Generators(name) ==
   CASE name = "Oh"  -> <<C4z, C3d, Inv>>
     [] name = "O"   -> <<C4z, C3d>>
     [] name = "Td"  -> <<S4z, C3d>>
     [] name = "D4h" -> <<C4z, C2x, Inv>>
     [] name = "D2h" -> <<C2z, C2x, Inv>>
     [] name = "D6h" -> <<C6z, C2x, Inv>>
     [] name = "D3d" -> <<C3z, C2x, Inv>>
     [] name = "C6v" -> <<C6z, NegM(C2x)>>
Order(name) == CASE name = "Oh" -> 48 [] name = "O" -> 24 [] name = "Td" -> 24 [] name = "D4h" -> 16 [] name = "D2h" -> 8
                 [] name = "D6h" -> 24 [] name = "D3d" -> 12 [] name = "C6v" -> 12

-----------------------------------------------------------------------------
(* representation matrices.  Variant = "code" is what orbitals.py computes; "transposed" (D = R^T, an anti-homomorphism)
   and "xyz" (p shell in the order px, py, pz) are plausible wrong variants used by the sensitivity runs *)
PermP(variant) == IF variant = "xyz" THEN <<1, 2, 3>> ELSE <<3, 1, 2>>      \* (pz, px, py)
DS(R) == << <<One>> >>
DP(R, variant) == LET A == IF variant = "transposed" THEN Transpose(R) ELSE R
                      p == PermP(variant)
                  IN Mat(3, 3, LAMBDA i, j : A[p[i]][p[j]])
(* d functions f_Q(r) = r^T Q r with the symmetric traceless Q below (all have tr Q^2 = 1/2);
   (g f_Q)(r) = f_Q(R^-1 r) = r^T (R Q R^T) r  hence  D_ij = 2 tr(Q_i R Q_j R^T) *)
SymE(a, b) == Mat(3, 3, LAMBDA i, j : IF (i = a /\ j = b) \/ (i = b /\ j = a) THEN h ELSE Zero)
Diag3(x, y, z) == << <<x, Zero, Zero>>, <<Zero, y, Zero>>, <<Zero, Zero, z>> >>
Qd == << Diag3(Sqrt3Over(-1, 6), Sqrt3Over(-1, 6), Sqrt3Over(1, 3)),     \* dz2 = (2zz - xx - yy)/(2 sqrt 3)
         SymE(1, 3), SymE(2, 3),                                          \* dxz, dyz
         Diag3(h, Neg(h), Zero),                                          \* dx2-y2 = (xx - yy)/2
         SymE(1, 2) >>                                                    \* dxy
DD(R, variant) == LET A == IF variant = "transposed" THEN Transpose(R) ELSE R
                      At == Transpose(A)
                      T == Tup(5, LAMBDA j : MatMul(MatMul(A, Qd[j]), At))
                  IN Mat(5, 5, LAMBDA i, j : Mul(Num(2), Trace2(Qd[i], T[j])))

(* hybrids whose orbitals are a subset of one basis shell: rot_orb returns that sub-block *)
SubShells == {"pz", "p2", "pxy", "t2g", "eg"}
SubIndex(shell) == CASE shell = "pz" -> <<1>> [] shell = "p2" -> <<1, 3>> [] shell = "pxy" -> <<2, 3>>
                     [] shell = "t2g" -> <<2, 3, 5>> [] shell = "eg" -> <<4, 1>>
SubParent(shell) == IF shell \in {"pz", "p2", "pxy"} THEN "p" ELSE "d"
DSub(shell, Dp, Dd) == SubBlock(IF SubParent(shell) = "p" THEN Dp ELSE Dd, SubIndex(shell))

(* the span of every shell accepted in projections: p directions used, part of the d shell used *)
AllShells == {"s", "p", "d", "f", "sp", "p2", "pxy", "sp2", "pz", "sp3", "sp3d2", "t2g", "eg"}
PAxes(shell) == CASE shell \in {"s", "d", "f", "t2g", "eg"} -> {}
                  [] shell \in {"p", "sp3", "sp3d2"} -> {1, 2, 3}
                  [] shell = "sp" -> {1} [] shell = "pz" -> {3} [] shell = "p2" -> {2, 3} [] shell \in {"pxy", "sp2"} -> {1, 2}
DPart(shell) == CASE shell \in {"sp3d2", "eg"} -> "eg" [] shell = "t2g" -> "t2g" [] OTHER -> "none"
PreservesAxes(R, S) == \A a \in S : \A b \in {1, 2, 3} \ S : R[b][a] = Zero
OffDiagZero(A) == \A i, j \in 1..3 : i # j => A[i][j] = Zero
DiagZero(A) == \A i \in 1..3 : A[i][i] = Zero
Conj(R, Q) == MatMul(MatMul(R, Q), Transpose(R))
PreservesEg(R) == OffDiagZero(Conj(R, Qd[1])) /\ OffDiagZero(Conj(R, Qd[4]))
PreservesT2g(R) == DiagZero(Conj(R, Qd[2])) /\ DiagZero(Conj(R, Qd[3])) /\ DiagZero(Conj(R, Qd[5]))
(* named domain predicate: the rotation maps the span of the shell onto itself (site symmetry of the projection) *)
Preserves(shell, R) == /\ PreservesAxes(R, PAxes(shell))
                       /\ (DPart(shell) = "eg" => PreservesEg(R))
                       /\ (DPart(shell) = "t2g" => PreservesT2g(R))
=============================================================================
