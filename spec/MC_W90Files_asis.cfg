\* generated by the harness (quick tier constants); the checks generate their configs themselves
\* must-fail sensitivity variant: the .mmn writer as it is (MmnWriterBkvec = FALSE, known finding) and the .eig/.amn defects
\* repaired in 4825d857 (WriterIndexing = "tuple", LoadtxtSqueeze = TRUE)
SPECIFICATION FSpec
CONSTANTS
  WriterIndexing = "tuple"
  MmnWriterBkvec = FALSE
  LoadtxtSqueeze = TRUE
  CLS = {"eig", "amn", "mmn", "bkvec", "chk", "spn", "uhu", "uiu", "shu", "siu"}
  NKS = {1, 2, 3}
  NBS = {1, 2, 3}
  NNBS = {2}
  PATS = {1}
INVARIANT TextRoundTrip
CHECK_DEADLOCK FALSE
