------------------------------ MODULE WyckProj ------------------------------
(* X04: Wyckoff positions, orbits and projection sets.

   Transcribed from the code (one operator per function, named like it):
     symmetry/unique_list.py     UniqueListMod1            -> KeptIdx / UniqMod  (first of items equal modulo 1 survives)
     symmetry/wyckoff_position.py get_orbit                -> GetOrbit, AppendedIdx
                                 orbit_and_rottrans        -> OrbitAndRotTrans
                                 WyckoffPositionNumeric    -> WyckNumeric
                                 split_into_orbits         -> SplitIntoOrbits
     symmetry/Dwann.py           orbit_from_positions      -> OrbitFromPositions
     symmetry/orbitals.py        orbitals_sets_dic / num_orbitals -> NumOrb / NumOrbEntry
     symmetry/projections.py     Projection (orbital string, do_not_split_projections, spinor, counting properties,
                                 wannier_centers_red, get_positions_and_orbitals, write_wannier90), ProjectionsSet
                                 (num_wann, write_wannier90), read_xzaxis / get_perpendicular_coplanar_vector
     symmetry/sawf.py            set_D_wann_from_projections / set_D_wann -> Blocks / TblDwann

   Space groups are sequences of operations [W, t, tr] as in SymOrbits (W integer matrix in lattice coordinates,
   t numerators over DEN); positions are numerator triples over DEN and may lie outside [0, DEN) (the code keeps given
   positions unreduced).  An orbital string "s;p" is the sequence of its shell tokens <<"s", "p">>; an *entry* of
   Projection.orbitals is again a sequence of tokens (one token after splitting, all of them with
   do_not_split_projections).  A Wannier function is labelled <<projection, point, entry, orbital, spin>>. *)
EXTENDS SymOrbits

-----------------------------------------------------------------------------
(* small helpers *)
RECURSIVE SeqSum(_)
SeqSum(s) == IF s = <<>> THEN 0 ELSE Head(s) + SeqSum(Tail(s))
RECURSIVE Flat(_)
Flat(ss) == IF ss = <<>> THEN <<>> ELSE Head(ss) \o Flat(Tail(ss))
(* TLC evaluates LET-bound values, operator arguments and [x \in S |-> e] lazily and again at every mention; With binds a
   value once, TLCEval tabulates a function *)
With(v, Body(_)) == CHOOSE r \in {Body(y) : y \in {v}} : TRUE
(* ascending sequence of a set of integers inside 1..N *)
SortedIn(S0, N) == With(TLCEval(S0), LAMBDA S : SelectSeq([n \in 1..N |-> n], LAMBDA n : n \in S))
SeqSet(s) == {s[k] : k \in 1..Len(s)}
PrefixOf(a, b) == Len(a) <= Len(b) /\ \A k \in 1..Len(a) : a[k] = b[k]

-----------------------------------------------------------------------------
(* orbits *)
Img(g, p) == VMod(Apply(g, p))
SameMod(p, q) == VMod(VSub(p, q)) = ZeroV
ImageSeq(ops, p) == TLCEval([n \in 1..Len(ops) |-> Img(ops[n], p)])
(* UniqueListMod1(iterator): an item is appended unless it equals (mod 1) an item already kept.
   Exact = TRUE is a wrong variant (items compared as given, not modulo lattice vectors): sensitivity self-test *)
SameItem(p, q, Exact) == IF Exact THEN p = q ELSE SameMod(p, q)
KeptIdxV(s, Exact) == {n \in 1..Len(s) : \A m \in 1..(n - 1) : ~SameItem(s[m], s[n], Exact)}
KeptIdx(s) == KeptIdxV(s, FALSE)
UniqModV(s0, Exact) == With(s0, LAMBDA s : With(SortedIn(KeptIdxV(s, Exact), Len(s)), LAMBDA K : TLCEval([m \in 1..Len(K) |-> s[K[m]]])))
UniqMod(s) == UniqModV(s, FALSE)
IdxIn(s, q) == LET S == {m \in 1..Len(s) : SameMod(s[m], q)} IN IF S = {} THEN 0 ELSE CHOOSE m \in S : \A k \in S : m <= k

GetOrbit(ops, p) == UniqMod(ImageSeq(ops, p))
AppendedIdx(ops, p) == With(ImageSeq(ops, p), LAMBDA s : SortedIn(KeptIdx(s), Len(s)))       \* UniqueListMod1.appended_indices (1-based here)
OrbitAndRotTrans(ops, p) ==
   With(AppendedIdx(ops, p), LAMBDA K :
   [orbit |-> TLCEval([m \in 1..Len(K) |-> Img(ops[K[m]], p)]), rot |-> TLCEval([m \in 1..Len(K) |-> ops[K[m]].W]),
    trans |-> TLCEval([m \in 1..Len(K) |-> ops[K[m]].t])])

(* WyckoffPositionNumeric(positions, spacegroup): the orbit of the first position with the operation that produced each
   point; the given positions come first (as given, unreduced), the other points of the orbit follow; a given position
   outside the orbit of the first one is refused (assert).
   ByRank = TRUE is a wrong variant (the k-th kept position takes the k-th operation of the orbit instead of the
   operation found by looking the position up): sensitivity self-test *)
WyckNumericV(ops, given, ByRank) ==
   With(OrbitAndRotTrans(ops, given[1]), LAMBDA o0 :
   With(given \o o0.orbit, LAMBDA cand :
   With(SortedIn(KeptIdx(cand), Len(cand)), LAMBDA K :
      IF \E j \in 1..Len(given) : IdxIn(o0.orbit, given[j]) = 0
      THEN [ok |-> FALSE, pos |-> <<>>, rot |-> <<>>, trans |-> <<>>]
      ELSE With(TLCEval([m \in 1..Len(K) |-> IF ByRank THEN m ELSE IdxIn(o0.orbit, cand[K[m]])]), LAMBDA ind :
           [ok |-> TRUE, pos |-> TLCEval([m \in 1..Len(K) |-> cand[K[m]]]), rot |-> TLCEval([m \in 1..Len(K) |-> o0.rot[ind[m]]]),
            trans |-> TLCEval([m \in 1..Len(K) |-> o0.trans[ind[m]]])]))))
WyckNumeric(ops, given) == WyckNumericV(ops, given, FALSE)

(* Dwann.orbit_from_positions: the given positions (as given), then for every operation the images (mod 1) of every given
   position; equal items (mod 1) once *)
OrbitFromPositionsV(ops, given, Exact) ==
   LET L == Len(given) IN
   UniqModV(TLCEval([k \in 1..(L * (Len(ops) + 1)) |->
                   IF k <= L THEN given[k] ELSE Img(ops[((k - L - 1) \div L) + 1], given[((k - L - 1) % L) + 1])]), Exact)
OrbitFromPositions(ops, given) == OrbitFromPositionsV(ops, given, FALSE)

(* split_into_orbits: indices (1-based here) of the positions, grouped by orbit; a group is opened by its first member *)
SameOrbit(ops, p, q) == \E n \in 1..Len(ops) : SameMod(Img(ops[n], p), q)
SplitIntoOrbits(ops, given) ==
   LET N == 1..Len(given) IN
   With(TLCEval([ip \in N |-> CHOOSE jp \in N : /\ SameOrbit(ops, given[jp], given[ip])
                                                /\ \A kp \in 1..(jp - 1) : ~SameOrbit(ops, given[kp], given[ip])]), LAMBDA leader :
   With(SortedIn({ip \in N : leader[ip] = ip}, Len(given)), LAMBDA L :
        TLCEval([m \in 1..Len(L) |-> SortedIn({ip \in N : leader[ip] = L[m]}, Len(given))])))

(* ---- property clauses for orbits (representation free: any order, any representative modulo lattice vectors) *)
OrbitSet(ops, p) == {Img(ops[n], p) : n \in 1..Len(ops)}
EachOnce(s) == \A j, k \in 1..Len(s) : j # k => ~SameMod(s[j], s[k])
IsOrbitOf(s, ops, p) == EachOnce(s) /\ {VMod(s[k]) : k \in 1..Len(s)} = OrbitSet(ops, p)
ClosedUnder(s, ops) == With({VMod(s[j]) : j \in 1..Len(s)}, LAMBDA T : \A n \in 1..Len(ops) : \A k \in 1..Len(s) : Img(ops[n], s[k]) \in T)
StabCount(ops, p) == Cardinality({n \in 1..Len(ops) : SameMod(Apply(ops[n], p), p)})
(* stabiliser x orbit size = group order (operations counted as listed: a grey group lists every spatial part twice) *)
OrbitStabiliser(ops, p, norbit) == norbit * StabCount(ops, p) = Len(ops)
(* the m-th listed operation (rot, trans) maps the generating point onto the m-th listed point *)
RotTransMap(pos, rot, trans, p) == /\ Len(rot) = Len(pos) /\ Len(trans) = Len(pos)
                                   /\ \A m \in 1..Len(pos) : SameMod(VAdd(MV(rot[m], p), trans[m]), pos[m])
(* the given positions come first, in the order given, exactly as given; repeated ones (mod 1) once *)
GivenFirst(out, given) == PrefixOf(UniqMod(given), out)
UnionOfOrbits(s, ops, given) == EachOnce(s) /\ {VMod(s[k]) : k \in 1..Len(s)} = UNION {OrbitSet(ops, given[j]) : j \in 1..Len(given)}
IsPartitionByOrbit(classes, ops, given) ==
   LET N == 1..Len(given)  C == {SeqSet(classes[m]) : m \in 1..Len(classes)} IN
   /\ UNION C = N /\ SeqSum([m \in 1..Len(classes) |-> Len(classes[m])]) = Len(given)          \* every index exactly once
   /\ \A j, k \in N : (\E c \in C : j \in c /\ k \in c) <=> SameOrbit(ops, given[j], given[k])
(* Dwann.atommap / Dwann.T on an orbit: operation n maps point a onto point amap[n][a] up to the lattice vector T[n][a];
   amap[n] is a permutation *)
AtomMapOK(orbit, ops, amap, T) ==
   \A n \in 1..Len(ops) :
      /\ {amap[n][a] : a \in 1..Len(orbit)} = 1..Len(orbit)
      /\ \A a \in 1..Len(orbit) : orbit[amap[n][a]] = VAdd(Apply(ops[n], orbit[a]), VScale(DEN, T[n][a]))

-----------------------------------------------------------------------------
(* orbital strings *)
Shells == {"s", "p", "d", "f", "sp", "p2", "pxy", "sp2", "pz", "sp3", "sp3d2", "t2g", "eg"}
NumOrb(sh) == CASE sh = "s" -> 1 [] sh = "p" -> 3 [] sh = "d" -> 5 [] sh = "f" -> 7 [] sh = "sp" -> 2 [] sh = "p2" -> 2
                [] sh = "pxy" -> 2 [] sh = "sp2" -> 3 [] sh = "pz" -> 1 [] sh = "sp3" -> 4 [] sh = "sp3d2" -> 6
                [] sh = "t2g" -> 3 [] sh = "eg" -> 2
(* Projection.orbitals: orbital.split(";") or [orbital] *)
SplitOrbital(tokens, nosplit) == IF nosplit THEN << tokens >> ELSE [k \in 1..Len(tokens) |-> << tokens[k] >>]
NumOrbEntry(e) == SeqSum([k \in 1..Len(e) |-> NumOrb(e[k])])          \* num_orbitals("s;p") = 4

(* a projection: [npts, entries, spinor]; DoubleSpin = FALSE is a wrong variant (spinor projections counted once) *)
NSpinorV(P, DoubleSpin) == IF P.spinor /\ DoubleSpin THEN 2 ELSE 1
NSpinor(P) == NSpinorV(P, TRUE)
PerSiteScalar(P) == SeqSum([k \in 1..Len(P.entries) |-> NumOrbEntry(P.entries[k])])
PerSiteV(P, DS) == PerSiteScalar(P) * NSpinorV(P, DS)
PerSite(P) == PerSiteV(P, TRUE)
NumWannScalar(P) == P.npts * PerSiteScalar(P)
NumWannV(P, DS) == P.npts * PerSiteV(P, DS)
NumWann(P) == NumWannV(P, TRUE)
SetNumWannV(S, DS) == SeqSum([i \in 1..Len(S) |-> NumWannV(S[i], DS)])
SetNumWann(S) == SetNumWannV(S, TRUE)
SetNumWannScalar(S) == SeqSum([i \in 1..Len(S) |-> NumWannScalar(S[i])])

(* tables: the sequence of Wannier functions.  Within one (point, entry) the orbitals run in the order of the shell
   table and the two spin components of an orbital are neighbours (interlaced) *)
LabelsEntry(i, a, e, P) == Flat([o \in 1..NumOrbEntry(P.entries[e]) |-> [s \in 1..NSpinor(P) |-> <<i, a, e, o, s>>]])
TblSiteMajor(i, P) == Flat([a \in 1..P.npts |-> Flat([e \in 1..Len(P.entries) |-> LabelsEntry(i, a, e, P)])])
TblEntryMajor(i, P) == Flat([e \in 1..Len(P.entries) |-> Flat([a \in 1..P.npts |-> LabelsEntry(i, a, e, P)])])
(* sawf.set_D_wann_from_projections: one block per (projection, entry); inside the block Dwann numbers the functions
   point by point *)
TblDwann(S) == Flat([i \in 1..Len(S) |-> TblEntryMajor(i, S[i])])
BlockSizes(S) == Flat([i \in 1..Len(S) |-> [e \in 1..Len(S[i].entries) |-> S[i].npts * NumOrbEntry(S[i].entries[e]) * NSpinor(S[i])]])
RECURSIVE Starts(_, _)
Starts(sizes, from) == IF sizes = <<>> THEN <<>> ELSE << <<from, from + Head(sizes)>> >> \o Starts(Tail(sizes), from + Head(sizes))
Blocks(S) == Starts(BlockSizes(S), 0)                                  \* SymmetrizerSAWF.D_wann_block_indices
(* Projection.get_positions_and_orbitals (AMN.from_bandstructure) and Projection.wannier_centers_red (initial centres,
   chk.wannier_centers_cart): point by point.  Order = "entry" is what would agree with the blocks *)
TblAmn(S, Order) == Flat([i \in 1..Len(S) |-> IF Order = "site" THEN TblSiteMajor(i, S[i]) ELSE TblEntryMajor(i, S[i])])
Site(l) == <<l[1], l[2]>>
SitesOf(tbl) == [k \in 1..Len(tbl) |-> Site(tbl[k])]
CentreSites(S, Order) == SitesOf(TblAmn(S, Order))
(* write_wannier90: one line per (entry, point), entries outer *)
W90Lines(S) == Flat([i \in 1..Len(S) |-> Flat([e \in 1..Len(S[i].entries) |-> [a \in 1..S[i].npts |-> <<i, a, e>>]])])
ExpandLines(S, lines) == Flat([k \in 1..Len(lines) |-> LabelsEntry(lines[k][1], lines[k][2], lines[k][3], S[lines[k][1]])])

(* ---- property clauses for tables *)
AllLabels(S) == UNION {UNION {{<<i, a, e, o, s>> : a \in 1..S[i].npts, o \in 1..NumOrbEntry(S[i].entries[e]), s \in 1..NSpinor(S[i])} :
                                 e \in 1..Len(S[i].entries)} : i \in 1..Len(S)}
EveryFunctionOnce(tbl, S) == Len(tbl) = Cardinality(SeqSet(tbl)) /\ SeqSet(tbl) = AllLabels(S)
(* the i-th Wannier function sits on the same site in every table: the centres / projections handed to the symmetriser
   are in the order of its blocks *)
SitesAgree(S, Order) == CentreSites(S, Order) = SitesOf(TblDwann(S))
(* condition under which point-major and entry-major numbering coincide *)
SingleEntryOrPoint(S) == \A i \in 1..Len(S) : Len(S[i].entries) = 1 \/ S[i].npts = 1

-----------------------------------------------------------------------------
(* local frames: read_xzaxis(xaxis, zaxis).  Vectors are integer triples, NoneV stands for None; directions are kept
   unnormalised (the code normalises), so the comparison with the code is "parallel, same sense, unit length" *)
NoneV == <<>>
Dot(u, v) == u[1] * v[1] + u[2] * v[2] + u[3] * v[3]
Cross(u, v) == <<u[2] * v[3] - u[3] * v[2], u[3] * v[1] - u[1] * v[3], u[1] * v[2] - u[2] * v[1]>>
Ex == <<1, 0, 0>>
Ey == <<0, 1, 0>>
Ez == <<0, 0, 1>>
Frame(x, y, z) == [ok |-> TRUE, why |-> "", X |-> x, Y |-> y, Z |-> z]
Refuse(why) == [ok |-> FALSE, why |-> why, X |-> ZeroV, Y |-> ZeroV, Z |-> ZeroV]
(* get_perpendicular_coplanar_vector(a, b): perpendicular to a, in the plane of a and b, (b.c) > 0; refuses collinear a, b *)
PerpCoplanar(a, b) == LET c == Cross(a, b) IN IF c = ZeroV THEN [ok |-> FALSE, v |-> ZeroV] ELSE [ok |-> TRUE, v |-> Cross(c, a)]
(* RightHanded = FALSE is a wrong variant (y = x cross z): sensitivity self-test *)
ReadXZV(x, z, RightHanded) ==
   LET yof(zz, xx) == IF RightHanded THEN Cross(zz, xx) ELSE Cross(xx, zz) IN
   IF (z # NoneV /\ z = ZeroV) \/ (x # NoneV /\ x = ZeroV) THEN Refuse("zero")
   ELSE IF x = NoneV /\ z = NoneV THEN Frame(Ex, Ey, Ez)
   ELSE IF x = NoneV THEN LET r == PerpCoplanar(z, Ex) IN IF ~r.ok THEN Refuse("collinear") ELSE Frame(r.v, yof(z, r.v), z)
   ELSE IF z = NoneV THEN LET r == PerpCoplanar(x, Ez) IN IF ~r.ok THEN Refuse("collinear") ELSE Frame(x, yof(r.v, x), r.v)
   ELSE IF Dot(x, z) # 0 THEN Refuse("nonorthogonal") ELSE Frame(x, yof(z, x), z)
ReadXZ(x, z) == ReadXZV(x, z, TRUE)
(* ---- property clauses for frames *)
SameSense(u, v) == Cross(u, v) = ZeroV /\ Dot(u, v) > 0
Orthogonal3(f) == Dot(f.X, f.Y) = 0 /\ Dot(f.Y, f.Z) = 0 /\ Dot(f.X, f.Z) = 0 /\ f.X # ZeroV /\ f.Y # ZeroV /\ f.Z # ZeroV
Handedness(f) == Dot(Cross(f.X, f.Y), f.Z)                 \* > 0: right-handed
FrameOK(f) == Orthogonal3(f) /\ Handedness(f) > 0
KeepsGiven(f, x, z) == (z # NoneV => SameSense(f.Z, z)) /\ (x # NoneV => SameSense(f.X, x))
(* the axis that is not given is the default axis made perpendicular: it stays in the plane of the given axis and the
   default axis, on the side of the default axis *)
TowardsDefault(f, x, z) == /\ (x = NoneV /\ z # NoneV) => (Dot(f.X, Ex) > 0 /\ Dot(f.X, Cross(z, Ex)) = 0)
                           /\ (z = NoneV /\ x # NoneV) => (Dot(f.Z, Ez) > 0 /\ Dot(f.Z, Cross(x, Ez)) = 0)
                           /\ (x = NoneV /\ z = NoneV) => (f.X = Ex /\ f.Y = Ey /\ f.Z = Ez)
MustRefuse(x, z) == \/ (z # NoneV /\ z = ZeroV) \/ (x # NoneV /\ x = ZeroV)
                    \/ (x # NoneV /\ z # NoneV /\ Dot(x, z) # 0)
                    \/ (x = NoneV /\ z # NoneV /\ Cross(z, Ex) = ZeroV)
                    \/ (z = NoneV /\ x # NoneV /\ Cross(x, Ez) = ZeroV)
(* named exclusion: the code accepts |cos(x, z)| < 1e-3 as orthogonal and |sin| > 1e-5 as not collinear; integer vectors
   with components in -SMALL..SMALL, SMALL <= 3, are never within these margins of the decision (|cos| >= 1/27 or 0) *)
SmallVec(v, SMALL) == v = NoneV \/ \A a \in 1..3 : v[a] \in (-SMALL)..SMALL
(* rotate_basis: the frame of the m-th point is the default frame rotated by the Cartesian matrix of the m-th listed
   operation (row vectors: basis0 @ R^T); on lattices where W is also the Cartesian matrix: *)
RotFrame(f, W) == [ok |-> TRUE, why |-> "", X |-> MV(W, f.X), Y |-> MV(W, f.Y), Z |-> MV(W, f.Z)]
=============================================================================
