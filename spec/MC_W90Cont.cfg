\* generated by the harness (quick tier constants); the checks generate their configs themselves
SPECIFICATION CSpec
CONSTANTS
  WriterIndexing = "nested"
  MmnWriterBkvec = TRUE
  LoadtxtSqueeze = FALSE
  CLS = {"eig"}
  NKS = {1}
  NBS = {1}
  NNBS = {2}
  PATS = {1}
  MAXLEN = 2
  POOL = {"eig", "eigB3", "eigK3", "eigP", "amn", "amnW2", "mmn", "mmnN4", "bkvec", "chk", "spn"}
  PRESETS = {0, 1, 2, 3, 4}
INVARIANT ContRoundTrip
INVARIANT ContConsistent
INVARIANT ChkFollowsAmn
INVARIANT WriteReadable
CHECK_DEADLOCK FALSE
