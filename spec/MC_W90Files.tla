---------------------------- MODULE MC_W90Files ----------------------------
(* one state per file object (class, sizes, selected k-points, data pattern): its text file and what the reader makes of
   it, its npz dictionary and what from_dict makes of it.  Data values are small integers (eighths) that depend on every
   index, so that any transposition or re-ordering of a layout changes the table. *)
EXTENDS W90Store
CONSTANTS CLS, NKS, NBS, NNBS, PATS
VARIABLES par, obj, bk, txt, rd, npz, back
fvars == <<par, obj, bk, txt, rd, npz, back>>

RVal(s, a, b) == (((s * 7) + (a * 31) + (b * 11)) % 41) - 20
CVal(s, a, b, c, d) == << (((s * 7) + (a * 31) + (b * 11) + (c * 5) + (d * 3)) % 23) - 11,
                          (((s * 5) + (a * 13) + (b * 17) + (c * 7) + d) % 19) - 9 >>
KSel(nk, part) == IF part THEN AllK(nk) \ {nk - 1} ELSE AllK(nk)
Eye8 == <<<<8, 0, 0>>, <<0, 8, 0>>, <<0, 0, 8>>>>
B6 == << <<1, 0, 0>>, <<-1, 0, 0>>, <<0, 1, 0>>, <<0, -1, 0>>, <<0, 0, 1>>, <<0, 0, -1>> >>
Must(r) == r.obj          \* the generator only builds objects the constructors accept

EigObj(nk, nb, ks, s) == Must(Construct("eig", [NK |-> nk], [data |-> [k \in ks |-> [b \in 1..nb |-> RVal(s, k, b)]]]))
(* the optional tags of an .amn made from projections (AMN.from_bandstructure): positions, basis and spreads in eighths,
   orbital names, radial nodes, spinor flag *)
OrbName(w) == IF w % 2 = 1 THEN "s" ELSE "pz"
AmnTags(nw, s) == [positions |-> [w \in 1..nw |-> <<w, 2 * w, s>>], orbitals |-> [w \in 1..nw |-> OrbName(w)],
                   radial_nodes_list |-> [w \in 1..nw |-> w % 2], basis_list |-> [w \in 1..nw |-> Eye8],
                   spread_list |-> [w \in 1..nw |-> 8 + w], spinor |-> FALSE]
AmnObjT(nk, nb, nw, ks, s, tags) ==
   Must(Construct("amn", [NK |-> nk] @@ (IF tags THEN AmnTags(nw, s) ELSE << >>),
                  [data |-> [k \in ks |-> [b \in 1..nb |-> [w \in 1..nw |-> CVal(s, k, b, w, 0)]]]]))
AmnObj(nk, nb, nw, ks, s) == AmnObjT(nk, nb, nw, ks, s, FALSE)
(* a (nk, 1, 1) mesh with the first nnb of the six axis neighbours (find_G_and_neighbours) *)
BkObj(nk, nnb, ks) ==
   LET nbr(k, j) == (k + B6[j][1]) % nk IN
   Must(Construct("bkvec",
        [bk_grid |-> SubSeq(B6, 1, nnb), wk |-> [j \in 1..nnb |-> 2 + j], kpt_grid |-> [i \in 1..nk |-> <<i - 1, 0, 0>>],
         kptirr |-> SetToSortSeq(ks, <), mp_grid |-> <<nk, 1, 1>>, recip_lattice |-> Eye8],
        [neighbours |-> [k \in ks |-> [j \in 1..nnb |-> nbr(k, j)]],
         G |-> [k \in ks |-> [j \in 1..nnb |-> <<(k + B6[j][1] - nbr(k, j)) \div nk, B6[j][2], B6[j][3]>>]]]))
Rot(nnb) == [j \in 1..nnb |-> j % nnb]            \* a non-trivial bk_reorder: 1, 2, .., nnb-1, 0
MmnObj(nk, nb, nnb, ks, s, reord) ==
   Must(Construct("mmn", [NK |-> nk],
        [data |-> [k \in ks |-> [j \in 1..nnb |-> [a \in 1..nb |-> [b \in 1..nb |-> CVal(s, k, j, a, b)]]]]]
        @@ (IF reord THEN [bk_reorder |-> [k \in ks |-> Rot(nnb)]] ELSE << >>)))
ChkObj(nk, nb, nw, ks, s, full) ==
   Must(Construct("chk",
        [mp_grid |-> <<nk, 1, 1>>, real_lattice |-> Eye8, num_wann |-> nw, num_bands |-> nb, num_kpts |-> nk,
         kpt_red |-> [i \in 1..nk |-> <<i - 1, 0, 0>>]]
        @@ (IF full THEN [wannier_centers_cart |-> [w \in 1..nw |-> <<w, 2 * w, s>>], wannier_spreads |-> [w \in 1..nw |-> 8 + w],
                          selected_bands |-> [b \in 1..nb |-> b]] ELSE << >>),
        IF full THEN [v_matrix |-> [k \in ks |-> [b \in 1..nb |-> [w \in 1..nw |-> CVal(s, k, b, w, 1)]]]] ELSE << >>))
SpnObj(nk, nb, ks, s) ==
   Must(Construct("spn", [NK |-> nk], [data |-> [k \in ks |-> [a \in 1..nb |-> [b \in 1..nb |-> [c \in 1..3 |-> CVal(s, k, a, b, c)]]]]]))
UxuObj(cls, nk, nb, nnb, ks, s) ==
   Must(Construct(cls, [NK |-> nk], [data |-> [k \in ks |-> [i \in 1..nnb |-> [j \in 1..nnb |-> [a \in 1..nb |-> [b \in 1..nb |->
                                               CVal(s + i, k, j, a, b)]]]]]]))
SxuObj(cls, nk, nb, nnb, ks, s) ==
   Must(Construct(cls, [NK |-> nk], [data |-> [k \in ks |-> [j \in 1..nnb |-> [a \in 1..nb |-> [b \in 1..nb |-> [c \in 1..3 |->
                                               CVal(s + c, k, j, a, b)]]]]]]))
ObjOf(cls, nk, nb, nw, nnb, ks, s, flag) ==
   CASE cls = "eig" -> EigObj(nk, nb, ks, s)
     [] cls = "amn" -> AmnObjT(nk, nb, nw, ks, s, flag)
     [] cls = "mmn" -> MmnObj(nk, nb, nnb, ks, s, flag)
     [] cls = "bkvec" -> BkObj(nk, nnb, ks)
     [] cls = "chk" -> ChkObj(nk, nb, nw, ks, s, flag)
     [] cls = "spn" -> SpnObj(nk, nb, ks, s)
     [] cls \in {"uhu", "uiu"} -> UxuObj(cls, nk, nb, nnb, ks, s)
     [] cls \in {"shu", "siu"} -> SxuObj(cls, nk, nb, nnb, ks, s)
UsesNW(cls) == cls \in {"amn", "chk"}
UsesNNB(cls) == cls \in {"mmn", "bkvec", "uhu", "uiu", "shu", "siu"}
UsesFlag(cls) == cls \in {"mmn", "chk", "amn"}
FParams == {<<cls, nk, nb, nw, nnb, part, s, flag>> \in CLS \X NKS \X NBS \X NBS \X NNBS \X BOOLEAN \X PATS \X BOOLEAN :
              /\ nw <= nb /\ (~UsesNW(cls) => nw = 1)
              /\ (~UsesNNB(cls) => nnb = Min(NNBS)) /\ (cls \in {"uhu", "uiu"} => nnb <= 3)
              /\ (part => nk >= 2) /\ (~UsesFlag(cls) => ~flag)
              /\ (cls \notin {"eig", "amn", "mmn", "bkvec"} => s = Min(PATS))}
WriteOf(x, b) == CASE x.cls = "eig" -> WriteEig(x) [] x.cls = "amn" -> WriteAmn(x) [] x.cls = "mmn" -> WriteMmn(x, b)
                   [] OTHER -> Fail("no text writer")
ReadOf(cls, f, b) == CASE cls = "eig" -> ReadEig(f) [] cls = "amn" -> ReadAmn(f) [] cls = "mmn" -> ReadMmn(f, b)
FInit == \E p \in FParams :
   /\ par = p
   /\ obj = ObjOf(p[1], p[2], p[3], p[4], p[5], KSel(p[2], p[6]), p[7], p[8])
   /\ bk = BkObj(p[2], p[5], AllK(p[2]))
   /\ txt = WriteOf(obj, bk)
   /\ rd = IF txt.err = "" THEN ReadOf(obj.cls, txt.lines, bk) ELSE Fail("nothing to read")
   /\ npz = AsDict(obj)
   /\ back = FromDict(obj.cls, npz)
FNext == UNCHANGED fvars
FSpec == FInit /\ [][FNext]_fvars
(* C19 *)
TextRoundTrip == (obj.cls \in Writable /\ FullK(obj)) =>
                    /\ txt.err = "" /\ rd.err = ""
                    /\ rd.obj.dic["data"] = obj.dic["data"] /\ rd.obj.dim = obj.dim /\ rd.obj.attr["NK"] = obj.attr["NK"]
                    /\ (obj.cls = "mmn" => \A k \in AllK(obj.dim.NK) : rd.obj.dic["bk_reorder"][k] = IdentityReorder(obj.dim.NNB))
WriterNeedsAllK == (obj.cls \in Writable /\ ~FullK(obj)) => txt.err = "KeyError"
NpzRoundTrip == back.err = "" /\ back.obj = obj
NpzKeys == NoKeyClash(obj) /\ Cardinality(DOMAIN npz) >= 2
=============================================================================
