------------------------------ MODULE RunGrid ------------------------------
(***************************************************************************)
(* The run() state machine of wannierberri/run_grid.py together with the   *)
(* K-point machinery of grid/Kpoint.py and grid/grid.py that it drives:    *)
(* initial (irreducible) K list, process() in serial and through ray,      *)
(* the running integral result_all, factor files, K_list.pickle, per-K     *)
(* result storage, adaptive refinement (divide + exclude_equiv_points),    *)
(* stopping and restart=True.                                              *)
(*                                                                         *)
(* One action per critical section of the code; the action names are the   *)
(* names of the trace events emitted by the hook in run_grid.py.           *)
(*                                                                         *)
(* Geometry: a D-dimensional (D = 1 or 2) periodic K grid with N points    *)
(* per direction, embedded in the 3-D code with inert other directions;    *)
(* coordinates are integers modulo U (so every K-point that can appear up  *)
(* to refinement level LMAX is an integer), weights are integers in units  *)
(* of 1/WTOT.  The per-K result is abstracted to a one-hot vector, so that *)
(* the running integral is its vector of coefficients `coef`.              *)
(***************************************************************************)
EXTENDS Integers, Sequences, FiniteSets, TLC, SequencesExt, FiniteSetsExt, Functions

CONSTANTS D,            \* 1 or 2 periodic directions
          N,            \* NKdiv per periodic direction
          NDIV,         \* adpt_mesh per periodic direction
          LMAX,         \* largest refinement level representable (bound of the integer embedding)
          Group,        \* set of 2x2 integer matrices <<a,b,c,d>> acting on reduced K coordinates
          NSTEP,        \* nstep_print of process() = max(1, #cpus, ...)
          Accumulate,   \* TRUE: process() accumulates the mask of collected remotes (repaired code)
          SortedListing,\* TRUE: read_factors(iter<0) does not depend on the order of glob (repaired code)
          CellSymmetric,\* TRUE: the group maps refinement cells onto refinement cells (square lattices); FALSE: hexagonal groups
          WaitFirstN    \* TRUE: ray.wait returns the first num_returns ready refs in input order; FALSE: any subset of that size

RECURSIVE Pow(_, _)
Pow(b, e) == IF e = 0 THEN 1 ELSE b * Pow(b, e - 1)

U        == 2 * N * Pow(NDIV, LMAX)          \* coordinate units per direction
Width(l) == U \div (N * Pow(NDIV, l))        \* cell width at level l ( = 2*NDIV^(LMAX-l) )
W0       == Pow(NDIV, D * LMAX)              \* weight of one point of the initial grid
WTOT     == Pow(N, D) * W0                   \* the weight "one"
Ny       == IF D = 2 THEN N ELSE 1
NDY      == IF D = 2 THEN NDIV ELSE 1

Apply(g, c) == << (g[1] * c[1] + g[2] * c[2]) % U, (g[3] * c[1] + g[4] * c[2]) % U >>
Star(c)     == { Apply(g, c) : g \in Group }
Equiv(a, b) == a.lev = b.lev /\ b.c \in Star(a.c)

KP(c, l, f) == [c |-> c, lev |-> l, fac |-> f, ev |-> FALSE, st |-> "none", sp |-> 0]   \* sp: index in the name of the result file _Kp-<sp-1>.pickle (0: not set)

-----------------------------------------------------------------------------
(* sequences of integers *)
RECURSIVE SumSeq(_)
SumSeq(s) == IF s = <<>> THEN 0 ELSE Head(s) + SumSeq(Tail(s))
Facs(kl)  == [i \in 1..Len(kl) |-> kl[i].fac]
Pad(f, n) == [i \in 1..n |-> IF i <= Len(f) THEN f[i] ELSE 0]
Zeros(n)  == [i \in 1..n |-> 0]

-----------------------------------------------------------------------------
(* Grid.get_K_list: full grid in x-major order; with symmetry the point visited first in the (y outer, x inner)
   absorption loop keeps the weight of its whole star *)
GridC(x, y)  == << x * Width(0), IF D = 2 THEN y * Width(0) ELSE 0 >>
GridIdx(c)   == << c[1] \div Width(0), c[2] \div Width(0) >>
VisitKey(ix) == ix[2] * N + ix[1]
Retained(x, y) == \A c \in Star(GridC(x, y)) : VisitKey(<<x, y>>) <= VisitKey(GridIdx(c))
InitList(useSym) ==
   LET all == [i \in 1..(N * Ny) |-> <<(i - 1) \div Ny, (i - 1) % Ny>>]
       kept == IF useSym THEN SelectSeq(all, LAMBDA p : Retained(p[1], p[2])) ELSE all
   IN [i \in 1..Len(kept) |->
          LET c == GridC(kept[i][1], kept[i][2])
          IN KP(c, 0, IF useSym THEN Cardinality(Star(c)) * W0 ELSE W0)]

(* exclude_equiv_points(K_list, new_points = Len - nOld): pairs of old points are never compared; otherwise the
   equivalent point with the lowest index absorbs the weight and the later one is deleted *)
RECURSIVE Excl(_, _, _)
Excl(kl, nOld, j) ==
  IF j > Len(kl) THEN kl ELSE
  LET cand == {i \in 1..(j - 1) : Equiv(kl[i], kl[j])} IN
  IF cand = {} \/ j <= nOld THEN Excl(kl, nOld, j + 1)
  ELSE LET i   == Min(cand)
           kl2 == [kl EXCEPT ![i].fac = @ + kl[j].fac]
       IN Excl(SubSeq(kl2, 1, j - 1) \o SubSeq(kl2, j + 1, Len(kl2)), nOld, j)

(* KpointBZparallel.divide: children in x-outer, y-inner order, then exclude_equiv_points among them *)
ChildrenRaw(k) ==
   LET w  == Width(k.lev)
       s  == w \div NDIV
       sh == (s - w) \div 2          \* adpt_shift = (-dK + dK/ndiv)/2  (negative)
       f  == k.fac \div Pow(NDIV, D)
   IN [i \in 1..(NDIV * NDY) |->
         LET x == (i - 1) \div NDY
             y == (i - 1) % NDY
         IN KP(<< (k.c[1] + sh + s * x + U) % U,
                  IF D = 2 THEN (k.c[2] + sh + s * y + U) % U ELSE k.c[2] >>, k.lev + 1, f)]
Children(k, useSym) == IF useSym THEN Excl(ChildrenRaw(k), 0, 1) ELSE ChildrenRaw(k)

RECURSIVE DivideAll(_, _, _, _)
DivideAll(kl, ord, i, useSym) ==
   IF i > Len(ord) THEN kl
   ELSE DivideAll([kl EXCEPT ![ord[i]].fac = 0] \o Children(kl[ord[i]], useSym), ord, i + 1, useSym)

RefineList(kl, ord, useSym) ==
   LET kl1 == DivideAll(kl, ord, 1, useSym)
   IN IF useSym THEN Excl(kl1, Len(kl), Len(kl) + 1) ELSE kl1

(* Comparison of K lists up to what the properties leave free: the order of the points and, with symmetry, which member
   of an orbit represents it.  CanonCell picks the member of the star with the smallest key; CanonBag is the bag of
   <<canonical cell, level, weight, evaluated>> of a list. *)
CellKey(c)            == c[1] * U + c[2]
CanonCell(c, useSym)  == IF useSym THEN CHOOSE x \in Star(c) : \A y \in Star(c) : CellKey(x) <= CellKey(y) ELSE c
CanonSeq(k, useSym)   == [i \in 1..Len(k) |-> <<CanonCell(k[i].c, useSym), k[i].lev, k[i].fac, k[i].ev>>]
CanonBag(k, useSym)   == LET s == CanonSeq(k, useSym)
                         IN [x \in {s[i] : i \in 1..Len(s)} |-> Cardinality({i \in 1..Len(s) : s[i] = x})]

-----------------------------------------------------------------------------
VARIABLES
  (* the directory file_Klist_path and the result files *)
  ffiles,   \* factors_iter-XXXXXXXX.npy : function  iteration -> sequence of weights
  pick,     \* K_list.pickle : sequence of K-point records (append only while a directory lives)
  saved,    \* result files  <fout>_iter-XXXX : function  global iteration -> set of <<cell, level, coefficient>>
  (* locals of run() *)
  pc, mode, kl, coef, resNone, facs, it, start, nit, nkprev, rsum, rsNone, returned,
  (* locals of process(), parallel branch *)
  sel, done, old, ncalc, ready, toCollect, collected,
  (* observation: last action and its arguments (hidden by VIEW in exhaustive runs) *)
  act

disk   == <<ffiles, pick, saved>>
locals == <<pc, mode, kl, coef, resNone, facs, it, start, nit, nkprev, rsum, rsNone, returned>>
plocal == <<sel, done, old, ncalc, ready, toCollect, collected>>
vars   == <<ffiles, pick, saved, pc, mode, kl, coef, resNone, facs, it, start, nit, nkprev, rsum, rsNone, returned,
            sel, done, old, ncalc, ready, toCollect, collected, act>>
view   == <<ffiles, pick, saved, pc, mode, kl, coef, resNone, facs, it, start, nit, nkprev, rsum, rsNone, returned,
            sel, done, old, ncalc, ready, toCollect, collected>>

Modes == [par : BOOLEAN, dump : BOOLEAN, allow : BOOLEAN, sym : BOOLEAN, restart : BOOLEAN]

CoefSet(k, c) == { <<k[i].c, k[i].lev, c[i]>> : i \in {j \in 1..Len(k) : j <= Len(c) /\ c[j] # 0} }
Unevaluated(k) == SelectSeq([i \in 1..Len(k) |-> i], LAMBDA i : ~k[i].ev)
StoreOf(m, n_it) == IF m.dump THEN "disk" ELSE IF ~(m.allow \/ n_it > 0) THEN "cleared" ELSE "mem"

Init ==
  /\ ffiles = <<>> /\ pick = <<>> /\ saved = <<>>
  /\ pc = "idle" /\ mode = [par |-> FALSE, dump |-> FALSE, allow |-> FALSE, sym |-> FALSE, restart |-> FALSE]
  /\ kl = <<>> /\ coef = <<>> /\ resNone = TRUE /\ facs = <<>> /\ it = 0 /\ start = 0 /\ nit = 0 /\ nkprev = 0
  /\ rsum = <<>> /\ rsNone = TRUE /\ returned = {}
  /\ sel = <<>> /\ done = {} /\ old = {} /\ ncalc = 0 /\ ready = {} /\ toCollect = {} /\ collected = <<>>
  /\ act = [name |-> "Init"]

ResetP == sel' = <<>> /\ done' = {} /\ old' = {} /\ ncalc' = 0 /\ ready' = {} /\ toCollect' = {} /\ collected' = <<>>

(* run(restart=False): dump_results implies allow_restart; the directory is removed and re-created *)
(* StartFreshL: the same with the initial K list given (trace validation adopts the list of the implementation after
   comparing it with InitList up to order and choice of representatives) *)
(* aarg: the value of the argument allow_restart; the effective setting m.allow is  aarg or dump_results *)
StartFreshL(m, n_it, k0, aarg) ==
  /\ pc = "idle" /\ ~m.restart /\ m.allow = (aarg \/ m.dump)
  /\ kl' = k0 /\ facs' = Facs(k0)
  /\ IF m.allow THEN ffiles' = (0 :> Facs(k0)) /\ pick' = <<>> ELSE UNCHANGED <<ffiles, pick>>
  /\ mode' = m /\ nit' = n_it /\ start' = 0 /\ nkprev' = 0 /\ it' = 0
  /\ coef' = <<>> /\ resNone' = TRUE /\ rsum' = <<>> /\ rsNone' = TRUE
  /\ pc' = "process" /\ ResetP
  /\ act' = [name |-> "StartFresh", mode |-> m, nit |-> n_it, allowarg |-> aarg]
  /\ UNCHANGED <<saved, returned>>
StartFresh(m, n_it) == \E aarg \in BOOLEAN : StartFreshL(m, n_it, InitList(m.sym), aarg)

(* read_factors(file_Klist_path, iter): the iteration whose factors file is used.
   iter >= 0: that file (it must exist).  iter < 0: counted from the latest iteration on disk (-1 = latest), clipped
   at 0, and if that file is missing the closest previous one.  Repaired code: "latest" is the largest iteration on
   disk.  Original code: "latest" is the last entry of the (arbitrarily ordered) directory listing. *)
LastIter(listing) == IF SortedListing THEN Max(DOMAIN ffiles) ELSE listing[Len(listing)]
ReadIter(listing, ri) ==
   IF ri >= 0 THEN ri
   ELSE LET x == LastIter(listing) + ri + 1
        IN IF x < 0 THEN 0
           ELSE IF x \in DOMAIN ffiles THEN x
           ELSE Max({i \in DOMAIN ffiles : i <= x})

(* run(restart=True, restart_iteration=ri): all pickled K-points, weights of iteration ReadIter (zero for later points) *)
StartRestart(m, n_it, listing, ri) ==
  /\ pc = "idle" /\ m.restart /\ (m.dump => m.allow)
  /\ pick # <<>> /\ DOMAIN ffiles # {}
  /\ Len(listing) = Cardinality(DOMAIN ffiles) /\ {listing[i] : i \in 1..Len(listing)} = DOMAIN ffiles
  /\ (ri >= 0 => ri \in DOMAIN ffiles)
  /\ (ri < 0 => (LastIter(listing) + ri + 1 < 0 \/ \E i \in DOMAIN ffiles : i <= LastIter(listing) + ri + 1))
  /\ LET s  == ReadIter(listing, ri)
         f  == Pad(ffiles[s], Len(pick))
         k0 == [i \in 1..Len(pick) |-> [pick[i] EXCEPT !.fac = f[i]]]
     IN /\ s \in DOMAIN ffiles /\ Len(ffiles[s]) <= Len(pick)
        /\ kl' = k0 /\ facs' = f /\ start' = s
        /\ coef' = f /\ resNone' = FALSE              \* sum(Kp.get_result_factor() for Kp in K_list)
        /\ nkprev' = Len(k0)
  /\ mode' = m /\ nit' = n_it /\ it' = 0 /\ rsum' = <<>> /\ rsNone' = TRUE
  /\ pc' = "process" /\ ResetP
  /\ act' = [name |-> "StartRestart", mode |-> m, nit |-> n_it, listing |-> listing, ri |-> ri]
  /\ UNCHANGED <<ffiles, pick, saved, returned>>

-----------------------------------------------------------------------------
(* process() *)
SetResult(k, i) == [k EXCEPT ![i].ev = TRUE, ![i].st = StoreOf(mode, nit)]

BeginProcess ==
  /\ pc = "process"
  /\ kl' = [i \in 1..Len(kl) |-> IF i > nkprev THEN [kl[i] EXCEPT !.sp = i] ELSE kl[i]]   \* set_storage_path for the new points
  /\ LET s == Unevaluated(kl) IN
       /\ sel' = s /\ rsum' = Zeros(Len(kl))
       /\ IF s = <<>> THEN rsNone' = TRUE /\ pc' = "pickle"
          ELSE rsNone' = FALSE /\ pc' = (IF mode.par THEN "wait" ELSE "serial")
       /\ collected' = [i \in 1..Len(s) |-> 0]
  /\ done' = {} /\ old' = {} /\ ncalc' = 0 /\ ready' = {} /\ toCollect' = {}
  /\ act' = [name |-> "BeginProcess"]
  /\ UNCHANGED <<disk, mode, coef, resNone, facs, it, start, nit, nkprev, returned>>

NextSerial == CHOOSE t \in 1..Len(sel) : collected[t] = 0 /\ \A u \in 1..(t - 1) : collected[u] > 0
EvalSerial ==
  /\ pc = "serial" /\ \E t \in 1..Len(sel) : collected[t] = 0
  /\ LET t == NextSerial
         i == sel[t]
     IN /\ kl' = SetResult(kl, i)
        /\ rsum' = [rsum EXCEPT ![i] = @ + kl[i].fac]
        /\ collected' = [collected EXCEPT ![t] = @ + 1]
        /\ act' = [name |-> "Eval", k |-> i]
  /\ UNCHANGED <<disk, pc, mode, coef, resNone, facs, it, start, nit, nkprev, rsNone, returned, sel, done, old, ncalc, ready, toCollect>>
EndSerial ==
  /\ pc = "serial" /\ \A t \in 1..Len(sel) : collected[t] > 0
  /\ pc' = "pickle" /\ act' = [name |-> "EndProcess"]
  /\ UNCHANGED <<disk, mode, kl, coef, resNone, facs, it, start, nit, nkprev, rsum, rsNone, returned, plocal>>

(* environment: a remote task finishes *)
Complete(t) ==
  /\ pc \in {"wait", "collect"} /\ t \in 1..Len(sel) /\ t \notin done
  /\ done' = done \cup {t}
  /\ act' = [name |-> "Complete", t |-> t]
  /\ UNCHANGED <<disk, locals, sel, old, ncalc, ready, toCollect, collected>>

NumReturns == IF ncalc + NSTEP < Len(sel) THEN ncalc + NSTEP ELSE Len(sel)
RECURSIVE FirstN(_, _, _)
FirstN(S, n, i) == IF n = 0 \/ i > Len(sel) THEN {}
                   ELSE IF i \in S THEN {i} \cup FirstN(S, n - 1, i + 1) ELSE FirstN(S, n, i + 1)
(* ray.wait(remotes, num_returns, timeout=60): returns num_returns ready refs as soon as that many are ready, or on
   timeout whatever is ready *)
WaitReturn(R) ==
  /\ pc = "wait" /\ R \subseteq done
  /\ \/ Cardinality(done) >= NumReturns /\ Cardinality(R) = NumReturns /\ (WaitFirstN => R = FirstN(done, NumReturns, 1))
     \/ Cardinality(done) < NumReturns /\ R = done
  /\ ready' = R /\ ncalc' = Cardinality(R) /\ toCollect' = R \ old /\ pc' = "collect"
  /\ act' = [name |-> "Wait", ready |-> R]
  /\ UNCHANGED <<disk, mode, kl, coef, resNone, facs, it, start, nit, nkprev, rsum, rsNone, returned, sel, done, old, collected>>
Collect ==
  /\ pc = "collect" /\ toCollect # {}
  /\ LET t == Min(toCollect)
         i == sel[t]
     IN /\ kl' = SetResult(kl, i)
        /\ rsum' = [rsum EXCEPT ![i] = @ + kl[i].fac]
        /\ collected' = [collected EXCEPT ![t] = @ + 1]
        /\ toCollect' = toCollect \ {t}
        /\ act' = [name |-> "Collect", k |-> i]
  /\ UNCHANGED <<disk, pc, mode, coef, resNone, facs, it, start, nit, nkprev, rsNone, returned, sel, done, old, ncalc, ready>>
EndCollect ==
  /\ pc = "collect" /\ toCollect = {}
  /\ IF ncalc >= Len(sel)
     THEN pc' = "pickle" /\ UNCHANGED old /\ act' = [name |-> "EndProcess"]
     ELSE pc' = "wait" /\ old' = (IF Accumulate THEN old \cup ready ELSE ready) /\ act' = [name |-> "EndCollect"]
  /\ UNCHANGED <<disk, mode, kl, coef, resNone, facs, it, start, nit, nkprev, rsum, rsNone, returned, sel, done, ncalc, ready, toCollect, collected>>

-----------------------------------------------------------------------------
(* after process(): append the new K-points to the pickle (allow_restart) *)
AppendPickle ==
  /\ pc = "pickle"
  /\ IF mode.allow THEN pick' = pick \o SubSeq(kl, nkprev + 1, Len(kl)) ELSE UNCHANGED pick
  /\ pc' = "update" /\ act' = [name |-> "AppendPickle"]
  /\ UNCHANGED <<ffiles, saved, mode, kl, coef, resNone, facs, it, start, nit, nkprev, rsum, rsNone, returned, plocal>>

(* the running integral.  get_result() of a cleared K-point raises *)
Readable(k) == k.st \in {"mem", "disk"}
UpdateIntegral ==
  /\ pc = "update"
  /\ IF resNone
     THEN /\ coef' = (IF rsNone THEN coef ELSE rsum) /\ resNone' = rsNone
          /\ UNCHANGED <<facs, ffiles>> /\ pc' = "save"
     ELSE LET fo   == facs
              fn   == Facs(kl)
              diff == [i \in 1..Len(kl) |-> IF i <= Len(fo) THEN fn[i] - fo[i] ELSE 0]
              bad  == {i \in 1..Len(kl) : diff[i] # 0 /\ ~Readable(kl[i])}
          IN IF Len(fo) > Len(kl) \/ bad # {}
             THEN pc' = "error" /\ UNCHANGED <<coef, resNone, facs, ffiles>>
             ELSE /\ coef' = [i \in 1..Len(kl) |-> (IF i <= Len(coef) THEN coef[i] ELSE 0)
                                                   + (IF rsNone THEN 0 ELSE rsum[i]) + diff[i]]
                  /\ facs' = fn /\ resNone' = FALSE
                  /\ IF mode.allow THEN ffiles' = (it + start :> fn) @@ ffiles ELSE UNCHANGED ffiles
                  /\ pc' = "save"
  /\ act' = [name |-> "UpdateIntegral"]
  /\ UNCHANGED <<pick, saved, mode, kl, it, start, nit, nkprev, rsum, rsNone, returned, plocal>>

(* SaveDataG(skip): run() does not write result files in iteration 0 of a restarted run (skip = mode.restart /\ it = 0) *)
SaveDataG(skip) ==
  /\ pc = "save"
  /\ IF skip THEN UNCHANGED saved
     ELSE saved' = (it + start :> CoefSet(kl, coef)) @@ saved
  /\ pc' = IF it >= nit THEN "return" ELSE "refine"
  /\ act' = [name |-> "SaveData", iter |-> it + start]
  /\ UNCHANGED <<ffiles, pick, mode, kl, coef, resNone, facs, it, start, nit, nkprev, rsum, rsNone, returned, plocal>>
SaveData == SaveDataG(mode.restart /\ it = 0)

(* select_points and the division loop; ord is the order in which run() iterates over the selected indices *)
IsOrder(ord) == /\ Len(ord) >= 1
                /\ \A i \in 1..Len(ord) : ord[i] \in 1..Len(kl) /\ kl[ord[i]].ev /\ kl[ord[i]].lev < LMAX
                /\ \A i, j \in 1..Len(ord) : i # j => ord[i] # ord[j]
(* RefineL: the same with the refined list given (trace validation, see StartFreshL) *)
RefineL(ord, newkl) ==
  /\ pc = "refine"
  /\ nkprev' = Len(kl)
  /\ kl' = newkl
  /\ it' = it + 1 /\ pc' = "process"
  /\ act' = [name |-> "Refine", ord |-> ord, cells |-> [i \in 1..Len(ord) |-> <<kl[ord[i]].c, kl[ord[i]].lev>>]]
  /\ UNCHANGED <<disk, mode, coef, resNone, facs, start, nit, rsum, rsNone, returned, plocal>>
Refine(ord) == IsOrder(ord) /\ RefineL(ord, RefineList(kl, ord, mode.sym))

Return ==
  /\ pc = "return"
  /\ returned' = CoefSet(kl, coef) /\ pc' = "idle"
  /\ act' = [name |-> "Return"]
  /\ UNCHANGED <<disk, mode, kl, coef, resNone, facs, it, start, nit, nkprev, rsum, rsNone, plocal>>

-----------------------------------------------------------------------------
Step == \/ BeginProcess \/ EvalSerial \/ EndSerial
        \/ (\E t \in 1..Len(sel) : Complete(t))
        \/ (\E R \in SUBSET done : WaitReturn(R))
        \/ Collect \/ EndCollect
        \/ AppendPickle \/ UpdateIntegral \/ SaveData \/ Return

-----------------------------------------------------------------------------
(* Properties *)

TypeOK == /\ pc \in {"idle", "process", "serial", "wait", "collect", "pickle", "update", "save", "refine", "return", "error"}
          /\ \A i \in 1..Len(kl) : kl[i].fac >= 0 /\ kl[i].lev \in 0..LMAX

NoError == pc # "error"

(* C06: total weight is one at every program point, weights are non-negative *)
WeightOne == pc # "idle" => (SumSeq(Facs(kl)) = WTOT /\ \A i \in 1..Len(kl) : kl[i].fac >= 0)

(* C06: no two K-points of the list are symmetry equivalent (so no weight is counted on a duplicate) *)
NoEquivDup == \A i, j \in 1..Len(kl) : i < j =>
                 ~(IF mode.sym THEN Equiv(kl[i], kl[j]) ELSE (kl[i].c = kl[j].c /\ kl[i].lev = kl[j].lev))

(* C06: every live K-point carries the weight of its orbit *)
Live(k) == k.fac > 0
OrbitWeight == \A i \in 1..Len(kl) : (Live(kl[i]) /\ (CellSymmetric \/ kl[i].lev = 0)) =>
     kl[i].fac * Pow(NDIV, D * kl[i].lev) = (IF mode.sym THEN Cardinality(Star(kl[i].c)) ELSE 1) * W0

(* C06: the cells of the live K-points and of their symmetry images tile the Brillouin zone: every sample point
   (half-integer positions, never on a cell boundary) lies in exactly one of them *)
ImagesOf(k) == IF mode.sym THEN Star(k.c) ELSE {k.c}
(* <<index, image cell, cell width>> of every symmetry image of every live K-point *)
LiveImages == UNION { {<<i, c, Width(kl[i].lev)>> : c \in ImagesOf(kl[i])} : i \in {j \in 1..Len(kl) : Live(kl[j])} }
(* All cell boundaries are integers (centres are integers, widths are even), so "every point of the zone lies in exactly
   one image cell" is equivalent to: the image cells are pairwise disjoint and their volumes add up to the zone. *)
CDist(a, b, u) == LET d == (a - b + 4 * u) % u IN IF d <= u - d THEN d ELSE u - d     \* distance on the circle of length u
Overlap1(c1, w1, c2, w2, u) == 2 * CDist(c1, c2, u) < w1 + w2
OverlapW(x, y, u) == Overlap1(x[2][1], x[3], y[2][1], y[3], u) /\ (D = 2 => Overlap1(x[2][2], x[3], y[2][2], y[3], u))
Vol(w) == IF D = 2 THEN w * w ELSE w
RECURSIVE VolSum(_, _)
VolSum(li, lv) == IF lv < 0 THEN 0
                  ELSE Cardinality({x \in li : x[3] = Width(lv)}) * Vol(Width(lv)) + VolSum(li, lv - 1)
(* the singleton quantifiers make TLC evaluate U and LiveImages once per state (a definition is re-evaluated at every
   mention otherwise) *)
Tiling == (pc # "idle" /\ (CellSymmetric \/ \A i \in 1..Len(kl) : Live(kl[i]) => kl[i].lev = 0)) =>
   \A u \in {U} : \A li \in {LiveImages} :
      /\ VolSum(li, LMAX) = Vol(u)
      /\ \A x \in li : \A y \in li : (x # y) => ~OverlapW(x, y, u)

(* C10: after every update the coefficient of each K-point's result in the integral equals its weight *)
AfterUpdate == pc \in {"save", "refine", "return"}
IntegralConsistent == AfterUpdate => (~resNone /\ Len(coef) = Len(kl) /\ \A i \in 1..Len(kl) : coef[i] = kl[i].fac /\ kl[i].ev)
CoefTotal(S) == LET RECURSIVE Sm(_)
                 Sm(T) == IF T = {} THEN 0 ELSE LET x == CHOOSE y \in T : TRUE IN x[3] + Sm(T \ {x})
             IN Sm(S)
SavedWeightOne == \A g \in DOMAIN saved : CoefTotal(saved[g]) = WTOT
ReturnedWeightOne == (pc = "idle" /\ returned # {}) => CoefTotal(returned) = WTOT

(* C10 (dump_results): every K-point whose result lives on disk owns its result file *)
DistinctStoragePaths == \A i, j \in 1..Len(kl) : (i < j /\ kl[i].st = "disk" /\ kl[j].st = "disk") => kl[i].sp # kl[j].sp

(* C12: every remote result is collected exactly once *)
CollectedOnce == \A t \in 1..Len(collected) : collected[t] <= 1
AllCollected  == pc = "pickle" => \A t \in 1..Len(collected) : collected[t] = 1

(* C11 (file level): the pickle and the set of factor files only grow while a directory lives *)
PickleAppendOnly == [][pc # "idle" => IsPrefix(pick, pick')]_vars
FactorFilesGrow  == [][pc # "idle" => DOMAIN ffiles \subseteq DOMAIN ffiles']_vars
(* C11: restart=True with the default restart_iteration resumes from the latest completed iteration *)
ResumeLatest == [][(act'.name = "StartRestart" /\ act'.ri = -1) => start' = Max(DOMAIN ffiles)]_vars
=============================================================================
