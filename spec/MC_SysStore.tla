---------------------------- MODULE MC_SysStore ----------------------------
(* bounded model of SysStore: a family of small systems (every num_wann in NWS including odd ones, orthogonal and
   non-orthogonal lattices, R-lists with R and -R in non-symmetric order / without the -R partner / longer than one
   Ndegen line, with and without AA and a further matrix, several point groups) and every sequence of at most MAXLEN
   actions SaveNpz, LoadNpz, WriteTb, ReadTb, WriteHr, ReadHr.  `hist` records the behaviour, so every state is one
   behaviour and can be replayed on the real code. *)
EXTENDS SysStore

CONSTANTS NWS,        \* numbers of Wannier functions
          SHAPES,     \* subset of 1..5 (lattice + R-list)
          PATS,       \* data patterns
          AAZERO,     \* TRUE: AA(R=0) has a zero diagonal (convention I); FALSE: generator leaves it non-zero (sensitivity)
          MAXLEN

VARIABLES store, disk, hist
vars == <<store, disk, hist>>

-----------------------------------------------------------------------------
(* the family of systems *)
Lat(shape) == IF shape \in {2, 3} THEN <<<<8, 0, 0>>, <<8, 16, 0>>, <<0, 0, 24>>>>       \* non-orthogonal, a = 1, 1/2/3
              ELSE <<<<8, 0, 0>>, <<0, 8, 0>>, <<0, 0, 8>>>>
Line17 == <<3, -8, 0, 7, -1, 5, -6, 1, 8, -3, 2, -5, 6, -2, 4, -7, -4>>
Line15 == <<2, -7, 5, 0, -1, 7, -3, 1, 6, -5, 3, -2, 4, -6, -4>>                              \* 0 and +-1..+-7
RList(shape) ==
   CASE shape = 1 -> << <<0, 0, 0>>, <<1, 0, 0>>, <<-1, 0, 0>> >>
     [] shape = 2 -> << <<1, 0, 0>>, <<0, 0, 0>>, <<0, 1, 0>>, <<-1, 0, 0>>, <<0, -1, 0>> >>   \* R0 not first, R/-R apart
     [] shape = 3 -> << <<0, 0, 0>>, <<1, 0, 0>>, <<1, 1, -2>> >>                              \* no -R partners
     [] shape = 4 -> [i \in 1..17 |-> <<Line17[i], 0, 0>>]                                    \* two Ndegen lines
     [] shape = 5 -> << <<0, 0, 0>> >>
     [] shape = 6 -> [i \in 1..15 |-> <<Line15[i], 0, 0>>]                                    \* exactly one full Ndegen line
     [] shape = 7 -> [i \in 1..16 |-> <<Line17[i], 0, 0>>]                                    \* one full line + one number
Hermitian(shape) == shape \notin {3, 7}
HR(R) == R[1] + 5 * R[2] + 25 * R[3]
P(pat, R, a, b) == ((((HR(R) + 57) * (3 * a + b)) + (pat * a)) % 17) - 8
Q(pat, R, a, b) == ((((HR(R) + 61) * (a + (2 * b))) + (3 * pat)) % 13) - 6
U(pat, R, a, b) == <<P(pat, R, a, b), Q(pat, R, a, b)>>
Entry(pat, herm, R, a, b) == IF herm THEN CAdd(U(pat, R, a, b), Conj(U(pat, Neg3(R), b, a))) ELSE U(pat, R, a, b)
HamOf(nw, shape, pat) ==
   [ir \in 1..Len(RList(shape)) |-> [m \in 1..nw |-> [n \in 1..nw |-> Entry(pat, Hermitian(shape), RList(shape)[ir], m, n)]]]
VecOf(nw, shape, pat, zerodiag) ==
   [ir \in 1..Len(RList(shape)) |-> [m \in 1..nw |-> [n \in 1..nw |-> [c \in 1..3 |->
        LET e == Entry(pat + 2 * c, Hermitian(shape), RList(shape)[ir], m, n)
        IN IF zerodiag /\ RList(shape)[ir] = Zero3 /\ m = n THEN <<0, e[2]>> ELSE e]]]]
Cen(nw, pat) == [a \in 1..nw |-> <<3 * a - 4 + pat, (5 * a + pat) % 8, 9 - 2 * a>>]
C4z == <<<<0, -1, 0>>, <<1, 0, 0>>, <<0, 0, 1>>>>
MInv == <<<<-1, 0, 0>>, <<0, -1, 0>>, <<0, 0, -1>>>>
(* generators as named in wannierberri.symmetry.point_symmetry; grp: 0 none, 1 Inversion, 2 C4z + TimeReversal (cubic only) *)
GenNames(grp) == CASE grp = 0 -> <<>> [] grp = 1 -> <<"Inversion">> [] grp = 2 -> <<"C4z", "TimeReversal">>
Gens(grp) == CASE grp = 0 -> TrivialPG [] grp = 1 -> {<<MInv, FALSE>>} [] grp = 2 -> {<<C4z, FALSE>>, <<Ident3, TRUE>>}
SysOf(nw, shape, pat, withAA, withSS, grp) ==
   [nw |-> nw, lat |-> Lat(shape), cen |-> Cen(nw, pat), R |-> RList(shape),
    mats |-> LET h == ("Ham" :> HamOf(nw, shape, pat))
                 a == ("AA" :> VecOf(nw, shape, pat, AAZERO))
                 x == ("SS" :> VecOf(nw, shape, pat + 1, FALSE))
             IN IF withAA /\ withSS THEN h @@ a @@ x ELSE IF withAA THEN h @@ a ELSE IF withSS THEN h @@ x ELSE h,
    periodic |-> IF grp = 1 THEN <<TRUE, TRUE, FALSE>> ELSE AllPeriodic,
    pg |-> GroupClosure(Gens(grp)),
    phon |-> (shape = 5 /\ nw % 2 = 1)]                     \* is_phonon: only the npz directory carries it
GrpOf(nw, shape, pat) == LET g == (nw + shape + pat) % 3 IN IF g = 2 /\ shape \notin {1, 5} THEN 0 ELSE g
(* parameters of the initial system: the variants are spread over the patterns to keep the family small *)
Params == {<<nw, shape, pat, aa, ss, grp>> \in NWS \X SHAPES \X PATS \X BOOLEAN \X BOOLEAN \X {0, 1, 2} :
              /\ (shape \in {4, 6, 7} => nw <= 2)
              /\ ss = (aa /\ pat = 1)
              /\ grp = GrpOf(nw, shape, pat)}

-----------------------------------------------------------------------------
NoFile == [present |-> FALSE, src |-> 0]
Entry0(op) == [op |-> op, src |-> 0, dst |-> 0, needAA |-> FALSE, given |-> FALSE, err |-> "", fresh |-> TRUE, par |-> <<>>]

Init == \E p \in Params :
          /\ store = <<SysOf(p[1], p[2], p[3], p[4], p[5], p[6])>>
          /\ disk = [npz |-> EmptyDir, npzsrc |-> 0, npzfresh |-> TRUE, tb |-> NoFile, hr |-> NoFile]
          /\ hist = <<[Entry0("Init") EXCEPT !.par = p, !.dst = 1]>>

Room == Len(hist) <= MAXLEN        \* hist[1] is the Init entry
RoomW == Len(hist) < MAXLEN        \* a write is never the last action of a behaviour (nothing would observe it)
Result(r) == IF r.err = "" THEN Append(store, r.sys) ELSE store
Dst(r) == IF r.err = "" THEN Len(store) + 1 ELSE 0

DoSaveNpz(i) ==
   /\ RoomW
   /\ \E d \in {SaveDir(disk.npz, store[i])} : disk' = [disk EXCEPT !.npz = d, !.npzsrc = i, !.npzfresh = ~disk.npz.present]
   /\ hist' = Append(hist, [Entry0("SaveNpz") EXCEPT !.src = i, !.fresh = ~disk.npz.present])
   /\ UNCHANGED store
DoLoadNpz ==
   /\ Room /\ disk.npz.present
   /\ \E r \in {LoadDir(disk.npz)} :        \* (bound, so that TLC evaluates it once)
      /\ store' = Result(r)
      /\ hist' = Append(hist, [Entry0("LoadNpz") EXCEPT !.src = disk.npzsrc, !.dst = Dst(r), !.err = r.err, !.fresh = disk.npzfresh])
   /\ UNCHANGED disk
DoWriteTb(i) ==
   /\ RoomW
   /\ disk' = [disk EXCEPT !.tb = [present |-> TRUE, src |-> i]]
   /\ hist' = Append(hist, [Entry0("WriteTb") EXCEPT !.src = i])
   /\ UNCHANGED store
DoReadTb(needAA, given) ==
   /\ Room /\ disk.tb.present
   /\ \E s \in {store[disk.tb.src]} : \E r \in {ReadTb(TbLines(s), needAA, given, s.cen)} :
      /\ store' = Result(r)
      /\ hist' = Append(hist, [Entry0("ReadTb") EXCEPT !.src = disk.tb.src, !.dst = Dst(r), !.err = r.err,
                                                        !.needAA = needAA, !.given = given])
   /\ UNCHANGED disk
DoWriteHr(i) ==
   /\ RoomW
   /\ disk' = [disk EXCEPT !.hr = [present |-> TRUE, src |-> i]]
   /\ hist' = Append(hist, [Entry0("WriteHr") EXCEPT !.src = i])
   /\ UNCHANGED store
DoReadHr(given) ==
   /\ Room /\ disk.hr.present
   /\ \E s \in {store[disk.hr.src]} : \E r \in {ReadHr(HrLines(s), WccLines(s.cen), s.lat, given, s.cen)} :
      /\ store' = Result(r)
      /\ hist' = Append(hist, [Entry0("ReadHr") EXCEPT !.src = disk.hr.src, !.dst = Dst(r), !.err = r.err, !.given = given])
   /\ UNCHANGED disk

Next == \/ \E i \in 1..Len(store) : DoSaveNpz(i) \/ DoWriteTb(i) \/ DoWriteHr(i)
        \/ DoLoadNpz
        \/ \E a, g \in BOOLEAN : DoReadTb(a, g)
        \/ \E g \in BOOLEAN : DoReadHr(g)
Spec == Init /\ [][Next]_vars

-----------------------------------------------------------------------------
(* C18 *)
Entries(op) == {k \in 1..Len(hist) : hist[k].op = op}
(* _tb.dat: lattice, R-vectors and Ham always; no failure whenever the file carries what the call asks for (the AA
   section if berry/AA is requested, the centres -- through AA -- unless they are passed); centres when AA was written
   (with the convention-I zero diagonal) or passed; AA itself when requested under the same condition *)
TbCarries(e) == LET s == store[e.src] IN (e.needAA => Has(s, "AA")) /\ (~e.given => Has(s, "AA"))
TbCentres(e, strict) == LET s == store[e.src] IN e.given \/ (Has(s, "AA") /\ (strict \/ AADiagZero(s)))
TbClause(e, strict) ==
   LET s == store[e.src] IN
   IF ~TbCarries(e) THEN e.err # ""
   ELSE /\ e.err = ""
        /\ LET t == store[e.dst] IN
           /\ SameCore(s, t) /\ SameLattice(s, t)
           /\ (TbCentres(e, strict) => SameCentres(s, t))
           /\ (e.needAA /\ TbCentres(e, strict) => SameTable(s, t, "AA"))
           /\ (e.needAA => "AA" \in DOMAIN t.mats)
TbRoundTrip == \A k \in Entries("ReadTb") : TbClause(hist[k], FALSE)
TbRoundTripNoPrecondition == \A k \in Entries("ReadTb") : TbClause(hist[k], TRUE)      \* sensitivity: must fail when AAZERO = FALSE
(* _hr.dat + WCC file: never a failure, for every num_wann; Ham, R-vectors, centres (lattice is an argument) *)
HrClause(e) == /\ e.err = ""
               /\ LET s == store[e.src]  t == store[e.dst] IN SameCore(s, t) /\ SameCentres(s, t) /\ SameLattice(s, t)
HrRoundTrip == \A k \in Entries("ReadHr") : HrClause(hist[k])
(* npz directory: everything comes back when the directory was new; in a re-used directory the files of matrices the
   saved system does not have stay behind and are loaded too (or make the load fail by their shape) *)
NpzClause(e, strict) ==
   LET s == store[e.src] IN
   IF e.fresh \/ strict
   THEN /\ e.err = ""
        /\ LET t == store[e.dst] IN
           /\ SameCore(s, t) /\ SameLattice(s, t) /\ SameCentres(s, t) /\ SameMats(s, t)
           /\ t.periodic = s.periodic /\ t.pg = s.pg /\ t.phon = s.phon
   ELSE e.err = "" => LET t == store[e.dst] IN SameCore(s, t) /\ SameLattice(s, t) /\ SameCentres(s, t) /\ HasMats(s, t)
NpzRoundTrip == \A k \in Entries("LoadNpz") : NpzClause(hist[k], FALSE)
NpzRoundTripStrict == \A k \in Entries("LoadNpz") : NpzClause(hist[k], TRUE)           \* sensitivity: stale files of a re-used directory
(* every reachable system is well formed *)
WellFormed == \A i \in 1..Len(store) :
   LET s == store[i] IN
   /\ Len(s.cen) = s.nw /\ Zero3 \in {s.R[ir] : ir \in 1..Len(s.R)} /\ "Ham" \in DOMAIN s.mats
   /\ \A k \in DOMAIN s.mats : ShapeOK(s.mats[k], s.nw, Len(s.R))
   /\ GroupClosure(s.pg) = s.pg
=============================================================================
