----------------------------- MODULE MC_BShells -----------------------------
(* The shell-selection procedure of BKVectors.find_bk_vectors (and of system/__finite_differences.find_shells) as a
   state machine, one step per iteration of the loop over shells, for every lattice of a small catalogue of integer
   reciprocal lattices, every mesh in MESHES and the parallel-shell rules in RULES.  TLC checks that the
   procedure terminates with a stencil (never "fail": the search box always contains a solution) and that the stencil
   has the properties C22 demands, verified independently of the elimination that produced the weights.
   RULES: "pair" is the specification's procedure (Wannier90); "latt" / "rank3" model the rule of
   w90files/bkvectors.find_bk_vectors as it is written (for an integer Cartesian basis / for a basis in general
   position) and are run without the invariant Admits: the harness uses them to decide whether a "no complete set"
   failure of the code is the one this model predicts; "span" is the rule that function's docstring describes. *)
EXTENDS BShellsCat
CONSTANTS MESHES, LATS, RULES, SSC, Variant,
          PAIRSEL   \* {} = every lattice x mesh; else the set of "lattice:mesh code" strings (e.g. "fcc:113") to run
VARIABLES lat, L, rule, st
vars == <<lat, L, rule, st>>

(* a cfg file cannot hold tuples: the mesh <<n1, n2, n3>> (n_i <= 9) is written as the integer n1 n2 n3 *)
MeshOfCode(c) == <<c \div 100, (c \div 10) % 10, c % 10>>
Lattice(name, N) == MkLattice(Catalogue[name].G, Catalogue[name].gs, Catalogue[name].A, N, SSC)

Init == /\ lat \in LATS
        /\ \E c \in MESHES : /\ (PAIRSEL = {} \/ (lat \o ":" \o ToString(c)) \in PAIRSEL)
                            /\ L = Lattice(lat, MeshOfCode(c))
        /\ rule \in RULES
        /\ (rule = "latt" => Catalogue[lat].A # <<>>)
        /\ st = StInit
Step == /\ st.pc = "loop"
        /\ st' = IterateV(L, rule, st, Variant)
        /\ UNCHANGED <<lat, L, rule>>
Next == Step
Spec == Init /\ [][Next]_vars

S == StencilOf(st)
(* the search box always contains a complete set of shells *)
Admits == st.pc # "fail"
(* C22 on the specification's own selection *)
SelFunctional == st.pc = "done" => Functional(S) /\ NonZeroInBox(L, S)
SelNegClosed  == st.pc = "done" => NegClosed(S)
SelWhole      == st.pc = "done" => WholeShells(L, S)
SelComplete   == st.pc = "done" => Complete(L, S)
SelOddMoments == st.pc = "done" => OddMomentsVanish(S)
(* every k-point of the mesh has, for every b, exactly one neighbour in the mesh and one lattice shift *)
SelNeighbours == st.pc = "done" =>
   \A k \in Mesh(L) : \A b \in Vecs(S) :
      /\ NeighbourOf(L, k, b) \in Mesh(L)
      /\ NeighbourRel(L, k, b, NeighbourOf(L, k, b), GOf(L, k, b))
      /\ \A k2 \in Mesh(L) : Congruent(L, VAdd(k, b), k2) => k2 = NeighbourOf(L, k, b)
(* at most six shells can be linearly independent; shells are selected in order of strictly increasing length *)
SelShape == /\ Len(st.sel) <= 6
            /\ \A s \in 1..(Len(st.sel) - 1) : QF(L, CHOOSE n \in st.sel[s] : TRUE) < QF(L, CHOOSE n \in st.sel[s + 1] : TRUE)
=============================================================================
