---------------------------- MODULE MC_W90Cont ----------------------------
(* the WannierData container as a state machine: set_file / unset_file / to_npz / from_npz / write over a pool of small
   file objects (conforming and non-conforming sizes, k-point subsets), every action sequence of length <= MAXLEN.
   `hist` keeps the behaviour (one state = one behaviour), `disk` is the set of <seedname>.<ext>.npz files, `loaded` the
   container returned by the last from_npz, `texts` the text files written by write(). *)
EXTENDS MC_W90Files
CONSTANTS MAXLEN, POOL, PRESETS
VARIABLES cont, disk, loaded, texts, hist
cvars == <<cont, disk, loaded, texts, hist>>

(* the pool: id -> <<key, object>>; NK = 2, NB = 2, NW = 1, NNB = 2 unless said otherwise *)
PoolObj(id) ==
   CASE id = "eig"   -> EigObj(2, 2, AllK(2), 1)
     [] id = "eigB3" -> EigObj(2, 3, AllK(2), 1)          \* other number of bands
     [] id = "eigK3" -> EigObj(3, 2, AllK(3), 1)          \* other number of k-points
     [] id = "eigP"  -> EigObj(2, 2, {0}, 2)              \* irreducible k-points only
     [] id = "amn"   -> AmnObj(2, 2, 1, AllK(2), 1)
     [] id = "amnW2" -> AmnObj(2, 2, 2, AllK(2), 2)       \* two Wannier functions
     [] id = "mmn"   -> MmnObj(2, 2, 2, AllK(2), 1, FALSE)
     [] id = "mmnN4" -> MmnObj(2, 2, 4, AllK(2), 1, FALSE) \* other number of neighbours
     [] id = "bkvec" -> BkObj(2, 2, AllK(2))
     [] id = "chk"   -> ChkObj(2, 2, 1, AllK(2), 1, FALSE)
     [] id = "spn"   -> SpnObj(2, 2, AllK(2), 1)
     [] id = "uhu"   -> UxuObj("uhu", 2, 2, 2, AllK(2), 1)  \* extension "uHu" vs key "uhu"; from_npz appends bkvec to its list
     [] id = "uiu"   -> UxuObj("uiu", 2, 2, 2, AllK(2), 1)
     [] id = "shu"   -> SxuObj("shu", 2, 2, 2, AllK(2), 1)
     [] id = "siu"   -> SxuObj("siu", 2, 2, 2, AllK(2), 1)
PoolKey(id) == PoolObj(id).cls
Entry0(op) == [op |-> op, key |-> "", id |-> "", flag |-> FALSE, err |-> "", exact |-> FALSE, same |-> FALSE]

(* initial containers: empty; a complete conforming set; irreducible k-points only; 3 and 4: as 1 and 2, already saved
   with to_npz (so that from_npz is possible from the first step) *)
Preset(p) == CASE p = 0 -> <<>> [] p \in {1, 3} -> <<"chk", "eig", "amn", "mmn", "bkvec">> [] p \in {2, 4} -> <<"eigP", "bkvec">>
RECURSIVE Fill(_, _, _)
Fill(c, ids, n) == IF n > Len(ids) THEN c ELSE Fill(SetFile(c, PoolKey(ids[n]), PoolObj(ids[n]), FALSE, FALSE).cont, ids, n + 1)
CInit == /\ \E p \in PRESETS : /\ cont = Fill(EmptyCont, Preset(p), 1)
                              /\ hist = <<[Entry0("init") EXCEPT !.id = ToString(p)]>>
         /\ disk = IF hist[1].id \in {"3", "4"} THEN ContToNpz(cont, << >>) ELSE << >>
         /\ loaded = EmptyCont /\ texts = << >>
         /\ par = <<>> /\ obj = <<>> /\ bk = <<>> /\ txt = <<>> /\ rd = <<>> /\ npz = <<>> /\ back = <<>>
Room == Len(hist) <= MAXLEN        \* hist[1] is the init entry
DoSet(id, overwrite) ==
   /\ Room
   /\ \E r \in {SetFile(cont, PoolKey(id), PoolObj(id), overwrite, FALSE)} :
        /\ cont' = r.cont
        /\ hist' = Append(hist, [Entry0("set_file") EXCEPT !.key = PoolKey(id), !.id = id, !.flag = overwrite, !.err = r.err])
   /\ UNCHANGED <<disk, loaded, texts>>
DoUnset(key, ign) ==
   /\ Room
   /\ \E r \in {UnsetFile(cont, key, ign)} :
        /\ cont' = r.cont
        /\ hist' = Append(hist, [Entry0("unset_file") EXCEPT !.key = key, !.flag = ign, !.err = r.err])
   /\ UNCHANGED <<disk, loaded, texts>>
DoToNpz ==
   /\ Room /\ DOMAIN cont.files # {}
   /\ disk' = ContToNpz(cont, disk)
   /\ hist' = Append(hist, Entry0("to_npz"))
   /\ UNCHANGED <<cont, loaded, texts>>
(* to_npz(seedname, files = [key]): only that file is written *)
DoToNpzOnly(key) ==
   /\ Room /\ HasFile(cont, key)
   /\ disk' = [k \in DOMAIN disk \cup {key} |-> IF k = key THEN AsDict(cont.files[key]) ELSE disk[k]]
   /\ hist' = Append(hist, [Entry0("to_npz") EXCEPT !.key = key])
   /\ UNCHANGED <<cont, loaded, texts>>
(* the disk is exactly the image of the container (no file of an earlier save is left) *)
DiskExact == DOMAIN disk = DOMAIN cont.files /\ \A key \in DOMAIN disk : disk[key] = AsDict(cont.files[key])
DoFromNpz ==
   /\ Room /\ DOMAIN disk # {}
   /\ \E r \in {ContFromNpz(disk)} :
        /\ loaded' = IF r.err = "" THEN r.cont ELSE EmptyCont
        /\ hist' = Append(hist, [Entry0("from_npz") EXCEPT !.err = r.err, !.exact = DiskExact,
                                                           !.same = (r.err = "" /\ SameFiles(cont, r.cont))])
   /\ UNCHANGED <<cont, disk, texts>>
(* write(seedname, files = [key]) for the classes that offer to_w90_file(seedname) *)
DoWrite(key) ==
   /\ Room /\ key \in {"eig", "amn"} /\ HasFile(cont, key)
   /\ \E r \in {WriteOf(cont.files[key], <<>>)} :
        /\ texts' = IF r.err = "" THEN (key :> r.lines) @@ texts ELSE texts
        /\ hist' = Append(hist, [Entry0("write") EXCEPT !.key = key, !.err = r.err])
   /\ UNCHANGED <<cont, disk, loaded>>
(* write(seedname) with files = None: every file of the container, in turn; the classes without a text writer (and the .mmn
   writer as it is) make the call fail - which files are on disk by then is not modelled *)
DoWriteAll ==
   /\ Room /\ DOMAIN cont.files # {}
   /\ LET keys == DOMAIN cont.files
           ok == keys \subseteq {"eig", "amn"} /\ \A key \in keys : WriteOf(cont.files[key], <<>>).err = "" IN
      /\ texts' = IF ok THEN [key \in keys \cup DOMAIN texts |-> IF key \in keys THEN WriteOf(cont.files[key], <<>>).lines ELSE texts[key]]
                   ELSE texts
      /\ hist' = Append(hist, [Entry0("write") EXCEPT !.err = IF ok THEN "" ELSE "some exception"])
   /\ UNCHANGED <<cont, disk, loaded>>
CNext == (\/ \E id \in POOL : \E o \in BOOLEAN : DoSet(id, o)
          \/ \E key \in {PoolKey(id) : id \in POOL} : \E g \in BOOLEAN : DoUnset(key, g)
          \/ DoToNpz \/ DoFromNpz \/ DoWriteAll
          \/ \E key \in {PoolKey(id) : id \in POOL} : DoToNpzOnly(key)
          \/ \E key \in {"eig", "amn"} : DoWrite(key))
         /\ UNCHANGED fvars
CSpec == CInit /\ [][CNext]_<<cvars, fvars>>

(* C19, container part *)
Entries(op) == {k \in 1..Len(hist) : hist[k].op = op}
(* to_npz followed by from_npz gives back every file, and nothing else when the seedname was not used before *)
ContRoundTrip == \A k \in Entries("from_npz") : hist[k].exact => hist[k].err = "" /\ hist[k].same
(* a container only ever holds conforming files, its keys are the classes of the files *)
ContConsistent == /\ \A k1, k2 \in DOMAIN cont.files : \A a \in DOMAIN cont.files[k1].dim \cap DOMAIN cont.files[k2].dim :
                        k1 # "chk" /\ k2 # "chk" => cont.files[k1].dim[a] = cont.files[k2].dim[a]
                  /\ \A k \in DOMAIN cont.files : cont.files[k].cls = k
(* set_file of an amn updates the checkpoint's number of Wannier functions *)
ChkFollowsAmn == \A k \in Entries("set_file") :
                    (k = Len(hist) /\ hist[k].key = "amn" /\ hist[k].err = "" /\ HasFile(cont, "chk"))
                       => cont.files["chk"].attr["num_wann"] = cont.files["amn"].dim.NW
(* what write() leaves on disk is what the matching reader turns back into the file of the container *)
WriteReadable == \A key \in DOMAIN texts : ReadOf(key, texts[key], <<>>).err = ""
=============================================================================
