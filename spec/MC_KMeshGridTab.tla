--------------------------- MODULE MC_KMeshGridTab ---------------------------
(* function table of Grid.get_K_list: for every (group, grid size, use_symmetry) the K list that the specification
   demands (IrreducibleList; MC_KMeshGrid proves it equal to the loop-level transcription).  Init enumerates the
   inputs, the action Call evaluates them; every "done" state is replayed on the real Grid. *)
EXTENDS KMesh
CONSTANTS NMAX, Names, SymSet
VARIABLES grp, n, sym, pc, ok, out
vars == <<grp, n, sym, pc, ok, out>>
AllNames == GroupNames
GT == TLCEval([nm \in Names |-> GroupOf(nm)])       \* the groups of this model, generated once
Init == /\ grp \in Names /\ n \in (1..NMAX) \X (1..NMAX) \X (1..NMAX) /\ sym \in SymSet
        /\ pc = "in" /\ ok = FALSE /\ out = <<>>
(* Grid(system, NKdiv = n, NKFFT = 1) raises unless the group maps the grid to itself; then get_K_list(use_symmetry) *)
Call == /\ pc = "in" /\ pc' = "done"
        /\ ok' = Compatible(n, GT[grp])
        /\ out' = IF Compatible(n, GT[grp]) THEN IrreducibleList(n, GT[grp], sym) ELSE <<>>
        /\ UNCHANGED <<grp, n, sym>>
Next == Call
Spec == Init /\ [][Next]_vars
GEff == IF sym THEN GT[grp] ELSE {Id3}
Good == pc = "done" /\ ok
NonNegative     == Good => WeightsNonNegative(out)
SumToOne        == Good => WeightsSumToOne(out, n)
Partition       == Good => StarsPartition(out, n, GEff)
OrbitWeight     == Good => WeightIsOrbitSize(out, n, GEff)
ImagesCoverOnce == Good => CoveredOnce(out, n, GEff)
=============================================================================
