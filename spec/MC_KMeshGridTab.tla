--------------------------- MODULE MC_KMeshGridTab ---------------------------
(* function table of Grid.get_K_list: one TLC state per (group, grid size, use_symmetry) carrying the K list that the
   specification demands (IrreducibleList; MC_KMeshGrid proves it equal to the loop-level transcription).  Every state
   is replayed on the real Grid. *)
EXTENDS KMesh
CONSTANTS NMAX, Names, SymSet
VARIABLES grp, n, sym, ok, out
vars == <<grp, n, sym, ok, out>>
Init == /\ grp \in Names /\ n \in (1..NMAX) \X (1..NMAX) \X (1..NMAX) /\ sym \in SymSet
        /\ ok = Compatible(n, GroupOf(grp))
        /\ out = IF ok THEN IrreducibleList(n, GroupOf(grp), sym) ELSE <<>>
Next == UNCHANGED vars
Spec == Init /\ [][Next]_vars
GEff == IF sym THEN GroupOf(grp) ELSE {Id3}
NonNegative     == ok => WeightsNonNegative(out)
SumToOne        == ok => WeightsSumToOne(out, n)
Partition       == ok => StarsPartition(out, n, GEff)
OrbitWeight     == ok => WeightIsOrbitSize(out, n, GEff)
ImagesCoverOnce == ok => CoveredOnce(out, n, GEff)
=============================================================================
