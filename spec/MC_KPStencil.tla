---------------------------- MODULE MC_KPStencil ----------------------------
(* For every catalogue lattice with an integer Cartesian basis: the stencil selected by find_shells, then every monomial
   of total degree <= DMAX at every grid point of KS: the values of the numerical first, second and (for degree <= D3MAX and stencils of at most D3CMAX
   vectors: the cost is cubic in the size) third derivative (exact rationals, h = 1) and the laws of KPStencil. *)
EXTENDS KPStencil, BShellsCat
CONSTANTS LATS, DMAX, KSN, D3MAX, D3CMAX
VARIABLES lat, basis, pc, st, C, T, nsten, e, x, d1, d2, d3
vars == <<lat, basis, pc, st, C, T, nsten, e, x, d1, d2, d3>>

(* grid points (units of h); negative literals cannot be written in a cfg file *)
KSAll == <<<<0, 0, 0>>, <<1, -2, 3>>, <<-1, 1, 2>>, <<2, 0, -1>>, <<-3, -1, 1>>>>
KS == {KSAll[j] : j \in 1..KSN}
PAIRS == {<<a, b>> : a \in I3, b \in I3}
TRIPLES == {<<a, b, c>> : a \in I3, b \in I3, c \in I3}

KPL == KPLattice(Catalogue[lat].G, Catalogue[lat].gs, Catalogue[lat].A)
Init == /\ lat \in LATS /\ Catalogue[lat].A # <<>>
        /\ basis = Catalogue[lat].A
        /\ pc = "select" /\ st = StInit
        /\ nsten = {} /\ C = {} /\ T = <<>>
        /\ e = <<0, 0, 0>> /\ x = <<0, 0, 0>> /\ d1 = <<>> /\ d2 = <<>> /\ d3 = <<>>
(* find_shells: one iteration of `for ishell_try, shell_try in enumerate(shells[:50])` *)
SelectStep == /\ pc = "select" /\ st.pc = "loop"
              /\ st' = Iterate(KPL, "pair", st)
              /\ UNCHANGED <<lat, basis, pc, C, T, nsten, e, x, d1, d2, d3>>
SelectDone == /\ pc = "select" /\ st.pc = "done"
              /\ pc' = "stencil"
              /\ nsten' = FindShellsResult(st)
              /\ C' = CartStencil(Catalogue[lat].A, FindShellsResult(st))
              /\ T' = T4Table(C')
              /\ UNCHANGED <<lat, basis, st, e, x, d1, d2, d3>>
Derive == /\ pc = "stencil"
          /\ pc' = "deriv"
          /\ e' \in Monomials(DMAX) /\ x' \in KS
          /\ d1' = [a \in I3 |-> D1m(C, e', a, x')]
          /\ d2' = [p \in PAIRS |-> D2m(C, e', p[1], p[2], x')]
          /\ d3' = [t \in {t \in TRIPLES : Deg(e') <= D3MAX /\ Cardinality(C) <= D3CMAX /\ t[1] <= t[2] /\ t[2] <= t[3]} |-> D3m(C, e', t[1], t[2], t[3], x')]
          /\ UNCHANGED <<lat, basis, st, C, T, nsten>>
Next == SelectStep \/ SelectDone \/ Derive
Spec == Init /\ [][Next]_vars

Admits == st.pc # "fail"
StencilProps == pc # "select" => NegClosed(C) /\ Functional(C) /\ CartComplete(C) /\ OddMomentsVanish(C) /\ \A p \in C : p[2] # RZero
D1Law   == pc = "deriv" => \A a \in I3 : d1[a] = D1Predicted(T, e, a, x)
D1Exact == pc = "deriv" /\ Deg(e) <= 2 => \A a \in I3 : d1[a] = RInt(Analytic(e, <<a>>, x))
D2Law   == pc = "deriv" => \A p \in PAIRS : d2[p] = D2Predicted(T, e, p[1], p[2], x)
D2Exact == pc = "deriv" /\ Deg(e) <= 3 => \A p \in PAIRS : d2[p] = RInt(Analytic(e, <<p[1], p[2]>>, x))
(* the grouped evaluation of the innermost sum is the plain Derivative3D sum *)
D1Grouping == pc = "deriv" => \A a \in I3 : d1[a] = D1mPlain(C, e, a, x)
D2Symmetric == pc = "deriv" => \A p \in PAIRS : d2[p] = d2[<<p[2], p[1]>>]
D3Exact == pc = "deriv" => \A t \in DOMAIN d3 : d3[t] = RInt(Analytic(e, <<t[1], t[2], t[3]>>, x))
(* the third numerical derivative is symmetric: checked on the unsorted index triples of one monomial class only (cost) *)
D3Symmetric == pc = "deriv" /\ Deg(e) = 3 /\ x = <<0, 0, 0>> /\ Cardinality(C) <= 8 =>
                  \A t \in TRIPLES : D3m(C, e, t[1], t[2], t[3], x) = RInt(Analytic(e, <<t[1], t[2], t[3]>>, x))
(* sensitivity (expected to FAIL): "the first derivative is exact for cubic polynomials" *)
D1ExactCubicWRONG == pc = "deriv" /\ Deg(e) <= 3 => \A a \in I3 : d1[a] = RInt(Analytic(e, <<a>>, x))
=============================================================================
