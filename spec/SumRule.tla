------------------------------ MODULE SumRule ------------------------------
(* C27, exact kernel: the internal (Hamiltonian-only) Berry curvature of formula/covariant.py:Omega over Hermitian
   Gaussian-integer velocity matrices and integer spectra, in exact rationals with one common denominator.

   Code transcribed (wannierberri):
     data_K.dEig_inv[m,n] = 1/(E_m - E_n)  (0 on the diagonal)              data_K/data_K.py: dEig_inv
     D_H[m,n,a]           = -V[m,n,a] * dEig_inv[m,n]                        data_K/data_K.py: D_H
     Omega.nn(inn,out)[m,n,c] = -i sum_{l in out} D[m,l,alpha_c] D[l,n,beta_c] ;  summ += summ^dagger
     Formula_ln.trace(inn,out) = Re sum_{n in inn} nn[n,n]
   For c = z: alpha = x, beta = y, so with Hermitian V
     trace_z(inn) = 2 Im sum_{n in inn, l in out} D_nl,x D_ln,y = -2 Im sum Vx_nl Vy_ln / (E_l - E_n)^2 .
   Complex numbers are pairs <<re, im>> of integers; matrices are functions [1..nb -> [1..nb -> pair]]. *)
EXTENDS Integers, Sequences, FiniteSets, TLC

CMul(x, y) == <<x[1] * y[1] - x[2] * y[2], x[1] * y[2] + x[2] * y[1]>>
CConj(x) == <<x[1], -x[2]>>
IsHermitian(V, nb) == \A m, n \in 1..nb : V[m][n] = CConj(V[n][m])

(* sums / products over integer ranges as recursive functions (fast in TLC) *)
SumR(a, b, f(_)) == LET s[j \in (a - 1)..b] == IF j = a - 1 THEN 0 ELSE s[j - 1] + f(j) IN s[b]
ProdR(a, b, f(_)) == LET s[j \in (a - 1)..b] == IF j = a - 1 THEN 1 ELSE s[j - 1] * f(j) IN s[b]
Sq(x) == x * x

(* common denominator: product over all pairs l < m of (E_m - E_l)^2 *)
Den(E) == ProdR(1, Len(E), LAMBDA m : ProdR(1, m - 1, LAMBDA l : Sq(E[m] - E[l])))
(* Den / (E_l - E_n)^2 *)
Cof(E, n, l) == ProdR(1, Len(E), LAMBDA m : ProdR(1, m - 1, LAMBDA k : IF {m, k} = {n, l} THEN 1 ELSE Sq(E[m] - E[k])))

(* weight of the intermediate state l: "code" = Omega (1); "weighted" = Morb_H-like weight E_l, a formula that does NOT
   obey the sum rule (sensitivity variant); "oddden" = one energy denominator forgotten *)
TermNum(E, Vx, Vy, n, l, variant) ==
   LET z == CMul(Vx[n][l], Vy[l][n]) IN
   CASE variant = "code"     -> -2 * z[2] * Cof(E, n, l)
     [] variant = "weighted" -> -2 * z[2] * Cof(E, n, l) * E[l]
     [] variant = "oddden"   -> -2 * z[2] * Cof(E, n, l) * (E[l] - E[n])

(* numerator (over Den(E)) of trace_z over the band set inn, the other bands being `out` *)
OmegaNum(E, Vx, Vy, inn, variant) ==
   SumR(1, Len(E), LAMBDA n : IF n \notin inn THEN 0 ELSE
        SumR(1, Len(E), LAMBDA l : IF l \in inn THEN 0 ELSE TermNum(E, Vx, Vy, n, l, variant)))
OmegaBand(E, Vx, Vy, n, variant) == OmegaNum(E, Vx, Vy, {n}, variant)

(* the property clauses *)
SumRuleHolds(E, om) == SumR(1, Len(E), LAMBDA n : om[n]) = 0
(* the trace over a block equals the sum of the single-band values (inner-inner terms cancel): why Omega.additive *)
AdditiveHolds(E, Vx, Vy, om, variant) ==
   \A a \in 1..Len(E) : \A b \in a..Len(E) :
       OmegaNum(E, Vx, Vy, a..b, variant) = SumR(a, b, LAMBDA n : om[n])
AntisymHolds(E, Vx, Vy, om, variant) == \A n \in 1..Len(E) : OmegaBand(E, Vy, Vx, n, variant) = -om[n]
(* Fermi-sea partial sums: numerator of sum_{n <= j} Omega_n *)
SeaNum(om, j) == SumR(1, j, LAMBDA n : om[n])

(* Degenerate spectra (E non-decreasing).  The trace over a set `inn` that consists of WHOLE multiplets involves only the
   differences E_l - E_n with n inside and l outside (the terms inside a multiplet never enter: Omega.nn sums over l in
   `out` only), so it is well defined although single-band values are not:
        trace_z(inn) = OmegaNumIO(E, Vx, Vy, inn) / DenIO(E, inn) *)
DenIO(E, inn) ==
   ProdR(1, Len(E), LAMBDA n : IF n \notin inn THEN 1 ELSE
        ProdR(1, Len(E), LAMBDA l : IF l \in inn THEN 1 ELSE Sq(E[l] - E[n])))
OmegaNumIO(E, Vx, Vy, inn) ==
   LET dd == DenIO(E, inn) IN
   SumR(1, Len(E), LAMBDA n : IF n \notin inn THEN 0 ELSE
        SumR(1, Len(E), LAMBDA l : IF l \in inn THEN 0 ELSE
             -2 * CMul(Vx[n][l], Vy[l][n])[2] * (dd \div Sq(E[l] - E[n]))))
(* Fermi-sea bookkeeping of a SCAN of Fermi levels that starts inside the bands (StaticCalculator without tetrahedra:
   Data_K.get_bands_in_range_groups_ik + grid/tetrahedron.get_borders).  Energies are integers, levels are given times 4
   (lo4 = 4 * lowest level, never a multiple of 4, so no level sits on a band or on the mean energy of a group).
   Bands are collected into groups: "none" every band alone; "chain" neighbouring bands at most 1 apart belong together
   (degen_thresh between 1 and 2); "kramers" pairs (1,2), (3,4), ... and, with an odd number of bands, the last band alone.
   The groups that reach up to the lowest level or above are "in range" and enter with their whole trace when the level
   passes their mean energy; all bands strictly below the lowest level form the sea block - CLAMPED to the bands before the
   first in-range group, because a group that straddles the lowest level already contains its lower bands.
   ScanTotal = the value at a level above all bands = sea block + every in-range group; it must be sum_n Omega_n = 0.
   Two wrong book-keepings (sensitivity, must violate): "noclamp" counts the lower bands of a straddling group twice,
   "kramers_drop_last" leaves the last band of an odd set out of every group. *)
BordersOf(E, grouping) ==
   LET nb == Len(E) IN
   CASE grouping = "kramers" -> {i \in 0..nb : i % 2 = 0 \/ i = nb}
     [] grouping = "kramers_drop_last" -> {i \in 0..nb : i % 2 = 0}
     [] grouping = "chain" -> {0, nb} \cup {i \in 1..(nb - 1) : E[i + 1] - E[i] > 1}
     [] OTHER -> 0..nb
IsGroup(B, a, b) == a \in B /\ b \in B /\ a < b /\ \A c \in B : ~(a < c /\ c < b)     \* the bands a+1..b
ScanTotal(E, om, lo4, grouping, clamp) ==
   LET nb == Len(E)
       B == BordersOf(E, grouping)
       InRange(a, b) == IsGroup(B, a, b) /\ 4 * E[b] >= lo4
       below == Cardinality({n \in 1..nb : 4 * E[n] < lo4})
       firsts == {a \in 0..nb : \E b \in 1..nb : InRange(a, b)}
       first == IF firsts = {} THEN below ELSE CHOOSE a \in firsts : \A c \in firsts : a <= c
       bandmax == IF clamp /\ first < below THEN first ELSE below
   IN SumR(1, bandmax, LAMBDA n : om[n])
      + SumR(0, nb - 1, LAMBDA a : SumR(a + 1, nb, LAMBDA b : IF InRange(a, b) THEN SumR(a + 1, b, LAMBDA n : om[n]) ELSE 0))
(* the level lo4/4 lies inside a group: strictly between two neighbouring bands of one group *)
LevelInsideGroup(E, l4, grouping) ==
   \E n \in 1..(Len(E) - 1) : /\ 4 * E[n] < l4 /\ l4 < 4 * E[n + 1]
                              /\ \E a, b \in BordersOf(E, grouping) : IsGroup(BordersOf(E, grouping), a, b) /\ a < n /\ n + 1 <= b

(* the spectrum with the levels j and j + 1 made degenerate *)
Collapse(E, j) == [k \in 1..Len(E) |-> IF k = j + 1 THEN E[j] ELSE E[k]]
=============================================================================
