------------------------------- MODULE SysAlg -------------------------------
(* System algebra of wannierberri (the system-algebra part of the design's TBWorld): C05, C25, C26, C32, C33.

   Abstract system   [nw, cen, rs, H, hasX, X, spinor]
       nw      number of Wannier functions
       cen     centres, cen[a] = <<c1, c2, c3>> in units of 1/CU of the lattice vectors (integer lattice, unit cell = identity)
       rs      the set of R-vectors that are stored (System_R.rvec.iRvec); R = <<r1, r2, r3>>
       H       [rs -> matrix of Gaussian integers]   ('Ham'),  Hermitian: H(-R)[b][a] = conj H(R)[a][b]
       X       a second real-space matrix ('AA' in the binding) present iff hasX
   k-points are <<k1, k2, k3>> in quarters of the reciprocal lattice vectors, so every Fourier phase exp(2 pi i k.R) is a
   power of i and H(k) is a matrix of Gaussian integers. A Hamiltonian whose R-vectors lie within +-1 in each direction is a
   trigonometric polynomial of degree 1 per direction: two such Hamiltonians that agree at the four quarter points of every
   active direction agree at every k, and the same holds for the coefficients of their characteristic polynomials when
   they are compared as polynomial identities of H(k) (used by the laws below, which quantify over the quarter grid KS).

   Conventions transcribed from the code (DESIGN.md 7.1): H_ab(k) = SUM_R H_ab(R) exp(2 pi i k.R); the Cartesian derivative
   multiplies by i (R + tau_b - tau_a); rows of HH_K are ordered as grid.points_FFT (z fastest). *)
EXTENDS SysNum

CU == 12                                   \* centres are integer multiples of 1/12 (quarters and thirds)
Z3 == <<0, 0, 0>>
VNeg(v) == <<-v[1], -v[2], -v[3]>>
VAdd(u, v) == <<u[1] + v[1], u[2] + v[2], u[3] + v[3]>>
VSub(u, v) == <<u[1] - v[1], u[2] - v[2], u[3] - v[3]>>
VScale(n, v) == <<n * v[1], n * v[2], n * v[3]>>
VHad(u, v) == <<u[1] * v[1], u[2] * v[2], u[3] * v[3]>>
Dot(u, v) == u[1] * v[1] + u[2] * v[2] + u[3] * v[3]
VMod(v, n) == <<v[1] % n, v[2] % n, v[3] % n>>
LexLess(u, v) == \/ u[1] < v[1] \/ (u[1] = v[1] /\ u[2] < v[2]) \/ (u[1] = v[1] /\ u[2] = v[2] /\ u[3] < v[3])
Perms(n) == {p \in [1..n -> 1..n] : \A a, b \in 1..n : a # b => p[a] # p[b]}

FunR(rs, f(_)) == TLCEval([R \in rs |-> f(R)])
NoX(rs, nw) == FunR(rs, LAMBDA R : MatZero(nw))
(* M: the other named real-space matrices the system carries (System_R._XX_R besides 'Ham' and the second matrix 'AA'):
   M[name][R][c] is the orbital matrix of the Cartesian component c = 1..3^rank (C order of the Cartesian indices).
   The ranks are those of wannierberri.system.system.num_cart_dim *)
NoM == [n \in {} |-> 0]
RankOf(name) == CASE name \in {"Ham"} -> 0
                  [] name \in {"AA", "BB", "CC", "SS", "SH", "OO"} -> 1
                  [] name \in {"SHA", "SA", "SR", "SHR", "GG", "FF"} -> 2
NComp(name) == CASE RankOf(name) = 0 -> 1 [] RankOf(name) = 1 -> 3 [] OTHER -> 9
AllNames == <<"BB", "CC", "SS", "SH", "OO", "SHA", "SA", "SR", "SHR", "GG", "FF">>
NameIdx(name) == CHOOSE j \in 1..Len(AllNames) : AllNames[j] = name
Sys(nw, cen, rs, H) == [nw |-> nw, cen |-> cen, rs |-> rs, H |-> H, hasX |-> FALSE, X |-> NoX(rs, nw), spinor |-> FALSE, M |-> NoM]
(* every component of every named matrix transformed on its orbital indices, the Cartesian index untouched *)
MapM(s, f(_)) == [n \in DOMAIN s.M |-> FunR(s.rs, LAMBDA R : Vec(Len(s.M[n][R]), LAMBDA c : f(s.M[n][R][c])))]
SameM(s, t, f(_)) == /\ DOMAIN t.M = DOMAIN s.M
                     /\ \A n \in DOMAIN s.M : \A R \in s.rs : \A c \in 1..Len(s.M[n][R]) : t.M[n][R][c] = f(s.M[n][R][c])
HermFun(rs, F) == \A R \in rs : VNeg(R) \in rs /\ F[VNeg(R)] = MatDag(F[R])
HermSys(s) == HermFun(s.rs, s.H)
Ext(rs, F, n, R) == IF R \in rs THEN F[R] ELSE MatZero(n)            \* a matrix function continued by zero
SameOnAllR(s, t) == \A R \in s.rs \cup t.rs : Ext(s.rs, s.H, s.nw, R) = Ext(t.rs, t.H, t.nw, R)

(* ------------------------------------------------------------------ observation operators *)
(* SUM_R F(R) i^e(R) exp(2 pi i k.R): every phase is a power of i, given by its exponent *)
FTe(rs, F, n, k, e(_)) ==
   Mat(n, LAMBDA a, b : FoldSet(LAMBDA R, acc : GAdd(GRot(F[R][a][b], Dot(R, k) + e(R)), acc), GZ, rs))
NoPhase(R) == 0
Hk(s, k) == FTe(s.rs, s.H, s.nw, k, NoPhase)
Xk(s, k) == FTe(s.rs, s.X, s.nw, k, NoPhase)
(* CU times the Cartesian derivative d/dk_c of H(k) in the Wannier gauge (Rvectors.derivative, cRvec_shifted) *)
DHk(s, k, c) ==
   Mat(s.nw, LAMBDA a, b :
       FoldSet(LAMBDA R, acc : GAdd(GRot(GScale(CU * R[c] + s.cen[b][c] - s.cen[a][c], s.H[R][a][b]), Dot(R, k) + 1), acc),
               GZ, s.rs))
Spectrum(s, k) == CharPoly(Hk(s, k))       \* the spectrum, as the coefficients of the characteristic polynomial

(* ------------------------------------------------------------------ catalogues of small systems *)
(* a hop [a, b, R, t] stands for H(R)[a][b] += t together with H(-R)[b][a] += conj t *)
HopSlots(nw, RGEN) == {sl \in [a : 1..nw, b : 1..nw, R : RGEN \cup {Z3}] : sl.R = Z3 => sl.a < sl.b}
Hops(nw, RGEN, AMPS) == {[a |-> sl.a, b |-> sl.b, R |-> sl.R, t |-> t] : sl \in HopSlots(nw, RGEN), t \in AMPS}
HopSets(nw, RGEN, AMPS, maxhops) ==
   {S \in UNION {kSubset(n, Hops(nw, RGEN, AMPS)) : n \in 0..maxhops} :
        \A h1, h2 \in S : (h1.a = h2.a /\ h1.b = h2.b /\ h1.R = h2.R) => h1 = h2}
HopTerm(h, R, a, b) == GAdd(IF h.R = R /\ h.a = a /\ h.b = b THEN h.t ELSE GZ,
                            IF VNeg(h.R) = R /\ h.b = a /\ h.a = b THEN GConj(h.t) ELSE GZ)
(* extra: R-vectors stored with zero matrices (the R-sets of two systems may differ although their Hamiltonians do not) *)
SysFromHops(nw, cen, eps, hops, extra) ==
   LET rs == {Z3} \cup {h.R : h \in hops} \cup {VNeg(h.R) : h \in hops} \cup extra \cup {VNeg(R) : R \in extra}
   IN Sys(nw, cen, rs,
          FunR(rs, LAMBDA R : Mat(nw, LAMBDA a, b :
              GAdd(IF R = Z3 /\ a = b THEN GInt(eps[a]) ELSE GZ,
                   FoldSet(LAMBDA h, acc : GAdd(HopTerm(h, R, a, b), acc), GZ, hops)))))
Catalogue(nw, CENS, EPSS, RGEN, AMPS, maxhops, EXTRAS) ==
   {SysFromHops(nw, cen, eps, hops, extra) : cen \in CENS, eps \in EPSS, hops \in HopSets(nw, RGEN, AMPS, maxhops), extra \in EXTRAS}

(* ------------------------------------------------------------------ C05: relabelling and rotating the Wannier basis *)
(* System_R.reorder(new_wann_indices = p) with Rvectors.reorder: matrices, centres and shifts *)
Reorder(s, p) == [s EXCEPT !.cen = Vec(s.nw, LAMBDA a : s.cen[p[a]]),
                           !.H = FunR(s.rs, LAMBDA R : PermuteMat(s.H[R], p)),
                           !.X = FunR(s.rs, LAMBDA R : PermuteMat(s.X[R], p)),
                           !.M = MapM(s, LAMBDA A : PermuteMat(A, p))]          \* EVERY matrix of _XX_R
(* the plausible wrong variant: only a fixed list of names is permuted (the list of check_periodic), the others keep the old order *)
FixedNames == {"Ham", "AA", "BB", "CC", "SS", "FF"}
ReorderFixedNames(s, p) == [Reorder(s, p) EXCEPT !.M = [n \in DOMAIN s.M |-> IF n \in FixedNames THEN Reorder(s, p).M[n] ELSE s.M[n]]]
(* the plausible wrong variant: matrices permuted, centres/shifts left alone *)
ReorderKeepCentres(s, p) == [Reorder(s, p) EXCEPT !.cen = s.cen]
(* one k-independent unitary applied to all real-space matrices: X'(R) = U^dagger X(R) U *)
Rotate(s, U) == [s EXCEPT !.H = FunR(s.rs, LAMBDA R : Conjugate(U, s.H[R])), !.X = FunR(s.rs, LAMBDA R : Conjugate(U, s.X[R])),
                          !.M = MapM(s, LAMBDA A : Conjugate(U, A))]
CoCentred(s, U) == \A a, b \in 1..s.nw : U[a][b] # GZ => s.cen[a] = s.cen[b]
(* the finite group of exact unitaries: permutations with phases in {1, i, -1, -i} *)
PhasePerms(n) == {[a \in 1..n |-> [b \in 1..n |-> IF b = p[a] THEN IPow(e[a]) ELSE GZ]] : p \in Perms(n), e \in [1..n -> 0..3]}
ExactUnitaries(s) == {U \in PhasePerms(s.nw) : CoCentred(s, U)}

(* CS = the Cartesian directions whose derivative is compared (directions without R-vectors and centre components give 0) *)
ReorderLaws(s, p, t, KS, CS) ==
   /\ HermSys(t)
   /\ t.cen = [a \in 1..s.nw |-> s.cen[p[a]]]
   /\ SameM(s, t, LAMBDA A : PermuteMat(A, p))                 \* every named matrix: X'(R) = P^T X(R) P, Cartesian indices untouched
   /\ \A k \in KS : LET hs == Hk(s, k)  ht == Hk(t, k) IN
                    /\ ht = PermuteMat(hs, p)
                    /\ CharPoly(ht) = CharPoly(hs)
                    /\ \A c \in CS : DHk(t, k, c) = PermuteMat(DHk(s, k, c), p)
                    /\ s.hasX => Xk(t, k) = PermuteMat(Xk(s, k), p)
RotateLaws(s, U, t, KS, CS) ==
   /\ HermSys(t)
   /\ t.cen = s.cen
   /\ SameM(s, t, LAMBDA A : Conjugate(U, A))
   /\ \A k \in KS : LET hs == Hk(s, k)  ht == Hk(t, k) IN
                    /\ ht = Conjugate(U, hs)
                    /\ CharPoly(ht) = CharPoly(hs)
                    /\ \A c \in CS : DHk(t, k, c) = Conjugate(U, DHk(s, k, c))      \* needs CoCentred(s, U)
                    /\ s.hasX => Xk(t, k) = Conjugate(U, Xk(s, k))

(* ------------------------------------------------------------------ C25: spin doubling, SOC assembly *)
(* System_R.double_spin: XX_new[:, i::2, i::2] = XX (interlaced), centres doubled, set_spin_pairs *)
DoubleSpin(s) == [s EXCEPT !.nw = 2 * s.nw,
                           !.cen = Vec(2 * s.nw, LAMBDA x : s.cen[(x + 1) \div 2]),
                           !.H = FunR(s.rs, LAMBDA R : Kron2(s.H[R])),
                           !.X = FunR(s.rs, LAMBDA R : Kron2(s.X[R])),
                           !.spinor = TRUE]
(* wrong variant: block ordering (all up, then all down) *)
BlockDouble(A) == Mat(2 * Len(A), LAMBDA x, y :
                     IF (x <= Len(A)) = (y <= Len(A)) THEN A[((x - 1) % Len(A)) + 1][((y - 1) % Len(A)) + 1] ELSE GZ)
DoubleSpinBlock(s) == [DoubleSpin(s) EXCEPT !.H = FunR(s.rs, LAMBDA R : BlockDouble(s.H[R]))]
Pauli == << << <<GZ, G1>>, <<G1, GZ>> >>,
            << <<GZ, <<0, -1>>>>, <<GI, GZ>> >>,
            << <<G1, GZ>>, <<GZ, <<-1, 0>>>> >> >>             \* Pauli[c][s][t]
(* SS(R=0) written by set_spin_pairs([(2i, 2i+1)]) : SS[c][x][y] *)
SpinPairsSS(nw2, P) == Vec(3, LAMBDA c : Mat(nw2, LAMBDA x, y :
                          IF (x + 1) \div 2 = (y + 1) \div 2 THEN P[c][((x - 1) % 2) + 1][((y - 1) % 2) + 1] ELSE GZ))
DoubleSpinLaws(s, t, KS, CS) ==
   /\ HermSys(t) /\ t.nw = 2 * s.nw
   /\ \A k \in KS : LET hs == Hk(s, k)  cp == CharPoly(hs) IN
                    /\ Hk(t, k) = Kron2(hs)
                    /\ Spectrum(t, k) = PolyMul(cp, cp)                               \* every band exactly twice
                    /\ \A c \in CS : DHk(t, k, c) = Kron2(DHk(s, k, c))

(* SOC.get_C_ss(theta = m pi/2, phi = n pi/2) times 2, in Z[zeta8] *)
CSS2(m, n) == << <<ZMulZetaN(TwoCos(m), -n), ZNeg(ZMulZetaN(TwoSin(m), -n))>>,
                 <<ZMulZetaN(TwoSin(m), n), ZMulZetaN(TwoCos(m), n)>> >>
(* SOC.get_pauli_rotated: einsum('ai,abc,bj->ijc', C.conj(), pauli, C), here as PauliRot4[c][i][j] = 4 (C^dagger sigma_c C)[i][j] *)
PauliRot4(m, n) == LET C == CSS2(m, n) IN
   Vec(3, LAMBDA c : Mat(2, LAMBDA i, j :
       ZSum([ab \in 1..4 |-> LET a == ((ab - 1) \div 2) + 1  b == ((ab - 1) % 2) + 1
                            IN ZMul(ZMul(ZConj(C[a][i]), ZFromG(Pauli[c][a][b])), C[b][j])])))
PauliRotExact(m, n) == \A c \in 1..3, i, j \in 1..2 : LET z == PauliRot4(m, n)[c][i][j] IN ZIsG(z) /\ GDivisible(ZToG(z), 4)
PauliRot(m, n) == LET P4 == PauliRot4(m, n) IN Vec(3, LAMBDA c : Mat(2, LAMBDA i, j : GDiv(ZToG(P4[c][i][j]), 4)))
Sin4(m) == CASE m % 4 = 1 -> 1 [] m % 4 = 3 -> -1 [] OTHER -> 0
Cos4(m) == Sin4(m + 1)
Axis(m, n) == <<Sin4(m) * Cos4(n), Sin4(m) * Sin4(n), Cos4(m)>>
Eps(i, j, k) == IF i = j \/ j = k \/ i = k THEN 0 ELSE IF (j - i) % 3 = 1 THEN 1 ELSE -1
Mat2Sum3(f(_)) == MatAdd(MatAdd(f(1), f(2)), f(3))
PauliAlgebra(P) ==
   /\ \A c \in 1..3 : IsHermitian(P[c]) /\ MatTrace(P[c]) = GZ
   /\ \A i, j \in 1..3 : MatMul(P[i], P[j]) =
          MatAdd(IF i = j THEN MatId(2) ELSE MatZero(2), Mat2Sum3(LAMBDA k : MatScale(<<0, Eps(i, j, k)>>, P[k])))
SpinAlongAxisDiagonal(P, ax) == Mat2Sum3(LAMBDA c : MatScale(GInt(ax[c]), P[c])) = Pauli[3]
UnitaryCSS(m, n) == LET C == CSS2(m, n) IN      \* (2C)^dagger (2C) = 4
   \A i, j \in 1..2 : ZSum([a \in 1..2 |-> ZMul(ZConj(C[a][i]), C[a][j])]) = (IF i = j THEN <<4, 0, 0, 0>> ELSE ZZ)

(* SystemSOC(system_up, system_down) [+ set_soc_axis]: soc = [up, dn, hassoc, rsS, D, P, al]
   D[st][R][m][n][c] for st in {"00", "11", "01"}: dV_soc_wann_s_t (the 1,0 block is conj_XX_R of the 0,1 block),
   P = rotated Pauli matrices, al = alpha_soc *)
MakeSOC(up, dn) == [up |-> up, dn |-> dn, hassoc |-> FALSE, rsS |-> {Z3},
                    D |-> [st \in {"00", "11", "01"} |-> FunR({Z3}, LAMBDA R : Mat(up.nw, LAMBDA m, n : <<GZ, GZ, GZ>>))],
                    P |-> Pauli, al |-> 0]
SetSOC(soc, rsS, D, P, al) == [soc EXCEPT !.hassoc = TRUE, !.rsS = rsS, !.D = D, !.P = P, !.al = al]
(* SystemSOC(system_up) with one spin channel (nspin = 1): system_down is system_up and set_soc_axis takes all four spin
   blocks from dV_soc_wann_0_0; the 1,0 block conj(D00(-R))^T equals D00(R) because the diagonal blocks are Hermitian *)
Nspin1D(D) == [st \in {"00", "11", "01"} |-> D["00"]]
DBlock(soc, s, t, R, m, n) ==
   IF s = 0 /\ t = 0 THEN soc.D["00"][R][m][n]
   ELSE IF s = 1 /\ t = 1 THEN soc.D["11"][R][m][n]
   ELSE IF s = 0 /\ t = 1 THEN soc.D["01"][R][m][n]
   ELSE Vec(3, LAMBDA c : GConj(soc.D["01"][VNeg(R)][n][m][c]))
(* set_soc_axis: Ham_SOC[R, 2m+s, 2n+t] = alpha SUM_c dV_st[R, m, n, c] pauli_rotated[s, t, c] *)
HamSOC(soc) == FunR(soc.rsS, LAMBDA R : Mat(2 * soc.up.nw, LAMBDA x, y :
   LET m == (x + 1) \div 2  n == (y + 1) \div 2  s == (x - 1) % 2  t == (y - 1) % 2
       d == DBlock(soc, s, t, R, m, n)
   IN GScale(soc.al, GSum([c \in 1..3 |-> GMul(d[c], soc.P[c][s + 1][t + 1])]))))
SocDataHermitian(soc) ==
   /\ \A R \in soc.rsS : VNeg(R) \in soc.rsS
   /\ \A st \in {"00", "11"} : \A R \in soc.rsS : \A m, n \in 1..soc.up.nw : \A c \in 1..3 :
          soc.D[st][VNeg(R)][n][m][c] = GConj(soc.D[st][R][m][n][c])
(* SOC data: terms [st, R, m, n, c, t], hermitian completion inside the diagonal spin blocks *)
SocSlots(nw) == {sl \in [st : {"00", "11", "01"}, R : {Z3, <<1, 0, 0>>}, m : 1..nw, n : 1..nw, c : 1..3] : TRUE}
SocTerms(nw) == {[st |-> sl.st, R |-> sl.R, m |-> sl.m, n |-> sl.n, c |-> sl.c, t |-> t] : sl \in SocSlots(nw), t \in {<<1, 0>>, <<0, 1>>}}
SelfConj(tm) == tm.st # "01" /\ tm.R = Z3 /\ tm.m = tm.n
(* all subsets with at most n elements (kSubset of the community modules refuses base sets with more than 62 elements) *)
RECURSIVE SubsetsUpTo(_, _)
SubsetsUpTo(S, n) == IF n = 0 THEN {{}} ELSE LET P == SubsetsUpTo(S, n - 1) IN P \cup {p \cup {x} : p \in P, x \in S}
SocTermSets(nw, maxsoc) == {T \in SubsetsUpTo(SocTerms(nw), maxsoc) :
                       /\ \A tm \in T : SelfConj(tm) => GIsReal(tm.t)
                       /\ \A t1, t2 \in T : (t1.st = t2.st /\ t1.R = t2.R /\ t1.m = t2.m /\ t1.n = t2.n /\ t1.c = t2.c) => t1 = t2}
SocFromTerms(nw, T) ==
   LET rsS == {Z3} \cup {tm.R : tm \in T} \cup {VNeg(tm.R) : tm \in T}
   IN [rsS |-> rsS,
       D |-> [st \in {"00", "11", "01"} |-> FunR(rsS, LAMBDA R : Mat(nw, LAMBDA m, n : Vec(3, LAMBDA c :
                FoldSet(LAMBDA tm, acc : GAdd(acc, GAdd(
                           IF tm.st = st /\ tm.R = R /\ tm.m = m /\ tm.n = n /\ tm.c = c THEN tm.t ELSE GZ,
                           IF st # "01" /\ ~SelfConj(tm) /\ tm.st = st /\ VNeg(tm.R) = R /\ tm.n = m /\ tm.m = n /\ tm.c = c
                              THEN GConj(tm.t) ELSE GZ)), GZ, T))))]]
SocCatalogue(nw, maxsoc) == {SocFromTerms(nw, T) : T \in SocTermSets(nw, maxsoc)}

(* Data_K_soc.HH_K *)
HkSOC(soc, k) == MatAdd(Interlace(Hk(soc.up, k), Hk(soc.dn, k)),
                        IF soc.hassoc THEN FTe(soc.rsS, HamSOC(soc), 2 * soc.up.nw, k, NoPhase) ELSE MatZero(2 * soc.up.nw))
SocCentres(soc) == Vec(2 * soc.up.nw, LAMBDA x : IF x % 2 = 1 THEN soc.up.cen[(x + 1) \div 2] ELSE soc.dn.cen[(x + 1) \div 2])
MakeSOCLaws(soc, KS) ==
   \A k \in KS : /\ IsHermitian(HkSOC(soc, k))
                 /\ ~soc.hassoc => CharPoly(HkSOC(soc, k)) = PolyMul(Spectrum(soc.up, k), Spectrum(soc.dn, k))
(* SystemSOC.get_system_R: merge_Rvectors([soc.rvec, up.rvec, down.rvec]) and block placement *)
ToPlainR(soc) ==
   LET n2 == 2 * soc.up.nw
       rs == soc.rsS \cup soc.up.rs \cup soc.dn.rs
       hs == HamSOC(soc)
   IN [Sys(n2, SocCentres(soc), rs,
           FunR(rs, LAMBDA R : MatAdd(Ext(soc.rsS, hs, n2, R),
                                Interlace(Ext(soc.up.rs, soc.up.H, soc.up.nw, R), Ext(soc.dn.rs, soc.dn.H, soc.up.nw, R)))))
       EXCEPT !.spinor = TRUE]
ToPlainRLaws(soc, t, KS) == HermSys(t) /\ \A k \in KS : Hk(t, k) = HkSOC(soc, k)

(* ------------------------------------------------------------------ C26: interpolation alpha = a/den *)
InterpExact(s0, s1, a, den) ==
   /\ s0.nw = s1.nw
   /\ \A R \in s0.rs \cup s1.rs :
         /\ MatDivisible(MatAdd(MatScale(GInt(den - a), Ext(s0.rs, s0.H, s0.nw, R)), MatScale(GInt(a), Ext(s1.rs, s1.H, s1.nw, R))), den)
         /\ (s0.hasX /\ s1.hasX) =>
               MatDivisible(MatAdd(MatScale(GInt(den - a), Ext(s0.rs, s0.X, s0.nw, R)), MatScale(GInt(a), Ext(s1.rs, s1.X, s1.nw, R))), den)
   /\ \A x \in 1..s0.nw : \A c \in 1..3 : ((den - a) * s0.cen[x][c] + a * s1.cen[x][c]) % den = 0
Mix(rs0, F0, rs1, F1, n, a, den, R) ==
   MatDiv(MatAdd(MatScale(GInt(den - a), Ext(rs0, F0, n, R)), MatScale(GInt(a), Ext(rs1, F1, n, R))), den)
(* SystemInterpolator(s0, s1).interpolate(a/den): R-set union, matrix-set intersection *)
Interpolate(s0, s1, a, den) ==
   LET rs == s0.rs \cup s1.rs
       both == s0.hasX /\ s1.hasX
   IN [nw |-> s0.nw,
       cen |-> Vec(s0.nw, LAMBDA x : Vec(3, LAMBDA c : ((den - a) * s0.cen[x][c] + a * s1.cen[x][c]) \div den)),
       rs |-> rs,
       H |-> FunR(rs, LAMBDA R : Mix(s0.rs, s0.H, s1.rs, s1.H, s0.nw, a, den, R)),
       hasX |-> both,
       X |-> IF both THEN FunR(rs, LAMBDA R : Mix(s0.rs, s0.X, s1.rs, s1.X, s0.nw, a, den, R)) ELSE NoX(rs, s0.nw),
       spinor |-> s0.spinor, M |-> NoM]
(* wrong variant: only the R-vectors common to both systems are kept *)
InterpolateIntersect(s0, s1, a, den) ==
   LET full == Interpolate(s0, s1, a, den)  rs == s0.rs \cap s1.rs
   IN [full EXCEPT !.rs = rs, !.H = FunR(rs, LAMBDA R : full.H[R]), !.X = FunR(rs, LAMBDA R : full.X[R])]
InterpolateLaws(s0, s1, a, den, t, KS) ==
   /\ HermSys(t)
   /\ t.hasX = (s0.hasX /\ s1.hasX)
   /\ a = 0 => t.cen = s0.cen /\ \A k \in KS : Hk(t, k) = Hk(s0, k) /\ (t.hasX => Xk(t, k) = Xk(s0, k))
   /\ a = den => t.cen = s1.cen /\ \A k \in KS : Hk(t, k) = Hk(s1, k) /\ (t.hasX => Xk(t, k) = Xk(s1, k))
   /\ \A k \in KS : MatScale(GInt(den), Hk(t, k)) = MatAdd(MatScale(GInt(den - a), Hk(s0, k)), MatScale(GInt(a), Hk(s1, k)))
   /\ \A x \in 1..t.nw : \A c \in 1..3 : den * t.cen[x][c] = (den - a) * s0.cen[x][c] + a * s1.cen[x][c]

(* ------------------------------------------------------------------ C33: corner Hamiltonians *)
(* grid.points_FFT in quarters (NKFFT per direction in {1, 2, 4}), z fastest; kpoints_all = points_FFT + Kp_fullBZ *)
KGrid(nk) == Vec(nk[1] * nk[2] * nk[3], LAMBDA i :
                <<((i - 1) \div (nk[2] * nk[3])) * (4 \div nk[1]), (((i - 1) \div nk[3]) % nk[2]) * (4 \div nk[2]), ((i - 1) % nk[3]) * (4 \div nk[3])>>)
(* data_K.Ham_R = rvec.apply_expdK(system Ham): the K-point shift kp = Kp_fullBZ (quarters) is put into the R-matrices.
   All phases are powers of i and are written as exponents. *)
ShiftExp(kp, R) == Dot(R, kp)
(* expdK_corners_parallel = [1/expdK, expdK], expdK[R, c] = exp(2 pi i R_c dK_c/2); h = dK_fullBZ/2 in quarters;
   the corner (ix, iy, iz) takes expdK[ix, :, 0] * expdK[iy, :, 1] * expdK[iz, :, 2] *)
ExpdKParExp(R, h, c, ix) == (2 * ix - 1) * R[c] * h[c]
CornerExpPar(R, h, ic) == ExpdKParExp(R, h, 1, ic[1]) + ExpdKParExp(R, h, 2, ic[2]) + ExpdKParExp(R, h, 3, ic[3])
Corners8 == {<<x, y, z>> : x \in 0..1, y \in 0..1, z \in 0..1}
CornerK(kg, kp, h, ic) == VAdd(VAdd(kg, kp), <<(2 * ic[1] - 1) * h[1], (2 * ic[2] - 1) * h[2], (2 * ic[3] - 1) * h[3]>>)
(* Data_K_R.E_K_corners_parallel: the matrix whose eigenvalues are taken, at FFT grid point kg and corner ic *)
CornerHamPar(s, kp, h, kg, ic) == FTe(s.rs, s.H, s.nw, kg, LAMBDA R : ShiftExp(kp, R) + CornerExpPar(R, h, ic))
(* expdK_corners_tetra[iv][R] = exp(2 pi i R.v_iv), v = vertices_fullBZ in quarters *)
CornerHamTet(s, kp, v, kg) == FTe(s.rs, s.H, s.nw, kg, LAMBDA R : ShiftExp(kp, R) + Dot(R, v))

(* Data_K_soc: up and down blocks with their own R-vectors; downFrom = "up" is the code before the repair, which takes the
   corner phases of the spin-down block from the spin-up Rvectors, position by position in the R-vector lists *)
RList(s) == SetToSortSeq(s.rs, LexLess)
PositionalBlock(s, rl, kp, kg, e(_)) ==      \* SUM_j H(own_j) shift(own_j) i^e(rl_j) exp(2 pi i kg.own_j), own_j from s, rl_j from the other list
   LET own == RList(s) IN
   Mat(s.nw, LAMBDA a, b :
       GSum([j \in 1..Len(own) |-> GRot(s.H[own[j]][a][b], ShiftExp(kp, own[j]) + e(rl[j]) + Dot(own[j], kg))]))
SocCornerDefined(soc, downFrom) == downFrom = "down" \/ Cardinality(soc.up.rs) = Cardinality(soc.dn.rs)
SocCornerHam(soc, kp, kg, e(_), downFrom) ==
   MatAdd(Interlace(FTe(soc.up.rs, soc.up.H, soc.up.nw, kg, LAMBDA R : ShiftExp(kp, R) + e(R)),
                    IF downFrom = "down" THEN FTe(soc.dn.rs, soc.dn.H, soc.dn.nw, kg, LAMBDA R : ShiftExp(kp, R) + e(R))
                    ELSE PositionalBlock(soc.dn, RList(soc.up), kp, kg, e)),
          IF soc.hassoc THEN FTe(soc.rsS, HamSOC(soc), 2 * soc.up.nw, kg, LAMBDA R : ShiftExp(kp, R) + e(R))
          ELSE MatZero(2 * soc.up.nw))
SocCornerHamPar(soc, kp, h, kg, ic, downFrom) == SocCornerHam(soc, kp, kg, LAMBDA R : CornerExpPar(R, h, ic), downFrom)
SocCornerHamTet(soc, kp, v, kg, downFrom) == SocCornerHam(soc, kp, kg, LAMBDA R : Dot(R, v), downFrom)
(* Data_K_k (k.p systems): Ham(k + v) *)
KPCornerHam(s, kall, v) == Hk(s, VAdd(kall, v))

(* ------------------------------------------------------------------ C32: tight-binding builders and their import *)
(* amplitudes are nspin x nspin blocks; blocks of a spinless model are 1 x 1 *)
BlockZero(ns) == MatZero(ns)
(* PythTB 2.x TBModel: site energies and the hopping table (one entry per key (i, j, R)) *)
PtbNew(norb, ns, pos) == [norb |-> norb, ns |-> ns, pos |-> pos, site |-> Vec(norb, LAMBDA i : BlockZero(ns)), tab |-> {}]
PtbFind(m, i, j, R) == {e \in m.tab : e.i = i /\ e.j = j /\ e.R = R}
(* set_hop raises for on-site terms and, unless allow_conjugate_pair, when the conjugate entry exists and this one does not *)
PtbSetHopRaises(m, i, j, R, acp) ==
   \/ i = j /\ R = Z3
   \/ ~acp /\ PtbFind(m, j, i, VNeg(R)) # {} /\ PtbFind(m, i, j, R) = {} /\ <<i, j, R>> # <<j, i, VNeg(R)>>
PtbSetHop(m, amp, i, j, R, mode) ==
   LET old == PtbFind(m, i, j, R)
       new == IF old = {} \/ mode = "set" THEN amp ELSE MatAdd((CHOOSE e \in old : TRUE).amp, amp)
   IN [m EXCEPT !.tab = (m.tab \ old) \cup {[i |-> i, j |-> j, R |-> R, amp |-> new]}]
PtbSetOnsite(m, val, i, mode) == [m EXCEPT !.site[i] = IF mode = "set" THEN val ELSE MatAdd(m.site[i], val)]
PtbSetOnsiteAll(m, vals, mode) == [m EXCEPT !.site = Vec(m.norb, LAMBDA i : IF mode = "set" THEN vals[i] ELSE MatAdd(m.site[i], vals[i]))]
OrbOf(x, ns) == ((x - 1) \div ns) + 1
SpinOf(x, ns) == ((x - 1) % ns) + 1
PtbHopSum(m, R, x, y) ==
   FoldSet(LAMBDA e, acc : GAdd(GAdd(
              IF e.R = R /\ e.i = OrbOf(x, m.ns) /\ e.j = OrbOf(y, m.ns) THEN e.amp[SpinOf(x, m.ns)][SpinOf(y, m.ns)] ELSE GZ,
              IF VNeg(e.R) = R /\ e.j = OrbOf(x, m.ns) /\ e.i = OrbOf(y, m.ns) THEN GConj(e.amp[SpinOf(y, m.ns)][SpinOf(x, m.ns)]) ELSE GZ), acc),
           GZ, m.tab)
PtbRs(m) == {Z3} \cup {e.R : e \in m.tab} \cup {VNeg(e.R) : e \in m.tab}
PtbCentres(m) == Vec(m.norb * m.ns, LAMBDA x : VMod(m.pos[OrbOf(x, m.ns)], CU))          \* positions % 1.0, doubled for spinors
(* the model's own Hamiltonian: hoppings + hermitian conjugates + on-site blocks *)
PtbSource(m) == Sys(m.norb * m.ns, PtbCentres(m), PtbRs(m),
   FunR(PtbRs(m), LAMBDA R : Mat(m.norb * m.ns, LAMBDA x, y :
       GAdd(PtbHopSum(m, R, x, y),
            IF R = Z3 /\ OrbOf(x, m.ns) = OrbOf(y, m.ns) THEN m.site[OrbOf(x, m.ns)][SpinOf(x, m.ns)][SpinOf(y, m.ns)] ELSE GZ))))
(* get_system_tb_py(module='pythtb'): Ham_R[iR, i, j] += amp, Ham_R[inR, j, i] += conj(amp), then the on-site blocks are assigned *)
PtbImport(m) == Sys(m.norb * m.ns, PtbCentres(m), PtbRs(m),
   FunR(PtbRs(m), LAMBDA R : Mat(m.norb * m.ns, LAMBDA x, y :
       IF R = Z3 /\ OrbOf(x, m.ns) = OrbOf(y, m.ns) THEN m.site[OrbOf(x, m.ns)][SpinOf(x, m.ns)][SpinOf(y, m.ns)]
       ELSE PtbHopSum(m, R, x, y))))

(* TBmodels Model: hop[R] only for R = 0 (stored halved) and R with positive first non-zero component; the Hamiltonian is
   hop + hop^dagger. hop2 = 2 hop keeps the halves integral. sem = the documented meaning of add_hop, on the universe RU *)
PositiveR(R) == R # Z3 /\ (R[1] > 0 \/ (R[1] = 0 /\ R[2] > 0) \/ (R[1] = 0 /\ R[2] = 0 /\ R[3] > 0))
DiagMat(vals) == Mat(Len(vals), LAMBDA a, b : IF a = b THEN GInt(vals[a]) ELSE GZ)
TbmNew(size, pos, onsite, RU) == [size |-> size, pos |-> pos, keys |-> {Z3}, hop2 |-> FunR({Z3}, LAMBDA R : DiagMat(onsite)),
                                  sem |-> FunR(RU, LAMBDA R : IF R = Z3 THEN DiagMat(onsite) ELSE MatZero(size))]
MatBump(M, a, b, g) == Mat(Len(M), LAMBDA x, y : IF x = a /\ y = b THEN GAdd(M[x][y], g) ELSE M[x][y])
TbmAddHop(m, ov, o1, o2, R) ==
   LET key == IF R = Z3 \/ PositiveR(R) THEN R ELSE VNeg(R)
       old == IF key \in m.keys THEN m.hop2[key] ELSE MatZero(m.size)
       new == IF R = Z3 THEN MatBump(MatBump(old, o1, o2, ov), o2, o1, GConj(ov))
              ELSE IF PositiveR(R) THEN MatBump(old, o1, o2, GScale(2, ov))
              ELSE MatBump(old, o2, o1, GScale(2, GConj(ov)))
       keys == m.keys \cup {key}
   IN [m EXCEPT !.keys = keys,
                !.hop2 = FunR(keys, LAMBDA K : IF K = key THEN new ELSE m.hop2[K]),
                !.sem = FunR(DOMAIN m.sem, LAMBDA K :
                            LET s1 == IF K = R THEN MatBump(m.sem[K], o1, o2, ov) ELSE m.sem[K]
                            IN IF K = VNeg(R) THEN MatBump(s1, o2, o1, GConj(ov)) ELSE s1)]
(* add_on_site(vals) = add_hop(e/2, o, o, 0) for every orbital: on-site energy += e *)
TbmAddOnSite(m, vals) ==
   LET keys == m.keys \cup {Z3}
       old == IF Z3 \in m.keys THEN m.hop2[Z3] ELSE MatZero(m.size)
   IN [m EXCEPT !.keys = keys,
                !.hop2 = FunR(keys, LAMBDA K : IF K = Z3 THEN MatAdd(old, DiagMat(vals)) ELSE m.hop2[K]),
                !.sem = FunR(DOMAIN m.sem, LAMBDA K : IF K = Z3 THEN MatAdd(m.sem[K], DiagMat(vals)) ELSE m.sem[K])]
TbmRs(m) == {Z3} \cup m.keys \cup {VNeg(K) : K \in m.keys}
TbmHam2(m, R) == MatAdd(IF R \in m.keys THEN m.hop2[R] ELSE MatZero(m.size),
                        IF VNeg(R) \in m.keys THEN MatDag(m.hop2[VNeg(R)]) ELSE MatZero(m.size))
TbmImportExact(m) == \A R \in TbmRs(m) : MatDivisible(TbmHam2(m, R), 2)
(* get_system_tb_py(module='tbmodels'): Ham_R[iR] += hop, Ham_R[inR] += hop^dagger *)
TbmImport(m) == Sys(m.size, Vec(m.size, LAMBDA x : VMod(m.pos[x], CU)), TbmRs(m), FunR(TbmRs(m), LAMBDA R : MatDiv(TbmHam2(m, R), 2)))
TbmImportIsSource(m) == \A R \in DOMAIN m.sem : Ext(TbmRs(m), TbmImport(m).H, m.size, R) = m.sem[R]

(* models.py: Haldane_ptb / Haldane_tbm(delta, hop1, hop2, phi) with t2 = hop2 exp(i phi); the same hopping list in both *)
HaldanePos == << <<4, 4, 0>>, <<8, 8, 0>> >>                                  \* [1/3, 1/3], [2/3, 2/3]
HaldaneHops(hop1, t2) == LET t2c == GConj(t2) IN
   << [t |-> GInt(hop1), i |-> 1, j |-> 2, R |-> <<0, 0, 0>>], [t |-> GInt(hop1), i |-> 2, j |-> 1, R |-> <<1, 0, 0>>],
      [t |-> GInt(hop1), i |-> 2, j |-> 1, R |-> <<0, 1, 0>>], [t |-> t2, i |-> 1, j |-> 1, R |-> <<1, 0, 0>>],
      [t |-> t2, i |-> 2, j |-> 2, R |-> <<1, -1, 0>>], [t |-> t2, i |-> 2, j |-> 2, R |-> <<0, 1, 0>>],
      [t |-> t2c, i |-> 2, j |-> 2, R |-> <<1, 0, 0>>], [t |-> t2c, i |-> 1, j |-> 1, R |-> <<1, -1, 0>>],
      [t |-> t2c, i |-> 1, j |-> 1, R |-> <<0, 1, 0>>] >>
(* overrideDelta = TRUE models `delta = 0.2` inside Haldane_ptb: the argument is ignored (dflt is the default, in the same units) *)
HaldanePtb(delta, hop1, t2, overrideDelta, dflt) ==
   LET d == IF overrideDelta THEN dflt ELSE delta IN
   FoldLeft(LAMBDA m, h : PtbSetHop(m, <<<<h.t>>>>, h.i, h.j, h.R, "set"),
            PtbSetOnsiteAll(PtbNew(2, 1, HaldanePos), << <<<<GInt(-d)>>>>, <<<<GInt(d)>>>> >>, "set"),
            HaldaneHops(hop1, t2))
HaldaneRU == {<<x, y, 0>> : x \in -1..1, y \in -1..1}
HaldaneTbm(delta, hop1, t2) ==
   FoldLeft(LAMBDA m, h : TbmAddHop(m, h.t, h.i, h.j, h.R), TbmNew(2, HaldanePos, <<-delta, delta>>, HaldaneRU), HaldaneHops(hop1, t2))
SameSystem(s, t) == s.nw = t.nw /\ s.cen = t.cen /\ SameOnAllR(s, t)
(* systems are compared as functions R -> matrix continued by zero: which R-vectors are stored (with zero matrices) is a
   representation, not part of any property *)
SameXOnAllR(s, t) == \A R \in s.rs \cup t.rs : Ext(s.rs, s.X, s.nw, R) = Ext(t.rs, t.X, t.nw, R)
SameCentresModCell(s, t) == \A x \in 1..s.nw : \A c \in 1..3 : (s.cen[x][c] - t.cen[x][c]) % CU = 0
=============================================================================
