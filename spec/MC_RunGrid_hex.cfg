SPECIFICATION MCSpec
CONSTANTS
  D = 2
  N = 3
  NDIV = 3
  LMAX = 2
  Group <- GH3
  NSTEP = 2
  Accumulate = TRUE
  SortedListing = TRUE
  CellSymmetric = FALSE
  WaitFirstN = FALSE
  NITER = 2
  AdptFac = 1
  ParA = {FALSE}
  ParB = {FALSE}
  DumpSet = {TRUE}
  AllowASet = {TRUE}
  SymSet = {TRUE}
  WithB = FALSE
  AllOrders = FALSE
  RestartIters = {1}
  MaxLeg = 9
  FirstLegMax = 9
  AllowArgB = {TRUE, FALSE}
VIEW mcview
INVARIANT TypeOK
INVARIANT NoError
INVARIANT WeightOne
INVARIANT NoEquivDup
INVARIANT OrbitWeight
INVARIANT Tiling
INVARIANT IntegralConsistent
INVARIANT SavedWeightOne
CHECK_DEADLOCK FALSE
