----------------------------- MODULE SysOrderRec -----------------------------
(* code -> spec for X02: recorded calls of the real System_R / Rvectors methods on seeded random exact systems, one TLC
   state per record.  A system travels as {nw, rv, cen, sl, sr, mats {Ham: tensor, SS: tensor}} with tensor[r][a][b] = list
   of [re, im] components; centres and shifts in quarters.
     order  : spin_block2interlace / spin_interlace2block / reorder: before, after, and `back` = the real inverse call on after
     pairs  : set_spin_pairs / set_spin_interlaced / double_spin: before, pairs, after
     eigen  : set_spin_eigenstates(spins, axis, reset): SS(R=0) times |axis| (an integer), or the refusal
     sparse : get_sparse(min_values) as a list of elements, from_sparse of it: before, mv, sparse, after
     revr   : reverseR and conj_XX_R (once and twice) on a random R-list and tensor
     merge  : merge_Rvectors of 2-3 lists: merged list and maps
     exz    : exclude_zeros: lists and tensors before / after
     idx    : iR, iR0, index_R
     nocen  : from_sparse without centres (num_wann given or derived)
   Clauses named info_* compare with the transcription of today's code (order of lists, exception classes); the harness
   reports them as information.  The other clauses are representation-free laws. *)
EXTENDS SysOrder, Json, IOUtils, TLCExt
VARIABLE i
(* Body(v) with v evaluated exactly once (operator arguments and LET definitions are re-evaluated at every mention) *)
With(v, Body(_)) == CHOOSE r \in {Body(y) : y \in {v}} : TRUE
Recs == JsonDeserialize(IOEnv.TRACE_FILE).recs
Rec == Recs[i]
SysOf(o) == TLCEval([nw |-> o.nw, rv |-> o.rv, cen |-> o.cen, sl |-> o.sl, sr |-> o.sr, mats |-> o.mats])
WellShaped(s) == /\ Len(s.cen) = s.nw /\ Len(s.sl) = s.nw /\ Len(s.sr) = s.nw
                 /\ \A k \in Keys(s) : k \in {"Ham", "SS"} /\ Len(s.mats[k]) = NR(s)
                      /\ \A r \in 1..NR(s) : Len(s.mats[k][r]) = s.nw /\ \A a \in 1..s.nw : Len(s.mats[k][r][a]) = s.nw
                            /\ \A b \in 1..s.nw : Len(s.mats[k][r][a][b]) = NComp(k)
SameSystem(s, t) == /\ s.nw = t.nw /\ s.cen = t.cen /\ s.sl = t.sl /\ s.sr = t.sr /\ Keys(s) = Keys(t)
                    /\ \A k \in Keys(s) : SameFunction(s, t, k)
SpinAt0(s) == [c \in 1..3 |-> SpinMat(s.mats["SS"], FirstAt(s.rv, Z3), s.nw, c)]

OrderClausesOf(R, b, a, back) ==
   LET toInterlace == (R.op = "b2i") # R.bw
       p == [x \in 1..Len(R.perm) |-> R.perm[x] + 1]
       exp == CASE R.op = "b2i" -> SpinBlock2Interlace(b, R.bw) [] R.op = "i2b" -> SpinInterlace2Block(b, R.bw) [] OTHER -> Reorder(b, p)
   IN [ in_model |-> WellShaped(b) /\ NoDup(b.rv) /\ ShiftsFollow(b) /\ (R.op # "reorder" => b.nw % 2 = 0) /\ (R.op = "reorder" => IsPerm(p, b.nw)),
        shaped |-> WellShaped(a),
        labels |-> R.op # "reorder" => LabelsLaw(b, a, toInterlace),
        permuted |-> R.op = "reorder" => /\ \A x \in 1..b.nw : a.cen[x] = b.cen[p[x]]
                                         /\ \A k \in Keys(b) : \A r \in 1..NR(b) : \A x \in 1..b.nw : \A y \in 1..b.nw :
                                               ElemAt(a, k, b.rv[r], x, y) = b.mats[k][r][p[x]][p[y]],
        shifts_follow |-> ShiftsFollow(a),
        rset_kept |-> SetOf(a.rv) = SetOf(b.rv),
        round_trip |-> SameSystem(back, b),
        info_equals_spec |-> a = exp ]
OrderClauses == With(<<Rec, SysOf(Rec.before), SysOf(Rec.after), SysOf(Rec.back)>>, LAMBDA t : OrderClausesOf(t[1], t[2], t[3], t[4]))
PairsClausesOf(R, b, a, pr) ==
   LET exp == CASE R.method = "pairs" -> SetSpinPairs(b, pr) [] R.method = "interlaced" -> SetSpinInterlaced(b) [] OTHER -> DoubleSpin(b)
   IN [ in_model |-> WellShaped(b) /\ NoDup(b.rv) /\ Has(b.rv, Z3) /\ Len(pr) > 0 /\ PairsWellFormed(a.nw, pr)
                     /\ (R.method = "double" => "SS" \notin Keys(b) /\ pr = InterlacedPairs(2 * b.nw))
                     /\ (R.method = "interlaced" => pr = InterlacedPairs(b.nw)),
        shaped |-> WellShaped(a) /\ "SS" \in Keys(a) /\ a.rv = b.rv,
        pauli |-> PauliAlgebra(SpinAt0(a), a.nw, pr),
        only_r0 |-> SSOnlyAtR0(a),
        others_untouched |-> IF R.method = "double"
                             THEN a.nw = 2 * b.nw /\ a.cen = RvDoubleSpin(b.cen) /\ (ShiftsFollow(b) => ShiftsFollow(a))
                                  /\ \A k \in Keys(b) : a.mats[k] = DoubleTensor(b.mats[k], b.nw)
                             ELSE a.nw = b.nw /\ a.cen = b.cen /\ a.sl = b.sl /\ a.sr = b.sr /\ \A k \in Keys(b) \ {"SS"} : a.mats[k] = b.mats[k],
        info_equals_spec |-> exp.err = "" /\ a = exp.sys ]
PairsClauses == With(<<Rec, SysOf(Rec.before), SysOf(Rec.after), [n \in 1..Len(Rec.pairs) |-> <<Rec.pairs[n][1], Rec.pairs[n][2]>>]>>,
                     LAMBDA t : PairsClausesOf(t[1], t[2], t[3], t[4]))
(* SS(R=0) |axis| as integers: R.ss[a][b][c] = [re, im]; R.rest_zero: every other R-block is zero (looked at by the harness) *)
EigenClausesOf(R) ==
   LET nw == Len(R.spins) IN
   [ in_model |-> R.norm * R.norm = Dot(R.axis, R.axis) /\ R.norm > 0,
     refusal |-> (R.err # "") = (R.had_ss /\ ~R.reset),
     along_axis |-> R.err = "" => /\ Len(R.ss) = nw
                                  /\ \A a \in 1..nw : \A b \in 1..nw : \A c \in 1..3 :
                                        R.ss[a][b][c] = IF a = b THEN <<R.spins[a] * R.axis[c], 0>> ELSE GZ,
     only_r0 |-> R.err = "" => R.rest_zero,
     info_exception_class |-> R.err \in {"", "RuntimeError"} ]
EigenClauses == With(Rec, LAMBDA t : EigenClausesOf(t))
(* R.mv = [[key, T2], ..]; R.sparse = [[key, [[R, a, b, comps], ..]], ..]: the recorded dictionaries as lists of elements *)
MvT2(R) == [k \in {R.mv[n][1] : n \in 1..Len(R.mv)} |-> R.mv[CHOOSE n \in 1..Len(R.mv) : R.mv[n][1] = k][2]]
SparseLists(R) == [k \in {R.sparse[n][1] : n \in 1..Len(R.sparse)} |-> R.sparse[CHOOSE n \in 1..Len(R.sparse) : R.sparse[n][1] = k][2]]
SparseClausesOf(b, a, mv, SL, e) ==
   [ in_model |-> WellShaped(b) /\ NoDup(b.rv) /\ DOMAIN mv \subseteq Keys(b) /\ NoTie(b, mv) /\ DOMAIN SL = DOMAIN mv,
     (* every listed element is an element of the system that reaches the threshold, with its value, and is listed once *)
     dict_sound |-> \A k \in DOMAIN mv : LET L == SL[k] IN
                       /\ \A n \in 1..Len(L) : /\ Has(b.rv, L[n][1]) /\ L[n][2] \in 0..(b.nw - 1) /\ L[n][3] \in 0..(b.nw - 1)
                                               /\ L[n][4] = ElemAt(b, k, L[n][1], L[n][2] + 1, L[n][3] + 1)
                                               /\ ReachesMax(L[n][4], mv[k])
                       /\ Cardinality({<<L[n][1], L[n][2], L[n][3]>> : n \in 1..Len(L)}) = Len(L),
     (* every element that reaches the threshold is listed *)
     dict_complete |-> \A k \in DOMAIN mv : LET S == {<<SL[k][n][1], SL[k][n][2], SL[k][n][3]>> : n \in 1..Len(SL[k])} IN
                          \A r \in 1..NR(b) : \A x \in 1..b.nw : \A y \in 1..b.nw :
                             ReachesMax(b.mats[k][r][x][y], mv[k]) => <<b.rv[r], x - 1, y - 1>> \in S,
     shaped |-> WellShaped(a),
     round_trip |-> LawSparse(b, a, mv),
     info_rset |-> SetOf(a.rv) = SetOf(e.rv),
     info_equals_spec |-> Keys(e) = Keys(a) /\ \A k \in Keys(e) : SameFunction(e, a, k) ]
SparseClauses == With(<<SysOf(Rec.before), SysOf(Rec.after), MvT2(Rec), SparseLists(Rec)>>,
                      LAMBDA t : With(SparseRoundTrip(t[1], t[3]), LAMBDA e : SparseClausesOf(t[1], t[2], t[3], t[4], e)))
RevClausesOf(R) ==
   LET rv == R.rv  nw == R.nw  X == R.x
       rr == RvReverseR(rv) IN
   [ in_model |-> NoDup(rv) /\ Len(X) = Len(rv),
     no_failure |-> R.err = "",
     valid |-> R.err = "" => ReverseRValid(rv, R.lstR, R.lstmR),
     counting |-> R.err = "" => Len(R.lstR) + Cardinality(NotFound(rv)) = Len(rv),
     conj |-> R.err = "" => R.conj = RvConjXXR(rv, X, nw, 1),
     twice |-> R.err = "" => \A r \in 1..Len(rv) : R.conj2[r] = IF Partners(rv, r) # {} THEN X[r] ELSE MatZeroE(nw, 1),
     info_order |-> R.err = "" => R.lstR = rr.lstR /\ R.lstmR = rr.lstmR,
     info_warnings |-> R.err = "" => R.nwarn = (IF R.ignore THEN 0 ELSE Cardinality(NotFound(rv))) ]
RevClauses == With(Rec, LAMBDA t : RevClausesOf(t))
MergeClausesOf(R) ==
   LET lists == R.lists IN
   [ in_model |-> \A n \in 1..Len(lists) : NoDup(lists[n]),
     no_failure |-> R.err = "",
     valid |-> R.err = "" => MergeValid(lists, R.merged, R.maps),
     injective |-> R.err = "" => MapsInjective(lists, R.maps),
     info_order |-> R.err = "" => R.merged = MergeRvectors(lists).rv ]
MergeClauses == With(Rec, LAMBDA t : MergeClausesOf(t))
ExzClausesOf(R) ==
   LET L == ExcludeLaws(R.rv, R.mats, R.nrv, R.nmats, R.T2) IN
   [ in_model |-> NoDup(R.rv) /\ (R.T2 = 0 \/ R.T2 % 2 = 1),
     no_failure |-> R.err = "",
     nothing_lost |-> R.err = "" => L.nothing_lost,
     no_zero_left |-> R.err = "" => L.no_zero_left,
     values |-> R.err = "" => L.values,
     no_dup |-> R.err = "" => L.no_dup,
     info_order |-> R.err = "" => R.nrv = RvExcludeZeros(R.rv, R.mats, R.T2).rv ]
ExzClauses == With(Rec, LAMBDA t : ExzClausesOf(t))
IdxClausesOf(R) ==
   LET rv == R.rv IN
   [ in_model |-> NoDup(rv) /\ Len(R.queries) = Len(R.answers),
     ir |-> \A n \in 1..Len(R.queries) :
               IF Has(rv, R.queries[n]) THEN R.answers[n].err = "" /\ rv[R.answers[n].val + 1] = R.queries[n] ELSE R.answers[n].err # "",
     ir0 |-> IF Has(rv, Z3) THEN R.ir0.err = "" /\ rv[R.ir0.val + 1] = Z3 ELSE R.ir0.err # "",
     index |-> /\ {R.index[n][1] : n \in 1..Len(R.index)} = SetOf(rv) /\ Len(R.index) = Len(rv)
               /\ \A n \in 1..Len(R.index) : rv[R.index[n][2] + 1] = R.index[n][1],
     info_exception_class |-> \A n \in 1..Len(R.queries) : R.answers[n].err \in {"", "ValueError"} ]
IdxClauses == With(Rec, LAMBDA t : IdxClausesOf(t))
(* from_sparse without centres: num_wann given (given > 0) or derived from the largest index; centres are zero *)
NocenClauses ==
   [ no_failure |-> Rec.err = "",
     num_wann |-> Rec.err = "" => Rec.nw = (IF Rec.given = 0 THEN Rec.maxidx + 1 ELSE Rec.given),
     centres_zero |-> Rec.err = "" => Rec.cen_zero ]
Clauses == CASE Rec.kind = "order" -> OrderClauses
             [] Rec.kind = "pairs" -> PairsClauses
             [] Rec.kind = "eigen" -> EigenClauses
             [] Rec.kind = "sparse" -> SparseClauses
             [] Rec.kind = "revr" -> RevClauses
             [] Rec.kind = "merge" -> MergeClauses
             [] Rec.kind = "exz" -> ExzClauses
             [] Rec.kind = "idx" -> IdxClauses
             [] Rec.kind = "nocen" -> NocenClauses
(* the table of clauses is evaluated once per record *)
Report == With(Clauses, LAMBDA C : \A n \in DOMAIN C : C[n] \/ PrintT(<<"BAD", i, n>>))
RecInit == i \in 1..Len(Recs)
RecSpec == RecInit /\ [][UNCHANGED i]_i
=============================================================================
