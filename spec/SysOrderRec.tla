----------------------------- MODULE SysOrderRec -----------------------------
(* code -> spec for X02: recorded calls of the real System_R / Rvectors methods on seeded random exact systems, one TLC
   state per record.  A system travels as {nw, rv, cen, sl, sr, mats {Ham: tensor, SS: tensor}} with tensor[r][a][b] = list
   of [re, im] components; centres and shifts in quarters.
     order  : spin_block2interlace / spin_interlace2block / reorder: before, after, and `back` = the real inverse call on after
     pairs  : set_spin_pairs / set_spin_interlaced / double_spin: before, pairs, after
     eigen  : set_spin_eigenstates(spins, axis, reset): SS(R=0) times |axis| (an integer), or the refusal
     sparse : get_sparse(min_values) as a list of elements, from_sparse of it: before, mv, sparse, after
     revr   : reverseR and conj_XX_R (once and twice) on a random R-list and tensor
     merge  : merge_Rvectors of 2-3 lists: merged list and maps
     exz    : exclude_zeros: lists and tensors before / after
     idx    : iR, iR0, index_R
     nocen  : from_sparse without centres (num_wann given or derived)
   Clauses named info_* compare with the transcription of today's code (order of lists, exception classes); the harness
   reports them as information.  The other clauses are representation-free laws. *)
EXTENDS SysOrder, Json, IOUtils, TLCExt
VARIABLE i
Recs == JsonDeserialize(IOEnv.TRACE_FILE).recs
Rec == Recs[i]
SysOf(o) == TLCEval([nw |-> o.nw, rv |-> o.rv, cen |-> o.cen, sl |-> o.sl, sr |-> o.sr, mats |-> o.mats])
Before == SysOf(Rec.before)
After == SysOf(Rec.after)
WellShaped(s) == /\ Len(s.cen) = s.nw /\ Len(s.sl) = s.nw /\ Len(s.sr) = s.nw
                 /\ \A k \in Keys(s) : k \in {"Ham", "SS"} /\ Len(s.mats[k]) = NR(s)
                      /\ \A r \in 1..NR(s) : Len(s.mats[k][r]) = s.nw /\ \A a \in 1..s.nw : Len(s.mats[k][r][a]) = s.nw
                            /\ \A b \in 1..s.nw : Len(s.mats[k][r][a][b]) = NComp(k)
SameSystem(s, t) == /\ s.nw = t.nw /\ s.cen = t.cen /\ s.sl = t.sl /\ s.sr = t.sr /\ Keys(s) = Keys(t)
                    /\ \A k \in Keys(s) : SameFunction(s, t, k)
SpinAt0(s) == [c \in 1..3 |-> SpinMat(s.mats["SS"], FirstAt(s.rv, Z3), s.nw, c)]

OrderClauses ==
   LET b == Before  a == After
       toInterlace == (Rec.op = "b2i") # Rec.bw
       p == [x \in 1..Len(Rec.perm) |-> Rec.perm[x] + 1]
       exp == CASE Rec.op = "b2i" -> SpinBlock2Interlace(b, Rec.bw) [] Rec.op = "i2b" -> SpinInterlace2Block(b, Rec.bw) [] OTHER -> Reorder(b, p)
   IN [ in_model |-> WellShaped(b) /\ NoDup(b.rv) /\ ShiftsFollow(b) /\ (Rec.op # "reorder" => b.nw % 2 = 0) /\ (Rec.op = "reorder" => IsPerm(p, b.nw)),
        shaped |-> WellShaped(a),
        labels |-> Rec.op # "reorder" => LabelsLaw(b, a, toInterlace),
        permuted |-> Rec.op = "reorder" => /\ \A x \in 1..b.nw : a.cen[x] = b.cen[p[x]]
                                           /\ \A k \in Keys(b) : \A r \in 1..NR(b) : \A x \in 1..b.nw : \A y \in 1..b.nw :
                                                 ElemAt(a, k, b.rv[r], x, y) = b.mats[k][r][p[x]][p[y]],
        shifts_follow |-> ShiftsFollow(a),
        rset_kept |-> SetOf(a.rv) = SetOf(b.rv),
        round_trip |-> SameSystem(SysOf(Rec.back), b),
        info_equals_spec |-> a = exp ]
PairsOf0 == [n \in 1..Len(Rec.pairs) |-> <<Rec.pairs[n][1], Rec.pairs[n][2]>>]
PairsClauses ==
   LET b == Before  a == After  pr == PairsOf0
       exp == CASE Rec.method = "pairs" -> SetSpinPairs(b, pr) [] Rec.method = "interlaced" -> SetSpinInterlaced(b) [] OTHER -> DoubleSpin(b)
   IN [ in_model |-> WellShaped(b) /\ NoDup(b.rv) /\ Has(b.rv, Z3) /\ Len(pr) > 0 /\ PairsWellFormed(a.nw, pr)
                     /\ (Rec.method = "double" => "SS" \notin Keys(b) /\ pr = InterlacedPairs(2 * b.nw))
                     /\ (Rec.method = "interlaced" => pr = InterlacedPairs(b.nw)),
        shaped |-> WellShaped(a) /\ "SS" \in Keys(a) /\ a.rv = b.rv,
        pauli |-> PauliAlgebra(SpinAt0(a), a.nw, pr),
        only_r0 |-> SSOnlyAtR0(a),
        others_untouched |-> IF Rec.method = "double"
                             THEN a.nw = 2 * b.nw /\ a.cen = RvDoubleSpin(b.cen) /\ (ShiftsFollow(b) => ShiftsFollow(a))
                                  /\ \A k \in Keys(b) : a.mats[k] = DoubleTensor(b.mats[k], b.nw)
                             ELSE a.nw = b.nw /\ a.cen = b.cen /\ a.sl = b.sl /\ a.sr = b.sr /\ \A k \in Keys(b) \ {"SS"} : a.mats[k] = b.mats[k],
        info_equals_spec |-> exp.err = "" /\ a = exp.sys ]
(* SS(R=0) |axis| as integers: Rec.ss[a][b][c] = [re, im]; Rec.rest_zero: every other R-block is zero (looked at by the harness) *)
EigenClauses ==
   LET nw == Len(Rec.spins) IN
   [ in_model |-> Rec.norm * Rec.norm = Dot(Rec.axis, Rec.axis) /\ Rec.norm > 0,
     refusal |-> (Rec.err # "") = (Rec.had_ss /\ ~Rec.reset),
     along_axis |-> Rec.err = "" => /\ Len(Rec.ss) = nw
                                    /\ \A a \in 1..nw : \A b \in 1..nw : \A c \in 1..3 :
                                          Rec.ss[a][b][c] = IF a = b THEN <<Rec.spins[a] * Rec.axis[c], 0>> ELSE GZ,
     only_r0 |-> Rec.err = "" => Rec.rest_zero,
     info_exception_class |-> Rec.err \in {"", "RuntimeError"} ]
MvIdx(k) == CHOOSE n \in 1..Len(Rec.mv) : Rec.mv[n][1] = k
MvT2 == [k \in {Rec.mv[n][1] : n \in 1..Len(Rec.mv)} |-> Rec.mv[MvIdx(k)][2]]        \* Rec.mv = [[key, T2], ..]
(* the recorded dictionary of one key as a function <<R, a, b>> -> components; Rec.sparse = [[key, [[R, a, b, comps], ..]], ..] *)
SparseList(k) == Rec.sparse[CHOOSE n \in 1..Len(Rec.sparse) : Rec.sparse[n][1] = k][2]
SparseClauses ==
   LET b == Before  a == After  mv == MvT2 IN
   [ in_model |-> WellShaped(b) /\ NoDup(b.rv) /\ DOMAIN mv \subseteq Keys(b) /\ NoTie(b, mv) /\ {Rec.sparse[n][1] : n \in 1..Len(Rec.sparse)} = DOMAIN mv,
     (* every listed element is an element of the system that reaches the threshold, with its value, and is listed once *)
     dict_sound |-> \A k \in DOMAIN mv : LET L == SparseList(k) IN
                       /\ \A n \in 1..Len(L) : /\ Has(b.rv, L[n][1]) /\ L[n][2] \in 0..(b.nw - 1) /\ L[n][3] \in 0..(b.nw - 1)
                                               /\ L[n][4] = ElemAt(b, k, L[n][1], L[n][2] + 1, L[n][3] + 1)
                                               /\ ReachesMax(L[n][4], mv[k])
                       /\ Cardinality({<<L[n][1], L[n][2], L[n][3]>> : n \in 1..Len(L)}) = Len(L),
     (* every element that reaches the threshold is listed *)
     dict_complete |-> \A k \in DOMAIN mv : \A r \in 1..NR(b) : \A x \in 1..b.nw : \A y \in 1..b.nw :
                          ReachesMax(b.mats[k][r][x][y], mv[k]) =>
                             \E n \in 1..Len(SparseList(k)) : SparseList(k)[n][1] = b.rv[r] /\ SparseList(k)[n][2] = x - 1 /\ SparseList(k)[n][3] = y - 1,
     shaped |-> WellShaped(a),
     round_trip |-> LawSparse(b, a, mv),
     info_rset |-> SetOf(a.rv) = SetOf(SparseRoundTrip(b, mv).rv),
     info_equals_spec |-> LET e == SparseRoundTrip(b, mv) IN Keys(e) = Keys(a) /\ \A k \in Keys(e) : SameFunction(e, a, k) ]
RevClauses ==
   LET rv == Rec.rv  nw == Rec.nw  X == Rec.x
       rr == RvReverseR(rv) IN
   [ in_model |-> NoDup(rv) /\ Len(X) = Len(rv),
     no_failure |-> Rec.err = "",
     valid |-> Rec.err = "" => ReverseRValid(rv, Rec.lstR, Rec.lstmR),
     counting |-> Rec.err = "" => Len(Rec.lstR) + Cardinality(NotFound(rv)) = Len(rv),
     conj |-> Rec.err = "" => Rec.conj = RvConjXXR(rv, X, nw, 1),
     twice |-> Rec.err = "" => \A r \in 1..Len(rv) : Rec.conj2[r] = IF Partners(rv, r) # {} THEN X[r] ELSE MatZeroE(nw, 1),
     info_order |-> Rec.err = "" => Rec.lstR = rr.lstR /\ Rec.lstmR = rr.lstmR,
     info_warnings |-> Rec.err = "" => Rec.nwarn = (IF Rec.ignore THEN 0 ELSE Cardinality(NotFound(rv))) ]
MergeClauses ==
   LET lists == Rec.lists IN
   [ in_model |-> \A n \in 1..Len(lists) : NoDup(lists[n]),
     no_failure |-> Rec.err = "",
     valid |-> Rec.err = "" => MergeValid(lists, Rec.merged, Rec.maps),
     injective |-> Rec.err = "" => MapsInjective(lists, Rec.maps),
     info_order |-> Rec.err = "" => Rec.merged = MergeRvectors(lists).rv ]
ExzClauses ==
   LET L == ExcludeLaws(Rec.rv, Rec.mats, Rec.nrv, Rec.nmats, Rec.T2) IN
   [ in_model |-> NoDup(Rec.rv) /\ (Rec.T2 = 0 \/ Rec.T2 % 2 = 1),
     no_failure |-> Rec.err = "",
     nothing_lost |-> Rec.err = "" => L.nothing_lost,
     no_zero_left |-> Rec.err = "" => L.no_zero_left,
     values |-> Rec.err = "" => L.values,
     no_dup |-> Rec.err = "" => L.no_dup,
     info_order |-> Rec.err = "" => Rec.nrv = RvExcludeZeros(Rec.rv, Rec.mats, Rec.T2).rv ]
IdxClauses ==
   LET rv == Rec.rv IN
   [ in_model |-> NoDup(rv) /\ Len(Rec.queries) = Len(Rec.answers),
     ir |-> \A n \in 1..Len(Rec.queries) :
               IF Has(rv, Rec.queries[n]) THEN Rec.answers[n].err = "" /\ rv[Rec.answers[n].val + 1] = Rec.queries[n] ELSE Rec.answers[n].err # "",
     ir0 |-> IF Has(rv, Z3) THEN Rec.ir0.err = "" /\ rv[Rec.ir0.val + 1] = Z3 ELSE Rec.ir0.err # "",
     index |-> /\ {Rec.index[n][1] : n \in 1..Len(Rec.index)} = SetOf(rv) /\ Len(Rec.index) = Len(rv)
               /\ \A n \in 1..Len(Rec.index) : rv[Rec.index[n][2] + 1] = Rec.index[n][1],
     info_exception_class |-> \A n \in 1..Len(Rec.queries) : Rec.answers[n].err \in {"", "ValueError"} ]
(* from_sparse without centres: num_wann given (Rec.given > 0) or derived from the largest index; centres are zero *)
NocenClauses ==
   [ no_failure |-> Rec.err = "",
     num_wann |-> Rec.err = "" => Rec.nw = (IF Rec.given = 0 THEN Rec.maxidx + 1 ELSE Rec.given),
     centres_zero |-> Rec.err = "" => Rec.cen_zero ]
Clauses == CASE Rec.kind = "order" -> OrderClauses
             [] Rec.kind = "pairs" -> PairsClauses
             [] Rec.kind = "eigen" -> EigenClauses
             [] Rec.kind = "sparse" -> SparseClauses
             [] Rec.kind = "revr" -> RevClauses
             [] Rec.kind = "merge" -> MergeClauses
             [] Rec.kind = "exz" -> ExzClauses
             [] Rec.kind = "idx" -> IdxClauses
             [] Rec.kind = "nocen" -> NocenClauses
Report == \A n \in DOMAIN Clauses : Clauses[n] \/ PrintT(<<"BAD", i, n>>)
RecInit == i \in 1..Len(Recs)
RecSpec == RecInit /\ [][UNCHANGED i]_i
=============================================================================
