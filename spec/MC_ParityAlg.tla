---------------------------- MODULE MC_ParityAlg ----------------------------
(* one TLC state per catalogued formula: the declaration the code computes (transcribed) next to the derived one.
   `tab` is the whole table (evaluated once, identical in every state), f the formula the state is about. *)
EXTENDS ParityAlg
CONSTANT Mutate     \* "" or the name of a formula whose declared TR factor is flipped (sensitivity self-test), or
                    \* "@literal_only": products count only factors whose transform is a literal module constant (must fail on nested products)
VARIABLES tab, f, kind, dTR, dInv, eTR, eInv
vars == <<tab, f, kind, dTR, dInv, eTR, eInv>>
Flip(t) == [t EXCEPT !.factor = -t.factor]
DeclaredM(g) == IF Mutate = "@literal_only" THEN DeclaredLit(g)
                ELSE IF g = Mutate THEN Pair(Flip(Declared(g).tr), Declared(g).inv) ELSE Declared(g)
IsScalar(e) == e[1] \in {"el", "dk", "mul", "com", "plus"}
Table == [g \in AllNames |-> [decl |-> DeclaredM(g), exp |-> Expected(g), phys |-> Entry(g).phys, kind |-> Entry(g).kind,
                              par |-> IF IsScalar(Entry(g).phys) THEN Par(Entry(g).phys) ELSE <<0, 0>>]]
Init == /\ tab = Table
        /\ f \in AllNames
        /\ kind = tab[f].kind
        /\ dTR = tab[f].decl.tr /\ dInv = tab[f].decl.inv
        /\ eTR = tab[f].exp.tr /\ eInv = tab[f].exp.inv
Next == UNCHANGED vars
Spec == Init /\ [][Next]_vars

ScalarPhys(g) == IsScalar(tab[g].phys)
(* C08 *)
DeclaredWellFormed == IsTransform(dTR) /\ IsTransform(dInv)
DeclaredMatchesDerived == dTR = eTR /\ dInv = eInv
ConsistentSums == ScalarPhys(f) => tab[f].par # <<0, 0>>
(* a k-derivative flips both declared parities *)
DerivativeFlips ==
   \A g \in Formulas : (ScalarPhys(f) /\ tab[g].phys = Dk(tab[f].phys)) =>
        /\ tab[g].decl.tr.factor = -dTR.factor /\ tab[g].decl.inv.factor = -dInv.factor
        /\ tab[g].decl.tr.axes = NoAxes /\ tab[g].decl.tr.conj = dTR.conj
(* the declared transformation of a product of two catalogued scalar formulas is the product of the declarations and
   equals what the composition demands *)
ProductsMultiply ==
   \A g \in Formulas : (ScalarPhys(f) /\ ScalarPhys(g)) =>
        LET e == Derived(Mul(<<Lit(tab[f].par), Lit(tab[g].par)>>)) IN
        /\ TransformProduct(<<dTR, tab[g].decl.tr>>) = e.tr
        /\ TransformProduct(<<dInv, tab[g].decl.inv>>) = e.inv
(* every declared transformation is an involution (needed for the group action of C09 and for k -> -k -> k) *)
DeclaredInvolutions == IsInvolution(dTR) /\ IsInvolution(dInv)
Pars == {<<a, b>> : a \in {1, -1}, b \in {1, -1}}
(* all four parity classes occur among the catalogued scalar formulas *)
AllClassesPresent == {tab[g].par : g \in {h \in Formulas : ScalarPhys(h)}} = Pars

(* nested products: some inner node of the tree is odd (non-vacuity of the input class), checked once *)
ASSUME \E n \in NestedNames : \E j \in 1..Len(Nested[n].decl[2]) :
          Nested[n].decl[2][j][1] \in {"prod", "sum", "same", "ref"} /\ ~IsLiteral(Nested[n].decl[2][j]) /\ DeclOf(Nested[n].decl[2][j]).tr.factor = -1
(* algebra of the derivation itself, checked once *)
ASSUME \A t \in Predefined : IsInvolution(t)
ASSUME \A s, t \in Predefined : LET p == TransformProduct(<<s, t>>) IN p = RaiseT \/ (IsTransform(p) /\ IsInvolution(p))
ASSUME \A p \in Pars : LET e == Lit(p) IN
          /\ Par(Dk(Dk(e))) = p /\ Par(Dk(e)) = <<-p[1], -p[2]>>
          /\ \A q \in Pars : LET e2 == Lit(q) IN
                /\ Par(Mul(<<e, e2>>)) = Par(Mul(<<e2, e>>)) /\ Par(Com(e, e2)) = Par(Com(e2, e))
                /\ Par(Com(e, e2)) = <<-Par(Mul(<<e, e2>>))[1], Par(Mul(<<e, e2>>))[2]>>
                /\ Par(Dk(Mul(<<e, e2>>))) = Par(Plus(<<Mul(<<Dk(e), e2>>), Mul(<<e, Dk(e2)>>)>>))   \* Leibniz
(* two derivations of the optical conductivity agree: pair tensor of the Berry connection = Onsager at q = 0 *)
ASSUME Derived(PairT(El("A"))) = Derived(Cond(0))
ASSUME PrintT(<<"TABLE_MISMATCH", TableMismatch>>)
=============================================================================
