------------------------------ MODULE MC_ToGrid ------------------------------
(* TABresult.to_grid as its loop over the k-points (one action per k-point) followed by K__Result.to_grid, for every
   grid, arrival order, duplicated / missing / shifted / off-grid point inside the constants; the result is checked
   against the loop-free statement of C30 (every grid point in C order carries the average of its own images; a grid
   point without image is an error; find_grid recovers the grid). *)
EXTENDS ToGrid

CONSTANTS Grids,        \* set of grids <<g1, g2, g3>>
          MaxAllPerm,   \* grids with at most this many points: every arrival order; larger grids: the named orders
          Mults,        \* set of mesh multipliers m (<<1, 1, 1>>: all points on the grid)
          SlotFormula   \* "code": k2 + g2 (k1 + g1 k0);  "fortran": a plausible wrong variant k0 + g0 (k1 + g1 k2)

GridsQuick == {<<1, 1, 1>>, <<2, 1, 1>>, <<1, 1, 3>>, <<1, 2, 2>>, <<2, 1, 3>>, <<3, 2, 1>>, <<1, 2, 3>>, <<2, 2, 2>>}
GridsMid == GridsQuick \cup {<<3, 3, 1>>, <<2, 3, 2>>, <<3, 2, 3>>, <<3, 3, 3>>, <<1, 3, 2>>, <<2, 2, 3>>}
MultsOne == {<<1, 1, 1>>}
MultsTwo == {<<1, 1, 1>>, <<2, 1, 1>>, <<1, 2, 2>>}

(* the factorisations the end-to-end part of the check runs through the real run() *)
E2EGrids == {<<2, 2, 3>>, <<1, 2, 3>>, <<3, 2, 1>>, <<2, 3, 2>>, <<3, 3, 1>>, <<4, 4, 2>>}
ASSUME \A gg \in E2EGrids : SlotBijection(gg) /\ FactCovers(gg)
ASSUME PrintT(<<"FACT", ToString([gg \in E2EGrids |-> Factorisations(gg)])>>)

VARIABLES g, m, pts, vals, ik, kmap, pc, out, fg
vars == <<g, m, pts, vals, ik, kmap, pc, out, fg>>

Permute(s, p) == [t \in 1..Len(s) |-> s[p[t]]]
Reverse1(s) == [t \in 1..Len(s) |-> s[Len(s) + 1 - t]]
Rotate(s) == [t \in 1..Len(s) |-> s[(t % Len(s)) + 1]]
Orders(gg) ==
   IF NPoints(gg) <= MaxAllPerm THEN {Permute(COrder(gg), p) : p \in Permutations(1..NPoints(gg))}
   ELSE {COrder(gg), FOrder(gg), Reverse1(COrder(gg)), Rotate(FOrder(gg))} \cup {FactOrder(df[1], df[2]) : df \in Factorisations(gg)}
Scale(s, mm) == [t \in 1..Len(s) |-> <<s[t][1] * mm[1], s[t][2] * mm[2], s[t][3] * mm[3]>>]
DropAt(s, j) == [t \in 1..(Len(s) - 1) |-> IF t < j THEN s[t] ELSE s[t + 1]]
(* periodic images: every second point is moved by a reciprocal lattice vector *)
Shifted(s, M) == [t \in 1..Len(s) |-> IF t % 2 = 0 THEN <<s[t][1] + M[1], s[t][2] - M[2], s[t][3] + 2 * M[3]>> ELSE s[t]]
(* variants of a complete list: a missing point, duplicated points (symmetry images), an off-grid point *)
Variants(s, mm, M) ==
   {s, Shifted(s, M)}
   \cup {DropAt(s, j) : j \in {1, (Len(s) + 1) \div 2, Len(s)}}
   \cup {Append(s, s[j]) : j \in {1, Len(s)}}
   \cup {Append(Append(s, s[1]), <<s[1][1] - M[1], s[1][2], s[1][3]>>)}
   \cup (IF mm # <<1, 1, 1>> THEN {Append(s, <<1, 1, 1>>), Append(DropAt(s, 1), <<s[1][1] + 1, s[1][2] + 1, s[1][3] + 1>>)} ELSE {})

(* the value of a k-point: a function of the grid point it is an image of (all images of a grid point agree: symmetry
   images); off-grid points carry values of their own (negative: they must appear nowhere) *)
ValAt(p, t, gg, mm) == IF OnGrid(p, mm) THEN LET s == SlotIndex(KInt(p, gg, mm), gg) + 1 IN 7 * s * s - 3 * s + 1 ELSE -(5 * t + 2)
Init == /\ g \in Grids /\ m \in Mults
        /\ pts \in UNION {Variants(Scale(o, m), m, Mesh(g, m)) : o \in Orders(g)}
        /\ Len(pts) >= 1
        /\ vals = [t \in 1..Len(pts) |-> ValAt(pts[t], t, g, m)]
        /\ ~FindGridTie(pts, Mesh(g, m))
        /\ fg = FindGrid(pts, Mesh(g, m))
        /\ ik = 0 /\ kmap = KMapInit(g) /\ pc = "map" /\ out = <<>>

Slot(k) == IF SlotFormula = "code" THEN SlotIndex(k, g) ELSE k[1] + g[1] * (k[2] + g[2] * k[3])
OnGridPoint == /\ pc = "map" /\ ik < Len(pts) /\ OnGrid(pts[ik + 1], m)
               /\ kmap' = [kmap EXCEPT ![Slot(KInt(pts[ik + 1], g, m)) + 1] = Append(@, ik)] /\ ik' = ik + 1
               /\ UNCHANGED <<g, m, pts, vals, pc, out, fg>>
OffGridPoint == /\ pc = "map" /\ ik < Len(pts) /\ ~OnGrid(pts[ik + 1], m)
                /\ kmap' = KMapStep(kmap, ik, pts[ik + 1], g, m) /\ ik' = ik + 1
                /\ UNCHANGED <<g, m, pts, vals, pc, out, fg>>
CollectAll == /\ pc = "map" /\ ik >= Len(pts)
              /\ out' = Collect(vals, kmap) /\ pc' = "done"
              /\ UNCHANGED <<g, m, pts, vals, ik, kmap, fg>>
Next == OnGridPoint \/ OffGridPoint \/ CollectAll
Spec == Init /\ [][Next]_vars

Done == pc = "done"
LoopIsOperator == Done => out = ToGridOp(pts, vals, g, m)
(* C30 *)
InvBijection == SlotBijection(g) /\ FactCovers(g)
InvOwnValues == Done => OwnValues(pts, vals, g, m, out) /\ OnceOwnValue(pts, vals, g, m, out)
InvMissing == Done => MissingIsError(pts, g, m, out) /\ EmptySlotsAreMissing(pts, g, m, out)
InvFindGrid == FindGridRecovers(pts, g, m)
(* self_to_grid = to_grid(find_grid): with the recovered grid the same result *)
InvSelfToGrid == Done /\ AllPlanes(pts, g, m) /\ AllOnGrid(pts, m) => ToGridOp(pts, vals, fg, m) = out
=============================================================================
