----------------------------- MODULE Disentangle -----------------------------
(* C24: the windows of wannierise and the abstract shape of the gauge matrices U(k) it produces.

   Energies are integers in units of 1/256 eV (exact in binary floating point).  wannierise calls
       frozen   = select_window_degen(E, win_min=froz_min,  win_max=froz_max,  include_degen=False)
       selected = select_window_degen(E, win_min=outer_min, win_max=outer_max, include_degen=True)
   with the default thresh = 1e-2 eV:  gap < 0.01  <=>  integer gap < 3  (2/256 < 0.01 <= 3/256), then adds frozen_states,
   and sets  free = selected \ frozen  after asserting  frozen \subseteq selected.
   Band indices are 1-based here (Bands.tla), the harness shifts.

   The matrices: U(k) is num_bands x num_wann.  The abstract state of one k-point keeps what C24 talks about:
   support (rows that may be non-zero), rank (number of orthonormal columns), captured (every frozen unit vector lies in
   the column space).  Kpoint_and_neighbours.__init__ / rotate_to_projections, update and wannierise's final
   U_to_full_BZ/update_chk are the actions InitU, Update, Finalize. *)
EXTENDS Bands

TH == 3      \* thresh = 1e-2 eV in units of 1/256 eV, strict comparison

FrozenWindow(E, flo, fhi) == SelectWindow(E, TH, flo, fhi, FALSE)
OuterWindow(E, olo, ohi) == SelectWindow(E, TH, olo, ohi, TRUE)
Frozen(E, flo, fhi, extra) == FrozenWindow(E, flo, fhi) \cup extra           \* frozen_states (list form)
Free(E, flo, fhi, extra, olo, ohi) == OuterWindow(E, olo, ohi) \ Frozen(E, flo, fhi, extra)
(* `assert np.all(selected_bands[frozen])` *)
AssertPasses(E, flo, fhi, extra, olo, ohi) == Frozen(E, flo, fhi, extra) \subseteq OuterWindow(E, olo, ohi)
WindowsNested(flo, fhi, olo, ohi) == olo <= flo /\ fhi <= ohi
(* named precondition of the disentanglement: get_max_eig needs 0 <= num_wann - |frozen| <= |free| *)
Feasible(nfrozen, nouter, nw) == nfrozen <= nw /\ nw <= nouter

(* what C24 demands of the abstract state of a k-point *)
GaugeValid(st, frozen, outer, nw) == /\ st.rank = nw
                                     /\ st.support \subseteq outer
                                     /\ st.captured
=============================================================================
