------------------------------ MODULE KSymBase ------------------------------
(* Shared kernel of C03 (FactorKernel) and C07 (IrredKernel): integer k-grids, their factorisation into a division
   (K-) grid and an FFT grid, magnetic point groups acting on grid points and on integer tensors, the symmetry
   reduction of Grid.get_K_list.

   Conventions (all integers, 1-based tuples of length 3 for directions x,y,z):
     n = <<n1,n2,n3>>          a grid; its points are <<p1,p2,p3>> with 0 <= pi < ni, meaning k_i = p_i / n_i
     div, fft                  NKdiv and NKFFT of wannierberri.Grid;  dense grid N = div * fft (element-wise)
     group element             [A |-> 3x3 integer matrix, inv |-> BOOLEAN, tr |-> BOOLEAN] :
                               A is the PROPER rotation written in reduced coordinates acting on column vectors,
                               exactly the fields R, Inv, TR of symmetry/point_symmetry.py:PointSymmetry.
                               A k-vector transforms as  iTR * iInv * A k   (PointSymmetry docstring,
                               transform_reduced_vector).  For lattices whose basis vectors are orthogonal and axis
                               aligned A is also the Cartesian rotation that transform_tensor applies to tensor indices. *)
EXTENDS Integers, Sequences, FiniteSets, TLC, FiniteSetsExt, SequencesExt

-----------------------------------------------------------------------------
(* 3x3 integer matrices as tuples of rows *)
Id3 == <<<<1, 0, 0>>, <<0, 1, 0>>, <<0, 0, 1>>>>
MatMul(a, b) ==
   LET e(i, j) == a[i][1] * b[1][j] + a[i][2] * b[2][j] + a[i][3] * b[3][j]
   IN <<<<e(1, 1), e(1, 2), e(1, 3)>>, <<e(2, 1), e(2, 2), e(2, 3)>>, <<e(3, 1), e(3, 2), e(3, 3)>>>>
Diag(a, b, c) == <<<<a, 0, 0>>, <<0, b, 0>>, <<0, 0, c>>>>

(* PointSymmetry *)
Sym(A, inv, tr) == [A |-> A, inv |-> inv, tr |-> tr]
(* PointSymmetry.__mul__ : proper parts multiply, flags add modulo 2 *)
Mul(g, h) == [A |-> MatMul(g.A, h.A), inv |-> (g.inv # h.inv), tr |-> (g.tr # h.tr)]
(* sign with which a k-vector is multiplied: iTR * iInv *)
KSign(g) == (IF g.inv THEN -1 ELSE 1) * (IF g.tr THEN -1 ELSE 1)

(* PointGroup.__init__: closure of the generators under multiplication (as a set; the append order of the code does
   not matter for anything stated here) *)
RECURSIVE ClosureG(_, _)
ClosureG(S, gens) ==
   LET T == S \cup {Mul(a, b) : a \in S, b \in gens}
   IN IF T = S THEN S ELSE ClosureG(T, gens)
(* a finite monoid generated inside a group is the group *)
GroupFrom(gens) == IF gens = {} THEN {Sym(Id3, FALSE, FALSE)} ELSE ClosureG(gens, gens)

(* pre-defined operations of point_symmetry.py, in reduced coordinates of an axis-aligned orthogonal lattice *)
E_    == Sym(Id3, FALSE, FALSE)
Inv_  == Sym(Id3, TRUE, FALSE)
TR_   == Sym(Id3, FALSE, TRUE)
C2x_  == Sym(Diag(1, -1, -1), FALSE, FALSE)
C2y_  == Sym(Diag(-1, 1, -1), FALSE, FALSE)
C2z_  == Sym(Diag(-1, -1, 1), FALSE, FALSE)
Mx_   == Sym(Diag(1, -1, -1), TRUE, FALSE)
My_   == Sym(Diag(-1, 1, -1), TRUE, FALSE)
Mz_   == Sym(Diag(-1, -1, 1), TRUE, FALSE)
C4z_  == Sym(<<<<0, -1, 0>>, <<1, 0, 0>>, <<0, 0, 1>>>>, FALSE, FALSE)
C4x_  == Sym(<<<<1, 0, 0>>, <<0, 0, -1>>, <<0, 1, 0>>>>, FALSE, FALSE)
C3d_  == Sym(<<<<0, 0, 1>>, <<1, 0, 0>>, <<0, 1, 0>>>>, FALSE, FALSE)   \* Rotation(3, [1,1,1])
TC2x_ == Sym(Diag(1, -1, -1), FALSE, TRUE)                              \* C2x * TimeReversal
TC4z_ == Sym(<<<<0, -1, 0>>, <<1, 0, 0>>, <<0, 0, 1>>>>, FALSE, TRUE)   \* C4z * TimeReversal
TMx_  == Sym(Diag(1, -1, -1), TRUE, TRUE)                               \* Mx * TimeReversal
(* hexagonal lattice a1 = (1,0,0), a2 = (-1/2, sqrt(3)/2, 0), a3 = (0,0,c): reduced (reciprocal) coordinates *)
H6z_  == Sym(<<<<0, -1, 0>>, <<1, 1, 0>>, <<0, 0, 1>>>>, FALSE, FALSE)  \* C6z
H3z_  == Sym(<<<<-1, -1, 0>>, <<1, 0, 0>>, <<0, 0, 1>>>>, FALSE, FALSE) \* C3z
HMx_  == Sym(<<<<1, 0, 0>>, <<-1, -1, 0>>, <<0, 0, -1>>>>, TRUE, FALSE) \* Mx
HC2x_ == Sym(<<<<1, 0, 0>>, <<-1, -1, 0>>, <<0, 0, -1>>>>, FALSE, FALSE) \* C2x
HTC2x_ == Sym(<<<<1, 0, 0>>, <<-1, -1, 0>>, <<0, 0, -1>>>>, FALSE, TRUE) \* C2x * TimeReversal

(* catalogue: name -> generators.  "cart" groups (first block) live on axis-aligned orthogonal lattices, so that A is
   also the Cartesian rotation and tensors of any rank can be transformed exactly; the hexagonal ones are used with
   rank-0 (scalar / pseudo-scalar) data only *)
CartGens ==
   [ C1   |-> {},
     Ci   |-> {Inv_},
     T    |-> {TR_},
     C2   |-> {C2z_},
     Cs   |-> {Mz_},
     C2v  |-> {Mx_, My_},
     D2h  |-> {Mx_, My_, Mz_},
     C4   |-> {C4z_},
     C4v  |-> {C4z_, Mx_},
     C4h  |-> {C4z_, Inv_},
     D4hT |-> {C4z_, Mx_, Mz_, TR_},
     mC2x |-> {TC2x_},
     mC4  |-> {TC4z_},
     mFe  |-> {C4z_, TC2x_, Inv_},          \* tests: symmetries_Fe
     mC4v |-> {C4z_, TMx_},
     T23  |-> {C3d_, C2z_, C2x_},
     O    |-> {C4z_, C4x_},
     Oh   |-> {C4z_, C4x_, Inv_},
     SiT  |-> {C4z_, C4x_, TR_} ]           \* tests: symmetries_Si
HexGens ==
   [ H3   |-> {H3z_},
     H6   |-> {H6z_},
     H3T  |-> {H3z_, TR_},                  \* tests: KaneMele
     H6v  |-> {H6z_, HMx_},
     TeT  |-> {H3z_, HC2x_, TR_},           \* tests: symmetries_Te
     mH6v |-> {H6z_, HMx_, HTC2x_} ]
CartNames == DOMAIN CartGens
HexNames == DOMAIN HexGens
AllNames == CartNames \cup HexNames
Gens(name) == IF name \in CartNames THEN CartGens[name] ELSE HexGens[name]
(* PointGroup(generator_list).symmetries as a set.  (Evaluate once per model state and keep the value in a variable: TLC
   does not cache it.) *)
GroupOf(name) == GroupFrom(Gens(name))
IsCart(name) == name \in CartNames

-----------------------------------------------------------------------------
(* grids *)
Prod3(n) == n[1] * n[2] * n[3]
GridPts(n) == {<<x, y, z>> : x \in 0..(n[1] - 1), y \in 0..(n[2] - 1), z \in 0..(n[3] - 1)}
Times3(a, b) == <<a[1] * b[1], a[2] * b[2], a[3] * b[3]>>

(* PointGroup.symmetric_grid(n) = check_basis_symmetry(recip_lattice / n): the symmetry operations map the grid with
   n_i points along b_i onto itself: (1/n_i) M_ij n_j integer for the row-action matrix M = A^T *)
SymmetricGrid(n, G) == \A g \in G : \A i \in 1..3, j \in 1..3 : (g.A[i][j] * n[i]) % n[j] = 0

(* image of the grid point p of grid n under g: reduced coordinate k_i = p_i/n_i, k' = sign * A k.
   (A[i][j] * n[i]) \div n[j] is exact on symmetric grids. *)
ActK(g, p, n) ==
   LET s == KSign(g)
       c(i) == (s * (((g.A[i][1] * n[i]) \div n[1]) * p[1] + ((g.A[i][2] * n[i]) \div n[2]) * p[2]
                     + ((g.A[i][3] * n[i]) \div n[3]) * p[3])) % n[i]
   IN <<c(1), c(2), c(3)>>

(* KpointBZparallel.star = PointGroup.star(K), followed in get_K_list by round(star * div) % div *)
Star(p, n, G) == {ActK(g, p, n) : g \in G}
Orbits(n, G) == {Star(p, n, G) : p \in GridPts(n)}

(* the position of a K-point in the loops of Grid.get_K_list:
     construction / final flattening : x outermost, z innermost
     symmetry reduction              : z outermost, x innermost *)
FlatIndex(p, n) == p[3] + n[3] * (p[2] + n[2] * p[1])
ScanIndex(p, n) == p[1] + n[1] * (p[2] + n[2] * p[3])
FlatPoint(i, n) == <<i \div (n[2] * n[3]), (i \div n[3]) % n[2], i % n[3]>>
ScanPoint(i, n) == <<i % n[1], (i \div n[1]) % n[2], i \div (n[1] * n[2])>>

(* Grid.get_K_list(use_symmetry=True), functional form: the loop visits the points in scan order; a point that is still
   alive absorbs (KpointBZ.absorb: add_factor) every other member of its star, which become None.
   State of the loop: [w |-> weight (number of absorbed original K-points, 0 = None)]. *)
ScanStep(w, p, n, G) ==
   IF w[p] = 0 THEN w
   ELSE LET st == Star(p, n, G) \ {p}
            add == FoldSet(LAMBDA k, acc : acc + w[k], 0, st)
        IN [k \in DOMAIN w |-> IF k = p THEN w[p] + add ELSE IF k \in st THEN 0 ELSE w[k]]
(* the whole loop: fold of the loop body over the scan positions 0 .. prod(n)-1 (FoldLeft is iterative in TLC) *)
ReducedWeights(n, G) ==
   FoldLeft(LAMBDA w, i : ScanStep(w, ScanPoint(i, n), n, G), [p \in GridPts(n) |-> 1], [k \in 1..Prod3(n) |-> k - 1])
FullWeights(n) == [p \in GridPts(n) |-> 1]
(* the returned K_list: surviving points in flattening order, each with its weight (factor * prod(div)) *)
KListOf(w, n) ==
   LET alive == {i \in 0..(Prod3(n) - 1) : w[FlatPoint(i, n)] > 0}
       s == SetToSortSeq(alive, <)
   IN [j \in 1..Len(s) |-> <<FlatPoint(s[j], n), w[FlatPoint(s[j], n)]>>]
KList(div, G, useSym) == KListOf(IF useSym THEN ReducedWeights(div, G) ELSE FullWeights(div), div)

(* Data_K.kpoints_all for the K-point x of the division grid: (grid.points_FFT + Kp_fullBZ) % 1 with
   Kp_fullBZ = K / NKFFT, K = x / div, points_FFT = m / fft in the order ix outermost, iz innermost.
   As a point of the dense grid N = div*fft :  p_i = (m_i * div_i + x_i) % N_i.
   KpDivides = FALSE models a plausible wrong K-shift (Kp_fullBZ = K): p_i = (m_i*div_i + x_i*fft_i) % N_i *)
KSetSeq(x, div, fft, KpDivides) ==
   [j \in 1..Prod3(fft) |->
      LET m == FlatPoint(j - 1, fft)
          c(i) == (m[i] * div[i] + (IF KpDivides THEN x[i] ELSE x[i] * fft[i])) % (div[i] * fft[i])
      IN <<c(1), c(2), c(3)>>]
SeqRange(s) == {s[j] : j \in 1..Len(s)}
KSet(x, div, fft) == SeqRange(KSetSeq(x, div, fft, TRUE))

-----------------------------------------------------------------------------
(* integer tensors of rank 0..2 and PointSymmetry.transform_tensor:
     every tensor index is rotated with the proper rotation R (rotate: res @ R.T), then transformTR is applied when the
     operation contains time reversal and transformInv when it contains inversion.
   A declared transform is Transform(factor = f, transpose_axes = (1,0) if t): [f |-> 1 or -1, t |-> BOOLEAN]
     transform_ident = [f |-> 1, t |-> FALSE], transform_odd = [f |-> -1, t |-> FALSE],
     transform_trans = [f |-> 1, t |-> TRUE] (rank 2 only) *)
TIdent == [f |-> 1, t |-> FALSE]
TOdd   == [f |-> -1, t |-> FALSE]
TTrans == [f |-> 1, t |-> TRUE]
TOddTrans == [f |-> -1, t |-> TRUE]

ZeroT(rank) == IF rank = 0 THEN 0 ELSE IF rank = 1 THEN <<0, 0, 0>> ELSE <<<<0, 0, 0>>, <<0, 0, 0>>, <<0, 0, 0>>>>
AddT(rank, a, b) ==
   IF rank = 0 THEN a + b
   ELSE IF rank = 1 THEN <<a[1] + b[1], a[2] + b[2], a[3] + b[3]>>
   ELSE [i \in 1..3 |-> <<a[i][1] + b[i][1], a[i][2] + b[i][2], a[i][3] + b[i][3]>>]
ScaleT(rank, c, a) ==
   IF rank = 0 THEN c * a
   ELSE IF rank = 1 THEN <<c * a[1], c * a[2], c * a[3]>>
   ELSE [i \in 1..3 |-> <<c * a[i][1], c * a[i][2], c * a[i][3]>>]
TransposeT(a) == [i \in 1..3 |-> <<a[1][i], a[2][i], a[3][i]>>]
RotateT(rank, R, a) ==
   IF rank = 0 THEN a
   ELSE IF rank = 1 THEN [i \in 1..3 |-> R[i][1] * a[1] + R[i][2] * a[2] + R[i][3] * a[3]]
   ELSE MatMul(MatMul(R, a), TransposeT(R))
ApplyTransform(rank, tf, a) == ScaleT(rank, tf.f, IF tf.t /\ rank = 2 THEN TransposeT(a) ELSE a)
Act(g, rank, tTR, tInv, a) ==
   LET r1 == RotateT(rank, g.A, a)
       r2 == IF g.tr THEN ApplyTransform(rank, tTR, r1) ELSE r1
   IN IF g.inv THEN ApplyTransform(rank, tInv, r2) ELSE r2
(* normal form of a tensor value (tuples of tuples) so that values built by function constructors compare by value *)
NormT(rank, a) ==
   IF rank = 0 THEN a
   ELSE IF rank = 1 THEN <<a[1], a[2], a[3]>>
   ELSE <<<<a[1][1], a[1][2], a[1][3]>>, <<a[2][1], a[2][2], a[2][3]>>, <<a[3][1], a[3][2], a[3][3]>>>>
SumT(rank, S, F(_)) == FoldSet(LAMBDA x, acc : AddT(rank, F(x), acc), ZeroT(rank), S)
=============================================================================
