------------------------------ MODULE SysStore ------------------------------
(* C18: real-space systems and their three persistent forms (directory of .npz files, _tb.dat, _hr.dat + Wannier
   centre file), as a state machine over a store of abstract systems and a disk of abstract files.

   Numbers: every real quantity (lattice, Cartesian centres, real and imaginary parts of matrix elements) is an
   integer in units of 1/8, so it is exactly representable in binary floating point and exactly printed by the
   text formats (15.8e, .18e and width-10 repr).  A complex number is <<re, im>>.

   A system is a record
     [nw, lat (3 rows of 3), cen (nw rows of 3, Cartesian), R (sequence of integer 3-vectors, contains <<0,0,0>>),
      mats (function: name -> table; "Ham": [iR][m][n] -> complex, "AA","SS": [iR][m][n][c] -> complex),
      periodic (3 booleans), pg (set of <<3x3 integer matrix, TR>>), phon (is_phonon)]
   The order of R is what a file / an object happens to use: two systems are the same system when they have the same
   set of R-vectors and the same block for every R-vector (SameCore, SameMats below), whatever the order.
   A text file is a sequence of lines, a line a sequence of integers (float tokens are in eighths, the comment line and
   blank lines are <<>>): the layout is modelled where the readers' logic depends on it (Ndegen lines of 15 numbers,
   line cursor of get_system_tb, column-major (n outer, m inner) matrix rows, even/odd halves of the WCC file). *)
EXTENDS Integers, Sequences, FiniteSets, TLC, SequencesExt, FiniteSetsExt

CONSTANTS WccSplitCeil   \* read_WCC_WT_format splits the file at ceil(n/2) (TRUE: what the writer's data[::2], data[1::2]
                         \* halves need; system_hr.py since 849f3dda) or at n \div 2 (FALSE: the former defect, kept as a
                         \* must-fail sensitivity variant)

Zero3 == <<0, 0, 0>>
Neg3(R) == <<-R[1], -R[2], -R[3]>>
CAdd(x, y) == <<x[1] + y[1], x[2] + y[2]>>
Conj(x) == <<x[1], -x[2]>>
FirstIndex(seq, x) == Min({i \in 1..Len(seq) : seq[i] = x})
Has(s, name) == name \in DOMAIN s.mats
Ident3 == <<<<1, 0, 0>>, <<0, 1, 0>>, <<0, 0, 1>>>>
TrivialPG == {<<Ident3, FALSE>>}
AllPeriodic == <<TRUE, TRUE, TRUE>>
Fail(msg) == [err |-> msg]
Ok(s) == [err |-> "", sys |-> s]

(* Rvectors.iR0 *)
IR0(R) == FirstIndex(R, Zero3)
(* convention I: the diagonal of AA(R=0) is zero (System_R.check_AA_diag_zero); a _tb.dat file stores AA in convention II,
   i.e. with the centres added on that diagonal, which is the only place where the format carries the centres *)
AADiagZero(s) == Has(s, "AA") => \A m \in 1..s.nw : \A c \in 1..3 : s.mats["AA"][IR0(s.R)][m][m][c][1] = 0

-----------------------------------------------------------------------------
(* writers *)
(* Ndegen = ones; for i in range(0, nR, 15): one line with Ndegen[i:i+15] *)
NdegenLines(nd) == [l \in 1..((Len(nd) + 14) \div 15) |-> SubSeq(nd, 15 * (l - 1) + 1, Min({15 * l, Len(nd)}))]
Ones(n) == [i \in 1..n |-> 1]
(* rows are written "for n in range_wann for m in range_wann": row j (1-based) holds element (m, n) *)
RowM(j, nw) == ((j - 1) % nw) + 1
RowN(j, nw) == ((j - 1) \div nw) + 1

HamBlockTb(s, nd, ir) ==
   << <<>>, s.R[ir] >> \o
   [j \in 1..(s.nw * s.nw) |-> LET m == RowM(j, s.nw)  n == RowN(j, s.nw)  h == s.mats["Ham"][ir][m][n]
                               IN <<m, n, h[1] * nd[ir], h[2] * nd[ir]>>]
(* use_convention_II (conv2, the default): AA[iR0, m, m] += wannier_centers_cart ; otherwise AA is written as it is *)
AAconvII(s, ir, m, n, c, conv2) ==
   LET a == s.mats["AA"][ir][m][n][c]
   IN IF conv2 /\ ir = IR0(s.R) /\ m = n THEN <<a[1] + s.cen[m][c], a[2]>> ELSE a
AABlockTb(s, nd, ir, conv2) ==
   << <<>>, s.R[ir] >> \o
   [j \in 1..(s.nw * s.nw) |-> LET m == RowM(j, s.nw)  n == RowN(j, s.nw)
                                   a == [c \in 1..3 |-> AAconvII(s, ir, m, n, c, conv2)]
                               IN <<m, n, a[1][1] * nd[ir], a[1][2] * nd[ir], a[2][1] * nd[ir], a[2][2] * nd[ir],
                                    a[3][1] * nd[ir], a[3][2] * nd[ir]>>]
(* system_tb.write_tb_file (nd = Ndegen written; the code writes ones, files of other origin carry other values) *)
TbLinesNdC(s, nd, conv2) ==
   LET nR == Len(s.R) IN
   << <<>>, s.lat[1], s.lat[2], s.lat[3], <<s.nw>>, <<nR>> >> \o NdegenLines(nd)
   \o FlattenSeq([ir \in 1..nR |-> HamBlockTb(s, nd, ir)])
   \o (IF Has(s, "AA") THEN FlattenSeq([ir \in 1..nR |-> AABlockTb(s, nd, ir, conv2)]) ELSE <<>>)
TbLinesNd(s, nd) == TbLinesNdC(s, nd, TRUE)
TbLines(s) == TbLinesNd(s, Ones(Len(s.R)))
TbLinesC(s, conv2) == TbLinesNdC(s, Ones(Len(s.R)), conv2)

(* system_hr.write_hr_file: rows "R1 R2 R3 m n re im", no blank lines *)
HrLinesNd(s, nd) ==
   LET nR == Len(s.R) IN
   << <<>>, <<s.nw>>, <<nR>> >> \o NdegenLines(nd)
   \o FlattenSeq([ir \in 1..nR |->
         [j \in 1..(s.nw * s.nw) |-> LET m == RowM(j, s.nw)  n == RowN(j, s.nw)  h == s.mats["Ham"][ir][m][n]
                                     IN s.R[ir] \o <<m, n, h[1] * nd[ir], h[2] * nd[ir]>>]])
HrLines(s) == HrLinesNd(s, Ones(Len(s.R)))
(* write_WCC_WT_format: data[::2] then data[1::2] (0-based), i.e. 1-based rows 1,3,5,.. then 2,4,6,.. *)
WccLines(cen) ==
   LET n == Len(cen)  ne == (n + 1) \div 2
   IN [l \in 1..n |-> IF l <= ne THEN cen[2 * l - 1] ELSE cen[2 * (l - ne)]]

-----------------------------------------------------------------------------
(* readers *)
(* while len(Ndegen) < nRvec: Ndegen += f.readline().split()  -- from line `pos`; returns the numbers and the next line *)
RECURSIVE ReadIntsRec(_, _, _, _)
ReadIntsRec(f, pos, n, acc) ==
   IF Len(acc) >= n THEN [vals |-> acc, next |-> pos]
   ELSE IF pos > Len(f) THEN [vals |-> acc, next |-> 0]      \* (the code would spin at end of file)
   ELSE ReadIntsRec(f, pos + 1, n, acc \o f[pos])
ReadInts(f, pos, n) == ReadIntsRec(f, pos, n, <<>>)
LineAt(f, p) == IF p >= 1 /\ p <= Len(f) THEN f[p] ELSE <<>>     \* readline() at end of file gives ''
Tok(l, k) == IF k <= Len(l) THEN l[k] ELSE 0

(* get_system_tb(tb_file, wannier_centers_cart = wcc or None, berry = needAA): line cursor as in the code.
   hh = [[readline().split()[2:4] for _ in nw] for _ in nw] ... .transpose((1,0,2)) : element (m, n) is row (n-1)*nw + m *)
ReadTbC(f, needAA, wccGiven, wcc, conv2) ==
   LET lat == <<SubSeq(f[2], 1, 3), SubSeq(f[3], 1, 3), SubSeq(f[4], 1, 3)>>
       nw == f[5][1]
       nR == f[6][1]
       ndr == ReadInts(f, 7, nR)
       nd == ndr.vals
       p0 == ndr.next                              \* first line of the first Ham block (its blank line)
       blk == nw * nw + 2
       Rof(ir) == SubSeq(LineAt(f, p0 + (ir - 1) * blk + 1), 1, 3)
       R == [ir \in 1..nR |-> Rof(ir)]
       HamRow(ir, m, n) == LineAt(f, p0 + (ir - 1) * blk + 1 + (n - 1) * nw + m)
       Ham == [ir \in 1..nR |-> [m \in 1..nw |-> [n \in 1..nw |->
                 <<Tok(HamRow(ir, m, n), 3) \div nd[ir], Tok(HamRow(ir, m, n), 4) \div nd[ir]>>]]]
       pA == p0 + nR * blk                          \* first line of the AA section
       ir0 == IR0(R)
       ARline(ir) == LineAt(f, pA + (ir - 1) * blk + 1)
       ARow(ir, m, n) == LineAt(f, pA + (ir - 1) * blk + 1 + (n - 1) * nw + m)
       AAraw(ir, m, n, c) == <<Tok(ARow(ir, m, n), 1 + 2 * c) \div nd[ir], Tok(ARow(ir, m, n), 2 + 2 * c) \div nd[ir]>>
       wccFile == [m \in 1..nw |-> [c \in 1..3 |-> AAraw(ir0, m, m, c)[1]]]
       cen == IF wccGiven THEN wcc ELSE wccFile
       AA == [ir \in 1..nR |-> [m \in 1..nw |-> [n \in 1..nw |-> [c \in 1..3 |->
                 IF conv2 /\ ir = ir0 /\ m = n THEN <<AAraw(ir, m, n, c)[1] - cen[m][c], AAraw(ir, m, n, c)[2]>>
                 ELSE AAraw(ir, m, n, c)]]]]
       \* which AA blocks the code visits: all (needAA), 1..iR0 (centres wanted from the file), none
       visited == IF needAA THEN 1..nR ELSE IF ~wccGiven THEN 1..ir0 ELSE {}
       base == [nw |-> nw, lat |-> lat, cen |-> cen, R |-> R, periodic |-> AllPeriodic, pg |-> TrivialPG, phon |-> FALSE]
   IN IF ndr.next = 0 THEN Fail("eof")
      ELSE IF Zero3 \notin {R[ir] : ir \in 1..nR} THEN Fail("ValueError")          \* iRvec.tolist().index([0,0,0])
      ELSE IF \E ir \in visited : ARline(ir) # R[ir] THEN Fail("ValueError")       \* assert / comparison of the R line (end of file: '' )
      ELSE Ok(base @@ [mats |-> IF needAA THEN ("Ham" :> Ham) @@ ("AA" :> AA) ELSE ("Ham" :> Ham)])
(* convention_II_to_I = True is the default of get_system_tb *)
ReadTb(f, needAA, wccGiven, wcc) == ReadTbC(f, needAA, wccGiven, wcc, TRUE)

(* read_WCC_WT_format: data_2[::2] = data[:h]; data_2[1::2] = data[h:]  (numpy assignment: equal row counts, or a single
   source row is broadcast; anything else raises ValueError) *)
Assignable(slots, src) == src = slots \/ src = 1
ReadWcc(w) ==
   LET n == Len(w)
       h == IF WccSplitCeil THEN (n + 1) \div 2 ELSE n \div 2
       ne == (n + 1) \div 2       \* number of slots data_2[::2]
       no == n \div 2             \* number of slots data_2[1::2]
       first == SubSeq(w, 1, h)
       second == SubSeq(w, h + 1, n)
   IN IF ~Assignable(ne, Len(first)) \/ ~Assignable(no, Len(second)) THEN Fail("ValueError")
      ELSE [err |-> "",
            cen |-> [a \in 1..n |-> IF a % 2 = 1 THEN (IF Len(first) = 1 THEN first[1] ELSE first[(a + 1) \div 2])
                                    ELSE (IF Len(second) = 1 THEN second[1] ELSE second[a \div 2])]]

(* get_system_hr(seedname, wannier_centers_cart = wcc or None, real_lattice = lat): R from the first row of each block,
   element (m, n) from row (n-1)*nw + m, columns 6 and 7 *)
ReadHr(f, w, lat, wccGiven, wcc) ==
   LET nw == f[2][1]
       nR == f[3][1]
       ndr == ReadInts(f, 4, nR)
       nd == ndr.vals
       p0 == ndr.next
       blk == nw * nw
       R == [ir \in 1..nR |-> SubSeq(LineAt(f, p0 + (ir - 1) * blk), 1, 3)]
       Row(ir, m, n) == LineAt(f, p0 + (ir - 1) * blk + (n - 1) * nw + m - 1)
       Ham == [ir \in 1..nR |-> [m \in 1..nw |-> [n \in 1..nw |->
                 <<Tok(Row(ir, m, n), 6) \div nd[ir], Tok(Row(ir, m, n), 7) \div nd[ir]>>]]]
       rw == IF wccGiven THEN [err |-> "", cen |-> wcc] ELSE ReadWcc(w)
   IN IF ndr.next = 0 THEN Fail("eof")
      ELSE IF rw.err # "" THEN Fail(rw.err)
      ELSE Ok([nw |-> nw, lat |-> lat, cen |-> rw.cen, R |-> R, mats |-> ("Ham" :> Ham),
               periodic |-> AllPeriodic, pg |-> TrivialPG, phon |-> FALSE])

-----------------------------------------------------------------------------
(* directory of .npz files.  to_npz writes the essential properties (num_wann, real_lattice, iRvec, periodic, is_phonon,
   wannier_centers_cart, pointgroup) and one _XX_R_<key>.npz per matrix; it never removes files of an existing
   directory.  load_npz loads every *.npz it finds.  A directory is [props : system the properties came from,
   mats : name -> table as stored] *)
(* PointGroup(dictionary = pg.as_dict()): the saved elements are used as generators; a closed list stays as it is *)
Mat3Mul(A, B) == [i \in 1..3 |-> [j \in 1..3 |-> A[i][1] * B[1][j] + A[i][2] * B[2][j] + A[i][3] * B[3][j]]]
SymMul(a, b) == <<Mat3Mul(a[1], b[1]), a[2] # b[2]>>
RECURSIVE GroupClosure(_)
GroupClosure(S) == LET T == S \cup {SymMul(a, b) : a, b \in S} IN IF T = S THEN S ELSE GroupClosure(T)

EmptyDir == [present |-> FALSE]
SaveDir(old, s) ==
   [present |-> TRUE,
    props |-> [nw |-> s.nw, lat |-> s.lat, cen |-> s.cen, R |-> s.R, periodic |-> s.periodic, pg |-> s.pg, phon |-> s.phon],
    mats |-> IF old.present THEN s.mats @@ old.mats ELSE s.mats]        \* same-named files are overwritten, others stay
(* set_R_mat: value.shape[1:3] == (nw, nw) and value.shape[0] == nRvec *)
ShapeOK(tab, nw, nR) == Len(tab) = nR /\ \A ir \in 1..Len(tab) : Len(tab[ir]) = nw /\ \A m \in 1..Len(tab[ir]) : Len(tab[ir][m]) = nw
LoadDir(d) ==
   IF ~d.present THEN Fail("FileNotFoundError")
   ELSE IF \E k \in DOMAIN d.mats : ~ShapeOK(d.mats[k], d.props.nw, Len(d.props.R)) THEN Fail("AssertionError")
   ELSE Ok([d.props EXCEPT !.pg = GroupClosure(@)] @@ [mats |-> d.mats])
-----------------------------------------------------------------------------
(* what a round trip has to give back (C18): the same R-vectors as a set and the same block for every R-vector; the
   order in which an object lists its R-vectors is not part of the statement *)
RSet(s) == {s.R[i] : i \in 1..Len(s.R)}
IdxR(s, r) == FirstIndex(s.R, r)
SameRvectors(s, t) == Len(t.R) = Len(s.R) /\ RSet(t) = RSet(s)
SameTable(s, t, k) == /\ SameRvectors(s, t) /\ k \in DOMAIN t.mats /\ k \in DOMAIN s.mats
                      /\ Len(t.mats[k]) = Len(t.R)
                      /\ \A r \in RSet(s) : t.mats[k][IdxR(t, r)] = s.mats[k][IdxR(s, r)]
SameCore(s, t) == t.nw = s.nw /\ SameRvectors(s, t) /\ SameTable(s, t, "Ham")
SameLattice(s, t) == t.lat = s.lat
SameCentres(s, t) == t.cen = s.cen
(* every matrix of s comes back (t may carry more, e.g. a reader that always loads AA) *)
HasMats(s, t) == SameRvectors(s, t) /\ \A k \in DOMAIN s.mats : SameTable(s, t, k)
SameMats(s, t) == DOMAIN t.mats = DOMAIN s.mats /\ HasMats(s, t)
=============================================================================
