---------------------------- MODULE MC_PathRefine ----------------------------
(* Path.get_refined as its loop (one action per original point) for every small path (points, labels dict, breaks
   list without a break at the last point: PathOK) and refinement factor inside the constants.  The refined path is checked against the loop-free statement
   (original point i sits at RefIdx(i) with its label / break, uniform sub-division, path coordinate unchanged). *)
EXTENDS PathSpec

CONSTANTS Points,     \* set of path points <<x, y, z, d>>
          MaxLen,     \* paths of 1..MaxLen points
          Factors,
          ComposeWith, \* second factors for the composition law
          LatA,
          NodePaths,  \* additional inputs: paths produced by FromNodes
          RefineAcrossBreaks   \* FALSE: the code; TRUE: a plausible wrong variant that sub-divides the step over a break too

PointsQuick == {<<0, 0, 0, 1>>, <<1, -1, 2, 2>>}
PointsMid == {<<0, 0, 0, 1>>, <<1, -1, 2, 2>>, <<2, 0, 1, 3>>}
LatSkew == <<<<1, 0, 0>>, <<1, 2, 0>>, <<0, -1, 2>>>>
SpecList(s) == [mode |-> "list", nk |-> s, inv |-> <<0, 1>>, A |-> LatSkew]
NodePathsDef ==
   LET strip(p) == [K |-> p.K, labels |-> p.labels, breaks |-> p.breaks] IN
   { strip(FromNodes(<<<<0, 0, 0>>, <<1, 0, 0>>, <<1, 1, 0>>>>, <<"G", "X", "M">>, SpecList(<<3, 4>>))),
     strip(FromNodes(<<<<0, 0, 0>>, <<1, 0, 2>>, NoneNode, <<0, 1, 1>>, <<-1, 1, 0>>>>, <<"G", "X", "Y", "G">>, SpecList(<<4, 3>>))),
     strip(FromNodes(<<<<1, 1, 1>>, NoneNode, <<0, 0, 0>>, <<2, 0, 0>>>>, <<"R", "G", "X">>, SpecList(<<5>>))) }
NoPaths == {}

VARIABLES P, f, i, r, pc, aux
vars == <<P, f, i, r, pc, aux>>

LabelName(j) == "p" \o ToString(j)
ArbPaths == UNION {
   { [K |-> k, labels |-> [m \in 1..Len(SortedSeq(L)) |-> <<SortedSeq(L)[m], LabelName(SortedSeq(L)[m])>>],
      breaks |-> SortedSeq(B)] : k \in [1..n -> Points], L \in SUBSET (0..(n - 1)), B \in SUBSET (0..(n - 1)) }
   : n \in 1..MaxLen }

Init == /\ P \in ArbPaths \cup NodePaths /\ PathOK(P)
        /\ f \in Factors
        /\ i = 0 /\ r = RefInit /\ pc = "refine" /\ aux = <<>>

(* for i in range(last_point_index) *)
RefStepV0(rr, j) == [RefAppend(rr, P, j) EXCEPT !.K = @ \o [t \in 1..(f - 1) |-> Interp(P.K[j + 1], P.K[j + 2], t, f)]]
KeepBreak == /\ pc = "refine" /\ i < Len(P.K) - 1 /\ i \in BreakSet(P)
             /\ r' = (IF RefineAcrossBreaks THEN RefStepV0(r, i) ELSE RefStep(r, P, i, f)) /\ i' = i + 1
             /\ UNCHANGED <<P, f, pc, aux>>
Subdivide == /\ pc = "refine" /\ i < Len(P.K) - 1 /\ i \notin BreakSet(P)
             /\ r' = RefStep(r, P, i, f) /\ i' = i + 1
             /\ UNCHANGED <<P, f, pc, aux>>
LastPoint == /\ pc = "refine" /\ i >= Len(P.K) - 1
             /\ r' = RefAppend(r, P, Len(P.K) - 1) /\ pc' = "done"
             /\ aux' = [steps |-> KlineSteps(r', LatA, NoThresh)]
             /\ UNCHANGED <<P, f, i>>
Next == KeepBreak \/ Subdivide \/ LastPoint
Spec == Init /\ [][Next]_vars

Done == pc = "done"
LoopIsOperator == Done => r = Refined(P, f)
(* C29, refinement *)
InvKeeps == Done => /\ KeepsPoints(P, f, r) /\ KeepsLabels(P, f, r) /\ KeepsBreaks(P, f, r) /\ RefLength(P, f, r)
                    /\ RefUniform(P, f, r) /\ RefNoBreaks(P, f, r) /\ PathOK(r)
InvIdentity == Done /\ f = 1 => SamePath(P, r)
InvCompose == Done => \A g \in ComposeWith : SamePath(Refined(r, g), Refined(P, f * g))
(* C29, path coordinate *)
InvKline == Done => /\ KlineOK(r) /\ KlineMonotone(r, LatA) /\ KlineFlatAtBreaks(r, LatA) /\ KlineIsDistance(r, LatA)
                    /\ KlineRefined(P, f, r, LatA)
=============================================================================
