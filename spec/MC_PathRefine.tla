---------------------------- MODULE MC_PathRefine ----------------------------
(* Path.get_refined as its loop (one action per original point), then Path.get_K_list as its batch loop, for every
   small path (points, labels dict, breaks list), refinement factor and k_batch inside the constants.  The refined
   path is checked against the loop-free statement (original point i sits at RefIdx(i) with its label / break,
   uniform sub-division, path coordinate unchanged); the batches must concatenate to the path and, in any order,
   be mapped back to path order by self_to_path. *)
EXTENDS PathSpec

CONSTANTS Points,     \* set of path points <<x, y, z, d>>
          MaxLen,     \* paths of 1..MaxLen points
          Factors, KBatch,
          LatA,
          NodePaths   \* additional inputs: paths produced by FromNodes

PointsQuick == {<<0, 0, 0, 1>>, <<1, -1, 2, 2>>}
PointsMid == {<<0, 0, 0, 1>>, <<1, -1, 2, 2>>, <<2, 0, 1, 3>>}
LatSkew == <<<<1, 0, 0>>, <<1, 2, 0>>, <<0, -1, 2>>>>
SpecList(s) == [mode |-> "list", nk |-> s, inv |-> <<0, 1>>, A |-> LatSkew]
NodePathsDef ==
   LET strip(p) == [K |-> p.K, labels |-> p.labels, breaks |-> p.breaks] IN
   { strip(FromNodes(<<<<0, 0, 0>>, <<1, 0, 0>>, <<1, 1, 0>>>>, <<"G", "X", "M">>, SpecList(<<3, 4>>))),
     strip(FromNodes(<<<<0, 0, 0>>, <<1, 0, 2>>, NoneNode, <<0, 1, 1>>, <<-1, 1, 0>>>>, <<"G", "X", "Y", "G">>, SpecList(<<4, 3>>))),
     strip(FromNodes(<<<<1, 1, 1>>, NoneNode, <<0, 0, 0>>, <<2, 0, 0>>>>, <<"R", "G", "X">>, SpecList(<<5>>))) }
THR2 == <<3, 7>>      \* break_thresh^2 (never equal to a squared step: 7 divides no denominator)

VARIABLES P, f, i, r, pc, kb, ik, bs, aux
vars == <<P, f, i, r, pc, kb, ik, bs, aux>>

LabelName(j) == "p" \o ToString(j)
ArbPaths == UNION {
   { [K |-> k, labels |-> [m \in 1..Len(SetToSortSeq(L, <)) |-> <<SetToSortSeq(L, <)[m], LabelName(SetToSortSeq(L, <)[m])>>],
      breaks |-> SetToSortSeq(B, <)] : k \in [1..n -> Points], L \in SUBSET (0..(n - 1)), B \in SUBSET (0..(n - 1)) }
   : n \in 1..MaxLen }

Init == /\ P \in ArbPaths \cup NodePaths /\ PathOK(P)
        /\ f \in Factors
        /\ i = 0 /\ r = RefInit /\ pc = "refine" /\ kb = 0 /\ ik = 0 /\ bs = <<>> /\ aux = <<>>

(* for i in range(last_point_index) *)
KeepBreak == /\ pc = "refine" /\ i < Len(P.K) - 1 /\ i \in BreakSet(P)
             /\ r' = RefStep(r, P, i, f) /\ i' = i + 1
             /\ UNCHANGED <<P, f, pc, kb, ik, bs, aux>>
Subdivide == /\ pc = "refine" /\ i < Len(P.K) - 1 /\ i \notin BreakSet(P)
             /\ r' = RefStep(r, P, i, f) /\ i' = i + 1
             /\ UNCHANGED <<P, f, pc, kb, ik, bs, aux>>
LastPoint == /\ pc = "refine" /\ i >= Len(P.K) - 1
             /\ r' = RefAppend(r, P, Len(P.K) - 1) /\ pc' = "refined"
             /\ aux' = [steps |-> IF KlineOK(r') THEN KlineSteps(r', LatA, NoThresh) ELSE <<>>,
                        stepsT |-> IF KlineOK(r') THEN KlineSteps(r', LatA, THR2) ELSE <<>>,
                        cls |-> PtClass(r'.K)]
             /\ UNCHANGED <<P, f, i, kb, ik, bs>>
(* get_K_list(k_batch) on the refined path *)
ChooseBatch == /\ pc = "refined" /\ kb' \in KBatch /\ ik' = 0 /\ bs' = <<>> /\ pc' = "batch"
               /\ UNCHANGED <<P, f, i, r, aux>>
Batch == /\ pc = "batch" /\ ik < Len(r.K)
         /\ bs' = BatchStep(bs, r, ik, kb) /\ ik' = ik + kb
         /\ UNCHANGED <<P, f, i, r, pc, kb, aux>>
BatchEnd == /\ pc = "batch" /\ ik >= Len(r.K) /\ pc' = "done"
            /\ UNCHANGED <<P, f, i, r, kb, ik, bs, aux>>
Next == KeepBreak \/ Subdivide \/ LastPoint \/ ChooseBatch \/ Batch \/ BatchEnd
Spec == Init /\ [][Next]_vars

Refd == pc \in {"refined", "batch", "done"}
LoopIsOperator == /\ Refd => r = Refined(P, f)
                  /\ pc = "done" => bs = Batches(r, kb)
(* C29, refinement *)
InvKeeps == Refd => /\ KeepsPoints(P, f, r) /\ KeepsLabels(P, f, r) /\ KeepsBreaks(P, f, r) /\ RefLength(P, f, r)
                    /\ RefUniform(P, f, r) /\ RefNoBreaks(P, f, r) /\ PathOK(r)
InvIdentity == Refd /\ f = 1 => SamePath(P, r)
InvCompose == pc = "refined" => \A g \in Factors : SamePath(Refined(r, g), Refined(P, f * g))
(* C29, path coordinate *)
InvKline == Refd /\ KlineOK(P) => /\ KlineOK(r) /\ KlineMonotone(r, LatA) /\ KlineFlatAtBreaks(r, LatA) /\ KlineIsDistance(r, LatA)
                                 /\ KlineRefined(P, f, r, LatA) /\ ~ThreshTie(r, LatA, THR2)
(* C29, batches and the way back to path order *)
InvBatches == pc = "done" => BatchesConcat(bs, r) /\ BatchesSizes(bs, r, kb)
Permuted(s, p) == [t \in 1..Len(s) |-> s[p[t]]]
InvToPath ==
   pc = "done" /\ Len(bs) <= 4 =>
      \A p \in Permutations(1..Len(bs)) :
         LET kp == FlattenSeq(Permuted(bs, p))
             map == ToPathMap(kp, r.K)
         IN \A j \in 1..Len(r.K) : PtEquiv(kp[map[j]], r.K[j]) /\ aux.cls[j] = Min({t \in 1..Len(r.K) : PtEquiv(r.K[t], kp[map[j]])})
=============================================================================
