SPECIFICATION Spec
CONSTANTS
  NB = 5
  EMAX = 3
  THS = {1, 2}
  WholeMultiplet = FALSE
INVARIANT WindowNeverSplits
INVARIANT WindowMeaning
INVARIANT WindowMonotone
INVARIANT EmptyWindowEmpty
CHECK_DEADLOCK FALSE
