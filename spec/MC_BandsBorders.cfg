SPECIFICATION Spec
CONSTANTS
  NB = 6
  EMAX = 3
  THS = {0, 1}
  DropOddFinalBorder = FALSE
INVARIANT GroupsPartition
INVARIANT GroupsInternal
INVARIANT GroupsBoundary
INVARIANT GroupsKramers
INVARIANT InRangeSubset
INVARIANT InRangeRelaxed
CHECK_DEADLOCK FALSE
