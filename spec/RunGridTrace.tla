---------------------------- MODULE RunGridTrace ----------------------------
(* Trace validation for RunGrid: every event recorded from the real run() (hook in wannierberri/run_grid.py,
   projected by harness/rungrid_world.py) must be explained by the RunGrid action of the same name, and the state
   projected from the implementation must equal the state the specification computes.  Batch mode: the file named
   by the environment variable TRACE_FILE holds {"traces": [[event, ...], ...]}; the verdict for trace number tid is
   the line <<"ACCEPT", tid>>; mismatching fields are printed as <<"MISMATCH", tid, position, field>> when the
   constant Diagnose is TRUE (then matching is not enforced and the walk continues on the specification's state).
   All RunGrid invariants are evaluated in every state of every trace. *)
EXTENDS RunGrid, Json, IOUtils, TLCExt

CONSTANT Diagnose

VARIABLES tid, l, ref, refRet, refSet
tvars == <<tid, l, ref, refRet, refSet>>

TraceLog == JsonDeserialize(IOEnv.TRACE_FILE).traces
NT == Len(TraceLog)
Ev == TraceLog[tid][l]
Has(f) == f \in DOMAIN Ev

GInv1 == { <<1,0,0,1>>, <<-1,0,0,-1>> }
GNone == { <<1,0,0,1>> }
GC4   == { <<1,0,0,1>>, <<0,-1,1,0>>, <<-1,0,0,-1>>, <<0,1,-1,0>> }
GC4v  == GC4 \cup { <<-1,0,0,1>>, <<1,0,0,-1>>, <<0,1,1,0>>, <<0,-1,-1,0>> }
GMx   == { <<1,0,0,1>>, <<-1,0,0,1>> }
GH3   == { <<1,0,0,1>>, <<-1,-1,1,0>>, <<0,1,-1,-1>> }
GH6   == GH3 \cup { <<-1,0,0,-1>>, <<0,-1,1,1>>, <<1,1,-1,0>> }
GH3m  == GH3 \cup { <<-1,0,1,1>>, <<0,-1,-1,0>>, <<1,1,0,-1>> }

Chk(name, cond) == cond \/ (Diagnose /\ PrintT(<<"MISMATCH", tid, l, name>>))

KLof(s) == [i \in 1..Len(s) |-> [c |-> <<s[i][1], s[i][2]>>, lev |-> s[i][3], fac |-> s[i][4], ev |-> s[i][5], st |-> s[i][6], sp |-> s[i][7]]]
SetOf(s) == {s[i] : i \in 1..Len(s)}
ModeOf(e) == [par |-> e.par, dump |-> e.dump, allow |-> e.allow, sym |-> e.sym, restart |-> e.restart]
AsSeq(s) == [i \in 1..Len(s) |-> s[i]]

IsEvent(n) == l <= Len(TraceLog[tid]) /\ Ev.e = n /\ l' = l + 1 /\ UNCHANGED <<tid, ref, refRet, refSet>>

DiskMatchP(d) == /\ Chk("disk.ffiles", {<<p[1], AsSeq(p[2])>> : p \in SetOf(d.ffiles)} = {<<i, ffiles'[i]>> : i \in DOMAIN ffiles'})
                 /\ Chk("disk.pick", KLof(d.pick) = pick')
CoefMatch(c, mine, name) == Chk(name, AsSeq(c.coef) = mine) /\ Chk(name \o ".stray", c.stray = 0)

TStartFresh == /\ IsEvent("StartFresh") /\ StartFresh(ModeOf(Ev), Ev.nit)
               /\ Chk("kl", kl' = KLof(Ev.kl)) /\ Chk("facs", facs' = AsSeq(Ev.facs)) /\ Chk("start", Ev.start = 0)
               /\ (Has("disk") => DiskMatchP(Ev.disk))
TStartRestart == /\ IsEvent("StartRestart") /\ StartRestart(ModeOf(Ev), Ev.nit, AsSeq(Ev.listing), Ev.ri)
                 /\ Chk("kl", kl' = KLof(Ev.kl)) /\ Chk("facs", facs' = AsSeq(Ev.facs)) /\ Chk("start", start' = Ev.start)
                 /\ CoefMatch(Ev.coef, coef', "coef")
                 /\ (Has("disk") => DiskMatchP(Ev.disk))
TBeginProcess == /\ IsEvent("BeginProcess") /\ BeginProcess /\ Chk("sel", sel' = AsSeq(Ev.sel)) /\ Chk("kl", kl' = KLof(Ev.kl)) /\ Chk("par", Ev.par = mode.par)
TEval == /\ IsEvent("Eval") /\ EvalSerial /\ Chk("k", act'.k = Ev.k) /\ Chk("kl", kl' = KLof(Ev.kl))
         /\ CoefMatch(Ev.rsum, rsum', "rsum")
TEndProcess == /\ IsEvent("EndProcess") /\ (EndSerial \/ (EndCollect /\ pc' = "pickle"))
               /\ Chk("kl", kl' = KLof(Ev.kl)) /\ CoefMatch(Ev.rsum, rsum', "rsum")
TComplete == IsEvent("Complete") /\ Complete(Ev.t)
TWait == /\ IsEvent("Wait") /\ WaitReturn(SetOf(Ev.ready)) /\ Chk("old", old = SetOf(Ev.old))
TCollect == /\ IsEvent("Collect") /\ Collect /\ Chk("k", act'.k = Ev.k) /\ Chk("kl", kl' = KLof(Ev.kl))
            /\ CoefMatch(Ev.rsum, rsum', "rsum")
TEndCollect == /\ IsEvent("EndCollect") /\ EndCollect /\ pc' = "wait" /\ Chk("old", old' = SetOf(Ev.old))
TAppendPickle == /\ IsEvent("AppendPickle") /\ AppendPickle /\ (Has("disk") => DiskMatchP(Ev.disk))
TUpdateIntegral == /\ IsEvent("UpdateIntegral") /\ UpdateIntegral /\ pc' # "error"
                   /\ Chk("kl", kl = KLof(Ev.kl)) /\ CoefMatch(Ev.coef, coef', "coef")
                   /\ Chk("facs", facs' = AsSeq(Ev.facs)) /\ (Has("disk") => DiskMatchP(Ev.disk))
TSaveData == /\ IsEvent("SaveData") /\ SaveData
             /\ Chk("iter", Ev.iter = it + start) /\ Chk("saved", Ev.saved = ~(mode.restart /\ it = 0))
             /\ (Ev.saved => (Has("file") /\ CoefMatch(Ev.file, coef, "file")))
TRefine == /\ IsEvent("Refine") /\ Refine(AsSeq(Ev.ord)) /\ Chk("kl", kl' = KLof(Ev.kl)) /\ Chk("nkprev", nkprev' = Ev.nkprev)
TReturn == /\ IsEvent("Return") /\ Return /\ CoefMatch(Ev.coef, coef, "coef")
(* driver marks: the results saved so far become the reference (uninterrupted run); result files removed *)
TMarkRef == /\ l <= Len(TraceLog[tid]) /\ Ev.e = "MarkRef" /\ l' = l + 1 /\ pc = "idle"
            /\ ref' = saved /\ refRet' = returned /\ refSet' = TRUE /\ saved' = <<>> /\ returned' = {}
            /\ act' = [name |-> "MarkRef"]
            /\ UNCHANGED <<tid, ffiles, pick, pc, mode, kl, coef, resNone, facs, it, start, nit, nkprev, rsum, rsNone, plocal>>

TraceInit == Init /\ tid \in 1..NT /\ l = 1 /\ ref = <<>> /\ refRet = {} /\ refSet = FALSE
TraceNext == \/ TStartFresh \/ TStartRestart \/ TBeginProcess \/ TEval \/ TEndProcess \/ TComplete \/ TWait
             \/ TCollect \/ TEndCollect \/ TAppendPickle \/ TUpdateIntegral \/ TSaveData \/ TRefine \/ TReturn
             \/ TMarkRef
TraceSpec == TraceInit /\ [][TraceNext]_<<vars, tvars>>

(* C11 on traces: after MarkRef every saved / returned result must equal the reference of the same global iteration *)
RestartEq == refSet =>
      /\ \A g \in DOMAIN saved : g \in DOMAIN ref /\ saved[g] = ref[g]
      /\ (pc = "idle" /\ returned # {}) => ((start + it) \in DOMAIN ref /\ returned = ref[start + it])

InvTable == [ TypeOK |-> TypeOK, NoError |-> NoError, WeightOne |-> WeightOne, NoEquivDup |-> NoEquivDup,
              OrbitWeight |-> OrbitWeight, DistinctStoragePaths |-> DistinctStoragePaths, Tiling |-> Tiling, IntegralConsistent |-> IntegralConsistent,
              SavedWeightOne |-> SavedWeightOne, ReturnedWeightOne |-> ReturnedWeightOne,
              CollectedOnce |-> CollectedOnce, AllCollected |-> AllCollected, RestartEq |-> RestartEq ]
(* always TRUE; reports *)
Report ==
  /\ \A n \in DOMAIN InvTable : InvTable[n] \/ PrintT(<<"INVARIANT", tid, l, n>>)
  /\ (l = Len(TraceLog[tid]) + 1) => PrintT(<<"ACCEPT", tid>>)
  /\ Diagnose => PrintT(<<"AT", tid, l>>)
=============================================================================
