---------------------------- MODULE RunGridTrace ----------------------------
(* Trace validation for RunGrid: the events recorded from the real run() (hook in wannierberri/run_grid.py, projected
   by harness/rungrid_world.py) are walked through the specification.  Batch mode: the file named by the environment
   variable TRACE_FILE holds {"traces": [[event, ...], ...]}; the verdict for trace number tid is the line
   <<"ACCEPT", tid>>; <<"AT", tid, l>> is printed for every position reached; mismatching fields are printed as
   <<"MISMATCH", tid, position, field>> when the constant Diagnose is TRUE (then matching is not enforced and the walk
   continues on the specification's state).  All RunGrid invariants are evaluated in every state of every trace.

   Two levels (constant Strict):
   Strict = TRUE  - every event must be explained by the RunGrid action of the same name and the projected state of the
                    implementation must EQUAL the state the specification computes (K list as a sequence with its
                    representatives, storage flags, storage paths, order of evaluation and collection, masks of the
                    collection loop, factor files, pickle).  This is the model of the code as it is; a rejection at
                    this level alone is NOT a violation of C10/C11/C12 (it is reported as information).
   Strict = FALSE - what the properties need: the K list of the implementation is adopted at StartFresh / Refine after
                    comparing it with the specification's list up to order and choice of orbit representatives
                    (CanonBag), the evaluation/collection loop is free (any order, any chunking; Wait / EndCollect /
                    Complete events are skipped), and only weights, the coefficients of the running integral, the saved
                    and returned results, the start iteration of a restart and the invariants are enforced.
   Everything accepted with Strict = TRUE is accepted with Strict = FALSE. *)
EXTENDS RunGrid, Json, IOUtils, TLCExt

CONSTANTS Diagnose, Strict

VARIABLES tid, l, tr, ref, refRet, refSet
tvars == <<tid, l, tr, ref, refRet, refSet>>

TraceLog == JsonDeserialize(IOEnv.TRACE_FILE).traces
Ev == tr[l]
Has(f) == f \in DOMAIN Ev

GInv1 == { <<1,0,0,1>>, <<-1,0,0,-1>> }
GNone == { <<1,0,0,1>> }
GC4   == { <<1,0,0,1>>, <<0,-1,1,0>>, <<-1,0,0,-1>>, <<0,1,-1,0>> }
GC4v  == GC4 \cup { <<-1,0,0,1>>, <<1,0,0,-1>>, <<0,1,1,0>>, <<0,-1,-1,0>> }
GMx   == { <<1,0,0,1>>, <<-1,0,0,1>> }
GH3   == { <<1,0,0,1>>, <<-1,-1,1,0>>, <<0,1,-1,-1>> }
GH6   == GH3 \cup { <<-1,0,0,-1>>, <<0,-1,1,1>>, <<1,1,-1,0>> }
GH3m  == GH3 \cup { <<-1,0,1,1>>, <<0,-1,-1,0>>, <<1,1,0,-1>> }

Chk(name, cond)  == cond \/ (Diagnose /\ PrintT(<<"MISMATCH", tid, l, name>>))
(* a structural precondition of what follows: reported like Chk, but the walk stops even when diagnosing *)
Must(name, cond) == Chk(name, cond) /\ cond

KLof(s) == [i \in 1..Len(s) |-> [c |-> <<s[i][1], s[i][2]>>, lev |-> s[i][3], fac |-> s[i][4], ev |-> s[i][5], st |-> s[i][6], sp |-> s[i][7]]]
SetOf(s) == {s[i] : i \in 1..Len(s)}
ModeOf(e) == [par |-> e.par, dump |-> e.dump, allow |-> e.allow, sym |-> e.sym, restart |-> e.restart]
AsSeq(s) == [i \in 1..Len(s) |-> s[i]]
AscSeq(S) == [m \in 1..Cardinality(S) |-> CHOOSE x \in S : Cardinality({y \in S : y < x}) = m - 1]
Core(k) == [i \in 1..Len(k) |-> <<k[i].c, k[i].lev, k[i].fac, k[i].ev>>]

IsEvent(n) == l <= Len(tr) /\ Ev.e = n /\ l' = l + 1 /\ UNCHANGED <<tid, tr, ref, refRet, refSet>>

DiskMatchP(d) == /\ Chk("disk.ffiles", {<<p[1], AsSeq(p[2])>> : p \in SetOf(d.ffiles)} = {<<i, ffiles'[i]>> : i \in DOMAIN ffiles'})
                 /\ Chk("disk.pick", KLof(d.pick) = pick')
CoefMatch(c, mine, name) == Chk(name, AsSeq(c.coef) = mine) /\ Chk(name \o ".stray", c.stray = 0)

-----------------------------------------------------------------------------
(* Strict level: the code as it is *)
TStartFresh == /\ Strict /\ IsEvent("StartFresh") /\ StartFresh(ModeOf(Ev), Ev.nit)
               /\ Chk("kl", kl' = KLof(Ev.kl)) /\ Chk("facs", facs' = AsSeq(Ev.facs)) /\ Chk("start", Ev.start = 0)
               /\ (Has("disk") => DiskMatchP(Ev.disk))
TStartRestart == /\ Strict /\ IsEvent("StartRestart") /\ StartRestart(ModeOf(Ev), Ev.nit, AsSeq(Ev.listing), Ev.ri)
                 /\ Chk("kl", kl' = KLof(Ev.kl)) /\ Chk("facs", facs' = AsSeq(Ev.facs)) /\ Chk("start", start' = Ev.start)
                 /\ CoefMatch(Ev.coef, coef', "coef")
                 /\ (Has("disk") => DiskMatchP(Ev.disk))
TBeginProcess == /\ Strict /\ IsEvent("BeginProcess") /\ BeginProcess /\ Chk("sel", sel' = AsSeq(Ev.sel)) /\ Chk("kl", kl' = KLof(Ev.kl)) /\ Chk("par", Ev.par = mode.par)
TEval == /\ Strict /\ IsEvent("Eval") /\ EvalSerial /\ Chk("k", act'.k = Ev.k) /\ Chk("kl", kl' = KLof(Ev.kl))
         /\ CoefMatch(Ev.rsum, rsum', "rsum")
TEndProcess == /\ Strict /\ IsEvent("EndProcess") /\ (EndSerial \/ (EndCollect /\ pc' = "pickle"))
               /\ Chk("kl", kl' = KLof(Ev.kl)) /\ CoefMatch(Ev.rsum, rsum', "rsum")
TComplete == Strict /\ IsEvent("Complete") /\ Complete(Ev.t)
TWait == /\ Strict /\ IsEvent("Wait") /\ WaitReturn(SetOf(Ev.ready)) /\ Chk("old", old = SetOf(Ev.old))
TCollect == /\ Strict /\ IsEvent("Collect") /\ Collect /\ Chk("k", act'.k = Ev.k) /\ Chk("kl", kl' = KLof(Ev.kl))
            /\ CoefMatch(Ev.rsum, rsum', "rsum")
TEndCollect == /\ Strict /\ IsEvent("EndCollect") /\ EndCollect /\ pc' = "wait" /\ Chk("old", old' = SetOf(Ev.old))
TAppendPickle == /\ Strict /\ IsEvent("AppendPickle") /\ AppendPickle /\ (Has("disk") => DiskMatchP(Ev.disk))
TUpdateIntegral == /\ Strict /\ IsEvent("UpdateIntegral") /\ UpdateIntegral /\ pc' # "error"
                   /\ Chk("kl", kl = KLof(Ev.kl)) /\ CoefMatch(Ev.coef, coef', "coef")
                   /\ Chk("facs", facs' = AsSeq(Ev.facs)) /\ (Has("disk") => DiskMatchP(Ev.disk))
TSaveData == /\ Strict /\ IsEvent("SaveData") /\ SaveData
             /\ Chk("iter", Ev.iter = it + start) /\ Chk("saved", Ev.saved = ~(mode.restart /\ it = 0))
             /\ (Ev.saved => (Chk("file", Has("file")) /\ (Has("file") => CoefMatch(Ev.file, coef, "file"))))
TRefine == /\ Strict /\ IsEvent("Refine") /\ Refine(AsSeq(Ev.ord)) /\ Chk("kl", kl' = KLof(Ev.kl)) /\ Chk("nkprev", nkprev' = Ev.nkprev)

-----------------------------------------------------------------------------
(* Property level *)
(* the K list of the implementation as specification records: storage flags and paths follow the specification *)
AdoptNew(s) == [i \in 1..Len(s) |-> [KP(s[i].c, s[i].lev, s[i].fac) EXCEPT !.ev = s[i].ev]]

RStartFresh ==
  /\ ~Strict /\ IsEvent("StartFresh")
  /\ LET impl == KLof(Ev.kl)
         k0   == AdoptNew(impl)
     IN /\ \E aarg \in BOOLEAN : StartFreshL(ModeOf(Ev), Ev.nit, k0, aarg)
        /\ Chk("kl.canon", CanonBag(k0, Ev.sym) = CanonBag(InitList(Ev.sym), Ev.sym))
  /\ Chk("start", Ev.start = 0)

ListingR == IF Has("listing") /\ Len(Ev.listing) = Cardinality(DOMAIN ffiles) /\ SetOf(Ev.listing) = DOMAIN ffiles
            THEN AsSeq(Ev.listing) ELSE AscSeq(DOMAIN ffiles)
RStartRestart ==
  /\ ~Strict /\ IsEvent("StartRestart") /\ StartRestart(ModeOf(Ev), Ev.nit, ListingR, Ev.ri)
  /\ Chk("kl.restart", Core(kl') = Core(KLof(Ev.kl)))
  /\ Chk("start", start' = Ev.start)
  /\ CoefMatch(Ev.coef, coef', "coef")

(* process(): every selected point is evaluated and added to the sum; order, chunking and the way completions are
   awaited are free.  CollectedOnce / AllCollected are evaluated as invariants. *)
InProcess == pc \in {"serial", "wait", "collect"}
RBeginProcess ==
  /\ ~Strict /\ IsEvent("BeginProcess") /\ BeginProcess
  /\ (Has("kl") /\ (\A i \in 1..Len(Ev.kl) : Ev.kl[i][7] >= 0)) =>
        Chk("storage_paths", \A i, j \in 1..Len(Ev.kl) : (i < j /\ Ev.kl[i][7] > 0 /\ Ev.kl[j][7] > 0) => Ev.kl[i][7] # Ev.kl[j][7])
AnyCollect(i) ==
  /\ InProcess /\ \E t \in 1..Len(sel) : sel[t] = i
  /\ LET t == CHOOSE u \in 1..Len(sel) : sel[u] = i
     IN /\ kl' = SetResult(kl, i)
        /\ rsum' = [rsum EXCEPT ![i] = @ + kl[i].fac]
        /\ collected' = [collected EXCEPT ![t] = @ + 1]
        /\ act' = [name |-> "Collect", k |-> i]
  /\ UNCHANGED <<disk, pc, mode, coef, resNone, facs, it, start, nit, nkprev, rsNone, returned, sel, done, old, ncalc, ready, toCollect>>
RCollect == ~Strict /\ (IsEvent("Eval") \/ IsEvent("Collect")) /\ Has("k") /\ AnyCollect(Ev.k)
RSkip == /\ ~Strict /\ l <= Len(tr) /\ Ev.e \in {"Wait", "EndCollect", "Complete", "Divide"} /\ l' = l + 1
         /\ UNCHANGED <<vars, tid, tr, ref, refRet, refSet>>
(* end of process(): points for which no Eval / Collect event was seen count as evaluated once (the hook of the loop
   body may be absent); a point that was not evaluated shows up in the coefficients at UpdateIntegral *)
REndProcess ==
  /\ ~Strict /\ IsEvent("EndProcess")
  /\ IF pc = "pickle" THEN UNCHANGED vars
     ELSE /\ InProcess
          /\ LET miss == {sel[t] : t \in {u \in 1..Len(sel) : collected[u] = 0}}
             IN /\ kl' = [i \in 1..Len(kl) |-> IF i \in miss THEN [kl[i] EXCEPT !.ev = TRUE, !.st = StoreOf(mode, nit)] ELSE kl[i]]
                /\ rsum' = [i \in 1..Len(rsum) |-> IF i \in miss THEN rsum[i] + kl[i].fac ELSE rsum[i]]
                /\ collected' = [t \in 1..Len(collected) |-> IF collected[t] = 0 THEN 1 ELSE collected[t]]
          /\ pc' = "pickle" /\ act' = [name |-> "EndProcess"]
          /\ UNCHANGED <<disk, mode, coef, resNone, facs, it, start, nit, nkprev, rsNone, returned, sel, done, old, ncalc, ready, toCollect>>
RAppendPickle == ~Strict /\ IsEvent("AppendPickle") /\ AppendPickle
RUpdateIntegral ==
  /\ ~Strict /\ IsEvent("UpdateIntegral") /\ UpdateIntegral /\ pc' # "error"
  /\ Has("kl") => Chk("weights", Facs(kl) = [i \in 1..Len(Ev.kl) |-> Ev.kl[i][4]])
  /\ CoefMatch(Ev.coef, coef', "coef")
RSaveData ==
  /\ ~Strict /\ IsEvent("SaveData") /\ SaveDataG(~Ev.saved)
  /\ Chk("iter", Ev.iter = it + start) /\ Chk("saved", ~(mode.restart /\ it = 0) => Ev.saved)
  /\ (Ev.saved => (Chk("file", Has("file")) /\ (Has("file") => CoefMatch(Ev.file, coef, "file"))))
(* NB (TLC): a Chk is a disjunction; TLC evaluates it as a Boolean (short-circuit, prints only when the condition is
   false) once all primed variables are assigned, and enumerates BOTH disjuncts (spurious print) before that.  Every
   Chk / Must therefore comes after the conjunct that assigns the primed variables. *)
RRefine ==
  /\ ~Strict /\ IsEvent("Refine")
  /\ LET impl   == KLof(Ev.kl)
         n0     == Len(kl)
         ordset == IF Has("ord") /\ Len(Ev.ord) > 0 THEN SetOf(Ev.ord)
                   ELSE {i \in 1..n0 : i <= Len(impl) /\ kl[i].fac > 0 /\ impl[i].fac = 0}
         newkl  == [i \in 1..Len(impl) |-> IF i <= n0 THEN [kl[i] EXCEPT !.fac = impl[i].fac]
                                            ELSE [KP(impl[i].c, impl[i].lev, impl[i].fac) EXCEPT !.ev = impl[i].ev]]
     IN /\ RefineL(AscSeq(ordset \cap (1..n0)), newkl)
        /\ Must("kl.prefix", /\ Len(impl) >= n0
                             /\ \A i \in 1..n0 : impl[i].c = kl[i].c /\ impl[i].lev = kl[i].lev /\ impl[i].ev = kl[i].ev)
        /\ Must("ord", ordset # {} /\ ordset \subseteq 1..n0)
        /\ Chk("kl.canon", CanonBag(newkl, mode.sym) = CanonBag(RefineList(kl, AscSeq(ordset), mode.sym), mode.sym))

-----------------------------------------------------------------------------
(* both levels *)
TReturn == /\ IsEvent("Return") /\ Return /\ CoefMatch(Ev.coef, coef, "coef")
(* the object returned by run() (projected by the driver after run() came back) *)
TReturned == /\ IsEvent("Returned") /\ pc = "idle" /\ ~resNone /\ UNCHANGED vars /\ CoefMatch(Ev.coef, coef, "returned")
(* driver marks: the results saved so far become the reference (uninterrupted run); result files removed *)
TMarkRef == /\ l <= Len(tr) /\ Ev.e = "MarkRef" /\ l' = l + 1 /\ pc = "idle"
            /\ ref' = saved /\ refRet' = returned /\ refSet' = TRUE /\ saved' = <<>> /\ returned' = {}
            /\ act' = [name |-> "MarkRef"]
            /\ UNCHANGED <<tid, tr, ffiles, pick, pc, mode, kl, coef, resNone, facs, it, start, nit, nkprev, rsum, rsNone, plocal>>

TraceInit == Init /\ tid \in 1..Len(TraceLog) /\ tr = TraceLog[tid] /\ l = 1 /\ ref = <<>> /\ refRet = {} /\ refSet = FALSE
TraceNext == \/ TStartFresh \/ TStartRestart \/ TBeginProcess \/ TEval \/ TEndProcess \/ TComplete \/ TWait
             \/ TCollect \/ TEndCollect \/ TAppendPickle \/ TUpdateIntegral \/ TSaveData \/ TRefine
             \/ RStartFresh \/ RStartRestart \/ RBeginProcess \/ RCollect \/ RSkip \/ REndProcess \/ RAppendPickle
             \/ RUpdateIntegral \/ RSaveData \/ RRefine
             \/ TReturn \/ TReturned \/ TMarkRef
TraceSpec == TraceInit /\ [][TraceNext]_<<vars, tvars>>

(* C11 on traces: after MarkRef every saved / returned result must equal the reference of the same global iteration *)
RestartEq == refSet =>
      /\ \A g \in DOMAIN saved : g \in DOMAIN ref /\ saved[g] = ref[g]
      /\ (pc = "idle" /\ returned # {}) => ((start + it) \in DOMAIN ref /\ returned = ref[start + it])

(* the invariants about the K list alone (points, levels, weights) are evaluated in the states where the list was
   (re)built; the other events do not touch these fields *)
ListChanged == act.name \in {"StartFresh", "StartRestart", "Refine"}
InvTable == [ TypeOK |-> TypeOK, NoError |-> NoError, WeightOne |-> WeightOne, NoEquivDup |-> (ListChanged => NoEquivDup),
              OrbitWeight |-> (ListChanged => OrbitWeight), DistinctStoragePaths |-> DistinctStoragePaths,
              Tiling |-> (ListChanged => Tiling), IntegralConsistent |-> IntegralConsistent,
              SavedWeightOne |-> SavedWeightOne, ReturnedWeightOne |-> ReturnedWeightOne,
              CollectedOnce |-> CollectedOnce, AllCollected |-> AllCollected, RestartEq |-> RestartEq ]
(* always TRUE; reports *)
Report ==
  /\ \A n \in DOMAIN InvTable : InvTable[n] \/ PrintT(<<"INVARIANT", tid, l, n>>)
  /\ (l = Len(tr) + 1) => PrintT(<<"ACCEPT", tid>>)
  /\ PrintT(<<"AT", tid, l>>)
=============================================================================
