--------------------------- MODULE MC_GaugeBlocks ---------------------------
(* every sorted integer energy array, random-gauge threshold thg and calculator threshold thc inside the constants.
   The integer th stands for the threshold th + 1/2 (see Periodicity).
   TETRA = TRUE: in addition the band blocks a tetrahedron calculator traces (Fermi sea) for every spread of the corner
   energies and every pair of Fermi levels: variable tet = [lo, hi, ef0, ef1, traced] (<<>> otherwise). *)
EXTENDS Periodicity
CONSTANTS NB, EMAX, THS,
          RequirePrecond,  \* TRUE: only thg <= thc (GaugeWithinTrace); FALSE: all pairs (sensitivity: must violate)
          TETRA,           \* TRUE: the tetrahedron inputs
          Clip             \* TRUE: the code; FALSE: the fully occupied block is not clipped to the first group in range (must violate)
VARIABLES E, thg, thc, rg, tet
vars == <<E, thg, thc, rg, tet>>
SortedArrays == UNION { {s \in [1..n -> 0..EMAX] : \A k \in 1..(n - 1) : s[k] <= s[k + 1]} : n \in 1..NB }
Dbl(s) == [n \in 1..Len(s) |-> 2 * s[n]]
(* half units: centre 2 E, corner maximum 2 E + 2 d (d in 0..1), corner minimum = centre or 2 E - 2, Fermi levels odd *)
Levels == {2 * j - 1 : j \in 0..(EMAX + 2)}
TetOf(e, d, lo, f0, f1, th) ==
   LET hi == [n \in 1..Len(e) |-> 2 * e[n] + 2 * d[n]]
       lw == [n \in 1..Len(e) |-> 2 * e[n] - (IF lo THEN 2 ELSE 0)]
   IN [lo |-> lw, hi |-> hi, ef0 |-> f0, ef1 |-> f1, traced |-> TetraTraced(Dbl(e), lw, hi, 2 * th + 1, f0, f1, Clip)]
Init == /\ E \in SortedArrays /\ thg \in THS /\ thc \in THS
        /\ (RequirePrecond => GaugeWithinTrace(thg, thc))
        /\ rg = DegenRG(E, thg)
        /\ IF TETRA
           THEN \E d \in [1..Len(E) -> 0..1] : \E lo \in BOOLEAN : \E f0 \in Levels : \E f1 \in {f0, 2 * EMAX + 3} :
                   tet = TetOf(E, d, lo, f0, f1, thc)
           ELSE tet = <<>>
Next == UNCHANGED vars
Spec == Init /\ [][Next]_vars
(* C04, gauge part *)
Multiplets == IsMultipletList(E, rg, thg)
TraceBlocksContain == InsideTraceBlocks(E, thg, thc)
SeaWhole == \A emin \in (-1)..(EMAX + 1) : \A emax \in emin..(EMAX + 1) : SeaNeverCuts(E, thg, thc, emin, emax)
MixSymmetric == \A p \in MayMix(E, thg) : <<p[2], p[1]>> \in MayMix(E, thg) /\ <<p[1], p[1]>> \in MayMix(E, thg)
(* degen_Kramers = TRUE: the trace blocks still contain every block of the random gauge (also four-fold points) *)
KramersTraceBlocksContain == GaugeWithinTrace(thg, thc) => InsideKramersTraceBlocks(E, thg, thc)
StrictPairsContain == InsideBlocks(rg, StrictPairBlocks(E))       \* must be VIOLATED (strict consecutive pairs cut a four-fold level)
(* the blocks a tetrahedron calculator traces never cut a block the random gauge may rotate *)
TracedBlocksAreUnionsOfMultiplets == (TETRA /\ GaugeWithinTrace(thg, thc)) => UnionsOfMultiplets(tet.traced, rg)
NoMixing == rg = <<>>      \* must be VIOLATED (non-vacuity)
=============================================================================
