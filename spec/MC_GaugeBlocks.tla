--------------------------- MODULE MC_GaugeBlocks ---------------------------
(* every sorted integer energy array, random-gauge threshold thg and calculator threshold thc inside the constants *)
EXTENDS Periodicity
CONSTANTS NB, EMAX, THS,
          RequirePrecond   \* TRUE: only thg <= thc (GaugeWithinTrace); FALSE: all pairs (sensitivity: must violate)
VARIABLES E, thg, thc, rg
vars == <<E, thg, thc, rg>>
SortedArrays == UNION { {s \in [1..n -> 0..EMAX] : \A k \in 1..(n - 1) : s[k] <= s[k + 1]} : n \in 1..NB }
Init == /\ E \in SortedArrays /\ thg \in THS /\ thc \in THS
        /\ (RequirePrecond => GaugeWithinTrace(thg, thc))
        /\ rg = DegenRG(E, thg)
Next == UNCHANGED vars
Spec == Init /\ [][Next]_vars
(* C04, gauge part *)
Multiplets == IsMultipletList(E, rg, thg)
TraceBlocksContain == InsideTraceBlocks(E, thg, thc)
SeaWhole == \A emin \in (-1)..(EMAX + 1) : \A emax \in emin..(EMAX + 1) : SeaNeverCuts(E, thg, thc, emin, emax)
MixSymmetric == \A p \in MayMix(E, thg) : <<p[2], p[1]>> \in MayMix(E, thg) /\ <<p[1], p[1]>> \in MayMix(E, thg)
NoMixing == rg = <<>>      \* must be VIOLATED (non-vacuity)
=============================================================================
