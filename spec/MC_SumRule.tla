----------------------------- MODULE MC_SumRule -----------------------------
(* every strictly increasing integer spectrum and every pair of Hermitian Gaussian-integer velocity matrices inside the
   constants; one TLC state per input. om[n] = numerator of Omega_n,z over den. *)
EXTENDS SumRule
CONSTANTS NBS,      \* set of band numbers, e.g. {2, 3}
          EMAX,     \* energies in 0..EMAX
          OFFD,     \* set of Gaussian integers allowed above the diagonal
          DIAG,     \* set of integers allowed on the diagonal (band velocities; irrelevant for Omega)
          Variant   \* "code" | "weighted" | "oddden"
VARIABLES E, Vx, Vy, om, den
(* cfg files cannot contain tuples: named amplitude sets, selected with  OFFD <- OFFD_n *)
OFFD_3 == {<<0, 0>>, <<1, 0>>, <<0, 1>>}
OFFD_4 == {<<0, 0>>, <<1, 0>>, <<0, 1>>, <<1, 1>>}
OFFD_6 == {<<0, 0>>, <<1, 0>>, <<0, 1>>, <<1, 1>>, <<-1, 2>>, <<2, -1>>}
vars == <<E, Vx, Vy, om, den>>

Spectra(nb) == {s \in [1..nb -> 0..EMAX] : \A k \in 1..(nb - 1) : s[k] < s[k + 1]}
(* a Hermitian matrix from its upper triangle u (function on Pairs) and diagonal d *)
Pairs(nb) == {p \in (1..nb) \X (1..nb) : p[1] < p[2]}
Herm(nb, u, d) == [m \in 1..nb |-> [n \in 1..nb |->
                     IF m = n THEN <<d[m], 0>> ELSE IF m < n THEN u[<<m, n>>] ELSE CConj(u[<<n, m>>])]]
HermSet(nb) == {Herm(nb, u, d) : u \in [Pairs(nb) -> OFFD], d \in [1..nb -> DIAG]}

Init == \E nb \in NBS :
          /\ E \in Spectra(nb) /\ Vx \in HermSet(nb) /\ Vy \in HermSet(nb)
          /\ om = [n \in 1..nb |-> OmegaBand(E, Vx, Vy, n, Variant)]
          /\ den = Den(E)
Next == UNCHANGED vars
Spec == Init /\ [][Next]_vars

TypeOK == IsHermitian(Vx, Len(E)) /\ IsHermitian(Vy, Len(E)) /\ den > 0
(* C27 *)
SumRuleZero == SumRuleHolds(E, om)
Additive    == AdditiveHolds(E, Vx, Vy, om, Variant)
Antisym     == AntisymHolds(E, Vx, Vy, om, Variant)
(* the sum rule over multiplets when two neighbouring levels are made degenerate (three bands: the doublet and the third
   band have the same denominator, so the numerators must cancel; two bands: the doublet is everything, its trace is 0) *)
DegenSumRule ==
   \A j \in 1..(Len(E) - 1) :
      LET Ed == Collapse(E, j)
          m == {j, j + 1}
          rest == (1..Len(E)) \ m
      IN IF Len(E) = 2 THEN OmegaNumIO(Ed, Vx, Vy, m) = 0
         ELSE IF Len(E) = 3 THEN /\ DenIO(Ed, m) = DenIO(Ed, rest)
                                 /\ OmegaNumIO(Ed, Vx, Vy, m) + OmegaNumIO(Ed, Vx, Vy, rest) = 0
         ELSE TRUE
(* a Fermi scan that starts anywhere (below all bands: lo4 = -3; between / inside groups: 4 e + 1) ends with 0 above all bands *)
ScanStarts == {-3} \cup {4 * e + 1 : e \in 0..EMAX}
ScanZero == \A lo4 \in ScanStarts : \A g \in {"none", "chain", "kramers"} : ScanTotal(E, om, lo4, g, TRUE) = 0
(* sensitivity (expected to FAIL): the two wrong book-keepings *)
ScanZeroNOCLAMP == \A lo4 \in ScanStarts : ScanTotal(E, om, lo4, "chain", FALSE) = 0
ScanZeroKRAMERSDROP == \A lo4 \in ScanStarts : ScanTotal(E, om, lo4, "kramers_drop_last", TRUE) = 0
(* non-vacuity: some state has a non-zero curvature (checked by the harness on the dump, and here as a property that
   must be VIOLATED when asked for) *)
AllZero == \A n \in 1..Len(E) : om[n] = 0
=============================================================================
