---------------------------- MODULE MC_TetraParal ----------------------------
(* TetraWeightsParal.weight_1k1b_priv: one band in one parallelepiped K-point (8 corner energies, centre energy);
   every assignment of corner energies from CVALS, centre from CENTERS, Fermi level from EFS, der 0..3 *)
EXTENDS TetraWeights
CONSTANTS CVALS, CENTERS, EFS1     \* EFS1 = Fermi levels + 1 (cfg files cannot hold negative numbers)
VARIABLES ec, c, ef, der, admissible, welldef, w, closed
vars == <<ec, c, ef, der, admissible, welldef, w, closed>>
EFS == {x - 1 : x \in EFS1}
NA == <<0, 0>>
Cubes == [1..2 -> [1..2 -> [1..2 -> CVALS]]]
T(cc, e0) == ParalTetrahedra(e0, cc)
Adm(cc, e0, x) == \A t \in 1..12 : NotOnDegenerateCorner(x, T(cc, e0)[t])
Wd(cc, e0, x, d) == \A t \in 1..12 : WellDefined(x, T(cc, e0)[t], d)
CodeW(cc, e0, x, d) == ParalWeight(LAMBDA ee, y : WeightsTetra(y, ee, d, TRUE), e0, cc, x)
ClosedW(cc, e0, x, d) == ParalWeight(LAMBDA ee, y : ClosedOcc(ee, y, d), e0, cc, x)
Init == /\ c \in Cubes /\ ec \in CENTERS /\ ef \in EFS /\ der \in 0..3
        /\ admissible = Adm(c, ec, ef) /\ welldef = Wd(c, ec, ef, der)
        /\ w = (IF admissible THEN CodeW(c, ec, ef, der) ELSE NA)
        /\ closed = (IF welldef THEN ClosedW(c, ec, ef, der) ELSE NA)
Next == UNCHANGED vars
Spec == Init /\ [][Next]_vars

AllE == {ec} \cup {c[x][y][z] : x \in 1..2, y \in 1..2, z \in 1..2}
ParalCodeEqualsClosed == (admissible /\ welldef) => w = closed
ParalUnitRange == (der = 0 /\ welldef) => InUnitRange(closed)
ParalOutside == welldef => /\ ef < Min(AllE) => closed = RZero
                           /\ ef > Max(AllE) => closed = (IF der = 0 THEN ROne ELSE RZero)
ParalMonotone == (der = 0 /\ welldef /\ (ef + 1) \in EFS /\ Wd(c, ec, ef + 1, 0)) => RLe(closed, ClosedW(c, ec, ef + 1, 0))
(* the decomposition: label the corners 1..8; the two tetrahedra of a face cover its four corners, share the diagonal
   [0,0]-[1,1] and the centre (label 0); every corner belongs to 3 faces *)
Label == [x \in 1..2 |-> [y \in 1..2 |-> [z \in 1..2 |-> 4 * (x - 1) + 2 * (y - 1) + z]]]
TL == ParalTetrahedra(0, Label)
SetOf4(q) == {q[i] : i \in 1..4}
FaceSplit ==
   /\ \A f \in 1..6 : LET A == SetOf4(TL[2 * f - 1])  B == SetOf4(TL[2 * f]) IN
         /\ Cardinality(A) = 4 /\ Cardinality(B) = 4 /\ 0 \in A /\ 0 \in B
         /\ Cardinality(A \cup B) = 5 /\ Cardinality(A \cap B) = 3
   /\ \A l \in 1..8 : Cardinality({f \in 1..6 : l \in SetOf4(TL[2 * f - 1]) \cup SetOf4(TL[2 * f])}) = 3
   /\ \A f, g \in 1..6 : f # g => SetOf4(TL[2 * f - 1]) \cup SetOf4(TL[2 * f]) # SetOf4(TL[2 * g - 1]) \cup SetOf4(TL[2 * g])
=============================================================================
