---------------------------- MODULE MC_TetraParal ----------------------------
(* TetraWeightsParal.weight_1k1b_priv: one band in one parallelepiped K-point (8 corner energies, centre energy);
   every assignment of corner energies from CVALS, centre from CENTERS, Fermi level from EFS, der 0..3 *)
EXTENDS TetraWeights
CONSTANTS CVALS, CENTERS, EFS1,    \* EFS1 = Fermi levels + 1 (cfg files cannot hold negative numbers)
          DERS, CUBELIM            \* derivative orders; number of cubes kept (pseudo-random subset of the 2^8 .. assignments)
VARIABLES ec, c, ef, der, admissible, welldef, w, closed, planar, pc
vars == <<ec, c, ef, der, admissible, welldef, w, closed, planar, pc>>
EFS == {x - 1 : x \in EFS1}
NA == <<0, 0>>
(* a reproducible subset of the cubes: rank of the assignment in base |CVALS|, scrambled by an odd multiplier *)
Rank(v) == Cardinality({u \in CVALS : u < v})
CubeCode(cc) == LET n == Cardinality(CVALS) IN
   Rank(cc[1][1][1]) + n * (Rank(cc[1][1][2]) + n * (Rank(cc[1][2][1]) + n * (Rank(cc[1][2][2]) + n * (Rank(cc[2][1][1])
      + n * (Rank(cc[2][1][2]) + n * (Rank(cc[2][2][1]) + n * Rank(cc[2][2][2])))))))
NCubes == LET n == Cardinality(CVALS) IN n * n * n * n * n * n * n * n
Cubes == {cc \in [1..2 -> [1..2 -> [1..2 -> CVALS]]] : (CubeCode(cc) * 37) % NCubes < CUBELIM}
T(cc, e0) == ParalTetrahedra(e0, cc)
Adm(cc, e0, x) == \A t \in 1..12 : NotOnDegenerateCorner(x, T(cc, e0)[t])
Wd(cc, e0, x, d) == \A t \in 1..12 : WellDefined(x, T(cc, e0)[t], d)
CodeW(cc, e0, x, d) == ParalWeight(LAMBDA ee, y : WeightsTetra(y, ee, d, TRUE), e0, cc, x)
ClosedW(cc, e0, x, d) == ParalWeight(LAMBDA ee, y : ClosedOcc(ee, y, d), e0, cc, x)
(* Init only chooses the input (TLC computes initial states in one thread); the action Build evaluates the weights *)
Init == /\ c \in Cubes /\ ec \in CENTERS /\ ef \in EFS /\ der \in DERS
        /\ admissible = Adm(c, ec, ef) /\ welldef = Wd(c, ec, ef, der) /\ planar = FacesPlanar(c)
        /\ w = NA /\ closed = NA /\ pc = "input"
Build == /\ pc = "input" /\ pc' = "done"
         /\ w' = (IF admissible THEN CodeW(c, ec, ef, der) ELSE NA)
         /\ closed' = (IF welldef THEN ClosedW(c, ec, ef, der) ELSE NA)
         /\ UNCHANGED <<ec, c, ef, der, admissible, welldef, planar>>
Next == Build
Spec == Init /\ [][Next]_vars
Built == pc = "done"

AllE == {ec} \cup {c[x][y][z] : x \in 1..2, y \in 1..2, z \in 1..2}
ParalCodeEqualsClosed == (Built /\ admissible /\ welldef) => w = closed
ParalUnitRange == (Built /\ der = 0 /\ welldef) => InUnitRange(closed)
ParalOutside == (Built /\ welldef) => ((ef < Min(AllE) => closed = RZero) /\ (ef > Max(AllE) => closed = (IF der = 0 THEN ROne ELSE RZero)))
ParalMonotone == (Built /\ der = 0 /\ welldef /\ (ef + 1) \in EFS /\ Wd(c, ec, ef + 1, 0)) => RLe(closed, ClosedW(c, ec, ef + 1, 0))
(* on cubes with planar faces the choice of the face diagonals does not matter; in general the code's value lies between
   the face-wise bounds *)
OtherW(cc, e0, x, d) == RDivI(RSumSeq([t \in 1..12 |-> ClosedOcc(ParalTetrahedraOther(e0, cc)[t], x, d)]), 12)
WdOther(cc, e0, x, d) == \A t \in 1..12 : WellDefined(x, ParalTetrahedraOther(e0, cc)[t], d)
PlanarDiagonalFree == (Built /\ planar /\ welldef /\ WdOther(c, ec, ef, der)) => OtherW(c, ec, ef, der) = closed
(* the decomposition: label the corners 1..8; the two tetrahedra of a face cover its four corners, share the diagonal
   [0,0]-[1,1] and the centre (label 0); every corner belongs to 3 faces *)
Label == [x \in 1..2 |-> [y \in 1..2 |-> [z \in 1..2 |-> 4 * (x - 1) + 2 * (y - 1) + z]]]
TL == ParalTetrahedra(0, Label)
SetOf4(q) == {q[i] : i \in 1..4}
FaceSplit == (Built /\ der = 0 /\ ef = Min(EFS) /\ ec = Min(CENTERS)) =>         \* input independent: evaluated on few states
   /\ \A f \in 1..6 : LET A == SetOf4(TL[2 * f - 1])  B == SetOf4(TL[2 * f]) IN
         /\ Cardinality(A) = 4 /\ Cardinality(B) = 4 /\ 0 \in A /\ 0 \in B
         /\ Cardinality(A \cup B) = 5 /\ Cardinality(A \cap B) = 3
   /\ \A l \in 1..8 : Cardinality({f \in 1..6 : l \in SetOf4(TL[2 * f - 1]) \cup SetOf4(TL[2 * f])}) = 3
   /\ \A f, g \in 1..6 : f # g => SetOf4(TL[2 * f - 1]) \cup SetOf4(TL[2 * f]) # SetOf4(TL[2 * g - 1]) \cup SetOf4(TL[2 * g])
=============================================================================
