----------------------------- MODULE MC_MPGrid -----------------------------
(* every test of get_mp_grid / grid_from_kpoints inside the constants: Gamma-centred meshes n (n[i] <= NMAX, at most
   MAXPTS points) in many orders (all permutations up to ALLPERM points, the key orders of PermKeys above), meshes
   with one point removed or duplicated, shifted meshes.  Init enumerates the inputs, Call evaluates the transcription;
   every "done" state is one test of the real functions. *)
EXTENDS MPGrid
CONSTANTS NMAX, MAXPTS, ALLPERM,
          PermKeys,     \* orders coded as 1000 a + b
          Shifts,       \* shifts coded as 1000 Q + 100 s1 + 10 s2 + s3
          Dedup         \* TRUE: the code; FALSE: repeated points are selected again (sensitivity self-test)
VARIABLES kind, n, var, perm, pc, pts, mp, gnone, gsel, gsub, goth
vars == <<kind, n, var, perm, pc, pts, mp, gnone, gsel, gsub, goth>>
DEN == 720                      \* multiple of Q n for n <= 6, Q <= 3 (and of 8, 9, 10, 12)
None == Err("not evaluated")
Meshes == {m \in (1..NMAX) \X (1..NMAX) \X (1..NMAX) : NPts(m) <= MAXPTS}
Orders(N) == IF N <= ALLPERM THEN {Permute([q \in 1..N |-> q], p) : p \in SetToSeqs(1..N)}
             ELSE {KeyOrder(N, c \div 1000, c % 1000) : c \in PermKeys}
(* which point is removed / duplicated: every point of small meshes, otherwise the first, second, middle and last *)
Picks(N) == IF N <= 8 THEN 1..N ELSE {1, 2, (N + 1) \div 2, N}
Init == /\ n \in Meshes
        /\ \/ kind = "complete" /\ var = 0 /\ perm \in Orders(NPts(n))
           \/ kind = "removed" /\ NPts(n) > 1 /\ var \in Picks(NPts(n)) /\ perm \in Orders(NPts(n) - 1)
           \/ kind = "dup" /\ var \in Picks(NPts(n)) /\ perm \in Orders(NPts(n) + 1)
           \/ kind = "shifted" /\ var \in Shifts /\ perm \in Orders(NPts(n))
        /\ pc = "in" /\ pts = <<>> /\ mp = None /\ gnone = None /\ gsel = None /\ gsub = None /\ goth = None
Base == CASE kind = "complete" -> MeshSeq(n, DEN)
          [] kind = "removed"  -> RemoveAtIdx(MeshSeq(n, DEN), var)
          [] kind = "dup"      -> Append(MeshSeq(n, DEN), MeshSeq(n, DEN)[var])
          [] kind = "shifted"  -> ShiftedSeq(n, << (var \div 100) % 10, (var \div 10) % 10, var % 10 >>, var \div 1000, DEN)
(* the coarser mesh used for the sub-mesh selection: halve the even directions *)
Half == << IF n[1] % 2 = 0 THEN n[1] \div 2 ELSE n[1], IF n[2] % 2 = 0 THEN n[2] \div 2 ELSE n[2], IF n[3] % 2 = 0 THEN n[3] \div 2 ELSE n[3] >>
(* a grid that is neither the mesh nor a divisor of it: one more point in direction 1, twice as fine in direction 3 *)
Other == << n[1] + 1, n[2], 2 * n[3] >>
Call == /\ pc = "in" /\ pc' = "done"
        /\ pts' = Permute(Base, perm)
        /\ mp' = GetMpGrid(Permute(Base, perm), DEN)
        /\ gnone' = GridFromKpointsV(Permute(Base, perm), NoGrid, DEN, Dedup)
        /\ gsel' = GridFromKpointsV(Permute(Base, perm), n, DEN, Dedup)
        /\ gsub' = GridFromKpointsV(Permute(Base, perm), Half, DEN, Dedup)
        /\ goth' = GridFromKpointsV(Permute(Base, perm), Other, DEN, Dedup)
        /\ UNCHANGED <<kind, n, var, perm>>
Next == Call
Spec == Init /\ [][Next]_vars

Done == pc = "done"
InModel == Done => Representable(pts, DEN)
(* C23: the points of a Gamma-centred mesh in any order: the mesh is detected, and the selection for that mesh returns
   every mesh point exactly once *)
CompleteDetected == (Done /\ kind = "complete") =>
     /\ mp = Ok(n) /\ gnone = Ok(n)
     /\ gsel.err = "" /\ Len(gsel.val) = NPts(n) /\ EachMeshPointOnce(gsel.val, pts, n, DEN)
(* duplicated points are counted once *)
DuplicateOnce == (Done /\ kind = "dup") =>
     /\ mp = Ok(n) /\ gnone = Ok(n)
     /\ gsel.err = "" /\ Len(gsel.val) = NPts(n) /\ EachMeshPointOnce(gsel.val, pts, n, DEN)
(* incomplete meshes are rejected by the selection for the given mesh *)
IncompleteRejected == (Done /\ kind = "removed") => gsel = Err("ValueError")
(* selection of a coarser mesh out of a complete finer one *)
SubmeshOnce == (Done /\ kind \in {"complete", "dup"}) => (gsub.err = "" /\ EachMeshPointOnce(gsub.val, pts, Half, DEN))
(* whatever get_mp_grid returns contains every given point; the detected grid of grid_from_kpoints is complete *)
ReturnedGridHoldsPoints == (Done /\ mp.err = "") => \A i \in 1..Len(pts) : OnGrid(pts[i], mp.val, DEN)
ReturnedGridComplete == (Done /\ gnone.err = "") => IsCompleteMesh(pts, gnone.val, DEN)
(* the status of the transcription is the status the property demands: a selection (or a detected grid) is returned
   iff the points lying on that grid are the whole mesh, an incomplete mesh is rejected; every returned selection
   names each mesh point exactly once.  The replay takes the expected status from these states and checks the value
   returned by the real code against EachMeshPointOnce (any order, any copy of a repeated point) *)
LcmT == LET L == LcmGrid(pts, DEN) IN << L[1], L[2], L[3] >>
StatusIsProperty == Done =>
     /\ (gsel.err = "") = SelectionDefined(pts, n, DEN)
     /\ (gsub.err = "") = SelectionDefined(pts, Half, DEN)
     /\ (goth.err = "") = SelectionDefined(pts, Other, DEN)
     /\ (gnone.err = "") = IsSomeMesh(pts, DEN)
     /\ (gnone.err = "" => gnone.val = LcmT)
SelectionsOnce == Done =>
     /\ (gsel.err = "" => EachMeshPointOnce(gsel.val, pts, n, DEN))
     /\ (gsub.err = "" => EachMeshPointOnce(gsub.val, pts, Half, DEN))
     /\ (goth.err = "" => EachMeshPointOnce(goth.val, pts, Other, DEN))
(* a duplicate-free list that is a Gamma-centred mesh is detected by get_mp_grid (in any order) *)
MpDetectsAnyMesh == (Done /\ NoDuplicates(pts) /\ IsSomeMesh(pts, DEN)) => mp = Ok(LcmT)
=============================================================================
