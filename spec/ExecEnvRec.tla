----------------------------- MODULE ExecEnvRec -----------------------------
(* code -> spec for X05: recorded calls of the real parallel.py functions (single calls of get_ray_runtime_env and whole
   sessions against the recording ray double), of utils/cluster.py main() and of run(); one TLC state per record, every
   clause of ExecEnv.tla is evaluated on the recorded values.  Clauses named info_* compare with the transcription of
   today's code and never decide. *)
EXTENDS ExecEnv, Json, IOUtils, TLCExt
VARIABLE i
Recs == JsonDeserialize(IOEnv.TRACE_FILE).recs
With(v, Body(_)) == CHOOSE r \in {Body(y) : y \in {v}} : TRUE

SetOf(s) == {s[k] : k \in 1..Len(s)}
Tup(s) == [k \in 1..Len(s) |-> s[k]]
EnvOf(j) == [given |-> j.given, pymGiven |-> j.pymGiven, pym |-> Tup(j.pym), other |-> SetOf(j.other)]
KwOf(s) == {<< s[k][1], s[k][2] >> : k \in 1..Len(s)}
CallOf(c) == [fn |-> c.fn, kw |-> KwOf(c.kw), env |-> EnvOf(c.env)]
DOf(d) == [act |-> d.act, kw |-> KwOf(d.kw), env |-> EnvOf(d.env), flags |-> SetOf(d.flags), num |-> d.num, par |-> d.par]
ResOf(r) == [status |-> r.status, ret |-> r.ret, warned |-> r.warned, calls |-> [k \in 1..Len(r.calls) |-> CallOf(r.calls[k])],
             puts |-> r.puts, tasks |-> r.tasks, serial |-> r.serial]
HistOf(steps) == [k \in 1..Len(steps) |-> [d |-> DOf(steps[k].d), res |-> ResOf(steps[k].res), up |-> steps[k].up]]
WorldOf(j, up) == [installed |-> j.installed, up |-> up, cpus10 |-> 0, ipHead |-> Tup(j.ipHead), redis |-> j.redis]

(* the transcription run over the recorded calls: <<world, results>> *)
SpecApply(ww, d, nk) ==
   CASE d.act = "ray_init" -> RayInit(ww, d.kw, d.env, "ignore_missing" \in d.flags, "ucc" \in d.flags, Good)
     [] d.act = "ray_init_cluster" -> RayInitCluster(ww, d.num, "ignore_initialized" \in d.flags, "ucc" \in d.flags, d.kw, d.env, Good)
     [] d.act = "ray_shutdown" -> RayShutdown(ww, Good)
     [] d.act = "check_ray_initialized" -> CheckRayInitialized(ww)
     [] d.act = "get_ray_cpus_count" -> GetRayCpusCount(ww)
     [] d.act = "run" -> RunParallel(ww, d.par, nk, Good)
     [] d.act = "ext_init" -> ExtInit(ww, IF d.num = "36" THEN 36 ELSE 44)
RECURSIVE SpecRun(_, _, _, _)
SpecRun(ww, hist, k, nk) == IF k > Len(hist) THEN TRUE
                            ELSE LET r == SpecApply(ww, hist[k].d, nk) IN
                                 /\ r[2].status = hist[k].res.status /\ r[2].ret = hist[k].res.ret /\ r[2].calls = hist[k].res.calls
                                 /\ r[1].up = hist[k].up /\ r[2].puts = hist[k].res.puts /\ r[2].tasks = hist[k].res.tasks
                                 /\ SpecRun(r[1], hist, k + 1, nk)

AOf(j) == [bs |-> j.bs, exp |-> j.exp, nodes |-> j.nodes, node |-> j.node, cpus |-> j.cpus, gpus |-> j.gpus, partition |-> j.partition,
           loadenv |-> Tup(j.loadenv), command |-> Tup(j.command), sleeph |-> << j.sleeph[1], j.sleeph[2] >>, sleepw |-> << j.sleepw[1], j.sleepw[2] >>,
           spill |-> j.spill, submit |-> j.submit, missing |-> SetOf(j.missing)]
ROf(j) == [status |-> j.status, table |-> [k \in 1..Len(j.table) |-> Tup(j.table[k])], sleeps |-> [k \in 1..Len(j.sleeps) |-> << j.sleeps[k][1], j.sleeps[k][2] >>],
           spill |-> Tup(j.spill), unreplaced |-> Tup(j.unreplaced), popen |-> [k \in 1..Len(j.popen) |-> Tup(j.popen[k])], fname |-> j.fname,
           same |-> j.same, nfiles |-> j.nfiles]
OOf(j) == [grid |-> j.grid, calcs |-> j.calcs, irred |-> j.irred, sym |-> j.sym, restart |-> j.restart, allow |-> j.allow, dump |-> j.dump,
           niter |-> j.niter, fac |-> j.fac, mesh |-> Tup(j.mesh), meshInt |-> j.meshInt, dir |-> j.dir, klpath |-> j.klpath,
           nkfull |-> j.nkfull, nkirr |-> j.nkirr, pdiv |-> j.pdiv]
RunROf(j) == [status |-> j.status, sym |-> j.sym, allow |-> j.allow, dump |-> j.dump, niter |-> j.niter, saved |-> SetOf(j.saved),
              evals0 |-> j.evals0, symcalls0 |-> j.symcalls0, diract |-> j.diract, marker |-> j.marker, pickle |-> j.pickle,
              kpfiles |-> j.kpfiles, dirExists |-> j.dirExists]

EnvClauses(rec) ==
   With(<< EnvOf(rec.e), EnvOf(rec.g), EnvOf(rec.g2) >>, LAMBDA t :
     LET e == t[1]  g == t[2] IN
     [ in_model |-> (~e.given => (e.pym = <<>> /\ ~e.pymGiven /\ e.other = {})) /\ (~e.pymGiven => e.pym = <<>>),
       idempotent |-> t[3] = g,
       has_checkout |-> rec.ucc => (g.given /\ g.pymGiven /\ Count(g.pym, PKG) = (IF Count(e.pym, PKG) = 0 THEN 1 ELSE Count(e.pym, PKG))),
       keeps_modules |-> rec.ucc => (IsPrefix(e.pym, g.pym) /\ Len(g.pym) <= Len(e.pym) + 1),
       keeps_keys |-> g.other = e.other,
       off_is_identity |-> ~rec.ucc => NormEnv(g) = NormEnv(e),
       input_untouched |-> ~rec.mutated,
       info_equals_spec |-> NormEnv(g) = NormEnv(GetRayRuntimeEnv(e, rec.ucc)) ])
RayRecClauses(rec) ==
   With(<< HistOf(rec.steps), WorldOf(rec.world, IF Len(rec.steps) = 0 THEN FALSE ELSE rec.steps[Len(rec.steps)].up) >>, LAMBDA t :
     LET c == RayClauses(t[2], t[1], rec.nk) IN
     [ k \in (DOMAIN c) \cup {"inputs_untouched", "info_equals_spec"} |->
         IF k = "inputs_untouched" THEN \A s \in SetOf(rec.steps) : ~s.mutated
         ELSE IF k = "info_equals_spec" THEN SpecRun([t[2] EXCEPT !.up = FALSE], t[1], 1, rec.nk)
         ELSE c[k] ])
ClusterRecClauses(rec) ==
   With(<< AOf(rec.a), ROf(rec.R) >>, LAMBDA t :
     LET c == ScriptClauses(t[1], t[2]) IN
     [ k \in (DOMAIN c) \cup {"info_table_equals_spec"} |->
         IF k = "info_table_equals_spec" THEN t[2].table = ClusterMain(t[1], GoodScript).table ELSE c[k] ])
RunRecClauses(rec) ==
   With(<< OOf(rec.o), RunROf(rec.r) >>, LAMBDA t :
     LET c == RunLaws(t[1], t[2]) IN
     [ k \in (DOMAIN c) \cup {"in_model", "info_equals_spec"} |->
         IF k = "in_model" THEN ~NegIterTie(t[1]) /\ ~NegIterNoMesh(t[1]) /\ ~PathRefine(t[1]) /\ ~PathRestart(t[1])
         ELSE IF k = "info_equals_spec" THEN t[2] = RunOptions(t[1], RunSwitches)
         ELSE c[k] ])
Clauses == LET rec == Recs[i] IN
           CASE rec.kind = "env" -> EnvClauses(rec)
             [] rec.kind = "ray" -> RayRecClauses(rec)
             [] rec.kind = "cluster" -> ClusterRecClauses(rec)
             [] rec.kind = "runopts" -> RunRecClauses(rec)
Report == With(Clauses, LAMBDA C : \A c \in DOMAIN C : C[c] \/ PrintT(<<"BAD", i, c>>))
RecInit == i \in 1..Len(Recs)
RecSpec == RecInit /\ [][UNCHANGED i]_i
=============================================================================
