------------------------- MODULE MC_BandSelectFiles -------------------------
(* X03, function table: one state per (file object, selection, second selection): what select_bands makes of the object
   and what a second select_bands makes of the result.  The data values depend injectively on every index (k-point,
   neighbour, bands, component), so that a band taken from the wrong place, a transposition or a selection along the
   wrong axis changes the table. *)
EXTENDS BandSelect
CONSTANTS CLS, NBS
VARIABLES par, obj, sel, out, sel2, out2
fvars == <<par, obj, sel, out, sel2, out2>>

EV(s, k, b) == (16 * b) + (4 * k) + s - 24                                   \* an energy (eighths of an eV)
CV(s, k, i, a, b, c) == LET n == (256 * k) + (64 * i) + (16 * a) + (4 * b) + c + s IN <<n, 7 - n>>      \* indices < 4
Eye8 == <<<<8, 0, 0>>, <<0, 8, 0>>, <<0, 0, 8>>>>
B6 == << <<1, 0, 0>>, <<-1, 0, 0>>, <<0, 1, 0>>, <<0, -1, 0>>, <<0, 0, 1>>, <<0, 0, -1>> >>
Must(r) == r.obj                    \* the generator only builds objects the constructors accept
KSel(nk, part) == IF part THEN AllK(nk) \ {nk - 1} ELSE AllK(nk)

EigObj(nk, nb, ks, s) == Must(Construct("eig", [NK |-> nk], [data |-> [k \in ks |-> [b \in 1..nb |-> EV(s, k, b)]]]))
AmnTags(nw) == [positions |-> [w \in 1..nw |-> <<w, 2 * w, 3>>], orbitals |-> [w \in 1..nw |-> IF w % 2 = 1 THEN "s" ELSE "pz"],
                radial_nodes_list |-> [w \in 1..nw |-> w % 2], basis_list |-> [w \in 1..nw |-> Eye8],
                spread_list |-> [w \in 1..nw |-> 8 + w], spinor |-> FALSE]
AmnObj(nk, nb, nw, ks, s, tags) ==
   Must(Construct("amn", [NK |-> nk] @@ (IF tags THEN AmnTags(nw) ELSE << >>),
                  [data |-> [k \in ks |-> [b \in 1..nb |-> [w \in 1..nw |-> CV(s, k, 0, b, w, 0)]]]]))
BkObj(nk, nnb, ks) ==
   LET nbr(k, j) == (k + B6[j][1]) % nk IN
   Must(Construct("bkvec",
        [bk_grid |-> SubSeq(B6, 1, nnb), wk |-> [j \in 1..nnb |-> 2 + j], kpt_grid |-> [i \in 1..nk |-> <<i - 1, 0, 0>>],
         kptirr |-> SetToSortSeq(ks, <), mp_grid |-> <<nk, 1, 1>>, recip_lattice |-> Eye8],
        [neighbours |-> [k \in ks |-> [j \in 1..nnb |-> nbr(k, j)]],
         G |-> [k \in ks |-> [j \in 1..nnb |-> <<(k + B6[j][1] - nbr(k, j)) \div nk, B6[j][2], B6[j][3]>>]]]))
Rot(nnb) == [j \in 1..nnb |-> j % nnb]
MmnObj(nk, nb, nnb, ks, s, reord) ==
   Must(Construct("mmn", [NK |-> nk],
        [data |-> [k \in ks |-> [j \in 1..nnb |-> [a \in 1..nb |-> [b \in 1..nb |-> CV(s, k, j, a, b, 0)]]]]]
        @@ (IF reord THEN [bk_reorder |-> [k \in ks |-> Rot(nnb)]] ELSE << >>)))
(* a checkpoint before wannierisation (CheckPoint(num_wann, num_bands, kpt_red, mp_grid), as from_bandstructure makes it)
   or after it (v_matrix, centres, spreads) *)
ChkObj(nk, nb, nw, ks, s, wannierised) ==
   Must(Construct("chk",
        [mp_grid |-> <<nk, 1, 1>>, real_lattice |-> Eye8, num_wann |-> nw, num_bands |-> nb, num_kpts |-> nk,
         kpt_red |-> [i \in 1..nk |-> <<i - 1, 0, 0>>]]
        @@ (IF wannierised THEN [wannier_centers_cart |-> [w \in 1..nw |-> <<w, 2 * w, s>>], wannier_spreads |-> [w \in 1..nw |-> 8 + w]]
            ELSE << >>),
        IF wannierised THEN [v_matrix |-> [k \in ks |-> [b \in 1..nb |-> [w \in 1..nw |-> CV(s, k, 0, b, w, 1)]]]] ELSE << >>))
SpnObj(nk, nb, ks, s) ==
   Must(Construct("spn", [NK |-> nk], [data |-> [k \in ks |-> [a \in 1..nb |-> [b \in 1..nb |-> [c \in 1..3 |-> CV(s, k, 0, a, b, c)]]]]]))
UxuObj(cls, nk, nb, nnb, ks, s) ==
   Must(Construct(cls, [NK |-> nk], [data |-> [k \in ks |-> [i \in 1..nnb |-> [j \in 1..nnb |-> [a \in 1..nb |-> [b \in 1..nb |->
                                               CV(s, k, i, a, b, j)]]]]]]))
SxuObj(cls, nk, nb, nnb, ks, s) ==
   Must(Construct(cls, [NK |-> nk], [data |-> [k \in ks |-> [j \in 1..nnb |-> [a \in 1..nb |-> [b \in 1..nb |-> [c \in 1..3 |->
                                               CV(s, k, j, a, b, c)]]]]]]))
ObjOf(cls, nk, nb, nw, nnb, ks, s, flag) ==
   CASE cls = "eig" -> EigObj(nk, nb, ks, s)
     [] cls = "amn" -> AmnObj(nk, nb, nw, ks, s, flag)
     [] cls = "mmn" -> MmnObj(nk, nb, nnb, ks, s, flag)
     [] cls = "bkvec" -> BkObj(nk, nnb, ks)
     [] cls = "chk" -> ChkObj(nk, nb, nw, ks, s, flag)
     [] cls = "spn" -> SpnObj(nk, nb, ks, s)
     [] cls \in {"uhu", "uiu"} -> UxuObj(cls, nk, nb, nnb, ks, s)
     [] cls \in {"shu", "siu"} -> SxuObj(cls, nk, nb, nnb, ks, s)

(* every selection of at most nb bands out of nb (with repetitions and in any order), and one index that does not exist *)
Sels(nb) == UNION {[1..m -> 0..(nb - 1)] : m \in 0..nb} \cup {<<nb>>}
Sels2(n) == IF n = 0 THEN {<< >>} ELSE {Ident(n), <<n - 1>>, [j \in 1..n |-> n - j]}
UsesFlag(cls) == cls \in {"amn", "mmn", "chk"}
UsesPart(cls) == cls \in {"eig", "mmn", "siu"}
FParams == {<<cls, nb, part, flag>> \in CLS \X NBS \X BOOLEAN \X BOOLEAN : (~UsesFlag(cls) => ~flag) /\ (~UsesPart(cls) => ~part)}
NbOf(x) == IF x.cls = "chk" THEN x.attr["num_bands"] ELSE IF x.cls = "bkvec" THEN 0 ELSE x.dim.NB
FInit == \E p \in FParams : \E s \in Sels(p[2]) :
   /\ par = p
   /\ obj = ObjOf(p[1], 2, p[2], IF p[2] = 1 THEN 1 ELSE 2, 2, KSel(2, p[3]), 1, p[4])
   /\ sel = s
   /\ out = SelectFile(obj, s)
   /\ \E t \in (IF out.err = "" THEN Sels2(Len(s)) ELSE {<< >>}) :
         /\ sel2 = t
         /\ out2 = IF out.err = "" THEN SelectFile(out.obj, t) ELSE out
FNext == UNCHANGED fvars
FSpec == FInit /\ [][FNext]_fvars

(* ---- the properties *)
Refusable == (obj.cls \in BandCarrying /\ ~InRange(sel, obj.dim.NB)) \/ (obj.cls = "chk" /\ (~InRange(sel, obj.attr["num_bands"]) \/ Wannierised(obj)))
(* a wannierised checkpoint and an index that does not exist are refused, everything else is done *)
FStatus == /\ (Refusable => out.err # "")
           /\ ((~Refusable /\ ~(obj.cls = "chk" /\ sel = << >>)) => out.err = "")
(* every entry of the result is the entry of the object at the selected bands; sizes, k-points and the other tags follow *)
FEntries == out.err = "" => Restricted(out.obj, obj, sel)
(* the tables of the result have the sizes the object says (the constructor would accept them as they are) *)
FShape == (out.err = "" /\ obj.cls \in BandCarrying /\ sel # << >>) =>
             LET r == Construct(obj.cls, out.obj.attr, out.obj.dic) IN r.err = "" /\ r.obj.dim = out.obj.dim
(* selecting all bands in their order changes nothing *)
FIdentity == (out.err = "" /\ sel = Ident(NbOf(obj)) /\ obj.cls # "bkvec") => SameButBook(out.obj, obj)
(* selecting twice is selecting once with the composed indices *)
FCompose == (out.err = "" /\ out2.err = "") =>
               LET one == SelectFile(obj, Compose(sel, sel2)) IN
               /\ one.err = ""
               /\ (HasDuplicates(sel) \/ SameButBook(out2.obj, one.obj))           \* (a checkpoint counts distinct bands)
               /\ (obj.cls \in BandCarrying => Restricted(out2.obj, obj, Compose(sel, sel2)))
(* with the composed bookkeeping the checkpoint names the bands of the original numbering *)
FBook == (Bookkeeping = "composed" /\ obj.cls = "chk" /\ out.err = "" /\ out2.err = "") =>
            out2.obj.attr["selected_bands"] = Compose(sel, sel2)
=============================================================================
