------------------------------ MODULE WignerSeitz ------------------------------
(* C01 -- Wigner-Seitz / MDRS replica selection (fourier/rvectors.py: WignerSeitz.__call__, Rvectors.set_Rvec), the
   mesh -> real space transform with weights 1/Ndegen (Rvectors.q_to_R, remap_XX_from_grid_to_list_R), the re-mapping of an
   existing system (System_R.do_ws_dist = Rvectors.remap_XX_R + exclude_zeros), conj_XX_R and the evaluation at the mesh
   points, in exact integer / cyclotomic arithmetic.

   A problem P is a record
      G   : 3x3 integer Gram matrix of the lattice, G[i][j] = a_i . a_j
      N   : mp_grid <<n1, n2, n3>> (every n_j divides 12 where Fourier phases are used)
      S   : denominator of the Wannier centres;  a shift delta = tau_b - tau_a is an integer triple in units of 1/S
      tol : <<tn, td>>, the Wigner-Seitz tolerance tn/td (a length, same unit as sqrt(G))
      box : the set of super-cell translations T that are searched; the code searches FullBox = (-3..3)^3
   Squared lengths are kept multiplied by S^2 (integers). *)
EXTENDS Cyclo12, TLC

Neg3(u) == <<-u[1], -u[2], -u[3]>>
Sub3(u, v) == <<u[1] - v[1], u[2] - v[2], u[3] - v[3]>>
Mod3(u, n) == <<u[1] % n[1], u[2] % n[2], u[3] % n[3]>>
Q(G, v) == v[1] * (G[1][1] * v[1] + 2 * G[1][2] * v[2] + 2 * G[1][3] * v[3])
           + v[2] * (G[2][2] * v[2] + 2 * G[2][3] * v[3]) + G[3][3] * v[3] * v[3]
NK(N) == N[1] * N[2] * N[3]
(* iterate_nd(mp_grid): the mesh classes, first index slowest *)
MeshPoints(N) == (0..(N[1] - 1)) \X (0..(N[2] - 1)) \X (0..(N[3] - 1))
MeshSeq(N) == [j \in 1..NK(N) |-> <<(j - 1) \div (N[2] * N[3]), ((j - 1) \div N[3]) % N[2], (j - 1) % N[3]>>]
(* iterate3dpm(ws_search_size = 3) *)
BoxOfSize(m) == ((-m)..m) \X ((-m)..m) \X ((-m)..m)
FullBox == BoxOfSize(3)
(* the same box with the translations along the directions > d dropped (see DirectionsInert) *)
BoxDimSize(d, m) == {T \in BoxOfSize(m) : \A j \in (d + 1)..3 : T[j] = 0}
BoxDim(d) == BoxDimSize(d, 3)
Cand(N, r, T) == <<r[1] + N[1] * T[1], r[2] + N[2] * T[2], r[3] + N[3] * T[3]>>
(* S^2 |R + delta/S|^2 *)
Len2(P, R, delta) == Q(P.G, <<P.S * R[1] + delta[1], P.S * R[2] + delta[2], P.S * R[3] + delta[3]>>)

(* ---------------- abs(dist - dist_min) < tolerance, decided exactly.
   With c = S tol = cn/cd, q = S^2 dist^2, qmin = S^2 dist_min^2, d = q - qmin >= 0:
        sqrt(q) - sqrt(qmin) < c   <=>   d < 2 c sqrt(qmin) + c^2   <=>   L < 2 cn cd sqrt(qmin),  L = cd^2 d - cn^2
   -1: inside the tolerance, 0: exactly on the boundary (ambiguous in floating point), 1: outside.  The first two
   shortcuts only avoid 32-bit overflow; they are implied by the exact test. *)
CmpTol(q, qmin, cn, cd) ==
   LET d == q - qmin  sc == SqrtCeil(qmin)
   IN IF d = 0 THEN -1
      ELSE IF cn <= cd /\ d >= (cn * (2 * sc + 1)) \div cd + 1 THEN 1
      ELSE IF cd <= 100 /\ cd * cd * d > 2 * cn * cd * sc + cn * cn THEN 1
      ELSE LET L == cd * cd * d - cn * cn
           IN IF L < 0 THEN -1
              ELSE IF L * L < 4 * cn * cn * cd * cd * qmin THEN -1
              ELSE IF L * L = 4 * cn * cn * cd * cd * qmin THEN 0 ELSE 1
TolC(P) == <<P.S * P.tol[1], P.tol[2]>>

(* ---------------- WignerSeitz.__call__(shift_reduced = delta / S): for every mesh class r the candidates r + N T, their
   distances |R + shift|, the minimal one, the candidates within the tolerance of it and their number *)
WSClass(P, delta, r) ==
   With([T \in P.box |-> Len2(P, Cand(P.N, r, T), delta)], LAMBDA qs :
   With(Min({qs[T] : T \in P.box}), LAMBDA qmin :
   With({T \in P.box : CmpTol(qs[T], qmin, TolC(P)[1], TolC(P)[2]) = -1}, LAMBDA sel :
        [Rs |-> {Cand(P.N, r, T) : T \in sel}, nd |-> Cardinality(sel), qmin |-> qmin,
         amb |-> \E T \in P.box : CmpTol(qs[T], qmin, TolC(P)[1], TolC(P)[2]) = 0,
         edge |-> \E T \in sel : \E j \in 1..3 : T[j] = 3 \/ T[j] = -3])))
(* the loop over iRvec_search: one record per mesh class *)
WSClasses(P, delta) == [r \in MeshPoints(P.N) |-> WSClass(P, delta, r)]
(* (iRvec, Ndegen) as a set of pairs <<R, Ndegen>> *)
WSFrom(C) == UNION {{<<R, C[r].nd>> : R \in C[r].Rs} : r \in DOMAIN C}
WS(P, delta) == WSFrom(WSClasses(P, delta))
(* a distance lies exactly on the tolerance boundary: the floating-point comparison of the code is not determined *)
AmbiguousIn(C) == \E r \in DOMAIN C : C[r].amb
Ambiguous(P, delta) == AmbiguousIn(WSClasses(P, delta))
(* a selected replica lies on the surface of the search box *)
OnBoxEdgeIn(C) == \E r \in DOMAIN C : C[r].edge

(* ---------------- Rvectors.set_Rvec: one Wigner-Seitz set per distinct shift tau_b - tau_a *)
Delta(tau, a, b) == Sub3(tau[b], tau[a])
Shifts(tau) == {Delta(tau, a, b) : a, b \in DOMAIN tau}
SetRvec(P, tau) == [d \in Shifts(tau) |-> WS(P, d)]
(* Rvectors.iRvec: the union *)
UnionR(W) == UNION {{e[1] : e \in W[d]} : d \in DOMAIN W}
Ndeg(Wd, R) == IF \E e \in Wd : e[1] = R THEN (CHOOSE e \in Wd : e[1] = R)[2] ELSE 0
LcmDeg(W) == LcmSet(UNION {{e[2] : e \in W[d]} : d \in DOMAIN W})

(* ---------------- what C01 states about the replica sets *)
(* per pair and per mesh class the weights 1/Ndegen add up to one: the class is non-empty, Ndegen = size of the class *)
WeightsPerClass(P, Wd) ==
   \A r \in MeshPoints(P.N) : LET C == {e \in Wd : Mod3(e[1], P.N) = r}
                              IN C # {} /\ \A e \in C : e[2] = Cardinality(C)
NoDuplicates(Wd) == \A e, f \in Wd : e[1] = f[1] => e = f
(* hence the weights of a pair add up to the number of mesh points (times any common multiple L of the degeneracies) *)
WSum(Wd, L) == FoldLeft(LAMBDA acc, e : acc + L \div e[2], 0, SetToSeq(Wd))
TotalWeightOK(P, Wd, L) == (\A e \in Wd : L % e[2] = 0) /\ WSum(Wd, L) = L * NK(P.N)
(* the replica set of (b, a) is the negative of that of (a, b), with equal degeneracies *)
MinusSet(Wd) == {<<Neg3(e[1]), e[2]>> : e \in Wd}
(* search-box precondition (DESIGN 7.2): |tau_b - tau_a| <= 1.5 lattice vectors in every direction *)
InSearchBox(P, delta) == \A j \in 1..3 : 2 * Abs(delta[j]) <= 3 * P.S
(* directions j > d are inert for the shift delta: mesh size 1, no coupling in G, no shift, and a tolerance so tight that
   a replica displaced along such a direction (length^2 increases by at least G[j][j]) can never be selected *)
TightFor(P, qmax) == LET c == TolC(P) IN c[1] <= c[2] /\ (c[1] * (2 * SqrtCeil(qmax) + 1)) \div c[2] = 0
DirectionsInert(P, delta, d) ==
   \A j \in (d + 1)..3 : P.N[j] = 1 /\ delta[j] = 0 /\ \A i \in 1..3 : i # j => P.G[i][j] = 0 /\ P.G[j][i] = 0

(* ---------------- Rvectors.q_to_R: data on the mesh -> real space.  dat[i][a][b][c] is the matrix element (a, b), Cartesian
   component c, at the i-th k-point of the list; ord[i] = N * k_i, the integer mesh coordinates of that k-point (kpt_mp_grid).
   AA_q_mp[k] = AA_q[i];  forward FFT / prod(mp_grid);  remap to the R list with weights 1/Ndegen.
   Values are kept multiplied by NK * L (L a common multiple of all Ndegen). *)
TwelfthsPerStep(N) == <<12 \div N[1], 12 \div N[2], 12 \div N[3]>>
MeshPhase(N, p, R) == LET s == TwelfthsPerStep(N) IN s[1] * p[1] * R[1] + s[2] * p[2] * R[2] + s[3] * p[3] * R[3]
GridOfData(N, ord, dat, nw, nc) ==
   [r \in MeshPoints(N) |-> [a \in 1..nw |-> [b \in 1..nw |-> [c \in 1..nc |->
        CSumSeq([i \in 1..Len(ord) |-> CRot(dat[i][a][b][c], -MeshPhase(N, ord[i], r))])]]]]
(* remap_XX_from_grid_to_list_R: X[R][a][b] = grid[R mod N][a][b] / Ndegen_ab(R) for R in the set of the pair, else 0 *)
RemapGridToList(P, tau, W, grid, L, nw, nc) ==
   [R \in UnionR(W) |-> [a \in 1..nw |-> [b \in 1..nw |->
        With(Ndeg(W[Delta(tau, a, b)], R), LAMBDA nd :
             [c \in 1..nc |-> IF nd = 0 THEN CZero ELSE CScale(L \div nd, grid[Mod3(R, P.N)][a][b][c])])]]]
QtoR(P, tau, W, ord, dat, L, nw, nc) == RemapGridToList(P, tau, W, GridOfData(P.N, ord, dat, nw, nc), L, nw, nc)
(* Rvectors.remap_XX_R (System_R.do_ws_dist): an old R list is folded onto the mesh classes, then re-mapped *)
GridOfOld(N, Xold, nw, nc) ==
   [r \in MeshPoints(N) |-> [a \in 1..nw |-> [b \in 1..nw |-> [c \in 1..nc |->
        CSumSet({R \in DOMAIN Xold : Mod3(R, N) = r}, LAMBDA R : Xold[R][a][b][c])]]]]
RemapXXR(P, tau, W, Xold, L, nw, nc) == RemapGridToList(P, tau, W, GridOfOld(P.N, Xold, nw, nc), L, nw, nc)
(* Rvectors.exclude_zeros *)
IsZeroAt(X, R) == \A a \in DOMAIN X[R] : \A b \in DOMAIN X[R][a] : \A c \in DOMAIN X[R][a][b] : X[R][a][b][c] = CZero
ExcludeZeros(X) == [R \in {R \in DOMAIN X : ~IsZeroAt(X, R)} |-> X[R]]
(* evaluation at the mesh point p / N:  sum_R X(R) exp(2 pi i p.R / N) *)
RtoKMesh(N, X, p, nw, nc) ==
   [a \in 1..nw |-> [b \in 1..nw |-> [c \in 1..nc |->
        CSumSet(DOMAIN X, LAMBDA R : CRot(X[R][a][b][c], MeshPhase(N, p, R)))]]]
ScaleData(n, D) == [a \in DOMAIN D |-> [b \in DOMAIN D[a] |-> [c \in DOMAIN D[a][b] |-> CScale(n, D[a][b][c])]]]
(* Rvectors.conj_XX_R: R -> -R and Hermitian conjugate; zero where -R is missing *)
ConjXXR(X) ==
   [R \in DOMAIN X |-> [a \in DOMAIN X[R] |-> [b \in DOMAIN X[R] |-> [c \in DOMAIN X[R][a][b] |->
        IF Neg3(R) \in DOMAIN X THEN CConj(X[Neg3(R)][b][a][c]) ELSE CZero]]]]
IsHermitianData(dat) ==
   \A i \in DOMAIN dat : \A a, b \in DOMAIN dat[i] : \A c \in DOMAIN dat[i][a][b] : dat[i][b][a][c] = CConj(dat[i][a][b][c])

(* ---------------- what C01 states about the transforms *)
(* interpolating back gives exactly the input at every mesh point, whatever the order of the list *)
RoundTripOK(P, X, ord, dat, L, nw, nc) ==
   \A i \in 1..Len(ord) : RtoKMesh(P.N, X, ord[i], nw, nc) = ScaleData(L * NK(P.N), dat[i])
(* X(-R) = X(R)^dagger *)
HermitianR(X) == ConjXXR(X) = X
(* do_ws_dist does not change the values at the mesh points *)
MeshValuesKept(P, Xnew, Xold, L, nw, nc) ==
   \A p \in MeshPoints(P.N) : RtoKMesh(P.N, Xnew, p, nw, nc) = ScaleData(L, RtoKMesh(P.N, Xold, p, nw, nc))
=============================================================================
