----------------------------- MODULE NeededData -----------------------------
(* X01 (a): wannierberri/system/needed_data.py  NeededData - which real-space matrices and which Wannier90 files
   are needed for a combination of the user flags.  A flag assignment is a function Flags -> BOOLEAN; the result of
   __init__ is the pair (matrices, files) of sets of names.  One operator per block of the constructor, in its order:
   Collect (the `if <flag>: self.matrices.update(...)` lines), ApplyFF (OOGG_to_FF / FF / keepOOGG),
   ApplyInternal (force_internal_terms_only), Files (needed_files + chk).  Besides the transcription the module holds
   an independent table BuiltFrom (what system_w90.py hands to the routines that build each matrix) and the laws the
   decision table is checked against (MC_NeededData). *)
EXTENDS Integers, Sequences, FiniteSets, TLC

CONSTANTS FFIgnoresKeep,     \* FALSE: the code.  TRUE: OO/GG are dropped whenever FF is on, keepOOGG ignored (wrong variant, sensitivity)
          SHFilesNoEig       \* FALSE: the code.  TRUE: needed_files['SH'] = ['spn'] (wrong variant, sensitivity)

Fito == "force_internal_terms_only"
Flags == {"berry", "morb", "spin", "SHCryoo", "SHCqiao", "OSD", "qmetric", "FF", Fito, "keepOOGG", "OOGG_to_FF", "chk"}
Defaults == [f \in Flags |-> f \in {"OOGG_to_FF", "chk"}]
(* the flags that ask for a physical quantity *)
QuantityFlags == {"berry", "morb", "spin", "SHCryoo", "SHCqiao", "OSD", "qmetric"}
AllMatrices == {"Ham", "AA", "BB", "CC", "OO", "GG", "FF", "SS", "SH", "SR", "SA", "SHA", "SHR"}
AllFiles == {"mmn", "eig", "uhu", "uiu", "spn", "siu", "shu", "chk"}

(* class attribute needed_files (a defaultdict: names without an entry - Ham, SHR - give the empty list) *)
NeededFiles(m) ==
   CASE m = "AA" -> {"mmn"}
     [] m = "BB" -> {"mmn", "eig"}
     [] m = "CC" -> {"uhu", "mmn"}
     [] m \in {"OO", "GG", "FF"} -> {"uiu", "mmn"}
     [] m = "SS" -> {"spn"}
     [] m = "SH" -> IF SHFilesNoEig THEN {"spn"} ELSE {"spn", "eig"}
     [] m = "SR" -> {"spn", "mmn"}
     [] m = "SA" -> {"siu", "mmn"}
     [] m = "SHA" -> {"shu", "mmn"}
     [] OTHER -> {}

(* `if <flag>: self.matrices.add/update(...)` *)
Contribution(f) ==
   CASE f = "morb" -> {"AA", "BB", "CC"}
     [] f = "berry" -> {"AA"}
     [] f = "qmetric" -> {"AA", "FF"}
     [] f = "spin" -> {"SS"}
     [] f = "SHCryoo" -> {"AA", "SS", "SA", "SHA", "SH"}
     [] f = "SHCqiao" -> {"AA", "SS", "SR", "SH", "SHR"}
     [] f = "OSD" -> {"AA", "BB", "CC", "GG", "OO"}
     [] OTHER -> {}
Collect(fl) == {"Ham"} \cup UNION {Contribution(f) : f \in {g \in QuantityFlags : fl[g]}}
(* `if OOGG_to_FF and all(mat in self.matrices for mat in ['OO','GG']): FF = True` *)
FFOn(fl, ms) == fl["FF"] \/ (fl["OOGG_to_FF"] /\ {"OO", "GG"} \subseteq ms)
(* `if FF: add('FF'); if not keepOOGG: remove GG, OO` *)
ApplyFF(fl, ms) ==
   IF ~FFOn(fl, ms) THEN ms
   ELSE IF fl["keepOOGG"] /\ ~FFIgnoresKeep THEN ms \cup {"FF"}
   ELSE (ms \cup {"FF"}) \ {"GG", "OO"}
(* `if force_internal_terms_only: self.matrices = self.matrices.intersection(['Ham', 'SS'])` *)
ApplyInternal(fl, ms) == IF fl[Fito] THEN ms \cap {"Ham", "SS"} ELSE ms
Matrices(fl) == ApplyInternal(fl, ApplyFF(fl, Collect(fl)))
Files(fl) == UNION {NeededFiles(m) : m \in Matrices(fl)} \cup (IF fl["chk"] THEN {"chk"} ELSE {})

(* need_any(keys): truthy iff one of the keys is needed;  not_in_list(list) *)
NeedAny(fl, keys) == keys \cap Matrices(fl) # {}
NotInList(fl, lst) == Matrices(fl) \ lst

(* classmethod get_parameters (keyword dictionary) -> (parameters without the selected keys, selected); the key
   force_internal_terms_only is selected but stays in the dictionary as well *)
NDKeys == Flags
GetParameters(keys) == [rest |-> keys \ (NDKeys \ {Fito}), selected |-> keys \cap NDKeys]

-----------------------------------------------------------------------------
(* independent tables *)
(* the files system_w90.py passes to the chk.get_* routine that builds the matrix (System_w90, `if needed_data.need_any(..)`
   blocks); Ham is built from eig for every system and is not part of the table *)
BuiltFrom(m) ==
   CASE m = "AA" -> {"mmn"}
     [] m = "BB" -> {"mmn", "eig"}
     [] m = "CC" -> {"uhu"}
     [] m \in {"FF", "OO", "GG"} -> {"uiu"}
     [] m = "SS" -> {"spn"}
     [] m = "SR" -> {"spn", "mmn"}
     [] m = "SH" -> {"spn", "eig"}
     [] m = "SHR" -> {"spn", "mmn", "eig"}
     [] m = "SA" -> {"siu"}
     [] m = "SHA" -> {"shu"}
     [] OTHER -> {}
(* the list System_w90 accepts (`unknown matrices requested` otherwise) *)
KnownToSystemW90 == {"Ham", "AA", "BB", "CC", "OO", "GG", "SS", "SH", "SHR", "SHA", "SA", "SR", "FF"}
(* OO and GG are obtained from FF when FF is there (system_w90: "setting OO from FF", "setting GG from FF"): a set of
   matrices covers FF's symmetric and antisymmetric parts *)
Covered(ms) == ms \cup (IF "FF" \in ms THEN {"OO", "GG"} ELSE {})
(* what a flag promises to the calculators (docstring of System_R / the calculators' requirements) *)
Promise(f) ==
   CASE f = "berry" -> {"AA"}
     [] f = "morb" -> {"AA", "BB", "CC"}
     [] f = "spin" -> {"SS"}
     [] f = "SHCryoo" -> {"AA", "SS", "SA", "SHA", "SH"}
     [] f = "SHCqiao" -> {"AA", "SS", "SR", "SH", "SHR"}
     [] f = "OSD" -> {"AA", "BB", "CC", "OO", "GG"}
     [] f = "qmetric" -> {"AA", "FF"}
     [] OTHER -> {}

(* the laws, as predicates of a flag assignment and a result (ms, fs) - evaluated on the transcription by TLC
   (MC_NeededData) and on the sets returned by the real class (NeededDataRec, replay) *)
LawHam(ms) == "Ham" \in ms
LawPromise(fl, ms) == ~fl[Fito] => \A f \in QuantityFlags : fl[f] => Promise(f) \subseteq Covered(ms)
LawSpinInternal(fl, ms) == fl["spin"] => "SS" \in ms
LawInternal(fl, ms, fs) == fl[Fito] => (ms \subseteq {"Ham", "SS"} /\ fs \subseteq {"spn", "chk"})
(* nothing is needed that no flag asked for *)
LawMinimal(fl, ms) == \A m \in ms \ {"Ham"} : (\E f \in QuantityFlags : (fl[f] /\ m \in Promise(f)))
                                               \/ (m = "FF" /\ (fl["FF"] \/ (fl["OOGG_to_FF"] /\ fl["OSD"])))
LawFilesCover(ms, fs) == \A m \in ms : BuiltFrom(m) \subseteq fs
(* no file is asked for that no needed matrix is built from; mmn may also be listed for the matrices summed over b-vectors
   ("mmn is needed here because it stores information on neighboring k-points") *)
LawFilesMinimal(fl, ms, fs) == \A f \in fs : (f = "chk") \/ (\E m \in ms : f \in BuiltFrom(m))
                                              \/ (f = "mmn" /\ ~(ms \subseteq {"Ham", "SS", "SH"}))
LawChk(fl, fs) == ("chk" \in fs) = fl["chk"]
LawKeep(fl, ms) == (fl["keepOOGG"] /\ fl["OSD"] /\ ~fl[Fito]) => {"OO", "GG"} \subseteq ms
LawKnown(ms) == ms \subseteq KnownToSystemW90
=============================================================================
