---------------------------- MODULE MC_ResultAlg ----------------------------
(* Bounded model of the C16 state machine of ResultAlg: the initial stores are two objects of one family (class, shape,
   tensor rank, real / complex data, declared transforms) with integer data patterns; the operators are applied in every
   possible way up to MaxOps operations. *)
EXTENDS ResultAlg, SequencesExt

CONSTANTS FamIds,        \* which families start a behaviour
          PatPairs,      \* set of <<p, q>> : data patterns of the two initial objects
          SymSel         \* names of the point operations available to the laws

(* Transform catalogue (symmetry/point_symmetry.py) *)
T_ident    == [factor |-> 1,  conj |-> FALSE, tr |-> <<>>, sw |-> <<>>]
T_odd      == [factor |-> -1, conj |-> FALSE, tr |-> <<>>, sw |-> <<>>]
T_conj     == [factor |-> 1,  conj |-> TRUE,  tr |-> <<>>, sw |-> <<>>]
T_odd_conj == [factor |-> -1, conj |-> TRUE,  tr |-> <<>>, sw |-> <<>>]
T_trans    == [factor |-> 1,  conj |-> FALSE, tr |-> <<1, 0>>, sw |-> <<>>]
T_odd_trans == [factor |-> -1, conj |-> FALSE, tr |-> <<1, 0>>, sw |-> <<>>]
T_swap     == [factor |-> 1,  conj |-> FALSE, tr |-> <<>>, sw |-> <<-2, -1>>]

(* point operations: R = proper part *)
I3  == <<<<1, 0, 0>>, <<0, 1, 0>>, <<0, 0, 1>>>>
RC4z == <<<<0, -1, 0>>, <<1, 0, 0>>, <<0, 0, 1>>>>
RC2x == <<<<1, 0, 0>>, <<0, -1, 0>>, <<0, 0, -1>>>>
AllSyms == [ Identity     |-> MkSym(I3, FALSE, FALSE, 1, 2),
             Inversion    |-> MkSym(I3, FALSE, TRUE, 2, 2),
             TimeReversal |-> MkSym(I3, TRUE, FALSE, 2, 2),
             C4z          |-> MkSym(RC4z, FALSE, FALSE, 4, 2),
             Mx           |-> MkSym(RC2x, FALSE, TRUE, 2, 2),
             TRMx         |-> MkSym(RC2x, TRUE, TRUE, 2, 2) ]
MCSyms == [g \in SymSel |-> AllSyms[g]]
(* the harness compares the real PointSymmetry objects with this table *)
ASSUME \A g \in DOMAIN AllSyms : PrintT(<<"SYM", g, AllSyms[g].TR, AllSyms[g].Inv>>) /\ PrintT(<<"SYMR", g, AllSyms[g].R>>)

(* families *)
Fam == ( 1 :> [kind |-> "E", shape |-> <<2>>,    rank |-> 0, cplx |-> FALSE, tTR |-> T_ident,    tInv |-> T_ident]
      @@ 2 :> [kind |-> "E", shape |-> <<2>>,    rank |-> 1, cplx |-> FALSE, tTR |-> T_ident,    tInv |-> T_odd]
      @@ 3 :> [kind |-> "E", shape |-> <<1, 2>>, rank |-> 1, cplx |-> TRUE,  tTR |-> T_odd_conj, tInv |-> T_ident]
      @@ 4 :> [kind |-> "E", shape |-> <<2>>,    rank |-> 2, cplx |-> FALSE, tTR |-> T_trans,    tInv |-> T_ident]
      @@ 5 :> [kind |-> "E", shape |-> <<1>>,    rank |-> 2, cplx |-> TRUE,  tTR |-> T_conj,     tInv |-> T_swap]
      @@ 6 :> [kind |-> "K", nk |-> 1, nb |-> 2, rank |-> 0, cplx |-> FALSE, tTR |-> T_ident,    tInv |-> T_ident]
      @@ 7 :> [kind |-> "K", nk |-> 2, nb |-> 1, rank |-> 1, cplx |-> FALSE, tTR |-> T_odd,      tInv |-> T_ident]
      @@ 8 :> [kind |-> "K", nk |-> 1, nb |-> 1, rank |-> 2, cplx |-> TRUE,  tTR |-> T_odd_trans, tInv |-> T_odd]
      @@ 9 :> [kind |-> "D", sub |-> [x |-> 2, y |-> 7], voids |-> <<{}, {}>>]
      @@ 10 :> [kind |-> "D", sub |-> [x |-> 1, y |-> 6], voids |-> <<{"y"}, {}>>]
      @@ 11 :> [kind |-> "D", sub |-> [x |-> 3, y |-> 3], voids |-> <<{"x"}, {"y"}>>]
         (* the two initial objects hold the same number of k-points in differently split data_list *)
      @@ 12 :> [kind |-> "K", nk |-> 2, nb |-> 1, rank |-> 0, cplx |-> FALSE, tTR |-> T_ident,    tInv |-> T_ident, split |-> <<<<1, 1>>, <<2>>>>]
         (* scalars that are NOT invariant: a pseudo-scalar odd under time reversal, a complex scalar conjugated by time reversal
            (for rank 0 the point operation does nothing but apply tTR / tInv: no rotation allocates a new array) *)
      @@ 13 :> [kind |-> "E", shape |-> <<2>>,    rank |-> 0, cplx |-> FALSE, tTR |-> T_odd,      tInv |-> T_odd]
      @@ 14 :> [kind |-> "K", nk |-> 2, nb |-> 1, rank |-> 0, cplx |-> TRUE,  tTR |-> T_conj,     tInv |-> T_odd] )

(* integer data patterns: pattern 1 is even (so that / 2 applies), patterns >= 4 are unit arrays *)
PatEntry(n, p, len, cplx) ==
   LET re == CASE n = 1 -> 2 * (((p * p + p) % 5) - 2)
               [] n = 2 -> ((3 * p * p + p + 1) % 7) - 3
               [] n = 3 -> ((p * p * p + 2) % 5) - 1
               [] OTHER -> IF p = ((5 * n) % len) + 1 THEN 1 ELSE 0
       im == IF ~cplx THEN 0 ELSE CASE n = 1 -> 2 * ((p % 3) - 1) [] n = 2 -> ((2 * p) % 5) - 2 [] n = 3 -> 1 - (p % 2)
                                    [] OTHER -> IF p = ((3 * n) % len) + 1 THEN 1 ELSE 0
   IN <<re, im>>
PatData(n, len, cplx) == [p \in 1..len |-> PatEntry(n, p, len, cplx)]
Comment(n) == CASE n = 1 -> "one" [] n = 2 -> "two" [] n = 3 -> "three" [] OTHER -> "unit"
Energies(shape) == [a \in 1..Len(shape) |-> [j \in 1..shape[a] |-> a * (j - 1)]]

Obj1(f, n) ==   \* object number n of the non-dictionary family f
   IF Fam[f].kind = "E"
   THEN MkE(Fam[f].shape, Energies(Fam[f].shape), Fam[f].rank,
            PatData(n, ProdSeq(Fam[f].shape) * Pow3(Fam[f].rank), Fam[f].cplx), Fam[f].tTR, Fam[f].tInv, Comment(n))
   ELSE MkK(Fam[f].nk, Fam[f].nb, Fam[f].rank, PatData(n, Fam[f].nk * Fam[f].nb * Pow3(Fam[f].rank), Fam[f].cplx),
            Fam[f].tTR, Fam[f].tInv)
ObjOf(f, n, which) ==   \* which = 1, 2 : position in the initial store (dictionary families have per-position Void entries)
   IF Fam[f].kind = "D"
   THEN MkD([k \in DOMAIN Fam[f].sub |-> IF k \in Fam[f].voids[which] THEN Void ELSE Obj1(Fam[f].sub[k], n)])
   ELSE IF "split" \in DOMAIN Fam[f] THEN [Obj1(f, n) EXCEPT !.chunks = Fam[f].split[which]]
   ELSE Obj1(f, n)

ScalarsA == {-1, 2}
PairsA == {<<1, 2>>}
PairsB == {<<1, 2>>, <<2, 3>>, <<4, 1>>}
PairsC == {<<p, q>> : p, q \in 1..6}
ScalarsB == {-1, 2, 3}
StartSet == {<<f, pq>> : f \in FamIds, pq \in PatPairs}
StartSeq == SetToSeq(StartSet)          \* TLC: a fixed enumeration order
MCInitStores == [k \in 1..Len(StartSeq) |-> <<ObjOf(StartSeq[k][1], StartSeq[k][2][1], 1), ObjOf(StartSeq[k][1], StartSeq[k][2][2], 2)>>]

(* persistence only (quick tier): every family is saved and loaded back *)
NextIO == \/ \E i \in Idx : DoSave(i)
          \/ \E f \in 1..Len(files) : DoLoad(f)
          \/ DoSaveVoid
SpecIO == Init /\ [][NextIO]_vars
=============================================================================
