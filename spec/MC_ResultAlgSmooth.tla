------------------------- MODULE MC_ResultAlgSmooth -------------------------
(* C17: EnergyResult.dataSmooth as the loop of the code (one action per iteration) with its cached_property cache and
   the in-place add(), checked against the declarative meaning  SmoothAll  (every axis smoother applied, each to the
   output of the previous one) for every result shape / rank / smoother assignment / integer data inside the constants.

       @cached_property
       def dataSmooth(self):
           data_tmp = self.data.copy()
           for i in range(self.N_energies - 1, -1, -1):
               data_tmp = self.smoothers[i](data_tmp, axis=i)          # specification proper
           return data_tmp

       def set_smoother(self, smoothers):
           ...
           self.smoothers = [...]
           self.__dict__.pop("dataSmooth", None)                       # specification proper

   Wrong variants (sensitivity): "selfdata"    - the loop body applies the smoother to self.data instead of data_tmp
                                 "stalecache"  - add() leaves the cached dataSmooth in place
                                 "stalesmoother" - set_smoother() leaves the cached dataSmooth in place *)
EXTENDS ResultAlg

CONSTANTS Shapes,        \* set of energy shapes
          Ranks,         \* tensor ranks
          Kernels,       \* set of smoother kernels (<<>> = VoidSmoother)
          MaxAdds,       \* number of add() calls in a behaviour
          MaxSets,       \* number of set_smoother() calls in a behaviour
          MaxMut         \* number of add() + set_smoother() calls in a behaviour

VARIABLES shape, rank, smo, smo0, data, b, pc, ax, tmp, cache, obs, log
svars == <<shape, rank, smo, smo0, data, b, pc, ax, tmp, cache, obs, log>>      \* smo0: the smoothers the result was built with
Unused == start = 0 /\ store = <<>> /\ files = <<>> /\ hist = <<>>       \* the C16 machine is not used here

ShapesA == {<<2>>, <<3>>, <<2, 2>>, <<2, 3>>, <<1, 3>>}
ShapesB == ShapesA \cup {<<3, 3>>, <<3, 2>>, <<4>>, <<2, 1, 2>>, <<2, 2, 2>>}
ShapesW == {<<2, 2>>}
ShapesQ == {<<3>>, <<2, 2>>, <<1, 3>>}                       \* quick tier
KernelsA == {<<>>, <<1>>, <<1, 2, 1>>, <<1, 1, 1>>, <<1, 2, 4, 2, 1>>}
KernelsQ == {<<>>, <<1>>, <<1, 2, 1>>, <<1, 2, 4, 2, 1>>}
KernelsB == KernelsA \cup {<<1, 3, 1>>, <<1, 0, 2, 0, 1>>, <<1, 1, 2, 3, 2, 1, 1>>}

Size == ProdSeq(shape) * Pow3(rank)
FS == FullShape(shape, rank)
NAx == Len(shape)
Dense(n, len) == [p \in 1..len |-> CASE n = 1 -> ((p * p + 2 * p) % 7) - 3
                                     [] n = 2 -> ((5 * p + 1) % 4) * 3 - 4
                                     [] n = 3 -> 2 - ((p * p) % 5)]
OneHot(q, len) == [p \in 1..len |-> IF p = q THEN 3 ELSE 0]
DataSet(len, r) == {Dense(1, len), Dense(2, len), [p \in 1..len |-> 2]}
                   \cup {OneHot(q, len) : q \in (IF r = 0 THEN 1..len ELSE {1, len})}
SmoAssignments(sh) == {s \in [1..Len(sh) -> Kernels] : \A a \in 1..Len(sh) : SmootherDefined(s[a], sh[a])}

SInit == /\ Unused
        /\ shape \in Shapes /\ rank \in Ranks
        /\ smo \in SmoAssignments(shape) /\ smo0 = smo
        /\ data \in DataSet(ProdSeq(shape) * Pow3(rank), rank)
        /\ b = Dense(3, ProdSeq(shape) * Pow3(rank))
        /\ pc = "idle" /\ ax = 0 /\ tmp = <<>> /\ cache = <<>> /\ obs = <<>> /\ log = <<>>

Reads == Cardinality({k \in 1..Len(log) : log[k] = "read"})
Adds == Cardinality({k \in 1..Len(log) : log[k] = "add"})
Sets == Cardinality({k \in 1..Len(log) : log[k] = "set"})
AddVoids == Cardinality({k \in 1..Len(log) : log[k] = "addvoid"})
(* the smoothers handed to set_smoother: every axis gets another kernel than it was built with *)
AltKernel(k, ne) == IF ne < 2 THEN <<>> ELSE IF k = <<1, 2, 1>> THEN <<1, 2, 4, 2, 1>> ELSE <<1, 2, 1>>
AltSmo == [a \in 1..NAx |-> AltKernel(smo0[a], shape[a])]
(* r.dataSmooth *)
ReadCached == /\ pc = "idle" /\ cache # <<>> /\ Reads < 2 + Adds + Sets + AddVoids
              /\ obs' = cache /\ log' = Append(log, "read")
              /\ UNCHANGED <<shape, rank, smo, smo0, data, b, pc, ax, tmp, cache>> /\ UNCHANGED vars
ReadStart == /\ pc = "idle" /\ cache = <<>>
             /\ pc' = "loop" /\ ax' = NAx /\ tmp' = RatData(data) /\ obs' = <<>>
             /\ UNCHANGED <<shape, rank, smo, smo0, data, b, cache, log>> /\ UNCHANGED vars
LoopStep == /\ pc = "loop" /\ ax >= 1
            /\ tmp' = SmoothAxis(smo[ax], FS, IF "selfdata" \in Wrong THEN RatData(data) ELSE tmp, ax)
            /\ ax' = ax - 1
            /\ UNCHANGED <<shape, rank, smo, smo0, data, b, pc, cache, obs, log>> /\ UNCHANGED vars
LoopEnd == /\ pc = "loop" /\ ax = 0
           /\ cache' = <<tmp>> /\ obs' = <<tmp>> /\ pc' = "idle" /\ tmp' = <<>> /\ log' = Append(log, "read")
           /\ UNCHANGED <<shape, rank, smo, smo0, data, b, ax>> /\ UNCHANGED vars
(* r.add(other) : self.data += other.data *)
AddInPlaceData == /\ pc = "idle" /\ Adds < MaxAdds /\ Adds + Sets + AddVoids < MaxMut
                  /\ data' = [p \in 1..Len(data) |-> data[p] + b[p]]
                  /\ cache' = IF "stalecache" \in Wrong THEN cache ELSE <<>>
                  /\ obs' = <<>> /\ log' = Append(log, "add")
                  /\ UNCHANGED <<shape, rank, smo, smo0, b, pc, ax, tmp>> /\ UNCHANGED vars
(* r.set_smoother(AltSmo) *)
SetSmoother == /\ pc = "idle" /\ Sets < MaxSets /\ Adds + Sets + AddVoids < MaxMut
               /\ smo' = AltSmo
               /\ cache' = IF "stalesmoother" \in Wrong THEN cache ELSE <<>>
               /\ obs' = <<>> /\ log' = Append(log, "set")
               /\ UNCHANGED <<shape, rank, smo0, data, b, pc, ax, tmp>> /\ UNCHANGED vars
(* r.add(VoidResult()) : the void result is neutral - the data and the cached dataSmooth stay as they are *)
AddVoidInPlace == /\ pc = "idle" /\ AddVoids < 1 /\ Adds + Sets + AddVoids < MaxMut
                  /\ obs' = <<>> /\ log' = Append(log, "addvoid")
                  /\ UNCHANGED <<shape, rank, smo, smo0, data, b, pc, ax, tmp, cache>> /\ UNCHANGED vars
SNext == ReadCached \/ ReadStart \/ LoopStep \/ LoopEnd \/ AddInPlaceData \/ SetSmoother \/ AddVoidInPlace
Spec17 == SInit /\ [][SNext]_<<svars, vars>>

(* ---- C17 *)
X == RatData(data)
(* whatever dataSmooth returns equals every axis smoother applied in turn to the current raw data *)
SmoothObserved == obs # <<>> => obs[1] = SmoothAll(smo, shape, rank, X)
CacheFresh == cache # <<>> => cache[1] = SmoothAll(smo, shape, rank, X)
(* the order of the axes does not matter *)
OrderIndependent == Len(log) = 0 => \A perm \in Perms(NAx) : SmoothInOrder(smo, FS, X, perm) = SmoothAll(smo, shape, rank, X)
(* no smoothers: unchanged *)
VoidIdentity == (\A a \in 1..NAx : IsVoidSmoother(smo[a])) => SmoothAll(smo, shape, rank, X) = X
(* smoothing is linear in the data (b is a second array) *)
SmoothLinear == Len(log) = 0 =>
   LET Y == RatData(b) IN
   /\ SmoothAll(smo, shape, rank, RAddV(X, Y)) = RAddV(SmoothAll(smo, shape, rank, X), SmoothAll(smo, shape, rank, Y))
   /\ SmoothAll(smo, shape, rank, RScaleV(-3, X)) = RScaleV(-3, SmoothAll(smo, shape, rank, X))
=============================================================================
