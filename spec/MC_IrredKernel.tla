--------------------------- MODULE MC_IrredKernel ---------------------------
(* Bounded model for C07.  One behaviour = one symmetric "system" (group, dense grid N, tensor rank, true parities, source
   field h) followed through what run() does with it:
      BuildField  : f = SymField(h)                       (the covariant integrand / tabulated quantity)
      Factorise   : choose NKdiv x NKFFT = N              (every factorisation both grids of which are symmetric)
      Integrate   : irreducible K-list + symmetrisation, full K-list without symmetrisation, tabulation + to_grid
   Finished states (pc = "done") are replayed on the real run(). *)
EXTENDS IrredKernel

CONSTANTS GROUPS,     \* catalogue names
          NS,         \* dense grids (set of 3-tuples; chosen in the cfg by  NS <- NSq  etc.)
          RANKS,      \* subset of {0, 1, 2}
          SEEDS,      \* hash fields
          DELTAS,     \* TRUE: additionally every delta field delta_q e_c (basis of all integer fields)
          TRANSPOSE,  \* TRUE: rank-2 quantities may also transpose under TR / inversion (transform_trans)
          Declared    \* "true": the result declares its true parities; "flipInv"/"flipTR": wrong declaration (sensitivity)

NSq == {<<4, 2, 1>>, <<4, 4, 1>>, <<3, 3, 1>>, <<2, 2, 2>>}
NSdq == {<<2, 2, 1>>, <<3, 3, 1>>}
NSd == {<<2, 2, 1>>, <<4, 2, 1>>, <<3, 3, 1>>, <<2, 2, 2>>}
NSt == NSq \cup {<<6, 6, 1>>, <<6, 3, 1>>, <<4, 4, 2>>, <<4, 2, 2>>, <<3, 3, 2>>, <<3, 3, 3>>, <<2, 2, 4>>}
NSs == {<<2, 2, 1>>, <<4, 4, 1>>}
NSb == {<<4, 4, 4>>, <<8, 8, 1>>}

VARIABLES grp, gset, N, rank, tTR, tInv, src, fld, pc, div, fft, klist, ksets, irr, full, tabok
vars == <<grp, gset, N, rank, tTR, tInv, src, fld, pc, div, fft, klist, ksets, irr, full, tabok>>

HasTR(G) == \E g \in G : g.tr
HasInv(G) == \E g \in G : g.inv
Parities(r) == IF r = 2 /\ TRANSPOSE THEN {TIdent, TOdd, TTrans, TOddTrans} ELSE {TIdent, TOdd}
Flip(t) == [f |-> -t.f, t |-> t.t]
dTR == IF Declared = "flipTR" THEN Flip(tTR) ELSE tTR
dInv == IF Declared = "flipInv" THEN Flip(tInv) ELSE tInv
Sources(n, r) == {[kind |-> "hash", seed |-> s, q |-> <<0, 0, 0>>, c |-> 0] : s \in SEEDS}
                 \cup (IF DELTAS THEN {[kind |-> "delta", seed |-> 0, q |-> q, c |-> c] : q \in GridPts(n), c \in 1..NComp(r)} ELSE {})
SourceField(s, n, r) == IF s.kind = "hash" THEN HashField(n, r, s.seed) ELSE DeltaField(n, r, s.q, s.c)
Divisors(n) == {<<a, b, c>> \in GridPts(<<n[1] + 1, n[2] + 1, n[3] + 1>>) :
                   a > 0 /\ b > 0 /\ c > 0 /\ n[1] % a = 0 /\ n[2] % b = 0 /\ n[3] % c = 0}
FlatSeq(f, n) == [j \in 1..Prod3(n) |-> f[FlatPoint(j - 1, n)]]

Init == /\ grp \in GROUPS
        /\ gset = GroupOf(grp)
        /\ N \in NS /\ SymmetricGrid(N, gset)
        /\ rank \in (IF IsCart(grp) THEN RANKS ELSE RANKS \cap {0})
        /\ tTR \in (IF HasTR(gset) THEN Parities(rank) ELSE {TIdent})      \* irrelevant without a TR element
        /\ tInv \in (IF HasInv(gset) THEN Parities(rank) ELSE {TIdent})
        /\ src \in Sources(N, rank)
        /\ pc = "source"
        /\ fld = <<>> /\ div = <<1, 1, 1>> /\ fft = <<1, 1, 1>> /\ klist = <<>> /\ ksets = <<>>
        /\ irr = 0 /\ full = 0 /\ tabok = FALSE

BuildField == /\ pc = "source"
              /\ fld' = FlatSeq(SymField(SourceField(src, N, rank), N, gset, rank, tTR, tInv), N)
              /\ pc' = "field"
              /\ UNCHANGED <<grp, gset, N, rank, tTR, tInv, src, div, fft, klist, ksets, irr, full, tabok>>
F == [p \in GridPts(N) |-> fld[FlatIndex(p, N) + 1]]
Factorise == /\ pc = "field"
             /\ \E d \in Divisors(N) :
                   LET f == <<N[1] \div d[1], N[2] \div d[2], N[3] \div d[3]>> IN
                   /\ SymmetricGrid(d, gset) /\ SymmetricGrid(f, gset)
                   /\ div' = d /\ fft' = f
                   /\ klist' = KList(d, gset, TRUE)
                   /\ ksets' = KSetsOf(klist', d, f, TRUE)
             /\ pc' = "grid"
             /\ UNCHANGED <<grp, gset, N, rank, tTR, tInv, src, fld, irr, full, tabok>>
Integrate == /\ pc = "grid"
             /\ irr' = IrrIntegral(klist, ksets, F, gset, rank, dTR, dInv)
             /\ LET kf == KList(div, gset, FALSE) IN full' = FullIntegral(kf, KSetsOf(kf, div, fft, TRUE), F, rank)
             /\ tabok' = TabReproduces(TabCollect(ksets, F, N, gset, rank, dTR, dInv), F, N, rank)
             /\ pc' = "done"
             /\ UNCHANGED <<grp, gset, N, rank, tTR, tInv, src, fld, div, fft, klist, ksets>>
Next == BuildField \/ Factorise \/ Integrate
Spec == Init /\ [][Next]_vars

(* the constructed field is covariant with its true parities: the "system" is genuinely symmetric *)
FieldCovariant == pc = "field" => Covariant(F, N, gset, rank, tTR, tInv)
(* C07 *)
IrredEqualsFull == pc = "done" => irr = NormT(rank, ScaleT(rank, Cardinality(gset), full))
FullIsGridSum   == pc = "done" => full = GridSum(F, N, rank)
TabOnGrid       == pc = "done" => tabok
(* run(use_irred_kpt=False, symmetrize=True): symmetrisation alone, over the full K-list, changes nothing *)
SymOnlyEqualsFull == pc = "done" =>
   LET kf == KList(div, gset, FALSE)
   IN IrrIntegral(kf, KSetsOf(kf, div, fft, TRUE), F, gset, rank, dTR, dInv) = NormT(rank, ScaleT(rank, Cardinality(gset), full))
=============================================================================
