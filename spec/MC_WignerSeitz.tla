--------------------------- MODULE MC_WignerSeitz ---------------------------
(* Bounded model for the replica selection of C01: every listed Gram matrix, mesh, tolerance and every shift
   delta = tau_b - tau_a with components in multiples of STEP/SS up to DMAX/SS in the first DIM directions.
   One behaviour  new -> done  per input; Compute evaluates WignerSeitz.__call__ for +delta and -delta (the pairs (a,b), (b,a)).
   BOXDIM = 3 is the search box of the code; BOXDIM < 3 drops the translations along the inert directions (allowed only
   when DirectionsInert and the tolerance is tight -- InertModeValid; the lemma is checked by the configuration with
   BOXDIM = 3 and LEMMADIM < 3). *)
EXTENDS WignerSeitz

CONSTANTS GRAMS,     \* Gram matrices coded g11 g22 g33 (g12+4) (g13+4) (g23+4) as a 6-digit number
          MESHES,    \* meshes coded 100 n1 + 10 n2 + n3
          TOLS,      \* tolerance ids: 1 -> 1/1000, 2 -> 1/100000, 3 -> 1/4, 4 -> 1/2
          DIM,       \* the shift has non-zero components in directions 1..DIM only
          DMAX, STEP,\* components of SS delta: multiples of STEP with absolute value <= DMAX
          BOXDIM,    \* translations searched along directions 1..BOXDIM
          LEMMADIM,  \* if < BOXDIM: also evaluate with the box restricted to 1..LEMMADIM and compare (InertLemma)
          BIGBOX,    \* if > 3: also evaluate with the search box (-BIGBOX..BIGBOX)^BOXDIM and compare (BoxSufficient)
          WrongSign, \* sensitivity: the pair (b,a) evaluated with the shift of (a,b); MinusSymmetry must fail
          SS         \* denominator of the shifts (4: quarters of lattice vectors; 3, 6, 12: thirds, sixths, twelfths)
VARIABLES gram, mesh, delta, tolid, phase,
          C, Cm    \* the per-class results of WignerSeitz.__call__ for the shifts of the pairs (a,b) and (b,a)
vars == <<gram, mesh, delta, tolid, phase, C, Cm>>

Digit(x, k) == (x \div IntPow(10, k)) % 10
GramOf(x) == LET g12 == Digit(x, 2) - 4  g13 == Digit(x, 1) - 4  g23 == Digit(x, 0) - 4
             IN << <<Digit(x, 5), g12, g13>>, <<g12, Digit(x, 4), g23>>, <<g13, g23, Digit(x, 3)>> >>
MeshOf(x) == <<x \div 100, (x \div 10) % 10, x % 10>>
TolOf(id) == CASE id = 1 -> <<1, 1000>> [] id = 2 -> <<1, 100000>> [] id = 3 -> <<1, 4>> [] id = 4 -> <<1, 2>>
PosDef(G) == /\ G[1][1] > 0 /\ G[1][1] * G[2][2] - G[1][2] * G[1][2] > 0
             /\ G[1][1] * (G[2][2] * G[3][3] - G[2][3] * G[2][3]) - G[1][2] * (G[1][2] * G[3][3] - G[2][3] * G[1][3])
                + G[1][3] * (G[1][2] * G[2][3] - G[2][2] * G[1][3]) > 0
Prob(bd) == [G |-> GramOf(gram), N |-> MeshOf(mesh), S |-> SS, tol |-> TolOf(tolid), box |-> BoxDim(bd)]
Comp == {x \in (-DMAX)..DMAX : x % STEP = 0}
Deltas == {d \in Comp \X Comp \X Comp : \A j \in (DIM + 1)..3 : d[j] = 0}

Init == /\ gram \in GRAMS /\ PosDef(GramOf(gram)) /\ mesh \in MESHES /\ tolid \in TOLS /\ delta \in Deltas
        /\ (BOXDIM < 3 => DirectionsInert(Prob(3), delta, BOXDIM) /\ tolid \in {1, 2})
        /\ phase = "new" /\ C = <<>> /\ Cm = <<>>
Compute == /\ phase = "new" /\ phase' = "done"
           /\ C' = WSClasses(Prob(BOXDIM), delta)
           /\ Cm' = WSClasses(Prob(BOXDIM), IF WrongSign THEN delta ELSE Neg3(delta))
           /\ UNCHANGED <<gram, mesh, delta, tolid>>
Next == Compute
Spec == Init /\ [][Next]_vars

Done == phase = "done"
W == WSFrom(C)
Wm == WSFrom(Cm)
(* C01: the replica weights of every pair add up to one per mesh class, hence to the number of mesh points *)
WeightsOne     == Done => WeightsPerClass(Prob(3), W) /\ WeightsPerClass(Prob(3), Wm) /\ NoDuplicates(W) /\ NoDuplicates(Wm)
WeightsTotal   == Done => TotalWeightOK(Prob(3), W, LcmSet({e[2] : e \in W}))
(* C01: R-set of (b,a) = negative of the R-set of (a,b), equal degeneracies -- inside the search-box precondition *)
MinusSymmetry  == Done /\ InSearchBox(Prob(3), delta) => Wm = MinusSet(W)
(* inside the precondition the truncation of the search to 3 super-cells does not matter: a larger box selects the same set *)
BoxSufficient  == Done /\ BIGBOX > 3 /\ InSearchBox(Prob(3), delta)
                     => W = WS([Prob(BOXDIM) EXCEPT !.box = BoxDimSize(BOXDIM, BIGBOX)], delta)
(* validity of the reduced box *)
InertModeValid == Done /\ BOXDIM < 3 =>
                     \A r \in DOMAIN C : TightFor(Prob(BOXDIM), C[r].qmin) /\ TightFor(Prob(BOXDIM), Cm[r].qmin)
InertLemma     == Done /\ LEMMADIM < BOXDIM /\ DirectionsInert(Prob(3), delta, LEMMADIM) /\ tolid \in {1, 2}
                     => W = WS(Prob(LEMMADIM), delta)
=============================================================================
