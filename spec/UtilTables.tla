----------------------------- MODULE UtilTables -----------------------------
(* X01 (c): small pure functions of wannierberri/utility.py as function tables:
     str2bool, alpha_A / beta_A (Levi-Civita index tables), iterate_nd / iterate3dpm, one2three, get_head, find_degen,
     arr_to_string.
   Indices are 0-based as in the code where they are values (alpha_A, the tuples of iterate_nd, the shells of find_degen);
   TLA+ sequences are 1-based, so alpha_A[a] is AlphaA[a + 1].  A result that can be an exception is [err, val] with err
   the exception class name or "". *)
EXTENDS Integers, Sequences, FiniteSets, TLC, SequencesExt, FiniteSetsExt

CONSTANTS SwapAlphaBeta,     \* FALSE: the code (alpha_A = [1,2,0], beta_A = [2,0,1]); TRUE: the tables exchanged (wrong variant)
          PmOpenEnd          \* FALSE: the code (pm: -n..n inclusive); TRUE: range(-n, n) (wrong variant)

Ok(v) == [err |-> "", val |-> v]
Err(c) == [err |-> c, val |-> <<>>]

(* ------------------------------------------------------------------ str2bool(v): v.strip().lower() in the word lists *)
FalseWords == {"f", "false", ".false."}
TrueWords == {"t", "true", ".true."}
(* a string is a token [base (lower-case word), cs (how it is cased), pl, pr (white space around it)]; strip() and lower()
   make the result a function of base alone *)
Str2Bool(tok) == IF tok.base \in FalseWords THEN Ok(FALSE) ELSE IF tok.base \in TrueWords THEN Ok(TRUE) ELSE Err("ValueError")

(* ------------------------------------------------------------------ alpha_A, beta_A *)
AlphaA == IF SwapAlphaBeta THEN <<2, 0, 1>> ELSE <<1, 2, 0>>
BetaA == IF SwapAlphaBeta THEN <<1, 2, 0>> ELSE <<2, 0, 1>>
(* the Levi-Civita symbol on 0..2, from its definition (sign of the permutation) *)
LeviCivita(a, b, c) == IF a = b \/ b = c \/ a = c THEN 0
                       ELSE IF (b - a) % 3 = 1 /\ (c - b) % 3 = 1 THEN 1 ELSE -1
Sum3(f(_)) == f(0) + f(1) + f(2)
(* (u x v)_a the way the package writes it: u[alpha_A] * v[beta_A] - u[beta_A] * v[alpha_A] *)
CrossTables(u, v) == [a \in 1..3 |-> u[AlphaA[a] + 1] * v[BetaA[a] + 1] - u[BetaA[a] + 1] * v[AlphaA[a] + 1]]
CrossLC(u, v) == [a \in 1..3 |-> Sum3(LAMBDA b : Sum3(LAMBDA c : LeviCivita(a - 1, b, c) * u[b + 1] * v[c + 1]))]
(* the axial vector of a rank-2 tensor: F[alpha_A, beta_A] - F[beta_A, alpha_A] (system_w90: OO from FF) *)
AxialTables(F) == [a \in 1..3 |-> F[AlphaA[a] + 1][BetaA[a] + 1] - F[BetaA[a] + 1][AlphaA[a] + 1]]
AxialLC(F) == [a \in 1..3 |-> Sum3(LAMBDA b : Sum3(LAMBDA c : LeviCivita(a - 1, b, c) * F[b + 1][c + 1]))]

(* ------------------------------------------------------------------ iterate_nd(size, pm, start), iterate3dpm(size) *)
NoStart == <<>>
Lo(size, pm, start, d) == IF pm THEN -size[d] ELSE IF start = NoStart THEN 0 ELSE start[d]
Hi(size, pm, start, d) == IF pm THEN (IF PmOpenEnd THEN size[d] - 1 ELSE size[d])
                          ELSE IF start = NoStart THEN size[d] - 1 ELSE start[d] + size[d] - 1
Extent(size, pm, start, d) == LET n == Hi(size, pm, start, d) - Lo(size, pm, start, d) + 1 IN IF n < 0 THEN 0 ELSE n
RECURSIVE IterFrom(_, _, _, _)
(* the tuples of directions d..Len(size), first index outermost (the nested generator of the code) *)
IterFrom(size, pm, start, d) ==
   LET lo == Lo(size, pm, start, d)  n == Extent(size, pm, start, d) IN
   IF d = Len(size) THEN [q \in 1..n |-> <<lo + q - 1>>]
   ELSE LET sub == IterFrom(size, pm, start, d + 1)  m == Len(sub) IN
        [q \in 1..(n * m) |-> <<lo + ((q - 1) \div m)>> \o sub[((q - 1) % m) + 1]]
IterateNd(size, pm, start) == IterFrom(size, pm, start, 1)
Iterate3dpm(size) == IF Len(size) # 3 THEN Err("AssertionError") ELSE Ok(IterateNd(size, TRUE, NoStart))
(* laws *)
RECURSIVE ProdExt(_, _, _, _)
ProdExt(size, pm, start, d) == IF d > Len(size) THEN 1 ELSE Extent(size, pm, start, d) * ProdExt(size, pm, start, d + 1)
InBox(t, size, pm, start) == Len(t) = Len(size) /\ \A d \in 1..Len(size) : t[d] >= Lo(size, pm, start, d) /\ t[d] <= Hi(size, pm, start, d)
(* every point of the box exactly once: as many tuples as the box has points, all inside, pairwise different *)
EveryPointOnce(res, size, pm, start) ==
   /\ Len(res) = ProdExt(size, pm, start, 1)
   /\ \A q \in 1..Len(res) : InBox(res[q], size, pm, start)
   /\ Cardinality({res[q] : q \in 1..Len(res)}) = Len(res)
RECURSIVE LexLess(_, _)
LexLess(s, t) == IF Len(s) = 0 THEN FALSE ELSE s[1] < t[1] \/ (s[1] = t[1] /\ LexLess(Tail(s), Tail(t)))
Lexicographic(res) == \A q \in 1..(Len(res) - 1) : LexLess(res[q], res[q + 1])
(* the documented meaning of pm: the box is symmetric, -n..n in every direction *)
PmSymmetric(res, size) == \A q \in 1..Len(res) : [d \in 1..Len(size) |-> -res[q][d]] \in {res[p] : p \in 1..Len(res)}
PmHoldsCorner(res, size) == size \in {res[p] : p \in 1..Len(res)}

(* ------------------------------------------------------------------ one2three(nk) *)
(* the argument: [t |-> "none"] | [t |-> "int", i] | [t |-> "float", i] (the float i.0) | [t |-> "seq", q] (ints) |
   [t |-> "seqf", q] (the same numbers, one of them given as float) *)
One2Three(x) ==
   CASE x.t = "none" -> Ok(<<>>)
     [] x.t = "int" -> IF x.i > 0 THEN Ok(<<x.i, x.i, x.i>>) ELSE Err("AssertionError")
     [] x.t = "float" -> Err("AssertionError")
     [] x.t = "seq" -> IF Len(x.q) = 3 /\ \A d \in 1..3 : x.q[d] > 0 THEN Ok(x.q) ELSE Err("AssertionError")
     [] x.t = "seqf" -> Err("AssertionError")
(* what Grid / System_R rely on: a positive integer or three of them become three positive integers, None stays None,
   everything else is refused *)
One2ThreeDefined(x) == x.t = "none" \/ (x.t = "int" /\ x.i > 0) \/ (x.t = "seq" /\ Len(x.q) = 3 /\ \A d \in 1..Len(x.q) : x.q[d] > 0)

(* ------------------------------------------------------------------ get_head(n): the 3^n component labels *)
XYZ == <<"x", "y", "z">>
RECURSIVE GetHead(_)
(* a label is the sequence of its letters (the code appends two blanks) *)
GetHead(n) == IF n <= 0 THEN << <<>> >>
              ELSE LET sub == GetHead(n - 1)  m == Len(sub) IN [q \in 1..(3 * m) |-> <<XYZ[((q - 1) \div m) + 1]>> \o sub[((q - 1) % m) + 1]]
RECURSIVE Pow3(_)
Pow3(n) == IF n <= 0 THEN 1 ELSE 3 * Pow3(n - 1)
(* label number p (0-based) spells the digits of p in base 3, most significant first: the order in which a rank-n tensor
   is flattened (EnergyResult writes data.reshape(-1) under this header) *)
HeadIsFlattenOrder(h, n) ==
   /\ Len(h) = Pow3(n)
   /\ \A p \in 1..Len(h) : /\ Len(h[p]) = (IF n <= 0 THEN 0 ELSE n)
                           /\ \A d \in 1..Len(h[p]) : h[p][d] = XYZ[(((p - 1) \div Pow3(n - d)) % 3) + 1]

(* ------------------------------------------------------------------ find_degen(arr, degen_thresh) *)
(* arr ascending; a new shell starts where the step to the next value exceeds the threshold; result: <<b1, b2>> half-open *)
Breaks(arr, thr) == {q \in 1..(Len(arr) - 1) : arr[q + 1] - arr[q] > thr}          \* 0-based start of the next shell = q
FindDegen(arr, thr) ==
   LET B == Breaks(arr, thr)
       A == <<0>> \o [m \in 1..Cardinality(B) |-> CHOOSE x \in B : Cardinality({y \in B : y < x}) = m - 1] \o <<Len(arr)>>
   IN [s \in 1..(Len(A) - 1) |-> <<A[s], A[s + 1]>>]
(* laws: the shells are consecutive half-open intervals covering 0..n; inside a shell neighbouring values are within the
   threshold, across a boundary they are not *)
ShellsPartition(sh, n) ==
   /\ Len(sh) >= 1 /\ sh[1][1] = 0 /\ sh[Len(sh)][2] = n
   /\ \A s \in 1..(Len(sh) - 1) : sh[s][2] = sh[s + 1][1]
   /\ \A s \in 1..Len(sh) : sh[s][1] < sh[s][2] \/ n = 0
ShellsRespectThreshold(sh, arr, thr) ==
   /\ \A s \in 1..Len(sh) : \A q \in (sh[s][1] + 1)..(sh[s][2] - 1) : arr[q + 1] - arr[q] <= thr
   /\ \A s \in 1..(Len(sh) - 1) : arr[sh[s][2] + 1] - arr[sh[s][2]] > thr

(* ------------------------------------------------------------------ arr_to_string(arr, fmt) *)
(* the text as a table of tokens: one line per row, one token per element (a complex element: its real and imaginary
   part); numbers are integers in units of 1/8.  kind "real" | "complex" (elements <<re, im>>) | "vector" (one row given
   as a 1-d array: sawf.py formats a k-point that way) *)
ArrToString(arr, kind) ==
   CASE kind = "real" -> arr
     [] kind = "complex" -> [r \in 1..Len(arr) |-> [c \in 1..Len(arr[r]) |-> arr[r][c]]]
     [] kind = "vector" -> <<arr>>
=============================================================================
