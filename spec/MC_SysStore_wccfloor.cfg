\* generated by the harness (quick tier constants); the checks generate their configs themselves
SPECIFICATION Spec
CONSTANTS
  WccSplitCeil = FALSE
  NWS = {1, 2, 3}
  SHAPES = {1}
  PATS = {1}
  AAZERO = TRUE
  MAXLEN = 2
INVARIANT HrRoundTrip
CHECK_DEADLOCK FALSE
