\* generated by the harness (quick tier constants); the checks generate their configs themselves
\* must-fail sensitivity variant: the former defect of read_WCC_WT_format (split at n div 2, repaired in 849f3dda)
SPECIFICATION Spec
CONSTANTS
  WccSplitCeil = FALSE
  NWS = {1, 2, 3}
  SHAPES = {1}
  PATS = {1}
  AAZERO = TRUE
  MAXLEN = 2
INVARIANT HrRoundTrip
CHECK_DEADLOCK FALSE
