---------------------------- MODULE KPStencilRec ----------------------------
(* code -> spec: records of SystemKP(Ham = polynomial).derHam / der2Ham / der3Ham (C31), one TLC state per record.
   Exact setting: recip_lattice = A (integer rows), finite_diff_dk = h = 2^-q, k_red = h * nu (nu integer), so every
   sampled point is h * z with z integer: z = (nu + n) A when Ham takes the Cartesian k (red = FALSE), z = nu + n when it
   takes the reduced k (red = TRUE).  A polynomial is a list of terms [c, e1, e2, e3] (integer c, degree <= 3) in the
   variable Ham receives; derivatives are always Cartesian.  With d the degree of a term
        derHam_a  * 2^(2q) = sum_terms c 2^(q(3-d)) sum_p w_p beta_pa z_p^e          (beta_p = n_p A, w_p lattice-unit weights)
        der2Ham_ab * 2^q   = sum_terms c 2^(q(3-d)) d_a d_b z^e      (KPStencil!D2Exact: exact up to degree 3)
        der3Ham_abc        = sum_terms c 2^(q(3-d)) d_a d_b d_c z^e  (KPStencil!D3Exact)
   Record fields: A, q, red, nst (stencil vectors n), wst (their weights [num, den]), nu, polys, sc = <<sc1, sc2, sc3>>
   (integer scales chosen by the harness so that the right-hand sides times sc_j are integers), v1[j][a], v2[j][3(a-1)+b],
   v3[j][9(a-1)+3(b-1)+c] = round(float value * 2^(q(3-j)) * sc_j), tol = <<t1, t2, t3>> integer tolerances.
   nst / wst are optional (the stencil is an internal of the code: when the harness cannot read it, only the clauses that
   do not need it are evaluated).  Optional T4 = the 81 numbers round(sc[1] * T_abcd / h^2) with T_abcd the fourth moment
   of the stencil as MEASURED through derHam of the ten cubic monomials (T_abcd = D1_a (x_b x_c x_d)(0)): it must be the
   fourth moment of the declared stencil.  A record with polys = <<>> carries a stencil only (find_shells). *)
EXTENDS KPStencil, Json, IOUtils, TLCExt
VARIABLE i
Recs == JsonDeserialize(IOEnv.TRACE_FILE).recs
Rec == Recs[i]
V3(x) == <<x[1], x[2], x[3]>>
ARec == <<V3(Rec.A[1]), V3(Rec.A[2]), V3(Rec.A[3])>>
NS == Len(Rec.nst)
SRec == {<<V3(Rec.nst[p]), <<Rec.wst[p][1], Rec.wst[p][2]>>>> : p \in 1..NS}
CRec == CartStencil(ARec, SRec)
NuRec == V3(Rec.nu)
(* the integer point at which Ham is sampled for the stencil vector n *)
ZOf(n) == IF Rec.red THEN VAdd(NuRec, n) ELSE CartVec(ARec, VAdd(NuRec, n))
Z0 == ZOf(VZero)
TermDeg(t) == t[2] + t[3] + t[4]
TermExp(t) == <<t[2], t[3], t[4]>>
HPow(t) == Pow(2, Rec.q * (3 - TermDeg(t)))
(* d x_a = sum_i dz_i (J)_{i a}: z = x (cart) or z = x A^-1 (red); JInv[a][i] = d z_i / d x_a as a rational *)
DetA == Det3(ARec[1], ARec[2], ARec[3])
Cof == <<Cross(ARec[2], ARec[3]), Cross(ARec[3], ARec[1]), Cross(ARec[1], ARec[2])>>
DzDx(a, ii) == IF Rec.red THEN Rat(Cof[ii][a], DetA) ELSE (IF a = ii THEN ROne ELSE RZero)
RSumSeq(n, F(_)) == RSumSet(1..n, F)
(* analytic Cartesian derivative (directions dirs, a sequence) of the term t at the point Z0, times 2^(q(3-d)) c *)
RECURSIVE ChainD(_, _, _)
ChainD(t, dirs, idx) ==
   (* idx: the z-directions chosen so far for the first Len(idx) Cartesian directions *)
   IF Len(idx) = Len(dirs) THEN RInt(Analytic(TermExp(t), idx, Z0))
   ELSE LET a == dirs[Len(idx) + 1] IN
        RSumSet({ii \in I3 : DzDx(a, ii) # RZero}, LAMBDA ii : RMul(DzDx(a, ii), ChainD(t, dirs, Append(idx, ii))))
AnalyticPoly(poly, dirs) == RSumSet(1..Len(poly), LAMBDA m : RScale(poly[m][1] * HPow(poly[m]), ChainD(poly[m], dirs, <<>>)))
(* Derivative3D applied to the polynomial itself *)
D1Poly(poly, a) ==
   RSumSet(1..Len(poly), LAMBDA m :
      RScale(poly[m][1] * HPow(poly[m]),
             RSumSet(SRec, LAMBDA p : RScale(CartVec(ARec, p[1])[a] * MonoVal(TermExp(poly[m]), ZOf(p[1])), p[2]))))
Close(r, sc, v, tol) == RLeq(RAbs(RSub(RScale(sc, r), RInt(v))), RInt(tol))
NP == Len(Rec.polys)
HasStencil == "nst" \in DOMAIN Rec
HasT4 == "T4" \in DOMAIN Rec
Clauses ==
   [ stencil_props |-> HasStencil => (NS > 0 /\ Len(Rec.wst) = NS /\ Functional(CRec) /\ NegClosed(CRec) /\ CartComplete(CRec) /\ DetA # 0),
     t4_of_stencil |-> (HasStencil /\ HasT4) =>
                          \A a, b, c, d \in I3 : Close(T4(CRec, a, b, c, d), Rec.sc[1], Rec.T4[27 * (a - 1) + 9 * (b - 1) + 3 * (c - 1) + d], 1),
     degree        |-> \A j \in 1..NP : \A m \in 1..Len(Rec.polys[j]) : TermDeg(Rec.polys[j][m]) <= 3,
     d1            |-> HasStencil => \A j \in 1..NP : \A a \in I3 : Close(D1Poly(Rec.polys[j], a), Rec.sc[1], Rec.v1[j][a], Rec.tol[1]),
     d2            |-> \A j \in 1..NP : \A a, b \in I3 : a <= b =>
                          Close(AnalyticPoly(Rec.polys[j], <<a, b>>), Rec.sc[2], Rec.v2[j][3 * (a - 1) + b], Rec.tol[2]),
     d2_symmetric  |-> \A j \in 1..NP : \A a, b \in I3 : Rec.v2[j][3 * (a - 1) + b] = Rec.v2[j][3 * (b - 1) + a],
     d3            |-> \A j \in 1..NP : \A a, b, c \in I3 : (a <= b /\ b <= c) =>
                          Close(AnalyticPoly(Rec.polys[j], <<a, b, c>>), Rec.sc[3], Rec.v3[j][9 * (a - 1) + 3 * (b - 1) + c], Rec.tol[3]),
     d3_symmetric  |-> \A j \in 1..NP : \A a, b, c \in I3 :
                          LET v(x, y, z) == Rec.v3[j][9 * (x - 1) + 3 * (y - 1) + z] IN
                          v(a, b, c) = v(b, a, c) /\ v(a, b, c) = v(a, c, b) ]
Report == LET cl == Clauses IN \A n \in DOMAIN cl : cl[n] \/ PrintT(<<"BAD", i, n>>)
RecInit == i \in 1..Len(Recs)
RecSpec == RecInit /\ [][UNCHANGED i]_i
=============================================================================
