--------------------------- MODULE UtilTablesRec ---------------------------
(* code -> spec for X01 (c): recorded calls of the real utility functions, one TLC state per record
   {fn, inp, out = {err, val}}.  Clauses named info_* compare with the table literally (order, exception class); the
   others are the laws of UtilTables.tla evaluated on the recorded result. *)
EXTENDS UtilTables, Json, IOUtils, TLCExt
VARIABLE i
Recs == JsonDeserialize(IOEnv.TRACE_FILE).recs
Rec == Recs[i]
In == Rec.inp
Out == Rec.out
V == TLCEval(Out.val)
Refused == Out.err # ""
Clauses ==
   CASE Rec.fn = "str2bool" ->
          [ defined |-> Refused = (In.base \notin FalseWords \cup TrueWords),
            value |-> ~Refused => V = (In.base \in TrueWords) ]
     [] Rec.fn = "cross" ->
          [ cross_is_levi_civita |-> ~Refused /\ V = CrossLC(In.u, In.v),
            info_equals_spec |-> V = CrossTables(In.u, In.v) ]
     [] Rec.fn = "axial" ->
          [ axial_is_levi_civita |-> ~Refused /\ V = AxialLC(In.F) ]
     [] Rec.fn = "iterate_nd" ->
          [ every_point_once |-> ~Refused /\ EveryPointOnce(V, In.size, In.pm, In.start),
            pm_symmetric |-> (In.pm /\ ~Refused) => (PmSymmetric(V, In.size) /\ PmHoldsCorner(V, In.size)),
            info_lexicographic |-> Lexicographic(V),
            info_equals_spec |-> Len(V) <= 400 => V = IterateNd(In.size, In.pm, In.start) ]
     [] Rec.fn = "iterate3dpm" ->
          [ defined |-> Refused = (Len(In.size) # 3),
            every_point_once |-> ~Refused => EveryPointOnce(V, In.size, TRUE, NoStart),
            pm_symmetric |-> ~Refused => (PmSymmetric(V, In.size) /\ PmHoldsCorner(V, In.size)) ]
     [] Rec.fn = "one2three" ->
          [ defined |-> Refused = ~One2ThreeDefined(In),
            value |-> (~Refused /\ In.t # "none") => (Len(V) = 3 /\ V = (IF In.t = "int" THEN <<In.i, In.i, In.i>> ELSE In.q)),
            none_stays_none |-> (~Refused /\ In.t = "none") => Out.is_none ]
     [] Rec.fn = "get_head" ->
          [ flatten_order |-> ~Refused /\ HeadIsFlattenOrder(V, In.n),
            distinct |-> Cardinality({V[p] : p \in 1..Len(V)}) = Len(V) ]
     [] Rec.fn = "find_degen" ->
          [ partition |-> ~Refused /\ ShellsPartition(V, Len(In.arr)),
            threshold |-> ~Refused => ShellsRespectThreshold(V, In.arr, In.thr),
            info_equals_spec |-> V = FindDegen(In.arr, In.thr) ]
     [] Rec.fn = "arr_to_string" ->
          [ table |-> ~Refused /\ V = ArrToString(In.arr, In.kind) ]
Report == \A c \in DOMAIN Clauses : Clauses[c] \/ PrintT(<<"BAD", i, c>>)
RecInit == i \in 1..Len(Recs)
RecSpec == RecInit /\ [][UNCHANGED i]_i
=============================================================================
