------------------------------ MODULE BandSelect ------------------------------
(* X03: band selection and windows on the Wannier90 data container.

   Extends W90Store.tla (file objects [cls, attr, dic, dim], constructors, check_conform, set_file / unset_file, npz) by
     W90_file.select_bands(selected_bands, dimensions)      w90file.py  (loop over the dimensions: swapaxes, index, swapaxes)
     EIG / AMN / MMN / SPN / UXU / SXU .select_bands         the dimensions each class passes
     BKVectors.select_bands                                  nothing to do
     CheckPoint.select_bands                                 chk.py  (not when wannierised; num_bands; selected_bands)
     WannierData.select_bands(win_min, win_max, band_start, band_end, selected_bands, allow_again)     wandata.py
     WannierData.apply_window                                deprecated: raises
     WannierData.set_projections (its use of the recorded selection on a freshly computed .amn)
   Band indices are 0-based as in the code; a selection is a sequence of band indices in the numbering of the object as it
   is NOW (wandata.py: "the numeration in the current system, not in the original").  Energies and window edges are
   integers in units of 1/8 eV; InfLo / InfHi stand for -inf / +inf. *)
EXTENDS W90Store

CONSTANTS MaskShapeCheck,   \* "before": a boolean mask must have length NB and is then turned into indices (the documented
                            \*           "array((NB,), dtype=bool)"); "after": wandata.py as it is - the shape (NB,) is asserted
                            \*           on the index array made from the mask, so only the all-True mask passes (must-fail variant)
          Bookkeeping,      \* "composed": the recorded selected_bands name the bands in the numbering the files had when they
                            \*           were set (what set_projections needs to cut a freshly computed .amn); "last": as it is -
                            \*           the argument of the last call, relative to the selection before (must-fail variant)
          ChkNumBands,      \* "update": CheckPoint.select_bands sets num_bands (chk.py); "keep": a wrong variant (must fail)
          WindowOverK       \* "any": a band stays when it is inside the window at some k-point (wandata.py, docstring);
                            \*        "all": a wrong variant - only bands inside at every k-point (must fail)

InfLo == -100000
InfHi == 100000
NoIdx == -1                 \* band_start / band_end = None

Ident(n) == [j \in 1..n |-> j - 1]
InRange(sel, n) == \A j \in 1..Len(sel) : sel[j] \in 0..(n - 1)
HasDuplicates(sel) == \E i, j \in 1..Len(sel) : i # j /\ sel[i] = sel[j]
Ascending(sel) == \A j \in 1..(Len(sel) - 1) : sel[j] < sel[j + 1]
SelSet(sel) == {sel[j] : j \in 1..Len(sel)}
(* numpy fancy indexing along the first axis: t[sel] *)
Pick(t, sel) == [j \in 1..Len(sel) |-> t[sel[j] + 1]]
(* two selections in a row are one selection: (t[s1])[s2] = t[s1[s2]] *)
Compose(s1, s2) == Pick(s1, s2)
(* np.where(mask)[0] *)
Where(mask) == SelectSeq(Ident(Len(mask)), LAMBDA b : mask[b + 1])

(* ------------------------------------------------------------------ w90file.py: W90_file.select_bands *)
(* data.swapaxes(d, 0)[selected].swapaxes(0, d): the selection along axis d (1-based here) *)
RECURSIVE SelectAxis(_, _, _)
SelectAxis(t, d, sel) == IF d = 1 THEN Pick(t, sel) ELSE [j \in 1..Len(t) |-> SelectAxis(t[j], d - 1, sel)]
(* the `dimensions` each class passes (eig.py / w90file.py default (0,), amn the same, mmn.py (1, 2), spn.py (0, 1),
   xxu.py UXU (2, 3), SXU (1, 2)), 1-based *)
Dimensions(cls) == CASE cls \in {"eig", "amn"} -> <<1>>
                     [] cls = "mmn" -> <<2, 3>>
                     [] cls = "spn" -> <<1, 2>>
                     [] cls \in {"uhu", "uiu"} -> <<3, 4>>
                     [] cls \in {"shu", "siu"} -> <<2, 3>>
BandCarrying == {"eig", "amn", "mmn", "spn", "uhu", "uiu", "shu", "siu"}
(* for id, d in enumerate(dimensions): ... *)
RECURSIVE DimLoop(_, _, _, _)
DimLoop(t, dims, i, sel) == IF i > Len(dims) THEN t ELSE DimLoop(SelectAxis(t, dims[i], sel), dims, i + 1, sel)
SelectW90(x, sel) ==
   IF ~InRange(sel, x.dim.NB) THEN Fail("IndexError")                       \* numpy, at the first k-point: nothing is changed
   ELSE LET dat == x.dic["data"]
            new == [k \in DOMAIN dat |-> DimLoop(dat[k], Dimensions(x.cls), 1, sel)]
        IN OkObj([x EXCEPT !.dic = ("data" :> new) @@ @, !.dim = ("NB" :> Len(sel)) @@ @])       \* self.NB = len(selected_bands)

(* ------------------------------------------------------------------ chk.py: CheckPoint.select_bands *)
Wannierised(x) == "v_matrix" \in DOMAIN x.dic
SelectChk(x, sel) ==
   IF Wannierised(x) THEN Fail("AssertionError")                              \* "v_matrix already set, cannot select bands"
   ELSE IF ~InRange(sel, x.attr["num_bands"]) THEN Fail("IndexError")
   ELSE IF sel = <<>> THEN Fail("AssertionError")                             \* "No bands selected"
   ELSE LET nb == IF ChkNumBands = "update" THEN Cardinality(SelSet(sel)) ELSE x.attr["num_bands"]      \* sum(selected_bands_bool)
            sb == IF Bookkeeping = "composed" /\ "selected_bands" \in DOMAIN x.attr THEN Compose(x.attr["selected_bands"], sel) ELSE sel
        IN OkObj([x EXCEPT !.attr = ("num_bands" :> nb) @@ ("selected_bands" :> sb) @@ @])
SelectFile(x, sel) == CASE x.cls = "bkvec" -> OkObj(x)                        \* "this class has no information on the bands"
                        [] x.cls = "chk" -> SelectChk(x, sel)
                        [] OTHER -> SelectW90(x, sel)

(* ------------------------------------------------------------------ the property, element by element (independent of the loop) *)
S(sel, m) == sel[m] + 1
EntriesFrom(cls, a, b, sel) ==      \* table a is table b with the band axes indexed by sel
   CASE cls = "eig" -> Len(a) = Len(sel) /\ \A m \in 1..Len(sel) : a[m] = b[S(sel, m)]
     [] cls = "amn" -> Len(a) = Len(sel) /\ \A m \in 1..Len(sel) : a[m] = b[S(sel, m)]                 \* the whole row over the Wannier functions
     [] cls = "mmn" -> Len(a) = Len(b) /\ \A i \in 1..Len(b) : Len(a[i]) = Len(sel) /\ \A m \in 1..Len(sel) :
                          Len(a[i][m]) = Len(sel) /\ \A n \in 1..Len(sel) : a[i][m][n] = b[i][S(sel, m)][S(sel, n)]
     [] cls = "spn" -> Len(a) = Len(sel) /\ \A m \in 1..Len(sel) : Len(a[m]) = Len(sel) /\ \A n \in 1..Len(sel) : a[m][n] = b[S(sel, m)][S(sel, n)]
     [] cls \in {"uhu", "uiu"} -> Len(a) = Len(b) /\ \A i \in 1..Len(b) : Len(a[i]) = Len(b[i]) /\ \A j \in 1..Len(b[i]) :
                          Len(a[i][j]) = Len(sel) /\ \A m \in 1..Len(sel) : Len(a[i][j][m]) = Len(sel) /\
                             \A n \in 1..Len(sel) : a[i][j][m][n] = b[i][j][S(sel, m)][S(sel, n)]
     [] cls \in {"shu", "siu"} -> Len(a) = Len(b) /\ \A i \in 1..Len(b) : Len(a[i]) = Len(sel) /\ \A m \in 1..Len(sel) :
                          Len(a[i][m]) = Len(sel) /\ \A n \in 1..Len(sel) : a[i][m][n] = b[i][S(sel, m)][S(sel, n)]
(* y is x restricted to the bands sel: the same k-points, every entry from the right place, the sizes follow *)
Restricted(y, x, sel) ==
   /\ y.cls = x.cls
   /\ IF x.cls \in BandCarrying
      THEN /\ DOMAIN y.dic["data"] = DOMAIN x.dic["data"]
           /\ \A k \in DOMAIN x.dic["data"] : EntriesFrom(x.cls, y.dic["data"][k], x.dic["data"][k], sel)
           /\ y.dim = ("NB" :> Len(sel)) @@ x.dim
           /\ \A t \in DOMAIN x.dic \ {"data"} : t \in DOMAIN y.dic /\ y.dic[t] = x.dic[t]            \* bk_reorder
           /\ y.attr = x.attr                                                                          \* NK, the projection tags of .amn
      ELSE IF x.cls = "bkvec" THEN y = x
      ELSE /\ y.dic = x.dic /\ y.dim = x.dim
           /\ \A t \in DOMAIN x.attr \ {"num_bands", "selected_bands"} : t \in DOMAIN y.attr /\ y.attr[t] = x.attr[t]
           /\ (~HasDuplicates(sel) => y.attr["num_bands"] = Len(sel))
(* the same up to the recorded selected_bands of a checkpoint (bookkeeping, see Bookkeeping) *)
NoBook(x) == IF x.cls = "chk" THEN [x EXCEPT !.attr = [t \in DOMAIN @ \ {"selected_bands"} |-> @[t]]] ELSE x
SameButBook(x, y) == NoBook(x) = NoBook(y)
FilesSameButBook(f, g) == DOMAIN f = DOMAIN g /\ \A key \in DOMAIN f : SameButBook(f[key], g[key])

(* ------------------------------------------------------------------ wandata.py: WannierData.select_bands *)
(* the container of W90Store with the attribute selected_bands (meaningful when c.selected) *)
EmptySel == [files |-> << >>, selected |-> FALSE, irreducible |-> FALSE, selbands |-> << >>]
WithSel(c) == [files |-> c.files, selected |-> c.selected, irreducible |-> c.irreducible, selbands |-> << >>]
(* an argument: kind "list" (selected_bands = list of int), "mask" (selected_bands = boolean array), "window" (win_min,
   win_max, band_start, band_end) or "none" (no argument at all) *)
Arg(kind, list, mask, lo, hi, bs, be) == [kind |-> kind, list |-> list, mask |-> mask, lo |-> lo, hi |-> hi, bs |-> bs, be |-> be]
ListArg(l) == Arg("list", l, << >>, InfLo, InfHi, NoIdx, NoIdx)
MaskArg(m) == Arg("mask", << >>, m, InfLo, InfHi, NoIdx, NoIdx)
WinArg(lo, hi, bs, be) == Arg("window", << >>, << >>, lo, hi, bs, be)
NoArg == Arg("none", << >>, << >>, InfLo, InfHi, NoIdx, NoIdx)
InWin(e, lo, hi) == e < hi /\ e > lo                                         \* (E < win_max) * (E > win_min)
(* np.any(select_energy, axis=0) over the k-points that are there; the window is only looked at when one edge is finite *)
EnergyMask(eig, lo, hi) ==
   LET dat == eig.dic["data"] IN
   [b \in 1..eig.dim.NB |-> IF lo = InfLo /\ hi = InfHi THEN TRUE
                            ELSE IF WindowOverK = "any" THEN \E k \in DOMAIN dat : InWin(dat[k][b], lo, hi)
                            ELSE \A k \in DOMAIN dat : InWin(dat[k][b], lo, hi)]
WindowMask(eig, a) ==
   LET em == EnergyMask(eig, a.lo, a.hi) IN
   [b \in 1..eig.dim.NB |-> /\ (a.be = NoIdx \/ b - 1 < a.be)                \* selected_bands_bool[band_end:] = False
                            /\ (a.bs = NoIdx \/ b - 1 >= a.bs)               \* selected_bands_bool[:band_start] = False
                            /\ em[b]]
(* what the docstring says: "Only the bands that are ENTIRELY below win_min or ENTIRELY above win_max are EXCLUDED" *)
DocExcluded(eig, lo, hi, b) == LET dat == eig.dic["data"] IN
   \/ (lo # InfLo /\ \A k \in DOMAIN dat : dat[k][b] < lo)
   \/ (hi # InfHi /\ \A k \in DOMAIN dat : dat[k][b] > hi)
DocWindowSet(eig, a) == {b \in 0..(eig.dim.NB - 1) : /\ ~DocExcluded(eig, a.lo, a.hi, b + 1)
                                                     /\ (a.be = NoIdx \/ b < a.be) /\ (a.bs = NoIdx \/ b >= a.bs)}
(* inputs on which the docstring does not decide (named exclusions) *)
EdgeTie(eig, lo, hi) == \E k \in DOMAIN eig.dic["data"] : \E b \in 1..eig.dim.NB : eig.dic["data"][k][b] \in {lo, hi}
Straddles(eig, lo, hi) == \E b \in 1..eig.dim.NB : LET dat == eig.dic["data"] IN       \* below at one k-point, above at another, never inside
                             /\ ~DocExcluded(eig, lo, hi, b) /\ \A k \in DOMAIN dat : ~InWin(dat[k][b], lo, hi)
(* the part of select_bands before any file is touched: -> [err, sel] *)
ArgSel(c, a) ==
   LET nb == c.files["eig"].dim.NB IN
   CASE a.kind = "list" ->
          IF a.list = << >> THEN Fail("AssertionError")                      \* np.array([]) is a float array
          ELSE IF \E j \in 1..Len(a.list) : a.list[j] < 0 THEN Fail("AssertionError")
          ELSE IF ~InRange(a.list, nb) THEN Fail("AssertionError")
          ELSE [err |-> "", sel |-> a.list]
     [] a.kind = "mask" ->
          IF MaskShapeCheck = "before" THEN (IF Len(a.mask) # nb THEN Fail("AssertionError") ELSE [err |-> "", sel |-> Where(a.mask)])
          ELSE (IF Len(Where(a.mask)) # nb THEN Fail("AssertionError") ELSE [err |-> "", sel |-> Where(a.mask)])
     [] OTHER -> [err |-> "", sel |-> Where(WindowMask(c.files["eig"], a))]
(* for key in FILES_CLASSES: if key in self._files: self.get_file(key).select_bands(selected_bands) - in this order, the
   checkpoint last; an exception of one file leaves the files before it selected *)
SelOrder == <<"eig", "mmn", "amn", "uiu", "uhu", "siu", "shu", "spn", "bkvec", "chk">>
RECURSIVE ApplyAll(_, _, _)
ApplyAll(files, sel, i) ==
   IF i > Len(SelOrder) THEN [files |-> files, err |-> "", at |-> ""]
   ELSE LET key == SelOrder[i] IN
        IF key \notin DOMAIN files THEN ApplyAll(files, sel, i + 1)
        ELSE LET r == SelectFile(files[key], sel) IN
             IF r.err # "" THEN [files |-> files, err |-> r.err, at |-> key]
             ELSE ApplyAll([files EXCEPT ![key] = r.obj], sel, i + 1)
Refuse(c, e) == [cont |-> c, err |-> e, ret |-> << >>, at |-> ""]
ContSelect(c, a, again) ==
   IF c.selected /\ ~again THEN Refuse(c, "RuntimeError")
   ELSE IF ~HasFile(c, "eig") THEN Refuse(c, "RuntimeError")                 \* self.eig.NB is read on every path
   ELSE LET s == ArgSel(c, a) IN
        IF s.err # "" THEN Refuse(c, s.err)
        ELSE LET r == ApplyAll(c.files, s.sel, 1) IN
             IF r.err # "" THEN [cont |-> [c EXCEPT !.files = r.files], err |-> r.err, ret |-> << >>, at |-> r.at]
             ELSE [cont |-> [c EXCEPT !.files = r.files, !.selected = TRUE,
                                      !.selbands = IF Bookkeeping = "composed" /\ c.selected THEN Compose(@, s.sel) ELSE s.sel],
                   err |-> "", ret |-> s.sel, at |-> ""]
(* the class of an argument (which clause of the documentation speaks about it) *)
NbNow(c) == IF HasFile(c, "eig") THEN c.files["eig"].dim.NB ELSE 0
ArgClass(c, a, again) ==
   LET nb == NbNow(c) IN
   IF c.selected /\ ~again THEN "again_refused"
   ELSE IF ~HasFile(c, "eig") THEN (IF a.kind = "window" /\ (a.lo # InfLo \/ a.hi # InfHi) THEN "no_eig_window" ELSE "no_eig")
   ELSE CASE a.kind = "list" ->
               IF a.list = << >> THEN "empty_list"
               ELSE IF \E j \in 1..Len(a.list) : a.list[j] < 0 THEN "negative"
               ELSE IF ~InRange(a.list, nb) THEN "out_of_range"
               ELSE IF HasDuplicates(a.list) THEN "duplicates"
               ELSE IF a.list = Ident(nb) THEN "identity"
               ELSE IF Ascending(a.list) THEN "subset" ELSE "permuted"
          [] a.kind = "mask" ->
               IF Len(a.mask) # nb THEN "mask_wrong_length"
               ELSE IF Where(a.mask) = Ident(nb) THEN "mask_all"
               ELSE IF Where(a.mask) = << >> THEN "mask_none" ELSE "mask_partial"
          [] a.kind = "none" -> "none"
          [] OTHER -> LET eig == c.files["eig"]  s == Where(WindowMask(eig, a)) IN
               IF a.lo = InfLo /\ a.hi = InfHi THEN (IF s = << >> THEN "range_empty" ELSE IF s = Ident(nb) THEN "window_all" ELSE "range")
               ELSE IF EdgeTie(eig, a.lo, a.hi) THEN "window_tie"
               ELSE IF Straddles(eig, a.lo, a.hi) THEN "window_straddle"
               ELSE IF s = << >> THEN "window_empty"
               ELSE IF s = Ident(nb) THEN "window_all" ELSE "window_clean"
MustRefuse == {"again_refused", "negative", "out_of_range", "no_eig_window"}
MustAccept == {"identity", "subset", "permuted", "mask_all", "mask_partial", "none", "window_all", "window_clean", "range"}

(* apply_window: "apply_window is deprecated. Use select_bands instead" *)
ApplyWindow(c) == Refuse(c, "NotImplementedError")
(* set_projections: a freshly computed .amn (all bands of the calculation) is cut with the recorded selection and put into
   the container: amn.select_bands(self.selected_bands); set_file('amn', amn, overwrite=True, allow_selected_bands=True) *)
SetProjections(c, fresh) ==
   LET cut == IF c.selected THEN SelectFile(fresh, c.selbands) ELSE OkObj(fresh) IN
   IF cut.err # "" THEN [cont |-> c, err |-> cut.err]
   ELSE SetFile(c, "amn", cut.obj, TRUE, TRUE)
(* what the docstring of select_bands tells the user to do with a file added later: "manually select those bands before
   adding, using the select_bands method of those objects" - with the returned selections, one after the other *)
RECURSIVE CutBy(_, _, _)
CutBy(x, rets, i) == IF i > Len(rets) THEN OkObj(x)
                     ELSE LET r == SelectFile(x, rets[i]) IN IF r.err # "" THEN r ELSE CutBy(r.obj, rets, i + 1)
SetManually(c, key, fresh, rets) ==
   LET cut == CutBy(fresh, rets, 1) IN
   IF cut.err # "" THEN [cont |-> c, err |-> cut.err]
   ELSE SetFile(c, key, cut.obj, TRUE, TRUE)
(* every pair of files agrees on the sizes they share, and the checkpoint counts the bands of the files *)
BandsOf(c) == {c.files[key].dim.NB : key \in DOMAIN c.files \cap BandCarrying}
Conforming(c) == /\ \A k1, k2 \in DOMAIN c.files \ {"chk"} : \A d \in DOMAIN c.files[k1].dim \cap DOMAIN c.files[k2].dim :
                        c.files[k1].dim[d] = c.files[k2].dim[d]
                 /\ \A key \in DOMAIN c.files \cap BandCarrying :
                        LET x == c.files[key]  r == Construct(key, x.attr, x.dic) IN r.err = "" /\ r.obj.dim = x.dim     \* the tables have the sizes
ChkCounts(c) == HasFile(c, "chk") => \A n \in BandsOf(c) : c.files["chk"].attr["num_bands"] = n
(* save with to_npz, load with from_npz *)
ThroughNpz(c) == LET r == ContFromNpz(ContToNpz(c, << >>)) IN [cont |-> WithSel(r.cont), err |-> r.err]
=============================================================================
