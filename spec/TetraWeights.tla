---------------------------- MODULE TetraWeights ----------------------------
(* C14: linear-tetrahedron occupation weights (grid/tetrahedron.py).
   All energies (corners, Fermi levels) are integers in one common unit; weights are exact rationals <<num, den>>.
   Three independent definitions of the occupation of one tetrahedron:
     * ClosedOcc   - the volume fraction {x in T : e(x) <= ef} by the Hermite-Genocchi formula, i.e. minus the divided
                     difference over the four corner energies of t |-> (ef - t)_+^3, confluent (derivative) form for
                     coincident corners: the exact limit, no nudging;
     * TruncPow    - the manifestly symmetric truncated-power sum (distinct corners only);
     * WeightsTetra - the transcription of the code: sort, 1e-12 nudge chain (modelled as an infinitesimal: a rank inside
                     a run of equal corners), piece selection, "accurate" product form or polynomial coefficients.  *)
EXTENDS Bands, BandsRat

CONSTANT TWVariant   \* "code": the implementation as it is; "typo_c22": a plausible slip in one polynomial coefficient
                     \* (sensitivity self-test: TLC must reject it)

Fact(n) == CASE n = 0 -> 1 [] n = 1 -> 1 [] n = 2 -> 2 [] n = 3 -> 6
IPow(x, p) == CASE p = 0 -> 1 [] p = 1 -> x [] p = 2 -> x * x [] p = 3 -> x * x * x
Sort4(e) == SortSeq(e, LAMBDA a, b : a < b)
Mult(s, v) == Cardinality({i \in 1..Len(s) : s[i] = v})
Distinct4(s) == Cardinality({s[i] : i \in 1..4}) = 4
MinOf(s) == Min({s[i] : i \in 1..Len(s)})
MaxOf(s) == Max({s[i] : i \in 1..Len(s)})

(* ---- named exclusions (DESIGN 2.3) ---- *)
(* the n-th derivative of the volume fraction exists at ef (and is continuous there) iff multiplicity + n <= 3 *)
WellDefined(ef, s, n) == Mult(s, ef) + n <= 3
(* the implementation replaces coincident corners by a chain e, e+1e-12, e+2e-12 ..; at ef equal to such a corner it
   evaluates a cubic of the 1e-12 wide piece (cancellation noise); the binding never puts ef there *)
NotOnDegenerateCorner(ef, s) == Mult(s, ef) <= 1

-----------------------------------------------------------------------------
(* closed form *)
(* k-th t-derivative, at t, of h_n(t) = d^n/d ef^n (ef - t)_+^3 = 3!/(3-n)! (ef - t)_+^(3-n) ; used only when defined *)
HDer(n, k, t, ef) ==
   LET p == 3 - n - k  x == ef - t IN
   IF p < 0 \/ x <= 0 THEN 0 ELSE (IF k % 2 = 0 THEN 1 ELSE -1) * (6 \div Fact(p)) * IPow(x, p)
RECURSIVE DivDiff(_, _, _, _, _)
DivDiff(s, i, j, n, ef) ==
   IF s[i] = s[j] THEN RN(HDer(n, j - i, s[i], ef), Fact(j - i))
   ELSE RDivI(RSub(DivDiff(s, i + 1, j, n, ef), DivDiff(s, i, j - 1, n, ef)), s[j] - s[i])
ClosedOcc(e, ef, n) == RNeg(DivDiff(Sort4(e), 1, 4, n, ef))

Pos(x) == IF x > 0 THEN x ELSE 0
TruncTerm(e, i, ef) ==
   LET d == [j \in 1..4 |-> IF j = i THEN 1 ELSE e[j] - e[i]] IN RN(IPow(Pos(ef - e[i]), 3), d[1] * d[2] * d[3] * d[4])
TruncPow(e, ef) == RAdd(RAdd(TruncTerm(e, 1, ef), TruncTerm(e, 2, ef)), RAdd(TruncTerm(e, 3, ef), TruncTerm(e, 4, ef)))

-----------------------------------------------------------------------------
(* weights_tetra *)
(* position inside a run of equal sorted corners = multiple of diff_min added by the "dirty trick" loop *)
NudgeRank(s) == [i \in 1..4 |-> Cardinality({j \in 1..(i - 1) : s[j] = s[i]})]
NudgedGE(ef, s, i) == ef > s[i] \/ (ef = s[i] /\ NudgeRank(s)[i] = 0)
Piece(ef, s) ==
   IF NudgedGE(ef, s, 4) THEN "one" ELSE IF ~NudgedGE(ef, s, 1) THEN "zero"
   ELSE IF NudgedGE(ef, s, 3) THEN "c3" ELSE IF NudgedGE(ef, s, 2) THEN "c2" ELSE "c1"
PieceByCount(c) == <<"zero", "c1", "c2", "c3", "one">>[c + 1]
PlainPiece(ef, s) == PieceByCount(Cardinality({i \in 1..4 : s[i] <= ef}))
(* the differences that the formulas of a piece divide by *)
PieceDenominators(p, s) ==
   CASE p = "c1" -> {s[2] - s[1], s[3] - s[1], s[4] - s[1]}
     [] p = "c2" -> {s[3] - s[1], s[4] - s[1], s[3] - s[2], s[4] - s[2]}
     [] p = "c3" -> {s[4] - s[1], s[4] - s[2], s[4] - s[3]}
     [] OTHER -> {}
(* away from coincident corners the nudge decides nothing: same piece, and no formula of that piece divides by 1e-12 *)
NudgeIrrelevant(ef, s) == NotOnDegenerateCorner(ef, s) => (Piece(ef, s) = PlainPiece(ef, s) /\ 0 \notin PieceDenominators(Piece(ef, s), s))

(* accurate and der == 0 *)
AccurateOcc(ef, s) ==
   LET p == Piece(ef, s)  e1 == s[1]  e2 == s[2]  e3 == s[3]  e4 == s[4] IN
   CASE p = "one" -> ROne
     [] p = "zero" -> RZero
     [] p = "c3" -> RSub(ROne, RMul(RMul(RN(ef - e4, e1 - e4), RN(ef - e4, e2 - e4)), RN(ef - e4, e3 - e4)))
     [] p = "c2" -> LET a13 == RN(ef - e1, e3 - e1)  a14 == RN(ef - e1, e4 - e1)
                        a23 == RN(ef - e2, e3 - e2)  a24 == RN(ef - e2, e4 - e2)
                    IN RAdd(RMul(a23, a24), RMul(a13, RAdd(RMul(a14, RSub(ROne, a24)), RMul(a24, RSub(ROne, a23)))))
     [] p = "c1" -> RMul(RMul(RN(ef - e1, e2 - e1), RN(ef - e1, e3 - e1)), RN(ef - e1, e4 - e1))

(* polynomial coefficients c<piece><power>; the code computes all of them eagerly (finite thanks to the nudge), only
   those of the selected piece enter the result *)
PolyDen(p, s) ==
   CASE p = "c1" -> (s[2] - s[1]) * (s[3] - s[1]) * (s[4] - s[1])
     [] p = "c2" -> (s[3] - s[1]) * (s[4] - s[1]) * (s[3] - s[2]) * (s[4] - s[2])
     [] p = "c3" -> (s[4] - s[1]) * (s[4] - s[2]) * (s[4] - s[3])
PolyNum(p, k, s) ==
   LET e1 == s[1]  e2 == s[2]  e3 == s[3]  e4 == s[4] IN
   CASE p = "c1" /\ k = 0 -> -(e1 * e1 * e1)
     [] p = "c1" /\ k = 1 -> 3 * e1 * e1
     [] p = "c1" /\ k = 2 -> -3 * e1
     [] p = "c1" /\ k = 3 -> 1
     [] p = "c3" /\ k = 0 -> -(e4 * e4 * e4) + PolyDen("c3", s)
     [] p = "c3" /\ k = 1 -> 3 * e4 * e4
     [] p = "c3" /\ k = 2 -> -3 * e4
     [] p = "c3" /\ k = 3 -> 1
     [] p = "c2" /\ k = 0 -> e1 * e1 * (e3 - e2) * (e4 - e2) - (e2 * e2 * e4) * (e1 - e3) - e1 * e2 * e3 * (e2 - e4)
     [] p = "c2" /\ k = 1 -> -2 * e1 * ((e3 - e2) * (e4 - e2)) + (2 * e2 * e4 + e2 * e2) * (e1 - e3)
                             + (e1 * e2 + e2 * e3 + e1 * e3) * (e2 - e4)
     [] p = "c2" /\ k = 2 -> ((e3 - e2) * (e4 - e2)) - (e1 - e3) * (2 * e2 + e4)
                             - (e3 + e1 + (IF TWVariant = "typo_c22" THEN e4 ELSE e2)) * (e2 - e4)
     [] p = "c2" /\ k = 3 -> e1 + e2 - e3 - e4
PolyCoef(p, k, s) == RN(PolyNum(p, k, s), PolyDen(p, s))
(* the Horner forms of the code, der = 0..3, evaluated for the cubic of piece p at x *)
PolyHorner(p, s, der, x) ==
   LET c0 == PolyCoef(p, 0, s)  c1 == PolyCoef(p, 1, s)  c2 == PolyCoef(p, 2, s)  c3 == PolyCoef(p, 3, s)  X == RI(x) IN
   CASE der = 0 -> RAdd(c0, RMul(X, RAdd(c1, RMul(X, RAdd(c2, RMul(c3, X))))))
     [] der = 1 -> RAdd(c1, RMul(X, RAdd(RScale(2, c2), RMul(RScale(3, c3), X))))
     [] der = 2 -> RAdd(RScale(2, c2), RMul(RScale(6, c3), X))
     [] der = 3 -> RScale(6, c3)
PolyOcc(ef, s, der) ==
   LET p == Piece(ef, s) IN
   CASE p = "one" -> (IF der = 0 THEN ROne ELSE RZero)
     [] p = "zero" -> RZero
     [] OTHER -> PolyHorner(p, s, der, ef)
WeightsTetra(ef, e, der, accurate) ==
   LET s == Sort4(e) IN IF accurate /\ der = 0 THEN AccurateOcc(ef, s) ELSE PolyOcc(ef, s, der)

(* n-th formal derivative at x of the cubic of a piece (0 <= n <= 3) *)
PieceCubicDer(p, s, n, x) ==
   CASE p = "one" -> (IF n = 0 THEN ROne ELSE RZero)
     [] p = "zero" -> RZero
     [] OTHER -> LET T(k) == IF k < n THEN RZero ELSE RScale((Fact(k) \div Fact(k - n)) * IPow(x, k - n), PolyCoef(p, k, s))
                 IN RAdd(RAdd(T(0), T(1)), RAdd(T(2), T(3)))

-----------------------------------------------------------------------------
(* properties of one tetrahedron (e: corners in any order, ef) *)
Perms4 == {p \in [1..4 -> 1..4] : \A i, j \in 1..4 : i # j => p[i] # p[j]}
PermutationInvariant(e, ef, der, acc) ==
   \A p \in Perms4 : WeightsTetra(ef, [i \in 1..4 |-> e[p[i]]], der, acc) = WeightsTetra(ef, e, der, acc)
InUnitRange(w) == RLe(RZero, w) /\ RLe(w, ROne)
OutsideValue(e, ef, der, w) ==
   /\ ef < MinOf(e) => w = RZero
   /\ ef > MaxOf(e) => w = (IF der = 0 THEN ROne ELSE RZero)
(* at a corner value v of multiplicity m the cubics of the pieces left and right of v agree in the derivatives 0..3-m;
   the next derivative jumps *)
LeftPiece(s, v) == PieceByCount(Cardinality({i \in 1..4 : s[i] < v}))
RightPiece(s, v) == PieceByCount(Cardinality({i \in 1..4 : s[i] <= v}))
ContinuousAtCorners(s) ==
   \A i \in 1..4 : LET v == s[i]  m == Mult(s, v) IN
      /\ \A n \in 0..(3 - m) : PieceCubicDer(LeftPiece(s, v), s, n, v) = PieceCubicDer(RightPiece(s, v), s, n, v)
      /\ PieceCubicDer(LeftPiece(s, v), s, 4 - m, v) # PieceCubicDer(RightPiece(s, v), s, 4 - m, v)

(* At a simple corner (multiplicity 1) the third derivative jumps: the code evaluates the piece to the right of the corner
   (ef >= e_i); the piece to the left is the other admissible one-sided convention.  Everywhere else: the code's value. *)
OneSided(ef, e, der) == LET s == Sort4(e) IN der = 3 /\ Mult(s, ef) = 1
LeftConvention(ef, e, der) ==
   LET s == Sort4(e) IN
   IF OneSided(ef, e, der) THEN PieceCubicDer(LeftPiece(s, ef), s, der, ef) ELSE WeightsTetra(ef, e, der, TRUE)

-----------------------------------------------------------------------------
(* TetraWeightsParal.weight_1k1b_priv: corners c[x][y][z] (x, y, z in 1..2 here, 0..1 in the code), centre ec;
   six faces, two tetrahedra (centre, Eface[0,0], Eface[0,1] | Eface[1,0], Eface[1,1]) per face, mean of the twelve *)
Faces(c) ==
   << [a \in 1..2 |-> [b \in 1..2 |-> c[1][a][b]]], [a \in 1..2 |-> [b \in 1..2 |-> c[a][1][b]]], [a \in 1..2 |-> [b \in 1..2 |-> c[a][b][1]]],
      [a \in 1..2 |-> [b \in 1..2 |-> c[2][a][b]]], [a \in 1..2 |-> [b \in 1..2 |-> c[a][2][b]]], [a \in 1..2 |-> [b \in 1..2 |-> c[a][b][2]]] >>
ParalTetrahedra(ec, c) ==
   LET F == Faces(c) IN
   [t \in 1..12 |-> LET f == F[(t + 1) \div 2] IN
                    IF t % 2 = 1 THEN <<ec, f[1][1], f[1][2], f[2][2]>> ELSE <<ec, f[1][1], f[2][1], f[2][2]>>]
RECURSIVE RSumSeq(_)
RSumSeq(q) == IF Len(q) = 0 THEN RZero ELSE RAdd(q[1], RSumSeq(Tail(q)))
RECURSIVE RSumInt(_)
RSumInt(q) == IF Len(q) = 0 THEN 0 ELSE q[1] + RSumInt(Tail(q))
(* Occ(e, ef) : the weight of one tetrahedron, either the transcription or the closed form *)
ParalWeight(Occ(_, _), ec, c, ef) == RDivI(RSumSeq([t \in 1..12 |-> Occ(ParalTetrahedra(ec, c)[t], ef)]), 12)
(* Which diagonal splits a face into two triangles is a free choice of the implementation (the code: [0,0]-[1,1]); the
   property fixes the weight of one tetrahedron only.  The other choice, face by face: *)
ParalTetrahedraOther(ec, c) ==
   LET F == Faces(c) IN
   [t \in 1..12 |-> LET f == F[(t + 1) \div 2] IN
                    IF t % 2 = 1 THEN <<ec, f[1][2], f[1][1], f[2][1]>> ELSE <<ec, f[1][2], f[2][2], f[2][1]>>]
(* on a planar face (f00 + f11 = f01 + f10: the linear interpolations of the two triangles agree) both splits of the face
   give the same weight; FacesPlanar: all six faces *)
FacesPlanar(c) == \A f \in 1..6 : LET F == Faces(c)[f] IN F[1][1] + F[2][2] = F[1][2] + F[2][1]
(* contribution of face f (two tetrahedra) to 12 * weight for either split; the weight of any implementation lies between
   the sums over the faces of the smaller and of the larger one *)
FacePair(Occ(_, _), T, f, ef) == RAdd(Occ(T[2 * f - 1], ef), Occ(T[2 * f], ef))
RMin(x, y) == IF RLe(x, y) THEN x ELSE y
RMax(x, y) == IF RLe(x, y) THEN y ELSE x
ParalLower(Occ(_, _), ec, c, ef) ==
   RDivI(RSumSeq([f \in 1..6 |-> RMin(FacePair(Occ, ParalTetrahedra(ec, c), f, ef), FacePair(Occ, ParalTetrahedraOther(ec, c), f, ef))]), 12)
ParalUpper(Occ(_, _), ec, c, ef) ==
   RDivI(RSumSeq([f \in 1..6 |-> RMax(FacePair(Occ, ParalTetrahedra(ec, c), f, ef), FacePair(Occ, ParalTetrahedraOther(ec, c), f, ef))]), 12)

-----------------------------------------------------------------------------
(* TetraWeights.weights_all_band_groups for one k-point.
   ec[b] centre energy of band b (1-based here), cor[b] = sequence of corner energies of band b, efs = Fermi levels
   (sorted sequence), der in {-1, 0, 1, 2, 3}; no calculator window (Emin = -inf, Emax = +inf), no select_bands.
   W(b, ef) = weight_1k1b of band b (already 1 - occ for der = -1).
   Result: sequence of <<ib1, ib2, [ief |-> weight]>> with 0-based half-open band intervals as in the code. *)
BandEmin(ec, cor, b) == Min({ec[b]} \cup {cor[b][i] : i \in 1..Len(cor[b])})
BandEmax(ec, cor, b) == Max({ec[b]} \cup {cor[b][i] : i \in 1..Len(cor[b])})
(* get_bands_in_range(efs[1], efs[last], eCenter, th, kr, Ebandmin, Ebandmax) *)
TetraGroupsInRange(ec, cor, th, kr, lo, hi) ==
   SelectSeq(Borders(ec, th, kr), LAMBDA g :
       /\ Max({BandEmax(ec, cor, b) : b \in (g[1] + 1)..g[2]}) >= lo
       /\ Min({BandEmin(ec, cor, b) : b \in (g[1] + 1)..g[2]}) <= hi)
(* get_bands_below_range(emin, E, Ebandmax): (last index with Ebandmax < emin) + 1 *)
LastBelowPlus1(ec, cor, emin) ==
   LET S == {b \in 1..Len(ec) : BandEmax(ec, cor, b) < emin} IN IF S = {} THEN 0 ELSE Max(S)
(* get_bands_above_range(emax, E, Ebandmin): first (0-based) index with Ebandmin > emax, else nb *)
FirstAbove(ec, cor, emax) ==
   LET S == {b \in 1..Len(ec) : BandEmin(ec, cor, b) > emax} IN IF S = {} THEN Len(ec) ELSE Min(S) - 1
GroupWeight(W(_, _), g, ef) == RDivI(RSumSeq([k \in 1..(g[2] - g[1]) |-> W(g[1] + k, ef)]), g[2] - g[1])
AllBandGroups(W(_, _), ec, cor, efs, der, th, kr) ==
   LET lo == efs[1]  hi == efs[Len(efs)]
       inr == TetraGroupsInRange(ec, cor, th, kr, lo, hi)
       main == [j \in 1..Len(inr) |-> <<inr[j][1], inr[j][2], [i \in 1..Len(efs) |-> GroupWeight(W, inr[j], efs[i])]>>]
       ones == [i \in 1..Len(efs) |-> ROne]
       seaMax0 == LastBelowPlus1(ec, cor, lo)
       seaMax == IF Len(inr) > 0 THEN Min({seaMax0, inr[1][1]}) ELSE seaMax0
       antiMin0 == FirstAbove(ec, cor, hi)
       antiMin == IF Len(inr) > 0 THEN Max({antiMin0, inr[Len(inr)][2]}) ELSE antiMin0
   IN IF der = 0 /\ seaMax > 0 THEN Append(main, <<0, seaMax, ones>>)
      ELSE IF der = -1 /\ Len(ec) > antiMin THEN Append(main, <<antiMin, Len(ec), ones>>)
      ELSE main
(* what the static calculator makes of it for the identity formula: sum over groups of (number of bands) * weight *)
GroupsTotal(G, i) == RSumSeq([j \in 1..Len(G) |-> RScale(G[j][2] - G[j][1], G[j][3][i])])
(* what a calculator makes of a list of groups for band b (1-based) at Fermi level index i: the weight of the group that
   contains the band, nothing for a band in no group.  The binding compares these per-band weights, not the way the list is
   cut into groups (one completion group or several, a fully occupied group listed with weight 1 or merged into the
   completion, ...) *)
PerBandWeight(G, b, i) ==
   LET J == {j \in 1..Len(G) : G[j][1] < b /\ b <= G[j][2]} IN
   IF J = {} THEN RZero ELSE G[CHOOSE j \in J : TRUE][3][i]
(* every listed group is a union of whole degenerate groups of the partition Borders(ec, th, kr) *)
UnionsOfDegenerateGroups(G, ec, th, kr) ==
   LET B == Borders(ec, th, kr) IN
   \A j \in 1..Len(G) : \A k \in 1..Len(B) :
      (B[k][1] < G[j][2] /\ G[j][1] < B[k][2]) => (G[j][1] <= B[k][1] /\ B[k][2] <= G[j][2])
(* groups never overlap *)
GroupsDisjoint(G) == \A j, k \in 1..Len(G) : j # k => (G[j][2] <= G[k][1] \/ G[k][2] <= G[j][1])
(* eigenvalues are sorted at every k-point: band b lies below band b+1 at the centre and at every corner *)
BandsOrderedAtCorners(ec, cor) ==
   \A b \in 1..(Len(ec) - 1) : ec[b] <= ec[b + 1] /\ \A i \in 1..Len(cor[b]) : cor[b][i] <= cor[b + 1][i]
=============================================================================
