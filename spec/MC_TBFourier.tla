---------------------------- MODULE MC_TBFourier ----------------------------
(* Bounded model for C02: every Hermitian model with at most MAXHOPS independent hoppings (plus their Hermitian
   partners) from a finite universe of R-vectors / orbital pairs / amplitudes, every listed lattice, centre configuration,
   FFT grid and K-shift; one behaviour  new -> done  per input.  Eval computes the tables of exact k-space
   matrices (explicit sum and FFT path) that the invariants compare and that the harness replays on the real Data_K_R / Rvectors.R_to_k. *)
EXTENDS TBFourier

CONSTANTS NWS,        \* set of numbers of Wannier functions
          LATIDS,     \* lattice ids (see LatOf)
          TAUIDS,     \* centre-configuration ids (see TauOf)
          RSETID,     \* universe of R vectors (see RUniverse)
          AMPIDS,     \* amplitude ids: 1 -> 1, 2 -> i, 3 -> -1, 4 -> -i, 5 -> zeta
          MAXHOPS,    \* at most this many independent hoppings
          FFTS,       \* FFT grids coded as 100 n1 + 10 n2 + n3
          DKS,        \* K-shifts (in twelfths) coded as 10000 d1 + 100 d2 + d3
          MAXDER,     \* derivative orders 0..MAXDER
          Symmetrise, \* TRUE: models are Hermitian (closure added); FALSE: sensitivity run, HkHermitian must fail
          OnReducedR  \* FALSE: the code; TRUE: sensitivity run (K-shift phase on R mod NKFFT), FFTEqualsDirect must fail

VARIABLES nw, latid, tauid, hops, fft, dk, phase,
          direct    \* cs -> rows of the explicit sum at kpoints_all (times DD^Len(cs)); the function table replayed on the code
vars == <<nw, latid, tauid, hops, fft, dk, phase, direct>>

DD == 4   \* centres in quarters
LatOf(id) == CASE id = 1 -> << <<1, 0, 0>>, <<0, 1, 0>>, <<0, 0, 1>> >>      \* cubic
               [] id = 2 -> << <<1, 0, 0>>, <<1, 2, 0>>, <<0, 0, 1>> >>      \* non-orthogonal, integer
               [] id = 3 -> << <<2, 0, 0>>, <<0, 1, 0>>, <<1, 0, 3>> >>
TauOf(n, id) ==
   CASE n = 1 /\ id = 1 -> << <<0, 0, 0>> >>
     [] n = 1 /\ id = 2 -> << <<2, -1, 0>> >>
     [] n = 1 /\ id = 3 -> << <<5, 2, 1>> >>
     [] n = 2 /\ id = 1 -> << <<0, 0, 0>>, <<2, 0, 0>> >>                    \* half-integer distance
     [] n = 2 /\ id = 2 -> << <<1, 0, 0>>, <<-2, 3, 0>> >>                   \* quarters, one outside the home cell
     [] n = 2 /\ id = 3 -> << <<0, 4, 0>>, <<0, 4, 0>> >>                    \* coinciding, integer
     [] n = 3 /\ id = 1 -> << <<0, 0, 0>>, <<2, 2, 0>>, <<0, 2, 2>> >>
     [] n = 3 /\ id = 2 -> << <<1, 0, 2>>, <<-3, 2, 0>>, <<6, 1, -1>> >>
     [] n = 3 /\ id = 3 -> << <<0, 0, 0>>, <<0, 0, 0>>, <<4, 0, 0>> >>
RUniverse ==
   CASE RSETID = 1 -> {<<x, 0, 0>> : x \in -2..2}
     [] RSETID = 2 -> {<<x, y, 0>> : x \in -1..1, y \in -1..1}
     [] RSETID = 3 -> {<<x, y, 0>> : x \in -2..2, y \in -2..2}
     [] RSETID = 4 -> {<<x, y, z>> : x \in -1..1, y \in -1..1, z \in -1..1}
     [] RSETID = 5 -> {<<x, 0, 0>> : x \in -3..3}
AmpOf(id) == CASE id = 1 -> COne [] id = 2 -> CI [] id = 3 -> CNeg(COne) [] id = 4 -> CNeg(CI) [] id = 5 -> Zeta(1)
LexNonNeg(R) == R[1] > 0 \/ (R[1] = 0 /\ (R[2] > 0 \/ (R[2] = 0 /\ R[3] >= 0)))
(* one representative of every pair {hop, Hermitian partner} *)
HalfHops(n) == {[R |-> R, a |-> a, b |-> b, v |-> AmpOf(id)] :
                    R \in {R \in RUniverse : LexNonNeg(R)}, a \in 1..n, b \in 1..n, id \in AMPIDS}
IndependentHops(n) == {h \in HalfHops(n) : h.R # <<0, 0, 0>> \/ h.a <= h.b}
FFTOf(x) == <<x \div 100, (x \div 10) % 10, x % 10>>
DKOf(x) == <<x \div 10000, (x \div 100) % 100, x % 100>>

Model == [nw |-> nw, lat |-> LatOf(latid), D |-> DD, tau |-> TauOf(nw, tauid), hops |-> hops]

RECURSIVE SubsetsUpToSize(_, _)
SubsetsUpToSize(S, n) == IF n = 0 THEN {{}} ELSE LET P == SubsetsUpToSize(S, n - 1) IN P \cup {p \cup {x} : p \in P, x \in S}
SubsetsOfSize(S, n) == {T \in SubsetsUpToSize(S, n) : Cardinality(T) = n}
Init == /\ nw \in NWS /\ latid \in LATIDS /\ tauid \in TAUIDS
        /\ \E k \in 1..MAXHOPS : \E hh \in SubsetsOfSize(IndependentHops(nw), k) :    \* (kSubset fails for base sets with more than 62 elements)
              hops = IF Symmetrise THEN HermitianClosure(hh) ELSE hh
        /\ fft \in {FFTOf(x) : x \in FFTS} /\ dk \in {DKOf(x) : x \in DKS}
        /\ phase = "new" /\ direct = <<>>
(* the explicit sums for every derivative component *)
Eval == /\ phase = "new" /\ phase' = "done"
        /\ direct' = [cs \in CompSeqsUpTo(MAXDER) |-> DirectRows(Model, fft, dk, cs)]
        /\ UNCHANGED <<nw, latid, tauid, hops, fft, dk>>
Next == Eval
Spec == Init /\ [][Next]_vars

Done == phase = "done"
(* C02 *)
ModelHermitian  == Done /\ Symmetrise => IsHermitianModel(Model)
HkHermitian     == Done => RowsHermitian(direct[<<>>])
DerHermitian    == Done => \A cs \in CompSeqsUpTo(MAXDER) : RowsHermitian(direct[cs])
(* every FFT back end (placement modulo NKFFT, K-shift phase, inverse transform, reshape) gives the explicit sum at kpoints_all *)
FFTEqualsDirect == Done => \A cs \in CompSeqsUpTo(MAXDER) : FFTPath(Model, fft, dk, cs, OnReducedR) = direct[cs]
HermSymNoopHHK  == Done => HermSymNoop(direct[<<>>])
Periodic        == Done => PeriodicAt(Model, KpointsAll(fft, dk)[1], <<>>)
(* non-vacuity witness, counted by the harness from the dump *)
HasAlias == Aliases(Model, fft)
=============================================================================
