--------------------------- MODULE PeriodicityRec ---------------------------
(* code -> spec, one TLC state per record:
   fn = "hk"    : Data_K_R.HH_K of a real System_R with Gaussian-integer hoppings at k = kn/4 + G (rounded, integrality verified)
   fn = "degen" : Data_K.degen of a real Data_K on a diagonal model (energies integers x unit)
   fn = "uu"    : pairs of bands that Data_K.UU_K (random_gauge=True) actually mixed
   fn = "tetra" : band blocks a tetrahedron calculator traces (Fermi sea) *)
EXTENDS Periodicity, Json, IOUtils, TLCExt
VARIABLES i, rec          \* rec = the record itself: read once in the initial predicate, materialised in the state
Recs == JsonDeserialize(IOEnv.TRACE_FILE).recs
Rec == rec
AsSeq(s) == [k \in 1..Len(s) |-> s[k]]
Mat(M) == [a \in 1..Len(M) |-> [b \in 1..Len(M) |-> <<M[a][b][1], M[a][b][2]>>]]
PairsOf(s) == [k \in 1..Len(s) |-> <<s[k][1], s[k][2]>>]
HkClauses ==
   LET nw == Len(Rec.h0)  h0 == Mat(Rec.h0)  Rs == PairsOf(Rec.Rs)  Ts == [j \in 1..Len(Rec.Ts) |-> Mat(Rec.Ts[j])]
       kn == <<Rec.kn[1], Rec.kn[2]>>  G == <<Rec.G[1], Rec.G[2]>> IN
   [ hermitian_model |-> IsHermitianM(h0, nw),
     equals_spec_at_k |-> Mat(Rec.hk) = Hk(nw, h0, Rs, Ts, kn),
     equals_spec_at_kG |-> Mat(Rec.hk) = Hk(nw, h0, Rs, Ts, Shifted(kn, G)),
     hermitian |-> IsHermitianM(Mat(Rec.hk), nw) ]
DegenClauses ==
   LET E == AsSeq(Rec.E) G == PairsOf(Rec.out) IN
   [ equals_spec |-> G = DegenRG(E, Rec.th),
     multiplets |-> IsMultipletList(E, G, Rec.th),
     inside_trace_blocks |-> InsideTraceBlocks(E, Rec.th, Rec.thc) ]
UUClauses ==
   LET E == AsSeq(Rec.E) IN
   [ mixes_only_inside_blocks |-> \A j \in 1..Len(Rec.mixed) : <<Rec.mixed[j][1], Rec.mixed[j][2]>> \in MayMix(E, Rec.th) ]
(* fn = "tetra": keys of TetraWeights.weights_all_band_groups(eFermi, der=0) for one k-point; energies in half units *)
TetraClauses ==
   LET E == AsSeq(Rec.E)  lo == AsSeq(Rec.lo)  hi == AsSeq(Rec.hi)  T == PairsOf(Rec.out)
       exp == TetraTraced(E, lo, hi, Rec.th, Rec.ef0, Rec.ef1, TRUE)
       Bands(B) == UNION {B[j][1]..(B[j][2] - 1) : j \in 1..Len(B)} IN
   \* how the traced bands are cut into blocks is free (any union of whole multiplets): compared are the bands covered,
   \* that no band is traced twice and that no block cuts a multiplet
   [ same_bands |-> Bands(T) = Bands(exp),
     disjoint |-> \A a, b \in 1..Len(T) : a < b => (T[a][1]..(T[a][2] - 1)) \cap (T[b][1]..(T[b][2] - 1)) = {},
     unions_of_multiplets |-> UnionsOfMultiplets(T, DegenRG(E, Rec.thg)) ]
Clauses == CASE Rec.fn = "hk" -> HkClauses [] Rec.fn = "degen" -> DegenClauses [] Rec.fn = "uu" -> UUClauses [] Rec.fn = "tetra" -> TetraClauses
Report == LET C == Clauses IN \A n \in DOMAIN C : C[n] \/ PrintT(<<"BAD", i, n>>)      \* the table is evaluated once
RecInit == \E rs \in {Recs} : i \in 1..Len(rs) /\ rec = rs[i]
RecSpec == RecInit /\ [][UNCHANGED <<i, rec>>]_<<i, rec>>
=============================================================================
