\* generated by the harness (quick tier constants); the checks generate their configs themselves
SPECIFICATION FSpec
CONSTANTS
  WriterIndexing = "nested"
  MmnWriterBkvec = TRUE
  LoadtxtSqueeze = FALSE
  CLS = {"eig", "amn", "mmn", "bkvec", "chk", "spn", "uhu", "uiu", "shu", "siu"}
  NKS = {1, 2, 3}
  NBS = {1, 2, 3}
  NNBS = {2, 3, 6}
  PATS = {1}
INVARIANT TextRoundTrip
INVARIANT WriterNeedsAllK
INVARIANT NpzRoundTrip
INVARIANT NpzKeys
CHECK_DEADLOCK FALSE
