\* generated by the harness (quick tier constants); the checks generate their configs themselves
SPECIFICATION FSpec
CONSTANTS
  WccSplitCeil = TRUE
  NWS = {1, 2, 3, 4}
  SHAPES = {1, 2, 3, 4, 5}
  PATS = {1}
  AAZERO = TRUE
  MAXLEN = 0
  NDPATS = {0, 1, 2}
INVARIANT TbFileInverse
INVARIANT TbFileInverseAA
INVARIANT HrFileInverse
INVARIANT NdegenLayout
CHECK_DEADLOCK FALSE
