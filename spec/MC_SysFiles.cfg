\* generated by the harness (quick tier constants); the checks generate their configs themselves
SPECIFICATION FSpec
CONSTANTS
  WccSplitCeil = TRUE
  NWS = {1, 2, 3}
  SHAPES = {1, 2, 3, 4, 5, 6, 7}
  PATS = {1}
  AAZERO = TRUE
  MAXLEN = 0
  NDPATS = {0, 2}
INVARIANT TbFileInverse
INVARIANT TbFileInverseAA
INVARIANT TbFileInverseConvI
INVARIANT HrFileInverse
INVARIANT NdegenLayout
CHECK_DEADLOCK FALSE
