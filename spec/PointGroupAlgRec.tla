--------------------------- MODULE PointGroupAlgRec ---------------------------
(* code -> spec: records of calls of the real PointSymmetry / PointGroup / Transform code (random generators, lattices,
   tensors, k-points, space groups of irrep, Rotation / Mirror objects), one TLC state per record; every clause of C09
   that applies is evaluated on the recorded values.  Lists of group elements are compared as SETS (the property does
   not fix the order in which PointGroup.symmetries lists the elements, nor which of two equivalent star points is kept).
   Matrices are in the frame of the family (see PointGroupAlg), tensors are frame components, k-points numerators. *)
EXTENDS PointGroupAlg, Json, IOUtils, TLCExt
VARIABLES i, rec          \* rec = the record itself: read once in the initial predicate, materialised in the state
Recs == JsonDeserialize(IOEnv.TRACE_FILE).recs
Rec == rec
(* JSON-derived values are lazy (re-evaluated at every use): every converted value is forced once with TLCEval *)
Seq1(s) == TLCEval([k \in 1..Len(s) |-> s[k]])
Mat(m) == TLCEval(<<<<m[1][1], m[1][2], m[1][3]>>, <<m[2][1], m[2][2], m[2][3]>>, <<m[3][1], m[3][2], m[3][3]>>>>)
Elem(e) == [R |-> Mat(e.R), inv |-> e.inv, tr |-> e.tr]
Elems(s) == TLCEval([k \in 1..Len(s) |-> Elem(s[k])])
Tens(t) == [rank |-> t.rank, re |-> Seq1(t.re), im |-> Seq1(t.im)]
Trans(t) == [factor |-> t.factor, conj |-> t.conj, axes |-> Seq1(t.axes)]
LatOf(l) == [fam |-> l.fam, A |-> Mat(l.A)]
Vec(v) == <<v[1], v[2], v[3]>>

(* fn = "group": PointGroup(generators) (random generators, the operations of a space group, a subset of them) *)
GroupClauses ==
   LET gen == TLCEval([k \in 1..Len(Rec.gens) |-> PointSymmetry(Mat(Rec.gens[k].R), Rec.gens[k].TR)])
       G == Elems(Rec.out)  lat == LatOf(Rec.lat)
       GG == TLCEval(Generate(gen)) IN                          \* evaluated once per record
   [ equals_spec |-> Len(G) = Len(GG) /\ SameSet(G, GG),
     closed |-> Closed(G),
     identity |-> HasIdentity(G),
     inverses |-> HasInverses(G),
     size |-> SizeBound(G),
     no_duplicates |-> NoDuplicates(G),
     frame_isometry |-> FrameInvariant(G, lat.fam),
     basis_symmetry |-> Rec.symm = CheckBasisSymmetry(G, lat) /\ Rec.symmreal = CheckRealBasisSymmetry(G, lat),
     lattice_invariant |-> Rec.symm => LatticeInvariant(G, lat),
     \* transform_reduced_vector(eye, recip_lattice) of every element: rows = images of the basis vectors = sign * W^T
     reduced_vectors |-> Rec.symm => \A n \in 1..Len(G) :
                            Mat(Rec.TRV[n]) = MatScale(MatT(Reduced(G[n].R, lat)), iTR(G[n]) * iInv(G[n])) ]
MulClauses ==
   [ equals_spec |-> Elem(Rec.out) = Mul(Elem(Rec.a), Elem(Rec.b)),
     element |-> IsElement(Elem(Rec.out)) ]
StarClauses ==
   LET G == Elems(Rec.G)  lat == LatOf(Rec.lat)  st == TLCEval([n \in 1..Len(Rec.out) |-> Vec(Rec.out[n])])  k == Vec(Rec.k) IN
   [ each_image_once |-> StarOnce(st, G, k, Rec.N, lat),
     size_of_spec_star |-> Len(st) = Len(Star(G, k, Rec.N, lat)),
     divides_order |-> NoDuplicates(G) => Len(G) % Len(st) = 0 ]
ActClauses ==
   [ equals_spec |-> Tens(Rec.out) = Act(Elem(Rec.g), Tens(Rec.T), Trans(Rec.tTR), Trans(Rec.tInv)) ]
ActLawClauses ==
   LET g == Elem(Rec.g)  h == Elem(Rec.h)  T == Tens(Rec.T)  tTR == Trans(Rec.tTR)  tInv == Trans(Rec.tInv) IN
   [ product |-> Elem(Rec.gh) = Mul(g, h),
     action_law |-> ValidPair(tTR, tInv) => Tens(Rec.out_g_h) = Tens(Rec.out_gh),
     equals_spec |-> Tens(Rec.out_gh) = Act(Mul(g, h), T, tTR, tInv) /\ Tens(Rec.out_g_h) = Act(g, Act(h, T, tTR, tInv), tTR, tInv) ]
(* symmetrize_tensor / PointGroup.symmetrize(EnergyResult), times the group size *)
SymmClauses ==
   LET G == Elems(Rec.G)  T == Tens(Rec.T)  tTR == Trans(Rec.tTR)  tInv == Trans(Rec.tInv)  S == TLCEval(Tens(Rec.out))
       ok == ValidPair(tTR, tInv) /\ Closed(G) /\ NoDuplicates(G) IN
   [ equals_spec |-> S = Symmetrize(G, T, tTR, tInv),
     idempotent |-> ok => Tens(Rec.out2) = TScale(S, Len(G)),
     invariant_code |-> ok => \A n \in 1..Len(Rec.acted) : Tens(Rec.acted[n]) = S,
     invariant_spec |-> ok => \A n \in 1..Len(G) : Act(G[n], S, tTR, tInv) = S ]
GridClauses ==
   [ equals_spec |-> Rec.out = SymmetricGrid(Elems(Rec.G), LatOf(Rec.lat), Vec(Rec.nk)) ]
DictClauses ==
   LET G == Elems(Rec.G)  D == Elems(Rec.out) IN
   [ round_trip |-> Len(D) = Len(G) /\ SameSet(D, G) /\ NoDuplicates(D) ]
TProdClauses ==
   LET ts == [k \in 1..Len(Rec.ts) |-> Trans(Rec.ts[k])] IN
   [ defined_iff |-> Rec.defined = TransformProductDefined(ts),
     equals_spec |-> Rec.defined => Trans(Rec.out) = TransformProduct(ts) ]
(* fn = "rot": Rotation(n, axis) / Mirror(axis), axis = integer frame coordinates c *)
RotClauses ==
   LET g == Elem(Rec.out)  c == Vec(Rec.c)  n == IF Rec.mirror THEN 2 ELSE Rec.n IN
   [ element |-> IsElement(g) /\ IsIsometry(g.R, Rec.fam) /\ ~g.tr,
     improper_iff_mirror |-> g.inv = Rec.mirror,
     fixes_axis |-> RotationFixesAxis(g.R, c),
     order |-> RotationOrder(g.R, n),
     sense |-> RotationSense(g.R, n, c),
     named |-> Rec.name # "" => g = FromString(Rec.fam, Rec.name) ]
Clauses == CASE Rec.fn = "group" -> GroupClauses
             [] Rec.fn = "mul" -> MulClauses
             [] Rec.fn = "star" -> StarClauses
             [] Rec.fn = "act" -> ActClauses
             [] Rec.fn = "actlaw" -> ActLawClauses
             [] Rec.fn = "symm" -> SymmClauses
             [] Rec.fn = "grid" -> GridClauses
             [] Rec.fn = "dict" -> DictClauses
             [] Rec.fn = "tprod" -> TProdClauses
             [] Rec.fn = "rot" -> RotClauses
Report == LET C == Clauses IN \A n \in DOMAIN C : C[n] \/ PrintT(<<"BAD", i, n>>)      \* the table is evaluated once
RecInit == \E rs \in {Recs} : i \in 1..Len(rs) /\ rec = rs[i]
RecSpec == RecInit /\ [][UNCHANGED <<i, rec>>]_<<i, rec>>
=============================================================================
