--------------------------- MODULE PointGroupAlgRec ---------------------------
(* code -> spec: records of calls of the real PointSymmetry / PointGroup / Transform code (random generators, lattices,
   tensors, k-points), one TLC state per record; every clause of C09 that applies is evaluated on the recorded values.
   Matrices are in the frame of the family (see PointGroupAlg), tensors are frame components, k-points numerators. *)
EXTENDS PointGroupAlg, Json, IOUtils, TLCExt
VARIABLE i
Recs == JsonDeserialize(IOEnv.TRACE_FILE).recs
Rec == Recs[i]
Seq1(s) == [k \in 1..Len(s) |-> s[k]]
Mat(m) == [a \in 1..3 |-> [b \in 1..3 |-> m[a][b]]]
Elem(e) == [R |-> Mat(e.R), inv |-> e.inv, tr |-> e.tr]
Elems(s) == [k \in 1..Len(s) |-> Elem(s[k])]
Tens(t) == [rank |-> t.rank, re |-> Seq1(t.re), im |-> Seq1(t.im)]
Trans(t) == [factor |-> t.factor, conj |-> t.conj, axes |-> Seq1(t.axes)]
LatOf(l) == [fam |-> l.fam, A |-> Mat(l.A)]
Vec(v) == <<v[1], v[2], v[3]>>

GroupClauses ==
   LET gen == [k \in 1..Len(Rec.gens) |-> PointSymmetry(Mat(Rec.gens[k].R), Rec.gens[k].TR)]
       G == Elems(Rec.out)  lat == LatOf(Rec.lat)
       distinct == \A a, b \in 1..Len(gen) : a < b => ~Eq(gen[a], gen[b]) IN
   [ equals_spec |-> G = Generate(gen),
     closed |-> Closed(G),
     identity |-> HasIdentity(G),
     inverses |-> HasInverses(G),
     size |-> SizeBound(G),
     no_duplicates |-> distinct => NoDuplicates(G),
     frame_isometry |-> FrameInvariant(G, lat.fam),
     basis_symmetry |-> Rec.symm = CheckBasisSymmetry(G, lat) /\ Rec.symmreal = CheckRealBasisSymmetry(G, lat),
     lattice_invariant |-> Rec.symm => (LatticeInvariant(G, lat) /\ [n \in 1..Len(G) |-> Reduced(G[n].R, lat)] = [n \in 1..Len(Rec.W) |-> Mat(Rec.W[n])]) ]
MulClauses ==
   [ equals_spec |-> Elem(Rec.out) = Mul(Elem(Rec.a), Elem(Rec.b)),
     element |-> IsElement(Elem(Rec.out)) ]
StarClauses ==
   LET G == Elems(Rec.G)  lat == LatOf(Rec.lat)  st == [n \in 1..Len(Rec.out) |-> Vec(Rec.out[n])]  k == Vec(Rec.k) IN
   [ equals_spec |-> st = Star(G, k, Rec.N, lat),
     each_image_once |-> StarOnce(st, G, k, Rec.N, lat),
     first_occurrences |-> StarFirstOccurrences(st, G, k, Rec.N, lat),
     divides_order |-> NoDuplicates(G) => Len(G) % Len(st) = 0 ]
ActClauses ==
   [ equals_spec |-> Tens(Rec.out) = Act(Elem(Rec.g), Tens(Rec.T), Trans(Rec.tTR), Trans(Rec.tInv)) ]
ActLawClauses ==
   LET g == Elem(Rec.g)  h == Elem(Rec.h)  T == Tens(Rec.T)  tTR == Trans(Rec.tTR)  tInv == Trans(Rec.tInv) IN
   [ product |-> Elem(Rec.gh) = Mul(g, h),
     action_law |-> ValidPair(tTR, tInv) => Tens(Rec.out_g_h) = Tens(Rec.out_gh),
     equals_spec |-> Tens(Rec.out_gh) = Act(Mul(g, h), T, tTR, tInv) /\ Tens(Rec.out_g_h) = Act(g, Act(h, T, tTR, tInv), tTR, tInv) ]
SymmClauses ==
   LET G == Elems(Rec.G)  T == Tens(Rec.T)  tTR == Trans(Rec.tTR)  tInv == Trans(Rec.tInv)  S == Tens(Rec.out)
       ok == ValidPair(tTR, tInv) /\ Closed(G) /\ NoDuplicates(G) IN
   [ equals_spec |-> S = Symmetrize(G, T, tTR, tInv),
     idempotent |-> ok => Tens(Rec.out2) = TScale(S, Len(G)),
     invariant_code |-> ok => \A n \in 1..Len(Rec.acted) : Tens(Rec.acted[n]) = S,
     invariant_spec |-> ok => \A n \in 1..Len(G) : Act(G[n], S, tTR, tInv) = S ]
GridClauses ==
   [ equals_spec |-> Rec.out = SymmetricGrid(Elems(Rec.G), LatOf(Rec.lat), Vec(Rec.nk)) ]
DictClauses ==
   LET G == Elems(Rec.G) IN
   [ round_trip |-> Elems(Rec.out) = G,
     equals_spec |-> Elems(Rec.out) = GroupFromDict(GroupAsDict(G)),
     dict_entries |-> [n \in 1..Len(Rec.dict) |-> [R |-> Mat(Rec.dict[n].R), TR |-> Rec.dict[n].TR]] = GroupAsDict(G) ]
TProdClauses ==
   LET ts == [k \in 1..Len(Rec.ts) |-> Trans(Rec.ts[k])] IN
   [ defined_iff |-> Rec.defined = TransformProductDefined(ts),
     equals_spec |-> Rec.defined => Trans(Rec.out) = TransformProduct(ts) ]
Clauses == CASE Rec.fn = "group" -> GroupClauses
             [] Rec.fn = "mul" -> MulClauses
             [] Rec.fn = "star" -> StarClauses
             [] Rec.fn = "act" -> ActClauses
             [] Rec.fn = "actlaw" -> ActLawClauses
             [] Rec.fn = "symm" -> SymmClauses
             [] Rec.fn = "grid" -> GridClauses
             [] Rec.fn = "dict" -> DictClauses
             [] Rec.fn = "tprod" -> TProdClauses
Report == \A n \in DOMAIN Clauses : Clauses[n] \/ PrintT(<<"BAD", i, n>>)
RecInit == i \in 1..Len(Recs)
RecSpec == RecInit /\ [][UNCHANGED i]_i
=============================================================================
