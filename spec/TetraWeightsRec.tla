--------------------------- MODULE TetraWeightsRec ---------------------------
(* code -> spec (C14): recorded calls of the real weights_tetra / TetraWeightsParal.weight_1k1b_priv /
   TetraWeights.weights_all_band_groups, one TLC state per record.
   Energies are integers (the harness multiplies by an exactly representable unit U); the returned floats are recorded as
   got8 = round(value * U^der * 10^8) (integers); the exact rational of the specification is reduced to Floor(x * 10^8) by
   long division (BandsRat.RFloor8) and compared with an integer tolerance tol8 (in units of 10^-8). *)
EXTENDS TetraWeights, Json, IOUtils, TLCExt
VARIABLE i
Recs == JsonDeserialize(IOEnv.TRACE_FILE).recs
Rec == Recs[i]
AsSeq(s) == [k \in 1..Len(s) |-> s[k]]
Near(a, b, tol) == a - b <= tol /\ b - a <= tol
E8 == 100000000

(* one call weights_tetra(efs, e[1..4], der, accurate) *)
TetraClauses ==
   LET e == AsSeq(Rec.e)  efs == AsSeq(Rec.efs)  got == AsSeq(Rec.got8)  n == Rec.der  tol == Rec.tol8  N == Len(efs) IN
   [ admissible |-> \A k \in 1..N : NotOnDegenerateCorner(efs[k], e) /\ WellDefined(efs[k], e, n),
     equals_closed_form |-> \A k \in 1..N : Near(got[k], RFloor8(ClosedOcc(e, efs[k], n)), tol + 1),
     unit_range |-> n = 0 => \A k \in 1..N : got[k] >= -tol /\ got[k] <= E8 + tol,
     monotone |-> n = 0 => \A k \in 1..(N - 1) : efs[k] <= efs[k + 1] => got[k] <= got[k + 1] + 2 * tol,
     outside |-> \A k \in 1..N : /\ efs[k] < MinOf(e) => got[k] = 0
                                 /\ efs[k] > MaxOf(e) => got[k] = (IF n = 0 THEN E8 ELSE 0) ]
(* TetraWeightsParal.weight_1k1b_priv: Rec.c = 2x2x2 nested list, Rec.ec centre *)
ParalClauses ==
   LET c == [x \in 1..2 |-> [y \in 1..2 |-> [z \in 1..2 |-> Rec.c[x][y][z]]]]
       T == ParalTetrahedra(Rec.ec, c)
       efs == AsSeq(Rec.efs)  got == AsSeq(Rec.got8)  n == Rec.der  tol == Rec.tol8  N == Len(efs)
       all == {Rec.ec} \cup {c[x][y][z] : x \in 1..2, y \in 1..2, z \in 1..2}
       TO == ParalTetrahedraOther(Rec.ec, c)
       F8(TT, f, k) == RFloor8(ClosedOcc(TT[2 * f - 1], efs[k], n)) + RFloor8(ClosedOcc(TT[2 * f], efs[k], n))
       IMin(a, b) == IF a <= b THEN a ELSE b
       IMax(a, b) == IF a <= b THEN b ELSE a
       Lo8(k) == RSumInt([f \in 1..6 |-> IMin(F8(T, f, k), F8(TO, f, k))])
       Hi8(k) == RSumInt([f \in 1..6 |-> IMax(F8(T, f, k), F8(TO, f, k))])
   IN
   [ admissible |-> \A k \in 1..N : \A t \in 1..12 : /\ NotOnDegenerateCorner(efs[k], T[t]) /\ WellDefined(efs[k], T[t], n)
                                                      /\ NotOnDegenerateCorner(efs[k], TO[t]) /\ WellDefined(efs[k], TO[t], n),
     (* mean of twelve tetrahedra, whichever diagonal splits each face: between the face-wise smaller and larger sums *)
     within_face_split_bounds |-> \A k \in 1..N : /\ 12 * got[k] >= Lo8(k) - 12 * (tol + 1)
                                                 /\ 12 * got[k] <= Hi8(k) + 12 * (tol + 1),
     unit_range |-> n = 0 => \A k \in 1..N : got[k] >= -tol /\ got[k] <= E8 + tol,
     monotone |-> n = 0 => \A k \in 1..(N - 1) : efs[k] <= efs[k + 1] => got[k] <= got[k + 1] + 2 * tol,
     outside |-> \A k \in 1..N : /\ efs[k] < Min(all) => got[k] = 0
                                 /\ efs[k] > Max(all) => got[k] = (IF n = 0 THEN E8 ELSE 0) ]
(* weights_all_band_groups of one k-point: Rec.out = list of [ib1, ib2, [w8 per Fermi level]] *)
GroupsClauses ==
   LET ec == AsSeq(Rec.ec)  NBands == Len(ec)
       cor == [b \in 1..NBands |-> AsSeq(Rec.cor[b])]
       efs == AsSeq(Rec.efs)  n == Rec.der  tol == Rec.tol8  N == Len(efs)
       out == [j \in 1..Len(Rec.out) |-> <<Rec.out[j][1], Rec.out[j][2], AsSeq(Rec.out[j][3])>>]
       Exact(b, x) == CASE n = -1 -> RSub(ROne, ClosedOcc(cor[b], x, 0)) [] OTHER -> ClosedOcc(cor[b], x, n)
       G == AllBandGroups(Exact, ec, cor, efs, n, Rec.th, Rec.kr)
       PerBand8(o, b, k) == LET J == {j \in 1..Len(o) : o[j][1] < b /\ b <= o[j][2]} IN
                            IF J = {} THEN 0 ELSE o[CHOOSE j \in J : TRUE][3][k]
       Total8(k) == RSumInt([j \in 1..Len(out) |-> (out[j][2] - out[j][1]) * out[j][3][k]])
       ExactTotal8(k) == RSumInt([b \in 1..NBands |-> RFloor8(Exact(b, efs[k]))])
   IN
   [ admissible |-> /\ BandsOrderedAtCorners(ec, cor)
                    /\ \A b \in 1..NBands : \A k \in 1..N : NotOnDegenerateCorner(efs[k], cor[b]) /\ WellDefined(efs[k], cor[b], IF n < 0 THEN 0 ELSE n),
     (* per band: the weight of the listed group that contains the band (0 if none) is the mean of the exact weights over
        the degenerate group of the band; how the list is cut into groups is not compared *)
     per_band_weights |-> \A b \in 1..NBands : \A k \in 1..N :
                             Near(PerBand8(out, b, k), RFloor8(PerBandWeight(G, b, k)), tol + 1),
     whole_degenerate_groups |-> UnionsOfDegenerateGroups(out, ec, Rec.th, Rec.kr),
     disjoint |-> GroupsDisjoint(out),
     complete |-> n \in {-1, 0, 1} => \A k \in 1..N : Near(Total8(k), ExactTotal8(k), NBands * (tol + 1)) ]
Clauses == CASE Rec.fn = "tetra" -> TetraClauses
             [] Rec.fn = "paral" -> ParalClauses
             [] Rec.fn = "groups" -> GroupsClauses
(* the clause table is evaluated once per record (bound variable) *)
Report == \A C \in {Clauses} : \A n \in DOMAIN C : C[n] \/ PrintT(<<"BAD", i, n>>)
RecInit == i \in 1..Len(Recs)
RecSpec == RecInit /\ [][UNCHANGED i]_i
=============================================================================
