--------------------------- MODULE MC_TetraWeights ---------------------------
(* one tetrahedron: every multiset of corner energies from CORNERS, every derivative order / evaluation branch, the Fermi
   level scanning EFLO1-1..EFHI (one transition per step).  With CORNERS a set of even numbers the scan visits the corners
   themselves and the half-way points. *)
EXTENDS TetraWeights
CONSTANTS CORNERS, EFLO1, EFHI     \* EFLO1 = lowest Fermi level + 1 (cfg files cannot hold negative numbers)
VARIABLES e, ef, der, acc, admissible, welldef, w, closed, alt
EFLO == EFLO1 - 1
vars == <<e, ef, der, acc, admissible, welldef, w, closed, alt>>

SortedCorners == {s \in [1..4 -> CORNERS] : \A k \in 1..3 : s[k] <= s[k + 1]}
NA == <<0, 0>>      \* "not evaluated" marker (no rational has denominator 0)
W(ee, x, d, a) == IF NotOnDegenerateCorner(x, ee) THEN WeightsTetra(x, ee, d, a) ELSE NA
C(ee, x, d) == IF WellDefined(x, ee, d) THEN ClosedOcc(ee, x, d) ELSE NA
(* the other admissible one-sided value where the derivative jumps (der = 3 on a simple corner), else the code's value *)
A(ee, x, d, a) == IF NotOnDegenerateCorner(x, ee) THEN (IF OneSided(x, ee, d) THEN LeftConvention(x, ee, d) ELSE WeightsTetra(x, ee, d, a)) ELSE NA

(* accurate is only looked at for der = 0; for der > 0 the default call (accurate=True) is the polynomial branch *)
Init == /\ e \in SortedCorners /\ der \in 0..3 /\ acc \in BOOLEAN /\ (der > 0 => acc)
        /\ ef = EFLO
        /\ admissible = NotOnDegenerateCorner(ef, e) /\ welldef = WellDefined(ef, e, der)
        /\ w = W(e, ef, der, acc) /\ closed = C(e, ef, der) /\ alt = A(e, ef, der, acc)
Step == /\ ef < EFHI /\ ef' = ef + 1
        /\ admissible' = NotOnDegenerateCorner(ef', e) /\ welldef' = WellDefined(ef', e, der)
        /\ w' = W(e, ef', der, acc) /\ closed' = C(e, ef', der) /\ alt' = A(e, ef', der, acc)
        /\ UNCHANGED <<e, der, acc>>
Next == Step
Spec == Init /\ [][Next]_vars

(* ---- C14 ---- *)
(* the code's formulas give the exact volume fraction / its derivatives *)
CodeEqualsClosedForm == (admissible /\ welldef) => w = closed
(* the closed form written as the symmetric truncated-power sum *)
ClosedEqualsTruncPow == (Distinct4(e) /\ der = 0) => closed = TruncPow(e, ef)
UnitRange == der = 0 => ((welldef => InUnitRange(closed)) /\ (admissible => InUnitRange(w)))
DensityNonNegative == (der = 1 /\ welldef) => RLe(RZero, closed)
Monotone == (der = 0 /\ ef < EFHI /\ welldef /\ WellDefined(ef + 1, e, 0)) => RLe(closed, ClosedOcc(e, ef + 1, 0))
MonotoneCode == (der = 0 /\ ef < EFHI /\ admissible /\ NotOnDegenerateCorner(ef + 1, e)) => RLe(w, WeightsTetra(ef + 1, e, 0, acc))
Outside == (welldef => OutsideValue(e, ef, der, closed)) /\ (admissible => OutsideValue(e, ef, der, w))
(* all 24 orders are evaluated for every third Fermi level only (the replay on the real code permutes the corners at every level) *)
OrderIrrelevant == (admissible /\ (ef % 3) = 0) => PermutationInvariant(e, ef, der, acc)
(* der n is the n-th derivative of the cubic of the piece whose value (n = 0) is the occupation *)
DerivativeOfPieceCubic ==
   /\ welldef => closed = PieceCubicDer(PlainPiece(ef, e), e, der, ef)
   /\ admissible => w = PieceCubicDer(Piece(ef, e), e, der, ef)
BreakPoints == ef = EFLO => ContinuousAtCorners(e)       \* independent of the Fermi level: once per corner multiset
(* the one-sided alternative differs from the code's value exactly where the closed form is not defined *)
OneSidedOnlyAtJumps == admissible => ((alt # w) => ~welldef)
Nudge == NudgeIrrelevant(ef, e)
=============================================================================
