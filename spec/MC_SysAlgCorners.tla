-------------------------- MODULE MC_SysAlgCorners --------------------------
(* C33: one TLC state per case (system, FFT grid, K-point, cell shape). `ham` holds the matrices whose eigenvalues the code
   takes as corner energies (E_K_corners_parallel / E_K_corners_tetra, transcribed in SysAlg); the invariant says that they
   are the Hamiltonians at the corner k-points. DownFrom = "up" is the spin-orbit code before the repair (spin-down corner
   phases read from the spin-up R-vector list): TLC must reject it. *)
EXTENDS SysAlg
CONSTANTS KINDS,      \* subset of {"R", "SOC", "KP"}
          SHAPES,     \* subset of {"par", "tet"}
          NWS, MAXHOPS, MAXHOPS2, MAXSOC,
          KDIRS,      \* 2 or 3 lattice directions with R-vectors
          NGRIDS,     \* how many of the grid / tetrahedron choices
          DownFrom    \* "down" (specification) or "up" (code before the repair)
VARIABLES kind, shape, sys, nk, kp, h, verts, raises, ham
vars == <<kind, shape, sys, nk, kp, h, verts, raises, ham>>

RGEN == IF KDIRS = 2 THEN {<<1, 0, 0>>, <<0, 1, 0>>} ELSE {<<1, 0, 0>>, <<0, 1, 0>>, <<0, 0, 1>>}
AMPS == {<<1, 0>>, <<-1, 0>>, <<0, 1>>}
Cen(nw) == IF nw = 1 THEN {<<Z3>>} ELSE {<<Z3, <<3, 6, 0>>>>}
EpsC(nw) == IF nw = 1 THEN {<<1>>} ELSE {<<1, -1>>}
FirstN(seq, n) == {seq[j] : j \in 1..(IF n < Len(seq) THEN n ELSE Len(seq))}
Base(nw) == Catalogue(nw, Cen(nw), EpsC(nw), RGEN, AMPS, MAXHOPS, {{}})
(* spin-down partners: the R-set may be smaller, larger (an R-vector stored with zeros, a hop in another direction) or equal *)
Down(nw) == Catalogue(nw, Cen(nw), IF nw = 1 THEN {<<0>>} ELSE {<<0, 1>>}, RGEN, AMPS, MAXHOPS2, {{}, {<<1, 0, 0>>}, {<<1, 0, 0>>, <<0, 1, 0>>}})
(* without SOC terms: every pair; with SOC terms (on R-vectors of their own): spin-up with x-hops, spin-down on the same or on a larger R-set *)
Socs(nw) == {MakeSOC(u, d) : u \in Base(nw), d \in Down(nw)}
             \cup {MakeSOC(u, u) : u \in Base(nw)}                 \* one spin channel: SystemSOC(system_up); recognised by up = dn
             \cup UNION {{SetSOC(MakeSOC(u, u), sd.rsS, Nspin1D(sd.D), PauliRot(1, 1), 1) :
                            sd \in {x \in SocCatalogue(nw, MAXSOC) : x.rsS # {Z3}}} :
                         u \in {b \in Base(nw) : b.rs = {Z3, <<1, 0, 0>>, <<-1, 0, 0>>}}}
             \cup UNION {{SetSOC(MakeSOC(u, d), sd.rsS, sd.D, PauliRot(1, 1), 1) :
                            d \in {b \in Down(nw) : b.rs = u.rs \/ Cardinality(b.rs) = 5},
                            sd \in {x \in SocCatalogue(nw, MAXSOC) : x.rsS # {Z3}}} :
                         u \in {b \in Base(nw) : b.rs = {Z3, <<1, 0, 0>>, <<-1, 0, 0>>}}}
Systems(kd) == IF kd = "SOC" THEN UNION {Socs(nw) : nw \in NWS} ELSE UNION {Base(nw) : nw \in NWS}

(* NKFFT, Kp_fullBZ (quarters), half cell size (quarters); all corner k-points are on the quarter grid *)
ParGrids == << [nk |-> <<2, 1, 2>>, kp |-> <<1, 3, 1>>, h |-> <<1, 2, 1>>],       \* shifted K-point on a grid with several points first
               [nk |-> <<1, 1, 1>>, kp |-> <<0, 0, 0>>, h |-> <<1, 1, 2>>],
               [nk |-> <<2, 2, 1>>, kp |-> <<0, 0, 0>>, h |-> <<1, 1, 2>>],
               [nk |-> <<1, 1, 1>>, kp |-> <<2, 1, 0>>, h |-> <<1, 1, 1>>],
               [nk |-> <<4, 1, 1>>, kp |-> <<0, 2, 0>>, h |-> <<2, 1, 1>>] >>
(* vertices relative to the centroid (they sum to zero), quarters *)
TetGrids == << [nk |-> <<1, 2, 1>>, kp |-> <<2, 0, 3>>, v |-> <<<<1, 1, 1>>, <<-3, 1, 1>>, <<1, -3, 1>>, <<1, 1, -3>>>>],
               [nk |-> <<1, 1, 1>>, kp |-> <<1, 1, 1>>, v |-> <<<<-1, -1, -1>>, <<3, -1, -1>>, <<-1, 3, -1>>, <<-1, -1, 3>>>>],
               [nk |-> <<2, 2, 1>>, kp |-> <<0, 0, 0>>, v |-> <<<<-2, -1, 0>>, <<2, -1, 0>>, <<0, 2, 1>>, <<0, 0, -1>>>>] >>

HkOf(kd, s, k) == IF kd = "SOC" THEN HkSOC(s, k) ELSE Hk(s, k)
Raises(kd, s) == kd = "SOC" /\ ~SocCornerDefined(s, DownFrom)
ParHam(kd, s, g) ==
   LET kg == KGrid(g.nk) IN
   [i \in 1..Len(kg) |-> [ic \in Corners8 |->
       IF kd = "R" THEN CornerHamPar(s, g.kp, g.h, kg[i], ic)
       ELSE IF kd = "SOC" THEN SocCornerHamPar(s, g.kp, g.h, kg[i], ic, DownFrom)
       ELSE KPCornerHam(s, VAdd(kg[i], g.kp), <<(2 * ic[1] - 1) * g.h[1], (2 * ic[2] - 1) * g.h[2], (2 * ic[3] - 1) * g.h[3]>>)]]
TetHam(kd, s, g) ==
   LET kg == KGrid(g.nk) IN
   [i \in 1..Len(kg) |-> [iv \in 1..4 |->
       IF kd = "R" THEN CornerHamTet(s, g.kp, g.v[iv], kg[i])
       ELSE IF kd = "SOC" THEN SocCornerHamTet(s, g.kp, g.v[iv], kg[i], DownFrom)
       ELSE KPCornerHam(s, VAdd(kg[i], g.kp), g.v[iv])]]

Init == /\ kind \in KINDS /\ shape \in SHAPES /\ sys \in Systems(kind)
        /\ \E g \in (IF shape = "par" THEN FirstN(ParGrids, NGRIDS) ELSE FirstN(TetGrids, NGRIDS)) :
              /\ nk = g.nk /\ kp = g.kp
              /\ h = (IF shape = "par" THEN g.h ELSE Z3) /\ verts = (IF shape = "par" THEN <<>> ELSE g.v)
              /\ raises = Raises(kind, sys)
              /\ ham = (IF Raises(kind, sys) THEN <<>> ELSE IF shape = "par" THEN ParHam(kind, sys, g) ELSE TetHam(kind, sys, g))
Next == UNCHANGED vars
Spec == Init /\ [][Next]_vars

(* C33 *)
NeverRaises == ~raises
CornersAreDirect ==
   ~raises => \A i \in 1..Len(ham) :
      IF shape = "par" THEN \A ic \in Corners8 : ham[i][ic] = HkOf(kind, sys, CornerK(KGrid(nk)[i], kp, h, ic))
      ELSE \A iv \in 1..4 : ham[i][iv] = HkOf(kind, sys, VAdd(VAdd(KGrid(nk)[i], kp), verts[iv]))
CornersHermitian == ~raises => \A i \in 1..Len(ham) : \A c \in DOMAIN ham[i] : IsHermitian(ham[i][c])
=============================================================================
