---------------------------- MODULE MC_TetraGroups ----------------------------
(* TetraWeights.weights_all_band_groups at one k-point (tetrahedron K-point: 4 corners + centre per band):
   every assignment of band energies from VALS ordered band-wise at the centre and at every corner, every uniform Fermi
   grid efs[i] = a + (i-1) d (a+1 in STARTS1, d in STEPS, NEF levels), degeneracy thresholds THS, Kramers flag.
   Sea (der 0), anti-sea (der -1) and surface (der 1) group weights are computed by the transcription and compared with
   the per-band exact occupations. *)
EXTENDS TetraWeights
CONSTANTS NB, VALS, STARTS1, STEPS, NEF, THS
VARIABLES ec, cor, efs, th, kr, G0, Gm, G1, pc,
          X0, X1          \* exact occupation / density of band b at level i (computed once per state: TLC re-evaluates definitions at every use)
vars == <<ec, cor, efs, th, kr, G0, Gm, G1, pc, X0, X1>>

BandTables == {bt \in [1..NB -> [1..5 -> VALS]] : \A b \in 1..(NB - 1) : \A i \in 1..5 : bt[b][i] <= bt[b + 1][i]}
Grids == {[i \in 1..NEF |-> (a1 - 1) + (i - 1) * d] : a1 \in STARTS1, d \in STEPS}
(* named exclusion: no Fermi level on a coincident corner of any band *)
AllAdmissible(cc, ee) == \A b \in 1..NB : \A i \in 1..Len(ee) : NotOnDegenerateCorner(ee[i], cc[b])

Occ0(cc, b, x) == WeightsTetra(x, cc[b], 0, TRUE)
Groups(e0, cc, ee, d, t, k) ==
   AllBandGroups(LAMBDA b, x : CASE d = 0 -> Occ0(cc, b, x)
                                  [] d = -1 -> RSub(ROne, Occ0(cc, b, x))
                                  [] OTHER -> WeightsTetra(x, cc[b], d, TRUE),
                 e0, cc, ee, d, t, k)
(* TLC computes initial states in one thread: Init only chooses the input, the action Build (shared by the workers) evaluates
   the transcription; the properties are stated for the built states *)
Init == \E bt \in BandTables :
        /\ ec = [b \in 1..NB |-> bt[b][1]]
        /\ cor = [b \in 1..NB |-> <<bt[b][2], bt[b][3], bt[b][4], bt[b][5]>>]
        /\ efs \in Grids /\ th \in THS /\ kr \in BOOLEAN
        /\ (kr => NB % 2 = 0)
        /\ AllAdmissible(cor, efs)
        /\ G0 = <<>> /\ Gm = <<>> /\ G1 = <<>> /\ pc = "input" /\ X0 = <<>> /\ X1 = <<>>
Build == /\ pc = "input" /\ pc' = "done"
         /\ G0' = Groups(ec, cor, efs, 0, th, kr)
         /\ Gm' = Groups(ec, cor, efs, -1, th, kr)
         /\ G1' = Groups(ec, cor, efs, 1, th, kr)
         /\ X0' = [b \in 1..NB |-> [i \in 1..NEF |-> ClosedOcc(cor[b], efs[i], 0)]]
         /\ X1' = [b \in 1..NB |-> [i \in 1..NEF |-> ClosedOcc(cor[b], efs[i], 1)]]
         /\ UNCHANGED <<ec, cor, efs, th, kr>>
Next == Build
Spec == Init /\ [][Next]_vars
Built == pc = "done"

Exact(n, b, i) == CASE n = 0 -> X0[b][i] [] n = 1 -> X1[b][i] [] n = -1 -> RSub(ROne, X0[b][i])
ExactTotal(n, i) == RSumSeq([b \in 1..NB |-> Exact(n, b, i)])
AllCorners == UNION {{ec[b]} \cup {cor[b][i] : i \in 1..4} : b \in 1..NB}
Assumed == BandsOrderedAtCorners(ec, cor)
GroupsAreDisjoint == Built => GroupsDisjoint(G0) /\ GroupsDisjoint(Gm) /\ GroupsDisjoint(G1)
(* with the identity formula (trace over a group = its size) the sea result is the sum of the exact band occupations *)
SeaComplete == Built => \A i \in 1..NEF : GroupsTotal(G0, i) = ExactTotal(0, i)
AntiSeaComplete == Built => \A i \in 1..NEF : GroupsTotal(Gm, i) = RSub(RI(NB), ExactTotal(0, i))
SeaPlusAntiSea == Built => \A i \in 1..NEF : RAdd(GroupsTotal(G0, i), GroupsTotal(Gm, i)) = RI(NB)
SurfaceComplete == Built => \A i \in 1..NEF : GroupsTotal(G1, i) = ExactTotal(1, i)
(* per band: the weight a calculator applies to band b is the mean of the exact weights over the degenerate group of b
   (sea: occupation, anti-sea: 1 - occupation, surface: density), whether the band is listed in a group of the scan range
   or covered by the completion; listed groups are unions of whole degenerate groups *)
DegGroupOf(b) == LET B == Borders(ec, th, kr) IN B[CHOOSE k \in 1..Len(B) : B[k][1] < b /\ b <= B[k][2]]
ExactMean(n, b, i) ==
   LET g == DegGroupOf(b) IN
   RDivI(RSumSeq([k \in 1..(g[2] - g[1]) |-> Exact(n, g[1] + k, i)]), g[2] - g[1])
PerBandExact == Built => \A b \in 1..NB : \A i \in 1..NEF :
   /\ PerBandWeight(G0, b, i) = ExactMean(0, b, i)
   /\ PerBandWeight(Gm, b, i) = ExactMean(-1, b, i)
   /\ PerBandWeight(G1, b, i) = ExactMean(1, b, i)
WholeDegenerateGroups == Built => UnionsOfDegenerateGroups(G0, ec, th, kr) /\ UnionsOfDegenerateGroups(Gm, ec, th, kr) /\ UnionsOfDegenerateGroups(G1, ec, th, kr)
CumDosLimits == Built => \A i \in 1..NEF : ((efs[i] < Min(AllCorners) => GroupsTotal(G0, i) = RZero)
                                           /\ (efs[i] > Max(AllCorners) => GroupsTotal(G0, i) = RI(NB)))
CumDosMonotone == Built => \A i \in 1..(NEF - 1) : RLe(GroupsTotal(G0, i), GroupsTotal(G0, i + 1))
=============================================================================
