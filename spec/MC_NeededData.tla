--------------------------- MODULE MC_NeededData ---------------------------
(* every flag assignment (2^12) through the transcription of NeededData.__init__, and get_parameters on key sets that
   lack / hold up to two keys of the universe.  Init enumerates the inputs, Call evaluates; every "done" state is one
   test of the real class. *)
EXTENDS NeededData
VARIABLES kind, fl, keys, pc, mats, files, rest, sel
vars == <<kind, fl, keys, pc, mats, files, rest, sel>>
Foreign == {"seedname", "use_ws"}              \* keys that belong to System_R
Universe == NDKeys \cup Foreign
Small == {D \in SUBSET Universe : Cardinality(D) <= 2}
KeySets == Small \cup {Universe \ D : D \in Small}
Init == /\ \/ kind = "init" /\ fl \in [Flags -> BOOLEAN] /\ keys = {}
           \/ kind = "split" /\ fl = Defaults /\ keys \in KeySets
        /\ pc = "in" /\ mats = {} /\ files = {} /\ rest = {} /\ sel = {}
Call == /\ pc = "in" /\ pc' = "done"
        /\ IF kind = "init" THEN mats' = Matrices(fl) /\ files' = Files(fl) /\ rest' = {} /\ sel' = {}
           ELSE mats' = {} /\ files' = {} /\ rest' = GetParameters(keys).rest /\ sel' = GetParameters(keys).selected
        /\ UNCHANGED <<kind, fl, keys>>
Next == Call
Spec == Init /\ [][Next]_vars

DoneInit == pc = "done" /\ kind = "init"
TypeOK == mats \subseteq AllMatrices /\ files \subseteq AllFiles
Ham == DoneInit => LawHam(mats)
Promises == DoneInit => LawPromise(fl, mats) /\ LawSpinInternal(fl, mats)
Internal == DoneInit => LawInternal(fl, mats, files)
Minimal == DoneInit => LawMinimal(fl, mats)
FilesCover == DoneInit => LawFilesCover(mats, files)
FilesMinimal == DoneInit => LawFilesMinimal(fl, mats, files)
Chk == DoneInit => LawChk(fl, files)
Keep == DoneInit => LawKeep(fl, mats)
Known == DoneInit => LawKnown(mats)
(* the files are exactly the union over the needed matrices (+ chk) *)
FilesExact == DoneInit => files = UNION {NeededFiles(m) : m \in mats} \cup (IF fl["chk"] THEN {"chk"} ELSE {})
(* switching a flag on never removes a needed matrix (up to FF standing in for OO and GG) nor a needed file;
   force_internal_terms_only is the one flag that restricts *)
Up(f) == [fl EXCEPT ![f] = TRUE]
MonotoneMatrices == DoneInit => \A f \in Flags \ {Fito} : ~fl[f] => Covered(mats) \subseteq Covered(Matrices(Up(f)))
MonotoneStrict == DoneInit => \A f \in Flags \ {Fito, "FF", "OOGG_to_FF"} : ~fl[f] => mats \subseteq Matrices(Up(f))
MonotoneFiles == DoneInit => \A f \in Flags \ {Fito} : ~fl[f] => files \subseteq Files(Up(f))
InternalRestricts == DoneInit => (~fl[Fito] => (Matrices(Up(Fito)) \subseteq mats /\ Files(Up(Fito)) \subseteq files))
(* the flags that only steer the OO/GG/FF representation never change what is covered *)
RepresentationOnly == DoneInit => \A f \in {"keepOOGG", "OOGG_to_FF"} :
                         Covered(Matrices([fl EXCEPT ![f] = ~fl[f]])) = Covered(mats) \/ (f = "OOGG_to_FF" /\ fl["OSD"] /\ ~fl[Fito])
(* get_parameters: the two dictionaries cover the input, overlap only in force_internal_terms_only, nothing is invented *)
Split == (pc = "done" /\ kind = "split") =>
            /\ rest \cup sel = keys
            /\ rest \cap sel = keys \cap {Fito}
            /\ sel = keys \cap Flags
            /\ Foreign \cap keys \subseteq rest
=============================================================================
