--------------------------- MODULE MC_FactorKernel ---------------------------
(* Bounded model for C03: every group of the catalogue GROUPS, every division grid div and FFT grid fft with entries in
   DIVS / FFTS (ZDIVS / ZFFTS along z; both symmetric under the group, as Grid() asserts) and at most MAXTOT dense points, with and without
   symmetry reduction.  The symmetry reduction of Grid.get_K_list runs as its loop: one action per visited K-point.
   A finished state (pc = "done") carries the K-list and the k-sets; each finished state is replayed on the real
   Grid / get_K_list / Data_K.kpoints_all. *)
EXTENDS FactorKernel

CONSTANTS GROUPS,      \* set of catalogue names
          DIVS, FFTS,  \* allowed entries of NKdiv / NKFFT along x and y
          ZDIVS, ZFFTS, \* allowed entries along z
          MAXTOT,      \* bound on the number of dense grid points
          KpDivides,   \* TRUE: Kp_fullBZ = K / NKFFT (the code); FALSE: a wrong K-shift (sensitivity)
          AbsorbAdds   \* TRUE: absorb() adds the factor of the absorbed point (the code); FALSE: forgets it (sensitivity)

VARIABLES grp, gset, div, fft, sym, pc, i, w, klist, ksets
vars == <<grp, gset, div, fft, sym, pc, i, w, klist, ksets>>

(* gset: the elements of the group, computed once per initial state (PointGroup.symmetries) *)
G == gset
Vecs(S, Z) == {<<a, b, c>> : a \in S, b \in S, c \in Z}

Init == /\ grp \in GROUPS
        /\ gset = GroupOf(grp)
        /\ div \in Vecs(DIVS, ZDIVS) /\ fft \in Vecs(FFTS, ZFFTS)
        /\ Prod3(Dense(div, fft)) <= MAXTOT
        /\ SymmetricGrid(div, gset) /\ SymmetricGrid(fft, gset)
        /\ sym \in BOOLEAN
        /\ pc = (IF sym THEN "scan" ELSE "flatten")
        /\ i = 0
        /\ w = FullWeights(div)
        /\ klist = <<>> /\ ksets = <<>>

(* for z: for y: for x: KP = K_list[x][y][z]; if KP is not None: absorb the rest of the star *)
Absorb == /\ pc = "scan" /\ i < Prod3(div) /\ w[ScanPoint(i, div)] > 0
          /\ w' = (IF AbsorbAdds THEN ScanStep(w, ScanPoint(i, div), div, G)
                   ELSE LET p == ScanPoint(i, div) st == Star(p, div, G) \ {p}
                        IN [k \in DOMAIN w |-> IF k \in st THEN 0 ELSE w[k]])
          /\ i' = i + 1
          /\ UNCHANGED <<grp, gset, div, fft, sym, pc, klist, ksets>>
SkipNone == /\ pc = "scan" /\ i < Prod3(div) /\ w[ScanPoint(i, div)] = 0
            /\ i' = i + 1
            /\ UNCHANGED <<grp, gset, div, fft, sym, pc, w, klist, ksets>>
EndScan == /\ pc = "scan" /\ i = Prod3(div)
           /\ pc' = "flatten"
           /\ UNCHANGED <<grp, gset, div, fft, sym, i, w, klist, ksets>>
(* K_list = [K for Kyz in K_list for Kz in Kyz for K in Kz if K is not None]; then one Data_K per K-point *)
Flatten == /\ pc = "flatten"
           /\ klist' = KListOf(w, div)
           /\ ksets' = KSetsOf(klist', div, fft, KpDivides)
           /\ pc' = "done"
           /\ UNCHANGED <<grp, gset, div, fft, sym, i, w>>
Next == Absorb \/ SkipNone \/ EndScan \/ Flatten
Spec == Init /\ [][Next]_vars

Done == pc = "done"
(* the loop computes what the functional form says (ties MC states to the operators used for record validation) *)
LoopIsFunctional == Done => klist = KList(div, G, sym)
(* C03 *)
InvDenseSymmetric == SymmetricGrid(Dense(div, fft), G)
InvKSets      == Done => (KSetsWellFormed(ksets, div, fft) /\ NoOverlap(ksets, div, fft))
InvMultiset   == (Done /\ ~sym) => MultisetOnce(klist, ksets, div, fft)
InvWeightSum  == Done => WeightSum(klist, div)
InvOrbitReps  == (Done /\ sym) => OrbitReps(klist, div, G)
InvUniform    == Done => UniformCover(klist, ksets, div, fft, G)
InvOrbit      == Done => OrbitContent(klist, ksets, div, fft, G)
(* the weights during the scan never lose mass *)
InvScanMass   == pc = "scan" => FoldSet(LAMBDA p, acc : acc + w[p], 0, GridPts(div)) = Prod3(div)
=============================================================================
