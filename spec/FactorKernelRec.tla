--------------------------- MODULE FactorKernelRec ---------------------------
(* code -> spec for C03: records of the real Grid / get_K_list / Data_K.kpoints_all (fn = "klist"), of real run()s with
   the one-hot synthetic calculator (fn = "run") and of determineNK calls (fn = "nk"); one TLC state per record, every
   clause of FactorKernel is evaluated on the recorded values. *)
EXTENDS FactorKernel, Json, IOUtils, TLCExt
VARIABLE i
Recs == JsonDeserialize(IOEnv.TRACE_FILE).recs
Rec == Recs[i]
T3(s) == <<s[1], s[2], s[3]>>
(* recorded K-list [[x,y,z,w],...] and k-sets [[[p1,p2,p3],...],...] as the specification's values *)
RecKList == [j \in 1..Len(Rec.klist) |-> <<<<Rec.klist[j][1], Rec.klist[j][2], Rec.klist[j][3]>>, Rec.klist[j][4]>>]
RecKSets == [j \in 1..Len(Rec.ksets) |-> [m \in 1..Len(Rec.ksets[j]) |-> T3(Rec.ksets[j][m])]]
RecGroup == {Sym(<<T3(g.A[1]), T3(g.A[2]), T3(g.A[3])>>, g.inv, g.tr) : g \in {Rec.group[k] : k \in 1..Len(Rec.group)}}

(* clauses are independent of the order of the K-list / k-sets and of which member of an orbit represents it *)
KListClauses ==
   LET div == T3(Rec.div)  fft == T3(Rec.fft)  G == RecGroup  kl == RecKList  ks == RecKSets IN
   [ harness_group_is_catalogue |-> G = GroupOf(Rec.grp),     \* binding of the harness (MachineryError when it fails)
     grids_symmetric    |-> SymmetricGrid(div, G) /\ SymmetricGrid(fft, G),
     klist_valid        |-> IF Rec.sym THEN ValidReduction(kl, div, G) ELSE ValidFull(kl, div),
     ksets_valid        |-> KSetsValid(kl, ks, div, fft),
     ksets_well_formed  |-> KSetsWellFormed(ks, div, fft),
     multiset_once      |-> Rec.sym \/ MultisetOnce(kl, ks, div, fft),
     no_overlap         |-> NoOverlap(ks, div, fft),
     weight_sum         |-> WeightSum(kl, div),
     uniform_cover      |-> UniformCover(kl, ks, div, fft, G),
     orbit_content      |-> OrbitContent(kl, ks, div, fft, G) ]

(* run() with the one-hot calculator: Rec.coef[p] (flat index, x outermost) = integrated coefficient of the dense point p
   in units of 1/(prod(div)*prod(fft)); Rec.orb[o] = integrated weight of the o-th orbit (Rec.orbits lists its points) *)
FlatOf(p, N) == FlatIndex(p, N) + 1
RunClauses ==
   LET div == T3(Rec.div)  fft == T3(Rec.fft)  G == GroupOf(Rec.grp)  N == Dense(div, fft)
       got == [p \in GridPts(N) |-> Rec.coef[FlatOf(p, N)]]
   IN
   [ length           |-> Len(Rec.coef) = Prod3(N),
     full_is_uniform  |-> Rec.sym \/ \A p \in GridPts(N) : got[p] = 1,
     nonnegative      |-> \A p \in GridPts(N) : got[p] >= 0,
     total_weight     |-> SumSetOf(GridPts(N), LAMBDA p : got[p]) = Prod3(N),
     symmetrised_uniform |-> UniformMeasure(got, N, G),
     orbit_measure    |-> OrbitMeasure(got, N, G),
     orbit_weights    |->
        \A o \in 1..Len(Rec.orbits) :
           LET O == {T3(Rec.orbits[o][m]) : m \in 1..Len(Rec.orbits[o])} IN
           /\ O \in Orbits(N, G)
           /\ Rec.orb[o] = Cardinality(O),
     orbits_complete  |-> Len(Rec.orbits) = Cardinality(Orbits(N, G)) ]

Opt(v) == IF Len(v) = 0 THEN None ELSE T3(v)
(* determineNK.  Recorded: kind = "ok" | "refused" (any exception), div, fft.  Demanded: an input the specification accepts is
   accepted; explicit arguments give the documented grid up to the rounding rule (ExplicitValueOK); what autoNK picks is a
   heuristic - only its post-conditions are demanded.  Not demanded: the exception class, warnings, that an invalid input is refused. *)
NKClauses ==
   LET G == GroupOf(Rec.grp)
       per == <<Rec.periodic[1], Rec.periodic[2], Rec.periodic[3]>>
       r == DetermineNK(per, Opt(Rec.NKdiv), Opt(Rec.NKFFT), Opt(Rec.NK), T3(Rec.rec), G)
       ok == r.kind \in {"ok", "auto"}
       accepted == Rec.kind = "ok"
       compat == \A g \in G : \A a \in 1..3, b \in 1..3 : g.A[a][b] # 0 => per[a] = per[b]
   IN
   [ accepts_valid |-> ok => accepted,
     value    |-> (accepted /\ r.kind = "ok") => ExplicitValueOK(per, Opt(Rec.NKdiv), Opt(Rec.NKFFT), Opt(Rec.NK), T3(Rec.div), T3(Rec.fft)),
     post     |-> (accepted /\ ok) => ( /\ \A k \in 1..3 : Rec.div[k] >= 1 /\ Rec.fft[k] >= 1 /\ (per[k] \/ (Rec.div[k] = 1 /\ Rec.fft[k] = 1))
                                        /\ (~compat \/ (SymmetricGrid(T3(Rec.div), G) /\ SymmetricGrid(T3(Rec.fft), G))) ) ]

Clauses == CASE Rec.fn = "klist" -> KListClauses
             [] Rec.fn = "run" -> RunClauses
             [] Rec.fn = "nk" -> NKClauses
Report == \A n \in DOMAIN Clauses : Clauses[n] \/ PrintT(<<"BAD", i, n>>)
RecInit == i \in 1..Len(Recs)
RecSpec == RecInit /\ [][UNCHANGED i]_i
=============================================================================
