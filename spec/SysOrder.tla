------------------------------- MODULE SysOrder -------------------------------
(* X02: orbital / spin ordering, spin matrices, sparse round trips and the index maps of the R-vector list
   (wannierberri/system/system_R.py, system/system_sparse.py, fourier/rvectors.py).

   Unlike SysAlg (which looks at a system as a function R -> matrix), this module keeps the things the index maps talk
   about: the R-vector LIST with its order (Rvectors.iRvec), the per-function shift lists of the Rvectors object and the
   arrays indexed by the position in that list.

   System  [nw, rv, cen, sl, sr, mats]
       nw     number of Wannier functions
       rv     the list of R-vectors, rv[r] = <<r1, r2, r3>> (position r is the code's iR + 1)
       cen    centres in reduced coordinates, cen[a] = <<c1, c2, c3>> in quarters of the lattice vectors
       sl, sr Rvectors.shifts_left_red / shifts_right_red (quarters)
       mats   key -> tensor, tensor[r][a][b] = sequence of NComp(key) Gaussian integers ('Ham': 1 component, 'SS': 3)
   Indices inside operators are 1-based; everything that is an index VALUE of the code (lst_R, maps, pairs, iR) is
   0-based as in the code.  k-points are given in quarters of the reciprocal lattice vectors: every Fourier phase is a
   power of i and H(k) a matrix of Gaussian integers (SysNum).

   Switches: the value named first is the code; the other one is a plausible wrong implementation that the bounded models
   must reject (sensitivity self-tests). *)
EXTENDS SysNum

CONSTANTS B2IBackward,     \* "inverse": spin_block2interlace(backward=True) undoes the forward map | "same": it applies it again
          ReorderShifts,   \* TRUE: Rvectors.reorder permutes the shifts with the functions | FALSE: shifts are left alone
          SparseNorm,      \* "max": get_sparse keeps an entry whose largest Cartesian component reaches min_value | "first": looks at the first component only
          PauliY,          \* "std": sigma_y = [[0, -i], [i, 0]] | "flipped": [[0, i], [-i, 0]]
          MergeMapInto     \* "merged": merge_Rvectors maps into the merged list | "own": into the list itself (identity maps)

Z3 == <<0, 0, 0>>
VNeg(v) == <<-v[1], -v[2], -v[3]>>
Dot(u, v) == u[1] * v[1] + u[2] * v[2] + u[3] * v[3]
LexLess(u, v) == \/ u[1] < v[1] \/ (u[1] = v[1] /\ u[2] < v[2]) \/ (u[1] = v[1] /\ u[2] = v[2] /\ u[3] < v[3])
SetOf(q) == {q[i] : i \in 1..Len(q)}
NoDup(q) == Cardinality(SetOf(q)) = Len(q)
Has(q, x) == \E i \in 1..Len(q) : q[i] = x
FirstAt(q, x) == CHOOSE i \in 1..Len(q) : q[i] = x /\ \A j \in 1..(i - 1) : q[j] # x
LastAt(q, x) == CHOOSE i \in 1..Len(q) : q[i] = x /\ \A j \in (i + 1)..Len(q) : q[j] # x
(* a set of vectors as a sequence in lexicographic order (the specification's choice wherever the code uses a Python set) *)
SortedSeq(S) == [m \in 1..Cardinality(S) |-> CHOOSE x \in S : Cardinality({y \in S : LexLess(y, x)}) = m - 1]
Iota(n) == [i \in 1..n |-> i]
Ok(v) == [err |-> "", val |-> v]
Err(c) == [err |-> c, val |-> <<>>]
IsPerm(p, n) == Len(p) = n /\ {p[a] : a \in 1..n} = 1..n

(* ------------------------------------------------------------------ tensors *)
NComp(key) == IF key = "Ham" THEN 1 ELSE 3
ZeroE(nc) == [c \in 1..nc |-> GZ]
Tensor(nr, nw, f(_, _, _)) == TLCEval([r \in 1..nr |-> Mat(nw, LAMBDA a, b : f(r, a, b))])
ZeroTensor(nr, nw, nc) == Tensor(nr, nw, LAMBDA r, a, b : ZeroE(nc))
MatZeroE(nw, nc) == Mat(nw, LAMBDA a, b : ZeroE(nc))
PermuteTensor(T, p) == Tensor(Len(T), Len(p), LAMBDA r, a, b : T[r][p[a]][p[b]])
Norm2(z) == z[1] * z[1] + z[2] * z[2]
EntryNonzero(e) == \E c \in 1..Len(e) : e[c] # GZ

(* ------------------------------------------------------------------ Rvectors: index maps *)
(* iR(R): list.index - the first occurrence, ValueError when absent *)
RvIR(rv, R) == IF Has(rv, R) THEN Ok(FirstAt(rv, R) - 1) ELSE Err("ValueError")
RvIR0(rv) == RvIR(rv, Z3)
(* index_R: {tuple(R): i for i, R in enumerate(iRvec)} - for a repeated R the last occurrence *)
RvIndexR(rv) == [R \in SetOf(rv) |-> LastAt(rv, R) - 1]
(* reverseR: (lst_R, lst_mR) - the positions that have a partner -R in the list, ascending, and the positions of the
   partners; more than one partner is a RuntimeError; positions without partner are only warned about *)
Partners(rv, i) == {j \in 1..Len(rv) : rv[j] = VNeg(rv[i])}
PartnerOf(rv, i) == IF Partners(rv, i) = {} THEN 0 ELSE CHOOSE j \in Partners(rv, i) : TRUE
RvReverseR(rv) ==
   IF \E i \in 1..Len(rv) : Cardinality(Partners(rv, i)) > 1 THEN [err |-> "RuntimeError", lstR |-> <<>>, lstmR |-> <<>>]
   ELSE LET has == SelectSeq(Iota(Len(rv)), LAMBDA i : Partners(rv, i) # {})
        IN [err |-> "", lstR |-> [n \in 1..Len(has) |-> has[n] - 1], lstmR |-> [n \in 1..Len(has) |-> PartnerOf(rv, has[n]) - 1]]
NotFound(rv) == {i - 1 : i \in {j \in 1..Len(rv) : Partners(rv, j) = {}}}
(* conj_XX_R: X_new[lst_R] = X[lst_mR], then swapaxes(1, 2).conj(); zero where -R is not in the list *)
RvConjXXR(rv, X, nw, nc) ==
   Tensor(Len(rv), nw, LAMBDA r, a, b : LET m == PartnerOf(rv, r) IN
                                        IF m = 0 THEN ZeroE(nc) ELSE [c \in 1..nc |-> GConj(X[m][b][a][c])])
(* the clauses any (lst_R, lst_mR) has to satisfy, whatever the order of the pairs: the listed positions negate each other,
   every position that has a partner is listed exactly once, and the map position -> partner is an involution *)
ReverseRValid(rv, lstR, lstmR) ==
   /\ Len(lstR) = Len(lstmR)
   /\ \A n \in 1..Len(lstR) : lstR[n] + 1 \in 1..Len(rv) /\ lstmR[n] + 1 \in 1..Len(rv) /\ rv[lstR[n] + 1] = VNeg(rv[lstmR[n] + 1])
   /\ NoDup(lstR)
   /\ SetOf(lstR) = {i - 1 : i \in {j \in 1..Len(rv) : Partners(rv, j) # {}}}
   /\ \A n \in 1..Len(lstR) : \E m \in 1..Len(lstR) : lstR[m] = lstmR[n] /\ lstmR[m] = lstR[n]

(* exclude_zeros(XX_R_dic, tolerance): an R-vector stays iff some matrix has an element with |x| > tolerance there; an empty
   dictionary leaves everything as it is.  The tolerance is given as T2 with the meaning |x| > tol  <=>  2 |x|^2 > T2
   (T2 = 0: the default 1e-8 on integer data; T2 odd: never a tie) *)
AboveTol(e, T2) == \E c \in 1..Len(e) : 2 * Norm2(e[c]) > T2
BlockAbove(M, T2) == \E a \in 1..Len(M) : \E b \in 1..Len(M) : AboveTol(M[a][b], T2)
KeptPositions(rv, mats, T2) == SelectSeq(Iota(Len(rv)), LAMBDA r : \E k \in DOMAIN mats : BlockAbove(mats[k][r], T2))
RvExcludeZeros(rv, mats, T2) ==
   IF DOMAIN mats = {} THEN [rv |-> rv, mats |-> mats]
   ELSE LET keep == KeptPositions(rv, mats, T2)
        IN [rv |-> [n \in 1..Len(keep) |-> rv[keep[n]]],
            mats |-> [k \in DOMAIN mats |-> [n \in 1..Len(keep) |-> mats[k][keep[n]]]]]

(* Rvectors.reorder(order_left, order_right) (0-based orders): the SHIFTS are re-ordered (the R-list is not touched);
   a missing order is the other one; with no order at all nothing is to be re-ordered (identity) *)
NoOrder == <<>>
TakeBy(q, order) == [a \in 1..Len(order) |-> q[order[a] + 1]]
RvReorder(sl, sr, ol, orr) ==
   LET l == IF ol = NoOrder THEN orr ELSE ol
       r == IF orr = NoOrder THEN ol ELSE orr
   IN IF ol = NoOrder /\ orr = NoOrder THEN [sl |-> sl, sr |-> sr]
      ELSE [sl |-> TakeBy(sl, l), sr |-> TakeBy(sr, r)]
(* Rvectors.double_spin: new[i::2] = old for i in 0, 1 *)
RvDoubleSpin(q) == [x \in 1..(2 * Len(q)) |-> q[(x + 1) \div 2]]

(* merge_Rvectors(list of R-lists): the union (here in lexicographic order; the code uses a Python set) and for every
   input list the positions of its vectors in the merged list *)
MergeRvectors(lists) ==
   LET merged == SortedSeq(UNION {SetOf(lists[i]) : i \in 1..Len(lists)})
   IN [rv |-> merged,
       maps |-> [i \in 1..Len(lists) |-> [j \in 1..Len(lists[i]) |->
                    IF MergeMapInto = "merged" THEN FirstAt(merged, lists[i][j]) - 1 ELSE j - 1]]]
(* what any answer (merged list, maps) has to satisfy: no vector twice, nothing but the union, every map sends a position
   to a position holding the same vector (hence maps of duplicate-free lists are injective) *)
MergeValid(lists, merged, maps) ==
   /\ NoDup(merged)
   /\ SetOf(merged) = UNION {SetOf(lists[i]) : i \in 1..Len(lists)}
   /\ Len(maps) = Len(lists)
   /\ \A i \in 1..Len(lists) : /\ Len(maps[i]) = Len(lists[i])
                               /\ \A j \in 1..Len(lists[i]) : maps[i][j] + 1 \in 1..Len(merged) /\ merged[maps[i][j] + 1] = lists[i][j]
MapsInjective(lists, maps) == \A i \in 1..Len(lists) : NoDup(lists[i]) => NoDup(maps[i])
(* merging in two steps: position j of list i goes to the same vector either way *)
MergeComposes(l1, l2, l3) ==
   LET m12 == MergeRvectors(<<l1, l2>>)
       m12_3 == MergeRvectors(<<m12.rv, l3>>)
       m123 == MergeRvectors(<<l1, l2, l3>>)
   IN /\ SetOf(m12_3.rv) = SetOf(m123.rv)
      /\ \A j \in 1..Len(l1) : m12_3.rv[m12_3.maps[1][m12.maps[1][j] + 1] + 1] = m123.rv[m123.maps[1][j] + 1]
      /\ \A j \in 1..Len(l2) : m12_3.rv[m12_3.maps[1][m12.maps[2][j] + 1] + 1] = m123.rv[m123.maps[2][j] + 1]

(* ------------------------------------------------------------------ System_R: ordering of the Wannier functions *)
Keys(s) == DOMAIN s.mats
NR(s) == Len(s.rv)
(* val[:, :, mapping][:, mapping, :] for every matrix, the centres, Rvectors.reorder(mapping); p[a] = mapping[a - 1] + 1 *)
ReorderBy(s, p) ==
   LET p0 == [a \in 1..Len(p) |-> p[a] - 1]
       sh == IF ReorderShifts THEN RvReorder(s.sl, s.sr, p0, NoOrder) ELSE [sl |-> s.sl, sr |-> s.sr]
   IN [s EXCEPT !.cen = [a \in 1..s.nw |-> s.cen[p[a]]],
                !.mats = [k \in Keys(s) |-> PermuteTensor(s.mats[k], p)],
                !.sl = sh.sl, !.sr = sh.sr]
(* the mapping of spin_block2interlace: forward mapping[::2] = 0..n/2-1, mapping[1::2] = n/2..n-1;
   backward mapping[:n/2] = 0, 2, .., mapping[n/2:] = 1, 3, .. *)
B2IMapping(nw, backward) ==
   LET h == nw \div 2 IN
   IF backward THEN [a \in 1..nw |-> IF a <= h THEN 2 * a - 1 ELSE 2 * (a - h)]
   ELSE [a \in 1..nw |-> IF a % 2 = 1 THEN (a + 1) \div 2 ELSE (a \div 2) + h]
SpinBlock2Interlace(s, backward) ==
   ReorderBy(s, B2IMapping(s.nw, IF B2IBackward = "same" THEN FALSE ELSE backward))
SpinInterlace2Block(s, backward) == SpinBlock2Interlace(s, ~backward)
Reorder(s, p) == ReorderBy(s, p)
(* double_spin: XX_new[:, i::2, i::2] = XX, centres and shifts doubled, then set_spin_pairs([(2i, 2i+1)]) *)
DoubleTensor(T, nw) ==
   Tensor(Len(T), 2 * nw, LAMBDA r, x, y : IF (x - 1) % 2 = (y - 1) % 2 THEN T[r][(x + 1) \div 2][(y + 1) \div 2]
                                           ELSE ZeroE(Len(T[r][1][1])))

(* ------------------------------------------------------------------ spin matrices *)
(* pauli_xyz[s][t] = <<x, y, z>> components *)
PauliXYZ ==
   LET y12 == IF PauliY = "std" THEN <<0, -1>> ELSE <<0, 1>>
       y21 == IF PauliY = "std" THEN <<0, 1>> ELSE <<0, -1>>
   IN << << <<GZ, GZ, G1>>, <<G1, y12, GZ>> >>,
         << <<G1, y21, GZ>>, <<GZ, GZ, <<-1, 0>>>> >> >>
PairsWellFormed(nw, pairs) ==
   LET all == [n \in 1..(2 * Len(pairs)) |-> pairs[(n + 1) \div 2][IF n % 2 = 1 THEN 1 ELSE 2]]
   IN (\A n \in 1..Len(all) : all[n] \in 0..(nw - 1)) /\ NoDup(all)
(* the (nw x nw x 3) array SS_R0 of set_spin_pairs; pairs = <<up, down>> 0-based *)
SpinPairsR0(nw, pairs) ==
   Mat(nw, LAMBDA a, b :
      IF \E n \in 1..Len(pairs) : {a - 1, b - 1} \subseteq {pairs[n][1], pairs[n][2]}
      THEN LET n == CHOOSE m \in 1..Len(pairs) : {a - 1, b - 1} \subseteq {pairs[m][1], pairs[m][2]}
           IN PauliXYZ[IF a - 1 = pairs[n][1] THEN 1 ELSE 2][IF b - 1 = pairs[n][1] THEN 1 ELSE 2]
      ELSE ZeroE(3))
(* set_spin_pairs: SS = SS_R0 at R = 0 and zero elsewhere (set_R_mat(R=[0,0,0], reset=True)); nothing is set for no pairs *)
SetSpinPairs(s, pairs) ==
   IF ~PairsWellFormed(s.nw, pairs) THEN [err |-> "AssertionError", sys |-> s]
   ELSE IF Len(pairs) = 0 THEN [err |-> "", sys |-> s]
   ELSE IF ~Has(s.rv, Z3) THEN [err |-> "ValueError", sys |-> s]
   ELSE LET r0 == FirstAt(s.rv, Z3)
            m0 == SpinPairsR0(s.nw, pairs)
        IN [err |-> "", sys |-> [s EXCEPT !.mats = ("SS" :> Tensor(NR(s), s.nw, LAMBDA r, a, b : IF r = r0 THEN m0[a][b] ELSE ZeroE(3))) @@ @]]
InterlacedPairs(nw) == [n \in 1..(nw \div 2) |-> <<2 * (n - 1), 2 * (n - 1) + 1>>]
SetSpinInterlaced(s) == IF s.nw % 2 # 0 THEN [err |-> "AssertionError", sys |-> s] ELSE SetSpinPairs(s, InterlacedPairs(s.nw))
DoubleSpin(s) ==
   IF "SS" \in Keys(s) THEN [err |-> "RuntimeError", sys |-> s]
   ELSE SetSpinPairs([s EXCEPT !.nw = 2 * s.nw,
                               !.cen = RvDoubleSpin(s.cen), !.sl = RvDoubleSpin(s.sl), !.sr = RvDoubleSpin(s.sr),
                               !.mats = [k \in Keys(s) |-> DoubleTensor(s.mats[k], s.nw)]],
                     InterlacedPairs(2 * s.nw))
(* set_spin_eigenstates(spins, axis, reset): SS(R=0)[a][a] = spins[a] * axis / |axis|, everything else zero; a second
   setting needs reset=True (set_R_mat).  `unit` is the normalised axis (the models use axes along the coordinate axes,
   the records axes with an integer norm, see SysOrderRec) *)
SetSpinEigenstates(s, spins, unit, reset) ==
   IF "SS" \in Keys(s) /\ ~reset THEN [err |-> "RuntimeError", sys |-> s]
   ELSE IF ~Has(s.rv, Z3) THEN [err |-> "ValueError", sys |-> s]
   ELSE LET r0 == FirstAt(s.rv, Z3) IN
        [err |-> "", sys |-> [s EXCEPT !.mats = ("SS" :> Tensor(NR(s), s.nw, LAMBDA r, a, b :
                                  IF r = r0 /\ a = b THEN [c \in 1..3 |-> GInt(spins[a] * unit[c])] ELSE ZeroE(3))) @@ @]]
(* the 3 spin matrices S_c (nw x nw) stored at position r *)
SpinMat(T, r, nw, c) == Mat(nw, LAMBDA a, b : T[r][a][b][c])
(* Pauli algebra on the paired functions: S_a S_b = delta_ab P + i eps_abc S_c with P the projector on the paired functions,
   each S_c Hermitian, S_z = +1 on the first and -1 on the second function of every pair *)
Eps(a, b) == IF a = b THEN 0 ELSE IF (b - a) % 3 = 1 THEN 1 ELSE -1
Third(a, b) == CHOOSE c \in 1..3 : c # a /\ c # b
PairedSet(pairs) == UNION {{pairs[n][1] + 1, pairs[n][2] + 1} : n \in 1..Len(pairs)}
PauliAlgebra(S, nw, pairs) ==
   LET P == Mat(nw, LAMBDA a, b : IF a = b /\ a \in PairedSet(pairs) THEN G1 ELSE GZ) IN
   /\ \A c \in 1..3 : IsHermitian(S[c])
   /\ \A a \in 1..3 : \A b \in 1..3 :
         MatMul(S[a], S[b]) = IF a = b THEN P ELSE MatScale(<<0, Eps(a, b)>>, S[Third(a, b)])
   /\ \A n \in 1..Len(pairs) : S[3][pairs[n][1] + 1][pairs[n][1] + 1] = G1 /\ S[3][pairs[n][2] + 1][pairs[n][2] + 1] = <<-1, 0>>
   /\ \A c \in 1..3 : \A a \in 1..nw : \A b \in 1..nw :
         S[c][a][b] # GZ => \E n \in 1..Len(pairs) : {a - 1, b - 1} \subseteq {pairs[n][1], pairs[n][2]}
SSOnlyAtR0(s) == \A r \in 1..NR(s) : s.rv[r] # Z3 => ~BlockAbove(s.mats["SS"][r], 0)

(* ------------------------------------------------------------------ sparse form *)
(* get_sparse(min_values): per key the elements (R, a, b) whose largest Cartesian component has |x| >= min_value.  The
   threshold is given as T2 with |x| >= min_value  <=>  2 |x|^2 >= T2; T2 odd: never a tie (NoTie).
   The result is a function  <<R, a, b>> -> components  (a, b 0-based as the keys of the code's dictionaries) *)
Reaches(e, T2) == IF SparseNorm = "max" THEN \E c \in 1..Len(e) : 2 * Norm2(e[c]) >= T2 ELSE 2 * Norm2(e[1]) >= T2
NoTie(s, mv) == \A k \in DOMAIN mv : \A r \in 1..NR(s) : \A a, b \in 1..s.nw : \A c \in 1..NComp(k) : 2 * Norm2(s.mats[k][r][a][b][c]) # mv[k]
SparseOf(s, key, T2) ==
   LET kept == {t \in (1..NR(s)) \X (1..s.nw) \X (1..s.nw) : Reaches(s.mats[key][t[1]][t[2]][t[3]], T2)}
   IN [x \in {<<s.rv[t[1]], t[2] - 1, t[3] - 1>> : t \in kept} |->
          LET t == CHOOSE u \in kept : <<s.rv[u[1]], u[2] - 1, u[3] - 1>> = x IN s.mats[key][t[1]][t[2]][t[3]]]
GetSparse(s, mv) == [cen |-> s.cen, matrices |-> [k \in DOMAIN mv |-> SparseOf(s, k, mv[k])]]
(* from_sparse(wannier_centers_red, matrices): R-list = {0} + every R that occurs in some matrix (here in lexicographic
   order; the code uses a Python set), a matrix without elements is not set, shifts = centres *)
FromSparse(cen, matrices) ==
   LET rset == {Z3} \cup UNION {{x[1] : x \in DOMAIN matrices[k]} : k \in DOMAIN matrices}
       rv == SortedSeq(rset)
       nw == Len(cen)
       keys == {k \in DOMAIN matrices : DOMAIN matrices[k] # {}}
   IN [nw |-> nw, rv |-> rv, cen |-> cen, sl |-> cen, sr |-> cen,
       mats |-> [k \in keys |-> Tensor(Len(rv), nw, LAMBDA r, a, b :
                    IF <<rv[r], a - 1, b - 1>> \in DOMAIN matrices[k] THEN matrices[k][<<rv[r], a - 1, b - 1>>] ELSE ZeroE(NComp(k)))]]
SparseRoundTrip(s, mv) == LET sp == GetSparse(s, mv) IN FromSparse(sp.cen, sp.matrices)

(* ------------------------------------------------------------------ observation: systems as functions, H(k), Hermiticity *)
ElemAt(s, key, R, a, b) == IF Has(s.rv, R) THEN s.mats[key][FirstAt(s.rv, R)][a][b] ELSE ZeroE(NComp(key))
SameFunction(s, t, key) ==
   /\ s.nw = t.nw
   /\ \A R \in SetOf(s.rv) \cup SetOf(t.rv) : \A a \in 1..s.nw : \A b \in 1..s.nw : ElemAt(s, key, R, a, b) = ElemAt(t, key, R, a, b)
(* X(-R) = X(R)^dagger for every stored R (a missing partner counts as zero) *)
HermitianKey(s, key) ==
   \A r \in 1..NR(s) : \A a \in 1..s.nw : \A b \in 1..s.nw : \A c \in 1..NComp(key) :
       ElemAt(s, key, VNeg(s.rv[r]), b, a)[c] = GConj(s.mats[key][r][a][b][c])
Hk(s, k) == Mat(s.nw, LAMBDA a, b : GSum([r \in 1..NR(s) |-> GRot(s.mats["Ham"][r][a][b][1], Dot(s.rv[r], k))]))
Spectra(s, KS) == IF "Ham" \in Keys(s) THEN [n \in 1..Len(KS) |-> CharPoly(Hk(s, KS[n]))] ELSE <<>>

(* ------------------------------------------------------------------ laws shared by the models and the record validation *)
ShiftsFollow(s) == s.sl = s.cen /\ s.sr = s.cen

(* orbital / spin labels: block ordering  index = orb + (up: 0, down: nw/2);  interlaced ordering  index = 2 orb - (up: 1, down: 0) *)
BlockIdx(o, up, h) == IF up THEN o ELSE o + h
InterIdx(o, up) == IF up THEN 2 * o - 1 ELSE 2 * o
LabelsLaw(old, new, toInterlace) ==
   LET h == old.nw \div 2
       NI(o, u) == IF toInterlace THEN InterIdx(o, u) ELSE BlockIdx(o, u, h)
       OI(o, u) == IF toInterlace THEN BlockIdx(o, u, h) ELSE InterIdx(o, u)
   IN \A o1 \in 1..h : \A o2 \in 1..h : \A u1 \in BOOLEAN : \A u2 \in BOOLEAN :
         /\ new.cen[NI(o1, u1)] = old.cen[OI(o1, u1)]
         /\ \A k \in Keys(old) : \A r \in 1..NR(old) : new.mats[k][r][NI(o1, u1)][NI(o2, u2)] = old.mats[k][r][OI(o1, u1)][OI(o2, u2)]

(* the law is stated with the magnitude of an element = its largest component, whatever the switch SparseNorm says *)
ReachesMax(e, T2) == \E c \in 1..Len(e) : 2 * Norm2(e[c]) >= T2
LawSparse(s, t, mv) ==
   /\ t.nw = s.nw /\ t.cen = s.cen /\ ShiftsFollow(t) /\ NoDup(t.rv) /\ Has(t.rv, Z3)
   /\ \A k \in DOMAIN mv : \A R \in SetOf(s.rv) \cup SetOf(t.rv) : \A a \in 1..s.nw : \A b \in 1..s.nw :
         LET e == ElemAt(s, k, R, a, b) IN
         (IF k \in Keys(t) THEN ElemAt(t, k, R, a, b) ELSE ZeroE(NComp(k))) = IF ReachesMax(e, mv[k]) THEN e ELSE ZeroE(NComp(k))
   /\ \A k \in DOMAIN mv \cap Keys(t) : HermitianKey(s, k) => HermitianKey(t, k)
   /\ \A R \in SetOf(t.rv) : R = Z3 \/ \E k \in DOMAIN mv \cap Keys(t) : BlockAbove(t.mats[k][FirstAt(t.rv, R)], 0)      \* no R without elements
OrderKept(q, w) == \A i \in 1..Len(q) : \A j \in 1..Len(q) : i < j => FirstAt(w, q[i]) < FirstAt(w, q[j])
(* exclude_zeros: (rv, mats) -> (nrv, nmats) with tolerance T2 *)
ExcludeLaws(rv, mats, nrv, nmats, T2) ==
   [ nothing_lost |-> \A k \in DOMAIN mats : \A r \in 1..Len(rv) : BlockAbove(mats[k][r], T2) =>
                         Has(nrv, rv[r]) /\ nmats[k][FirstAt(nrv, rv[r])] = mats[k][r],
     no_zero_left |-> \A r \in 1..Len(nrv) : \E k \in DOMAIN nmats : BlockAbove(nmats[k][r], T2),
     values |-> DOMAIN nmats = DOMAIN mats /\ \A k \in DOMAIN nmats : Len(nmats[k]) = Len(nrv) /\
                   \A r \in 1..Len(nrv) : Has(rv, nrv[r]) /\ nmats[k][r] = mats[k][FirstAt(rv, nrv[r])],
     no_dup |-> NoDup(rv) => NoDup(nrv) ]
=============================================================================
