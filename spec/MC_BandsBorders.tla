--------------------------- MODULE MC_BandsBorders ---------------------------
(* every sorted energy array / threshold / Kramers flag / energy range inside the constants: the band groups of
   get_borders (= find_degen), get_bands_in_range, get_bands_below_range; one TLC state per input *)
EXTENDS Bands
CONSTANTS NB, EMAX, THS,
          DropOddFinalBorder    \* TRUE: get_borders before the repair (must-fail variant: the last band of an odd array is in no group)
VARIABLES E, th, kr, emin, emax, groups, inrange, below
vars == <<E, th, kr, emin, emax, groups, inrange, below>>
SortedArrays == UNION { {s \in [1..n -> 0..EMAX] : \A k \in 1..(n - 1) : s[k] <= s[k + 1]} : n \in 1..NB }
Init == /\ E \in SortedArrays /\ th \in THS /\ kr \in BOOLEAN
        /\ (kr => KramersPaired(E, th))
        /\ emin \in {-1, 1, 2} /\ emax \in {1, 2, EMAX + 1} /\ emin <= emax
        /\ groups = (IF DropOddFinalBorder THEN BordersDropOddFinal(E, th, kr) ELSE Borders(E, th, kr))
        /\ inrange = GroupsInRange(E, th, kr, emin, emax)
        /\ below = BandsBelow(E, emin)
Next == UNCHANGED vars
Spec == Init /\ [][Next]_vars
(* C15 *)
GroupsPartition == IsPartition(E, groups)
GroupsInternal  == InternalGapsSmall(E, groups, th)
GroupsBoundary  == BoundaryGapsLarge(E, groups, th)
GroupsKramers   == kr => (BoundariesEven(groups) /\ KramersMaximal(E, groups, th))
InRangeSubset   == \A j \in 1..Len(inrange) : \E k \in 1..Len(groups) : groups[k] = inrange[j]
(* the closed-interval choice of the code is one of the admissible answers (the binding demands only admissibility) *)
InRangeRelaxed  == InRangeAdmissible(E, th, kr, emin, emax, {inrange[j] : j \in 1..Len(inrange)})
=============================================================================
