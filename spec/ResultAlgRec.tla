---------------------------- MODULE ResultAlgRec ----------------------------
(* code -> spec for C16 / C17: results of operations of the real classes (wannierberri/result, smoother.py), recorded by
   harness/props/c16.py and c17.py as JSON, one TLC state per record.  Every clause of `Clauses` is evaluated with the
   operators of ResultAlg on the recorded values; failing clauses are printed as <<"BAD", record, clause>>.

   Objects in JSON: {kind:"E", shape, rank, data:[[re,im],..], en, titles, tTR, tInv, comment} | {kind:"K", nb, rank,
   chunks, data, tTR, tInv} | {kind:"D", items:{key: object}} | {kind:"V"} | {kind:"X", why} (the call raised);
   transforms {factor, conj, tr, sw, none}. *)
EXTENDS ResultAlg, Json, IOUtils, TLCExt
VARIABLE i
Recs == JsonDeserialize(IOEnv.TRACE_FILE).recs
Rec == Recs[i]
Has(f) == f \in DOMAIN Rec

AsSeq(s) == [k \in 1..Len(s) |-> s[k]]
Pairs(s) == [k \in 1..Len(s) |-> <<s[k][1], s[k][2]>>]
TOf(t) == IF t.none THEN TNone ELSE [factor |-> t.factor, conj |-> t.conj, tr |-> AsSeq(t.tr), sw |-> AsSeq(t.sw)]
Obj1Of(o) ==
   CASE o.kind = "V" -> Void
     [] o.kind = "X" -> Raise(o.why)
     [] o.kind = "E" -> [kind |-> "E", shape |-> AsSeq(o.shape), en |-> [a \in 1..Len(o.en) |-> AsSeq(o.en[a])],
                         titles |-> AsSeq(o.titles), rank |-> o.rank, data |-> Pairs(o.data), tTR |-> TOf(o.tTR),
                         tInv |-> TOf(o.tInv), comment |-> o.comment, smo |-> NoSmoothers(Len(o.shape))]
     [] o.kind = "K" -> [kind |-> "K", nb |-> o.nb, rank |-> o.rank, chunks |-> AsSeq(o.chunks), data |-> Pairs(o.data),
                         tTR |-> TOf(o.tTR), tInv |-> TOf(o.tInv)]
ObjOf(o) == IF o.kind = "D" THEN MkD([k \in DOMAIN o.items |-> Obj1Of(o.items[k])]) ELSE Obj1Of(o)
O(f) == ObjOf(Rec[f])

(* equality of a real result with the specified one: the vector (what C16 talks about).  Comment and titles are demanded
   only of a reloaded result (SaveClauses): which comment a sum carries is not part of the property *)
Same1(x, y) == SameVector1(x, y, FALSE)
Same(x, y) == IF x.kind = "D" /\ y.kind = "D" THEN Keys(x) = Keys(y) /\ \A k \in Keys(x) : Same1(x.items[k], y.items[k])
              ELSE IF x.kind = "D" \/ y.kind = "D" THEN FALSE ELSE Same1(x, y)

(* (s * a) / s when `/` really divides the k-resolved entries *)
Quot1(x, s) == IF x.kind = "K" THEN x ELSE Div1(Mul1(x, s), s)
Quot(a, s) == IF a.kind = "D" THEN MkD([k \in Keys(a) |-> Quot1(a.items[k], s)]) ELSE Quot1(a, s)

(* ---- C16: group and scalar laws.  a, b, c fit pairwise; every other field is the output of the real operator *)
AlgClauses ==
   LET a == O("a")  b == O("b")  c == O("c")  s == Rec.s  t == Rec.t IN
   [ add_equals_spec      |-> Same(O("ab"), Add(a, b)) /\ Same(O("ba"), Add(b, a)),
     add_commutes         |-> SameUpToKOrder(O("ab"), O("ba")),
     add_associative      |-> SameVector(O("ab_c"), O("a_bc")) /\ Same(O("ab_c"), Add(Add(a, b), c)),
     sub_equals_spec      |-> Has("a_minus_b") => Same(O("a_minus_b"), Sub(a, b)),
     sub_self_zero        |-> IsZero(O("a_minus_a")) /\ SameShape(O("a_minus_a"), a),
     mul_equals_spec      |-> Same(O("sa"), Mul(a, s)) /\ Same(O("sb"), Mul(b, s)) /\ Same(O("as"), Mul(a, s)),
     mul_distributes      |-> SameVector(O("s_ab"), O("sa_sb")) /\ Same(O("s_ab"), Mul(Add(a, b), s)),
     mul_associative      |-> SameVector(O("t_sa"), Mul(a, s * t)),
     mul_one              |-> SameVector(O("one_a"), a),
     \* k-resolved: `/` is documented as a copy (DESIGN.md 7.2); the element-wise quotient satisfies the statement as well
     div_equals_spec      |-> Same(O("sa_div_s"), Div(Mul(a, s), s)) \/ Same(O("sa_div_s"), Quot(a, s)),
     div_meaning          |-> IF a.kind = "K" THEN SameVector(O("sa_div_s"), O("sa")) \/ SameVector(O("sa_div_s"), a)
                              ELSE IF a.kind = "E" THEN SameVector(O("sa_div_s"), a) ELSE TRUE,
     void_right_neutral   |-> Same(O("a_void"), a),
     void_left_neutral    |-> Same(O("void_a"), a),
     void_sub_right       |-> Same(O("a_sub_void"), a),
     void_sub_left        |-> Same(O("void_sub_a"), Mul(a, -1)),
     add_in_place         |-> Has("a_iadd_b") => Same(O("a_iadd_b"), AddInPlace(a, b)),
     add_in_place_void    |-> Has("a_iadd_void") => (Same(O("a_iadd_void"), a) /\ Same(O("a_iadd_none"), a)),   \* a.add(VoidResult()), a.add(None)
     \* a * np.int64(s), a * np.float32(s), (a * 2) * np.float64(0.5)
     mul_numpy_scalars    |-> Has("a_npi") => (Same(O("a_npi"), Mul(a, s)) /\ Same(O("a_npf"), Mul(a, s)) /\ SameVector(O("half_2a"), a)),
     zero_left_neutral    |-> Has("zero_a") => Same(O("zero_a"), a),               \* 0 + a  (sum([...]))
     none_right_neutral   |-> Has("a_none") => Same(O("a_none"), a) ]

(* ---- C16: symmetry transformation *)
SymOf(g) == LET R == [r \in 1..3 |-> AsSeq(g.R[r])] IN      \* tables computed on demand, one rank at a time
            [R |-> R, TR |-> g.TR, Inv |-> g.Inv, order |-> 0, tab |-> [r1 \in 1..4 |-> SymTab(R, r1 - 1)]]
SymClauses ==
   LET a == O("a")  b == O("b")  g == SymOf(Rec.g) IN
   [ transform_equals_spec |-> Same(O("Ta"), Transform(a, g)) /\ Same(O("Tb"), Transform(b, g)),
     transform_additive    |-> SameVector(O("Tab"), O("Ta_Tb")) /\ SameVector(O("Tab"), Add(O("Ta"), O("Tb")))
                               /\ Same(O("Tab"), Transform(Add(a, b), g)),
     transform_homogeneous |-> SameVector(O("Tsa"), Mul(O("Ta"), Rec.s)),
     transform_keeps_meta  |-> (a.kind \in {"E", "K"}) =>
                                  (O("Ta").kind = a.kind /\ O("Ta").tTR = a.tTR /\ O("Ta").tInv = a.tInv /\ O("Ta").rank = a.rank) ]

(* ---- C16: mul_array with a one-dimensional integer array v along axis ax (1-based; Rec.ax = 0: axes=None, the first axis) *)
MarrClauses ==
   LET a == O("a")  b == O("b")  v == AsSeq(Rec.v)  ax == IF Rec.ax = 0 THEN 1 ELSE Rec.ax IN
   [ marr_equals_spec |-> SameVector(O("av"), MulArray1(a, v, ax)),
     marr_additive    |-> Has("abv") => (SameVector(O("abv"), Add1(O("av"), O("bv"))) /\ SameVector(O("abv"), MulArray1(Add1(a, b), v, ax))),
     marr_homogeneous |-> SameVector(O("sav"), Mul1(MulArray1(a, v, ax), Rec.s)),
     marr_keeps_meta  |-> O("av").kind = a.kind /\ O("av").tTR = a.tTR /\ O("av").tInv = a.tInv /\ O("av").rank = a.rank ]

(* ---- C16: persistence.  file = what np.load finds in the .npz written by Result.save *)
FileOf(f) ==
   IF f.type = "VoidResult" THEN [type |-> "VoidResult", comment |-> SaveNpz(Void).comment]      \* the text is not compared
   ELSE [type |-> "EnergyResult", E_titles |-> AsSeq(f.E_titles), data |-> Pairs(f.data), dshape |-> AsSeq(f.dshape), rank |-> f.rank,
         transformTR |-> [conj |-> f.transformTR.conj, factor |-> f.transformTR.factor,
                          transpose_axes |-> AsSeq(f.transformTR.transpose_axes), swap_axes |-> AsSeq(f.transformTR.swap_axes)],
         transformInv |-> [conj |-> f.transformInv.conj, factor |-> f.transformInv.factor,
                           transpose_axes |-> AsSeq(f.transformInv.transpose_axes), swap_axes |-> AsSeq(f.transformInv.swap_axes)],
         comment |-> f.comment, Energies |-> [a \in 1..Len(f.Energies) |-> AsSeq(f.Energies[a])]]
SaveClauses ==
   LET a == O("a")  l == O("loaded") IN
   [ \* the layout of the file is information only (the harness does not turn these two into violations) ..
     file_equals_spec |-> Has("file") => FileOf(Rec.file) = SaveNpz(a),
     load_equals_spec |-> Has("file") => SameSaved(LoadNpz(FileOf(Rec.file)), l),
     \* .. the round trip decides
     round_trip       |-> SameSaved(a, l) ]

(* ---- C17 *)
Ints(s) == AsSeq(s)
Kern(k) == AsSeq(k)
Scaled(x, D) == [p \in 1..Len(x) |-> RNorm(x[p], D)]          \* recorded integers out[p] = value * D
SmoothClauses ==      \* EnergyResult.dataSmooth of a result with integer data and integer-kernel smoothers
   LET shape == AsSeq(Rec.shape)  smo == [a \in 1..Len(Rec.smo) |-> Kern(Rec.smo[a])]
       x == RatData(Ints(Rec.data))  fs == FullShape(shape, Rec.rank)
       got == Scaled(Ints(Rec.out), Rec.D) IN
   [ smooth_equals_spec  |-> got = SmoothAll(smo, shape, Rec.rank, x),
     \* complex data: the imaginary part is smoothed like the real part
     smooth_imag_part    |-> Has("outi") => Scaled(Ints(Rec.outi), Rec.D) = SmoothAll(smo, shape, Rec.rank, RatData(Ints(Rec.datai))),
     smooth_every_axis   |-> \A perm \in Perms(Len(shape)) : got = SmoothInOrder(smo, fs, x, perm),
     smooth_void_identity |-> (\A a \in 1..Len(shape) : IsVoidSmoother(smo[a])) => got = x ]
AxisClauses ==        \* one smoother called along one axis: sx, sy, sxy = S(x+y), s2x = S(2x), sc = S(constant c)
   LET fs == AsSeq(Rec.fs)  k == Kern(Rec.k)  a == Rec.a  D == Rec.D
       x == RatData(Ints(Rec.x))  y == RatData(Ints(Rec.y))
       sx == Scaled(Ints(Rec.sx), D)  sy == Scaled(Ints(Rec.sy), D) IN
   [ axis_equals_spec   |-> sx = SmoothAxis(k, fs, x, a) /\ sy = SmoothAxis(k, fs, y, a),
     linear_additive    |-> Scaled(Ints(Rec.sxy), D) = RAddV(sx, sy),
     linear_homogeneous |-> Scaled(Ints(Rec.s2x), D) = RScaleV(2, sx),
     constant_preserved |-> \A p \in 1..Len(Rec.sc) : Rec.sc[p] = Rec.c * D,
     along_axis_only    |-> \A base \in LineBases(fs, a) :
                               Line(fs, sx, a, base) = SmoothAxis(k, <<fs[a]>>, Line(fs, x, a, base), 1) ]
GetSmootherClauses == [ get_smoother_acts |-> AscendingGrid(Rec.dEsign) => GetSmootherActsOK(Rec.hasE, Rec.ne, Rec.smear, Rec.wide, Rec.got) ]

Clauses == CASE Rec.fn = "alg" -> AlgClauses
             [] Rec.fn = "sym" -> SymClauses
             [] Rec.fn = "save" -> SaveClauses
             [] Rec.fn = "marr" -> MarrClauses
             [] Rec.fn = "smooth" -> SmoothClauses
             [] Rec.fn = "axis" -> AxisClauses
             [] Rec.fn = "getsm" -> GetSmootherClauses
Report == \A n \in DOMAIN Clauses : Clauses[n] \/ PrintT(<<"BAD", i, n>>)
RecInit == i \in 1..Len(Recs) /\ start = 0 /\ store = <<>> /\ files = <<>> /\ hist = <<>>
RecSpec == RecInit /\ [][UNCHANGED <<i, vars>>]_<<i, vars>>

(* the machine constants of ResultAlg are not used here *)
RecNone == {}
RecSeq == <<>>
=============================================================================
