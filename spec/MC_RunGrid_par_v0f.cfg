SPECIFICATION MCSpec
CONSTANTS
  D = 1
  N = 5
  NDIV = 2
  LMAX = 1
  Group <- GNone
  NSTEP = 2
  Accumulate = FALSE
  SortedListing = TRUE
  CellSymmetric = TRUE
  WaitFirstN = TRUE
  NITER = 1
  AdptFac = 1
  ParA = {TRUE}
  ParB = {TRUE}
  DumpSet = {FALSE}
  AllowASet = {FALSE}
  SymSet = {FALSE}
  WithB = FALSE
  AllOrders = FALSE
  RestartIters = {1}
  MaxLeg = 9
  FirstLegMax = 9
  AllowArgB = {TRUE, FALSE}
VIEW mcview
INVARIANT TypeOK
INVARIANT NoError
INVARIANT WeightOne
INVARIANT NoEquivDup
INVARIANT OrbitWeight
INVARIANT IntegralConsistent
INVARIANT SavedWeightOne
INVARIANT ReturnedWeightOne
INVARIANT CollectedOnce
INVARIANT AllCollected
CHECK_DEADLOCK FALSE
