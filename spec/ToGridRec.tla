------------------------------ MODULE ToGridRec ------------------------------
(* code -> spec (C30): records of calls of the real TABresult.to_grid / get_data / find_grid and get_component, one TLC
   state per record.  Averages arrive as reduced fractions [num, den] (the harness verifies that the floating-point
   value is such a fraction), k-points as integers on the mesh. *)
EXTENDS ToGrid, Json, IOUtils, TLCExt
VARIABLE i
Recs == JsonDeserialize(IOEnv.TRACE_FILE).recs
Rec == Recs[i]
AsSeq(s) == TLCEval([k \in 1..Len(s) |-> s[k]])
Seq2(s) == TLCEval([k \in 1..Len(s) |-> AsSeq(s[k])])
RECURSIVE Tensor(_, _)
Tensor(t, r) == IF r = 0 THEN t ELSE [k \in 1..3 |-> Tensor(t[k], r - 1)]
SameAvg(a, b) == Len(a) = Len(b) /\ \A k \in 1..Len(a) : a[k][1] * b[k][2] = b[k][1] * a[k][2]

ToGridClauses ==
   LET g == AsSeq(Rec.g) m == AsSeq(Rec.m) pts == Seq2(Rec.pts) vals == AsSeq(Rec.vals)
       res == [err |-> Rec.err, data |-> Seq2(Rec.out)]
       S == ToGridOp(pts, vals, g, m)
   IN [ equals_spec      |-> S.err = res.err /\ SameAvg(S.data, res.data),
        missing_is_error |-> MissingIsError(pts, g, m, res),
        own_values       |-> Complete(pts, g, m) =>
                                /\ res.err = "" /\ Len(res.data) = NPoints(g)
                                /\ \A s \in 0..(NPoints(g) - 1) :
                                      LET im == ImagesOf(pts, Unflatten(s, g), g, m)
                                      IN res.data[s + 1][1] * Cardinality(im) = SumSetOf(vals, im) * res.data[s + 1][2],
        c_order          |-> res.err = "" => Seq2(Rec.knew) = COrder(g) /\ AsSeq(Rec.shape) = g,
        bijection        |-> SlotBijection(g) ]
FindGridClauses ==
   LET g == AsSeq(Rec.g) m == AsSeq(Rec.m) pts == Seq2(Rec.pts) M == Mesh(g, m)
   IN [ in_domain   |-> ~FindGridTie(pts, M),
        equals_spec |-> AsSeq(Rec.out) = FindGrid(pts, M),
        recovers    |-> AllPlanes(pts, g, m) /\ AllOnGrid(pts, m) => AsSeq(Rec.out) = g ]
ComponentClauses ==
   LET T == Tensor(Rec.T, Rec.ndim) comp == [kind |-> Rec.kind, c |-> AsSeq(Rec.c)] out == [tag |-> Rec.tag, v |-> Rec.v]
   IN [ in_domain   |-> CompOK(Rec.ndim, comp),
        equals_spec |-> out = GetComponent(T, Rec.ndim, comp),
        in_list     |-> comp \in ComponentList(Rec.ndim) => out.tag = "val" ]
Clauses == CASE Rec.fn = "to_grid" -> ToGridClauses
             [] Rec.fn = "find_grid" -> FindGridClauses
             [] Rec.fn = "component" -> ComponentClauses
Report == \A n \in DOMAIN Clauses : Clauses[n] \/ PrintT(<<"BAD", i, n>>)
RecInit == i \in 1..Len(Recs)
RecSpec == RecInit /\ [][UNCHANGED i]_i
=============================================================================
