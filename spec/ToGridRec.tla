------------------------------ MODULE ToGridRec ------------------------------
(* code -> spec (C30): records of calls of the real TABresult.to_grid / get_data / find_grid and get_component, one TLC
   state per record.  Averages arrive as reduced fractions [num, den] (the harness verifies that the floating-point
   value is such a fraction), k-points as integers on the mesh.  Clauses named info_* are internal details that the
   statement of C30 does not name: they are counted, they never decide. *)
EXTENDS ToGrid, Json, IOUtils, TLCExt
VARIABLE i
Recs == JsonDeserialize(IOEnv.TRACE_FILE).recs
Rec == Recs[i]
AsSeq(s) == TLCEval([k \in 1..Len(s) |-> s[k]])
Seq2(s) == TLCEval([k \in 1..Len(s) |-> AsSeq(s[k])])
RECURSIVE Tensor(_, _)
Tensor(t, r) == IF r = 0 THEN t ELSE [k \in 1..3 |-> Tensor(t[k], r - 1)]
(* averages as fractions; <<0, 0>> = a slot without value (NaN in the real result) *)
SameAvg(a, b) == Len(a) = Len(b) /\ \A k \in 1..Len(a) : (a[k][2] = 0 <=> b[k][2] = 0) /\ a[k][1] * b[k][2] = b[k][1] * a[k][2]

(* to_grid.  Rec.err = "missing" when the real call raised (Rec.raised, any exception class) or returned NaN; in the
   second case the NaN must sit in exactly the slots without image and the other slots carry their own values. *)
ToGridClauses ==
   LET g == AsSeq(Rec.g) m == AsSeq(Rec.m) pts == Seq2(Rec.pts) vals == AsSeq(Rec.vals)
       res == [err |-> Rec.err, data |-> Seq2(Rec.out)]
       S == ToGridOp(pts, vals, g, m)
   IN [ equals_spec      |-> S.err = res.err /\ (Rec.raised \/ SameAvg(S.data, res.data)),
        missing_is_error |-> MissingIsError(pts, g, m, res),
        empty_slots      |-> ~Rec.raised => Len(res.data) = NPoints(g) /\ EmptySlotsAreMissing(pts, g, m, res),
        own_values       |-> ~Rec.raised =>
                                /\ Len(res.data) = NPoints(g)
                                /\ \A s \in 0..(NPoints(g) - 1) :
                                      LET im == ImagesOf(pts, Unflatten(s, g), g, m)
                                      IN im # {} => res.data[s + 1][1] * Cardinality(im) = SumSetOf(vals, im) * res.data[s + 1][2],
        c_order          |-> ~Rec.raised => Seq2(Rec.knew) = COrder(g) /\ AsSeq(Rec.shape) = g,
        bijection        |-> SlotBijection(g) ]
(* find_grid: C30 needs that the grid is recovered from a point set that has every plane of the grid and only grid
   points.  Its value on other point sets (missing planes, off-grid points) is a heuristic: information only. *)
FindGridClauses ==
   LET g == AsSeq(Rec.g) m == AsSeq(Rec.m) pts == Seq2(Rec.pts) M == Mesh(g, m)
   IN [ in_domain        |-> ~FindGridTie(pts, M),
        recovers         |-> AllPlanes(pts, g, m) /\ AllOnGrid(pts, m) => AsSeq(Rec.out) = g,
        info_equals_spec |-> AsSeq(Rec.out) = FindGrid(pts, M) ]
(* K__Result.get_component_list of the real class: the list of components of a tensor of rank ndim *)
CompListClauses ==
   LET got == {[kind |-> Rec.out[k].kind, c |-> AsSeq(Rec.out[k].c)] : k \in 1..Len(Rec.out)}
   IN [ equals_spec   |-> got = ComponentList(Rec.ndim),
        no_duplicates |-> Len(Rec.out) = Cardinality(got) ]
ComponentClauses ==
   LET T == Tensor(Rec.T, Rec.ndim) comp == [kind |-> Rec.kind, c |-> AsSeq(Rec.c)] out == [tag |-> Rec.tag, v |-> Rec.v]
   IN [ in_domain   |-> CompOK(Rec.ndim, comp),
        equals_spec |-> out = GetComponent(T, Rec.ndim, comp),
        in_list     |-> comp \in ComponentList(Rec.ndim) => out.tag = "val" ]
Clauses == CASE Rec.fn = "to_grid" -> ToGridClauses
             [] Rec.fn = "find_grid" -> FindGridClauses
             [] Rec.fn = "component" -> ComponentClauses
             [] Rec.fn = "complist" -> CompListClauses
Report == \A n \in DOMAIN Clauses : Clauses[n] \/ PrintT(<<"BAD", i, n>>)
RecInit == i \in 1..Len(Recs)
RecSpec == RecInit /\ [][UNCHANGED i]_i
=============================================================================
