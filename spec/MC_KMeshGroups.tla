--------------------------- MODULE MC_KMeshGroups ---------------------------
(* the catalogue of (magnetic) point groups of KMesh.tla: one TLC state per group, carrying the closure of its
   generator k-matrices.  Checked: group axioms; the harness compares every state with the k-matrices of the real
   PointGroup built from the generator names (binding of the catalogue). *)
EXTENDS KMesh
VARIABLES grp, lat, G, box
vars == <<grp, lat, G, box>>
GT == TLCEval([nm \in GroupNames |-> GroupOf(nm)])
Init == /\ grp \in GroupNames /\ lat = Catalogue[grp].lat /\ G = GT[grp] /\ box = BoxPreserving(GT[grp])
Next == UNCHANGED vars
Spec == Init /\ [][Next]_vars
GroupAxioms == IsGroup(G)
CrystallographicOrder == Cardinality(G) \in {1, 2, 3, 4, 6, 8, 12, 16, 24, 48}
OrthogonalAreBox == (lat \in {"ort", "tet", "cub", "rho"}) <=> box      \* hex, bcc, fcc: cells are not mapped to cells
=============================================================================
