----------------------------- MODULE W90StoreRec -----------------------------
(* code -> spec (C19): records of calls of the real file classes, one TLC state per record.
     write : obj (+ bk) and the tokens of the file the real to_w90_file produced, or its exception
     read  : the tokens of a file (+ bk) and what the real from_w90_file returned (+ the object the file was made from)
     npz   : obj, the names inside the .npz the real to_npz produced, what the real from_npz returned, the verdict of the
             class's own equals()
   The clauses `layout` (write), `reader_model` (read), `names` and `from_dict` (npz) describe HOW the code does it; the
   harness reports them as information.  The other clauses are the statement of C19.
   JSON: an object is {cls, attr {..}, dic [[tag, [[k, table], ..]], ..], dim {..}}; dictionaries with integer keys travel
   as lists of pairs. *)
EXTENDS W90Store, Json, IOUtils, TLCExt
VARIABLE i
Recs == JsonDeserialize(IOEnv.TRACE_FILE).recs
Rec == Recs[i]
PairsFn(ps) == [k \in {ps[j][1] : j \in 1..Len(ps)} |-> ps[CHOOSE j \in 1..Len(ps) : ps[j][1] = k][2]]
DicOf(l) == [t \in {l[j][1] : j \in 1..Len(l)} |-> PairsFn(l[CHOOSE j \in 1..Len(l) : l[j][1] = t][2])]
ObjOfJson(o) == [cls |-> o.cls, attr |-> o.attr, dic |-> DicOf(o.dic), dim |-> o.dim]
AsSet(q) == {q[k] : k \in 1..Len(q)}
X == ObjOfJson(Rec.obj)
B == ObjOfJson(Rec.bk)
OutOK == Rec.out.err = ""
Y == ObjOfJson(Rec.out.obj)
SameObj(a, b) == a.cls = b.cls /\ a.attr = b.attr /\ a.dic = b.dic /\ a.dim = b.dim

WriteClauses ==
   LET w == CASE Rec.cls = "eig" -> WriteEig(X) [] Rec.cls = "amn" -> WriteAmn(X) [] Rec.cls = "mmn" -> WriteMmn(X, B) IN
   [ no_failure |-> (w.err = "") => OutOK,
     failure_expected |-> (w.err # "") => ~OutOK,
     layout     |-> (w.err = "" /\ OutOK) => Rec.out.lines = w.lines ]
ReadClauses ==
   LET r == CASE Rec.cls = "eig" -> ReadEig(Rec.lines) [] Rec.cls = "amn" -> ReadAmn(Rec.lines) [] Rec.cls = "mmn" -> ReadMmn(Rec.lines, B) IN
   [ no_failure   |-> (r.err = "") => OutOK,
     reader_model |-> IF r.err = "" THEN OutOK => SameObj(r.obj, Y) ELSE ~OutOK,
     round_trip   |-> (Rec.has_obj /\ OutOK) => Y.dic["data"] = X.dic["data"] /\ Y.dim = X.dim,
     \* a .mmn file that lists the neighbours of k in another order than the b-vector table (Rec.perm[k+1][p] = index of the
     \* b-vector of the p-th block, 0-based): the reader brings the blocks into the order of the table and says where they were
     reorder      |-> (Rec.cls = "mmn" /\ Rec.has_perm /\ OutOK) =>
                         \A k \in DOMAIN Y.dic["bk_reorder"] : \A j \in 1..Len(Y.dic["bk_reorder"][k]) :
                            Rec.perm[k + 1][Y.dic["bk_reorder"][k][j] + 1] = j - 1 ]
NpzClauses ==
   LET d == AsDict(X)  r == FromDict(Rec.cls, d) IN
   [ names        |-> AsSet(Rec.names) = DOMAIN d /\ NoKeyClash(X),
     no_failure   |-> OutOK /\ r.err = "",
     from_dict    |-> (OutOK /\ r.err = "") => SameObj(r.obj, Y),
     round_trip   |-> OutOK => SameObj(X, Y),
     own_equals   |-> Rec.equals_verdict ]
Clauses == CASE Rec.kind = "write" -> WriteClauses
             [] Rec.kind = "read" -> ReadClauses
             [] Rec.kind = "npz" -> NpzClauses
Report == \A n \in DOMAIN Clauses : Clauses[n] \/ PrintT(<<"BAD", i, n>>)
RecInit == i \in 1..Len(Recs)
RecSpec == RecInit /\ [][UNCHANGED i]_i
=============================================================================
