\* generated by the harness (quick tier constants); the checks generate their configs themselves
SPECIFICATION Spec
CONSTANTS
  WccSplitCeil = TRUE
  NWS = {1, 2, 3}
  SHAPES = {1, 2, 3, 5}
  PATS = {1}
  AAZERO = TRUE
  MAXLEN = 3
INVARIANT TbRoundTrip
INVARIANT HrRoundTrip
INVARIANT NpzRoundTrip
INVARIANT WellFormed
CHECK_DEADLOCK FALSE
