------------------------------- MODULE ExecEnv -------------------------------
(***************************************************************************)
(* Execution environment decision tables of wannierberri (extension X05):  *)
(*   A  parallel.py        get_ray_runtime_env, ray_init, ray_init_cluster, *)
(*                         ray_shutdown, check_ray_initialized,            *)
(*                         get_ray_cpus_count and the use run() makes of   *)
(*                         them (which calls reach the ray module)         *)
(*   B  utils/cluster.py   main(argv): argument defaults, refusals, the     *)
(*                         generated slurm / pbs script as a token table,   *)
(*                         the submit command                              *)
(*   C  run_grid.py run()  validation and defaulting of the options before  *)
(*                         the first K-point is evaluated                  *)
(* One operator per function, named like the code.  Everything is exact:   *)
(* strings, integers, sets of <<key, value>> pairs for keyword dictionaries.*)
(***************************************************************************)
EXTENDS Integers, Sequences, FiniteSets, TLC

Range(s) == {s[i] : i \in 1..Len(s)}
Count(s, x) == Cardinality({i \in 1..Len(s) : s[i] = x})
IsPrefix(s, t) == Len(s) <= Len(t) /\ \A i \in 1..Len(s) : s[i] = t[i]
Has(kw, k) == \E p \in kw : p[1] = k
Val(kw, k) == (CHOOSE p \in kw : p[1] = k)[2]
Keys(kw) == {p[1] : p \in kw}
BoolStr(b) == IF b THEN "True" ELSE "False"

-----------------------------------------------------------------------------
(* A. parallel.py                                                          *)

(* the package directory os.path.dirname(os.path.abspath(parallel.__file__)): the harness maps the real path to this token *)
PKG == "<wannierberri>"

(* a runtime_env argument: None (given = FALSE) or a dictionary with an optional "py_modules" list and other keys, whose
   values are opaque (a key stands for the pair key/value) *)
NoEnv == [given |-> FALSE, pymGiven |-> FALSE, pym |-> <<>>, other |-> {}]
EnvEmpty(e) == ~e.given \/ (~e.pymGiven /\ e.other = {})                 \* None or {}
NormEnv(e) == IF EnvEmpty(e) THEN NoEnv ELSE e                            \* ray treats runtime_env={} like None

(* get_ray_runtime_env(runtime_env, use_current_checkout); dedup = FALSE is a wrong variant (always appends) *)
GetRayRuntimeEnvV(e, ucc, dedup) ==
   IF ~ucc THEN (IF EnvEmpty(e) THEN NoEnv ELSE e)
   ELSE [given |-> TRUE, pymGiven |-> TRUE,
         pym |-> IF dedup /\ PKG \in Range(e.pym) THEN e.pym ELSE Append(e.pym, PKG), other |-> e.other]
GetRayRuntimeEnv(e, ucc) == GetRayRuntimeEnvV(e, ucc, TRUE)
(* what ray.init receives as runtime_env: the computed one, or - when that is None - whatever the caller passed *)
PassedEnv(e, ucc, dedup) == LET g == GetRayRuntimeEnvV(e, ucc, dedup) IN NormEnv(IF g = NoEnv THEN e ELSE g)

(* laws of get_ray_runtime_env *)
EnvLaws(e, ucc, dedup) ==
   LET g == GetRayRuntimeEnvV(e, ucc, dedup) IN
   [ idempotent   |-> GetRayRuntimeEnvV(g, ucc, dedup) = g,
     has_checkout |-> ucc => (g.given /\ g.pymGiven /\ Count(g.pym, PKG) = (IF Count(e.pym, PKG) = 0 THEN 1 ELSE Count(e.pym, PKG))),
     keeps_modules |-> ucc => IsPrefix(e.pym, g.pym) /\ Len(g.pym) <= Len(e.pym) + 1,
     keeps_keys   |-> g.other = e.other,
     off_is_identity |-> ~ucc => NormEnv(g) = NormEnv(e) ]

(* the world the functions act on: is the ray module importable, is a session up, the CPU resource of the session in
   tenths, the environment variables a batch script exports (ipHead = <<ip, port>> or <<>>, redis = "" when unset) *)
ClusterEnvVars == {"ip_head", "redis_password"}        \* read by ray_init_cluster, exported by the generated batch scripts
DefaultKeys == {"address", "_node_ip_address", "_redis_password"}
RoundTie(c10) == c10 % 10 = 5                          \* int(round(x)) at x.5: banker's rounding, excluded
Round10(c10) == (c10 + 5) \div 10
MACHINE10 == 160                                      \* ray.init() without num_cpus on the double: 16 CPUs

InitCall(kw, env) == [fn |-> "init", kw |-> kw, env |-> env]
ShutdownCall == [fn |-> "shutdown", kw |-> {}, env |-> NoEnv]
Res(status, ret, warned, calls) == [status |-> status, ret |-> ret, warned |-> warned, calls |-> calls,
                                    puts |-> 0, tasks |-> 0, serial |-> 0]
CpusAfterInit(kw) == IF Has(kw, "num_cpus") /\ Val(kw, "num_cpus") # "None" THEN
                        (CASE Val(kw, "num_cpus") = "2" -> 20 [] Val(kw, "num_cpus") = "4" -> 40 [] OTHER -> MACHINE10)
                     ELSE MACHINE10

(* switches: TRUE/TRUE/TRUE/TRUE/FALSE is the documented behaviour *)
Good == [shutdownGuard |-> TRUE, initGuard |-> TRUE, dedup |-> TRUE, userWins |-> TRUE, runIgnoresRay |-> FALSE]

(* ray_init(ignore_missing, use_current_checkout, **kwargs) -> <<world', result>> *)
RayInit(w, kw, e, ignoreMissing, ucc, V) ==
   IF ~w.installed THEN << w, Res(IF ignoreMissing THEN "ok" ELSE "raises", "None", FALSE, <<>>) >>
   ELSE IF w.up /\ V.initGuard THEN << w, Res("ok", "None", FALSE, <<>>) >>
   ELSE << [w EXCEPT !.up = TRUE, !.cpus10 = CpusAfterInit(kw)],
           Res("ok", "None", FALSE, << InitCall(kw, PassedEnv(e, ucc, V.dedup)) >>) >>

(* ray_init_cluster(num_cpus, ignore_initialized, use_current_checkout, **ray_init) *)
ClusterDefaults(w) == { <<"address", "auto">> } \cup (IF w.ipHead = <<>> THEN {} ELSE { <<"_node_ip_address", w.ipHead[1]>> })
                      \cup (IF w.redis = "" THEN {} ELSE { <<"_redis_password", w.redis>> })
RayInitCluster(w, numCpus, ignoreInitialized, ucc, kw, e, V) ==
   IF w.up /\ V.initGuard THEN << w, Res("ok", "None", ~ignoreInitialized, <<>>) >>
   ELSE LET missing == (DefaultKeys \ Keys(kw)) \ Keys(ClusterDefaults(w))      \* an environment variable is needed and not set
            full == IF V.userWins THEN {p \in ClusterDefaults(w) : ~Has(kw, p[1])} \cup kw
                    ELSE ClusterDefaults(w) \cup {p \in kw : ~Has(ClusterDefaults(w), p[1])}
            withCpus == {p \in full : p[1] # "num_cpus"} \cup { <<"num_cpus", numCpus>> }
        IN IF missing # {} THEN << w, Res("raises", "None", Keys(kw) \cap DefaultKeys # {}, <<>>) >>
           ELSE << [w EXCEPT !.up = TRUE, !.cpus10 = CpusAfterInit(withCpus)],
                   Res("ok", "None", Keys(kw) \cap DefaultKeys # {}, << InitCall(withCpus, PassedEnv(e, ucc, V.dedup)) >>) >>

(* ray_shutdown() *)
RayShutdown(w, V) ==
   IF w.installed /\ (w.up \/ ~V.shutdownGuard) THEN << [w EXCEPT !.up = FALSE], Res("ok", "None", FALSE, << ShutdownCall >>) >>
   ELSE << w, Res("ok", "None", FALSE, <<>>) >>

(* check_ray_initialized(), get_ray_cpus_count() *)
CheckRayInitialized(w) == << w, Res("ok", BoolStr(w.installed /\ w.up), ~(w.installed /\ w.up), <<>>) >>
GetRayCpusCount(w) == << w, Res("ok", IF w.installed /\ w.up THEN ToString(Round10(w.cpus10)) ELSE "1", FALSE, <<>>) >>

(* run(parallel=...): parallel must be a bool; parallel and a live session -> the four remote parameters are put into
   the object store, the K-point function becomes a remote function and every K-point is one task; otherwise every
   K-point is evaluated in this process and the ray module sees no put / remote / wait / get *)
RunParallel(w, parallel, nk, V) ==
   IF parallel \notin {"True", "False"} THEN << w, Res("raises", "None", FALSE, <<>>) >>
   ELSE LET eff == parallel = "True" /\ (V.runIgnoresRay \/ (w.installed /\ w.up)) IN
        << w, [Res("ok", BoolStr(eff), parallel = "True" /\ ~(w.installed /\ w.up), <<>>)
                  EXCEPT !.puts = IF eff THEN 4 ELSE 0, !.tasks = IF eff THEN nk ELSE 0, !.serial = IF eff THEN 0 ELSE nk] >>

(* what the user does directly, as docs/parallel.rst tells: ray.init(...) / ray.shutdown() *)
ExtInit(w, c10) == << [w EXCEPT !.up = TRUE, !.cpus10 = c10], Res("ok", "None", FALSE, << InitCall({}, NoEnv) >>) >>

(* the log of state-changing calls is well bracketed: init and shutdown alternate, starting with init *)
WellBracketed(log) == \A i \in 1..Len(log) : log[i].fn = (IF i % 2 = 1 THEN "init" ELSE "shutdown")
UpOfLog(log) == Len(log) % 2 = 1

(* ---- clauses on a history of calls: hist[i] = [d |-> call (act, kw, env, flags, num, par), res |-> result, up |-> session up
   afterwards]; w = the world (installed, ipHead, redis never change; up = the session at the end) *)
RECURSIVE LogOf(_)
LogOf(hist) == IF hist = <<>> THEN <<>> ELSE LogOf(SubSeq(hist, 1, Len(hist) - 1)) \o hist[Len(hist)].res.calls
(* the ray module sees init and shutdown strictly alternating: never a second init on a live session, never a shutdown
   without a session; the session is up iff the last such call was an init *)
CLogWellBracketed(w, hist) == WellBracketed(LogOf(hist)) /\ w.up = UpOfLog(LogOf(hist)) /\ \A i \in 1..Len(hist) : hist[i].up = UpOfLog(LogOf(SubSeq(hist, 1, i)))
CNotInstalledNoCalls(w, hist) == ~w.installed => (LogOf(hist) = <<>> /\ ~w.up)
(* ray_shutdown: afterwards no session; a second one in a row does nothing (idempotent); at most one call each *)
CShutdownIdempotent(w, hist) == \A i \in 1..Len(hist) : hist[i].d.act = "ray_shutdown" =>
      /\ ~hist[i].up /\ hist[i].res.status = "ok" /\ Len(hist[i].res.calls) <= 1
      /\ (i > 1 /\ hist[i - 1].d.act = "ray_shutdown") => hist[i].res.calls = <<>>
      /\ \A c \in Range(hist[i].res.calls) : c.fn = "shutdown"
(* ray_init / ray_init_cluster leave a live session alone ("does nothing ... if it is already initialized") *)
CLiveSessionKept(w, hist) == \A i \in 2..Len(hist) : (hist[i].d.act \in {"ray_init", "ray_init_cluster"} /\ hist[i - 1].up) =>
      (hist[i].res.calls = <<>> /\ hist[i].up /\ hist[i].res.status = "ok")
(* ray_init passes its keyword arguments on unchanged, the runtime environment is the one of get_ray_runtime_env *)
CInitPassesKwargs(w, hist) == \A i \in 1..Len(hist) : (hist[i].d.act = "ray_init" /\ hist[i].res.calls # <<>>) =>
      /\ Len(hist[i].res.calls) = 1 /\ hist[i].res.calls[1].fn = "init" /\ hist[i].res.calls[1].kw = hist[i].d.kw
      /\ hist[i].res.calls[1].env = NormEnv(LET g == GetRayRuntimeEnv(hist[i].d.env, "ucc" \in hist[i].d.flags) IN IF g = NoEnv THEN hist[i].d.env ELSE g)
      /\ ("ucc" \in hist[i].d.flags => Count(hist[i].res.calls[1].env.pym, PKG) >= 1)
(* ray_init with a module and no session starts one; without the module: silent with ignore_missing, refused otherwise *)
CMissingModule(w, hist) == \A i \in 1..Len(hist) : hist[i].d.act = "ray_init" =>
      IF w.installed THEN (hist[i].res.status = "ok" /\ hist[i].up /\ ((i = 1 \/ ~hist[i - 1].up) => Len(hist[i].res.calls) = 1))
      ELSE hist[i].res.status = (IF "ignore_missing" \in hist[i].d.flags THEN "ok" ELSE "raises")
(* ray_init_cluster: options given by the caller win over the defaults, the defaults come from the environment of the batch
   script (ip_head up to the colon, redis_password), num_cpus is the argument; the environment is only needed for options
   that are not given *)
CClusterOptions(w, hist) == \A i \in 1..Len(hist) : (hist[i].d.act = "ray_init_cluster" /\ (i = 1 \/ ~hist[i - 1].up)) =>
      LET d == hist[i].d
          need == (DefaultKeys \ Keys(d.kw)) \ {"address"}
          have == (IF w.ipHead = <<>> THEN {} ELSE {"_node_ip_address"}) \cup (IF w.redis = "" THEN {} ELSE {"_redis_password"})
      IN IF need \subseteq have
         THEN /\ hist[i].res.status = "ok" /\ Len(hist[i].res.calls) = 1 /\ hist[i].up
              /\ LET kw == hist[i].res.calls[1].kw IN
                 /\ hist[i].res.calls[1].fn = "init"
                 /\ \A p \in d.kw : p \in kw
                 /\ Has(kw, "num_cpus") /\ Val(kw, "num_cpus") = d.num
                 /\ (~Has(d.kw, "address") => (Has(kw, "address") /\ Val(kw, "address") = "auto"))
                 /\ (~Has(d.kw, "_node_ip_address") => (Has(kw, "_node_ip_address") /\ Val(kw, "_node_ip_address") = w.ipHead[1]))
                 /\ (~Has(d.kw, "_redis_password") => (Has(kw, "_redis_password") /\ Val(kw, "_redis_password") = w.redis))
                 /\ Keys(kw) = Keys(d.kw) \cup DefaultKeys \cup {"num_cpus"}
                 /\ Cardinality(kw) = Cardinality(Keys(kw))
              /\ hist[i].res.calls[1].env = NormEnv(LET g == GetRayRuntimeEnv(d.env, "ucc" \in d.flags) IN IF g = NoEnv THEN d.env ELSE g)
         ELSE hist[i].res.status = "raises" /\ hist[i].res.calls = <<>> /\ ~hist[i].up
(* check_ray_initialized / get_ray_cpus_count tell the truth about the session *)
CQueriesTruthful(w, hist) == \A i \in 1..Len(hist) :
      /\ hist[i].d.act = "check_ray_initialized" => (hist[i].res.ret = BoolStr(hist[i].up) /\ hist[i].res.calls = <<>> /\ hist[i].res.status = "ok")
      /\ hist[i].d.act = "get_ray_cpus_count" => (hist[i].res.calls = <<>> /\ hist[i].res.status = "ok" /\ (~hist[i].up => hist[i].res.ret = "1"))
(* run(): remote execution only with parallel=True and a live session; every K-point evaluated exactly once either way *)
CRunParallelOnlyWithRay(w, hist, nk) == \A i \in 1..Len(hist) : hist[i].d.act = "run" =>
      IF hist[i].d.par \notin {"True", "False"} THEN hist[i].res.status = "raises" /\ hist[i].res.tasks + hist[i].res.serial = 0
      ELSE /\ hist[i].res.status = "ok"
           /\ hist[i].res.ret = BoolStr(hist[i].d.par = "True" /\ hist[i].up)
           /\ hist[i].res.tasks + hist[i].res.serial = nk
           /\ (hist[i].res.ret = "False" => (hist[i].res.puts = 0 /\ hist[i].res.tasks = 0))
           /\ (hist[i].res.ret = "True" => (hist[i].res.puts = 4 /\ hist[i].res.serial = 0))
           /\ hist[i].res.calls = <<>>
RayClauses(w, hist, nk) ==
   [ log_well_bracketed |-> CLogWellBracketed(w, hist), not_installed_no_calls |-> CNotInstalledNoCalls(w, hist),
     shutdown_idempotent |-> CShutdownIdempotent(w, hist), live_session_kept |-> CLiveSessionKept(w, hist),
     init_passes_kwargs |-> CInitPassesKwargs(w, hist), missing_module |-> CMissingModule(w, hist),
     cluster_options |-> CClusterOptions(w, hist), queries_truthful |-> CQueriesTruthful(w, hist),
     run_parallel_only_with_ray |-> CRunParallelOnlyWithRay(w, hist, nk) ]

-----------------------------------------------------------------------------
(* B. utils/cluster.py                                                     *)

Placeholders == {"{{JOB_NAME}}", "{{NUM_NODES}}", "{{NUM_CPUS_TEXT}}", "{{NUM_GPUS_PER_NODE}}", "{{PARTITION_NAME}}",
                 "{{COMMAND_PLACEHOLDER}}", "{{GIVEN_NODE}}", "{{COMMAND_SUFFIX}}", "{{LOAD_ENV}}", "{{SLEEP_HEAD}}",
                 "{{SLEEP_WORKER}}", "{{SPILLING}}"}
STAMP == "STAMP"            \* time.strftime("%m%d-%H%M%S") (the harness fixes the clock)

(* the essential lines of the templates (__cluster_template.py): shebang, directives, the environment line, assignments and
   exports of the variables ray_init_cluster needs, control-flow keywords, the ray start commands, the sleeps, the user's
   command.  A line is a sequence of words, a word a sequence of parts (literal text or a placeholder); echo lines,
   comments and the host-discovery boilerplate are not part of the table. *)
SlurmTemplate == <<
     << <<"#!/bin/bash">> >>,
     << <<"#SBATCH">>, <<"--partition=", "{{PARTITION_NAME}}">> >>,
     << <<"#SBATCH">>, <<"--job-name=", "{{JOB_NAME}}">> >>,
     << <<"#SBATCH">>, <<"--output=", "{{JOB_NAME}}", ".log">> >>,
     << <<"{{GIVEN_NODE}}">> >>,
     << <<"#SBATCH">>, <<"--nodes=", "{{NUM_NODES}}">> >>,
     << <<"#SBATCH">>, <<"--exclusive">> >>,
     << <<"#SBATCH">>, <<"--ntasks-per-node=1">> >>,
     << <<"{{NUM_GPUS_PER_NODE}}">> >>,
     << <<"{{LOAD_ENV}}">> >>,
     << <<"assign">>, <<"redis_password">> >>,
     << <<"export">>, <<"redis_password">> >>,
     << <<"if">> >>, << <<"if">> >>, << <<"else">> >>, << <<"fi">> >>, << <<"fi">> >>,
     << <<"assign">>, <<"port">> >>,
     << <<"assign">>, <<"ip_head">> >>,
     << <<"export">>, <<"ip_head">> >>,
     << <<"srun">>, <<"--nodes=1">>, <<"--ntasks=1">>, <<"-w">>, <<"$node_1">>, <<"ray">>, <<"start">>, <<"--head">>,
        <<"--node-ip-address=$ip">>, <<"--port=6379">>, <<"--redis-password=$redis_password">>, <<"{{NUM_CPUS_TEXT}}">>,
        <<"--block">>, <<"{{SPILLING}}">>, <<"&">> >>,
     << <<"sleep">>, <<"{{SLEEP_HEAD}}">> >>,
     << <<"for">> >>,
     << <<"srun">>, <<"--nodes=1">>, <<"--ntasks=1">>, <<"-w">>, <<"$node_i">>, <<"ray">>, <<"start">>, <<"--address">>,
        <<"$ip_head">>, <<"--redis-password=$redis_password">>, <<"{{NUM_CPUS_TEXT}}">>, <<"--block">>, <<"&">> >>,
     << <<"sleep">>, <<"{{SLEEP_WORKER}}">> >>,
     << <<"done">> >>,
     << <<"{{COMMAND_PLACEHOLDER}}">>, <<"{{COMMAND_SUFFIX}}">> >> >>

PbsTemplate == <<
     << <<"#!/bin/bash">> >>,
     << <<"#PBS">>, <<"-N">>, <<"{{JOB_NAME}}">> >>,
     << <<"#PBS">>, <<"-q">>, <<"{{PARTITION_NAME}}">> >>,
     << <<"#PBS">>, <<"-l">>, <<"nodes=", "{{NUM_NODES}}">>, <<"ppn=2">>, <<"{{NUM_GPUS_PER_NODE}}">> >>,
     << <<"#PBS">>, <<"-l">>, <<"walltime=00:10:00">> >>,
     << <<"#PBS">>, <<"-o">>, <<"{{JOB_NAME}}", ".log">> >>,
     << <<"#PBS">>, <<"-e">>, <<"{{JOB_NAME}}", ".err">> >>,
     << <<"export">>, <<"OMP_NUM_THREADS=1">> >>,
     << <<"{{LOAD_ENV}}">> >>,
     << <<"assign">>, <<"redis_password">> >>,
     << <<"export">>, <<"redis_password">> >>,
     << <<"assign">>, <<"port">> >>,
     << <<"assign">>, <<"ip_head">> >>,
     << <<"export">>, <<"ip_head">> >>,
     << <<"for">> >>,
     << <<"if">> >>,
     << <<"ray">>, <<"start">>, <<"--head">>, <<"--node-ip-address=$ip">>, <<"--port=$port">>,
        <<"--redis-password=$redis_password">>, <<"{{NUM_CPUS_TEXT}}">>, <<"--block">>, <<"{{SPILLING}}">>, <<"&">> >>,
     << <<"sleep">>, <<"{{SLEEP_HEAD}}">> >>,
     << <<"else">> >>,
     << <<"ssh">>, <<"$node">>, <<"$ray_command">>, <<"start">>, <<"--address=$ip_head">>,
        <<"--redis-password=$redis_password">>, <<"{{NUM_CPUS_TEXT}}">> >>,
     << <<"sleep">>, <<"{{SLEEP_WORKER}}">> >>,
     << <<"fi">> >>,
     << <<"done">> >>,
     << <<"{{COMMAND_PLACEHOLDER}}">>, <<"{{COMMAND_SUFFIX}}">> >> >>

(* text.replace(placeholder, value) seen on words: a value is a sequence of words; the first is glued to what stands before
   the placeholder inside the word, the last to what follows; an empty value leaves nothing *)
Glue(a, b) == IF a = <<>> THEN b ELSE IF b = <<>> THEN a
              ELSE SubSeq(a, 1, Len(a) - 1) \o << a[Len(a)] \o b[1] >> \o SubSeq(b, 2, Len(b))
RECURSIVE ExpandWord(_, _, _)
ExpandWord(parts, i, env) ==
   IF i > Len(parts) THEN <<>>
   ELSE Glue(IF parts[i] \in DOMAIN env THEN env[parts[i]] ELSE << parts[i] >>, ExpandWord(parts, i + 1, env))
RECURSIVE ExpandLine(_, _, _)
ExpandLine(line, i, env) == IF i > Len(line) THEN <<>> ELSE ExpandWord(line[i], 1, env) \o ExpandLine(line, i + 1, env)
ExpandAll(tpl, env) == SelectSeq([i \in 1..Len(tpl) |-> ExpandLine(tpl[i], 1, env)], LAMBDA l : l # <<>>)

(* the value of --system-config for object spilling.  The argument is single-quoted for the shell; what ray receives must be
   JSON: {"object_spilling_config": "<JSON text of {type, params: {directory_path}} as a string>"}.  Tokens of the JSON
   lexer: { } : , Q (a double quote) BQ (an escaped double quote \") and words.  quoting = "escaped" is valid JSON,
   "raw" is what cluster.py writes. *)
SpillInner(dir, q) == << "{", q, "type", q, ":", q, "filesystem", q, ",", q, "params", q, ":", "{", q, "directory_path", q, ":", q, dir, q, "}", "}" >>
SpillTokens(dir, quoting) == << "{", "Q", "object_spilling_config", "Q", ":", "Q" >>
                             \o SpillInner(dir, IF quoting = "escaped" THEN "BQ" ELSE "Q") \o << "Q", "}" >>
SpillFail == [ok |-> FALSE, dir |-> ""]
(* a JSON string ends at the first unescaped quote *)
ParseSpill(t) ==
   IF Len(t) < 8 \/ SubSeq(t, 1, 6) # << "{", "Q", "object_spilling_config", "Q", ":", "Q" >> THEN SpillFail
   ELSE LET rest == SubSeq(t, 7, Len(t))
            closes == {i \in 1..Len(rest) : rest[i] = "Q"}
        IN IF closes = {} THEN SpillFail
           ELSE LET c == CHOOSE i \in closes : \A j \in closes : i <= j
                    inner == [i \in 1..(c - 1) |-> IF rest[i] = "BQ" THEN "Q" ELSE rest[i]]
                IN IF SubSeq(rest, c + 1, Len(rest)) # << "}" >> \/ Len(inner) # 23 THEN SpillFail
                   ELSE IF inner = SpillInner(inner[20], "Q") THEN [ok |-> TRUE, dir |-> inner[20]] ELSE SpillFail
(* the word as it stands in the script *)
SpillChar(tok) == CASE tok = "Q" -> "\"" [] tok = "BQ" -> "\\\"" [] OTHER -> tok
RECURSIVE Concat(_, _)
Concat(t, i) == IF i > Len(t) THEN "" ELSE SpillChar(t[i]) \o Concat(t, i + 1)
SpillWord(dir, quoting) == "--system-config='" \o Concat(SpillTokens(dir, quoting), 1) \o "'"

BatchOf(bs) == CASE bs \in {"slurm", "SLURM", "Slurm"} -> "slurm" [] bs \in {"pbs", "PBS"} -> "pbs" [] OTHER -> "none"
SubmitCommand(b) == IF b = "slurm" THEN "sbatch" ELSE "qsub"
JobName(a) == a.exp \o "_" \o STAMP

(* switches of the script generator: the documented one is GoodScript with quoting "escaped"; cluster.py today is "raw" *)
GoodScript == [quoting |-> "escaped", headBackground |-> TRUE, sleepsSwapped |-> FALSE, cpusOnWorkers |-> TRUE, envFirst |-> FALSE]

ScriptEnv(a, b, V) ==
   [ p \in Placeholders |->
     CASE p = "{{JOB_NAME}}" -> << JobName(a) >>
       [] p = "{{NUM_NODES}}" -> << a.nodes >>
       [] p = "{{NUM_CPUS_TEXT}}" -> IF a.cpus = "None" THEN <<>> ELSE << "--num-cpus=" \o a.cpus >>
       [] p = "{{NUM_GPUS_PER_NODE}}" -> IF a.gpus = "0" THEN <<>>
                                         ELSE IF b = "slurm" THEN << "#SBATCH", "--gpus-per-task=" \o a.gpus >> ELSE << "gpus=" \o a.gpus >>
       [] p = "{{PARTITION_NAME}}" -> << a.partition >>
       [] p = "{{COMMAND_PLACEHOLDER}}" -> a.command
       [] p = "{{GIVEN_NODE}}" -> IF a.node = "" THEN <<>> ELSE << "#SBATCH", "-w", a.node >>
       [] p = "{{COMMAND_SUFFIX}}" -> <<>>
       [] p = "{{LOAD_ENV}}" -> a.loadenv
       [] p = "{{SLEEP_HEAD}}" -> << IF V.sleepsSwapped THEN a.sleepw[1] ELSE a.sleeph[1] >>
       [] p = "{{SLEEP_WORKER}}" -> << IF V.sleepsSwapped THEN a.sleeph[1] ELSE a.sleepw[1] >>
       [] p = "{{SPILLING}}" -> IF a.spill = "" THEN <<>> ELSE << SpillWord(a.spill, V.quoting) >> ]

IsHead(l) == "--head" \in Range(l) /\ "start" \in Range(l)
IsWorker(l) == "start" \in Range(l) /\ "--head" \notin Range(l) /\ ({"--address", "--address=$ip_head"} \cap Range(l) # {})
Mutate(tab, a, V) ==
   LET t1 == [i \in 1..Len(tab) |-> IF IsHead(tab[i]) /\ ~V.headBackground THEN SelectSeq(tab[i], LAMBDA x : x # "&")
                                    ELSE IF IsWorker(tab[i]) /\ ~V.cpusOnWorkers THEN SelectSeq(tab[i], LAMBDA x : x # "--num-cpus=" \o a.cpus)
                                    ELSE tab[i]]
   IN IF V.envFirst /\ a.loadenv # <<>> THEN << t1[1], a.loadenv >> \o SelectSeq(SubSeq(t1, 2, Len(t1)), LAMBDA l : l # a.loadenv) ELSE t1

(* sleep values (hundredths of a second) of the sleep lines, in order, as <<line, value>>; a.sleeph = <<text, hundredths>> *)
SleepVal(a, word) == IF word = a.sleeph[1] THEN a.sleeph[2] ELSE IF word = a.sleepw[1] THEN a.sleepw[2] ELSE 0 - 1
SleepsOf(tab, a) == LET idx == SelectSeq([i \in 1..Len(tab) |-> i], LAMBDA i : tab[i][1] = "sleep")
                    IN [k \in 1..Len(idx) |-> << idx[k], SleepVal(a, tab[idx[k]][2]) >>]

(* main(argv) -> what can be observed: status ("ok", "refused": ValueError for an unknown batch system, "usage": argparse
   exits), the essential token table of the script, sleeps, lexed spilling argument, words that still carry a placeholder,
   the submit command line(s), the script file name, whether the returned text is the file's content *)
NoScript(status) == [status |-> status, table |-> <<>>, sleeps |-> <<>>, spill |-> <<>>, unreplaced |-> <<>>, popen |-> <<>>,
                     fname |-> "", same |-> TRUE, nfiles |-> 0]
ClusterMain(a, V) ==
   LET b == BatchOf(a.bs) IN
   IF a.missing # {} THEN NoScript("usage")
   ELSE IF b = "none" THEN NoScript("refused")
   ELSE LET tab == Mutate(ExpandAll(IF b = "slurm" THEN SlurmTemplate ELSE PbsTemplate, ScriptEnv(a, b, V)), a, V)
            fname == JobName(a) \o ".sh"
        IN [status |-> "ok", table |-> tab, sleeps |-> SleepsOf(tab, a),
            spill |-> IF a.spill = "" THEN <<>> ELSE SpillTokens(a.spill, V.quoting), unreplaced |-> <<>>,
            popen |-> IF a.submit THEN << << SubmitCommand(b), fname >> >> ELSE <<>>, fname |-> fname, same |-> TRUE, nfiles |-> 1]

(* ---- what a generated script must satisfy (evaluated on the specification's table and on the real one) *)
DirWord(b) == IF b = "slurm" THEN "#SBATCH" ELSE "#PBS"
IsDirective(l) == l[1] \in {"#SBATCH", "#PBS"}
IsCommand(l) == ~IsDirective(l) /\ l[1] # "#!/bin/bash"
Lines(T, P(_)) == {i \in 1..Len(T) : P(T[i])}
NextCommand(T, i) == IF i < Len(T) THEN T[i + 1] ELSE <<>>
SleepAt(R, i) == IF \E s \in Range(R.sleeps) : s[1] = i THEN (CHOOSE s \in Range(R.sleeps) : s[1] = i)[2] ELSE 0 - 2
RequiredDirectives(a, b) ==
   IF b = "slurm" THEN { << "--partition=" \o a.partition >>, << "--job-name=" \o JobName(a) >>, << "--output=" \o JobName(a) \o ".log" >>,
                         << "--nodes=" \o a.nodes >>, << "--ntasks-per-node=1" >> }
                       \cup (IF a.node = "" THEN {} ELSE { << "-w", a.node >> })
                       \cup (IF a.gpus = "0" THEN {} ELSE { << "--gpus-per-task=" \o a.gpus >> })
   ELSE { << "-N", JobName(a) >>, << "-q", a.partition >>, << "-o", JobName(a) \o ".log" >>, << "-e", JobName(a) \o ".err" >> }
ScriptClauses(a, R) ==
   LET b == BatchOf(a.bs)
       T == R.table
       H == Lines(T, IsHead)
       W == Lines(T, IsWorker)
       D == Lines(T, IsDirective)
       C == Lines(T, IsCommand)
       cmd == {i \in 1..Len(T) : T[i] = a.command}
       cpusWord == "--num-cpus=" \o a.cpus
       valid == a.missing = {} /\ b # "none"
   IN
   [ status        |-> R.status = (IF a.missing # {} THEN "usage" ELSE IF b = "none" THEN "refused" ELSE "ok"),
     refusal_writes_nothing |-> ~valid => (R.nfiles = 0 /\ R.popen = <<>>),
     shebang_first |-> valid => (Len(T) > 0 /\ T[1] = << "#!/bin/bash" >>),
     directives_before_commands |-> valid => \A i \in D : \A j \in C : i < j,
     directive_system |-> valid => (D # {} /\ \A i \in D : T[i][1] = DirWord(b)),
     required_directives |-> valid => RequiredDirectives(a, b) \subseteq {SubSeq(T[i], 2, Len(T[i])) : i \in D},
     pbs_resources |-> (valid /\ b = "pbs") => \E i \in D : /\ T[i][2] = "-l" /\ ("nodes=" \o a.nodes) \in Range(T[i])
                                                           /\ (a.gpus # "0" => ("gpus=" \o a.gpus) \in Range(T[i])),
     no_gpu_request_without_gpus |-> (valid /\ a.gpus = "0") => \A i \in D : \A x \in Range(T[i]) : x \notin {"--gpus-per-task=0", "gpus=0"},
     one_head      |-> valid => Cardinality(H) = 1,
     head_in_background |-> valid => \A i \in H : ("--block" \in Range(T[i]) => T[i][Len(T[i])] = "&"),
     head_then_sleep |-> valid => \A i \in H : (NextCommand(T, i) # <<>> /\ NextCommand(T, i)[1] = "sleep" /\ SleepAt(R, i + 1) = a.sleeph[2]),
     workers_after_head |-> valid => (W # {} /\ \A i \in H : \A j \in W : i < j),
     worker_then_sleep |-> valid => \A j \in W : (NextCommand(T, j) # <<>> /\ NextCommand(T, j)[1] = "sleep" /\ SleepAt(R, j + 1) = a.sleepw[2]),
     worker_block_in_background |-> valid => \A j \in W : ("--block" \in Range(T[j]) => T[j][Len(T[j])] = "&"),
     same_password |-> valid => \A i \in H \cup W : "--redis-password=$redis_password" \in Range(T[i]),
     cpus_everywhere |-> valid => \A i \in H \cup W : (a.cpus # "None") = (cpusWord \in Range(T[i])),
     exports_for_ray_init_cluster |-> valid => \A v \in ClusterEnvVars :
                        \E i \in 1..Len(T) : /\ T[i] = << "export", v >>
                                             /\ \E k \in 1..(i - 1) : T[k] = << "assign", v >>
                                             /\ \A j \in cmd : i < j,
     command_last  |-> valid => (cmd # {} /\ Len(T) \in cmd /\ \A j \in H \cup W : \A c \in cmd : j < c),
     load_env_placed |-> (valid /\ a.loadenv # <<>>) => \E i \in 1..Len(T) : T[i] = a.loadenv /\ (\A d \in D : d < i) /\ (\A h \in H : i < h),
     nothing_unreplaced |-> valid => R.unreplaced = <<>>,
     spilling_is_json |-> (valid /\ a.spill # "") => ParseSpill(R.spill) = [ok |-> TRUE, dir |-> a.spill],
     spilling_iff_asked |-> valid => (R.spill # <<>>) = (a.spill # ""),
     submit        |-> valid => R.popen = (IF a.submit THEN << << SubmitCommand(b), R.fname >> >> ELSE <<>>),
     file          |-> valid => (R.fname = JobName(a) \o ".sh" /\ R.same /\ R.nfiles = 1) ]
FailedScriptClauses(a, R) == LET c == ScriptClauses(a, R) IN {k \in DOMAIN c : ~c[k]}

-----------------------------------------------------------------------------
(* C. run(): options before the first K-point                              *)

(* o = [grid: "grid" | "tetra" | "path", calcs: "both" | "gridonly" | "pathonly" | "mixed", irred, sym, restart, allow, dump: BOOL,
        niter: Int, fac: 1.., mesh: <<m1, m2, m3>> (an int is <<m, m, m>> with meshInt = TRUE) or <<>> for None, meshInt: BOOL,
        dir: "absent" | "stale" | "restartable", klpath: "None" | "given", nkfull, nkirr: K-points of the grid without / with symmetry,
        pdiv: prod(grid.div)] *)
Compatible(o) == IF o.grid = "path" THEN o.calcs \in {"both", "pathonly"} ELSE o.calcs \in {"both", "gridonly"}
MeshProd(o) == IF o.meshInt THEN o.mesh[1] ELSE o.mesh[1] * o.mesh[2] * o.mesh[3]          \* np.prod(adpt_mesh) of an int is the int
MeshMax(o) == IF o.mesh = <<>> THEN 0 ELSE IF o.mesh[1] >= o.mesh[2] /\ o.mesh[1] >= o.mesh[3] THEN o.mesh[1]
              ELSE IF o.mesh[2] >= o.mesh[3] THEN o.mesh[2] ELSE o.mesh[3]
(* adpt_num_iter < 0: round(-n prod(div) / prod(mesh) / fac / 3) *)
NegNum(o) == (0 - o.niter) * o.pdiv
NegDen(o) == MeshProd(o) * o.fac * 3
NegIterTie(o) == o.niter < 0 /\ o.mesh # <<>> /\ (2 * NegNum(o)) % NegDen(o) = 0 /\ ((2 * NegNum(o)) \div NegDen(o)) % 2 = 1
NegIterNoMesh(o) == o.niter < 0 /\ o.mesh = <<>>                 \* TypeError today; nothing is documented: excluded
EffIter(o) == IF o.mesh = <<>> \/ MeshMax(o) <= 1 THEN 0
              ELSE IF o.niter >= 0 THEN o.niter ELSE (2 * NegNum(o) + NegDen(o)) \div (2 * NegDen(o))
PathRefine(o) == o.grid = "path" /\ EffIter(o) > 0               \* refinement of a path is not supported: excluded
PathRestart(o) == o.grid = "path" /\ o.restart /\ o.dir = "restartable"
RunSwitches == [irredForcesSym |-> TRUE, dumpForcesAllow |-> TRUE, pathStoresNothing |-> TRUE]
RunOptions(o, V) ==
   LET sym == IF o.grid = "path" THEN FALSE ELSE (o.sym \/ (V.irredForcesSym /\ o.irred))
       dump == IF o.grid = "path" /\ V.pathStoresNothing THEN FALSE ELSE o.dump
       allow == IF o.grid = "path" /\ V.pathStoresNothing THEN FALSE ELSE (o.allow \/ (V.dumpForcesAllow /\ dump))
       n == EffIter(o)
       nk0 == IF o.grid = "path" THEN o.nkfull ELSE IF o.irred THEN o.nkirr ELSE o.nkfull
       refused == ~Compatible(o) \/ (o.restart /\ o.dir # "restartable")
   IN IF refused THEN [status |-> "refused", sym |-> FALSE, allow |-> FALSE, dump |-> FALSE, niter |-> 0, saved |-> {}, evals0 |-> 0,
                       symcalls0 |-> 0, diract |-> "none", marker |-> o.dir # "absent", pickle |-> o.dir = "restartable", kpfiles |-> FALSE,
                       dirExists |-> o.dir # "absent"]
      ELSE [status |-> "ok", sym |-> sym, allow |-> allow, dump |-> dump, niter |-> n,
            saved |-> IF o.restart THEN 1..n ELSE 0..n,
            evals0 |-> IF o.restart THEN 0 ELSE nk0,                          \* calculator calls of the first iteration
            symcalls0 |-> IF o.restart \/ ~sym THEN 0 ELSE nk0,               \* pointgroup.symmetrize calls of the first iteration
            diract |-> IF o.restart THEN "read" ELSE IF allow \/ dump THEN "recreate" ELSE "none",
            marker |-> o.dir # "absent" /\ (o.restart \/ ~(allow \/ dump)),   \* a foreign file in the directory survives
            pickle |-> IF ~o.restart /\ (allow \/ dump) THEN allow ELSE o.dir = "restartable",     \* K_list.pickle exists afterwards
            kpfiles |-> dump /\ (~o.restart \/ n > 0),                        \* per-K-point result files exist afterwards
            dirExists |-> o.dir # "absent" \/ allow \/ dump]
RunLaws(o, r) ==
   [ refusal_before_evaluation |-> r.status = "refused" => (r.evals0 = 0 /\ r.saved = {} /\ r.diract = "none"
                                                            /\ r.marker = (o.dir # "absent") /\ r.dirExists = (o.dir # "absent")),
     refused_iff |-> (r.status = "refused") = (~Compatible(o) \/ (o.restart /\ o.dir # "restartable")),
     irred_symmetrizes |-> (r.status = "ok" /\ o.grid # "path" /\ o.irred) => r.sym,           \* docstring of symmetrize
     sym_as_asked |-> (r.status = "ok" /\ o.grid # "path" /\ ~o.irred) => r.sym = o.sym,
     path_plain    |-> (r.status = "ok" /\ o.grid = "path") => (~r.sym /\ ~r.allow /\ ~r.dump /\ r.diract # "recreate"),
     dump_implies_restartable |-> (r.status = "ok" /\ r.dump) => (r.allow /\ r.pickle /\ (~o.restart => r.kpfiles)),
     stored_iff_allowed |-> (r.status = "ok" /\ ~o.restart /\ o.dir # "restartable") => (r.pickle = r.allow /\ r.kpfiles = r.dump),
     iterations    |-> r.status = "ok" => (r.niter >= 0 /\ r.saved = (IF o.restart THEN 1..r.niter ELSE 0..r.niter)),
     no_mesh_no_refinement |-> (r.status = "ok" /\ MeshMax(o) <= 1) => r.niter = 0,
     asked_iterations |-> (r.status = "ok" /\ MeshMax(o) > 1 /\ o.niter >= 0) => r.niter = o.niter,
     fresh_run_clears |-> (r.status = "ok" /\ ~o.restart /\ (r.allow \/ r.dump)) => ~r.marker,      \* "removed if it exists and restart=False"
     restart_keeps |-> (r.status = "ok" /\ o.restart) => (r.marker /\ r.pickle /\ r.evals0 = 0),
     symmetry_reduces |-> (r.status = "ok" /\ ~o.restart) => r.evals0 = (IF o.grid # "path" /\ o.irred THEN o.nkirr ELSE o.nkfull),
     symmetrize_each |-> r.status = "ok" => r.symcalls0 = (IF r.sym THEN r.evals0 ELSE 0) ]
FailedRunLaws(o, r) == LET c == RunLaws(o, r) IN {k \in DOMAIN c : ~c[k]}
=============================================================================
