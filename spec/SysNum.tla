------------------------------- MODULE SysNum -------------------------------
(* Exact numbers for the system-algebra specification (SysAlg): TLC has 32-bit integers and no reals.
     Gaussian integers  <<re, im>>            hopping amplitudes, Fourier phases at k-points with denominators | 4
     matrices           M[a][b], 1-based      (sequences of sequences of Gaussian integers)
     characteristic polynomials by Faddeev-LeVerrier (exact integer division): spectra are compared through them,
     so no eigen-solver is needed
     Z[zeta8]           <<a0, a1, a2, a3>>, zeta^4 = -1   half-angle spin rotations for angles that are multiples of pi/2 *)
EXTENDS Integers, Sequences, FiniteSets, SequencesExt, FiniteSetsExt, TLC

(* ---------------------------------------------------------------- Gaussian integers *)
GZ == <<0, 0>>
G1 == <<1, 0>>
GI == <<0, 1>>
GInt(n) == <<n, 0>>
GAdd(x, y) == <<x[1] + y[1], x[2] + y[2]>>
GSub(x, y) == <<x[1] - y[1], x[2] - y[2]>>
GNeg(x) == <<-x[1], -x[2]>>
GConj(x) == <<x[1], -x[2]>>
GMul(x, y) == <<x[1] * y[1] - x[2] * y[2], x[1] * y[2] + x[2] * y[1]>>
GScale(n, x) == <<n * x[1], n * x[2]>>
GDivisible(x, n) == x[1] % n = 0 /\ x[2] % n = 0
GDiv(x, n) == <<x[1] \div n, x[2] \div n>>                 \* exact when GDivisible(x, n)
IPow(n) == CASE n % 4 = 0 -> <<1, 0>> [] n % 4 = 1 -> <<0, 1>> [] n % 4 = 2 -> <<-1, 0>> [] OTHER -> <<0, -1>>
(* x times i^n *)
GRot(x, n) == LET r == n % 4 IN CASE r = 0 -> x [] r = 1 -> <<-x[2], x[1]>> [] r = 2 -> <<-x[1], -x[2]>> [] OTHER -> <<x[2], -x[1]>>
GSum(s) == FoldLeft(GAdd, GZ, s)
GIsReal(x) == x[2] = 0

(* ---------------------------------------------------------------- square matrices
   TLC evaluates function constructors lazily and re-evaluates their body at every application; TLCEval makes every
   matrix an explicit value (without it the nested products of CharPoly are re-computed exponentially often). *)
Mat(n, f(_, _)) == TLCEval([a \in 1..n |-> TLCEval([b \in 1..n |-> f(a, b)])])
Vec(n, f(_)) == TLCEval([a \in 1..n |-> f(a)])
MatZero(n) == Mat(n, LAMBDA a, b : GZ)
MatId(n) == Mat(n, LAMBDA a, b : IF a = b THEN G1 ELSE GZ)
MatAdd(A, B) == Mat(Len(A), LAMBDA a, b : GAdd(A[a][b], B[a][b]))
MatSub(A, B) == Mat(Len(A), LAMBDA a, b : GSub(A[a][b], B[a][b]))
MatScale(g, A) == Mat(Len(A), LAMBDA a, b : GMul(g, A[a][b]))
MatDivisible(A, n) == \A a, b \in 1..Len(A) : GDivisible(A[a][b], n)
MatDiv(A, n) == Mat(Len(A), LAMBDA a, b : GDiv(A[a][b], n))
MatMul(A, B) == Mat(Len(A), LAMBDA a, b : GSum([c \in 1..Len(A) |-> GMul(A[a][c], B[c][b])]))
MatDag(A) == Mat(Len(A), LAMBDA a, b : GConj(A[b][a]))
MatTrace(A) == GSum([a \in 1..Len(A) |-> A[a][a]])
IsHermitian(A) == \A a, b \in 1..Len(A) : A[a][b] = GConj(A[b][a])
IsUnitary(U) == MatMul(MatDag(U), U) = MatId(Len(U))
Conjugate(U, A) == MatMul(MatDag(U), MatMul(A, U))           \* U^dagger A U
(* P^T A P for the permutation "new index a is old index p[a]" *)
PermuteMat(A, p) == Mat(Len(A), LAMBDA a, b : A[p[a]][p[b]])
(* A (x) 1_2 with interlaced spin ordering: index 2(a-1)+s *)
Kron2(A) == Mat(2 * Len(A), LAMBDA x, y : IF (x - 1) % 2 = (y - 1) % 2 THEN A[(x + 1) \div 2][(y + 1) \div 2] ELSE GZ)
(* up and down blocks interlaced: [2a-1][2b-1] = A, [2a][2b] = B *)
Interlace(A, B) == Mat(2 * Len(A), LAMBDA x, y :
               IF (x - 1) % 2 # (y - 1) % 2 THEN GZ
               ELSE IF x % 2 = 1 THEN A[(x + 1) \div 2][(y + 1) \div 2] ELSE B[(x + 1) \div 2][(y + 1) \div 2])

(* ---------------------------------------------------------------- characteristic polynomial
   p(x) = x^n + c[1] x^(n-1) + ... + c[n];  Faddeev-LeVerrier: M_1 = 1, c_k = -tr(A M_k)/k, M_(k+1) = A M_k + c_k 1.
   The divisions are exact over the integers. *)
RECURSIVE FLV(_, _, _, _)
FLV(A, M, k, cs) ==
   LET AM == MatMul(A, M)
       ck == GDiv(GNeg(MatTrace(AM)), k)
   IN IF k = Len(A) THEN Append(cs, ck)
      ELSE FLV(A, MatAdd(AM, MatScale(ck, MatId(Len(A)))), k + 1, Append(cs, ck))
CharPoly(A) == FLV(A, MatId(Len(A)), 1, <<>>)
CharPolyReal(A) == \A j \in 1..Len(A) : GIsReal(CharPoly(A)[j])
(* product of two monic polynomials given by their lower coefficients *)
PolyCoef(p, j) == IF j = 0 THEN G1 ELSE IF j > Len(p) THEN GZ ELSE p[j]
PolyMul(p, q) == Vec(Len(p) + Len(q), LAMBDA j : GSum([m \in 1..(j + 1) |-> GMul(PolyCoef(p, m - 1), PolyCoef(q, j - m + 1))]))

(* ---------------------------------------------------------------- Z[zeta8], zeta = exp(i pi/4) *)
ZZ == <<0, 0, 0, 0>>
ZAdd(x, y) == <<x[1] + y[1], x[2] + y[2], x[3] + y[3], x[4] + y[4]>>
ZNeg(x) == <<-x[1], -x[2], -x[3], -x[4]>>
ZMulZeta(x) == <<-x[4], x[1], x[2], x[3]>>
RECURSIVE ZMulZetaN(_, _)
ZMulZetaN(x, n) == IF n % 8 = 0 THEN x ELSE ZMulZetaN(ZMulZeta(x), (n % 8) - 1)
ZetaPow(n) == ZMulZetaN(<<1, 0, 0, 0>>, n)
ZScale(n, x) == <<n * x[1], n * x[2], n * x[3], n * x[4]>>
ZMul(x, y) == ZAdd(ZAdd(ZScale(x[1], y), ZScale(x[2], ZMulZeta(y))),
                   ZAdd(ZScale(x[3], ZMulZetaN(y, 2)), ZScale(x[4], ZMulZetaN(y, 3))))
ZConj(x) == <<x[1], -x[4], -x[3], -x[2]>>
ZFromG(g) == <<g[1], 0, g[2], 0>>
ZIsG(x) == x[2] = 0 /\ x[4] = 0
ZToG(x) == <<x[1], x[3]>>
ZSum(s) == FoldLeft(ZAdd, ZZ, s)
(* 2 cos(m pi/4) and 2 sin(m pi/4) *)
TwoCos(m) == ZAdd(ZetaPow(m), ZetaPow(-m))
TwoSin(m) == ZMulZetaN(ZAdd(ZetaPow(m), ZNeg(ZetaPow(-m))), 6)        \* (zeta^m - zeta^-m) / i
=============================================================================
