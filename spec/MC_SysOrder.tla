----------------------------- MODULE MC_SysOrder -----------------------------
(* X02: a store holding one small exact system, with the ordering / spin / sparse / R-list operations of System_R and
   Rvectors as actions; every sequence of at most MAXLEN actions from every catalogue system.  `hist` keeps the behaviour
   (one state = one behaviour); every entry carries the characteristic polynomials of H(k) after the action and the set of
   laws that failed for this step (evaluated by TLC on the specification's operators: empty for a correct specification,
   non-empty for the wrong variants of the switches).  Every state is executed on the real code by the harness. *)
EXTENDS SysOrder
CONSTANTS SYSTEMS,      \* catalogue ids
          MAXLEN,       \* number of actions per behaviour
          ACTS          \* names of the enabled actions
VARIABLES sys, pairs, hist
vars == <<sys, pairs, hist>>

X1 == <<1, 0, 0>>
Y1 == <<0, 1, 0>>
Z1 == <<0, 0, 1>>
mX1 == <<-1, 0, 0>>
mY1 == <<0, -1, 0>>
mZ1 == <<0, 0, -1>>
(* the k-points (quarters) at which spectra are recorded *)
KS == << <<0, 0, 0>>, <<1, 2, 0>>, <<2, 1, 3>> >>

(* an element list: <<R, a, b, z>> stands for Ham(R)[a][b] = z *)
HermEnts(E) == E \cup {<<VNeg(e[1]), e[3], e[2], GConj(e[4])>> : e \in E}
MkHam(rv, nw, E) == Tensor(Len(rv), nw, LAMBDA r, a, b :
                        << IF \E e \in E : e[1] = rv[r] /\ e[2] = a /\ e[3] = b
                           THEN (CHOOSE e \in E : e[1] = rv[r] /\ e[2] = a /\ e[3] = b)[4] ELSE GZ >>)
MkSys(nw, rv, cen, E) == [nw |-> nw, rv |-> rv, cen |-> cen, sl |-> cen, sr |-> cen, mats |-> [k \in {"Ham"} |-> MkHam(rv, nw, E)]]
C1 == <<0, 0, 0>>
C2 == <<2, 2, 0>>
C3 == <<1, 0, 2>>
Sys0(id) ==
   CASE id = "s1" -> MkSys(1, <<Z3, X1, mX1>>, << <<1, 0, 0>> >>, HermEnts({<<Z3, 1, 1, <<2, 0>>>>, <<X1, 1, 1, <<1, 1>>>>}))
     [] id = "s2" -> MkSys(2, <<X1, Z3, mX1, Y1, mY1>>, <<C1, <<2, 1, 0>>>>,
                          HermEnts({<<Z3, 1, 1, <<1, 0>>>>, <<Z3, 2, 2, <<-1, 0>>>>, <<Z3, 1, 2, <<0, 1>>>>, <<X1, 1, 2, <<1, 1>>>>,
                                    <<Y1, 2, 2, <<2, 0>>>>, <<Y1, 1, 1, <<1, 0>>>>}))
     [] id = "s3" -> MkSys(3, <<Z3, X1, mX1, Z1, mZ1>>, <<C1, <<2, 0, 0>>, <<0, 2, 2>>>>,
                          HermEnts({<<Z3, 1, 1, <<2, 0>>>>, <<Z3, 3, 3, <<-1, 0>>>>, <<Z3, 1, 2, <<1, 0>>>>, <<Z3, 2, 3, <<0, -1>>>>,
                                    <<X1, 1, 3, <<2, 1>>>>, <<Z1, 2, 2, <<1, 0>>>>, <<Z1, 3, 1, <<1, -1>>>>}))
     (* spinful, block ordering (all up, then all down); functions of one orbital share the centre *)
     [] id = "b2" -> MkSys(2, <<Z3, Y1, mY1>>, << <<1, 1, 0>>, <<1, 1, 0>> >>,
                          HermEnts({<<Z3, 1, 1, <<1, 0>>>>, <<Z3, 2, 2, <<-1, 0>>>>, <<Z3, 1, 2, <<0, 1>>>>, <<Y1, 1, 2, <<1, 0>>>>, <<Y1, 1, 1, <<0, 1>>>>}))
     [] id = "b4" -> MkSys(4, <<mX1, Z3, X1>>, <<C1, C2, C1, C2>>,
                          HermEnts({<<Z3, 1, 1, <<1, 0>>>>, <<Z3, 2, 2, <<2, 0>>>>, <<Z3, 3, 3, <<-1, 0>>>>, <<Z3, 4, 4, <<-2, 0>>>>,
                                    <<Z3, 1, 2, <<1, 0>>>>, <<Z3, 3, 4, <<1, 0>>>>, <<Z3, 1, 4, <<0, 1>>>>,
                                    <<X1, 1, 2, <<1, 1>>>>, <<X1, 3, 4, <<1, -1>>>>, <<X1, 2, 3, <<2, 0>>>>}))
     [] id = "b6" -> MkSys(6, <<Z3, X1, mX1>>, <<C1, C2, C3, C1, C2, C3>>,
                          HermEnts({<<Z3, 1, 1, <<1, 0>>>>, <<Z3, 2, 2, <<2, 0>>>>, <<Z3, 3, 3, <<-1, 0>>>>, <<Z3, 4, 4, <<-1, 0>>>>,
                                    <<Z3, 5, 5, <<1, 0>>>>, <<Z3, 6, 6, <<2, 0>>>>, <<Z3, 1, 2, <<1, 0>>>>, <<Z3, 2, 3, <<0, 1>>>>,
                                    <<Z3, 4, 5, <<1, 0>>>>, <<Z3, 5, 6, <<0, -1>>>>, <<Z3, 1, 5, <<1, 1>>>>,
                                    <<X1, 1, 3, <<1, 0>>>>, <<X1, 4, 6, <<1, 0>>>>, <<X1, 2, 6, <<0, 2>>>>}))
     (* R-vectors stored with zero matrices (+-z), R = 0 not first *)
     [] id = "z2" -> MkSys(2, <<Z1, Z3, X1, mX1, mZ1>>, <<C1, <<0, 0, 2>>>>,
                          HermEnts({<<Z3, 1, 1, <<1, 0>>>>, <<Z3, 2, 2, <<3, 0>>>>, <<X1, 1, 2, <<2, 1>>>>, <<X1, 1, 1, <<1, 0>>>>}))
     (* not Hermitian, +x has no partner in the list *)
     [] id = "n2" -> MkSys(2, <<Z3, X1, Y1, mY1>>, <<C1, <<2, 0, 0>>>>,
                          {<<Z3, 1, 2, <<1, 2>>>>, <<Z3, 2, 1, <<0, 1>>>>, <<Z3, 1, 1, <<1, 0>>>>, <<X1, 1, 1, <<1, 1>>>>, <<X1, 2, 1, <<2, 0>>>>,
                           <<Y1, 1, 2, <<0, -1>>>>, <<mY1, 1, 2, <<3, 0>>>>})

NoLaws == {}
Failed(L) == {n \in DOMAIN L : ~L[n]}
Entry(op, arg, cp, bad) == [op |-> op, arg |-> arg, cp |-> cp, bad |-> bad]
Init == \E id \in SYSTEMS : /\ sys = Sys0(id) /\ pairs = <<>>
                            /\ hist = <<Entry("init", id, Spectra(Sys0(id), KS), NoLaws)>>
Room == Len(hist) <= MAXLEN
Bool(b) == IF b THEN "T" ELSE "F"
(* cp: the spectra of the new system, computed once per step (\E cp \in {Spectra(new, KS)}) *)
Step(op, arg, s, p, cp, bad) == sys' = s /\ pairs' = p /\ hist' = Append(hist, Entry(op, arg, cp, bad))
LastCp == hist[Len(hist)].cp
AllPartnered(s) == \A r \in 1..NR(s) : Partners(s.rv, r) # {}

(* where the functions named by `pairs` are after the re-ordering "new index a holds old index p[a]" *)
NewIndex(p, old) == (CHOOSE a \in 1..Len(p) : p[a] = old + 1) - 1
MovePairs(p) == [n \in 1..Len(pairs) |-> <<NewIndex(p, pairs[n][1]), NewIndex(p, pairs[n][2])>>]

(* spin_block2interlace(backward) / spin_interlace2block(backward) *)
DoB2I(which, bw) ==
   /\ Room /\ which \in ACTS /\ sys.nw % 2 = 0
   /\ \E new \in {IF which = "b2i" THEN SpinBlock2Interlace(sys, bw) ELSE SpinInterlace2Block(sys, bw)} :
        \E cp \in {Spectra(new, KS)} :
        LET toInterlace == (which = "b2i") # bw
            p == B2IMapping(sys.nw, ~toInterlace)
            L == [ labels |-> LabelsLaw(sys, new, toInterlace),
                   inverse |-> (IF which = "b2i" THEN SpinInterlace2Block(new, bw) ELSE SpinBlock2Interlace(new, bw)) = sys,
                   backward_inverse |-> (IF which = "b2i" THEN SpinBlock2Interlace(new, ~bw) ELSE SpinInterlace2Block(new, ~bw)) = sys,
                   spectrum |-> cp = LastCp,
                   shifts |-> ShiftsFollow(sys) => ShiftsFollow(new),
                   rlist |-> new.rv = sys.rv ]
        IN Step(which, Bool(bw), new, MovePairs(p), cp, Failed(L))
(* reorder(reversed order): covered by C05, here for the compositions *)
Reversal(n) == [a \in 1..n |-> n + 1 - a]
DoReorder ==
   /\ Room /\ "reorder" \in ACTS /\ sys.nw > 1
   /\ \E new \in {Reorder(sys, Reversal(sys.nw))} :
        \E cp \in {Spectra(new, KS)} :
        LET L == [ involution |-> Reorder(new, Reversal(sys.nw)) = sys, spectrum |-> cp = LastCp,
                   shifts |-> ShiftsFollow(sys) => ShiftsFollow(new) ]
        IN Step("reorder", "rev", new, MovePairs(Reversal(sys.nw)), cp, Failed(L))
DoDoubleSpin ==
   /\ Room /\ "double_spin" \in ACTS /\ sys.nw <= 3 /\ "SS" \notin Keys(sys) /\ Has(sys.rv, Z3)
   /\ \E res \in {DoubleSpin(sys)} :
        \E cp \in {Spectra(res.sys, KS)} :
        LET new == res.sys
            pr == InterlacedPairs(new.nw)
            r0 == FirstAt(new.rv, Z3)
            L == [ ok |-> res.err = "", size |-> new.nw = 2 * sys.nw, shifts |-> ShiftsFollow(sys) => ShiftsFollow(new),
                   pauli |-> PauliAlgebra([c \in 1..3 |-> SpinMat(new.mats["SS"], r0, new.nw, c)], new.nw, pr),
                   only_r0 |-> SSOnlyAtR0(new),
                   spectrum |-> \A n \in 1..Len(KS) : cp[n] = PolyMul(LastCp[n], LastCp[n]) ]
        IN Step("double_spin", "", new, pr, cp, Failed(L))
PairsOf(kind, nw) ==
   CASE kind = "interlaced" -> InterlacedPairs(nw)
     [] kind = "block" -> [n \in 1..(nw \div 2) |-> <<n - 1, n - 1 + (nw \div 2)>>]
     [] kind = "partial" -> << <<1, 0>> >>                    \* one pair, the down function first
DoSpinPairs(kind) ==
   /\ Room /\ "spin_pairs" \in ACTS /\ sys.nw % 2 = 0 /\ Has(sys.rv, Z3)
   /\ \E res \in {IF kind = "interlaced" THEN SetSpinInterlaced(sys) ELSE SetSpinPairs(sys, PairsOf(kind, sys.nw))} :
        \E cp \in {Spectra(res.sys, KS)} :
        LET new == res.sys
            pr == PairsOf(kind, sys.nw)
            r0 == FirstAt(new.rv, Z3)
            L == [ ok |-> res.err = "",
                   pauli |-> PauliAlgebra([c \in 1..3 |-> SpinMat(new.mats["SS"], r0, new.nw, c)], new.nw, pr),
                   only_r0 |-> SSOnlyAtR0(new),
                   same_as_pairs |-> kind = "interlaced" => res = SetSpinPairs(sys, pr),
                   ham_untouched |-> new.mats["Ham"] = sys.mats["Ham"] /\ new.rv = sys.rv /\ new.cen = sys.cen,
                   (* pairing the block-ordered functions and interlacing = interlacing and pairing neighbours *)
                   commutes_with_b2i |-> kind = "block" =>
                        SpinBlock2Interlace(new, FALSE) = SetSpinPairs(SpinBlock2Interlace(sys, FALSE), InterlacedPairs(sys.nw)).sys ]
        IN Step("spin_pairs", kind, new, pr, cp, Failed(L))
Axis(id) == CASE id = "z" -> <<0, 0, 1>> [] id = "x2" -> <<2, 0, 0>> [] id = "my3" -> <<0, -3, 0>>
UnitOf(ax) == [c \in 1..3 |-> IF ax[c] > 0 THEN 1 ELSE IF ax[c] < 0 THEN -1 ELSE 0]       \* axes along a coordinate axis only
AltSpins(nw) == [a \in 1..nw |-> IF a % 2 = 1 THEN 1 ELSE -1]
DoSpinEigen(ax) ==
   /\ Room /\ "spin_eigen" \in ACTS /\ Has(sys.rv, Z3)
   /\ \E res \in {SetSpinEigenstates(sys, AltSpins(sys.nw), UnitOf(Axis(ax)), TRUE)} :
        \E cp \in {Spectra(res.sys, KS)} :
        LET new == res.sys
            r0 == FirstAt(new.rv, Z3)
            u == UnitOf(Axis(ax))
            L == [ ok |-> res.err = "", only_r0 |-> SSOnlyAtR0(new),
                   along_axis |-> \A a \in 1..new.nw : \A b \in 1..new.nw :
                        GSum([c \in 1..3 |-> GScale(u[c], new.mats["SS"][r0][a][b][c])]) = IF a = b THEN GInt(AltSpins(new.nw)[a]) ELSE GZ,
                   hermitian |-> HermitianKey(new, "SS"),
                   refused_without_reset |-> "SS" \in Keys(sys) => SetSpinEigenstates(sys, AltSpins(sys.nw), u, FALSE).err = "RuntimeError",
                   ham_untouched |-> new.mats["Ham"] = sys.mats["Ham"] ]
        IN Step("spin_eigen", ax, new, <<>>, cp, Failed(L))
(* thresholds: key -> T2 (|x| >= min_value <=> 2 |x|^2 >= T2) *)
MinValues(id) == CASE id = "h1" -> [k \in {"Ham"} |-> 1]            \* every non-zero element
                   [] id = "h3" -> [k \in {"Ham"} |-> 3]            \* |x|^2 >= 2
                   [] id = "h9" -> [k \in {"Ham"} |-> 9]            \* |x|^2 >= 5
                   [] id = "hs" -> [k \in {"Ham", "SS"} |-> 1]              \* both matrices, every non-zero element
DoSparse(id) ==
   /\ Room /\ "sparse" \in ACTS /\ DOMAIN MinValues(id) \subseteq Keys(sys) /\ NoDup(sys.rv)
   /\ \E new \in {SparseRoundTrip(sys, MinValues(id))} :
        /\ "Ham" \in Keys(new)                                       \* something of the Hamiltonian survives
        /\ \E cp \in {Spectra(new, KS)} :
           LET mv == MinValues(id)
               L == [ no_tie |-> NoTie(sys, mv),
                      round_trip |-> LawSparse(sys, new, mv),
                      idempotent |-> LET mv2 == [k \in DOMAIN mv \cap Keys(new) |-> mv[k]] IN          \* (a matrix of which nothing survived is not set)
                                     GetSparse(new, mv2).matrices = [k \in DOMAIN mv2 |-> GetSparse(sys, mv).matrices[k]],
                      spectrum |-> id = "h1" => cp = LastCp ]
           IN Step("sparse", id, new, IF "SS" \in Keys(new) THEN pairs ELSE <<>>, cp, Failed(L))
(* _XX_R, rvec = rvec.exclude_zeros(_XX_R, tolerance) (the last step of do_ws_dist) *)
DoExcludeZeros(T2) ==
   /\ Room /\ "exclude_zeros" \in ACTS
   /\ \E res \in {RvExcludeZeros(sys.rv, sys.mats, T2)} :
        /\ Len(res.rv) >= 1
        /\ \E cp \in {Spectra([sys EXCEPT !.rv = res.rv, !.mats = res.mats], KS)} :
           LET new == [sys EXCEPT !.rv = res.rv, !.mats = res.mats]
               E == ExcludeLaws(sys.rv, sys.mats, new.rv, new.mats, T2)
               L == [ nothing_lost |-> E.nothing_lost, no_zero_left |-> E.no_zero_left, values |-> E.values, no_dup |-> E.no_dup,
                      order_kept |-> OrderKept(new.rv, sys.rv),
                      idempotent |-> RvExcludeZeros(new.rv, new.mats, T2) = [rv |-> new.rv, mats |-> new.mats],
                      spectrum |-> T2 = 0 => cp = LastCp,
                      empty_dict |-> RvExcludeZeros(sys.rv, <<>>, T2).rv = sys.rv ]
           IN Step("exclude_zeros", ToString(T2), new, pairs, cp, Failed(L))
(* X := conj_XX_R(X) for every matrix (set_R_mat(key, ..., reset=True)) *)
ConjPoly(p) == [j \in 1..Len(p) |-> GConj(p[j])]
DoConj ==
   /\ Room /\ "conj" \in ACTS /\ NoDup(sys.rv)
   /\ \E new \in {[sys EXCEPT !.mats = [k \in Keys(sys) |-> RvConjXXR(sys.rv, sys.mats[k], sys.nw, NComp(k))]]} :
        \E cp \in {Spectra(new, KS)} :
        LET rr == RvReverseR(sys.rv)
            twice == [k \in Keys(sys) |-> RvConjXXR(new.rv, new.mats[k], new.nw, NComp(k))]
            L == [ reverse_valid |-> rr.err = "" /\ ReverseRValid(sys.rv, rr.lstR, rr.lstmR),
                   (* twice = the original on the R-vectors that have a partner, zero on the others *)
                   involution |-> \A k \in Keys(sys) : \A r \in 1..NR(sys) :
                                     twice[k][r] = IF Partners(sys.rv, r) # {} THEN sys.mats[k][r] ELSE MatZeroE(sys.nw, NComp(k)),
                   hermitian_fixed |-> \A k \in Keys(sys) : HermitianKey(sys, k) => new.mats[k] = sys.mats[k],
                   fixed_is_hermitian |-> \A k \in Keys(sys) : (AllPartnered(sys) /\ new.mats[k] = sys.mats[k]) => HermitianKey(sys, k),
                   spectrum |-> AllPartnered(sys) => cp = [n \in 1..Len(KS) |-> ConjPoly(LastCp[n])] ]
        IN Step("conj", "", new, pairs, cp, Failed(L))
Next == \/ \E w \in {"b2i", "i2b"} : \E bw \in BOOLEAN : DoB2I(w, bw)
        \/ DoReorder \/ DoDoubleSpin \/ DoConj
        \/ \E kind \in {"interlaced", "block", "partial"} : DoSpinPairs(kind)
        \/ \E ax \in {"z", "x2", "my3"} : DoSpinEigen(ax)
        \/ \E id \in {"h1", "h3", "h9", "hs"} : DoSparse(id)
        \/ \E T2 \in {0, 3} : DoExcludeZeros(T2)
Spec == Init /\ [][Next]_vars

(* ------------------------------------------------------------------ invariants *)
(* every law of every step holds *)
LawsHold == \A n \in 1..Len(hist) : hist[n].bad = {}
(* the arrays fit the lists *)
Shapes == /\ Len(sys.cen) = sys.nw /\ Len(sys.sl) = sys.nw /\ Len(sys.sr) = sys.nw
          /\ \A k \in Keys(sys) : Len(sys.mats[k]) = NR(sys) /\ \A r \in 1..NR(sys) : Len(sys.mats[k][r]) = sys.nw
(* the shifts of the Rvectors object are the centres, whatever was done to the order of the functions *)
ShiftsFollowCentres == ShiftsFollow(sys)
(* while the system carries the spin matrices of a pairing, they obey the Pauli algebra for the pairs where they are now *)
SpinConsistent == (pairs # <<>> /\ "SS" \in Keys(sys) /\ Has(sys.rv, Z3)) =>
                     PauliAlgebra([c \in 1..3 |-> SpinMat(sys.mats["SS"], FirstAt(sys.rv, Z3), sys.nw, c)], sys.nw, pairs)
(* index maps of the current R-list *)
IndexMaps == NoDup(sys.rv) =>
               /\ \A r \in 1..NR(sys) : RvIR(sys.rv, sys.rv[r]) = Ok(r - 1) /\ RvIndexR(sys.rv)[sys.rv[r]] = r - 1
               /\ LET rr == RvReverseR(sys.rv) IN rr.err = "" /\ ReverseRValid(sys.rv, rr.lstR, rr.lstmR)
(* the spectrum recorded for the state is real (Hermitian systems only) *)
RealSpectrum == HermitianKey(sys, "Ham") => \A n \in 1..Len(KS) : \A j \in 1..sys.nw : GIsReal(hist[Len(hist)].cp[n][j])
=============================================================================
