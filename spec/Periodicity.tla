----------------------------- MODULE Periodicity -----------------------------
(* C04. Part A: the Bloch sum of the code, H_ab(k) = sum_R H_ab(R) exp(2 pi i k.R) (no Wannier-centre phases:
   fourier/rvectors.py set_fft_R_to_k / apply_expdK with integer iRvec), evaluated exactly for Gaussian-integer hoppings
   on the mesh k = kn/4 (phases are powers of i), at k and at k + G for reciprocal lattice vectors G (kn + 4 G).
   Part B: which blocks the random gauge of Data_K (random_gauge=True) may mix - Data_K.degen - and why tabulated /
   integrated quantities cannot notice: every such block lies inside one block over which the calculators trace
   (Bands.Borders with the calculator's degen_thresh), provided degen_thresh_random_gauge <= degen_thresh.
   Units of part B: energies are integers; the integer th stands for the threshold th + 1/2 (the harness passes
   (th + 1/2) x unit to the real code), so that `gap > th` here is the same as `gap > th + 1/2` and as `gap >= th + 1/2`:
   no gap equals a threshold and the model does not depend on the strictness of the comparison in the implementation. *)
EXTENDS Bands

CAdd(x, y) == <<x[1] + y[1], x[2] + y[2]>>
CConj(x) == <<x[1], -x[2]>>
(* z * i^n *)
IPow(z, n) == LET m == n % 4 IN
              CASE m = 0 -> z [] m = 1 -> <<-z[2], z[1]>> [] m = 2 -> <<-z[1], -z[2]>> [] m = 3 -> <<z[2], -z[1]>>
Dagger(M, nw) == [a \in 1..nw |-> [b \in 1..nw |-> CConj(M[b][a])]]
IsHermitianM(M, nw) == M = Dagger(M, nw)
Dot(k, R) == k[1] * R[1] + k[2] * R[2]

(* a model: nw, onsite block h0 (Hermitian), hop vectors Rs[j] (2-D integer) with matrices Ts[j]; H(-R_j) = Ts[j]^dagger *)
RECURSIVE HopSum(_, _, _, _, _, _)
HopSum(nw, Rs, Ts, kn, a, b) ==
   IF Rs = <<>> THEN <<0, 0>>
   ELSE CAdd(CAdd(IPow(Ts[1][a][b], Dot(kn, Rs[1])), IPow(CConj(Ts[1][b][a]), -Dot(kn, Rs[1]))),
             HopSum(nw, Tail(Rs), Tail(Ts), kn, a, b))
(* kn = numerators of k over 4 (any integers) *)
Hk(nw, h0, Rs, Ts, kn) == [a \in 1..nw |-> [b \in 1..nw |-> CAdd(h0[a][b], HopSum(nw, Rs, Ts, kn, a, b))]]
Shifted(kn, G) == <<kn[1] + 4 * G[1], kn[2] + 4 * G[2]>>
PeriodicAt(nw, h0, Rs, Ts, kn, GS) == \A g1, g2 \in GS : Hk(nw, h0, Rs, Ts, Shifted(kn, <<g1, g2>>)) = Hk(nw, h0, Rs, Ts, kn)

-----------------------------------------------------------------------------
(* Data_K.degen: borders where the gap exceeds the threshold; only blocks with more than one band are kept *)
DegenRG(E, th) == SelectSeq(Borders(E, th, FALSE), LAMBDA g : g[2] - g[1] > 1)
InBlock(g, n) == g[1] <= n /\ n < g[2]                   \* 0-based band n in the half-open block g
(* pairs of (0-based) bands that Data_K.UU_K may mix *)
MayMix(E, th) == LET rg == DegenRG(E, th) IN
                 {p \in (0..(Len(E) - 1)) \X (0..(Len(E) - 1)) : \E j \in 1..Len(rg) : InBlock(rg[j], p[1]) /\ InBlock(rg[j], p[2])}
(* named precondition of the gauge part of C04 *)
GaugeWithinTrace(thg, thc) == thg <= thc
InsideTraceBlocks(E, thg, thc) ==
   LET rg == DegenRG(E, thg) tb == Borders(E, thc, FALSE) IN
   \A j \in 1..Len(rg) : \E k \in 1..Len(tb) : tb[k][1] <= rg[j][1] /\ rg[j][2] <= tb[k][2]
(* calculators created with degen_Kramers = TRUE trace over Borders(E, thc, TRUE): the threshold borders with the odd ones
   removed, i.e. unions of threshold groups - a degenerate subspace larger than one pair (a four-fold point) stays whole.
   StrictPairBlocks = the plausible wrong reading "all bands come in pairs" (must-fail variant). *)
InsideBlocks(rg, tb) == \A j \in 1..Len(rg) : \E k \in 1..Len(tb) : tb[k][1] <= rg[j][1] /\ rg[j][2] <= tb[k][2]
InsideKramersTraceBlocks(E, thg, thc) == InsideBlocks(DegenRG(E, thg), Borders(E, thc, TRUE))
StrictPairBlocks(E) == [j \in 1..((Len(E) + 1) \div 2) |-> <<2 * (j - 1), IF 2 * j <= Len(E) THEN 2 * j ELSE Len(E)>>]
(* what makes a list of blocks the set of degenerate multiplets *)
IsMultipletList(E, rg, th) ==
   /\ \A j \in 1..Len(rg) : rg[j][2] - rg[j][1] > 1 /\ 0 <= rg[j][1] /\ rg[j][2] <= Len(E)
   /\ \A j \in 1..(Len(rg) - 1) : rg[j][2] <= rg[j + 1][1]
   /\ InternalGapsSmall(E, rg, th)
   /\ \A j \in 1..Len(rg) : /\ (rg[j][1] > 0 => E[rg[j][1] + 1] - E[rg[j][1]] > th)
                            /\ (rg[j][2] < Len(E) => E[rg[j][2] + 1] - E[rg[j][2]] > th)
   /\ \A n \in 1..(Len(E) - 1) : E[n + 1] - E[n] <= th => \E j \in 1..Len(rg) : InBlock(rg[j], n - 1) /\ InBlock(rg[j], n)
(* Fermi-sea block (0, bandmax) of StaticCalculator (data_K.get_bands_in_range_groups_ik with sea=True) *)
SeaBlockEnd(E, thc, emin, emax) ==
   LET inr == GroupsInRange(E, thc, FALSE, emin, emax) b0 == BandsBelow(E, emin) IN
   IF Len(inr) > 0 /\ inr[1][1] < b0 THEN inr[1][1] ELSE b0
SeaNeverCuts(E, thg, thc, emin, emax) ==
   LET rg == DegenRG(E, thg) e == SeaBlockEnd(E, thc, emin, emax) IN \A j \in 1..Len(rg) : ~(rg[j][1] < e /\ e < rg[j][2])
-----------------------------------------------------------------------------
(* grid/tetrahedron.py: TetraWeights.weights_all_band_groups, Fermi-sea branch (der = 0): the band blocks over which a
   tetrahedron calculator traces its formula at one k-point of the grid.
     E   centre energies (sorted), Elo / Ehi  per band the minimum / maximum over the centre and the corners of the k-cell
     th  threshold of the calculator (groups are decided at the cell CENTRE), ef0 <= ef1 lowest / highest Fermi level.
   All energies in half units (centre energies even, Fermi levels and thresholds odd): no comparison is ever a tie.
     bands_in_range = get_bands_in_range(eFermi[0], eFermi[-1], eCenter, Ebandmin = Emin, Ebandmax = Emax): whole groups
     bandmax        = get_bands_below_range(eFermi[0], eCenter, Ebandmax = Emax): per BAND (last band whose corner maximum
                      is below the lowest Fermi level), then clipped to the beginning of the first group in range
     (Emin = -inf: bandmin = 0).  Variant clip = FALSE: the clip is missing (must-fail: the fully occupied block may end
   inside a degenerate group whose degeneracy is lifted in the corners). *)
SeqMaxOn(s, g) == LET S == {s[n + 1] : n \in g[1]..(g[2] - 1)} IN CHOOSE x \in S : \A y \in S : y <= x
SeqMinOn(s, g) == LET S == {s[n + 1] : n \in g[1]..(g[2] - 1)} IN CHOOSE x \in S : \A y \in S : x <= y
TetraInRange(E, Elo, Ehi, th, ef0, ef1) ==
   SelectSeq(Borders(E, th, FALSE), LAMBDA g : SeqMaxOn(Ehi, g) >= ef0 /\ SeqMinOn(Elo, g) <= ef1)
TetraBandsBelow(Ehi, e) == LET S == {n \in 1..Len(Ehi) : Ehi[n] < e} IN IF S = {} THEN 0 ELSE CHOOSE n \in S : \A m \in S : m <= n
TetraTraced(E, Elo, Ehi, th, ef0, ef1, clip) ==
   LET inr == TetraInRange(E, Elo, Ehi, th, ef0, ef1)
       b0 == TetraBandsBelow(Ehi, ef0)
       bmax == IF clip /\ Len(inr) > 0 /\ inr[1][1] < b0 THEN inr[1][1] ELSE b0
   IN IF bmax > 0 THEN inr \o << <<0, bmax>> >> ELSE inr
(* C04: a traced block must be a union of whole blocks of the random gauge (it may not cut one) *)
Cuts(t, g) == (\E n \in g[1]..(g[2] - 1) : InBlock(t, n)) /\ (\E n \in g[1]..(g[2] - 1) : ~InBlock(t, n))
UnionsOfMultiplets(traced, rg) == \A a \in 1..Len(traced) : \A b \in 1..Len(rg) : ~Cuts(traced[a], rg[b])
=============================================================================
