------------------------------ MODULE ParityAlg ------------------------------
(* C08: declared time-reversal / inversion transformations of the k-resolved formulas.

   Two independent tables are built and compared by TLC:
     DeclOf(f)    - transcription of HOW THE CODE arrives at formula.transformTR / transformInv
                    (hard-coded constants in formula/*.py, data_K.get_transform_TR/Inv for covariant matrices and their
                     comma / generalised derivatives, TransformProduct in FormulaProduct, first-term rule + assertion in
                     FormulaSum, pass-through in DeltaProduct, calculator-level overrides in calculators/dynamic.py)
     Derived(f)   - what the transformation has to be, derived from the physical composition of the quantity out of
                    elementary objects with known behaviour under k -> -k:
                        H (energy)  TR even, I even          S (spin)  TR odd, I even
                        A (position / Berry connection, interband)  TR even, I odd
                    d/dk flips both parities; a (real / symmetrised) product multiplies parities; an "imaginary" product
                    Im sum X_nl Y_ln (= expectation of -i[X,Y], e.g. the Kubo form of the Berry curvature) multiplies the
                    inversion parities and multiplies the TR parities with an extra -1 (TR is antiunitary);
                    complex pair tensors X_nm,a X_mn,b are transposed by TR; response tensors obey Onsager.
   A Transform is [factor in {1,-1}, conj, axes] as symmetry/point_symmetry.py:Transform (axes = transpose_axes, <<>> = None). *)
EXTENDS Integers, Sequences, FiniteSets, TLC

NoAxes == <<>>
Tr(f, c, ax) == [factor |-> f, conj |-> c, axes |-> ax]
transform_ident         == Tr(1, FALSE, NoAxes)
transform_odd           == Tr(-1, FALSE, NoAxes)
transform_odd_conj      == Tr(-1, TRUE, NoAxes)
transform_odd_trans_021 == Tr(-1, FALSE, <<0, 2, 1>>)
transform_odd_trans_102 == Tr(-1, FALSE, <<1, 0, 2>>)
transform_trans         == Tr(1, FALSE, <<1, 0>>)
NoneT  == Tr(0, FALSE, NoAxes)      \* Python None (no declaration)
RaiseT == Tr(2, FALSE, NoAxes)      \* the constructor raises
Predefined == {transform_ident, transform_odd, transform_odd_conj, transform_odd_trans_021, transform_odd_trans_102, transform_trans}
IsTransform(t) == t.factor \in {1, -1}

(* symmetry/point_symmetry.py: TransformProduct *)
RECURSIVE ProdFactor(_)
ProdFactor(ts) == IF ts = <<>> THEN 1 ELSE ts[1].factor * ProdFactor(Tail(ts))
TransformProduct(ts) ==
   IF \E j \in 1..Len(ts) : ~IsTransform(ts[j]) THEN RaiseT
   ELSE IF \E j \in 1..Len(ts) : ts[j].conj # ts[1].conj THEN RaiseT
   ELSE IF \E j \in 1..Len(ts) : ts[j].axes # NoAxes THEN RaiseT
   ELSE Tr(ProdFactor(ts), ts[1].conj, NoAxes)

(* data_K/data_K.py: get_transform_Inv / get_transform_TR *)
InvEvenNames == {"Ham", "CC", "FF", "OO", "GG", "SS", "rotAA", "rotAAab", "CCab_antisym"}
TREvenNames  == {"Ham"}
TROddNames   == {"CC", "FF", "OO", "GG", "SS", "rotAA", "rotAAab", "CCab_antisym"}
NoneNames    == {"D", "AA", "BB", "CCab"}
FromP(p, der) == IF (p + der) % 2 = 1 THEN transform_odd ELSE transform_ident
get_transform_Inv(name, der) ==
   IF name \in InvEvenNames THEN FromP(0, der) ELSE IF name \in NoneNames THEN NoneT ELSE RaiseT
get_transform_TR(name, der) ==
   IF name \in TREvenNames THEN FromP(0, der) ELSE IF name \in TROddNames THEN FromP(1, der)
   ELSE IF name \in NoneNames THEN NoneT ELSE RaiseT

Pair(t, i) == [tr |-> t, inv |-> i]

-----------------------------------------------------------------------------
(* declaration rules: how the code computes the pair (transformTR, transformInv) *)
Const(t, i)        == <<"const", t, i>>
Cov(name, cd, gd)  == <<"cov", name, cd, gd>>     \* data_K.covariant(name, commader=cd, gender=gd)
Ref(f)             == <<"ref", f>>                \* another catalogued formula class
ProdOf(rs)         == <<"prod", rs>>              \* FormulaProduct
SumOf(rs)          == <<"sum", rs>>               \* FormulaSum
Same(r)            == <<"same", r>>               \* DeltaProduct / copying the __dict__ of a covariant matrix
Vel                == Cov("Ham", 1, 0)

-----------------------------------------------------------------------------
(* physical compositions *)
El(n)       == <<"el", n>>
Dk(e)       == <<"dk", e>>
Mul(es)     == <<"mul", es>>
Com(a, b)   == <<"com", a, b>>
Plus(es)    == <<"plus", es>>
PairT(e)    == <<"pair", e>>          \* complex tensor X_nm,a X_mn,b of one Hermitian operator X
ScalPair(s, e) == <<"scalpair", s, e>> \* scalar(-vector) factor times such a pair tensor: axes (0; 1,2)
Cond(nq)    == <<"cond", nq>>         \* conductivity sigma_ab expanded to order nq in the wave vector (Onsager)
Lit(p)      == <<"lit", p>>           \* a quantity of already known parities p = <<TR, I>>
ElemPar == [H |-> <<1, 1>>, S |-> <<-1, 1>>, A |-> <<1, -1>>, one |-> <<1, 1>>]

RECURSIVE Par(_)
RECURSIVE ParMul(_)
RECURSIVE ParAllEqual(_, _)
ParMul(es) == IF es = <<>> THEN <<1, 1>> ELSE LET p == Par(es[1]) q == ParMul(Tail(es)) IN <<p[1] * q[1], p[2] * q[2]>>
ParAllEqual(es, p) == es = <<>> \/ (Par(es[1]) = p /\ ParAllEqual(Tail(es), p))
(* <<TR parity, inversion parity>> of a scalar-type (band-traced, real) quantity; <<0,0>> = inconsistent sum *)
Par(e) ==
   CASE e[1] = "el"   -> ElemPar[e[2]]
     [] e[1] = "lit"  -> e[2]
     [] e[1] = "dk"   -> LET p == Par(e[2]) IN <<-p[1], -p[2]>>
     [] e[1] = "mul"  -> ParMul(e[2])
     [] e[1] = "com"  -> LET p == Par(e[2]) q == Par(e[3]) IN <<-p[1] * q[1], p[2] * q[2]>>
     [] e[1] = "plus" -> IF ParAllEqual(e[2], Par(e[2][1])) THEN Par(e[2][1]) ELSE <<0, 0>>
FromPar(s) == Tr(s, FALSE, NoAxes)
Derived(e) ==
   CASE e[1] = "pair" -> LET p == Par(e[2]) IN Pair(Tr(p[1] * p[1], FALSE, <<1, 0>>), Tr(p[2] * p[2], FALSE, NoAxes))
     [] e[1] = "scalpair" -> LET s == Par(e[2]) p == Par(e[3]) IN
                             Pair(Tr(s[1] * p[1] * p[1], FALSE, <<0, 2, 1>>), Tr(s[2] * p[2] * p[2], FALSE, NoAxes))
     [] e[1] = "cond" -> LET sg == IF e[2] % 2 = 0 THEN 1 ELSE -1 IN
                         Pair(Tr(sg, FALSE, IF e[2] = 0 THEN <<1, 0>> ELSE <<1, 0>> \o [j \in 1..e[2] |-> j + 1]), Tr(sg, FALSE, NoAxes))
     [] OTHER -> LET p == Par(e) IN Pair(FromPar(p[1]), FromPar(p[2]))

-----------------------------------------------------------------------------
(* the catalogue: every formula class that a calculator uses (or that declares a transformation) *)
pV    == Dk(El("H"))
pOm   == Com(pV, pV)                         \* Omega_n = -2 Im sum v_nl v_ln / dE^2
pMorbH == Com(pV, Mul(<<El("H"), pV>>))
pMorb == Plus(<<pMorbH, Mul(<<El("H"), pOm>>)>>)
pSV   == Mul(<<El("S"), pV>>)                \* spin velocity {S, v}/2
pQM   == Mul(<<pV, pV>>)                     \* quantum metric: Re sum v_nl v_ln / dE^2
odd   == transform_odd
ide   == transform_ident
F(d, p, k) == [decl |-> d, phys |-> p, kind |-> k]    \* kind: "ln" (Formula_ln, real trace) | "dyn" (trace_ln pairs)

Catalogue == [
   Identity  |-> F(Const(ide, ide), El("one"), "ln"),
   Eavln     |-> F(Const(ide, ide), El("H"), "ln"),
   Hamiltonian |-> F(Same(Cov("Ham", 0, 0)), El("H"), "ln"),
   Velocity  |-> F(Same(Cov("Ham", 0, 1)), pV, "ln"),
   InvMass   |-> F(Const(ide, ide), Dk(pV), "ln"),
   DerWln    |-> F(Const(odd, odd), Dk(Dk(pV)), "ln"),
   Der3E     |-> F(Const(odd, odd), Dk(Dk(pV)), "ln"),
   Omega     |-> F(Const(odd, ide), pOm, "ln"),
   DerOmega  |-> F(Const(ide, odd), Dk(pOm), "ln"),
   Der2Omega |-> F(Const(odd, ide), Dk(Dk(pOm)), "ln"),
   Spin      |-> F(Same(Cov("SS", 0, 0)), El("S"), "ln"),
   DerSpin   |-> F(Same(Cov("SS", 0, 1)), Dk(El("S")), "ln"),
   Der2Spin  |-> F(Const(odd, ide), Dk(Dk(El("S"))), "ln"),
   Morb_H    |-> F(Const(odd, ide), pMorbH, "ln"),
   Morb_Hpm  |-> F(Const(odd, ide), pMorb, "ln"),
   morb      |-> F(Const(odd, ide), pMorb, "ln"),
   DerMorb_H |-> F(Const(ide, odd), Dk(pMorbH), "ln"),
   DerMorb   |-> F(Const(ide, odd), Dk(pMorb), "ln"),
   Dermorb   |-> F(Const(ide, odd), Dk(pMorb), "ln"),
   Der2Morb_H |-> F(Const(odd, ide), Dk(Dk(pMorbH)), "ln"),
   Der2Morb  |-> F(Const(odd, ide), Dk(Dk(pMorb)), "ln"),
   Der2morb  |-> F(Const(odd, ide), Dk(Dk(pMorb)), "ln"),
   SpinVelocity |-> F(Const(ide, odd), pSV, "ln"),
   SpinOmega |-> F(Const(ide, ide), Com(pSV, pV), "ln"),
   VelOmega  |-> F(ProdOf(<<Vel, Ref("Omega")>>), Mul(<<pV, pOm>>), "ln"),
   VelHplus  |-> F(ProdOf(<<Vel, Ref("Morb_Hpm")>>), Mul(<<pV, pMorb>>), "ln"),
   VelSpin   |-> F(ProdOf(<<Vel, Ref("Spin")>>), Mul(<<pV, El("S")>>), "ln"),
   VelVel    |-> F(ProdOf(<<Vel, Vel>>), Mul(<<pV, pV>>), "ln"),
   VelVelVel |-> F(ProdOf(<<Vel, Vel, Vel>>), Mul(<<pV, pV, pV>>), "ln"),
   MassVel   |-> F(ProdOf(<<Ref("InvMass"), Vel>>), Mul(<<Dk(pV), pV>>), "ln"),
   MassMass  |-> F(ProdOf(<<Ref("InvMass"), Ref("InvMass")>>), Mul(<<Dk(pV), Dk(pV)>>), "ln"),
   VelMassVel |-> F(ProdOf(<<Vel, Ref("InvMass"), Vel>>), Mul(<<pV, Dk(pV), pV>>), "ln"),
   OmegaS    |-> F(ProdOf(<<Ref("Omega"), Ref("Spin")>>), Mul(<<pOm, El("S")>>), "ln"),
   OmegaOmega |-> F(ProdOf(<<Ref("Omega"), Ref("Omega")>>), Mul(<<pOm, pOm>>), "ln"),
   OmegaHplus |-> F(ProdOf(<<Ref("Omega"), Ref("Morb_Hpm")>>), Mul(<<pOm, pMorb>>), "ln"),
   emcha_surf |-> F(LET f1 == ProdOf(<<Ref("InvMass"), Ref("Omega"), Vel>>)
                        f2 == ProdOf(<<Vel, Ref("DerOmega"), Vel>>)
                        tmp == SumOf(<<f2, f1>>)
                    IN SumOf(<<tmp, Same(f1), Same(tmp), Same(f2), f2>>),
                    Plus(<<Mul(<<pV, Dk(pOm), pV>>), Mul(<<Dk(pV), pOm, pV>>)>>), "ln"),
   NLDrude_Z_spin |-> F(SumOf(<<ProdOf(<<Ref("Der3E"), Ref("Spin")>>), ProdOf(<<Ref("Der2Spin"), Vel>>)>>),
                        Plus(<<Mul(<<Dk(Dk(pV)), El("S")>>), Mul(<<Dk(Dk(El("S"))), pV>>)>>), "ln"),
   NLDrude_Z_orb_Hplus |-> F(SumOf(<<ProdOf(<<Ref("Der3E"), Ref("Morb_Hpm")>>), ProdOf(<<Ref("Der2Morb"), Vel>>)>>),
                        Plus(<<Mul(<<Dk(Dk(pV)), pMorb>>), Mul(<<Dk(Dk(pMorb)), pV>>)>>), "ln"),
   NLDrude_Z_orb_Omega |-> F(SumOf(<<ProdOf(<<Ref("Der3E"), Ref("Omega")>>), ProdOf(<<Ref("Der2Omega"), Vel>>)>>),
                        Plus(<<Mul(<<Dk(Dk(pV)), pOm>>), Mul(<<Dk(Dk(pOm)), pV>>)>>), "ln"),
   QuantumMetric_ab |-> F(Const(ide, ide), pQM, "ln"),
   DerQuantumMetric_ab_d |-> F(Const(odd, odd), Dk(pQM), "ln"),
   VelDQM    |-> F(ProdOf(<<Vel, Ref("DerQuantumMetric_ab_d")>>), Mul(<<pV, Dk(pQM)>>), "ln"),
   tildeFc   |-> F(Const(odd, ide), pOm, "ln"),
   tildeHGc  |-> F(Const(odd, ide), pMorb, "ln"),
   tildeFc_d |-> F(Const(ide, odd), Dk(pOm), "ln"),
   tildeHGc_d |-> F(Const(ide, odd), Dk(pMorb), "ln"),
   Der_morb  |-> F(Const(ide, odd), Dk(pMorb), "ln"),
   Formula_dyn_ident |-> F(Const(ide, ide), El("one"), "dyn"),
   Formula_OptCond |-> F(Const(transform_trans, ide), PairT(El("A")), "dyn"),
   Formula_SHC |-> F(Const(ide, ide), Mul(<<pSV, El("A")>>), "dyn"),
   ShiftCurrentFormula |-> F(Const(ide, odd), Com(Dk(El("A")), El("A")), "dyn"),
   InjectionCurrent |-> F(Const(transform_odd_trans_021, odd), ScalPair(pV, El("A")), "dyn"),
   Formula_SDCT_sea_I |-> F(Const(transform_odd_trans_102, odd), Cond(1), "dyn"),
   Formula_SDCT_sea_II |-> F(Const(transform_odd_trans_102, odd), Cond(1), "dyn"),
   Formula_SDCT_surf_I |-> F(Const(transform_odd_trans_102, odd), Cond(1), "dyn"),
   Formula_SDCT_surf_II |-> F(Const(transform_odd_trans_102, odd), Cond(1), "dyn") ]
Formulas == DOMAIN Catalogue

(* NESTED compositions (input class of C08): a FormulaProduct one of whose factors is itself a FormulaProduct / FormulaSum /
   DeltaProduct (their transformTR / transformInv are then TransformProduct INSTANCES, not the module constants), as they
   arise when a user passes such a formula to StaticCalculator(Formula=...) / Tabulator(Formula=...).  The product rule is
   applied recursively over the tree: the parity of a product is the product of the parities of its factors. *)
pMV == Mul(<<Dk(pV), pV>>)
dMassVel == ProdOf(<<Ref("InvMass"), Vel>>)
Nested == [
   N_MassVel_Vel     |-> F(ProdOf(<<Ref("MassVel"), Vel>>), Mul(<<pMV, pV>>), "ln"),                      \* odd inner product
   N_VelVelVel_Vel   |-> F(ProdOf(<<Ref("VelVelVel"), Vel>>), Mul(<<Mul(<<pV, pV, pV>>), pV>>), "ln"),     \* odd inner product
   N_MassVel_Omega   |-> F(ProdOf(<<Ref("MassVel"), Ref("Omega")>>), Mul(<<pMV, pOm>>), "ln"),             \* odd x (TR-odd constant)
   N_VelVel_Vel      |-> F(ProdOf(<<Ref("VelVel"), Vel>>), Mul(<<Mul(<<pV, pV>>), pV>>), "ln"),            \* even inner product
   N_VelVel_MassVel  |-> F(ProdOf(<<Ref("VelVel"), Ref("MassVel")>>), Mul(<<Mul(<<pV, pV>>), pMV>>), "ln"),  \* two inner products
   N_Sum_Vel         |-> F(ProdOf(<<SumOf(<<dMassVel, dMassVel>>), Vel>>), Mul(<<Plus(<<pMV, pMV>>), pV>>), "ln"),   \* odd inner FormulaSum
   N_Delta_Omega     |-> F(ProdOf(<<Same(dMassVel), Ref("Omega")>>), Mul(<<pMV, pOm>>), "ln"),             \* odd inner DeltaProduct
   N_MassVelVel_Vel  |-> F(ProdOf(<<ProdOf(<<Ref("MassVel"), Vel>>), Vel>>), Mul(<<Mul(<<pMV, pV>>), pV>>), "ln") ]   \* depth 3
NestedNames == DOMAIN Nested
AllNames == Formulas \cup NestedNames
Entry(f) == IF f \in Formulas THEN Catalogue[f] ELSE Nested[f]

RECURSIVE DeclOf(_)
RECURSIVE DeclSeq(_)
DeclSeq(rs) == IF rs = <<>> THEN <<>> ELSE <<DeclOf(rs[1])>> \o DeclSeq(Tail(rs))
TRs(ds) == [j \in 1..Len(ds) |-> ds[j].tr]
INVs(ds) == [j \in 1..Len(ds) |-> ds[j].inv]
DeclOf(r) ==
   CASE r[1] = "const" -> Pair(r[2], r[3])
     [] r[1] = "cov" -> IF r[4] = 0 THEN Pair(get_transform_TR(r[2], r[3]), get_transform_Inv(r[2], r[3]))
                        ELSE IF r[2] = "Ham" THEN Pair(transform_odd, transform_odd)      \* Data_K.V_covariant
                        ELSE Pair(get_transform_TR(r[2], r[4]), get_transform_Inv(r[2], r[4]))
     [] r[1] = "ref" -> DeclOf(Catalogue[r[2]].decl)
     [] r[1] = "same" -> DeclOf(r[2])
     [] r[1] = "prod" -> LET ds == DeclSeq(r[2]) IN Pair(TransformProduct(TRs(ds)), TransformProduct(INVs(ds)))
     [] r[1] = "sum" -> LET ds == DeclSeq(r[2]) IN     \* FormulaSum: asserts equal factors, takes the first
                        IF \A j \in 1..Len(ds) : IsTransform(ds[j].tr) /\ IsTransform(ds[j].inv)
                                                 /\ ds[j].tr.factor = ds[1].tr.factor /\ ds[j].inv.factor = ds[1].inv.factor
                        THEN ds[1] ELSE Pair(RaiseT, RaiseT)
Declared(f) == DeclOf(Entry(f).decl)
Expected(f) == Derived(Entry(f).phys)

(* must-fail variant "only the literal module constants count": a product counts a factor as odd only if the factor's transform
   IS one of the module constants transform_odd (hard-coded constants and get_transform_TR/Inv return them; a product
   creates a new object, sums / delta products / references pass their first factor's object on) *)
RECURSIVE IsLiteral(_)
IsLiteral(r) ==
   CASE r[1] = "const" -> TRUE
     [] r[1] = "cov" -> TRUE
     [] r[1] = "ref" -> IsLiteral(Catalogue[r[2]].decl)
     [] r[1] = "same" -> IsLiteral(r[2])
     [] r[1] = "prod" -> FALSE
     [] r[1] = "sum" -> IsLiteral(r[2][1])
RECURSIVE DeclOfLit(_)
RECURSIVE LitFactorTR(_)
RECURSIVE LitFactorInv(_)
LitFactorTR(rs) == IF rs = <<>> THEN 1 ELSE (IF IsLiteral(rs[1]) THEN DeclOfLit(rs[1]).tr.factor ELSE 1) * LitFactorTR(Tail(rs))
LitFactorInv(rs) == IF rs = <<>> THEN 1 ELSE (IF IsLiteral(rs[1]) THEN DeclOfLit(rs[1]).inv.factor ELSE 1) * LitFactorInv(Tail(rs))
DeclOfLit(r) ==
   CASE r[1] = "prod" -> LET d == DeclOf(r) IN
                         IF IsTransform(d.tr) /\ IsTransform(d.inv)
                         THEN Pair([d.tr EXCEPT !.factor = LitFactorTR(r[2])], [d.inv EXCEPT !.factor = LitFactorInv(r[2])]) ELSE d
     [] r[1] = "ref" -> DeclOfLit(Catalogue[r[2]].decl)
     [] r[1] = "same" -> DeclOfLit(r[2])
     [] r[1] = "sum" -> DeclOfLit(r[2][1])
     [] OTHER -> DeclOf(r)
DeclaredLit(f) == DeclOfLit(Entry(f).decl)

-----------------------------------------------------------------------------
(* Transform.__call__ on a tensor of rank Len(axes) (or 2 when there is no transposition): numpy semantics *)
Idx(r) == [1..r -> 0..2]
Generic(r) == [i \in Idx(r) |-> <<1 + i[1] + (IF r > 1 THEN 3 * i[2] ELSE 0) + (IF r > 2 THEN 9 * i[3] ELSE 0), 100 + i[1]>>]
Apply(t, X, r) ==
   LET src(i) == IF t.axes = NoAxes THEN i ELSE [q \in 1..r |-> i[CHOOSE m \in 1..r : t.axes[m] + 1 = q]]
       cj(z) == IF t.conj THEN <<z[1], -z[2]>> ELSE z
   IN [i \in Idx(r) |-> LET z == cj(X[src(i)]) IN <<t.factor * z[1], t.factor * z[2]>>]
RankOf(t) == IF t.axes = NoAxes THEN 2 ELSE Len(t.axes)
IsInvolution(t) == Apply(t, Apply(t, Generic(RankOf(t)), RankOf(t)), RankOf(t)) = Generic(RankOf(t))

(* table entries of get_transform_TR/Inv versus the parity of the real band trace of the named Wannier-gauge matrix
   (FF, GG: the real trace is the symmetric, quantum-metric-like part). Observation only: just 'Ham' and 'SS' are consumed
   through covariant() by formulas that calculators use as final formula *)
NamePar == [Ham |-> <<1, 1>>, SS |-> <<-1, 1>>, CC |-> <<-1, 1>>, OO |-> <<-1, 1>>, rotAA |-> <<-1, 1>>,
            rotAAab |-> <<-1, 1>>, CCab_antisym |-> <<-1, 1>>, GG |-> <<1, 1>>, FF |-> <<1, 1>>]
TableMismatch == {n \in DOMAIN NamePar : get_transform_TR(n, 0) # FromPar(NamePar[n][1]) \/ get_transform_Inv(n, 0) # FromPar(NamePar[n][2])}
=============================================================================
