---------------------------- MODULE DisentangleRec ----------------------------
(* code -> spec: one record per k-point of a real wannierise run on synthetic data.  Masks are lists of 0-based band
   indices as passed by wannierise to Wannierizer.add_kpoint (when that internal call cannot be observed the harness
   writes the specification's sets); events are the gauge matrices the run went through (the final v_matrix, and -
   when observable - the initial one and the one after every update), projected to integers:
     support  rows with an entry above 1e-12,  rank  number of singular values above 1/2,
     gram / capt / out  buckets ceil(log10(r / 1e-16)) of |U^dagger U - 1|, |(U U^dagger - 1) restricted to frozen rows|,
     |rows outside the outer window|   (bucket <= 8  <=>  residual <= 1e-8). *)
EXTENDS Disentangle, Json, IOUtils, TLCExt
VARIABLE i
Recs == JsonDeserialize(IOEnv.TRACE_FILE).recs
Rec == Recs[i]
AsSeq(s) == [k \in 1..Len(s) |-> s[k]]
Set1(s) == {s[k] + 1 : k \in 1..Len(s)}       \* 0-based list -> 1-based set
Limit == 8

Clauses ==
   LET E == AsSeq(Rec.E)  ex == Set1(Rec.extra)
       fr == Frozen(E, Rec.flo, Rec.fhi, ex)  ou == OuterWindow(E, Rec.olo, Rec.ohi)
       kinds == [k \in 1..Len(Rec.events) |-> Rec.events[k].kind]
   IN
   [ sorted           |-> \A k \in 1..(Len(E) - 1) : E[k] <= E[k + 1],
     assert_iff       |-> Rec.asserted <=> ~AssertPasses(E, Rec.flo, Rec.fhi, ex, Rec.olo, Rec.ohi),
     (* what the statement needs of the masks: every state of the frozen window (whole multiplets inside it, plus the explicit
        bands) is frozen, nothing outside the outer window (multiplets cut by its edge included) is selected *)
     frozen_covers_spec |-> ~Rec.asserted => fr \subseteq Set1(Rec.frozen),
     selected_in_outer  |-> ~Rec.asserted => (Set1(Rec.frozen) \cup Set1(Rec.free)) \subseteq ou,
     (* the rows the harness used for the numeric residuals are the specification's sets (harness vs spec, not a verdict) *)
     harness_sets     |-> Set1(Rec.capt_rows) = fr /\ Set1(Rec.outer_rows) = ou,
     (* class of the projections at this k-point: full rank, a zero column, two equal columns, a column supported only on bands
        outside the outer window (amn_rows = its support); the gauge clauses below hold for all of them *)
     amn_class        |-> /\ Rec.amn \in {"full", "zero", "dup", "outside"}
                          /\ (Rec.amn = "dup" => Rec.nw >= 2)
                          /\ (Rec.amn = "outside" => (Len(Rec.amn_rows) > 0 /\ Set1(Rec.amn_rows) \cap ou = {})),
     (* informational (the implementation's present choice, not demanded by the statement): exact masks, multiplets, call order *)
     frozen_equals_spec |-> ~Rec.asserted => Set1(Rec.frozen) = fr,
     free_equals_spec |-> ~Rec.asserted => Set1(Rec.free) = Free(E, Rec.flo, Rec.fhi, ex, Rec.olo, Rec.ohi),
     frozen_in_outer  |-> ~Rec.asserted => Set1(Rec.frozen) \subseteq ou,
     never_split      |-> ~Rec.asserted => /\ NeverSplits(E, TH, Set1(Rec.frozen) \cup Set1(Rec.free))
                                           /\ (ex = {} => NeverSplits(E, TH, Set1(Rec.frozen))),
     feasible_if_ran  |-> Len(Rec.events) > 0 => Feasible(Cardinality(fr), Cardinality(ou), Rec.nw),
     (* the events form a behaviour InitU ; Update* ; Finalize of the abstract machine *)
     event_order      |-> Len(Rec.events) > 0 => /\ kinds[1] = "init" /\ kinds[Len(kinds)] = "final"
                                                 /\ \A k \in 2..(Len(kinds) - 1) : kinds[k] = "update",
     gauge_rank       |-> \A k \in 1..Len(Rec.events) : Rec.events[k].rank = Rec.nw,
     gauge_support    |-> \A k \in 1..Len(Rec.events) : Set1(Rec.events[k].support) \subseteq ou /\ Rec.events[k].out <= Limit,
     gauge_orthonormal |-> \A k \in 1..Len(Rec.events) : Rec.events[k].gram <= Limit,
     gauge_frozen_captured |-> \A k \in 1..Len(Rec.events) : Rec.events[k].capt <= Limit /\ fr \subseteq Set1(Rec.events[k].support) ]
Report == \A n \in DOMAIN Clauses : Clauses[n] \/ PrintT(<<"BAD", i, n>>)
RecInit == i \in 1..Len(Recs)
RecSpec == RecInit /\ [][UNCHANGED i]_i
=============================================================================
