---------------------------- MODULE PointGroupAlg ----------------------------
(* Point groups acting on k-points and tensors (C09; kernels of C07, C08, C21).
   Transcribes wannierberri/symmetry/point_symmetry.py:
     PointSymmetry.__init__/__mul__/__eq__/as_dict/transform_reduced_vector/rotate/transform_tensor,
     product, from_string, from_string_prod, PointGroup.__init__ (closure loop, append order), check_basis_symmetry,
     symmetric_grid, symmetrize_tensor, star, as_dict / PointGroup(dictionary=...), Transform.__call__, TransformProduct.

   Exact representation.  A *frame* is a basis f1,f2,f3 of reciprocal space in which every operation of the family is an
   integer matrix (column convention: coordinates c of a vector are mapped to R.c):
     family "cub": the Cartesian axes (matrices = Cartesian matrices of the code),
     family "hex": the reciprocal basis of the hexagonal lattice a1=(1,0,0), a2=(-1/2,sqrt3/2,0), a3=(0,0,1).
   A lattice is [fam, A] : the reciprocal lattice basis is b_i = SUM_j A[i][j] f_j (A integer, det > 0).  The matrix of
   an operation in reduced coordinates of that reciprocal lattice is W = A^-T R A^T (`Reduced`), the code's
   `basis @ R.T @ inv(basis)` is its transpose.  Tensors are complex-integer arrays, flat (row major), given by their
   contravariant components in the frame (for "cub": the Cartesian components the code works with). *)
EXTENDS Integers, Sequences, FiniteSets, TLC

CONSTANT Variant   \* "code" = what the code does; "tr_or", "star_exact", "keep_dups" = plausible wrong variants (sensitivity self-tests)

-----------------------------------------------------------------------------
(* 3x3 integer matrices <<row1, row2, row3>> *)
I3 == <<<<1, 0, 0>>, <<0, 1, 0>>, <<0, 0, 1>>>>
(* matrices are built as explicit tuples: `[i \in 1..3 |-> ...]` would be a lazy function that TLC re-evaluates at every
   application (products of products then cost exponentially much) *)
Dot3(A, B, i, j) == A[i][1] * B[1][j] + A[i][2] * B[2][j] + A[i][3] * B[3][j]
MatMul(A, B) == << <<Dot3(A, B, 1, 1), Dot3(A, B, 1, 2), Dot3(A, B, 1, 3)>>,
                   <<Dot3(A, B, 2, 1), Dot3(A, B, 2, 2), Dot3(A, B, 2, 3)>>,
                   <<Dot3(A, B, 3, 1), Dot3(A, B, 3, 2), Dot3(A, B, 3, 3)>> >>
MatT(A) == << <<A[1][1], A[2][1], A[3][1]>>, <<A[1][2], A[2][2], A[3][2]>>, <<A[1][3], A[2][3], A[3][3]>> >>
MatScale(A, s) == << <<s * A[1][1], s * A[1][2], s * A[1][3]>>, <<s * A[2][1], s * A[2][2], s * A[2][3]>>,
                     <<s * A[3][1], s * A[3][2], s * A[3][3]>> >>
MatVec(A, v) == << A[1][1] * v[1] + A[1][2] * v[2] + A[1][3] * v[3], A[2][1] * v[1] + A[2][2] * v[2] + A[2][3] * v[3],
                   A[3][1] * v[1] + A[3][2] * v[2] + A[3][3] * v[3] >>
Det(A) == A[1][1] * (A[2][2] * A[3][3] - A[2][3] * A[3][2]) - A[1][2] * (A[2][1] * A[3][3] - A[2][3] * A[3][1])
          + A[1][3] * (A[2][1] * A[3][2] - A[2][2] * A[3][1])
Nx(i) == (i % 3) + 1
(* adjugate: A . Adj(A) = Det(A) . I3 *)
Cof(A, i, j) == A[Nx(j)][Nx(i)] * A[Nx(Nx(j))][Nx(Nx(i))] - A[Nx(j)][Nx(Nx(i))] * A[Nx(Nx(j))][Nx(i)]
Adj(A) == << <<Cof(A, 1, 1), Cof(A, 1, 2), Cof(A, 1, 3)>>, <<Cof(A, 2, 1), Cof(A, 2, 2), Cof(A, 2, 3)>>,
             <<Cof(A, 3, 1), Cof(A, 3, 2), Cof(A, 3, 3)>> >>
Divisible(M, d) == \A i, j \in 1..3 : M[i][j] % d = 0
MatDiv(M, d) == << <<M[1][1] \div d, M[1][2] \div d, M[1][3] \div d>>, <<M[2][1] \div d, M[2][2] \div d, M[2][3] \div d>>,
                   <<M[3][1] \div d, M[3][2] \div d, M[3][3] \div d>> >>

-----------------------------------------------------------------------------
(* class PointSymmetry: R proper, Inv and TR flags *)
PointSymmetry(Rin, TR) ==                                    \* __init__: Inv = det(R) < 0; R = R * (-1 if Inv else 1)
   LET neg == Det(Rin) < 0 IN [R |-> IF neg THEN MatScale(Rin, -1) ELSE Rin, inv |-> neg, tr |-> TR]
iTR(g) == IF g.tr THEN -1 ELSE 1
iInv(g) == IF g.inv THEN -1 ELSE 1
Mul(g, h) ==                                                 \* __mul__
   PointSymmetry(MatScale(MatMul(g.R, h.R), iInv(g) * iInv(h)),
                 IF Variant = "tr_or" THEN g.tr \/ h.tr ELSE g.tr # h.tr)
Eq(g, h) == g = h       \* __eq__: R, TR and Inv equal (the float tolerance 1e-12 is exact equality here); one native comparison
SymAsDict(g) == [R |-> MatScale(g.R, iInv(g)), TR |-> g.tr]  \* as_dict
SymFromDict(d) == PointSymmetry(d.R, d.TR)                   \* PointSymmetry(**d)
IsElement(g) == Det(g.R) = 1 /\ g.inv \in BOOLEAN /\ g.tr \in BOOLEAN

Identity == PointSymmetry(I3, FALSE)
Inversion == PointSymmetry(MatScale(I3, -1), FALSE)
TimeReversal == PointSymmetry(I3, TRUE)

(* Rotation(n, axis).R in the frame of the family *)
RotationR(fam, name) ==
   IF fam = "cub" THEN
      CASE name = "C2x" -> <<<<1, 0, 0>>, <<0, -1, 0>>, <<0, 0, -1>>>>
        [] name = "C2y" -> <<<<-1, 0, 0>>, <<0, 1, 0>>, <<0, 0, -1>>>>
        [] name = "C2z" -> <<<<-1, 0, 0>>, <<0, -1, 0>>, <<0, 0, 1>>>>
        [] name = "C4x" -> <<<<1, 0, 0>>, <<0, 0, -1>>, <<0, 1, 0>>>>
        [] name = "C4y" -> <<<<0, 0, 1>>, <<0, 1, 0>>, <<-1, 0, 0>>>>
        [] name = "C4z" -> <<<<0, -1, 0>>, <<1, 0, 0>>, <<0, 0, 1>>>>
        [] name = "C3d" -> <<<<0, 0, 1>>, <<1, 0, 0>>, <<0, 1, 0>>>>     \* Rotation(3, [1,1,1])
        [] name = "C2d" -> <<<<0, 1, 0>>, <<1, 0, 0>>, <<0, 0, -1>>>>    \* Rotation(2, [1,1,0])
   ELSE
      CASE name = "C2x" -> <<<<1, 0, 0>>, <<-1, -1, 0>>, <<0, 0, -1>>>>
        [] name = "C2y" -> <<<<-1, 0, 0>>, <<1, 1, 0>>, <<0, 0, -1>>>>
        [] name = "C2z" -> <<<<-1, 0, 0>>, <<0, -1, 0>>, <<0, 0, 1>>>>
        [] name = "C6z" -> <<<<0, -1, 0>>, <<1, 1, 0>>, <<0, 0, 1>>>>
        [] name = "C3z" -> <<<<-1, -1, 0>>, <<1, 0, 0>>, <<0, 0, 1>>>>
MirrorOf == [Mx |-> "C2x", My |-> "C2y", Mz |-> "C2z"]
(* from_string: dict_sym (plus the two extra cubic axes the harness builds with Rotation(n, axis)) *)
FromString(fam, name) ==
   CASE name = "Identity" -> Identity
     [] name = "Inversion" -> Inversion
     [] name = "TimeReversal" -> TimeReversal
     [] name \in {"Mx", "My", "Mz"} -> PointSymmetry(MatScale(RotationR(fam, MirrorOf[name]), -1), FALSE)   \* Mirror(axis)
     [] OTHER -> PointSymmetry(RotationR(fam, name), FALSE)
(* product(lst): res = Identity; for op in lst[-1::-1]: res = op * res *)
RECURSIVE ProductLoop(_, _, _)
ProductLoop(lst, n, res) == IF n = 0 THEN res ELSE ProductLoop(lst, n - 1, Mul(lst[n], res))
Product(lst) == ProductLoop(lst, Len(lst), Identity)
(* from_string_prod("A*B*C"), the string split at "*" is the sequence names *)
FromStringProd(fam, names) == Product([k \in 1..Len(names) |-> FromString(fam, names[k])])

(* Rotation(n, axis) / Mirror(axis) for any axis with integer frame coordinates c: characterised, not tabulated.
   R is a proper isometry of the frame that fixes the axis, has order |n| exactly and turns counter-clockwise about the
   axis for n > 0 (axis . (v x R v) >= 0 for every v, > 0 for some v; the frames are right-handed so the sign of the
   determinant of the coordinate columns is the sign of the triple product). *)
RECURSIVE MatPow(_, _)
MatPow(R, m) == IF m = 0 THEN I3 ELSE MatMul(R, MatPow(R, m - 1))
Abs(n) == IF n < 0 THEN -n ELSE n
Triple(a, v, w) == Det(<<a, v, w>>)
UnitVecs == {<<1, 0, 0>>, <<0, 1, 0>>, <<0, 0, 1>>}
Turns(R, c) == {Triple(c, v, MatVec(R, v)) : v \in UnitVecs}
RotationFixesAxis(R, c) == MatVec(R, c) = c
RotationOrder(R, n) == MatPow(R, Abs(n)) = I3 /\ \A m \in 1..(Abs(n) - 1) : MatPow(R, m) # I3
RotationSense(R, n, c) ==
   IF Abs(n) <= 2 THEN TRUE
   ELSE IF n > 0 THEN (\A t \in Turns(R, c) : t >= 0) /\ (\E t \in Turns(R, c) : t > 0)
   ELSE (\A t \in Turns(R, c) : t <= 0) /\ (\E t \in Turns(R, c) : t < 0)

-----------------------------------------------------------------------------
(* lattices *)
FrameGram(fam) == IF fam = "cub" THEN I3 ELSE <<<<4, 2, 0>>, <<2, 4, 0>>, <<0, 0, 3>>>>    \* f_i . f_j (scaled)
IsIsometry(R, fam) == MatMul(MatT(R), MatMul(FrameGram(fam), R)) = FrameGram(fam)
(* numerator of W = A^-T R A^T over the denominator Det(A) *)
ReducedNum(R, lat) == MatMul(MatT(Adj(lat.A)), MatMul(R, MatT(lat.A)))
MapsLattice(R, lat) == Divisible(ReducedNum(R, lat), Det(lat.A))
Reduced(R, lat) == MatDiv(ReducedNum(R, lat), Det(lat.A))
(* the same for the real lattice (rows 2 pi B^-T): W_real = A R^-T A^-1, R^-T = Adj(R)^T for a proper R *)
ReducedRealNum(R, lat) == MatMul(lat.A, MatMul(MatT(Adj(R)), Adj(lat.A)))
MapsRealLattice(R, lat) == Divisible(ReducedRealNum(R, lat), Det(lat.A))
LatticeGram(lat) == MatMul(lat.A, MatMul(FrameGram(lat.fam), MatT(lat.A)))
(* transform_reduced_vector(vec, recip_lattice): vec @ (B R^T B^-1) * (iTR * iInv), vec = integer numerators *)
TransformReducedVector(g, k, lat) == LET v == MatVec(Reduced(g.R, lat), k) s == iTR(g) * iInv(g) IN <<s * v[1], s * v[2], s * v[3]>>
(* check_basis_symmetry(basis): every element has an integer matrix in the basis *)
CheckBasisSymmetry(G, lat) == \A n \in 1..Len(G) : MapsLattice(G[n].R, lat)
CheckRealBasisSymmetry(G, lat) == \A n \in 1..Len(G) : MapsRealLattice(G[n].R, lat)
(* symmetric_grid(nk): check_basis_symmetry(recip_lattice / nk[:, None]); integer form: rows scaled by n1 n2 n3 / n_i *)
GridLattice(lat, nk) == [lat EXCEPT !.A = TLCEval([i \in 1..3 |-> TLCEval([j \in 1..3 |-> ((nk[1] * nk[2] * nk[3]) \div nk[i]) * lat.A[i][j]])])]
SymmetricGrid(G, lat, nk) == CheckBasisSymmetry(G, GridLattice(lat, nk))

-----------------------------------------------------------------------------
(* PointGroup.__init__: the closure loop.  Python's `for s in sym_list` sees the elements appended during the loop. *)
InList(s, L) == \E k \in 1..Len(L) : Eq(L[k], s)                  \* `s3 in sym_list`
RECURSIVE ForS2(_, _, _)
ForS2(L, i, j) ==                                                  \* for s2 in sym_list: s3 = s1 * s2; append if new
   IF j > Len(L) THEN L
   ELSE LET s3 == Mul(L[i], L[j]) IN ForS2(TLCEval(IF InList(s3, L) THEN L ELSE Append(L, s3)), i, j + 1)
RECURSIVE ForS1(_, _)
ForS1(L, i) == IF i > Len(L) THEN L ELSE ForS1(TLCEval(ForS2(L, i, 1)), i + 1)   \* for s1 in sym_list
ClosurePass(L) == ForS1(L, 1)                                      \* one body of `while True`
RECURSIVE WhileTrue(_)
WhileTrue(L) == LET L2 == TLCEval(ClosurePass(L)) IN IF Len(L2) = Len(L) THEN L2 ELSE WhileTrue(L2)
(* `for op in generator_list: if op not in sym_list: sym_list.append(op)`: a generator given twice is kept once (first
   occurrence).  Variant "keep_dups" = the behaviour before repair 36802561 (both copies kept): must-fail variant. *)
RECURSIVE Dedup(_, _)
Dedup(gens, acc) == IF gens = <<>> THEN acc ELSE Dedup(Tail(gens), TLCEval(IF InList(gens[1], acc) THEN acc ELSE Append(acc, gens[1])))
InitialList(gens) == IF Len(gens) = 0 THEN <<Identity>> ELSE IF Variant = "keep_dups" THEN gens ELSE Dedup(gens, <<>>)
Generate(gens) == WhileTrue(InitialList(gens))                     \* PointGroup(generator_list).symmetries
(* as_dict() / PointGroup(dictionary=...) *)
GroupAsDict(G) == TLCEval([n \in 1..Len(G) |-> SymAsDict(G[n])])
GroupFromDict(D) == Generate(TLCEval([n \in 1..Len(D) |-> SymFromDict(D[n])]))

IndexOrZero(L, s) == IF InList(s, L) THEN CHOOSE k \in 1..Len(L) : Eq(L[k], s) ELSE 0
MulTable(G) == [i \in 1..Len(G) |-> [j \in 1..Len(G) |-> IndexOrZero(G, Mul(G[i], G[j]))]]

(* what C09 demands of a list of elements *)
SameSet(G, H) == /\ \A n \in 1..Len(G) : InList(G[n], H)          \* the same elements, in any order
                 /\ \A n \in 1..Len(H) : InList(H[n], G)
Closed(G) == \A i, j \in 1..Len(G) : InList(Mul(G[i], G[j]), G)
HasIdentity(G) == InList(Identity, G)
HasInverses(G) == \A i \in 1..Len(G) : \E j \in 1..Len(G) : Mul(G[i], G[j]) = Identity /\ Mul(G[j], G[i]) = Identity
NoDuplicates(G) == \A i, j \in 1..Len(G) : i < j => ~Eq(G[i], G[j])
SizeBound(G) == Len(G) <= 96
FrameInvariant(G, fam) == \A n \in 1..Len(G) : IsElement(G[n]) /\ IsIsometry(G[n].R, fam)
LatticeInvariant(G, lat) ==           \* integer in the reciprocal and in the real lattice, metric of the lattice preserved
   \A n \in 1..Len(G) : /\ MapsLattice(G[n].R, lat) /\ MapsRealLattice(G[n].R, lat)
                        /\ LET W == Reduced(G[n].R, lat) IN Det(W) = 1 /\ MatMul(MatT(W), MatMul(LatticeGram(lat), W)) = LatticeGram(lat)

-----------------------------------------------------------------------------
(* PointGroup.star(k): images under all elements, duplicates (modulo the reciprocal lattice) deleted from the end *)
EquivMod(a, b, N) == IF Variant = "star_exact" THEN a = b ELSE \A i \in 1..3 : (a[i] - b[i]) % N = 0
RemoveAt(s, i) == TLCEval([k \in 1..(Len(s) - 1) |-> IF k < i THEN s[k] ELSE s[k + 1]])
RECURSIVE StarLoop(_, _, _)
StarLoop(st, i, N) ==                                 \* for i in range(len(st) - 1, 0, -1)   (i is 1-based here)
   IF i < 2 THEN st
   ELSE StarLoop(TLCEval(IF \E j \in 1..(i - 1) : EquivMod(st[j], st[i], N) THEN RemoveAt(st, i) ELSE st), i - 1, N)
Images(G, k, lat) == TLCEval([n \in 1..Len(G) |-> TransformReducedVector(G[n], k, lat)])
Star(G, k, N, lat) == StarLoop(Images(G, k, lat), Len(G), N)
ModEq(a, b, N) == \A i \in 1..3 : (a[i] - b[i]) % N = 0
(* C09: each distinct image (modulo the lattice) exactly once, nothing else; first occurrences in group order *)
StarOnce(st, G, k, N, lat) ==
   LET im == Images(G, k, lat) IN
   /\ \A a, b \in 1..Len(st) : a < b => ~ModEq(st[a], st[b], N)
   /\ \A n \in 1..Len(im) : Cardinality({a \in 1..Len(st) : ModEq(st[a], im[n], N)}) = 1
   /\ \A a \in 1..Len(st) : \E n \in 1..Len(im) : st[a] = im[n]
StarFirstOccurrences(st, G, k, N, lat) ==
   LET im == Images(G, k, lat)
       first == {n \in 1..Len(im) : \A m \in 1..(n - 1) : ~ModEq(im[m], im[n], N)}
   IN Len(st) = Cardinality(first) /\ \A a \in 1..Len(st) : \E n \in first : st[a] = im[n] /\ Cardinality({m \in first : m < n}) = a - 1

-----------------------------------------------------------------------------
(* tensors: [rank, re, im], re/im flat row-major sequences of length 3^rank (axis 1 slowest) *)
Pow3(r) == CASE r = 0 -> 1 [] r = 1 -> 3 [] r = 2 -> 9 [] r = 3 -> 27 [] r = 4 -> 81
Digit(n, r, a) == (n \div Pow3(r - a)) % 3                  \* index (0-based) on axis a (1-based) of flat position n (0-based)
IsTensor(T) == T.rank \in 0..4 /\ Len(T.re) = Pow3(T.rank) /\ Len(T.im) = Pow3(T.rank)
(* sequences of components are forced with TLCEval (a lazy function would be re-evaluated at every application) *)
TAdd(S, T) == [rank |-> S.rank, re |-> TLCEval([p \in 1..Len(S.re) |-> S.re[p] + T.re[p]]), im |-> TLCEval([p \in 1..Len(S.im) |-> S.im[p] + T.im[p]])]
TScale(T, s) == [rank |-> T.rank, re |-> TLCEval([p \in 1..Len(T.re) |-> s * T.re[p]]), im |-> TLCEval([p \in 1..Len(T.im) |-> s * T.im[p]])]
TZero(r) == [rank |-> r, re |-> [p \in 1..Pow3(r) |-> 0], im |-> [p \in 1..Pow3(r) |-> 0]]
Outer(S, T) == LET n == Pow3(T.rank)                         \* (S x T)[i.., j..] = S[i..] T[j..]  (complex product)
                   s(p) == ((p - 1) \div n) + 1  t(p) == ((p - 1) % n) + 1 IN
   [rank |-> S.rank + T.rank,
    re |-> [p \in 1..(Pow3(S.rank) * n) |-> S.re[s(p)] * T.re[t(p)] - S.im[s(p)] * T.im[t(p)]],
    im |-> [p \in 1..(Pow3(S.rank) * n) |-> S.re[s(p)] * T.im[t(p)] + S.im[s(p)] * T.re[t(p)]]]

(* PointSymmetry.rotate on axis a: out[.., i, ..] = SUM_m R[i][m] in[.., m, ..]   (res @ R.T on that axis) *)
RotSeq(R, s, r, a) ==
   LET w == Pow3(r - a) IN
   TLCEval([p \in 1..Pow3(r) |-> LET i == Digit(p - 1, r, a)  b == p - i * w IN
                          R[i + 1][1] * s[b] + R[i + 1][2] * s[b + w] + R[i + 1][3] * s[b + 2 * w]])
RotateAxis(R, T, a) == [rank |-> T.rank, re |-> RotSeq(R, T.re, T.rank, a), im |-> RotSeq(R, T.im, T.rank, a)]
RECURSIVE RotateAxes(_, _, _)
RotateAxes(R, T, a) == IF a > T.rank THEN T ELSE RotateAxes(R, RotateAxis(R, T, a), a + 1)   \* for i in range(dim - rank, dim)

(* class Transform: [factor, conj, axes]; axes = transpose_axes (0-based, acting on the last Len(axes) axes), <<>> = None *)
TransformOK(t, r) == t.factor \in {1, -1} /\ t.conj \in BOOLEAN /\ Len(t.axes) <= r
                     /\ {t.axes[k] : k \in 1..Len(t.axes)} = 0..(Len(t.axes) - 1)
RECURSIVE SourcePos(_, _, _, _)
SourcePos(n, r, axes, k) ==          \* numpy: res.transpose(trans)[i] = res[j] with j[trans[k]] = i[k]
   IF k > Len(axes) THEN (n \div Pow3(Len(axes))) * Pow3(Len(axes))
   ELSE LET dim0 == r - Len(axes) IN Digit(n, r, dim0 + k) * Pow3(r - 1 - (dim0 + axes[k])) + SourcePos(n, r, axes, k + 1)
TransposeSeq(s, r, axes) == TLCEval([p \in 1..Pow3(r) |-> s[1 + SourcePos(p - 1, r, axes, 1)]])
Apply(t, T) ==                                               \* Transform.__call__: transpose, conjugate, factor
   LET re1 == IF t.axes = <<>> THEN T.re ELSE TransposeSeq(T.re, T.rank, t.axes)
       im1 == IF t.axes = <<>> THEN T.im ELSE TransposeSeq(T.im, T.rank, t.axes)
       c == IF t.conj THEN -1 ELSE 1
   IN [rank |-> T.rank, re |-> TLCEval([p \in 1..Len(re1) |-> t.factor * re1[p]]), im |-> TLCEval([p \in 1..Len(im1) |-> t.factor * c * im1[p]])]
transform_ident == [factor |-> 1, conj |-> FALSE, axes |-> <<>>]
transform_odd == [factor |-> -1, conj |-> FALSE, axes |-> <<>>]
transform_odd_conj == [factor |-> -1, conj |-> TRUE, axes |-> <<>>]
transform_odd_trans_021 == [factor |-> -1, conj |-> FALSE, axes |-> <<0, 2, 1>>]
transform_odd_trans_102 == [factor |-> -1, conj |-> FALSE, axes |-> <<1, 0, 2>>]
transform_trans == [factor |-> 1, conj |-> FALSE, axes |-> <<1, 0>>]
Predefined == [ident |-> transform_ident, odd |-> transform_odd, odd_conj |-> transform_odd_conj,
               odd_trans_021 |-> transform_odd_trans_021, odd_trans_102 |-> transform_odd_trans_102, trans |-> transform_trans]
(* TransformProduct(list): defined iff all conj equal and no transposition; it is the transform of a product of quantities *)
TransformProductDefined(ts) == /\ Len(ts) > 0 /\ \A a, b \in 1..Len(ts) : ts[a].conj = ts[b].conj
                               /\ \A a \in 1..Len(ts) : ts[a].axes = <<>>
RECURSIVE ProdFactor(_, _)
ProdFactor(ts, n) == IF n = 0 THEN 1 ELSE ts[n].factor * ProdFactor(ts, n - 1)
TransformProduct(ts) == [factor |-> ProdFactor(ts, Len(ts)), conj |-> ts[1].conj, axes |-> <<>>]

(* structural conditions under which transform_tensor is a group action *)
PadAxes(ax, m) == [k \in 1..m |-> IF k <= m - Len(ax) THEN k - 1 ELSE (m - Len(ax)) + ax[k - (m - Len(ax))]]  \* same permutation on the last m axes
IsInvolution(t) == \A k \in 1..Len(t.axes) : t.axes[t.axes[k] + 1] = k - 1
Commute(t, u) == LET m == IF Len(t.axes) > Len(u.axes) THEN Len(t.axes) ELSE Len(u.axes)
                     a == PadAxes(t.axes, m)  b == PadAxes(u.axes, m)
                 IN \A k \in 1..m : a[b[k] + 1] = b[a[k] + 1]
ValidPair(tTR, tInv) == IsInvolution(tTR) /\ IsInvolution(tInv) /\ Commute(tTR, tInv)

(* PointSymmetry.transform_tensor(data, rank, transformTR, transformInv) *)
Act(g, T, tTR, tInv) ==
   LET r1 == RotateAxes(g.R, T, 1)
       r2 == IF g.tr THEN Apply(tTR, r1) ELSE r1
   IN IF g.inv THEN Apply(tInv, r2) ELSE r2
(* PointGroup.symmetrize_tensor, multiplied by the group size (stays integer) *)
RECURSIVE SumActs(_, _, _, _, _)
SumActs(G, n, T, tTR, tInv) == IF n = 0 THEN TZero(T.rank) ELSE TAdd(SumActs(G, n - 1, T, tTR, tInv), Act(G[n], T, tTR, tInv))
Symmetrize(G, T, tTR, tInv) == SumActs(G, Len(G), T, tTR, tInv)
=============================================================================
