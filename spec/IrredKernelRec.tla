--------------------------- MODULE IrredKernelRec ---------------------------
(* code -> spec for C07: one record = one symmetric synthetic "system" (group, factorisation, tensor rank, parities,
   integer field Rec.fld injected through data_K.kpoints_all) and what the real run() returned for it:
     Rec.irr  = Ntot * (integrated result of the irreducible + symmetrised run), rounded after an integrality check
     Rec.full = Ntot * (integrated result of the full unsymmetrised run)
     Rec.symonly = Ntot * (integrated result of the full run with symmetrisation, use_irred_kpt=False, symmetrize=True)
     Rec.tabirr / Rec.tabfull = tabulated values after to_grid, per grid point in flat order (x outermost) *)
EXTENDS IrredKernel, Json, IOUtils, TLCExt
VARIABLE i
Recs == JsonDeserialize(IOEnv.TRACE_FILE).recs
Rec == Recs[i]
T3(s) == <<s[1], s[2], s[3]>>
Clauses ==
   LET div == T3(Rec.div)  fft == T3(Rec.fft)  N == Dense(div, fft)  G == GroupOf(Rec.grp)  r == Rec.rank
       tTR == [f |-> Rec.tTR.f, t |-> Rec.tTR.t]  tInv == [f |-> Rec.tInv.f, t |-> Rec.tInv.t]
       Fld == [p \in GridPts(N) |-> NormT(r, Rec.fld[FlatIndex(p, N) + 1])]
       kl == KList(div, G, TRUE)
       ks == KSetsOf(kl, div, fft, TRUE)
       kf == KList(div, G, FALSE)
       gsum == GridSum(Fld, N, r)
   IN
   [ shape           |-> Len(Rec.fld) = Prod3(N) /\ Len(Rec.tabirr) = Prod3(N) /\ Len(Rec.tabfull) = Prod3(N),
     system_symmetric |-> Covariant(Fld, N, G, r, tTR, tInv),
     full_is_gridsum |-> NormT(r, Rec.full) = gsum,
     irr_equals_full |-> NormT(r, Rec.irr) = NormT(r, Rec.full),
     irr_is_spec     |-> IrrIntegral(kl, ks, Fld, G, r, tTR, tInv) = NormT(r, ScaleT(r, Cardinality(G), NormT(r, Rec.irr))),
     symonly_equals_full |-> NormT(r, Rec.symonly) = NormT(r, Rec.full),
     symonly_is_spec |-> IrrIntegral(kf, KSetsOf(kf, div, fft, TRUE), Fld, G, r, tTR, tInv) = NormT(r, ScaleT(r, Cardinality(G), NormT(r, Rec.symonly))),
     tab_irr         |-> \A p \in GridPts(N) : NormT(r, Rec.tabirr[FlatIndex(p, N) + 1]) = Fld[p],
     tab_full        |-> \A p \in GridPts(N) : NormT(r, Rec.tabfull[FlatIndex(p, N) + 1]) = Fld[p],
     tab_is_spec     |-> TabReproduces(TabCollect(ks, Fld, N, G, r, tTR, tInv), Fld, N, r) ]
Report == \A n \in DOMAIN Clauses : Clauses[n] \/ PrintT(<<"BAD", i, n>>)
RecInit == i \in 1..Len(Recs)
RecSpec == RecInit /\ [][UNCHANGED i]_i
=============================================================================
