--------------------------- MODULE MC_PointGroupLoop ---------------------------
(* The closure loop of PointGroup.__init__ statement by statement (one action per loop-body execution), checked
   against the operators ClosurePass / Generate of PointGroupAlg that the other models and the record validation use.

       while True:
           lenold = len(sym_list)
           for s1 in sym_list:
               for s2 in sym_list:
                   s3 = s1 * s2
                   if s3 not in sym_list: sym_list.append(s3)      # (> 1000 elements: RuntimeError)
           if len(sym_list) == lenold: break
*)
EXTENDS PointGroupAlg
CONSTANTS FAMS, MAXGEN, LOOPMAX
VARIABLES gens, L, L0, lenold, i, j, pc
vars == <<gens, L, L0, lenold, i, j, pc>>
TR == "TimeReversal"
Catalogue(fam) ==
   IF fam = "cub" THEN
      << <<"Identity">>, <<"Inversion">>, <<TR>>, <<"Mx">>, <<"My">>, <<"Mz">>, <<"C2x">>, <<"C2y">>, <<"C2z">>,
         <<"C4x">>, <<"C4y">>, <<"C4z">>, <<"C3d">>, <<"C2d">>,
         <<TR, "C2x">>, <<TR, "Mz">>, <<TR, "C4z">>, <<TR, "Inversion">>, <<"Inversion", "C4z">> >>
   ELSE
      << <<"Identity">>, <<"Inversion">>, <<TR>>, <<"Mx">>, <<"My">>, <<"Mz">>, <<"C2x">>, <<"C2y">>, <<"C2z">>,
         <<"C3z">>, <<"C6z">>,
         <<TR, "C2x">>, <<TR, "Mz">>, <<TR, "C6z">>, <<TR, "Inversion">>, <<"Inversion", "C6z">>, <<TR, "C3z">> >>
GenLists(fam) == LET n == Len(Catalogue(fam))  E(a) == FromStringProd(fam, Catalogue(fam)[a]) IN
   {<<>>} \cup {<<E(a)>> : a \in 1..n} \cup (IF MAXGEN >= 2 THEN {<<E(p[1]), E(p[2])>> : p \in {q \in (1..n) \X (1..n) : q[1] < q[2]}} ELSE {})
Init == /\ \E fam \in FAMS : gens \in GenLists(fam)
        /\ L = InitialList(gens) /\ L0 = L /\ lenold = 0 /\ i = 0 /\ j = 0 /\ pc = "while"
While == /\ pc = "while" /\ lenold' = Len(L) /\ L0' = L /\ i' = 1 /\ j' = 1 /\ pc' = "for" /\ UNCHANGED <<gens, L>>
ForS1End == /\ pc = "for" /\ i > Len(L) /\ pc' = "check" /\ UNCHANGED <<gens, L, L0, lenold, i, j>>
ForS2End == /\ pc = "for" /\ i <= Len(L) /\ j > Len(L) /\ i' = i + 1 /\ j' = 1 /\ UNCHANGED <<gens, L, L0, lenold, pc>>
Body == /\ pc = "for" /\ i <= Len(L) /\ j <= Len(L)
        /\ LET s3 == Mul(L[i], L[j]) IN L' = IF InList(s3, L) THEN L ELSE Append(L, s3)
        /\ j' = j + 1 /\ UNCHANGED <<gens, L0, lenold, i, pc>>
Check == /\ pc = "check" /\ pc' = (IF Len(L) = lenold THEN "done" ELSE "while") /\ UNCHANGED <<gens, L, L0, lenold, i, j>>
Next == While \/ ForS1End \/ ForS2End \/ Body \/ Check
Spec == Init /\ [][Next]_vars
Bounded == Len(L) <= LOOPMAX                       \* CONSTRAINT: larger groups are left to MC_PointGroupAlg

PassIsOperator == pc = "check" => L = ClosurePass(L0)
DoneIsGenerate == pc = "done" => L = Generate(gens) /\ Closed(L) /\ HasIdentity(L) /\ HasInverses(L)
AppendOnly     == Len(L0) <= Len(L) /\ SubSeq(L, 1, Len(L0)) = L0 /\ Len(L) <= 96   \* the RuntimeError branch (> 1000) is unreachable
DistinctTail   == \A a, b \in 1..Len(L) : (a < b /\ b > Len(InitialList(gens))) => ~Eq(L[a], L[b])   \* appended elements are new
=============================================================================
