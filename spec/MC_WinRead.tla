----------------------------- MODULE MC_WinRead -----------------------------
(* the reader as a function table: every .win file made of (cell units) x (atoms given as frac / cart in no / ang / bohr
   units) x (k-point lists: meshes, with a weight column, incomplete) x (mp_grid absent / right / wrong) x (projections
   absent / given / with a units line) x (parameter set), written in every style of StyleSet (case of keywords, of
   begin/end and of the units, separator, comment and blank lines, order of parameters and blocks).  Init enumerates the
   inputs, Read evaluates WinFile!FromFile; every "done" state is one file for the real WIN.from_w90_file. *)
EXTENDS WinFile
CONSTANTS StyleSet,      \* "few" | "many"
          Product        \* "slices": the dimensions that interact are multiplied out (units of cell x atoms; k-point list x mp_grid;
                         \* parameter set x projections), each slice in every style; "full": the full product of the contents
VARIABLES cu, at, kp, mpp, pj, pset, style, pc, file, rd
vars == <<cu, at, kp, mpp, pj, pset, style, pc, file, rd>>

Cases == {"lower", "upper", "title"}
Sty(p, b, e, u, sep, com, ord) == [pcase |-> p, bcase |-> b, ecase |-> e, ucase |-> u, sep |-> sep, comments |-> com, order |-> ord]
Canon == Sty("lower", "lower", "lower", "lower", "=", FALSE, "params_first")
Few == {Canon,
        Sty("upper", "upper", "upper", "upper", ":", TRUE, "blocks_first"),
        Sty("title", "title", "lower", "title", " ", TRUE, "mixed"),
        Sty("lower", "upper", "title", "lower", ":", FALSE, "mixed"),
        Sty("upper", "lower", "upper", "upper", "=", FALSE, "blocks_first"),
        Sty("title", "lower", "lower", "lower", " ", TRUE, "params_first")}
Many == {Sty(p, b, e, u, s, c, o) : p \in Cases, b \in {"lower", "upper"}, e \in {"lower", "title"}, u \in {"lower", "upper"},
                                    s \in {"=", ":", " "}, c \in BOOLEAN, o \in {"params_first", "blocks_first", "mixed"}}
Styles == IF StyleSet = "few" THEN Few ELSE Many

(* the crystal: a1 = (2,0,0), a2 = (0,2,0), a3 = (1,0,4) Angstrom (or bohr); three atoms *)
BaseCell == <<16, 0, 0, 0, 16, 0, 8, 0, 32>>
BaseFrac == <<0, 0, 0, 4, 4, 2, 2, 6, 1>>
BaseNames == <<"Fe", "Te", "Te">>
Cart8(fr) == [c \in 1..3 |-> (fr[1] * BaseCell[c] + fr[2] * BaseCell[3 + c] + fr[3] * BaseCell[6 + c]) \div 8]
(* k-point lists as numerators over KDEN (+ a weight column where the list has one) *)
KList == CASE kp = "2x1x1" -> << <<0, 0, 0>>, <<12, 0, 0>> >>
           [] kp = "1x2x2w" -> << <<0, 0, 0, 6>>, <<0, 0, 12, 6>>, <<0, 12, 0, 6>>, <<0, 12, 12, 6>> >>
           [] kp = "3x1x2" -> << <<0, 0, 0>>, <<8, 0, 0>>, <<16, 0, 0>>, <<0, 0, 12>>, <<8, 0, 12>>, <<16, 0, 12>> >>
           [] kp = "hole" -> << <<0, 0, 0>>, <<12, 0, 0>>, <<0, 12, 0>> >>                   \* 2x2x1 without one point
           [] kp = "offgrid" -> << <<0, 0, 0>>, <<12, 0, 0>>, <<5, 0, 0>> >>                 \* not on any Gamma-centred mesh
           [] kp = "gamma" -> << <<0, 0, 0>> >>
Mesh == CASE kp = "2x1x1" -> <<2, 1, 1>> [] kp = "1x2x2w" -> <<1, 2, 2>> [] kp = "3x1x2" -> <<3, 1, 2>> [] kp = "hole" -> <<2, 2, 1>> [] kp = "offgrid" -> <<2, 1, 1>> [] kp = "gamma" -> <<1, 1, 1>>
WrongMesh == <<Mesh[1] + 1, Mesh[2], Mesh[3]>>
ParamList == IF pset = "A"
             THEN << <<"num_wann", VInt(2)>>, <<"num_bands", VInt(4)>>, <<"dis_froz_max", VFlt(12)>>, <<"spinors", VBool(TRUE)>>,
                     <<"restart", VStr("plot")>>, <<"exclude_bands", VInts(<<1, 2, 3, 5>>)>> >>
             ELSE << <<"num_wann", VInt(1)>>, <<"dis_win_min", VFlt(-20)>>, <<"guiding_centres", VBool(FALSE)>>,
                     <<"bands_plot_mode", VStr("s-k")>>, <<"select_projections", VInts(<<2, 4>>)>>, <<"wannier_plot_format", VStr("x")>> >>
ProjLines == <<"Fe:d", "Te:p">>

ParamLines(s) == [n \in 1..Len(ParamList) |-> Line("param", ParamList[n][1], s.pcase, s.sep, ParamList[n][2])] \o
                 (IF mpp = "absent" THEN <<>> ELSE <<Line("param", "mp_grid", s.pcase, s.sep, VInts(IF mpp = "right" THEN Mesh ELSE WrongMesh))>>)
Block(s, name, body) == <<Line("begin", name, s.bcase, "", VNone)>> \o (IF s.comments THEN <<Comment>> ELSE <<>>) \o body \o <<Line("end", name, s.ecase, "", VNone)>>
UnitsLine(s, u) == IF u = "none" THEN <<>> ELSE <<Line("units", u, s.ucase, "", VNone)>>
CellBlock(s) == Block(s, "unit_cell_cart", UnitsLine(s, cu) \o RowsOf3(BaseCell, 0, <<>>))
AtomRows(cart) == [n \in 1..3 |-> Line("row", "", "lower", "", VRow(BaseNames[n], IF cart THEN Cart8(SubSeq(BaseFrac, 3 * n - 2, 3 * n)) ELSE SubSeq(BaseFrac, 3 * n - 2, 3 * n), 0))]
AtomsBlock(s) == IF at = "frac" THEN Block(s, "atoms_frac", AtomRows(FALSE))
                 ELSE Block(s, "atoms_cart", UnitsLine(s, CASE at = "cart_none" -> "none" [] at = "cart_ang" -> "ang" [] at = "cart_bohr" -> "bohr") \o AtomRows(TRUE))
KBlock(s) == Block(s, "kpoints", [n \in 1..Len(KList) |-> Line("row", "", "lower", "", VRow("", KList[n], 0))])
PBlock(s) == IF pj = "absent" THEN <<>>
             ELSE Block(s, "projections", (IF pj = "units" THEN UnitsLine(s, "bohr") ELSE <<>>) \o
                                          [n \in 1..Len(ProjLines) |-> Line("text", "", "lower", "", VStr(ProjLines[n]))])
Sepr(s) == IF s.comments THEN <<Comment, Blank>> ELSE <<>>
MkFile(s) ==
   (IF s.comments THEN <<Comment>> ELSE <<>>) \o
   (CASE s.order = "params_first" -> ParamLines(s) \o Sepr(s) \o CellBlock(s) \o Sepr(s) \o AtomsBlock(s) \o Sepr(s) \o KBlock(s) \o PBlock(s)
      [] s.order = "blocks_first" -> KBlock(s) \o Sepr(s) \o PBlock(s) \o AtomsBlock(s) \o Sepr(s) \o CellBlock(s) \o Sepr(s) \o ParamLines(s)
      [] s.order = "mixed" -> AtomsBlock(s) \o Sepr(s) \o SubSeq(ParamLines(s), 1, 2) \o CellBlock(s) \o PBlock(s) \o Sepr(s)
                               \o SubSeq(ParamLines(s), 3, Len(ParamLines(s))) \o KBlock(s))
Seed == "seed"

CU == {"none", "ang", "bohr"}
AT == {"frac", "cart_none", "cart_ang", "cart_bohr"}
KP == {"2x1x1", "1x2x2w", "3x1x2", "hole", "offgrid", "gamma"}
MPP == {"absent", "right", "wrong"}
PJ == {"absent", "two", "units"}
Init == /\ style \in Styles
        /\ IF Product = "full"
           THEN cu \in CU /\ at \in AT /\ kp \in KP /\ mpp \in MPP /\ pj \in PJ /\ pset \in {"A", "B"}
           ELSE \/ cu \in CU /\ at \in AT /\ kp = "2x1x1" /\ mpp = "absent" /\ pj = "two" /\ pset = "A"
                \/ cu = "none" /\ at = "frac" /\ kp \in KP /\ mpp \in MPP /\ pj \in PJ /\ pset = "B"
                \/ cu = "bohr" /\ at = "cart_ang" /\ kp = "3x1x2" /\ mpp = "right" /\ pj \in PJ /\ pset \in {"A", "B"}
        /\ pc = "in" /\ file = <<>> /\ rd = Err("not evaluated")
Read == /\ pc = "in" /\ pc' = "done"
        /\ file' = MkFile(style)
        /\ rd' = FromFile(MkFile(style), Seed)
        /\ UNCHANGED <<cu, at, kp, mpp, pj, pset, style>>
Next == Read
Spec == Init /\ [][Next]_vars

Done == pc = "done"
RdOk == Done /\ rd.err = ""
InModel == Done => WellFormed(file) /\ Complete(file) /\ AtomsDyadic(Significant(file))
(* a file whose k-points are a Monkhorst-Pack mesh is read iff mp_grid (when given) is that mesh; points that lie on no
   mesh are refused.  A mesh with a point missing ("hole") is outside the statement: get_mp_grid does not count the points
   (C23 reports that as information), so the file is read when mp_grid is absent or names the mesh *)
KpointsAreMesh == kp \notin {"hole", "offgrid"}
ReadDefined == Done => /\ (KpointsAreMesh => ((rd.err = "") = (mpp # "wrong")))
                       /\ (kp = "offgrid" => rd.err # "")
                       /\ (mpp = "wrong" => rd.err # "")
(* the result does not depend on how the file is written: case of the keywords, of begin/end and of the units, the
   separator, comment lines, the order of parameters and blocks *)
StyleInvariant == Done => rd = FromFile(MkFile(Canon), Seed)
(* every parameter is found under its (lower-case) keyword with its value *)
ParamsRead == RdOk => \A n \in 1..Len(ParamList) : Get(rd.data, ParamList[n][1]) = ParamList[n][2]
(* lengths: Angstrom unless the block says bohr *)
CellUnits == RdOk => rd.data["unit_cell_cart"] = VCell(BaseCell, IF cu = "bohr" THEN 1 ELSE 0)
(* the atoms in reduced coordinates: as given, or cart . cell^-1 with both converted to Angstrom first *)
AtomsFrac == RdOk => /\ rd.data["atoms_names"] = VNames(BaseNames)
                     /\ rd.data["atoms_frac"] = VFrac(BaseFrac, IF at = "frac" THEN 0 ELSE (IF at = "cart_bohr" THEN 1 ELSE 0) - (IF cu = "bohr" THEN 1 ELSE 0))
(* the k-points are the first three columns; mp_grid is their mesh *)
KptsMesh == RdOk => /\ rd.data["kpoints"] = VKpts(Flat3([n \in 1..Len(KList) |-> [v |-> [q |-> KList[n]]]], 1))
                    /\ rd.data["mp_grid"] = VInts(Mesh)
Projections == RdOk => rd.data["projections"] = IF pj = "absent" THEN VNone ELSE VStrs(ProjLines)
SeednameIsFile == RdOk => rd.data["seedname"] = VStr(Seed)
=============================================================================
