--------------------------- MODULE MC_KMeshDivide ---------------------------
(* One refinement step of run() on a 3-D regular grid for every (group, grid size, periodic mask, adpt_mesh,
   use_symmetry) and every ordered selection of one or two points of the K list:
       K_list = grid.get_K_list(use_symmetry)                                      (action GetKList)
       l1 = len(K_list)
       for iK in select_points: K_list += K_list[iK].divide(ndiv, periodic, use_symmetry)
       if use_symmetry: exclude_equiv_points(K_list, new_points = len(K_list) - l1)   (action Refine)
   Every "done" state is replayed on the real Grid / KpointBZparallel / exclude_equiv_points. *)
EXTENDS KMesh
CONSTANTS Names,        \* group names
          Sizes,        \* grid sizes coded as 100 n1 + 10 n2 + n3 (n[i] = 1 is forced in non-periodic directions)
          PerSet,       \* periodic masks coded as 100 p1 + 10 p2 + p3
          NdivSet,      \* adpt_mesh (same number in the three directions, as run() passes it)
          SymSet,       \* use_symmetry
          PairMaxPts,   \* two points are refined in one step when the K list has at most this many points
          TilingNames,  \* groups for which the image tiling of the whole zone is evaluated
          FullSamples,  \* TRUE: every unit sample, FALSE: one sample per finest cell in ZoneTiled
          CornerShift   \* FALSE: the code; TRUE: wrong adpt_shift (sensitivity self-test)
VARIABLES grp, n, per, ndiv, sym, pc, ord, kl0, kl1
vars == <<grp, n, per, ndiv, sym, pc, ord, kl0, kl1>>
AllNames == GroupNames
GT == TLCEval([nm \in Names |-> GroupTable[nm]])       \* the groups of this model, generated once
BoxNames == {nm \in Names : BoxPreserving(GT[nm])}

Geo(nn, pp, dd) == [n |-> nn, nd |-> EffNdiv(<<dd, dd, dd>>, pp), L |-> 1]
(* the periodic directions carry the grid, and the group maps the grid and the refined lattice to themselves *)
GeoOK(nn, pp, dd, nm) == /\ \A i \in 1..3 : (~pp[i]) => nn[i] = 1
                         /\ Compatible(nn, GT[nm]) /\ Compatible(FineU(Geo(nn, pp, dd)), GT[nm])
Orders(m) == {<<i>> : i \in 1..m} \cup (IF m <= PairMaxPts THEN {<<i, j>> : i, j \in 1..m} \ {<<i, i>> : i \in 1..m} ELSE {})
Dec3(code) == << code \div 100, (code \div 10) % 10, code % 10 >>
Mask(code) == << code \div 100 = 1, (code \div 10) % 10 = 1, code % 10 = 1 >>

Init == /\ grp \in Names /\ n \in {Dec3(c) : c \in Sizes} /\ per \in {Mask(c) : c \in PerSet} /\ ndiv \in NdivSet /\ sym \in SymSet
        /\ pc = "in" /\ ord = <<>> /\ kl0 = <<>> /\ kl1 = <<>>
gm   == Geo(n, per, ndiv)
Gm   == GT[grp]
GEff == IF sym THEN Gm ELSE {Id3}
GetKList == /\ pc = "in" /\ GeoOK(n, per, ndiv, grp) = TRUE     \* (= TRUE: evaluated as a value, not unrolled by TLC)
            /\ kl0' = InitFine(gm, Gm, sym) /\ pc' = "klist"
            /\ UNCHANGED <<grp, n, per, ndiv, sym, ord, kl1>>
Refine(o) == /\ pc = "klist"
             /\ ord' = o /\ kl1' = RefineList(kl0, o, gm, Gm, sym) /\ pc' = "done"
             /\ UNCHANGED <<grp, n, per, ndiv, sym, kl0>>
Next == GetKList \/ \E o \in Orders(Len(kl0)) : Refine(o)
Spec == Init /\ [][Next]_vars

Done    == pc = "done"
Parents == {ord[i] : i \in 1..Len(ord)}
Raw(p)  == ChildrenRawV(kl0[p], gm, CornerShift)
(* the list before any merging: parents set to zero, all raw children appended *)
RECURSIVE RawListFrom(_)
RawListFrom(i) == IF i > Len(ord) THEN <<>> ELSE Raw(ord[i]) \o RawListFrom(i + 1)
RawList == [i \in 1..Len(kl0) |-> IF i \in Parents THEN [kl0[i] EXCEPT !.fac = 0] ELSE kl0[i]] \o RawListFrom(1)

(* C06, refinement step *)
InitialWeight   == pc = "klist" => TotalWeight(kl0) = WOne(gm)
TotalWeightKept == Done => TotalWeight(kl1) = WOne(gm)
NonNegative     == Done => \A i \in 1..Len(kl1) : kl1[i].fac >= 0
ParentsDead     == Done => \A p \in Parents : kl1[p].fac = 0 /\ kl1[p].c = kl0[p].c /\ kl1[p].lev = 0
SubcellsTile    == Done => \A p \in Parents : ChildrenTileParent(kl0[p], Raw(p), gm)
SubcellsWeight  == Done => \A p \in Parents : /\ TotalWeight(Raw(p)) = kl0[p].fac
                                              /\ \A m \in 1..Len(Raw(p)) : Raw(p)[m].fac * Len(Raw(p)) = kl0[p].fac
MergeKeepsWeight == Done => MergeLossless(RawList, kl1, gm, GEff)
NoDuplicates    == (Done /\ sym) => NoEquivDup(kl1, gm, Gm)
NoMergeWithoutSymmetry == (Done /\ ~sym) => kl1 = RawList
ZoneTiled       == (Done /\ grp \in TilingNames) =>
                      /\ ImagesTile(kl1, gm, GEff, IF FullSamples THEN AllSamples(gm) ELSE FinestSamples(gm))
                      /\ OrbitWeights(kl1, gm, GEff)
=============================================================================
