--------------------------- MODULE MC_PointGroupAlg ---------------------------
(* Bounded model of PointGroupAlg: every generator list (catalogue subsets) on every lattice of the constants.
   pc = "gen"    : the `while True` loop of PointGroup.__init__, one action (Pass) per body
   pc = "group"  : the finished group with everything that depends on the group and the lattice only
                   (reduced matrices, check_basis_symmetry, multiplication table, stars, symmetric_grid, dict round trip)
   pc = "tensor" : one (rank, transformTR, transformInv, tensor): transform_tensor by every element and symmetrize_tensor *)
EXTENDS PointGroupAlg

CONSTANTS LATS,          \* lattices (names) that get generator lists of up to MAXGEN generators
          LATS1,         \* lattices that get the lists of at most one generator (incl. generators they are not invariant under)
          MAXGEN,        \* 1..3
          ORDERED,       \* TRUE: both orders of every pair
          TRIPLES,       \* catalogue indices used for 3-generator lists
          DUPS,          \* TRUE: also generator lists that repeat an element (the code keeps the first copy only)
          TENSOR_LATS,   \* lattices whose groups act on tensors (the action depends on the frame only)
          RANKS, COMBOS, \* COMBOS: "few" | "all" | "invalid"
          NGENERIC, BASIS, MAXPAIRS, \* tensors: NGENERIC generic ones per rank (+ all basis tensors); action law on groups up to MAXPAIRS
          KSET, NKMAX,
          ONLYC, ONLYH   \* if not empty: only these catalogue indices (cubic / hexagonal family) are used as generators

VARIABLES pc, lat, gens, G, npass, inp, out
vars == <<pc, lat, gens, G, npass, inp, out>>

Diag(a, b, c) == <<<<a, 0, 0>>, <<0, b, 0>>, <<0, 0, c>>>>
Lat(name) == CASE name = "sc" -> [fam |-> "cub", A |-> I3]
               [] name = "tet" -> [fam |-> "cub", A |-> Diag(1, 1, 2)]
               [] name = "ort" -> [fam |-> "cub", A |-> Diag(1, 2, 3)]
               [] name = "fcc" -> [fam |-> "cub", A |-> <<<<0, 1, 1>>, <<1, 0, 1>>, <<1, 1, 0>>>>]
               [] name = "bcc" -> [fam |-> "cub", A |-> <<<<-1, 1, 1>>, <<1, -1, 1>>, <<1, 1, -1>>>>]
               [] name = "hex" -> [fam |-> "hex", A |-> I3]
               [] name = "ohex" -> [fam |-> "hex", A |-> <<<<1, 0, 0>>, <<-1, 2, 0>>, <<0, 0, 1>>>>]
TR == "TimeReversal"
Catalogue(fam) ==
   IF fam = "cub" THEN
      << <<"Identity">>, <<"Inversion">>, <<TR>>, <<"Mx">>, <<"My">>, <<"Mz">>, <<"C2x">>, <<"C2y">>, <<"C2z">>,
         <<"C4x">>, <<"C4y">>, <<"C4z">>, <<"C3d">>, <<"C2d">>,
         <<TR, "C2x">>, <<TR, "Mz">>, <<TR, "C4z">>, <<TR, "Inversion">>, <<"Inversion", "C4z">> >>
   ELSE
      << <<"Identity">>, <<"Inversion">>, <<TR>>, <<"Mx">>, <<"My">>, <<"Mz">>, <<"C2x">>, <<"C2y">>, <<"C2z">>,
         <<"C3z">>, <<"C6z">>,
         <<TR, "C2x">>, <<TR, "Mz">>, <<TR, "C6z">>, <<TR, "Inversion">>, <<"Inversion", "C6z">>, <<TR, "C3z">> >>
Elem(fam, n) == FromStringProd(fam, Catalogue(fam)[n])
Compatible(l) == {n \in 1..Len(Catalogue(Lat(l).fam)) : MapsLattice(Elem(Lat(l).fam, n).R, Lat(l))}
Only(fam) == IF fam = "cub" THEN ONLYC ELSE ONLYH
GenIdx(l) ==
   LET only == Only(Lat(l).fam)
       all == IF only = {} THEN 1..Len(Catalogue(Lat(l).fam)) ELSE only
       c == Compatible(l) \cap all  full == l \in LATS IN
   (IF DUPS THEN {<<a, a>> : a \in {2, 7, 12} \cap c} \cup (IF {2, 7} \subseteq c THEN {<<7, 2, 7>>} ELSE {}) ELSE {})
   \cup {<<>>} \cup {<<a>> : a \in all}
        \cup (IF full /\ MAXGEN >= 2 THEN {<<a, b>> : a, b \in c} \ {p \in {<<a, b>> : a, b \in c} : p[1] = p[2] \/ (~ORDERED /\ p[1] > p[2])} ELSE {})
        \cup (IF full /\ MAXGEN >= 3 THEN {t \in {<<a, b, d>> : a, b, d \in (c \cap TRIPLES)} : t[1] < t[2] /\ t[2] < t[3]} ELSE {})
GenNames(l, idx) == [k \in 1..Len(idx) |-> Catalogue(Lat(l).fam)[idx[k]]]
GenElems(l, names) == [k \in 1..Len(names) |-> FromStringProd(Lat(l).fam, names[k])]

(* k-points: numerators over the common denominator N *)
KPTS == LET few == << [N |-> 4, k |-> <<0, 0, 0>>], [N |-> 4, k |-> <<1, 0, 0>>], [N |-> 4, k |-> <<1, 1, 0>>],
                      [N |-> 4, k |-> <<1, 2, 3>>], [N |-> 4, k |-> <<2, 2, 2>>], [N |-> 6, k |-> <<2, 2, 0>>],
                      [N |-> 6, k |-> <<3, 0, 1>>], [N |-> 12, k |-> <<1, 5, 7>>] >>
            more == << [N |-> 4, k |-> <<2, 0, 0>>], [N |-> 4, k |-> <<2, 2, 0>>], [N |-> 4, k |-> <<1, 1, 1>>],
                       [N |-> 4, k |-> <<3, 1, 2>>], [N |-> 6, k |-> <<2, 4, 0>>], [N |-> 6, k |-> <<3, 3, 3>>],
                       [N |-> 6, k |-> <<1, 2, 3>>], [N |-> 6, k |-> <<4, 2, 3>>], [N |-> 12, k |-> <<6, 6, 1>>],
                       [N |-> 12, k |-> <<4, 8, 3>>], [N |-> 5, k |-> <<1, 2, 0>>], [N |-> 5, k |-> <<1, 1, 3>>] >>
        IN IF KSET = "few" THEN few ELSE few \o more
NKS == [q \in 1..(NKMAX * NKMAX * NKMAX) |-> <<((q - 1) \div (NKMAX * NKMAX)) + 1, (((q - 1) \div NKMAX) % NKMAX) + 1, ((q - 1) % NKMAX) + 1>>]

(* tensors *)
Generic(r, v) == [rank |-> r, re |-> [p \in 1..Pow3(r) |-> ((p * p * (v + 1) + 3 * p + v) % 7) - 3],
                              im |-> [p \in 1..Pow3(r) |-> ((5 * p + v * p * p + 1) % 5) - 2]]
BasisT(r, q, imag) == [rank |-> r, re |-> [p \in 1..Pow3(r) |-> IF p = q /\ ~imag THEN 1 ELSE 0],
                                   im |-> [p \in 1..Pow3(r) |-> IF p = q /\ imag THEN 1 ELSE 0]]
Tensors(r) == {Generic(r, v) : v \in 1..NGENERIC} \cup (IF BASIS THEN {BasisT(r, q, b) : q \in 1..Pow3(r), b \in BOOLEAN} ELSE {})
Combos(r) ==
   LET names == IF r >= 3 THEN {"ident", "odd", "odd_conj", "odd_trans_021", "odd_trans_102", "trans"}
                ELSE IF r = 2 THEN {"ident", "odd", "odd_conj", "trans"} ELSE {"ident", "odd", "odd_conj"}
       few == CASE r = 0 -> {<<"ident", "odd">>, <<"odd_conj", "ident">>}
                [] r = 1 -> {<<"odd", "ident">>, <<"ident", "odd">>, <<"odd_conj", "odd">>}
                [] r = 2 -> {<<"trans", "odd">>, <<"odd", "trans">>, <<"odd_conj", "trans">>, <<"ident", "ident">>}
                [] OTHER -> {<<"odd_trans_021", "odd">>, <<"odd", "odd_trans_102">>, <<"odd_trans_021", "odd_trans_021">>,
                             <<"trans", "odd_conj">>, <<"odd_trans_102", "trans">>, <<"odd_trans_021", "odd_trans_102">>}
   IN CASE COMBOS = "few" -> few
        [] COMBOS = "all" -> names \X names
        [] COMBOS = "invalid" -> IF r >= 3 THEN {<<"odd_trans_021", "odd_trans_102">>, <<"odd_trans_021", "trans">>} ELSE {}

-----------------------------------------------------------------------------
Init == /\ pc = "gen" /\ lat \in (LATS \cup LATS1)
        /\ gens \in {GenNames(lat, idx) : idx \in GenIdx(lat)}
        /\ G = InitialList(GenElems(lat, gens))
        /\ npass = 0 /\ inp = <<>> /\ out = <<>>

GroupOut(L, l) ==
   LET symm == TLCEval(CheckBasisSymmetry(L, Lat(l))) IN
   [ W |-> IF symm THEN [n \in 1..Len(L) |-> Reduced(L[n].R, Lat(l))] ELSE <<>>,
     symm |-> symm,
     symmreal |-> CheckRealBasisSymmetry(L, Lat(l)),
     tab |-> MulTable(L),
     stars |-> IF symm THEN [q \in 1..Len(KPTS) |-> Star(L, KPTS[q].k, KPTS[q].N, Lat(l))] ELSE <<>>,
     grids |-> [q \in 1..Len(NKS) |-> SymmetricGrid(L, Lat(l), NKS[q])],
     dict |-> GroupFromDict(GroupAsDict(L)) ]

(* one body of `while True`: the double loop, then `if len(sym_list) == lenold: break` *)
Pass == /\ pc = "gen"
        /\ \E L2 \in {ClosurePass(G)} :             \* bound once (a LET would be re-evaluated at every mention)
             /\ G' = L2 /\ npass' = npass + 1
             /\ IF Len(L2) = Len(G) THEN pc' = "group" /\ out' = GroupOut(L2, lat) ELSE pc' = "gen" /\ out' = out
        /\ UNCHANGED <<lat, gens, inp>>

PickTensor ==
   /\ pc = "group" /\ lat \in TENSOR_LATS
   /\ \E r \in RANKS : \E c \in Combos(r) : \E T \in Tensors(r) :
        /\ inp' = [rank |-> r, tTR |-> c[1], tInv |-> c[2], T |-> T]
        /\ out' = [acted |-> [n \in 1..Len(G) |-> Act(G[n], T, Predefined[c[1]], Predefined[c[2]])],
                   sym |-> Symmetrize(G, T, Predefined[c[1]], Predefined[c[2]])]
   /\ pc' = "tensor" /\ UNCHANGED <<lat, gens, G, npass>>
Next == Pass \/ PickTensor
Spec == Init /\ [][Next]_vars

-----------------------------------------------------------------------------
L0 == Lat(lat)
AtGroup == pc = "group"
(* C09, group part *)
(* out.tab[i][j] = position of G[i] * G[j] in G (0 if absent), so closure and inverses are read off the table *)
GroupClosed     == AtGroup => \A i, j \in 1..Len(G) : out.tab[i][j] # 0
GroupIdentity   == AtGroup => HasIdentity(G)
GroupInverses   == AtGroup => LET e == IndexOrZero(G, Identity) IN
                      e # 0 /\ \A i \in 1..Len(G) : \E j \in 1..Len(G) : out.tab[i][j] = e /\ out.tab[j][i] = e /\ Mul(G[i], G[j]) = Identity
GroupAxiomsDirect == AtGroup => Closed(G) /\ HasInverses(G)           \* the same from the definitions (thorough tier)
GroupSize       == AtGroup => SizeBound(G)
GroupNoDup      == AtGroup => NoDuplicates(G)
GroupFrame      == AtGroup => FrameInvariant(G, L0.fam)
GroupLattice    == AtGroup => /\ out.symm = out.symmreal
                              /\ out.symm => LatticeInvariant(G, L0)
                              /\ out.symm = (\A k \in 1..Len(gens) : MapsLattice(FromStringProd(L0.fam, gens[k]).R, L0))
GenerateIsLoop  == AtGroup => G = Generate(GenElems(lat, gens))          \* the operator used by the record validation = the stepwise loop
DictRoundTrip   == AtGroup => out.dict = G
StarListsOnce   == AtGroup /\ out.symm => \A q \in 1..Len(KPTS) :
                      /\ StarOnce(out.stars[q], G, KPTS[q].k, KPTS[q].N, L0)
                      /\ StarFirstOccurrences(out.stars[q], G, KPTS[q].k, KPTS[q].N, L0)
                      /\ Len(G) % Len(out.stars[q]) = 0
GridUniform     == AtGroup => \A q \in 1..Len(NKS) : (NKS[q][1] = NKS[q][2] /\ NKS[q][2] = NKS[q][3] /\ out.symm) => out.grids[q]

(* C09, tensor part *)
RECURSIVE SumRe(_, _, _), SumIm(_, _, _)
SumRe(ts, n, p) == IF n = 0 THEN 0 ELSE SumRe(ts, n - 1, p) + ts[n].re[p]
SumIm(ts, n, p) == IF n = 0 THEN 0 ELSE SumIm(ts, n - 1, p) + ts[n].im[p]
AtTensor == pc = "tensor"
tTR == Predefined[inp.tTR]
tInv == Predefined[inp.tInv]
Valid == ValidPair(tTR, tInv)
ActLawHolds == \A i, j \in 1..Len(G) : Act(G[i], out.acted[j], tTR, tInv) = out.acted[IndexOrZero(G, Mul(G[i], G[j]))]
ActionLaw       == (AtTensor /\ Valid /\ Len(G) <= MAXPAIRS) => ActLawHolds
ActionLawGens   == (AtTensor /\ Valid /\ Len(G) > MAXPAIRS) =>       \* large groups: left factor = generators (enough by induction)
                      \A i \in 1..Len(gens) : \A j \in 1..Len(G) :
                          Act(G[i], out.acted[j], tTR, tInv) = out.acted[IndexOrZero(G, Mul(G[i], G[j]))]
ActionLawUnconditional == AtTensor => ActLawHolds                         \* must FAIL for COMBOS = "invalid"
ActIdentity     == AtTensor => Act(Identity, inp.T, tTR, tInv) = inp.T /\ IsTensor(out.sym)
SymInvariant    == (AtTensor /\ Valid) => \A i \in 1..Len(G) : Act(G[i], out.sym, tTR, tInv) = out.sym
SymIdempotent   == (AtTensor /\ Valid) => Symmetrize(G, out.sym, tTR, tInv) = TScale(out.sym, Len(G))
SymIsSum        == AtTensor => \A p \in 1..Pow3(inp.rank) : out.sym.re[p] = SumRe(out.acted, Len(G), p) /\ out.sym.im[p] = SumIm(out.acted, Len(G), p)
TransformCommutesWithRotation ==
   AtTensor => \A i \in 1..Len(G) : \A t \in {tTR, tInv} :
                   Apply(t, RotateAxes(G[i].R, inp.T, 1)) = RotateAxes(G[i].R, Apply(t, inp.T), 1)
ActLinear       == AtTensor => \A i \in 1..Len(G) : LET T2 == Generic(inp.rank, 3) IN
                      Act(G[i], TAdd(TScale(inp.T, 2), T2), tTR, tInv) = TAdd(TScale(out.acted[i], 2), Act(G[i], T2, tTR, tInv))
=============================================================================
