---------------------------- MODULE MC_SysAlgOps ----------------------------
(* Bounded model of the system algebra as a state machine: a base system from a catalogue of small exact systems, then a
   sequence of API operations (one action per public operation). Every state carries the history `hist`, the system before
   the last operation (`prev`) and the result (`cur`): the laws of C05 / C25 / C26 are invariants over (prev, last op, cur),
   and every state is one replay case for the real code (base + hist -> real objects, compared with `cur`). *)
EXTENDS SysAlg

CONSTANTS NWS,        \* numbers of Wannier functions of the base systems
          KDIRS,      \* 1 or 2 active lattice directions (R generators and the k-set)
          MAXHOPS,    \* hops per base system (besides the on-site energies)
          MAXHOPS2,   \* hops per partner system (second operand of MakeSOC / Interpolate)
          NEPS, NCEN, \* how many on-site / centre choices per nw
          WITHX,      \* subset of BOOLEAN: base systems with / without the second matrix
          OPS,        \* enabled operations
          MAXLEN,     \* length of the operation sequences
          PHS,        \* phase exponents of the exact unitaries (subset of 0..3)
          ANGM, ANGN, \* theta = m pi/2, phi = n pi/2
          ALS,        \* alpha_soc values
          MAXSOC,     \* SOC terms per SOC data set
          DEN,        \* alpha = a/DEN, a in 0..DEN
          SC,         \* all amplitudes and on-site energies are multiples of SC (SC = DEN makes the interpolation exact)
          AEXT,       \* 0: alpha in [0, 1]; 1: also a = -1 and a = DEN + 1 (extrapolation)
          NSPINS,     \* subset of {1, 2}: SystemSOC(up) with one spin channel, SystemSOC(up, down)
          NAMES,      \* names of further real-space matrices every base system carries (subset of AllNames)
          Variant     \* "ok"; wrong variants for the sensitivity self-tests: "keepcentres", "anyU", "blockspin", "intersect", "fixednames"

VARIABLES base, kind, cur, prev, hist,
          obs,        \* observation of cur: [k \in KS |-> <<H(k), characteristic polynomial of H(k)>>]
          aux         \* Ham_SOC of a spin-orbit system with SOC, <<>> otherwise
vars == <<base, kind, cur, prev, hist, obs, aux>>

RGEN == IF KDIRS = 1 THEN {<<1, 0, 0>>} ELSE {<<1, 0, 0>>, <<0, 1, 0>>}
(* three of the four quarter points per active direction decide a trigonometric polynomial of degree 1 *)
KS == IF KDIRS = 1 THEN {<<k, 0, 0>> : k \in 0..2} ELSE {<<k1, k2, 0>> : k1 \in 0..2, k2 \in 0..2}
CS == 1..KDIRS
AMPS == {<<SC, 0>>, <<-SC, 0>>, <<0, SC>>}
FirstN(seq, n) == {seq[j] : j \in 1..(IF n < Len(seq) THEN n ELSE Len(seq))}
EpsChoices(nw) == CASE nw = 1 -> <<<<0>>, <<SC>>>>
                    [] nw = 2 -> <<<<SC, -SC>>, <<0, 0>>, <<0, SC>>>>
                    [] OTHER  -> <<<<SC, 0, -SC>>, <<0, 0, 0>>>>
(* centres in twelfths; for SC = 2 only halves are used, so that midpoints stay on the grid *)
CenChoices(nw) == CASE nw = 1 -> IF SC = 1 THEN <<<<Z3>>, <<<<3, 0, 0>>>>>> ELSE <<<<Z3>>, <<<<6, 0, 0>>>>>>
                    [] nw = 2 -> IF SC = 1 THEN <<<<Z3, Z3>>, <<Z3, <<3, 6, 0>>>>, <<<<4, 4, 0>>, <<4, 4, 0>>>>>>
                                           ELSE <<<<Z3, Z3>>, <<Z3, <<6, 0, 0>>>>, <<<<6, 6, 0>>, <<6, 6, 0>>>>>>
                    [] OTHER  -> IF SC = 1 THEN <<<<Z3, Z3, <<6, 3, 0>>>>, <<Z3, Z3, Z3>>>>
                                           ELSE <<<<Z3, Z3, <<6, 0, 0>>>>, <<Z3, Z3, Z3>>>>
(* the second matrix, derived from the Hamiltonian so that the catalogue does not grow: X(R) = 2 H(R) + delta_R0 diag(1..nw) *)
WithX(s) == [s EXCEPT !.hasX = TRUE,
                      !.X = FunR(s.rs, LAMBDA R : MatAdd(MatScale(GInt(2), s.H[R]),
                                                   IF R = Z3 THEN DiagMat([a \in 1..s.nw |-> SC * a]) ELSE MatZero(s.nw)))]
Plain(nw, maxhops, neps, ncen, extras) ==
   Catalogue(nw, FirstN(CenChoices(nw), ncen), FirstN(EpsChoices(nw), neps), RGEN, AMPS, maxhops, extras)
(* the named matrices, derived from the Hamiltonian so that the catalogue does not grow; every name and Cartesian component gets
   its own multiple of H(R) and its own on-site diagonal, so that no permutation and no mix-up of names or components goes unnoticed *)
WithM(s) == [s EXCEPT !.M = [n \in NAMES |-> FunR(s.rs, LAMBDA R : Vec(NComp(n), LAMBDA c :
                MatAdd(MatScale(GInt(3 * NameIdx(n) + c), s.H[R]),
                       IF R = Z3 THEN DiagMat([a \in 1..s.nw |-> SC * a * (NameIdx(n) + 2 * c)]) ELSE MatZero(s.nw))))]]
BaseCat == UNION {{WithM(IF x THEN WithX(s) ELSE s) : s \in Plain(nw, MAXHOPS, NEPS, NCEN, {{}})} : nw \in NWS, x \in WITHX}
(* partners (second operand of MakeSOC / Interpolate): other centres, hops along the first direction with imaginary amplitude,
   optionally an R-vector of the second direction stored with zeros (so that the R-sets differ), with and without X *)
Partners(nw) ==
   LET P == Catalogue(nw, FirstN(Reverse(CenChoices(nw)), 1), FirstN(Reverse(EpsChoices(nw)), 1), {<<1, 0, 0>>}, {<<0, SC>>}, MAXHOPS2,
                      {{}, {<<0, 1, 0>>}})
   IN P \cup {WithX(s) : s \in {p \in P : p.rs = {Z3}}}

SocCat(nw) == SocCatalogue(nw, MAXSOC)

Units(s) == LET all == {[a \in 1..s.nw |-> [b \in 1..s.nw |-> IF b = p[a] THEN IPow(e[a]) ELSE GZ]] : p \in Perms(s.nw), e \in [1..s.nw -> PHS]}
            IN IF Variant = "anyU" THEN all ELSE {U \in all : CoCentred(s, U)}

Obs(k2, s) == [k \in KS |-> LET hk == IF k2 = "SOC" THEN HkSOC(s, k) ELSE Hk(s, k) IN <<hk, CharPoly(hk)>>]
Aux(k2, s) == IF k2 = "SOC" /\ s.hassoc THEN HamSOC(s) ELSE <<>>
Init == /\ base \in BaseCat /\ cur = base /\ prev = base /\ kind = "R" /\ hist = <<>> /\ obs = Obs("R", base) /\ aux = <<>>
Step(op, k2, new) == /\ Len(hist) < MAXLEN /\ hist' = Append(hist, op) /\ prev' = cur /\ cur' = new /\ kind' = k2 /\ obs' = Obs(k2, new) /\ aux' = Aux(k2, new) /\ UNCHANGED base

DoReorder == /\ "Reorder" \in OPS /\ kind = "R"
             /\ \E p \in Perms(cur.nw) : Step([op |-> "Reorder", p |-> p], "R",
                                              IF Variant = "keepcentres" THEN ReorderKeepCentres(cur, p)
                                              ELSE IF Variant = "fixednames" THEN ReorderFixedNames(cur, p) ELSE Reorder(cur, p))
DoRotate == /\ "Rotate" \in OPS /\ kind = "R"
            /\ \E U \in Units(cur) : Step([op |-> "Rotate", U |-> U], "R", Rotate(cur, U))
DoDoubleSpin == /\ "DoubleSpin" \in OPS /\ kind = "R" /\ ~cur.spinor
                /\ Step([op |-> "DoubleSpin"], "R", IF Variant = "blockspin" THEN DoubleSpinBlock(cur) ELSE DoubleSpin(cur))
DoMakeSOC == /\ "MakeSOC" \in OPS /\ kind = "R" /\ ~cur.spinor /\ ~cur.hasX
             /\ \/ /\ 2 \in NSPINS
                   /\ \E dn \in {p \in Partners(cur.nw) : ~p.hasX} : Step([op |-> "MakeSOC", dn |-> dn, nspin |-> 2], "SOC", MakeSOC(cur, dn))
                \/ /\ 1 \in NSPINS                                  \* SystemSOC(system_up): system_down is system_up
                   /\ Step([op |-> "MakeSOC", dn |-> cur, nspin |-> 1], "SOC", MakeSOC(cur, cur))
(* the number of spin channels of the spin-orbit system under construction (set by its MakeSOC) *)
NspinNow == LET js == {j \in 1..Len(hist) : hist[j].op = "MakeSOC"} IN hist[CHOOSE j \in js : \A i \in js : i <= j].nspin
DoSetSOC == /\ "SetSOC" \in OPS /\ kind = "SOC" /\ ~cur.hassoc
            /\ \E d \in SocCat(cur.up.nw), m \in ANGM, n \in ANGN, al \in ALS :
                  LET D == IF NspinNow = 1 THEN Nspin1D(d.D) ELSE d.D IN
                  Step([op |-> "SetSOC", rsS |-> d.rsS, D |-> D, m |-> m, n |-> n, al |-> al], "SOC",
                       SetSOC(cur, d.rsS, D, PauliRot(m, n), al))
(* get_system_R of every spin-orbit system, with or without SOC terms (the statement does not exclude the latter) *)
DoToPlainR == /\ "ToPlainR" \in OPS /\ kind = "SOC"
              /\ Step([op |-> "ToPlainR"], "R", ToPlainR(cur))
DoInterpolate == /\ "Interpolate" \in OPS /\ kind = "R"
                 /\ \E s1 \in Partners(cur.nw), a \in (0 - AEXT)..(DEN + AEXT) :
                       /\ InterpExact(cur, s1, a, DEN)
                       /\ Step([op |-> "Interpolate", s1 |-> s1, a |-> a, den |-> DEN], "R",
                               IF Variant = "intersect" THEN InterpolateIntersect(cur, s1, a, DEN) ELSE Interpolate(cur, s1, a, DEN))
Next == DoReorder \/ DoRotate \/ DoDoubleSpin \/ DoMakeSOC \/ DoSetSOC \/ DoToPlainR \/ DoInterpolate
Spec == Init /\ [][Next]_vars

LastOp == hist[Len(hist)]
After(op) == hist # <<>> /\ LastOp.op = op
(* C05 *)
LawReorder == After("Reorder") => ReorderLaws(prev, LastOp.p, cur, KS, CS)
LawRotate == After("Rotate") => IsUnitary(LastOp.U) /\ RotateLaws(prev, LastOp.U, cur, KS, CS)
(* C25 *)
LawDoubleSpin == After("DoubleSpin") => DoubleSpinLaws(prev, cur, KS, CS)
LawMakeSOC == kind = "SOC" => SocDataHermitian(cur) /\ MakeSOCLaws(cur, KS)
LawToPlainR == After("ToPlainR") => ToPlainRLaws(prev, cur, KS)
(* C26 *)
LawInterpolate == After("Interpolate") => InterpolateLaws(prev, LastOp.s1, LastOp.a, LastOp.den, cur, KS)
AlwaysHermitian == (kind = "R" => HermSys(cur)) /\ \A k \in KS : IsHermitian(obs[k][1]) /\ \A j \in 1..Len(obs[k][2]) : GIsReal(obs[k][2][j])
=============================================================================
