---------------------------- MODULE MC_KMeshGrid ----------------------------
(* Grid.get_K_list as the loops of the code, one action per loop body, for every group of the catalogue, every grid
   size up to NMAX per direction and use_symmetry in SymSet.  Grid.__init__ (determineNK) rejects grids that the
   group does not map to themselves: these cases end in pc = "rejected" immediately. *)
EXTENDS KMesh
CONSTANTS NMAX, Names, SymSet
VARIABLES grp, n, sym, pc, pos, w, out
vars == <<grp, n, sym, pc, pos, w, out>>
AllNames == GroupNames
GT == TLCEval([nm \in Names |-> GroupOf(nm)])       \* the groups of this model, generated once
G == GT[grp]

Init == /\ grp \in Names /\ n \in (1..NMAX) \X (1..NMAX) \X (1..NMAX) /\ sym \in SymSet
        /\ pos = 0 /\ out = <<>>
        /\ IF Compatible(n, GT[grp])
           THEN pc = "create" /\ w = [k \in {} |-> 0]
           ELSE pc = "rejected" /\ w = [k \in {} |-> 0]

(* K_list = [[[KpointBZparallel(K = (x,y,z)*dK, factor = 1/prod(div)) ...]]] *)
Create == /\ pc = "create"
          /\ w' = [k \in GridPts(n) |-> 1]
          /\ pc' = IF sym THEN "loop" ELSE "flatten"
          /\ UNCHANGED <<grp, n, sym, pos, out>>
(* for z: for y: for x:  KP = K_list[x][y][z]; if KP is not None: absorb the star *)
LoopBody == /\ pc = "loop" /\ pos < NTot(n)
            /\ LET k == LoopPoint(pos, n) IN
                 w' = IF w[k] = NoneW THEN w ELSE AbsorbStar(w, k, n, G)
            /\ pos' = pos + 1
            /\ UNCHANGED <<grp, n, sym, pc, out>>
LoopEnd == /\ pc = "loop" /\ pos = NTot(n) /\ pc' = "flatten" /\ UNCHANGED <<grp, n, sym, pos, w, out>>
(* K_list = [K for Kyz in K_list for Kz in Kyz for K in Kz if K is not None] *)
DoFlatten == /\ pc = "flatten" /\ out' = Flatten(w, n) /\ pc' = "done" /\ UNCHANGED <<grp, n, sym, pos, w>>
Next == Create \/ LoopBody \/ LoopEnd \/ DoFlatten
Spec == Init /\ [][Next]_vars

GEff == IF sym THEN G ELSE {Id3}
Done == pc = "done"
(* C06, initial grid *)
NonNegative     == Done => WeightsNonNegative(out)
SumToOne        == Done => WeightsSumToOne(out, n)
Partition       == Done => StarsPartition(out, n, GEff)
OrbitWeight     == Done => WeightIsOrbitSize(out, n, GEff)
ImagesCoverOnce == Done => CoveredOnce(out, n, GEff)
EqualsDeclarative == Done => out = IrreducibleList(n, G, sym)
(* the absorption loop never loses or creates weight, and a deleted point is always represented by a live one *)
LoopConserves == pc \in {"loop", "flatten"} =>
    /\ MapThenSumSet(LAMBDA k : IF w[k] = NoneW THEN 0 ELSE w[k], DOMAIN w) = NTot(n)
    /\ \A k \in DOMAIN w : w[k] = NoneW => \E q \in StarG(k, n, G) : w[q] # NoneW
    /\ \A k \in DOMAIN w : w[k] # NoneW => w[k] >= 1
=============================================================================
