----------------------------- MODULE MC_PathBatch -----------------------------
(* Path.get_K_list(k_batch) as its loop (one action per batch) and TABresult.self_to_path: the batches concatenate
   to the path, and the result k-points of the batches, collected in ANY order (serial = path order, parallel =
   completion order), are mapped back to path order.  Only lengths and the pattern of points that coincide modulo a
   reciprocal lattice vector matter here: point j is ((j, j mod 2, 0) / q). *)
EXTENDS PathSpec
CONSTANTS MaxLen, KBatch, Dens
VARIABLES P, kb, ik, bs, pc, cls
vars == <<P, kb, ik, bs, pc, cls>>

PathOfLen(n, q) == [K |-> [j \in 1..n |-> <<j - 1, (j - 1) % 2, 0, q>>], labels |-> <<>>, breaks |-> <<>>]
Init == /\ P \in {PathOfLen(n, q) : n \in 1..MaxLen, q \in Dens}
        /\ kb \in KBatch /\ ik = 0 /\ bs = <<>> /\ pc = "batch" /\ cls = PtClass(P.K)
(* for ik in range(0, len(self.K_list), k_batch) *)
Batch == /\ pc = "batch" /\ ik < Len(P.K)
         /\ bs' = BatchStep(bs, P, ik, kb) /\ ik' = ik + kb
         /\ UNCHANGED <<P, kb, pc, cls>>
BatchEnd == /\ pc = "batch" /\ ik >= Len(P.K) /\ pc' = "done"
            /\ UNCHANGED <<P, kb, ik, bs, cls>>
Next == Batch \/ BatchEnd
Spec == Init /\ [][Next]_vars

Done == pc = "done"
LoopIsOperator == Done => bs = Batches(P, kb)
InvBatches == Done => BatchesConcat(bs, P) /\ BatchesSizes(bs, P, kb)
Permuted(s, p) == [t \in 1..Len(s) |-> s[p[t]]]
(* whatever the order of the batches, entry j of the re-ordered result belongs to a k-point equivalent to path point j *)
InvToPath ==
   Done /\ Len(bs) <= 5 =>
      \A p \in Permutations(1..Len(bs)) :
         LET kp == FlattenSeq(Permuted(bs, p))
             map == ToPathMap(kp, P.K)
         IN \A j \in 1..Len(P.K) : PtEquiv(kp[map[j]], P.K[j]) /\ cls[j] = Min({t \in 1..Len(P.K) : PtEquiv(P.K[t], kp[map[j]])})
=============================================================================
