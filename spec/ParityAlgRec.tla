---------------------------- MODULE ParityAlgRec ----------------------------
(* code -> spec: records taken from real formula objects instantiated on a real Data_K; one TLC state per record.
   kind = "decl": the transformTR / transformInv attributes of the object  (factor, conj, transpose_axes as a digit string)
   kind = "cov" : the same for data_K.covariant(name, commader, gender)
   kind = "sign": the sign s in  value(-k) = s * P(value(k))  measured on a symmetric model, P = the conj/transposition
                  part of the declared transformation; classified from floating-point values by the harness *)
EXTENDS ParityAlg, Json, IOUtils, TLCExt
VARIABLE i
Recs == JsonDeserialize(IOEnv.TRACE_FILE).recs
Rec == Recs[i]
AxesOf(s) == CASE s = "" -> NoAxes [] s = "10" -> <<1, 0>> [] s = "021" -> <<0, 2, 1>> [] s = "102" -> <<1, 0, 2>> [] OTHER -> <<9>>
T(r) == Tr(r.factor, r.conj, AxesOf(r.axes))
DeclClauses ==
   [ known_formula |-> Rec.name \in Formulas,
     equals_code_model |-> Rec.name \in Formulas => (T(Rec.tr) = Declared(Rec.name).tr /\ T(Rec.inv) = Declared(Rec.name).inv),
     equals_derived |-> Rec.name \in Formulas => (T(Rec.tr) = Expected(Rec.name).tr /\ T(Rec.inv) = Expected(Rec.name).inv),
     involution |-> IsTransform(T(Rec.tr)) /\ IsTransform(T(Rec.inv)) /\ IsInvolution(T(Rec.tr)) /\ IsInvolution(T(Rec.inv)) ]
CovClauses ==
   LET d == DeclOf(Cov(Rec.name, Rec.commader, Rec.gender)) IN
   [ equals_code_model |-> T(Rec.tr) = d.tr /\ T(Rec.inv) = d.inv ]
SignClauses ==
   [ known_formula |-> Rec.name \in Formulas,
     sign_equals_derived |-> Rec.name \in Formulas =>
         Rec.sign = (IF Rec.sym = "TR" THEN Expected(Rec.name).tr.factor ELSE Expected(Rec.name).inv.factor),
     sign_equals_declared |-> Rec.name \in Formulas =>
         Rec.sign = (IF Rec.sym = "TR" THEN Declared(Rec.name).tr.factor ELSE Declared(Rec.name).inv.factor) ]
Clauses == CASE Rec.kind = "decl" -> DeclClauses
             [] Rec.kind = "cov" -> CovClauses
             [] Rec.kind = "sign" -> SignClauses
Report == \A n \in DOMAIN Clauses : Clauses[n] \/ PrintT(<<"BAD", i, n>>)
RecInit == i \in 1..Len(Recs)
RecSpec == RecInit /\ [][UNCHANGED i]_i
=============================================================================
