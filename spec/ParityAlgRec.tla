---------------------------- MODULE ParityAlgRec ----------------------------
(* code -> spec: records taken from real formula objects instantiated on a real Data_K; one TLC state per record.
   kind = "decl": the transformTR / transformInv of the object, described by their EFFECT on a probe tensor (factor, conj,
                  axes permutation as a digit string; the harness writes the table's own notation when the effect is the
                  same as that of the table's transformation, the observed effect otherwise)
   kind = "decl1": one such transformation (sym = "TR" | "Inv") attached by a dynamic calculator to its result
   kind = "cov" : the same for data_K.covariant(name, commader, gender), for the names catalogued formulas consume
   kind = "usign": a sign measured on a formula class that is not in the catalogue, with the factor it declares itself
   kind = "sign": the sign s in  value(-k) = s * P(value(k))  measured on a symmetric model, P = the conj/transposition
                  part of the declared transformation; classified from floating-point values by the harness *)
EXTENDS ParityAlg, Json, IOUtils, TLCExt
VARIABLES i, rec          \* rec = the record itself: read once in the initial predicate, materialised in the state
Recs == JsonDeserialize(IOEnv.TRACE_FILE).recs
Rec == rec
AxesOf(s) == CASE s = "" -> NoAxes [] s = "10" -> <<1, 0>> [] s = "021" -> <<0, 2, 1>> [] s = "102" -> <<1, 0, 2>> [] OTHER -> <<9>>
T(r) == Tr(r.factor, r.conj, AxesOf(r.axes))
DeclClauses ==
   [ known_formula |-> Rec.name \in AllNames,
     equals_code_model |-> Rec.name \in AllNames => (T(Rec.tr) = Declared(Rec.name).tr /\ T(Rec.inv) = Declared(Rec.name).inv),
     equals_derived |-> Rec.name \in AllNames => (T(Rec.tr) = Expected(Rec.name).tr /\ T(Rec.inv) = Expected(Rec.name).inv),
     involution |-> IsTransform(T(Rec.tr)) /\ IsTransform(T(Rec.inv)) /\ IsInvolution(T(Rec.tr)) /\ IsInvolution(T(Rec.inv)) ]
Decl1Clauses ==
   LET d == IF Rec.sym = "TR" THEN Declared(Rec.name).tr ELSE Declared(Rec.name).inv
       e == IF Rec.sym = "TR" THEN Expected(Rec.name).tr ELSE Expected(Rec.name).inv IN
   [ known_formula |-> Rec.name \in AllNames,
     equals_code_model |-> Rec.name \in AllNames => T(Rec.t) = d,
     equals_derived |-> Rec.name \in AllNames => T(Rec.t) = e,
     involution |-> IsTransform(T(Rec.t)) /\ IsInvolution(T(Rec.t)) ]
(* kind = "tprod": TransformProduct of Transform objects given by VALUE (also objects that are equal to, but not identical
   with, the module constants) *)
TProdClauses ==
   LET ts == [k \in 1..Len(Rec.ts) |-> T(Rec.ts[k])] IN
   [ product_rule |-> T(Rec.out) = TransformProduct(ts) ]
USignClauses ==
   [ sign_equals_own_declaration |-> Rec.sign = Rec.declared /\ Rec.sign \in {1, -1} ]
CovClauses ==
   LET d == DeclOf(Cov(Rec.name, Rec.commader, Rec.gender)) IN
   [ equals_code_model |-> T(Rec.tr) = d.tr /\ T(Rec.inv) = d.inv ]
SignClauses ==
   [ known_formula |-> Rec.name \in AllNames,
     sign_equals_derived |-> Rec.name \in AllNames =>
         Rec.sign = (IF Rec.sym = "TR" THEN Expected(Rec.name).tr.factor ELSE Expected(Rec.name).inv.factor),
     sign_equals_declared |-> Rec.name \in AllNames =>
         Rec.sign = (IF Rec.sym = "TR" THEN Declared(Rec.name).tr.factor ELSE Declared(Rec.name).inv.factor) ]
Clauses == CASE Rec.kind = "decl" -> DeclClauses
             [] Rec.kind = "decl1" -> Decl1Clauses
             [] Rec.kind = "usign" -> USignClauses
             [] Rec.kind = "tprod" -> TProdClauses
             [] Rec.kind = "cov" -> CovClauses
             [] Rec.kind = "sign" -> SignClauses
Report == LET C == Clauses IN \A n \in DOMAIN C : C[n] \/ PrintT(<<"BAD", i, n>>)      \* the table is evaluated once
RecInit == \E rs \in {Recs} : i \in 1..Len(rs) /\ rec = rs[i]
RecSpec == RecInit /\ [][UNCHANGED <<i, rec>>]_<<i, rec>>
=============================================================================
