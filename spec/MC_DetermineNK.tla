--------------------------- MODULE MC_DetermineNK ---------------------------
(* decision table of grid.py determineNK / autoNK: one state per input; states (all of them in the thorough tier up to a cap, a
   seeded sample in the quick tier) are replayed on the real function: accepted / refused, returned NKdiv, NKFFT *)
EXTENDS FactorKernel
CONSTANTS GROUPS, SCALARS, VECTORS, RECS, PERIODICS
VARIABLES grp, gset, periodic, NKdiv, NKFFT, NK, rec, res, ambiguous
vars == <<grp, gset, periodic, NKdiv, NKFFT, NK, rec, res, ambiguous>>
(* cfg files cannot hold tuples: the model's vector sets are chosen by  VECTORS <- VecsA  etc. *)
VecsA == {<<4, 4, 1>>, <<4, 2, 2>>, <<2, 4, 2>>, <<6, 3, 1>>, <<3, 3, 2>>, <<5, 5, 3>>}
VecsB == VecsA \cup {<<8, 8, 1>>, <<6, 6, 4>>, <<12, 12, 1>>, <<9, 9, 9>>}
VecsQ == {<<4, 4, 1>>, <<4, 2, 2>>, <<6, 3, 1>>, <<5, 5, 2>>}
VecsQ2 == {<<4, 4, 1>>, <<6, 3, 1>>, <<5, 5, 2>>}
PerAll == {<<TRUE, TRUE, TRUE>>, <<TRUE, TRUE, FALSE>>, <<TRUE, FALSE, FALSE>>}
PerQ == {<<TRUE, TRUE, TRUE>>, <<TRUE, TRUE, FALSE>>}
RecsQ == {<<1, 1, 1>>, <<2, 2, 1>>, <<3, 3, 3>>}
RecsA == {<<1, 1, 1>>, <<2, 2, 1>>, <<3, 3, 3>>, <<3, 1, 1>>, <<1, 2, 3>>}
RecsB == RecsA \cup {<<2, 2, 2>>, <<4, 4, 2>>, <<5, 5, 5>>, <<2, 3, 1>>}
Args == {None} \cup {<<a, a, a>> : a \in SCALARS} \cup VECTORS
UsesAuto(d, f, n) == f = None /\ n # None
Init == /\ grp \in GROUPS
        /\ gset = GroupOf(grp)
        /\ periodic \in PERIODICS
        /\ NKdiv \in Args /\ NKFFT \in Args /\ NK \in Args
        /\ rec \in (IF UsesAuto(NKdiv, NKFFT, NK) /\ SymmetricGrid(NK, gset) /\ (NKdiv = None \/ SymmetricGrid(NKdiv, gset))
                    THEN RECS ELSE {<<1, 1, 1>>})
        /\ res = DetermineNK(periodic, NKdiv, NKFFT, NK, rec, gset)
        /\ ambiguous = (res.kind = "auto" /\ AutoTieAmbiguous(NK, rec, gset))
Next == UNCHANGED vars
Spec == Init /\ [][Next]_vars

Ok == res.kind \in {"ok", "auto"}
(* C03: whenever the requested NK is not reported as adjusted, the dense grid is exactly NK (in periodic directions) *)
ExactUnlessAdjusted == (Ok /\ NK # None /\ "adjusted" \notin res.warn /\ "NK_disregarded" \notin res.warn)
                          => Times3(res.div, res.fft) = MaskPeriodic(NK, periodic)
AdjustedIffMismatch == (Ok /\ NK # None /\ res.kind = "ok" /\ NKdiv = None)
                          => (("adjusted" \in res.warn) <=> (\E i \in 1..3 : NK[i] % NKFFT[i] # 0 \/ NK[i] < NKFFT[i]))
PairReturnedAsIs == (NKdiv # None /\ NKFFT # None /\ Ok) => (res.div = MaskPeriodic(NKdiv, periodic) /\ res.fft = MaskPeriodic(NKFFT, periodic))
NonPeriodicOne == Ok => \A i \in 1..3 : ~periodic[i] => (res.div[i] = 1 /\ res.fft[i] = 1)
Positive == Ok => \A i \in 1..3 : res.div[i] >= 1 /\ res.fft[i] >= 1
(* the transcription's own choice is one of the values the harness accepts of the code *)
TranscriptionIsValid == (res.kind = "ok") => ExplicitValueOK(periodic, NKdiv, NKFFT, NK, res.div, res.fft)
(* periodic directions must be closed under the group, otherwise the system cannot have that group *)
PeriodicCompatible == \A g \in gset : \A a \in 1..3, b \in 1..3 : g.A[a][b] # 0 => periodic[a] = periodic[b]
ResultSymmetric == (Ok /\ PeriodicCompatible) => (SymmetricGrid(res.fft, gset) /\ SymmetricGrid(res.div, gset))
=============================================================================
