---------------------------- MODULE FactorKernel ----------------------------
(* C03 kernel: the set of k-points over which run() sums does not depend on how the grid N is factorised into
   NKdiv x NKFFT, with or without symmetry reduction.

   A K-list is a sequence of <<x, w>>: x a point of the division grid div (K = x/div), w its weight in units of
   1/prod(div) (KpointBZ.factor * prod(div)).  ksets[j] is Data_K.kpoints_all of the j-th K-point as points of the
   dense grid N = div*fft. *)
EXTENDS KSymBase

Dense(div, fft) == Times3(div, fft)
KSetsOf(klist, div, fft, KpDivides) == [j \in 1..Len(klist) |-> KSetSeq(klist[j][1], div, fft, KpDivides)]

SumIdx(n, F(_)) == FoldSet(LAMBDA j, acc : acc + F(j), 0, 1..n)
SumSetOf(S, F(_)) == FoldSet(LAMBDA x, acc : acc + F(x), 0, S)

(* The weighted multiset of k-points that run() sums over: Measure[p] = sum of the weights w_K of all K-points whose
   k-set contains the dense point p, counted with multiplicity (one pass over all (K, k) pairs, as the accumulation
   result_all += factor_K * sum_{k in kpoints_all} ... does).  Count[p] is the same with w_K = 1. *)
Pairs(ksets) == UNION {{<<j, m>> : m \in 1..Len(ksets[j])} : j \in 1..Len(ksets)}
Accumulate(ksets, N, W(_)) ==
   FoldSet(LAMBDA jm, acc : [acc EXCEPT ![ksets[jm[1]][jm[2]]] = @ + W(jm[1])], [p \in GridPts(N) |-> 0], Pairs(ksets))
Measure(klist, ksets, N) == Accumulate(ksets, N, LAMBDA j : klist[j][2])
Count(ksets, N) == Accumulate(ksets, N, LAMBDA j : 1)

(* ---- the clauses of C03, stated on an arbitrary (klist, ksets) so that they can be evaluated on the specification's
        own K-list and on one recorded from the implementation ---- *)

(* every k-set is a set of prod(fft) different points of the dense grid *)
KSetsWellFormed(ksets, div, fft) ==
   \A j \in 1..Len(ksets) : /\ Len(ksets[j]) = Prod3(fft)
                            /\ Cardinality(SeqRange(ksets[j])) = Prod3(fft)
                            /\ SeqRange(ksets[j]) \subseteq GridPts(Dense(div, fft))
(* without symmetry: the multiset of all k-points is the dense grid, each point exactly once *)
MultisetOnce(klist, ksets, div, fft) ==
   /\ Len(klist) = Prod3(div)
   /\ \A j \in 1..Len(klist) : klist[j][2] = 1
   /\ LET c == Count(ksets, Dense(div, fft)) IN \A p \in GridPts(Dense(div, fft)) : c[p] = 1
WeightSum(klist, div) == SumIdx(Len(klist), LAMBDA j : klist[j][2]) = Prod3(div)
(* with symmetry reduction the k-sets of different retained K-points do not overlap *)
NoOverlap(ksets, div, fft) == LET c == Count(ksets, Dense(div, fft)) IN \A p \in GridPts(Dense(div, fft)) : c[p] <= 1
(* the measure  sum_K w_K * (1/|G|) sum_g delta_{g k}, k in kset(K)  that the symmetrised integral uses is the uniform
   measure of the dense grid (scaled by |G| prod(div)): the same for every factorisation *)
UniformMeasure(mu, N, G) == \A p \in GridPts(N) : SumSetOf(G, LAMBDA g : mu[ActK(g, p, N)]) = Cardinality(G)
UniformCover(klist, ksets, div, fft, G) == UniformMeasure(Measure(klist, ksets, Dense(div, fft)), Dense(div, fft), G)
(* what an invariant (scalar) integrand sees: each orbit of the dense grid carries its own size *)
OrbitMeasure(mu, N, G) == \A O \in Orbits(N, G) : SumSetOf(O, LAMBDA q : mu[q]) = Cardinality(O)
OrbitContent(klist, ksets, div, fft, G) == OrbitMeasure(Measure(klist, ksets, Dense(div, fft)), Dense(div, fft), G)
(* a valid symmetry reduction of the division grid: one representative per orbit carrying the size of its orbit
   (which representative, and in which order, is immaterial for the integral) *)
ValidReduction(klist, div, G) ==
   /\ {Star(klist[j][1], div, G) : j \in 1..Len(klist)} = Orbits(div, G)
   /\ Len(klist) = Cardinality(Orbits(div, G))
   /\ \A j \in 1..Len(klist) : klist[j][2] = Cardinality(Star(klist[j][1], div, G))
ValidFull(klist, div) ==
   /\ {klist[j][1] : j \in 1..Len(klist)} = GridPts(div) /\ Len(klist) = Prod3(div)
   /\ \A j \in 1..Len(klist) : klist[j][2] = 1
(* the k-set of every K-point is the coset  { (m*div + x) mod N }  of the FFT grid, whatever the order *)
KSetsValid(klist, ksets, div, fft) ==
   /\ Len(ksets) = Len(klist)
   /\ \A j \in 1..Len(klist) : Len(ksets[j]) = Prod3(fft) /\ SeqRange(ksets[j]) = KSet(klist[j][1], div, fft)
(* what the loop of get_K_list does in particular: the representative is the first point of the orbit in scan order, the
   list is in flattening order *)
OrbitReps(klist, div, G) ==
   /\ ValidReduction(klist, div, G)
   /\ \A j \in 1..Len(klist) : \A q \in Star(klist[j][1], div, G) : ScanIndex(klist[j][1], div) <= ScanIndex(q, div)
   /\ \A j \in 1..(Len(klist) - 1) : FlatIndex(klist[j][1], div) < FlatIndex(klist[j + 1][1], div)

-----------------------------------------------------------------------------
(* grid/grid.py determineNK (length/length_FFT not given).  Arguments NKdiv, NKFFT, NK: <<>> (None) or a 3-tuple
   (one2three has already replicated scalars).  Result: [kind, div, fft, warn] with
     kind = "ok" | "auto" (ok, the factorisation was chosen by autoNK) | "assert" (a given grid is not symmetric) |
            "value_error" (nothing usable given)        -- the harness only distinguishes accepted / refused: WHICH exception
            is raised (and that autoNK without a symmetric candidate fails at all) is incidental
     warn = set of warnings: "NK_disregarded", "NKdiv_disregarded", "adjusted"   -- model-internal (ExactUnlessAdjusted); the texts
            and the warning channel are not compared with the code *)
None == <<>>
(* numpy.round of a/b for positive integers: half to even *)
RoundHalfEven(a, b) ==
   LET q == a \div b  r == a % b
   IN IF 2 * r < b THEN q ELSE IF 2 * r > b THEN q + 1 ELSE IF q % 2 = 0 THEN q ELSE q + 1
RoundDiv(NK, NKFFT) ==
   LET c(i) == LET r == RoundHalfEven(NK[i], NKFFT[i]) IN IF r <= 0 THEN 1 ELSE r
   IN <<c(1), c(2), c(3)>>
MaskPeriodic(v, periodic) == <<IF periodic[1] THEN v[1] ELSE 1, IF periodic[2] THEN v[2] ELSE 1, IF periodic[3] THEN v[3] ELSE 1>>
(* What C03 needs of an explicitly requested grid (the rounding rule itself - half to even in the code - is NOT part of it):
     a pair (NKdiv, NKFFT) is returned as given;  with (NK, NKFFT) the FFT grid is the given one and NKdiv is a nearest
     integer of NK/NKFFT: exact when NKFFT divides NK, otherwise any d >= 1 with |d*NKFFT - NK| < NKFFT (either neighbour) *)
RoundOK1(nk, f, d) == d >= 1 /\ (IF nk % f = 0 THEN d * f = nk ELSE (d * f - nk < f /\ nk - d * f < f))
ExplicitValueOK(periodic, NKdiv, NKFFT, NK, div, fft) ==
   IF NKdiv # <<>> /\ NKFFT # <<>>
   THEN div = MaskPeriodic(NKdiv, periodic) /\ fft = MaskPeriodic(NKFFT, periodic)
   ELSE /\ fft = MaskPeriodic(NKFFT, periodic)
        /\ \A i \in 1..3 : periodic[i] => RoundOK1(NK[i], NKFFT[i], div[i])
(* grid.py autoNK(NK, NKFFTrec, pointgroup).  Candidates are enumerated by iterate_vector (x outermost, z innermost);
   numpy.argmin / argmax return the first extremal entry.  The figure of merit NKchange is a float in the code; here it
   is the rational a/b (inverted when > 1).  Equal rationals give equal floats unless one was inverted and the other
   not (then they may differ by one ulp and the float argmax need not be the first): AutoTieAmbiguous names that case. *)
LexLess(a, b) == a[1] < b[1] \/ (a[1] = b[1] /\ (a[2] < b[2] \/ (a[2] = b[2] /\ a[3] < b[3])))
Box(lo, hi) == {<<x, y, z>> : x \in lo[1]..(hi[1] - 1), y \in lo[2]..(hi[2] - 1), z \in lo[3]..(hi[3] - 1)}
Scale3(c, v) == <<c * v[1], c * v[2], c * v[3]>>
SymmetricIn(lo, hi, G) == {f \in Box(lo, hi) : SymmetricGrid(f, G)}
FirstMinProd(S) == CHOOSE f \in S : \A h \in S : Prod3(f) < Prod3(h) \/ (Prod3(f) = Prod3(h) /\ (f = h \/ LexLess(f, h)))
(* NKchange of one direction as <<numerator, denominator, inverted>> with value <= 1 *)
Change1(nk, f) ==
   LET d == (LET r == RoundHalfEven(nk, f) IN IF r <= 0 THEN 1 ELSE r)
   IN IF d * f > nk THEN <<nk, d * f, TRUE>> ELSE <<d * f, nk, FALSE>>
RatLess(a, b) == a[1] * b[2] < b[1] * a[2]
RatEq(a, b) == a[1] * b[2] = b[1] * a[2]
(* minimum over the three directions *)
ChangeMin(NK, f) ==
   LET c == [i \in 1..3 |-> Change1(NK[i], f[i])]
   IN CHOOSE m \in {c[1], c[2], c[3]} : \A i \in 1..3 : ~RatLess(c[i], m)
ChangeKinds(NK, f) ==
   LET m == ChangeMin(NK, f) IN {Change1(NK[i], f[i])[3] : i \in {j \in 1..3 : RatEq(Change1(NK[j], f[j]), m)}}
AutoCands(NK, rec, G) ==
   LET fmin == FirstMinProd(SymmetricIn(rec, Scale3(3, rec), G)) IN SymmetricIn(fmin, Scale3(2, fmin), G)
AutoBest(NK, rec, G) ==
   LET C == AutoCands(NK, rec, G) IN {f \in C : \A h \in C : ~RatLess(ChangeMin(NK, f), ChangeMin(NK, h))}
AutoPossible(rec, G) == SymmetricIn(rec, Scale3(3, rec), G) # {}
AutoTieAmbiguous(NK, rec, G) ==
   LET B == AutoBest(NK, rec, G) IN
   Cardinality(B) > 1 /\ Cardinality(UNION {ChangeKinds(NK, f) : f \in B}) > 1 /\ ~RatEq(ChangeMin(NK, CHOOSE f \in B : TRUE), <<1, 1>>)
AutoNK(NK, rec, G) ==
   LET B == AutoBest(NK, rec, G)
       f == CHOOSE f \in B : \A h \in B : f = h \/ LexLess(f, h)
   IN <<RoundDiv(NK, f), f>>

DetermineNK(periodic, NKdiv, NKFFT, NK, rec, G) ==
   IF \E v \in {NKdiv, NK, NKFFT} : v # None /\ ~SymmetricGrid(v, G)
   THEN [kind |-> "assert", div |-> None, fft |-> None, warn |-> {}]
   ELSE IF NKdiv # None /\ NKFFT # None
   THEN [kind |-> "ok", div |-> MaskPeriodic(NKdiv, periodic), fft |-> MaskPeriodic(NKFFT, periodic),
         warn |-> (IF NK # None THEN {"NK_disregarded"} ELSE {})
                  \cup (IF NK # None /\ NK # Times3(NKFFT, NKdiv) THEN {"adjusted"} ELSE {})]
   ELSE IF NK # None /\ NKFFT = None /\ ~AutoPossible(rec, G)
   THEN \* autoNK finds no symmetric FFT grid in [rec, 3 rec): numpy.argmin of an empty array raises ValueError
        [kind |-> "value_error", div |-> None, fft |-> None, warn |-> (IF NKdiv # None THEN {"NKdiv_disregarded"} ELSE {})]
   ELSE IF NK # None
   THEN LET df == IF NKFFT # None THEN <<RoundDiv(NK, NKFFT), NKFFT>> ELSE AutoNK(NK, rec, G) IN
        [kind |-> (IF NKFFT # None THEN "ok" ELSE "auto"),
         div |-> MaskPeriodic(df[1], periodic), fft |-> MaskPeriodic(df[2], periodic),
         warn |-> (IF NKdiv # None THEN {"NKdiv_disregarded"} ELSE {})
                  \cup (IF NK # Times3(df[2], df[1]) THEN {"adjusted"} ELSE {})]
   ELSE [kind |-> "value_error", div |-> None, fft |-> None, warn |-> {}]
=============================================================================
