----------------------------- MODULE WyckProjRec -----------------------------
(* code -> spec for X04: records of calls of the real wannierberri functions, one TLC state per record.
     kind "orbit"    : ops (the real space group as listed: W, t numerators, tr), given positions (numerators, unreduced),
                       out = what get_orbit, orbit_and_rottrans, WyckoffPositionNumeric, orbit_from_positions,
                       split_into_orbits (0-based indices) and Dwann (atommap 0-based, T) returned
     kind "proj"     : the projection set [npts, entries, spinor] and what the real Projection / ProjectionsSet /
                       SymmetrizerSAWF objects say: counting properties, D_wann_block_indices, the site of every Wannier
                       function according to the blocks (bsites), to wannier_centers_red (csites), to
                       get_positions_and_orbitals (asites), the lines of the Wannier90 block (proj, point, entry) and its
                       num_wann line; points are numbered by first appearance in the blocks
     kind "frame"    : xaxis, zaxis (integers, [] = None) and the frame read_xzaxis returned as primitive integer directions
                       (+ unit: rows have unit length)
     kind "rotframe" : rotate_basis: W of the operation listed for a point (orthogonal lattices: also the Cartesian matrix),
                       the default frame and the frame of that point
   Clauses whose name starts with info_ compare with the transcription of today's code (orders, layouts); they are
   information, never a violation. *)
EXTENDS WyckProj, Json, IOUtils, TLCExt
VARIABLE i
Recs == JsonDeserialize(IOEnv.TRACE_FILE).recs
T3(s) == <<s[1], s[2], s[3]>>
Vs(l) == TLCEval([k \in 1..Len(l) |-> T3(l[k])])
Ms(l) == TLCEval([k \in 1..Len(l) |-> <<T3(l[k][1]), T3(l[k][2]), T3(l[k][3])>>])
OpsOf(l) == TLCEval([k \in 1..Len(l) |-> [W |-> <<T3(l[k].W[1]), T3(l[k].W[2]), T3(l[k].W[3])>>, t |-> T3(l[k].t), tr |-> l[k].tr]])
Plus1(l) == TLCEval([k \in 1..Len(l) |-> l[k] + 1])

OrbitClauses(R) ==
   With(OpsOf(R.ops), LAMBDA ops : With(Vs(R.given), LAMBDA gv : With(gv[1], LAMBDA p :
   With([orbit |-> Vs(R.out.orbit), oorb |-> Vs(R.out.ort.orbit), orot |-> Ms(R.out.ort.rot), otr |-> Vs(R.out.ort.trans),
         wpos |-> Vs(R.out.wy.pos), wrot |-> Ms(R.out.wy.rot), wtr |-> Vs(R.out.wy.trans), ofp |-> Vs(R.out.ofp),
         split |-> TLCEval([m \in 1..Len(R.out.split) |-> Plus1(R.out.split[m])]),
         amap |-> TLCEval([n \in 1..Len(R.out.amap) |-> Plus1(R.out.amap[n])]),
         T |-> TLCEval([n \in 1..Len(R.out.T) |-> Vs(R.out.T[n])])], LAMBDA o :
   [ in_model |-> Len(ops) >= 1 /\ Len(gv) >= 1 /\ Identity.W \in {ops[n].W : n \in 1..Len(ops)},
     orbit |-> IsOrbitOf(o.orbit, ops, p),
     closed |-> ClosedUnder(o.orbit, ops),
     orbit_stabiliser |-> OrbitStabiliser(ops, p, Len(o.orbit)),
     rottrans |-> RotTransMap(o.oorb, o.orot, o.otr, p) /\ IsOrbitOf(o.oorb, ops, p),
     wyck_status |-> R.out.wy.ok = (\A j \in 1..Len(gv) : SameOrbit(ops, p, gv[j])),
     wyck_orbit |-> R.out.wy.ok => IsOrbitOf(o.wpos, ops, p),
     wyck_given_first |-> R.out.wy.ok => GivenFirst(o.wpos, gv),
     wyck_rottrans |-> R.out.wy.ok => RotTransMap(o.wpos, o.wrot, o.wtr, p),
     ofp_union |-> UnionOfOrbits(o.ofp, ops, gv),
     ofp_given_first |-> GivenFirst(o.ofp, gv),
     ofp_closed |-> ClosedUnder(o.ofp, ops),
     split |-> IsPartitionByOrbit(o.split, ops, gv),
     atommap |-> R.out.has_amap => AtomMapOK(o.ofp, ops, o.amap, o.T),
     info_orbit_order |-> o.orbit = GetOrbit(ops, p),
     info_rottrans_choice |-> LET t == OrbitAndRotTrans(ops, p) IN o.orot = t.rot /\ o.otr = t.trans,
     info_wyck_order |-> LET w == WyckNumeric(ops, gv) IN w.ok = R.out.wy.ok /\ (w.ok => (o.wpos = w.pos /\ o.wrot = w.rot /\ o.wtr = w.trans)),
     info_ofp_order |-> o.ofp = OrbitFromPositions(ops, gv),
     info_split_order |-> o.split = SplitIntoOrbits(ops, gv) ]))))

Pairs(l) == TLCEval([k \in 1..Len(l) |-> <<l[k][1], l[k][2]>>])
ProjClauses(R) ==
   With(TLCEval([j \in 1..Len(R.set) |-> [npts |-> R.set[j].npts, entries |-> R.set[j].entries, spinor |-> R.set[j].spinor]]), LAMBDA S :
   With([bsites |-> Pairs(R.out.bsites), csites |-> Pairs(R.out.csites), asites |-> Pairs(R.out.asites), blocks |-> Pairs(R.out.blocks),
         lines |-> Vs(R.out.lines), td |-> TblDwann(S)], LAMBDA o :
   [ in_model |-> /\ Len(S) >= 1
                  /\ \A j \in 1..Len(S) : S[j].npts >= 1 /\ Len(S[j].entries) >= 1
                                          /\ \A e \in 1..Len(S[j].entries) : \A k \in 1..Len(S[j].entries[e]) : S[j].entries[e][k] \in Shells,
     count |-> \A j \in 1..Len(S) : /\ R.out.nums[j].per_site_scalar = PerSiteScalar(S[j])
                                    /\ R.out.nums[j].per_site = PerSite(S[j])
                                    /\ R.out.nums[j].num_wann = NumWann(S[j])
                                    /\ R.out.nums[j].num_wann_scalar = NumWannScalar(S[j])
                                    /\ R.out.nums[j].orbitals = S[j].entries,
     total |-> R.out.num_wann = SetNumWann(S) /\ R.out.num_wann_scalar = SetNumWannScalar(S),
     symmetrizer_total |-> R.out.has_blocks => (R.out.sym_num_wann = SetNumWann(S) /\ Len(o.bsites) = SetNumWann(S)),
     w90_num_wann |-> R.out.w90_num_wann = SetNumWann(S) /\ Len(ExpandLines(S, o.lines)) = SetNumWann(S),
     w90_every_line_once |-> Len(o.lines) = Cardinality(SeqSet(o.lines)) /\ SeqSet(o.lines) = SeqSet(W90Lines(S)),
     centres_match_blocks |-> R.out.has_blocks => o.csites = o.bsites,
     amn_matches_centres |-> R.out.has_amn => o.asites = o.csites,
     lines_match_blocks |-> R.out.has_blocks => SitesOf(ExpandLines(S, o.lines)) = o.bsites,
     info_blocks_layout |-> R.out.has_blocks => (o.blocks = Blocks(S) /\ o.bsites = SitesOf(o.td)),
     info_centres_site_major |-> o.csites = CentreSites(S, "site"),
     info_lines_order |-> o.lines = W90Lines(S),
     info_single_entry_or_point |-> SingleEntryOrPoint(S) ]))

VecOrNone(v) == IF Len(v) = 0 THEN NoneV ELSE T3(v)
FrameOf(r) == [ok |-> r.ok, why |-> "", X |-> T3(r.X), Y |-> T3(r.Y), Z |-> T3(r.Z)]
FrameClauses(R) ==
   With(VecOrNone(R.x), LAMBDA x : With(VecOrNone(R.z), LAMBDA z : With(FrameOf(R.out), LAMBDA f :
   [ in_model |-> SmallVec(x, 3) /\ SmallVec(z, 3),
     refuse_iff |-> (~f.ok) = MustRefuse(x, z),
     unit_rows |-> f.ok => R.out.unit,
     frame_ok |-> f.ok => FrameOK(f),
     keeps_given |-> f.ok => KeepsGiven(f, x, z),
     towards_default |-> f.ok => TowardsDefault(f, x, z),
     info_equals_spec |-> LET g == ReadXZ(x, z) IN g.ok = f.ok /\ (g.ok => SameSense(g.X, f.X) /\ SameSense(g.Y, f.Y) /\ SameSense(g.Z, f.Z)) ])))

RotClauses(R) ==
   With(<<T3(R.W[1]), T3(R.W[2]), T3(R.W[3])>>, LAMBDA W : With(FrameOf(R.f0), LAMBDA f0 : With(FrameOf(R.f), LAMBDA f :
   [ in_model |-> FrameOK(f0) /\ DetI(W) \in {1, -1},
     unit_rows |-> R.unit,
     orthogonal |-> Orthogonal3(f),
     rows_rotated |-> LET g == RotFrame(f0, W) IN SameSense(g.X, f.X) /\ SameSense(g.Y, f.Y) /\ SameSense(g.Z, f.Z),
     info_right_handed |-> Handedness(f) > 0 ])))

Clauses == With(Recs[i], LAMBDA R :
              CASE R.kind = "orbit" -> OrbitClauses(R)
                [] R.kind = "proj" -> ProjClauses(R)
                [] R.kind = "frame" -> FrameClauses(R)
                [] R.kind = "rotframe" -> RotClauses(R))
Report == With(Clauses, LAMBDA C : \A n \in DOMAIN C : C[n] \/ PrintT(<<"BAD", i, n>>))
RecInit == i \in 1..Len(Recs)
RecSpec == RecInit /\ [][UNCHANGED i]_i
=============================================================================
