--------------------------- MODULE MC_SysAlgPauli ---------------------------
(* C25, last sentence: the rotated Pauli matrices of SOC.get_C_ss / get_pauli_rotated for every quantisation axis with
   theta = m pi/2, phi = n pi/2 (m, n over the full 4 pi period of the half-angle matrix), exact in Z[zeta8]. One state per axis. *)
EXTENDS SysAlg
CONSTANTS MMAX
VARIABLES m, n, C2, P, ax
vars == <<m, n, C2, P, ax>>
Init == /\ m \in 0..MMAX /\ n \in 0..MMAX
        /\ C2 = CSS2(m, n) /\ P = PauliRot(m, n) /\ ax = Axis(m, n)
Next == UNCHANGED vars
Spec == Init /\ [][Next]_vars
HalfAngleUnitary == UnitaryCSS(m, n)
RotatedExact == PauliRotExact(m, n)
RotatedPauliAlgebra == PauliAlgebra(P)
SpinAlongAxis == SpinAlongAxisDiagonal(P, ax)
AxisIsUnit == Dot(ax, ax) = 1
(* the rotated matrices are the rotation R(theta, phi) applied to the vector of Pauli matrices: integer combinations *)
RotatedIsVectorRotation == \A c \in 1..3 : \E d \in 1..3, sg \in {-1, 1} : P[c] = MatScale(GInt(sg), Pauli[d])
(* sensitivity: the unrotated matrices do not have the spin along a tilted axis diagonal *)
UnrotatedSpinAlongAxis == SpinAlongAxisDiagonal(Pauli, ax)
=============================================================================
