-------------------------- MODULE RunGridSummaryRec --------------------------
(* C10 on large K lists (about a thousand K-points, weights and weight changes far below the 1e-8..1e-3 range of any
   absolute tolerance in the code): one record per UpdateIntegral / Return of the real run() carrying the projected
   vectors  facs  (weights of the K list, units 1/wtot),  coef  (coefficient of every K-point's result in the running
   integral),  ev  (evaluated flags) and  stray  (number of non-zero entries of the integral that belong to no K-point
   of the list).  The clauses are the RunGrid invariants IntegralConsistent / WeightOne / SavedWeightOne written for
   these vectors; they are evaluated here, by TLC, on the vectors (the driver does not pre-digest them). *)
EXTENDS Integers, Sequences, TLC, Json, IOUtils, TLCExt, SequencesExt
VARIABLE i
Recs == JsonDeserialize(IOEnv.TRACE_FILE).recs
Sum(s) == FoldLeft(LAMBDA a, b : a + b, 0, s)
ClausesOf(r) ==
  [ integral_consistent |-> Len(r.coef) = Len(r.facs) /\ \A k \in 1..Len(r.facs) : r.coef[k] = r.facs[k],
    weight_one          |-> Sum(r.facs) = r.wtot /\ \A k \in 1..Len(r.facs) : r.facs[k] >= 0,
    integral_weight_one |-> Sum(r.coef) = r.wtot,
    no_stray_terms      |-> r.stray = 0,
    all_evaluated       |-> \A k \in 1..Len(r.ev) : r.ev[k] ]
Report == LET r == Recs[i]
              c == ClausesOf(r)
          IN \A n \in DOMAIN c : c[n] \/ PrintT(<<"BAD", i, n>>)
RecInit == i \in 1..Len(Recs)
RecSpec == RecInit /\ [][UNCHANGED i]_i
=============================================================================
