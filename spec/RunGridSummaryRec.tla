-------------------------- MODULE RunGridSummaryRec --------------------------
(* C10 on large K lists (about a thousand K-points, weights and weight changes far below the 1e-8..1e-3 range of any
   absolute tolerance in the code): compact records taken at UpdateIntegral / Return of the real run(); the invariants
   of RunGrid (IntegralConsistent, WeightOne, SavedWeightOne) are evaluated on the summary. *)
EXTENDS Integers, Sequences, TLC, Json, IOUtils, TLCExt
VARIABLE i
Recs == JsonDeserialize(IOEnv.TRACE_FILE).recs
Rec == Recs[i]
Clauses ==
  [ integral_consistent |-> Rec.nmismatch = 0 /\ Len(Rec.mismatches) = 0,
    weight_one          |-> Rec.sumfac = Rec.wtot,
    integral_weight_one |-> Rec.sumcoef = Rec.wtot,
    no_stray_terms      |-> Rec.stray = 0,
    all_evaluated       |-> Rec.notevaluated = 0 ]
Report == \A n \in DOMAIN Clauses : Clauses[n] \/ PrintT(<<"BAD", i, n>>)
RecInit == i \in 1..Len(Recs)
RecSpec == RecInit /\ [][UNCHANGED i]_i
=============================================================================
