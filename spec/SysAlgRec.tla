------------------------------ MODULE SysAlgRec ------------------------------
(* code -> spec: records of calls of the real wannierberri / PythTB / TBmodels code (inputs and outputs projected to Gaussian
   integers by the harness), one TLC state per record; every clause of the property is evaluated on the recorded values with the
   operators of SysAlg. *)
EXTENDS SysAlg, Json, IOUtils, TLCExt
VARIABLE i
Recs == JsonDeserialize(IOEnv.TRACE_FILE).recs
Rec == Recs[i]

SeqSet(s) == {s[j] : j \in 1..Len(s)}
IndexIn(s, x) == CHOOSE j \in 1..Len(s) : s[j] = x
FunOfLists(keys, vals) == [R \in SeqSet(keys) |-> vals[IndexIn(keys, R)]]
SysOfJson(j) == [nw |-> j.nw, cen |-> j.cen, rs |-> SeqSet(j.rs), H |-> FunOfLists(j.rs, j.H), hasX |-> j.hasX,
                 X |-> FunOfLists(j.rs, j.X), spinor |-> j.spinor, M |-> NoM]
(* named matrices of a record: names = <<name, ...>>, mats[i][r][c] = orbital matrix of name i at R-vector number r (order of
   sys.rs), Cartesian component c *)
NamedOfJson(j, names, mats) == [SysOfJson(j) EXCEPT !.M = [n \in SeqSet(names) |-> FunOfLists(j.rs, mats[IndexIn(names, n)])]]
SocOfJson(j) == [up |-> SysOfJson(j.up), dn |-> SysOfJson(j.dn), hassoc |-> j.hassoc, rsS |-> SeqSet(j.rsS),
                 D |-> [st \in {"00", "11", "01"} |-> FunOfLists(j.rsS, j.D[st])], P |-> j.P, al |-> j.al]
SysEq(a, b) == /\ a.nw = b.nw /\ a.cen = b.cen /\ a.hasX = b.hasX
               /\ SameOnAllR(a, b) /\ (a.hasX => SameXOnAllR(a, b))
(* imported tight-binding models: the statement is about band energies, so the centres count modulo lattice vectors *)
SysEqModCell(a, b) == a.nw = b.nw /\ SameCentresModCell(a, b) /\ SameOnAllR(a, b)
(* quarter k-points in the directions that carry R-vectors *)
KD(rs, c) == IF \E R \in rs : R[c] # 0 THEN 0..3 ELSE {0}
KSof(rs) == {<<k1, k2, k3>> : k1 \in KD(rs, 1), k2 \in KD(rs, 2), k3 \in KD(rs, 3)}
C3 == 1..3

ReorderClauses == LET s == SysOfJson(Rec.sys)  o == SysOfJson(Rec.out) IN
   [ equals_spec |-> SysEq(o, Reorder(s, Rec.p)),
     laws        |-> ReorderLaws(s, Rec.p, o, KSof(s.rs), C3) ]
RotateClauses == LET s == SysOfJson(Rec.sys)  o == SysOfJson(Rec.out) IN
   [ unitary     |-> IsUnitary(Rec.U),
     cocentred   |-> CoCentred(s, Rec.U),
     equals_spec |-> SysEq(o, Rotate(s, Rec.U)),
     laws        |-> RotateLaws(s, Rec.U, o, KSof(s.rs), C3) ]
(* reorder / rotation of a system that carries every real-space matrix the package knows *)
NamedClauses == LET s == NamedOfJson(Rec.sys, Rec.names, Rec.mats)  o == NamedOfJson(Rec.out, Rec.names, Rec.outmats) IN
   [ ranks       |-> \A j \in 1..Len(Rec.names) : \A r \in 1..Len(Rec.mats[j]) : Len(Rec.mats[j][r]) = NComp(Rec.names[j]),
     equals_spec |-> IF Rec.fn = "reorder_named" THEN SysEq(o, Reorder(s, Rec.p)) /\ SameM(s, o, LAMBDA A : PermuteMat(A, Rec.p))
                     ELSE SysEq(o, Rotate(s, Rec.U)) /\ SameM(s, o, LAMBDA A : Conjugate(Rec.U, A)),
     laws        |-> IF Rec.fn = "reorder_named" THEN ReorderLaws(s, Rec.p, o, KSof(s.rs), C3)
                     ELSE IsUnitary(Rec.U) /\ CoCentred(s, Rec.U) /\ RotateLaws(s, Rec.U, o, KSof(s.rs), C3) ]
DoubleSpinClauses == LET s == SysOfJson(Rec.sys)  o == SysOfJson(Rec.out) IN
   [ equals_spec |-> SysEq(o, DoubleSpin(s)),
     laws        |-> DoubleSpinLaws(s, o, KSof(s.rs), C3),
     spin_pairs  |-> Rec.ss = SpinPairsSS(2 * s.nw, Pauli) ]
SocHkClauses == LET soc == SocOfJson(Rec.soc) IN
   [ data_hermitian |-> SocDataHermitian(soc),
     equals_spec |-> \A j \in 1..Len(Rec.ks) : Rec.hk[j] = HkSOC(soc, Rec.ks[j]),
     union_of_spectra |-> soc.hassoc \/ \A j \in 1..Len(Rec.ks) :
                              CharPoly(Rec.hk[j]) = PolyMul(Spectrum(soc.up, Rec.ks[j]), Spectrum(soc.dn, Rec.ks[j])),
     ham_soc     |-> ~soc.hassoc \/ FunOfLists(Rec.soc.rsS, Rec.hsoc) = HamSOC(soc) ]
ToPlainClauses == LET soc == SocOfJson(Rec.soc)  o == SysOfJson(Rec.out) IN
   [ equals_spec |-> SysEq(o, ToPlainR(soc)),
     laws        |-> ToPlainRLaws(soc, o, KSof(o.rs)) ]
PauliClauses ==
   [ info_equals_spec |-> PauliRotExact(Rec.m, Rec.n) /\ Rec.P = PauliRot(Rec.m, Rec.n),   \* one valid choice, not required
     algebra     |-> PauliAlgebra(Rec.P),
     axis        |-> SpinAlongAxisDiagonal(Rec.P, Axis(Rec.m, Rec.n)) ]
InterpClauses == LET s0 == SysOfJson(Rec.s0)  s1 == SysOfJson(Rec.s1)  o == SysOfJson(Rec.out) IN
   [ exact       |-> InterpExact(s0, s1, Rec.a, Rec.den),
     equals_spec |-> SysEq(o, Interpolate(s0, s1, Rec.a, Rec.den)),
     laws        |-> InterpolateLaws(s0, s1, Rec.a, Rec.den, o, KSof(o.rs)) ]

(* SystemInterpolatorSOC(soc0, soc1).interpolate(a/den): H(k) of Data_K_soc is affine in alpha and reproduces the endpoints.
   Rec.nspins = the numbers of spin channels of the two systems, every pair of {1, 2}: a system with one channel (SystemSOC(up)) is
   recorded as MakeSOC(up, up) with Nspin1D, so in a mixed pair the result has two channels and the one-channel side contributes its
   single channel to both: exactly what the affine clause over HkSOC says *)
InterpSocClauses == LET s0 == SocOfJson(Rec.soc0)  s1 == SocOfJson(Rec.soc1) IN
   [ affine    |-> \A j \in 1..Len(Rec.ks) :
                      MatScale(GInt(Rec.den), Rec.hk[j]) = MatAdd(MatScale(GInt(Rec.den - Rec.a), HkSOC(s0, Rec.ks[j])),
                                                                  MatScale(GInt(Rec.a), HkSOC(s1, Rec.ks[j]))),
     endpoints |-> /\ Rec.a = 0 => \A j \in 1..Len(Rec.ks) : Rec.hk[j] = HkSOC(s0, Rec.ks[j])
                   /\ Rec.a = Rec.den => \A j \in 1..Len(Rec.ks) : Rec.hk[j] = HkSOC(s1, Rec.ks[j]),
     hermitian |-> \A j \in 1..Len(Rec.ks) : IsHermitian(Rec.hk[j]),
     one_channel_side |-> \A x \in 1..2 : LET s == IF x = 1 THEN s0 ELSE s1 IN
                             Rec.nspins[x] = 1 => s.dn = s.up /\ (s.hassoc => s.D = Nspin1D(s.D)) ]

(* builders: the call history is run on the specification's builder and compared with the recorded internal state and import *)
PtbStep(m, st) == CASE st.f = "set_onsite_all" -> PtbSetOnsiteAll(m, st.vals, st.mode)
                    [] st.f = "set_onsite" -> PtbSetOnsite(m, st.val, st.i, st.mode)
                    [] st.f = "set_hop" -> IF PtbSetHopRaises(m, st.i, st.j, st.R, st.acp) THEN m
                                           ELSE PtbSetHop(m, st.amp, st.i, st.j, st.R, st.mode)
RunPtb == FoldLeft(PtbStep, PtbNew(Rec.norb, Rec.ns, Rec.pos), Rec.steps)
PtbClauses == LET m == RunPtb  imp == SysOfJson(Rec.imp) IN
   [ raises        |-> Rec.raised = [j \in 1..Len(Rec.steps) |->
                           Rec.steps[j].f = "set_hop" /\ PtbSetHopRaises(FoldLeft(PtbStep, PtbNew(Rec.norb, Rec.ns, Rec.pos), SubSeq(Rec.steps, 1, j - 1)),
                                                                          Rec.steps[j].i, Rec.steps[j].j, Rec.steps[j].R, Rec.steps[j].acp)],
     builder_state |-> m.site = Rec.site /\ m.tab = SeqSet(Rec.tab),
     import_equals_spec |-> SysEqModCell(imp, PtbImport(m)),
     import_is_source   |-> SysEqModCell(imp, PtbSource(m)) /\ HermSys(imp) ]
RUrec == {<<x, y, 0>> : x \in -2..2, y \in -2..2}
TbmStep(m, st) == CASE st.f = "add_hop" -> TbmAddHop(m, st.amp, st.i, st.j, st.R)
                    [] st.f = "add_on_site" -> TbmAddOnSite(m, st.vals)
RunTbm == FoldLeft(TbmStep, TbmNew(Rec.size, Rec.pos, Rec.onsite, RUrec), Rec.steps)
TbmClauses == LET m == RunTbm  imp == SysOfJson(Rec.imp) IN
   [ builder_state |-> m.keys = SeqSet(Rec.keys) /\ \A K \in m.keys : m.hop2[K] = Rec.hop2[IndexIn(Rec.keys, K)],
     import_equals_spec |-> TbmImportExact(m) /\ SysEqModCell(imp, TbmImport(m)),
     import_is_source   |-> \A R \in DOMAIN m.sem : Ext(imp.rs, imp.H, imp.nw, R) = m.sem[R] ]
(* two builders that received the same hoppings: same system *)
PairClauses == [ same_system |-> SysEqModCell(SysOfJson(Rec.a), SysOfJson(Rec.b)) ]

(* corner energies: the recorded characteristic polynomials of the code's corner spectra *)
CornerList == <<<<0, 0, 0>>, <<0, 0, 1>>, <<0, 1, 0>>, <<0, 1, 1>>, <<1, 0, 0>>, <<1, 0, 1>>, <<1, 1, 0>>, <<1, 1, 1>>>>
CornerSpecHam(j, c) ==
   LET kg == KGrid(Rec.nk)[j] IN
   IF Rec.kind = "SOC"
   THEN (IF Rec.shape = "par" THEN SocCornerHamPar(SocOfJson(Rec.sys), Rec.kp, Rec.h, kg, CornerList[c], "down")
         ELSE SocCornerHamTet(SocOfJson(Rec.sys), Rec.kp, Rec.verts[c], kg, "down"))
   ELSE IF Rec.kind = "R"
   THEN (IF Rec.shape = "par" THEN CornerHamPar(SysOfJson(Rec.sys), Rec.kp, Rec.h, kg, CornerList[c])
         ELSE CornerHamTet(SysOfJson(Rec.sys), Rec.kp, Rec.verts[c], kg))
   ELSE KPCornerHam(SysOfJson(Rec.sys), VAdd(kg, Rec.kp),
                    IF Rec.shape = "par" THEN <<(2 * CornerList[c][1] - 1) * Rec.h[1], (2 * CornerList[c][2] - 1) * Rec.h[2], (2 * CornerList[c][3] - 1) * Rec.h[3]>>
                    ELSE Rec.verts[c])
CornerDirectHam(j, c) ==
   LET k == IF Rec.shape = "par" THEN CornerK(KGrid(Rec.nk)[j], Rec.kp, Rec.h, CornerList[c]) ELSE VAdd(VAdd(KGrid(Rec.nk)[j], Rec.kp), Rec.verts[c])
   IN IF Rec.kind = "SOC" THEN HkSOC(SocOfJson(Rec.sys), k) ELSE Hk(SysOfJson(Rec.sys), k)
RealPoly(cp) == [j \in 1..Len(cp) |-> <<cp[j], 0>>]
CornerClauses ==
   [ equals_spec |-> \A j \in 1..Len(Rec.cp) : \A c \in 1..Len(Rec.cp[j]) : RealPoly(Rec.cp[j][c]) = CharPoly(CornerSpecHam(j, c)),
     corners_are_direct |-> \A j \in 1..Len(Rec.cp) : \A c \in 1..Len(Rec.cp[j]) : RealPoly(Rec.cp[j][c]) = CharPoly(CornerDirectHam(j, c)) ]

Clauses == CASE Rec.fn = "reorder" -> ReorderClauses
             [] Rec.fn = "rotate" -> RotateClauses
             [] Rec.fn \in {"reorder_named", "rotate_named"} -> NamedClauses
             [] Rec.fn = "doublespin" -> DoubleSpinClauses
             [] Rec.fn = "soc_hk" -> SocHkClauses
             [] Rec.fn = "toplain" -> ToPlainClauses
             [] Rec.fn = "pauli" -> PauliClauses
             [] Rec.fn = "interp" -> InterpClauses
             [] Rec.fn = "interp_soc" -> InterpSocClauses
             [] Rec.fn = "ptb" -> PtbClauses
             [] Rec.fn = "tbm" -> TbmClauses
             [] Rec.fn = "pair" -> PairClauses
             [] Rec.fn = "corners" -> CornerClauses
Report == \A n \in DOMAIN Clauses : Clauses[n] \/ PrintT(<<"BAD", i, n>>)
RecInit == i \in 1..Len(Recs)
RecSpec == RecInit /\ [][UNCHANGED i]_i
=============================================================================
