------------------------------- MODULE WinFile -------------------------------
(* X01 (b): wannierberri/w90files/win.py  WIN - the reader/writer of the Wannier90 input file <seedname>.win, as a
   token-level model (like W90Store.tla for .eig/.amn/.mmn).

   A VALUE is a record [t, i, s, q, l]:
     t = "none"                                       None
     t = "int"    i                                   integer
     t = "float"  i                                   the number i/8
     t = "bool"   i in {0,1}
     t = "str"    s, i                                the string s; i = 1: its characters separated by blanks (what the
                                                      writer of win.py makes of a string today, see StrJoin)
     t = "ints"   q                                   list of integers
     t = "cell"   q (9 numbers, row major), i         lattice vectors q/8 Angstrom times a0^i  (a0 = Bohr radius in Angstrom)
     t = "kpts"   q (3 N numerators over KDEN)        k-points in reduced coordinates
     t = "frac"   q (3 N numbers /8), i               atomic positions in reduced coordinates times a0^i
     t = "names"  l                                   atom names
     t = "strs"   l                                   list of strings (projections)
     t = "row"    q, s, i                             one line inside a block: species (or ""), numbers, a0 exponent
   The DATA of a WIN object is a function key -> value (Python dict; the insertion order only shows in the order of the
   written file, which nothing depends on).
   A FILE is a sequence of lines [k, name, cs, sep, v]:
     k = "comment" | "blank"
     k = "param"   name (lower case), cs (how the keyword is cased in the file), sep ("=", ":" or " "), v (value)
     k = "begin" | "end"   name (block name, lower case), cs
     k = "units"   name in {"ang", "bohr"}, cs
     k = "row"     v (t = "row")
     k = "text"    v (t = "str"): a line of the projections block
   The harness renders a file to text and tokenises the text the real writer produces. *)
EXTENDS Integers, Sequences, FiniteSets, TLC, SequencesExt, FiniteSetsExt

CONSTANTS StrJoin,      \* "plain": a string value is written as it is (what a .win file needs);
                        \* "chars": its characters joined by blanks (win.py as it is: list2str treats str as Iterable)
          KeyCase,      \* "fold": keywords of the file are lower-cased (the .win format is case-insensitive; win.py lower-cases
                        \* the keys of its `data` argument and wannier90io the block names); "keep": kept as in the file (as is)
          SeedParam,    \* "skip": the entry "seedname" of the dictionary is not written into the file;
                        \* "write": written as `seedname = ...` and read back over the name of the file (as is)
          BohrFactor    \* "a0": lengths given in bohr are multiplied by a0 (the code); "one": units line ignored (wrong variant)

MP == INSTANCE MPGrid          \* win.py calls w90files.utility.get_mp_grid on the k-points (C23)

KDEN == 24
Mk(t, i, s, q, l) == [t |-> t, i |-> i, s |-> s, q |-> q, l |-> l]
VNone == Mk("none", 0, "", <<>>, <<>>)
VInt(n) == Mk("int", n, "", <<>>, <<>>)
VFlt(n) == Mk("float", n, "", <<>>, <<>>)
VBool(b) == Mk("bool", IF b THEN 1 ELSE 0, "", <<>>, <<>>)
VStr(x) == Mk("str", 0, x, <<>>, <<>>)
VInts(q) == Mk("ints", 0, "", q, <<>>)
VCell(q, e) == Mk("cell", e, "", q, <<>>)
VKpts(q) == Mk("kpts", 0, "", q, <<>>)
VFrac(q, e) == Mk("frac", e, "", q, <<>>)
VNames(l) == Mk("names", 0, "", <<>>, l)
VStrs(l) == Mk("strs", 0, "", <<>>, l)
VRow(sp, q, e) == Mk("row", e, sp, q, <<>>)
Line(k, name, cs, sep, v) == [k |-> k, name |-> name, cs |-> cs, sep |-> sep, v |-> v]
Comment == Line("comment", "", "lower", "", VNone)
Blank == Line("blank", "", "lower", "", VNone)
Ok(d) == [err |-> "", data |-> d]
Err(c) == [err |-> c, data |-> <<>>]
Get(d, k) == IF k \in DOMAIN d THEN d[k] ELSE VNone
(* two dictionaries hold the same values (an entry that is None counts as absent: as_dict() and write() skip it) *)
SameData(d1, d2) == \A k \in DOMAIN d1 \cup DOMAIN d2 : Get(d1, k) = Get(d2, k)
SameBut(d1, d2, ks) == \A k \in (DOMAIN d1 \cup DOMAIN d2) \ ks : Get(d1, k) = Get(d2, k)

(* class attribute WIN.blocks *)
Blocks == {"unit_cell_cart", "projections", "kpoints", "kpoint_path", "atoms_frac"}
SingleChar == {"x"}                      \* the strings of the models that have one character
(* the key under which a keyword of the file is stored *)
KeyOf(name, cs) == IF KeyCase = "fold" \/ cs = "lower" THEN name ELSE cs \o ":" \o name

(* ------------------------------------------------------------------ reading: wannier90io.parse_win_raw + WIN.get_* *)
Significant(f) == SelectSeq(f, LAMBDA ln : ln.k \notin {"comment", "blank"})
BeginsAt(F, b) == {p \in 1..Len(F) : F[p].k = "begin" /\ F[p].name = b}
EndAfter(F, b, p) == {r \in (p + 1)..Len(F) : F[r].k = "end" /\ F[r].name = b}
HasBlock(F, b) == BeginsAt(F, b) # {} /\ EndAfter(F, b, Min(BeginsAt(F, b))) # {}
Body(F, b) == LET p == Min(BeginsAt(F, b)) IN SubSeq(F, p + 1, Min(EndAfter(F, b, p)) - 1)
InsideBlock(F, p) == \E r \in 1..(p - 1) : F[r].k = "begin" /\ ~\E e \in (r + 1)..(p - 1) : F[e].k = "end" /\ F[e].name = F[r].name
(* the file is a sequence of parameters and complete, non-nested blocks with distinct names *)
WellFormed(f) ==
   LET F == Significant(f) IN
   /\ \A p \in 1..Len(F) :
        CASE F[p].k = "param" -> ~InsideBlock(F, p)
          [] F[p].k = "begin" -> ~InsideBlock(F, p) /\ EndAfter(F, F[p].name, p) # {} /\ Cardinality(BeginsAt(F, F[p].name)) = 1
          [] F[p].k = "end" -> InsideBlock(F, p) /\ \E r \in 1..(p - 1) : F[r].k = "begin" /\ F[r].name = F[p].name /\ Min(EndAfter(F, F[r].name, r)) = p
          [] OTHER -> InsideBlock(F, p)
   /\ \A p, r \in 1..Len(F) : (F[p].k = "param" /\ F[r].k = "param" /\ F[p].name = F[r].name) => p = r
Params(F) == LET ps == {p \in 1..Len(F) : F[p].k = "param" /\ ~InsideBlock(F, p)} IN
             [key \in {KeyOf(F[p].name, F[p].cs) : p \in ps} |-> F[CHOOSE p \in ps : KeyOf(F[p].name, F[p].cs) = key].v]
UnitExp(body) == IF Len(body) > 0 /\ body[1].k = "units" /\ body[1].name = "bohr" /\ BohrFactor = "a0" THEN 1 ELSE 0
Rows(body) == SelectSeq(body, LAMBDA ln : ln.k = "row")
(* the numbers of a row may themselves stand for multiples of a0 (a file written from data that came from bohr) *)
RowExp(rows) == IF Len(rows) = 0 THEN 0 ELSE rows[1].v.i
RECURSIVE Flat3(_, _)
Flat3(rows, n) == IF n > Len(rows) THEN <<>> ELSE SubSeq(rows[n].v.q, 1, 3) \o Flat3(rows, n + 1)
(* get_unit_cell_cart_ang *)
CellOf(F) == IF ~HasBlock(F, "unit_cell_cart") THEN VNone
             ELSE LET b == Body(F, "unit_cell_cart") IN VCell(Flat3(Rows(b), 1), UnitExp(b) + RowExp(Rows(b)))
(* get_kpoints: the first three numbers of every line *)
KptsOf(F) == IF ~HasBlock(F, "kpoints") THEN VNone ELSE VKpts(Flat3(Rows(Body(F, "kpoints")), 1))
(* get_projections: the lines, stripped; a units line is not part of them *)
ProjOf(F) == IF ~HasBlock(F, "projections") THEN VNone
             ELSE LET t == SelectSeq(Body(F, "projections"), LAMBDA ln : ln.k = "text") IN VStrs([n \in 1..Len(t) |-> t[n].v.s])
Det3(m) == m[1] * (m[5] * m[9] - m[6] * m[8]) - m[2] * (m[4] * m[9] - m[6] * m[7]) + m[3] * (m[4] * m[8] - m[5] * m[7])
ReplaceRow(m, j, r) == [n \in 1..9 |-> IF (n - 1) \div 3 = j - 1 THEN r[((n - 1) % 3) + 1] ELSE m[n]]
(* row vector x with x . cell = cart (Cramer), in units of 1/8; defined when the result is a multiple of 1/8 (CartDyadic) *)
CartToFrac8(cart, cell) == [j \in 1..3 |-> (8 * Det3(ReplaceRow(cell, j, cart))) \div Det3(cell)]
CartDyadic(cart, cell) == Det3(cell) # 0 /\ \A j \in 1..3 : (8 * Det3(ReplaceRow(cell, j, cart))) % Det3(cell) = 0
RECURSIVE FlatFrac(_, _, _)
FlatFrac(rows, cell, n) == IF n > Len(rows) THEN <<>> ELSE CartToFrac8(rows[n].v.q, cell) \o FlatFrac(rows, cell, n + 1)
(* get_atoms: atoms_frac as given; atoms_cart: converted to Angstrom and multiplied by the inverse cell (in Angstrom) *)
AtomsOf(F) ==
   IF HasBlock(F, "atoms_frac") THEN
      LET r == Rows(Body(F, "atoms_frac")) IN [frac |-> VFrac(Flat3(r, 1), RowExp(r)), names |-> VNames([n \in 1..Len(r) |-> r[n].v.s])]
   ELSE IF HasBlock(F, "atoms_cart") /\ HasBlock(F, "unit_cell_cart") THEN
      LET b == Body(F, "atoms_cart")  r == Rows(b)  c == CellOf(F) IN
      [frac |-> VFrac(FlatFrac(r, c.q, 1), UnitExp(b) + RowExp(r) - c.i), names |-> VNames([n \in 1..Len(r) |-> r[n].v.s])]
   ELSE [frac |-> VNone, names |-> VNone]
AtomsDyadic(F) == (~HasBlock(F, "atoms_frac") /\ HasBlock(F, "atoms_cart") /\ HasBlock(F, "unit_cell_cart")) =>
                     \A n \in 1..Len(Rows(Body(F, "atoms_cart"))) : CartDyadic(Rows(Body(F, "atoms_cart"))[n].v.q, CellOf(F).q)
Triples(q) == [n \in 1..(Len(q) \div 3) |-> <<q[3 * n - 2], q[3 * n - 1], q[3 * n]>>]
(* a Wannier90 input needs the cell, the atoms and the k-points; without them win.py stores None / nan or stops with an
   AttributeError - behaviour nobody relies on, outside the model *)
Complete(f) == LET F == Significant(f) IN
               HasBlock(F, "unit_cell_cart") /\ HasBlock(F, "kpoints") /\ (HasBlock(F, "atoms_frac") \/ HasBlock(F, "atoms_cart"))
(* WIN.from_w90_file(seedname): parameters over the seedname, then the blocks, then mp_grid from the k-points (checked
   against the parameter mp_grid when that is given) *)
FromFile(f, seed) ==
   LET F == Significant(f)
       at == AtomsOf(F)
       d1 == Params(F) @@ ("seedname" :> VStr(seed))
       d2 == ("unit_cell_cart" :> CellOf(F)) @@ ("kpoints" :> KptsOf(F)) @@ ("projections" :> ProjOf(F)) @@
             ("atoms_frac" :> at.frac) @@ ("atoms_names" :> at.names) @@ d1
       mp == MP!GetMpGrid(Triples(KptsOf(F).q), KDEN)
   IN IF ~Complete(f) THEN Err("incomplete")
      ELSE IF mp.err # "" THEN Err("AssertionError")
      ELSE IF "mp_grid" \in DOMAIN d2 THEN (IF d2["mp_grid"].t = "ints" /\ d2["mp_grid"].q = mp.val THEN Ok(d2) ELSE Err("AssertionError"))
      ELSE Ok(("mp_grid" :> VInts(mp.val)) @@ d2)

(* ------------------------------------------------------------------ writing: WIN.write *)
(* list2str: a list joined by blanks, anything else str(); read back, the text of a value is that value - except a string
   of several characters under StrJoin = "chars" *)
List2Str(v) == IF v.t = "str" /\ StrJoin = "chars" /\ v.s \notin SingleChar THEN [v EXCEPT !.i = 1] ELSE v
RowsOf3(q, e, names) == [n \in 1..(Len(q) \div 3) |-> Line("row", "", "lower", "", VRow(IF names = <<>> THEN "" ELSE names[n], SubSeq(q, 3 * n - 2, 3 * n), e))]
Contents(d, k) ==
   LET v == d[k] IN
   CASE v.t = "cell" -> <<Line("units", "ang", "lower", "", VNone)>> \o RowsOf3(v.q, v.i, <<>>)
     [] v.t = "kpts" -> RowsOf3(v.q, 0, <<>>)
     [] v.t = "frac" -> RowsOf3(v.q, v.i, d["atoms_names"].l)
     [] v.t = "strs" -> [n \in 1..Len(v.l) |-> Line("text", "", "lower", "", VStr(v.l[n]))]
Written(d) == {k \in DOMAIN d : d[k].t # "none" /\ k # "atoms_names" /\ (SeedParam = "skip" => k # "seedname")}
Entry(d, k) == IF k \in Blocks
               THEN <<Line("begin", k, "lower", "", VNone)>> \o Contents(d, k) \o <<Line("end", k, "lower", "", VNone), Blank>>
               ELSE <<Line("param", k, "lower", "=", List2Str(d[k])), Blank>>
RECURSIVE WriteFrom(_, _, _)
WriteFrom(d, order, n) == IF n > Len(order) THEN <<>>
                          ELSE (IF order[n] \in Written(d) THEN Entry(d, order[n]) ELSE <<>>) \o WriteFrom(d, order, n + 1)
(* order: the keys in the order of the dictionary *)
WriteWin(d, order) == <<Comment>> \o WriteFrom(d, order, 1)
(* what write() can put into a file that a reader understands: the blocks hold arrays / lists of the right kind, the atoms
   have their names, and a block the reader knows nothing about (kpoint_path) is not there *)
Writable(d) ==
   /\ \A k \in DOMAIN d \cap Blocks : d[k].t = (CASE k = "unit_cell_cart" -> "cell" [] k = "kpoints" -> "kpts" [] k = "atoms_frac" -> "frac"
                                                 [] k = "projections" -> "strs" [] OTHER -> "none") \/ d[k].t = "none"
   /\ \A k \in DOMAIN d \ (Blocks \cup {"atoms_names"}) : d[k].t \in {"none", "int", "float", "bool", "str", "ints"}
   /\ (Get(d, "atoms_frac").t = "frac" => (Get(d, "atoms_names").t = "names" /\ 3 * Len(d["atoms_names"].l) = Len(d["atoms_frac"].q)))
   /\ \A k \in {"unit_cell_cart", "kpoints", "atoms_frac"} : Get(d, k).t # "none"
(* the k-points are a mesh and mp_grid (if there) is that mesh: what from_w90_file insists on *)
MeshConsistent(d) == LET mp == MP!GetMpGrid(Triples(d["kpoints"].q), KDEN) IN
                     mp.err = "" /\ (Get(d, "mp_grid").t # "none" => (d["mp_grid"].t = "ints" /\ d["mp_grid"].q = mp.val))

(* ------------------------------------------------------------------ the dictionary interface *)
SetItem(d, k, v) == (k :> v) @@ d
DelItem(d, k) == [j \in DOMAIN d \ {k} |-> d[j]]          \* a key that is not there: a warning, nothing else
Update(d, e) == e @@ d
HasKey(d, k) == k \in DOMAIN d
=============================================================================
