------------------------------ MODULE TBFourier ------------------------------
(* C02 -- the R -> k Fourier transform of a tight-binding model and its Cartesian k-derivatives, in exact arithmetic.

   A model M is a record
      nw   : number of Wannier functions (orbitals a, b \in 1..nw)
      lat  : 3x3 integer matrix, row j = lattice vector j in Cartesian components     (System.real_lattice)
      D    : positive integer, the denominator of the centres
      tau  : tau[a] = <<t1,t2,t3>>, centre of a in reduced coordinates times D             (wannier_centers_red * D)
      hops : set of records [R |-> <<r1,r2,r3>>, a |-> , b |-> , v |-> element of Z[zeta12]]  (the sparse 'Ham' dictionary;
             several records with the same key add up)
   k-points are integer triples k12 = 12 k (reduced coordinates in twelfths), so that every phase exp(2 pi i k.R) is the
   12-th root of unity zeta^(k12.R).

   Conventions transcribed from the code (fourier/rvectors.py, fourier/fft.py, data_K/data_K_R.py):
      H_ab(k)              = sum_R H_ab(R) exp(2 pi i k.R)                       (no centre phases)
      d^n H_ab / dk_c1..cn = sum_R prod_l ( i (R + tau_b - tau_a).A )_cl  H_ab(R) exp(2 pi i k.R)     (Rvectors.derivative)
   The derivative tensors of this module are multiplied by D^n (ShiftVec carries one factor D), which keeps them in Z[zeta12]. *)
EXTENDS Cyclo12, TLC

Add3(u, v) == <<u[1] + v[1], u[2] + v[2], u[3] + v[3]>>
Neg3(u) == <<-u[1], -u[2], -u[3]>>
Mod3(u, n) == <<u[1] % n[1], u[2] % n[2], u[3] % n[3]>>
Dot3(u, v) == u[1] * v[1] + u[2] * v[2] + u[3] * v[3]

(* ---------------- the model *)
Orb(M) == 1..M.nw
(* 'Ham'[R][a,b] *)
HamR(M, R, a, b) == CSumSet({h \in M.hops : h.R = R /\ h.a = a /\ h.b = b}, LAMBDA h : h.v)
(* Rvectors.iRvec of a system built by System_R.from_sparse: the R of the dictionary and always (0,0,0) *)
IRvec(M) == {h.R : h \in M.hops} \cup {<<0, 0, 0>>}
(* the Hermitian partner of a hop, and the closure  H_ba(-R) = conj H_ab(R) *)
Partner(h) == [R |-> Neg3(h.R), a |-> h.b, b |-> h.a, v |-> CConj(h.v)]
HermitianClosure(hops) == hops \cup {Partner(h) : h \in hops}
IsHermitianModel(M) == \A R \in IRvec(M) : \A a, b \in Orb(M) : HamR(M, Neg3(R), b, a) = CConj(HamR(M, R, a, b))
(* System_R.NKFFT_recommended (Rvectors.NKFFT_recommended): 1 + max positive R - min negative R per direction *)
NKFFTrec(M) ==
   [j \in 1..3 |-> 1 + Max({0} \cup {R[j] : R \in IRvec(M)}) - Min({0} \cup {R[j] : R \in IRvec(M)})]

(* ---------------- real-space operations (Rvectors) *)
(* the array XX_R: a function  R -> a -> b -> value  over iRvec *)
HamTable(M) == [R \in IRvec(M) |-> [a \in Orb(M) |-> [b \in Orb(M) |-> HamR(M, R, a, b)]]]
(* D * cRvec_shifted[R, a, b] = D * (R + tau_b - tau_a) . lattice  -- Cartesian, integer *)
ShiftVec(M, R, a, b) ==
   LET w == [j \in 1..3 |-> M.D * R[j] + M.tau[b][j] - M.tau[a][j]]
   IN [c \in 1..3 |-> w[1] * M.lat[1][c] + w[2] * M.lat[2][c] + w[3] * M.lat[3][c]]
(* Rvectors.derivative applied Len(cs) times: the factor prod_l i * ShiftVec[cs[l]] *)
DerFactor(M, R, a, b, cs) ==
   LET sv == ShiftVec(M, R, a, b)
   IN CRot(CInt(FoldLeft(LAMBDA acc, c : acc * sv[c], 1, cs)), 3 * Len(cs))
(* D^n * (d^n X)(R) for the component sequence cs *)
DerTable(M, X0, cs) ==
   With(X0, LAMBDA X :
   [R \in DOMAIN X |-> [a \in Orb(M) |-> [b \in Orb(M) |->
        IF X[R][a][b] = CZero THEN CZero ELSE CMul(DerFactor(M, R, a, b, cs), X[R][a][b])]]])
(* Rvectors.apply_expdK: X(R) exp(2 pi i dK.R); the phase is taken over the unreduced iRvec.
   OnReducedR = TRUE models the plausible mistake of applying it after the placement modulo NKFFT *)
ApplyExpdK(M, X0, dk12, fft, OnReducedR) ==
   With(X0, LAMBDA X :
   [R \in DOMAIN X |-> [a \in Orb(M) |-> [b \in Orb(M) |->
        CRot(X[R][a][b], Dot3(dk12, IF OnReducedR THEN Mod3(R, fft) ELSE R))]]])

(* ---------------- explicit sum / k-list path (FFT_R_to_k with k_list: exponent_k_list, 'slow_path') *)
RtoKDirect(M, X, k12) ==
   [a \in Orb(M) |-> [b \in Orb(M) |-> CSumSet(DOMAIN X, LAMBDA R : CRot(X[R][a][b], Dot3(k12, R)))]]
Direct(M, k12, cs) == RtoKDirect(M, DerTable(M, HamTable(M), cs), k12)

(* ---------------- FFT path (FFT_R_to_k.__call__ for 'fftw', 'numpy', 'slow') *)
FFTBox(fft) == (0..(fft[1] - 1)) \X (0..(fft[2] - 1)) \X (0..(fft[3] - 1))
(* AAA_K[iRvec % NKFFT] += AAA_R : placement modulo the FFT box, aliases add up *)
Place(X, fft, a, b) ==
   [p \in FFTBox(fft) |-> CSumSet({R \in DOMAIN X : Mod3(R, fft) = p}, LAMBDA R : X[R][a][b])]
(* ifftn * prod(NKFFT)  ( = FFTW_BACKWARD; = the 'slow' sum over exponent[i][(k_i R_i) % NKFFT_i] ) *)
TwelfthsPerStep(fft) == <<12 \div fft[1], 12 \div fft[2], 12 \div fft[3]>>
Transform(G, fft, m) ==
   LET s == TwelfthsPerStep(fft)
   IN CSumSet(FFTBox(fft), LAMBDA p : CRot(G[p], s[1] * m[1] * p[1] + s[2] * m[2] * p[2] + s[3] * m[3] * p[3]))
(* reshape((prod(NKFFT),) + ...) in C order = order of Grid.points_FFT (ix slowest, iz fastest); 1-based row number *)
KIndex(fft, m) == (m[1] * fft[2] + m[2]) * fft[3] + m[3] + 1
KOfIndex(fft, j) == <<(j - 1) \div (fft[2] * fft[3]), ((j - 1) \div fft[3]) % fft[2], (j - 1) % fft[3]>>
NK(fft) == fft[1] * fft[2] * fft[3]
(* Data_K.kpoints_all = (grid.points_FFT + dK) % 1, in twelfths *)
KpointsAll(fft, dk12) ==
   LET s == TwelfthsPerStep(fft)
   IN [j \in 1..NK(fft) |-> LET m == KOfIndex(fft, j)
                            IN <<(s[1] * m[1] + dk12[1]) % 12, (s[2] * m[2] + dk12[2]) % 12, (s[3] * m[3] + dk12[3]) % 12>>]
(* rows of FFT_R_to_k.__call__(X, hermitian=FALSE) *)
FFTRows(M, X0, fft) ==
   With(X0, LAMBDA X :
     With([a \in Orb(M) |-> [b \in Orb(M) |-> Place(X, fft, a, b)]], LAMBDA G :
        [j \in 1..NK(fft) |-> [a \in Orb(M) |-> [b \in Orb(M) |-> Transform(G[a][b], fft, KOfIndex(fft, j))]]]))
(* rows of Rvectors.R_to_k(apply_expdK(Ham_R), der=Len(cs), hermitian=FALSE): Data_K_R.Xbar('Ham', der) before _rotate *)
FFTPath(M, fft, dk12, cs, OnReducedR) ==
   FFTRows(M, DerTable(M, ApplyExpdK(M, HamTable(M), dk12, fft, OnReducedR), cs), fft)
(* rows of the explicit sum at kpoints_all *)
DirectRows(M, fft, dk12, cs) ==
   With(DerTable(M, HamTable(M), cs), LAMBDA X :
     With(KpointsAll(fft, dk12), LAMBDA K : [j \in 1..NK(fft) |-> RtoKDirect(M, X, K[j])]))
(* hermitian=TRUE:  0.5 (A + A^dagger); here twice that *)
Dagger(A) == [a \in DOMAIN A |-> [b \in DOMAIN A |-> CConj(A[b][a])]]
MatAdd(A, B) == [a \in DOMAIN A |-> [b \in DOMAIN A |-> CAdd(A[a][b], B[a][b])]]
MatScale(n, A) == [a \in DOMAIN A |-> [b \in DOMAIN A |-> CScale(n, A[a][b])]]
TwiceHermPart(A) == MatAdd(A, Dagger(A))
IsHermitianMat(A) == A = Dagger(A)

(* component sequences: all sorted sequences of Cartesian directions (the tensors are symmetric in the components) *)
CompSeqs(n) == {cs \in [1..n -> 1..3] : \A l \in 1..(n - 1) : cs[l] <= cs[l + 1]}
CompSeqsUpTo(n) == UNION {CompSeqs(l) : l \in 0..n}

(* ---------------- the properties of C02, stated on the row tables of one model / FFT grid / K-shift *)
(* the interpolated Hamiltonian and the derivative matrices are Hermitian *)
RowsHermitian(rows) == \A j \in DOMAIN rows : IsHermitianMat(rows[j])
(* HH_K: the symmetrisation done with hermitian=TRUE changes nothing *)
HermSymNoop(rows) == \A j \in DOMAIN rows : TwiceHermPart(rows[j]) = MatScale(2, rows[j])
(* H(k + G) = H(k) *)
PeriodicAt(M, k12, cs) ==
   \A g \in {<<1, 0, 0>>, <<0, 1, 0>>, <<0, 0, 1>>, <<-1, -1, 0>>, <<1, 0, -1>>, <<-1, 1, 1>>} :
        Direct(M, <<k12[1] + 12 * g[1], k12[2] + 12 * g[2], k12[3] + 12 * g[3]>>, cs) = Direct(M, k12, cs)
(* the FFT grid is smaller than the recommended one in some direction (aliasing occurs) *)
Aliases(M, fft) == \E R1, R2 \in IRvec(M) : R1 # R2 /\ Mod3(R1, fft) = Mod3(R2, fft)
=============================================================================
