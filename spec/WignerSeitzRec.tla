--------------------------- MODULE WignerSeitzRec ---------------------------
(* code -> spec for C01: one TLC state per recorded execution of the real code
      Rvectors(lattice, shifts_left_red = centres).set_Rvec(mp_grid, ws_tolerance)            (always)
      [ .set_fft_q_to_R(k-points in some order); .q_to_R(Hermitian data) ]                    (kind = "qtor")
      [ System_R.from_sparse(old matrices).do_ws_dist(mp_grid) ]                              (kind = "wsdist")
   The record carries the integer results (iRvec_list / Ndegen_list per pair of Wannier functions, iRvec) and the
   real-space matrices multiplied by NK*L (q_to_R) or L (do_ws_dist) and rounded to Z[zeta12] after an integrality check. *)
EXTENDS WignerSeitz, Json, IOUtils, TLCExt
VARIABLE i
Recs == JsonDeserialize(IOEnv.TRACE_FILE).recs
Rec == Recs[i]
T3(s) == <<s[1], s[2], s[3]>>
T4(s) == <<s[1], s[2], s[3], s[4]>>
P == [G |-> [j \in 1..3 |-> T3(Rec.G[j])], N |-> T3(Rec.N), S |-> Rec.S, tol |-> <<Rec.tol[1], Rec.tol[2]>>, box |-> FullBox]
nw == Len(Rec.tau)
Tau == [a \in 1..nw |-> T3(Rec.tau[a])]
(* recorded replica sets: pair (a, b) -> set of <<R, Ndegen>> *)
RecPair(a, b) == LET e == Rec.pairs[(a - 1) * nw + b] IN {<<T3(e[k][1]), e[k][2]>> : k \in 1..Len(e)}
RecPairLen(a, b) == Len(Rec.pairs[(a - 1) * nw + b])
RecW == [d \in Shifts(Tau) |-> LET ab == CHOOSE ab \in (1..nw) \X (1..nw) : Delta(Tau, ab[1], ab[2]) = d IN RecPair(ab[1], ab[2])]
RecIRvec == {T3(Rec.iRvec[k]) : k \in 1..Len(Rec.iRvec)}
nc == Rec.nc
Lr == Rec.L
(* recorded matrices: R -> a -> b -> c -> value *)
RecX == [R \in {T3(Rec.XR[k]) : k \in 1..Len(Rec.XR)} |->
           LET k == CHOOSE k \in 1..Len(Rec.XR) : T3(Rec.XR[k]) = R
           IN [a \in 1..nw |-> [b \in 1..nw |-> [c \in 1..nc |-> T4(Rec.X[k][a][b][c])]]]]
Ord == [j \in 1..Len(Rec.ord) |-> T3(Rec.ord[j])]
Dat == [j \in 1..Len(Rec.dat) |-> [a \in 1..nw |-> [b \in 1..nw |-> [c \in 1..nc |-> T4(Rec.dat[j][a][b][c])]]]]
Old == [R \in {T3(Rec.oldR[k]) : k \in 1..Len(Rec.oldR)} |->
           LET k == CHOOSE k \in 1..Len(Rec.oldR) : T3(Rec.oldR[k]) = R
           IN [a \in 1..nw |-> [b \in 1..nw |-> [c \in 1..nc |-> T4(Rec.old[k][a][b][c])]]]]
AllMinusSym(W) == \A d \in DOMAIN W : W[Neg3(d)] = MinusSet(W[d])
AllInBox == \A d \in Shifts(Tau) : InSearchBox(P, d)
(* the exact replica set is claimed only where the statement fixes it: the pair lies inside the search-box precondition
   (outside, the result depends on how many super-cells the code searches -- DESIGN 7.2), the tolerance is tight (with a loose
   one the set depends on the exact form of the tolerance test) and no distance is within rounding of the boundary:
   amb  = an exact tie with the tolerance, decided by the specification;
   near = Rec.near, computed by the harness in floating point: some |dist - dist_min - tol| is below twice the displacement of
          the shift by the code's decimal rounding of the centres (centres in thirds, sixths, twelfths) plus 1e-9 *)
Tight == Rec.tol[1] * 1000 <= Rec.tol[2]
Undetermined(amb) == amb \/ Rec.near
PairRs(a, b) == {e[1] : e \in RecPair(a, b)}

SetRvecClauses(W, amb) ==
   [ (* the specification decides the same replicas and degeneracies (exact, per pair of Wannier functions) *)
     equals_spec    |-> Undetermined(amb) \/ ~Tight
                        \/ \A a, b \in 1..nw : InSearchBox(P, Delta(Tau, a, b)) => RecPair(a, b) = W[Delta(Tau, a, b)],
     (* pairs with equal shifts have equal sets, no replica listed twice *)
     shift_classes  |-> \A a, b, c, d \in 1..nw : Delta(Tau, a, b) = Delta(Tau, c, d) => RecPair(a, b) = RecPair(c, d),
     no_duplicates  |-> \A a, b \in 1..nw : NoDuplicates(RecPair(a, b)) /\ Cardinality(RecPair(a, b)) = RecPairLen(a, b),
     (* C01 on the recorded values *)
     weights_one    |-> \A a, b \in 1..nw : WeightsPerClass(P, RecPair(a, b)),
     weights_total  |-> \A a, b \in 1..nw : TotalWeightOK(P, RecPair(a, b), LcmSet({e[2] : e \in RecPair(a, b)})),
     minus_symmetry |-> Undetermined(amb) \/ \A a, b \in 1..nw : InSearchBox(P, Delta(Tau, a, b)) => RecPair(b, a) = MinusSet(RecPair(a, b)),
     (* iRvec contains every replica (it may contain more: such R carry zero matrices), no R twice *)
     irvec_covers   |-> (\A a, b \in 1..nw : PairRs(a, b) \subseteq RecIRvec) /\ Cardinality(RecIRvec) = Len(Rec.iRvec),
     unambiguous    |-> ~Undetermined(amb) ]
QtoRClauses(W, amb) ==
   [ input_hermitian |-> IsHermitianData(Dat),
     lcm_ok          |-> \A d \in DOMAIN RecW : \A e \in RecW[d] : Lr % e[2] = 0,
     x_on_irvec      |-> DOMAIN RecX = RecIRvec,
     (* the recorded matrices are the specification's q_to_R of the recorded replica sets (zero blocks do not count) *)
     x_equals_spec   |-> ExcludeZeros(RecX) = ExcludeZeros(QtoR(P, Tau, RecW, Ord, Dat, Lr, nw, nc)),
     (* C01: interpolation back to every mesh point gives the input; X(-R) = X(R)^dagger *)
     round_trip      |-> RoundTripOK(P, RecX, Ord, Dat, Lr, nw, nc),
     hermitian_R     |-> ~AllMinusSym(RecW) \/ HermitianR(ExcludeZeros(RecX)) ]
WsDistClauses(W, amb) ==
   [ lcm_ok          |-> \A d \in DOMAIN RecW : \A e \in RecW[d] : Lr % e[2] = 0,
     (* which all-zero R are dropped from the list is not part of the statement *)
     x_equals_spec   |-> ExcludeZeros(RecX) = ExcludeZeros(RemapXXR(P, Tau, RecW, Old, Lr, nw, nc)),
     mesh_values_kept |-> MeshValuesKept(P, RecX, Old, Lr, nw, nc),
     hermitian_R     |-> ~AllMinusSym(RecW) \/ HermitianR(ExcludeZeros(RecX)) ]
Clauses ==
   With([d \in Shifts(Tau) |-> WSClasses(P, d)], LAMBDA CC :
   With([d \in Shifts(Tau) |-> WSFrom(CC[d])], LAMBDA W : With(\E d \in Shifts(Tau) : AmbiguousIn(CC[d]), LAMBDA amb :
        IF Rec.kind = "qtor" THEN SetRvecClauses(W, amb) @@ QtoRClauses(W, amb)
        ELSE IF Rec.kind = "wsdist" THEN SetRvecClauses(W, amb) @@ WsDistClauses(W, amb)
        ELSE SetRvecClauses(W, amb))))
Report == With(Clauses, LAMBDA Cl : \A n \in DOMAIN Cl : Cl[n] \/ PrintT(<<"BAD", i, n>>))
RecInit == i \in 1..Len(Recs)
RecSpec == RecInit /\ [][UNCHANGED i]_i
=============================================================================
