------------------------------ MODULE ResultAlg ------------------------------
(* Result objects as vectors with persistence (C16) and energy smoothing (C17).

   Numbers: tensor entries are Gaussian integers <<re, im>> (the harness feeds them as float / complex arrays whose
   entries are small integers, so every operation of the implementation is exact); smoothed values are rationals
   <<num, den>> with den > 0 kept in lowest terms.
   Arrays: `data` is the C-ordered flattening of the numpy array (a sequence, position p <-> offset p - 1); an array of
   shape  lead x 3^rank  has the 3^rank tensor components of one leading index contiguous.

   Objects (one record shape per class of wannierberri/result):
     EnergyResult  [kind |-> "E", shape, en, titles, rank, data, tTR, tInv, comment, smo]
                   shape = <<nE1[, nE2]>>, en = the energy arrays, smo = one smoother per energy axis
     KBandResult   [kind |-> "K", nb, rank, chunks, data, tTR, tInv]
                   chunks = the numbers of k-points of the arrays of K__Result.data_list, data = their concatenation
     ResultDict    [kind |-> "D", items]          items : key -> E | K | V
     VoidResult    [kind |-> "V"]
     Raise(..)     [kind |-> "X", why]            an operation that raises; never produced by the specification proper
   Transform     [factor, conj, tr, sw]   (symmetry/point_symmetry.py:Transform; tr = transpose_axes, sw = swap_axes,
                                           <<>> = None)
   PointSymmetry [R, TR, Inv, order, tab]  R = the proper part, as stored by PointSymmetry.__init__; tab = its tensor
                                           coefficient tables (MkSym)

   The meaning specified for the operators is the documented one (DESIGN.md 7.2): on energy-resolved results and
   dictionaries +, -, *, / and add() act element-wise; on k-resolved results + is the direct sum over k-points
   (concatenation), / is a copy, *, - and add() are element-wise; VoidResult is neutral on both sides for every kind.
   `Wrong` names deliberately wrong variants (plausible implementations that TLC has to reject - sensitivity
   configurations); the specification proper is Wrong = {}. *)
EXTENDS Integers, Sequences, FiniteSets, TLC

CONSTANT Wrong

-----------------------------------------------------------------------------
(* TLC keeps [p \in S |-> e] unevaluated and re-evaluates e at every application; nested array operators would cost
   exponential time.  Eager turns an array expression of length n into an evaluated sequence. *)
Eager(f, n) == SubSeq(f, 1, n)

(* numbers *)
CZ == <<0, 0>>
CAdd(x, y) == <<x[1] + y[1], x[2] + y[2]>>
CScale(s, x) == <<s * x[1], s * x[2]>>
CConj(x) == <<x[1], -x[2]>>

RECURSIVE Pow3(_)
Pow3(r) == IF r = 0 THEN 1 ELSE 3 * Pow3(r - 1)
RECURSIVE ProdSeq(_)
ProdSeq(s) == IF Len(s) = 0 THEN 1 ELSE s[1] * ProdSeq(Tail(s))
RECURSIVE SumSeq(_)
SumSeq(s) == IF Len(s) = 0 THEN 0 ELSE s[1] + SumSeq(Tail(s))
(* sum of f[0..m] for a function f into the Gaussian integers *)
RECURSIVE CSum(_, _)
CSum(f, m) == IF m < 0 THEN CZ ELSE CAdd(f[m], CSum(f, m - 1))
RECURSIVE ISum(_, _)
ISum(f, m) == IF m < 0 THEN 0 ELSE f[m] + ISum(f, m - 1)

Abs(x) == IF x < 0 THEN -x ELSE x
RECURSIVE Gcd(_, _)
Gcd(a, b) == IF b = 0 THEN Abs(a) ELSE Gcd(b, a % b)
Lcm(a, b) == (a \div Gcd(a, b)) * b
(* rationals <<n, d>>, d > 0, lowest terms *)
RNorm(n, d) == LET g == Gcd(Abs(n), d) IN <<n \div g, d \div g>>
RInt(n) == <<n, 1>>
RAdd(x, y) == RNorm(x[1] * y[2] + y[1] * x[2], x[2] * y[2])
RScale(s, x) == RNorm(s * x[1], x[2])
RDivInt(x, w) == RNorm(x[1], x[2] * w)          \* w > 0
RECURSIVE RSum(_, _)
RSum(f, m) == IF m < 0 THEN RInt(0) ELSE RAdd(f[m], RSum(f, m - 1))

-----------------------------------------------------------------------------
(* tensors: component c in 0..3^r-1 has digits Digit(c, 1, r) .. Digit(c, r, r) (first tensor axis first) *)
Digit(c, j, r) == (c \div Pow3(r - j)) % 3
RECURSIVE CompOf(_, _)
CompOf(d, r) == IF r = 0 THEN 0 ELSE 3 * CompOf(d, r - 1) + d[r]        \* d : 1..r -> 0..2 (only 1..r is read)
Digits(c, r) == Eager([j \in 1..r |-> Digit(c, j, r)], r)

(* PointSymmetry.rotate applied to every tensor axis: new[.., a, ..] = SUM_b R[a][b] old[.., b, ..] *)
RECURSIVE RotCoef(_, _, _, _, _)
RotCoef(R, c, d, r, j) == IF j = 0 THEN 1 ELSE R[Digit(c, j, r) + 1][Digit(d, j, r) + 1] * RotCoef(R, c, d, r, j - 1)
(* the non-zero coefficients of one tensor rank: tab[c + 1] = sequence of <<d, coefficient>> *)
SymTab(R, r) ==
   LET n == Pow3(r) IN
   Eager([c1 \in 1..n |-> SelectSeq(Eager([d1 \in 1..n |-> <<d1 - 1, RotCoef(R, c1 - 1, d1 - 1, r, r)>>], n), LAMBDA t : t[2] # 0)], n)
(* a point operation with the coefficient tables of tensor ranks 0..maxrank (tab[r + 1]) *)
MkSym(R, TR, Inv, order, maxrank) ==
   [R |-> R, TR |-> TR, Inv |-> Inv, order |-> order, tab |-> Eager([r1 \in 1..(maxrank + 1) |-> SymTab(R, r1 - 1)], maxrank + 1)]
RECURSIVE TermSum(_, _, _, _)
TermSum(terms, data, off, m) == IF m = 0 THEN CZ ELSE CAdd(CScale(terms[m][2], data[off + terms[m][1] + 1]), TermSum(terms, data, off, m - 1))
RotateData(g, data, r) ==
   LET n == Pow3(r)  tb == g.tab[r + 1] IN
   Eager([p \in 1..Len(data) |->
      LET lead == (p - 1) \div n   c == (p - 1) % n IN TermSum(tb[c + 1], data, lead * n, Len(tb[c + 1]))], Len(data))

(* Transform.__call__ : permute tensor axes (transpose_axes over the last Len(tr) axes, else swap_axes counted from the
   end), conjugate, multiply by the factor *)
TNone == <<>>
TransformFits(t, r) == Len(t.tr) <= r /\ (Len(t.sw) > 0 => (r >= 2 /\ \A k \in 1..2 : t.sw[k] < 0 /\ -t.sw[k] <= r))
SourceDigits(t, c, r) ==
   LET dg == Digits(c, r) IN
   IF Len(t.tr) > 0 THEN
      (* numpy transpose: new index k runs over old axis tr[k]; the old index at axis a is the new index k with tr[k] = a *)
      LET off == r - Len(t.tr) IN
      Eager([j \in 1..r |-> IF j <= off THEN dg[j]
                      ELSE LET k == CHOOSE k \in 1..Len(t.tr) : t.tr[k] = j - off - 1 IN dg[off + k]], r)
   ELSE IF Len(t.sw) > 0 THEN
      LET a == r + t.sw[1] + 1   b == r + t.sw[2] + 1 IN
      Eager([j \in 1..r |-> IF j = a THEN dg[b] ELSE IF j = b THEN dg[a] ELSE dg[j]], r)
   ELSE dg
ApplyT(t, data, r) ==
   LET n == Pow3(r)
       src == Eager([c1 \in 1..n |-> CompOf(SourceDigits(t, c1 - 1, r), r)], n)     \* component the new component c is read from
   IN
   Eager([p \in 1..Len(data) |->
      LET lead == (p - 1) \div n   c == (p - 1) % n
          v == data[lead * n + src[c + 1] + 1]
          w == IF t.conj THEN CConj(v) ELSE v
      IN CScale(t.factor, w)], Len(data))

(* PointSymmetry.transform_tensor *)
TransformTensor(g, data, r, tTR, tInv) ==
   LET d1 == RotateData(g, data, r)
       d2 == IF g.TR THEN ApplyT(tTR, d1, r) ELSE d1
   IN IF g.Inv THEN ApplyT(tInv, d2, r) ELSE d2

-----------------------------------------------------------------------------
(* objects *)
Void == [kind |-> "V"]
Raise(why) == [kind |-> "X", why |-> why]
IsX(o) == o.kind = "X"
DefaultTitles == <<"Efermi", "Omega">>
TitlesFor(given, n) == [i \in 1..n |-> IF i <= Len(given) THEN given[i] ELSE "???"]     \* EnergyResult.__init__
NoSmoothers(n) == [i \in 1..n |-> <<>>]
(* results without any energy axis are left out: the class documentation itself is unsure about them ("does it work?");
   the harness reports what happens with them as an observation *)
EnergyShapeOK(shape) == Len(shape) >= 1
MkE(shape, en, rank, data, tTR, tInv, comment) ==
   [kind |-> "E", shape |-> shape, en |-> en, titles |-> TitlesFor(DefaultTitles, Len(shape)), rank |-> rank, data |-> data,
    tTR |-> tTR, tInv |-> tInv, comment |-> comment, smo |-> NoSmoothers(Len(shape))]
MkK(nk, nb, rank, data, tTR, tInv) ==
   [kind |-> "K", nb |-> nb, rank |-> rank, chunks |-> <<nk>>, data |-> data, tTR |-> tTR, tInv |-> tInv]
MkD(items) == [kind |-> "D", items |-> items]

NK(o) == SumSeq(o.chunks)
DAddV(x, y) == Eager([p \in 1..Len(x) |-> CAdd(x[p], y[p])], Len(x))
DScale(s, x) == Eager([p \in 1..Len(x) |-> CScale(s, x[p])], Len(x))
DSubV(x, y) == DAddV(x, DScale(-1, y))
DZero(x) == [p \in 1..Len(x) |-> CZ]
DivisibleData(x, s) == \A p \in 1..Len(x) : x[p][1] % s = 0 /\ x[p][2] % s = 0
DDiv(x, s) == Eager([p \in 1..Len(x) |-> <<x[p][1] \div s, x[p][2] \div s>>], Len(x))

(* EnergyResult.__add__ : its checks *)
EFit(a, b) == /\ a.kind = "E" /\ b.kind = "E" /\ a.shape = b.shape /\ a.rank = b.rank /\ a.en = b.en
              /\ a.tTR = b.tTR /\ a.tInv = b.tInv /\ a.smo = b.smo
(* K__Result.fit / KBandResult.fit *)
KFit(a, b) == a.kind = "K" /\ b.kind = "K" /\ a.nb = b.nb /\ a.rank = b.rank /\ a.tTR = b.tTR /\ a.tInv = b.tInv
KSameShape(a, b) == KFit(a, b) /\ NK(a) = NK(b)
LongerComment(a, b) == IF Len(a.comment) > Len(b.comment) THEN a.comment ELSE b.comment

(* ---- operators on E, K, V (the kinds that may be entries of a ResultDict) *)
Mul1(a, s) ==
   CASE a.kind = "V" -> Void
     [] a.kind = "E" -> [a EXCEPT !.data = DScale(s, a.data)]
     [] a.kind = "K" -> [a EXCEPT !.data = DScale(s, a.data)]              \* chunk-wise: chunks kept
     [] a.kind = "X" -> a
Add1(a, b) ==                                                               \* a + b = a.__add__(b)
   CASE a.kind = "V" -> b
     [] a.kind = "E" -> IF b.kind = "V" THEN a
                        ELSE IF ~EFit(a, b) THEN Raise("EnergyResult.__add__:mismatch")
                        ELSE [a EXCEPT !.data = DAddV(a.data, b.data), !.comment = LongerComment(a, b)]
     [] a.kind = "K" -> IF b.kind = "V" THEN (IF "kvoid" \in Wrong THEN Raise("K__Result.__add__:void") ELSE a)
                        ELSE IF ~KFit(a, b) THEN Raise("K__Result.__add__:fit")
                        ELSE [a EXCEPT !.chunks = a.chunks \o b.chunks, !.data = a.data \o b.data]
     [] a.kind = "X" -> a
Sub1(a, b) ==                                                               \* a - b
   CASE a.kind = "V" -> Mul1(b, -1)
     [] a.kind = "E" -> Add1(a, Mul1(b, -1))
     [] a.kind = "K" -> IF b.kind = "V" THEN (IF "kvoid" \in Wrong THEN Raise("K__Result.__sub__:void") ELSE a)
                        ELSE IF ~KSameShape(a, b) THEN Raise("K__Result.__sub__:shape")
                        ELSE [a EXCEPT !.chunks = <<NK(a)>>, !.data = DSubV(a.data, b.data)]
     [] a.kind = "X" -> a
DivDefined1(a, s) == a.kind = "E" => DivisibleData(a.data, s)             \* integer world: E / s only when exact
Div1(a, s) ==
   CASE a.kind = "V" -> Void
     [] a.kind = "E" -> [a EXCEPT !.data = DDiv(a.data, s)]
     [] a.kind = "K" -> a                                                   \* "actually a copy"
     [] a.kind = "X" -> a
TransformDefined1(a, g) ==
   a.kind \in {"E", "K"} => /\ (g.TR => a.tTR # TNone /\ TransformFits(a.tTR, a.rank))
                           /\ (g.Inv => a.tInv # TNone /\ TransformFits(a.tInv, a.rank))
Transform1(a, g) ==
   CASE a.kind = "V" -> Void
     [] a.kind \in {"E", "K"} -> [a EXCEPT !.data = TransformTensor(g, a.data, a.rank, a.tTR, a.tInv)]
     [] a.kind = "X" -> a
(* a.mul_array(v, axes=ax) with a one-dimensional integer array v: every entry is multiplied by v[index along the axis].
   ax is the 1-based axis of one k-point's (K) / of the whole (E) array: E: energy axes first, then the tensor axes;
   K: the band axis first (the code shifts the axes by one because axis 0 of the data is k), then the tensor axes.
   Chunk-wise for K (chunks kept).  ResultDict has no mul_array. *)
ArrShape(a) == IF a.kind = "E" THEN a.shape \o [j \in 1..a.rank |-> 3] ELSE <<a.nb>> \o [j \in 1..a.rank |-> 3]
ArrAxes(a) == IF a.kind \in {"E", "K"} THEN 1..Len(ArrShape(a)) ELSE {}
MulArrayDefined(a, v, ax) == a.kind \in {"E", "K"} /\ ax \in ArrAxes(a) /\ Len(v) = ArrShape(a)[ax]
MulArray1(a, v, ax) ==
   LET fs == IF a.kind = "E" THEN ArrShape(a) ELSE <<SumSeq(a.chunks)>> \o ArrShape(a)
       fa == IF a.kind = "E" THEN ax ELSE ax + 1
       st == ProdSeq(SubSeq(fs, fa + 1, Len(fs)))
   IN [a EXCEPT !.data = Eager([p \in 1..Len(a.data) |-> CScale(v[(((p - 1) \div st) % fs[fa]) + 1], a.data[p])], Len(a.data))]
(* the integer array used by the MulArray action for an axis of length n: 2, -2, 4, -4, .. *)
ArrVec(n) == [q \in 1..n |-> IF q % 2 = 1 THEN q + 1 ELSE -q]
ArrOnes(n) == [q \in 1..n |-> 1]

(* reading .data of a K__Result merges data_list into one array *)
Touch(a) == IF a.kind = "K" THEN [a EXCEPT !.chunks = <<NK(a)>>] ELSE a

(* ---- the same for every kind *)
Keys(d) == DOMAIN d.items
SameKeys(a, b) == a.kind = "D" /\ b.kind = "D" /\ Keys(a) = Keys(b)
Mul(a, s) == IF a.kind = "D" THEN MkD([k \in Keys(a) |-> Mul1(a.items[k], s)]) ELSE Mul1(a, s)
Div(a, s) == IF a.kind = "D" THEN MkD([k \in Keys(a) |-> Div1(a.items[k], s)]) ELSE Div1(a, s)
DivDefined(a, s) == IF a.kind = "D" THEN \A k \in Keys(a) : DivDefined1(a.items[k], s) ELSE DivDefined1(a, s)
Transform(a, g) == IF a.kind = "D" THEN MkD([k \in Keys(a) |-> Transform1(a.items[k], g)]) ELSE Transform1(a, g)
TransformDefined(a, g) == IF a.kind = "D" THEN \A k \in Keys(a) : TransformDefined1(a.items[k], g) ELSE TransformDefined1(a, g)
AnyX(d) == \E k \in Keys(d) : IsX(d.items[k])
DictOrRaise(d) == IF AnyX(d) THEN Raise("ResultDict:entry") ELSE d
Add(a, b) ==
   IF a.kind = "D"
   THEN IF b.kind = "V" THEN (IF "dictvoid" \in Wrong THEN Raise("ResultDict.__add__:void") ELSE a)
        ELSE IF b.kind # "D" THEN Raise("ResultDict.__add__:type")
        ELSE DictOrRaise(MkD([k \in Keys(a) \cap Keys(b) |-> Add1(a.items[k], b.items[k])]))
   ELSE IF b.kind = "D" THEN (IF a.kind = "V" THEN b ELSE Raise("__add__:type"))
   ELSE Add1(a, b)
Sub(a, b) ==
   IF a.kind = "D"
   THEN IF b.kind = "V" THEN (IF "dictvoid" \in Wrong THEN Raise("ResultDict.__sub__:void") ELSE a)
        ELSE IF b.kind # "D" THEN Raise("ResultDict.__sub__:type")
        ELSE IF "dictsub" \in Wrong THEN Add(a, Mul(b, -1))                 \* `self + (-1) * other`: direct sum for K entries
        ELSE DictOrRaise(MkD([k \in Keys(a) \cap Keys(b) |-> Sub1(a.items[k], b.items[k])]))
   ELSE IF b.kind = "D" THEN (IF a.kind = "V" THEN Mul(b, -1) ELSE Raise("__sub__:type"))
   ELSE Sub1(a, b)
(* a.add(b) : in place, element-wise on the data, only for E and K; the void result (and None) is neutral: a is left
   as it is (its chunks too) *)
AddInPlaceDefined(a, b) == (a.kind \in {"E", "K"} /\ b.kind = "V") \/ (EFit(a, b)) \/ (KSameShape(a, b))
AddInPlace(a, b) ==
   IF b.kind = "V" THEN a
   ELSE IF a.kind = "E" THEN [a EXCEPT !.data = DAddV(a.data, b.data)]
   ELSE IF "kaddzip" \in Wrong /\ a.chunks # b.chunks THEN Raise("K__Result.add:chunks")  \* zip over data_list
   ELSE [a EXCEPT !.data = DAddV(a.data, b.data)]
Fit(a, b) == EFit(a, b) \/ KFit(a, b) \/ (SameKeys(a, b) /\ \A k \in Keys(a) :
                 LET x == a.items[k]  y == b.items[k] IN x.kind = "V" \/ y.kind = "V" \/ EFit(x, y) \/ KFit(x, y))
SameShape(a, b) == EFit(a, b) \/ KSameShape(a, b) \/ (SameKeys(a, b) /\ \A k \in Keys(a) :
                 LET x == a.items[k]  y == b.items[k] IN x.kind = "V" \/ y.kind = "V" \/ EFit(x, y) \/ KSameShape(x, y))

-----------------------------------------------------------------------------
(* persistence: Result.save -> as_dict ; EnergyResult.from_npz *)
TAsDict(t) == [conj |-> t.conj, factor |-> t.factor, transpose_axes |-> t.tr, swap_axes |-> t.sw]
TFromDict(d) == [factor |-> d.factor, conj |-> d.conj, tr |-> d.transpose_axes, sw |-> d.swap_axes]
Savable(a) == a.kind = "V" \/ (a.kind = "E" /\ a.tTR # TNone /\ a.tInv # TNone)     \* as_dict calls transform.as_dict()
SaveNpz(a) ==
   IF a.kind = "V" THEN [type |-> "VoidResult", comment |-> "is identically zero, no data to save"]
   ELSE [type |-> "EnergyResult", E_titles |-> a.titles, data |-> a.data, dshape |-> a.shape, rank |-> a.rank,
         transformTR |-> TAsDict(a.tTR), transformInv |-> TAsDict(a.tInv), comment |-> a.comment,
         Energies |-> a.en]                                       \* Energies[i] is the file entry Energies_{i-1}
LoadNpz(f) ==
   IF f.type = "VoidResult" THEN Void
   ELSE LET n == Len(f.E_titles) IN
        [kind |-> "E", shape |-> f.dshape, en |-> [i \in 1..n |-> f.Energies[i]], titles |-> TitlesFor(f.E_titles, n),
         rank |-> f.rank, data |-> f.data, tTR |-> TFromDict(f.transformTR), tInv |-> TFromDict(f.transformInv),
         comment |-> f.comment, smo |-> NoSmoothers(n)]               \* smoothers are not stored
(* what C16 demands of a reloaded result *)
SameSaved(a, b) == IF a.kind = "V" THEN b.kind = "V"
                   ELSE b.kind = "E" /\ a.en = b.en /\ a.shape = b.shape /\ a.data = b.data /\ a.rank = b.rank
                        /\ a.tTR = b.tTR /\ a.tInv = b.tInv /\ a.comment = b.comment /\ a.titles = b.titles

-----------------------------------------------------------------------------
(* equalities used by the laws *)
RowsBag(o) ==   \* the k-rows of a K result as a bag: k-row -> multiplicity
   LET w == o.nb * Pow3(o.rank)
       row(k) == [q \in 1..w |-> o.data[(k - 1) * w + q]]
       rows == {row(k) : k \in 1..NK(o)}
   IN [x \in rows |-> Cardinality({k \in 1..NK(o) : row(k) = x})]
IsZero1(o) == o.kind = "V" \/ (o.kind \in {"E", "K"} /\ \A p \in 1..Len(o.data) : o.data[p] = CZ)
SameVector1(a, b, uptoK) ==
   IF a.kind = "V" \/ b.kind = "V" THEN IsZero1(a) /\ IsZero1(b)      \* VoidResult "is identically zero"
   ELSE IF a.kind # b.kind THEN FALSE
   ELSE CASE a.kind = "E" -> a.shape = b.shape /\ a.rank = b.rank /\ a.data = b.data /\ a.en = b.en
                             /\ a.tTR = b.tTR /\ a.tInv = b.tInv
          [] a.kind = "K" -> a.nb = b.nb /\ a.rank = b.rank /\ a.tTR = b.tTR /\ a.tInv = b.tInv
                             /\ (IF uptoK THEN RowsBag(a) = RowsBag(b) ELSE a.data = b.data)
          [] a.kind = "X" -> FALSE
SameVectorG(a, b, uptoK) ==
   IF a.kind = "D" /\ b.kind = "D" THEN Keys(a) = Keys(b) /\ \A k \in Keys(a) : SameVector1(a.items[k], b.items[k], uptoK)
   ELSE IF a.kind = "D" \/ b.kind = "D" THEN FALSE
   ELSE SameVector1(a, b, uptoK)
SameVector(a, b) == SameVectorG(a, b, FALSE)
SameUpToKOrder(a, b) == SameVectorG(a, b, TRUE)          \* the direct sum over k-points is commutative up to the k order
IsZero(o) == IF o.kind = "D" THEN \A k \in Keys(o) : IsZero1(o.items[k]) ELSE IsZero1(o)
HasK(o) == o.kind = "K" \/ (o.kind = "D" /\ \E k \in Keys(o) : o.items[k].kind = "K")

-----------------------------------------------------------------------------
(* C17: smoothers.  A smoother of one energy axis is <<>> (VoidSmoother) or an integer kernel smt of odd length
   2*NE1+1 (AbstractSmoother: smt = _broaden(arange(-NE1, NE1+1) * dE) * dE).  AbstractSmoother.__call__ :
       res[i] = SUM_{j = start}^{end-1} A[j] * smt[NE1 + j - i]  /  SUM_{j = start}^{end-1} smt[NE1 + j - i]
       start = max(0, i - NE1), end = min(NE, i + NE1 + 1)
   i.e. the kernel is cut at the ends of the array and re-normalised row by row (0-based i, j as in the code). *)
IsVoidSmoother(k) == Len(k) = 0
NE1(k) == (Len(k) - 1) \div 2
Max2(a, b) == IF a > b THEN a ELSE b
Min2(a, b) == IF a < b THEN a ELSE b
WinStart(k, i) == Max2(0, i - NE1(k))
WinEnd(k, ne, i) == Min2(ne, i + NE1(k) + 1)
KW(k, i, j) == k[NE1(k) + j - i + 1]                                   \* weight of A[j] in res[i]
RowSum(k, ne, i) == ISum([j \in 0..(ne - 1) |-> IF j >= WinStart(k, i) /\ j < WinEnd(k, ne, i) THEN KW(k, i, j) ELSE 0], ne - 1)
SmootherDefined(k, ne) == IsVoidSmoother(k) \/ (ne >= 2 /\ Len(k) % 2 = 1 /\ \A i \in 0..(ne - 1) : RowSum(k, ne, i) > 0)

(* array geometry: full shape = energy shape \o <<3,..,3>>; stride of axis a (1-based) *)
FullShape(shape, rank) == shape \o [j \in 1..rank |-> 3]
Stride(fs, a) == ProdSeq(SubSeq(fs, a + 1, Len(fs)))
AxisIndex(fs, a, q) == (q \div Stride(fs, a)) % fs[a]                  \* index along axis a of offset q
(* the smoother k applied along axis a of the rational array x of full shape fs *)
SmoothAxis(k, fs, x, a) ==
   IF IsVoidSmoother(k) THEN x
   ELSE LET ne == fs[a]  st == Stride(fs, a) IN
        Eager([p \in 1..Len(x) |->
           LET q == p - 1  i == AxisIndex(fs, a, q)  base == q - i * st
               lo == WinStart(k, i)  hi == WinEnd(k, ne, i)
           IN RDivInt(RSum([j \in 0..(ne - 1) |-> IF j >= lo /\ j < hi THEN RScale(KW(k, i, j), x[base + j * st + 1]) ELSE RInt(0)], ne - 1),
                      RowSum(k, ne, i))], Len(x))
(* composition over the energy axes in the order given by the sequence `order` of axes (applied first .. last) *)
RECURSIVE SmoothInOrder(_, _, _, _)
SmoothInOrder(smo, fs, x, order) ==
   IF Len(order) = 0 THEN x ELSE SmoothInOrder(smo, fs, SmoothAxis(smo[order[1]], fs, x, order[1]), Tail(order))
RatData(data) == Eager([p \in 1..Len(data) |-> RInt(data[p])], Len(data))                \* real integer data (C17 uses real parts)
Descending(n) == [i \in 1..n |-> n + 1 - i]
Ascending(n) == [i \in 1..n |-> i]
(* what C17 demands of EnergyResult.dataSmooth: every axis smoother applied, each to the output of the previous one *)
SmoothAll(smo, shape, rank, x) == SmoothInOrder(smo, FullShape(shape, rank), x, Ascending(Len(shape)))
Perms(n) == {f \in [1..n -> 1..n] : \A i, j \in 1..n : f[i] = f[j] => i = j}

(* one line of an array along axis a through offset `base` (whose index along a is 0) *)
Line(fs, x, a, base) == [j \in 1..fs[a] |-> x[base + (j - 1) * Stride(fs, a) + 1]]
LineBases(fs, a) == {q \in 0..(ProdSeq(fs) - 1) : AxisIndex(fs, a, q) = 0}
RAddV(x, y) == Eager([p \in 1..Len(x) |-> RAdd(x[p], y[p])], Len(x))
RScaleV(s, x) == Eager([p \in 1..Len(x) |-> RScale(s, x[p])], Len(x))

(* get_smoother(energy, smear, mode) for the documented modes "Fermi-Dirac" / "Gaussian": how the returned smoother has
   to ACT (no class names, no exception classes, no order of the argument checks).  hasE: energy is not None;
   ne = len(energy); smear in {"none", "nonpos", "pos"}; wide: the smearing is so large that the kernel certainly spans
   several grid steps.  Energy grids are ascending (named predicate; a descending grid is outside the specified
   domain, the harness reports what happens as an observation). *)
AscendingGrid(dEsign) == dEsign > 0
SmootherIsVoidCase(hasE, ne, smear) == ~hasE \/ smear \in {"none", "nonpos"} \/ ne <= 1
(* got in {"identity", "smoothing", "raises"} : observed on one-hot arrays *)
GetSmootherActsOK(hasE, ne, smear, wide, got) ==
   IF SmootherIsVoidCase(hasE, ne, smear) THEN got = "identity"
   ELSE IF wide THEN got = "smoothing" ELSE got \in {"identity", "smoothing"}
-----------------------------------------------------------------------------
(* C16 state machine: a store of result objects evolving by the operators the classes define.
   store : sequence of objects (a new object is appended by every operator that constructs one; add() changes its
           object in place; reading .data in K__Result.__sub__ merges the operands' data_list)
   files : abstract .npz files (Result.save), loaded back by LoadNpz
   start : which initial store the behaviour began with
   hist  : the operations applied so far, [op, i, j, s, g, out, v] (v: the array of MulArray, s its axis; <<>> otherwise);
           out = index of the store entry (or file) the result
           went to, 0 = the result is only compared (it has to equal object i) and dropped: `x + Void`, `Void + x`,
           `x - Void` may or may not return x itself, the specification leaves that open *)
CONSTANTS InitStores,      \* sequence of initial stores
          Scalars,         \* integers for  * s
          Divisors,        \* positive integers for  / s
          Syms,            \* record: name -> PointSymmetry [R, TR, Inv, order] (all of them are used by the laws)
          ActSyms,         \* the names used by the Transform action
          MaxOps
VARIABLES start, store, files, hist
SNone == <<>>                \* value for the machine constants in models that do not use the machine
vars == <<start, store, files, hist>>

N == Len(store)
Idx == 1..N
Obj(i) == store[i]
SymNames == ActSyms
EvV(op, i, j, s, g, out, v) == [op |-> op, i |-> i, j |-> j, s |-> s, g |-> g, out |-> out, v |-> v]
Ev(op, i, j, s, g, out) == EvV(op, i, j, s, g, out, <<>>)
More == Len(hist) < MaxOps

Init == start \in DOMAIN InitStores /\ store = InitStores[start] /\ files = <<>> /\ hist = <<>>

DoAdd(i, j) == /\ More /\ Fit(Obj(i), Obj(j))
               /\ store' = Append(store, Add(Obj(i), Obj(j)))
               /\ hist' = Append(hist, Ev("Add", i, j, 0, "", N + 1)) /\ UNCHANGED <<start, files>>
DoSub(i, j) == /\ More /\ SameShape(Obj(i), Obj(j))
               /\ store' = Append([k \in Idx |-> IF k \in {i, j} /\ Obj(i).kind = "K" THEN Touch(Obj(k)) ELSE Obj(k)], Sub(Obj(i), Obj(j)))
               /\ hist' = Append(hist, Ev("Sub", i, j, 0, "", N + 1)) /\ UNCHANGED <<start, files>>
DoAddInPlace(i, j) == /\ More /\ AddInPlaceDefined(Obj(i), Obj(j))
                      /\ store' = [store EXCEPT ![i] = AddInPlace(Obj(i), Obj(j))]
                      /\ hist' = Append(hist, Ev("AddInPlace", i, j, 0, "", i)) /\ UNCHANGED <<start, files>>
DoMul(i, s) == /\ More /\ store' = Append(store, Mul(Obj(i), s))
               /\ hist' = Append(hist, Ev("Mul", i, 0, s, "", N + 1)) /\ UNCHANGED <<start, files>>
DoDiv(i, s) == /\ More /\ DivDefined(Obj(i), s)
               /\ store' = Append(store, Div(Obj(i), s))
               /\ hist' = Append(hist, Ev("Div", i, 0, s, "", N + 1)) /\ UNCHANGED <<start, files>>
(* a.add(VoidResult()) / a.add(None) : nothing changes *)
DoAddInPlaceVoid(i) == /\ More /\ AddInPlaceDefined(Obj(i), Void)
                       /\ store' = [store EXCEPT ![i] = AddInPlace(Obj(i), Void)]
                       /\ hist' = Append(hist, Ev("AddInPlaceVoid", i, 0, 0, "", i)) /\ UNCHANGED <<start, files>>
(* VoidResult on either side *)
DoAddVoidRight(i) == /\ More /\ SameVector(Add(Obj(i), Void), Obj(i))
                     /\ hist' = Append(hist, Ev("AddVoidRight", i, 0, 0, "", 0)) /\ UNCHANGED <<start, store, files>>
DoAddVoidLeft(i) == /\ More /\ SameVector(Add(Void, Obj(i)), Obj(i))
                    /\ hist' = Append(hist, Ev("AddVoidLeft", i, 0, 0, "", 0)) /\ UNCHANGED <<start, store, files>>
DoSubVoidRight(i) == /\ More /\ SameVector(Sub(Obj(i), Void), Obj(i))
                     /\ hist' = Append(hist, Ev("SubVoidRight", i, 0, 0, "", 0)) /\ UNCHANGED <<start, store, files>>
(* 0 (as in sum([..])) on the left and None on the right are neutral like VoidResult; a VoidResult itself is left out
   (named predicate: VoidResult() + 0 hands back the 0) *)
ZeroNeutralDefined(a) == a.kind # "V"
DoAddZeroLeft(i) == /\ More /\ ZeroNeutralDefined(Obj(i)) /\ SameVector(Add(Void, Obj(i)), Obj(i))
                    /\ hist' = Append(hist, Ev("AddZeroLeft", i, 0, 0, "", 0)) /\ UNCHANGED <<start, store, files>>
DoAddNoneRight(i) == /\ More /\ ZeroNeutralDefined(Obj(i)) /\ SameVector(Add(Obj(i), Void), Obj(i))
                     /\ hist' = Append(hist, Ev("AddNoneRight", i, 0, 0, "", 0)) /\ UNCHANGED <<start, store, files>>
(* a.mul_array(ArrVec(n), axes=ax - 1) on the first and on the last axis *)
MulArrayAxes(a) == IF a.kind \in {"E", "K"} THEN {1, Len(ArrShape(a))} ELSE {}
DoMulArray(i, ax) == /\ More /\ ax \in MulArrayAxes(Obj(i))
                     /\ LET v == ArrVec(ArrShape(Obj(i))[ax]) IN
                        /\ store' = Append(store, MulArray1(Obj(i), v, ax))
                        /\ hist' = Append(hist, EvV("MulArray", i, 0, ax, "", N + 1, v))
                     /\ UNCHANGED <<start, files>>
DoSubVoidLeft(i) == /\ More /\ store' = Append(store, Sub(Void, Obj(i)))
                    /\ hist' = Append(hist, Ev("SubVoidLeft", i, 0, 0, "", N + 1)) /\ UNCHANGED <<start, files>>
DoTransform(i, g) == /\ More /\ TransformDefined(Obj(i), Syms[g])
                     /\ store' = Append(store, Transform(Obj(i), Syms[g]))
                     /\ hist' = Append(hist, Ev("Transform", i, 0, 0, g, N + 1)) /\ UNCHANGED <<start, files>>
DoSave(i) == /\ More /\ Savable(Obj(i))
             /\ files' = Append(files, SaveNpz(Obj(i)))
             /\ hist' = Append(hist, Ev("SaveNpz", i, 0, 0, "", Len(files) + 1)) /\ UNCHANGED <<start, store>>
DoLoad(f) == /\ More /\ store' = Append(store, LoadNpz(files[f]))
             /\ hist' = Append(hist, Ev("LoadNpz", f, 0, 0, "", N + 1)) /\ UNCHANGED <<start, files>>
DoSaveVoid == /\ More /\ files' = Append(files, SaveNpz(Void))
              /\ hist' = Append(hist, Ev("SaveVoid", 0, 0, 0, "", Len(files) + 1)) /\ UNCHANGED <<start, store>>

Next == \/ \E i, j \in Idx : DoAdd(i, j)
        \/ \E i, j \in Idx : DoSub(i, j)
        \/ \E i, j \in Idx : DoAddInPlace(i, j)
        \/ \E i \in Idx : DoAddInPlaceVoid(i)
        \/ \E i \in Idx, s \in Scalars : DoMul(i, s)
        \/ \E i \in Idx, s \in Divisors : DoDiv(i, s)
        \/ \E i \in Idx : DoAddVoidRight(i)
        \/ \E i \in Idx : DoAddVoidLeft(i)
        \/ \E i \in Idx : DoSubVoidRight(i)
        \/ \E i \in Idx : DoSubVoidLeft(i)
        \/ \E i \in Idx : DoAddZeroLeft(i)
        \/ \E i \in Idx : DoAddNoneRight(i)
        \/ \E i \in Idx, ax \in 1..5 : DoMulArray(i, ax)
        \/ \E i \in Idx, g \in SymNames : DoTransform(i, g)
        \/ \E i \in Idx : DoSave(i)
        \/ \E f \in 1..Len(files) : DoLoad(f)
        \/ DoSaveVoid
Spec == Init /\ [][Next]_vars

(* ---- C16 as invariants.  Every law is evaluated on all tuples of stored objects that involve an object created or
   changed by the last operation (all tuples in the initial state): the other tuples were checked in the predecessor. *)
FreshIdx == IF Len(hist) = 0 THEN Idx
            ELSE LET e == hist[Len(hist)] IN
                 IF e.op \in {"SaveNpz", "SaveVoid", "AddInPlaceVoid"} \/ e.out = 0 THEN {} ELSE {e.out}
Inv1(i) == i \in FreshIdx
Inv2(i, j) == i \in FreshIdx \/ j \in FreshIdx
Inv3(i, j, k) == i \in FreshIdx \/ j \in FreshIdx \/ k \in FreshIdx
LawSyms == IF Len(hist) = 0 THEN DOMAIN Syms ELSE ActSyms      \* all point operations on the initial objects

NoRaise == \A i \in Idx : ~IsX(Obj(i)) /\ (Obj(i).kind = "D" => ~AnyX(Obj(i)))
Fit3(a, b, c) == Fit(a, b) /\ Fit(b, c) /\ Fit(a, c)
LawAddCommutes == \A i, j \in Idx : (Inv2(i, j) /\ i <= j /\ Fit(Obj(i), Obj(j))) =>
                     SameUpToKOrder(Add(Obj(i), Obj(j)), Add(Obj(j), Obj(i)))
LawAddAssociative == \A i, j, k \in Idx : (Inv3(i, j, k) /\ Fit3(Obj(i), Obj(j), Obj(k))) =>
                        SameVector(Add(Add(Obj(i), Obj(j)), Obj(k)), Add(Obj(i), Add(Obj(j), Obj(k))))
LawSubSelf == \A i \in FreshIdx : LET z == Sub(Obj(i), Obj(i)) IN IsZero(z) /\ (Obj(i).kind # "V" => SameShape(z, Obj(i)))
LawSubAdd == \A i, j \in Idx : (Inv2(i, j) /\ SameShape(Obj(i), Obj(j)) /\ ~HasK(Obj(i)) /\ ~HasK(Obj(j))) =>
                /\ SameVector(Add(Sub(Obj(i), Obj(j)), Obj(j)), Obj(i))
                /\ SameVector(Sub(Obj(i), Obj(j)), Add(Obj(i), Mul(Obj(j), -1)))
ElementWise1(a, b) ==
   /\ (EFit(a, b) => /\ Add1(a, b).data = [p \in 1..Len(a.data) |-> CAdd(a.data[p], b.data[p])]
                     /\ Sub1(a, b).data = [p \in 1..Len(a.data) |-> CAdd(a.data[p], CScale(-1, b.data[p]))])
   /\ (KFit(a, b) => Add1(a, b).data = a.data \o b.data /\ NK(Add1(a, b)) = NK(a) + NK(b))
   /\ (KSameShape(a, b) => Sub1(a, b).data = [p \in 1..Len(a.data) |-> CAdd(a.data[p], CScale(-1, b.data[p]))])
LawElementWise == \A i, j \in Idx : Inv2(i, j) =>
   IF SameKeys(Obj(i), Obj(j))
   THEN \A k \in Keys(Obj(i)) : LET x == Obj(i).items[k]  y == Obj(j).items[k] IN
           /\ (x.kind # "V" /\ y.kind # "V" => ElementWise1(x, y))
           /\ (Fit(Obj(i), Obj(j)) => Add(Obj(i), Obj(j)).items[k] = Add1(x, y))
           /\ (SameShape(Obj(i), Obj(j)) => Sub(Obj(i), Obj(j)).items[k] = Sub1(x, y))
   ELSE (Obj(i).kind \in {"E", "K"} /\ Obj(j).kind \in {"E", "K"}) => ElementWise1(Obj(i), Obj(j))
LawScalar ==
   /\ \A i \in FreshIdx : LET a == Obj(i) IN
        /\ SameVector(Mul(a, 1), a) /\ IsZero(Mul(a, 0))
        /\ \A s \in Scalars :
             /\ \A p \in (IF a.kind \in {"E", "K"} THEN 1..Len(a.data) ELSE {}) : Mul(a, s).data[p] = CScale(s, a.data[p])
             /\ \A t \in Scalars : /\ SameVector(Mul(Mul(a, s), t), Mul(a, s * t))
                                   /\ (~HasK(a) => SameVector(Add(Mul(a, s), Mul(a, t)), Mul(a, s + t)))
   /\ \A i, j \in Idx : (Inv2(i, j) /\ Fit(Obj(i), Obj(j))) =>
         \A s \in Scalars : SameVector(Mul(Add(Obj(i), Obj(j)), s), Add(Mul(Obj(i), s), Mul(Obj(j), s)))
DivLaw1(x, s) == CASE x.kind = "V" -> Div1(x, s) = Void
                   [] x.kind = "E" -> SameVector1(Mul1(Div1(x, s), s), x, FALSE)
                   [] x.kind = "K" -> Div1(x, s) = x
LawDiv == \A i \in FreshIdx : \A s \in Divisors : DivDefined(Obj(i), s) =>
             IF Obj(i).kind = "D" THEN \A k \in Keys(Obj(i)) : DivLaw1(Obj(i).items[k], s) /\ Div(Obj(i), s).items[k] = Div1(Obj(i).items[k], s)
             ELSE DivLaw1(Obj(i), s)
LawVoidNeutral == /\ \A i \in FreshIdx : LET a == Obj(i) IN
                        /\ SameVector(Add(a, Void), a) /\ SameVector(Add(Void, a), a)
                        /\ SameVector(Sub(a, Void), a) /\ SameVector(Sub(Void, a), Mul(a, -1))
                        /\ (AddInPlaceDefined(a, Void) => AddInPlace(a, Void) = a)
                  /\ (Len(hist) = 0 =>
                        /\ Add(Void, Void) = Void /\ Sub(Void, Void) = Void
                        /\ \A s \in Scalars : Mul(Void, s) = Void
                        /\ \A s \in Divisors : Div(Void, s) = Void
                        /\ \A g \in LawSyms : Transform(Void, Syms[g]) = Void)
(* mul_array: ones are neutral, it commutes with scaling, is additive, and two arrays along one axis multiply *)
LawMulArray == \A i \in FreshIdx : LET a == Obj(i) IN \A ax \in MulArrayAxes(a) :
   LET n == ArrShape(a)[ax]  v == ArrVec(n) IN
   /\ MulArray1(a, ArrOnes(n), ax) = a
   /\ MulArray1(Mul1(a, 2), v, ax) = Mul1(MulArray1(a, v, ax), 2)
   /\ MulArray1(MulArray1(a, v, ax), v, ax) = MulArray1(a, [q \in 1..n |-> v[q] * v[q]], ax)
   /\ \A j \in Idx : EFit(a, Obj(j)) => MulArray1(Add1(a, Obj(j)), v, ax).data = DAddV(MulArray1(a, v, ax).data, MulArray1(Obj(j), v, ax).data)
RECURSIVE TransformTimes(_, _, _)
TransformTimes(a, g, n) == IF n = 0 THEN a ELSE TransformTimes(Transform(a, g), g, n - 1)
LawTransformLinear == \A g \in LawSyms :
   /\ \A i, j \in Idx : (Inv2(i, j) /\ i <= j /\ Fit(Obj(i), Obj(j)) /\ TransformDefined(Obj(i), Syms[g]) /\ TransformDefined(Obj(j), Syms[g])) =>
         SameVector(Transform(Add(Obj(i), Obj(j)), Syms[g]), Add(Transform(Obj(i), Syms[g]), Transform(Obj(j), Syms[g])))
   /\ \A i \in FreshIdx : TransformDefined(Obj(i), Syms[g]) =>
         \A s \in Scalars : SameVector(Transform(Mul(Obj(i), s), Syms[g]), Mul(Transform(Obj(i), Syms[g]), s))
LawTransformOrder == \A i \in FreshIdx : \A g \in LawSyms : TransformDefined(Obj(i), Syms[g]) =>
                        SameVector(TransformTimes(Obj(i), Syms[g], Syms[g].order), Obj(i))
LawSaveLoad == /\ \A i \in FreshIdx : Savable(Obj(i)) => SameSaved(Obj(i), LoadNpz(SaveNpz(Obj(i))))
               /\ \A f \in 1..Len(files) : SaveNpz(LoadNpz(files[f])) = files[f]
=============================================================================
