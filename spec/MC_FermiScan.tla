---------------------------- MODULE MC_FermiScan ----------------------------
(* every small input of StaticCalculator.__call__ (non-tetra): NK k-points with NB in NBS sorted bands over 0..EMAX,
   thresholds THS, Kramers flag, Fermi grids (a+i d)/Q with a+ASHIFT in AS1, d in DS, n in NS, Q in QS, fder 0..3,
   k_resolved, band selections SELS; band values: "ones" (identity formula: CumDOS / DOS) or "generic" (powers of 5: the
   result is linear in the band values, so a generic assignment decides every assignment; the harness also runs a rank-1
   formula whose components are 1, 2, 4 times the scalar one: the same numbers by linearity).
   n = 1 in NS is the single-level call (dEF guessed by the code, see SingleLevelOK).
   The accumulation runs k-point by k-point (one transition per k-point, as the loop of the code), then the differences. *)
EXTENDS FermiScan
CONSTANTS NK, NBS, EMAX, THS, QS, AS1, ASHIFT, DS, NS, SELS, WrongBinning,
          InsideMode     \* "outside": inputs with NoLevelInsideGroup (exact values are bound to the code); "inside": inputs where a level
                         \* lies inside a group (bound by the representation-free clauses only); "any": both
VARIABLES E, vmode, th, kr, grid, fder, sel, kres, pc, ik, X, res, taken, inside, lowin, farbelow
vars == <<E, vmode, th, kr, grid, fder, sel, kres, pc, ik, X, res, taken, inside, lowin, farbelow>>

SortedArrays(n) == {s \in [1..n -> 0..EMAX] : \A k \in 1..(n - 1) : s[k] <= s[k + 1]}
Pow5(n) == LET P[j \in 0..n] == IF j = 0 THEN 1 ELSE 5 * P[j - 1] IN P[n]
Values(mode, EE) == [k \in 1..Len(EE) |-> [b \in 1..Len(EE[k]) |-> IF mode = "ones" THEN 1 ELSE Pow5((k - 1) * Len(EE[k]) + b - 1)]]
V == Values(vmode, E)
Sel(x) == IF x = {} THEN NoSel ELSE [on |-> TRUE, bands |-> x]
NoTie == \A k \in 1..NK : NoTieK(E[k], th, kr, grid, fder)
NoLevelInsideGroup == \A k \in 1..NK : NoLevelInsideGroupK(E[k], th, kr, grid, fder)
NKres == IF kres THEN NK ELSE 1
(* sensitivity switch: floor+1 instead of ceil is the same away from ties; a plausible slip is floor (bin one too early) *)
AccK(row, k) == IF WrongBinning THEN
                   LET ens == Entries(E[k], th, kr, grid, fder, sel)
                       F[j \in 0..Len(ens)] == IF j = 0 THEN row ELSE
                          LET en == ens[j]  c == GroupValue(V[k], en.g) * WSel(en.g, sel)  br == Branch(en, grid, fder) IN
                          CASE br = "below" -> AddFrom(F[j - 1], 0, c)
                            [] br = "bin" -> AddFrom(F[j - 1], BinP(en, grid, fder) \div BinQ(en, grid), c)
                            [] br = "above" -> F[j - 1]
                   IN F[Len(ens)]
                ELSE AccumulateK(row, E[k], V[k], th, kr, grid, fder, sel)

Init == /\ \E nb \in NBS : E \in [1..NK -> SortedArrays(nb)]
        /\ vmode \in {"ones", "generic"} /\ th \in THS /\ kr \in BOOLEAN
        /\ (kr => \A k \in 1..NK : KramersPaired(E[k], th))
        /\ grid \in [Q : QS, a : {x - ASHIFT : x \in AS1}, d : DS, n : NS]
        /\ fder \in 0..3 /\ sel \in {Sel(x) : x \in SELS} /\ kres \in BOOLEAN
        /\ Supported(fder, sel)
        /\ (sel.on => \A b \in sel.bands : b < Len(E[1]))
        /\ (NK = 1 => ~kres)
        /\ NoTie /\ SingleLevelOK(grid, th)
        /\ inside = ~NoLevelInsideGroup
        /\ (InsideMode = "outside" => ~inside) /\ (InsideMode = "inside" => inside)
        /\ lowin = \E k \in 1..NK : LowestLevelInsideGroupK(E[k], th, kr, grid, fder)
        /\ farbelow = \E k \in 1..NK : GroupMeanFarBelowLowestLevelK(E[k], th, kr, grid, fder)
        /\ pc = "acc" /\ ik = 1
        /\ X = [r \in 1..NKres |-> ZeroRow(grid, fder)]
        /\ res = <<>> /\ taken = {}
(* for ik, weights in enumerate(weights): ... restot[ik_to_result(ik)] += ... *)
Accumulate == /\ pc = "acc" /\ ik <= NK
              /\ LET r == IF kres THEN ik ELSE 1 IN X' = [X EXCEPT ![r] = AccK(X[r], ik)]
              /\ taken' = taken \cup BranchesTaken(E[ik], th, kr, grid, fder, sel)
              /\ ik' = ik + 1 /\ pc' = (IF ik = NK THEN "diff" ELSE "acc")
              /\ UNCHANGED <<E, vmode, th, kr, grid, fder, sel, kres, res, inside, lowin, farbelow>>
(* finite differences, / nk *)
Differences == /\ pc = "diff"
               /\ res' = [r \in 1..NKres |-> FinishRow(X[r], grid, fder, IF kres THEN 1 ELSE NK)]
               /\ pc' = "done"
               /\ UNCHANGED <<E, vmode, th, kr, grid, fder, sel, kres, ik, X, taken, inside, lowin, farbelow>>
Next == Accumulate \/ Differences
Spec == Init /\ [][Next]_vars

Done == pc = "done"
(* ---- C13 ---- *)
StepwiseIsScan == Done => res = Scan(E, V, th, kr, grid, fder, sel, kres)
(* sea / surface semantics: groups counted whole at their mean energy, n-th central difference of the sea *)
EqualsDeclarative == Done => res = Declarative(E, V, th, kr, grid, fder, sel, kres)
(* fder = n equals the n-th central difference of the fder = 0 calculator evaluated on the extended grid *)
SurfaceIsDifferenceOfSea ==
   (Done /\ ~sel.on) =>
      LET gx == ExtendedGrid(grid, fder)
          sea == Scan(E, V, th, kr, gx, 0, NoSel, kres)       \* rationals, denominators SELUNIT * nkdiv reduced
          num(r) == [i \in 1..gx.n |-> RScale(SELUNIT * (IF kres THEN 1 ELSE NK), sea[r][i])[1]]
      IN \A r \in 1..NKres : res[r] = Normalise(CentralDiff(num(r), fder), grid, fder, IF kres THEN 1 ELSE NK)
KResolvedSumsToUnresolved ==
   (Done /\ kres) =>
      LET u == Scan(E, V, th, kr, grid, fder, sel, FALSE)[1] IN
      \A i \in 1..grid.n : RDivI(RSumK(res, i, NK), NK) = u[i]
(* representation-free: the sea lies between the bounds "groups with top <= level" and "groups with bottom <= level" *)
SeaWithinBounds ==
   (Done /\ fder = 0) =>
      LET lo == [k \in 1..NK |-> SeaBoundRowK(E[k], V[k], th, kr, sel, grid, FALSE)]
          hi == [k \in 1..NK |-> SeaBoundRowK(E[k], V[k], th, kr, sel, grid, TRUE)]
          L == IF kres THEN [k \in 1..NK |-> Normalise(lo[k], grid, 0, 1)] ELSE <<Normalise(SumRows(lo, NK), grid, 0, NK)>>
          H == IF kres THEN [k \in 1..NK |-> Normalise(hi[k], grid, 0, 1)] ELSE <<Normalise(SumRows(hi, NK), grid, 0, NK)>>
      IN \A r \in 1..NKres : \A i \in 1..grid.n : RLe(L[r][i], res[r][i]) /\ RLe(res[r][i], H[r][i])
(* cumulative DOS: identity formula, fder = 0 *)
CumDosShape ==
   (Done /\ vmode = "ones" /\ fder = 0 /\ ~kres) =>
      /\ \A i \in 1..(grid.n - 1) : RLe(res[1][i], res[1][i + 1])
      /\ \A i \in 1..grid.n : LET x == grid.a + (i - 1) * grid.d IN
            /\ (\A k \in 1..NK : x < E[k][1] * grid.Q) => res[1][i] = RZero
            /\ (\A k \in 1..NK : x > E[k][Len(E[k])] * grid.Q) => res[1][i] = RI(Len(E[1]))
(* the two input-independent / cheap clauses are evaluated on finished states only (every fder occurs there) *)
NonAdditiveSame == Done => \A k \in 1..NK : \A j \in 1..Len(Borders(E[k], th, kr)) :
                      GroupValueNonAdditive(V[k], Borders(E[k], th, kr)[j]) = GroupValue(V[k], Borders(E[k], th, kr)[j])
Stencils == Done => StencilExact(fder)
=============================================================================
