----------------------------- MODULE OrbRepRec -----------------------------
(* code -> spec: records of calls of the real OrbitalRotator.  Matrices cross the boundary as exact numbers of
   Q(sqrt 3) (triples <<a, b, d>>; the harness rationalises the floating-point output and verifies the distance
   < 1e-10, an unrepresentable entry is written as <<0, 0, 0>> and rejected here).  Residuals of the numeric laws are
   integers  bucket = ceil(log10(residual / 1e-16)) clipped to 0..16  (bucket <= 7  <=>  residual <= 1e-9). *)
EXTENDS OrbRep, Json, IOUtils, TLCExt
VARIABLE i
Recs == JsonDeserialize(IOEnv.TRACE_FILE).recs
Rec == Recs[i]
NumOf(x) == <<x[1], x[2], x[3]>>
MatOf(m) == Mat(Len(m), Len(m[1]), LAMBDA a, b : NumOf(m[a][b]))
WellFormed(m) == \A a \in 1..Len(m) : \A b \in 1..Len(m[1]) : m[a][b][3] > 0 /\ IsNumber(NumOf(m[a][b]))
BucketLimit == 7
(* Matrices arrive in the specification's orbital order (the harness re-orders the code's output by orbital name, read from
   the public table orbitals_sets_dic).  Sub-shell hybrids and residuals are recorded only for rotations that map the span
   of the shell onto itself (the harness's floating-point filter); `domain` verifies that filter against Preserves: a
   failing `domain` clause is a disagreement between harness and specification, not a verdict on the code.  What the code
   returns outside the domain (today: the non-orthogonal compression) is not constrained. *)

(* one rotation: the s, p, d matrices and the sub-shell hybrids returned by the code *)
MatClauses ==
   LET R == MatOf(Rec.R)  Dp == DP(R, "code")  Dd == DD(R, "code") IN
   [ input_in_O3     |-> WellFormed(Rec.R) /\ IsOrthogonal(R),
     domain          |-> \A k \in 1..Len(Rec.sub) : Rec.sub[k][1] \in SubShells /\ Preserves(Rec.sub[k][1], R),
     representable   |-> WellFormed(Rec.s) /\ WellFormed(Rec.p) /\ WellFormed(Rec.d) /\ \A k \in 1..Len(Rec.sub) : WellFormed(Rec.sub[k][2]),
     s_equals_spec   |-> MatOf(Rec.s) = DS(R),
     p_equals_spec   |-> MatOf(Rec.p) = Dp,
     d_equals_spec   |-> MatOf(Rec.d) = Dd,
     p_orthogonal    |-> WellFormed(Rec.p) => IsOrthogonal(MatOf(Rec.p)),
     d_orthogonal    |-> WellFormed(Rec.d) => IsOrthogonal(MatOf(Rec.d)),
     sub_equals_spec |-> \A k \in 1..Len(Rec.sub) : (Rec.sub[k][1] \in SubShells /\ Preserves(Rec.sub[k][1], R)) =>
                             MatOf(Rec.sub[k][2]) = DSub(Rec.sub[k][1], Dp, Dd),
     sub_orthogonal  |-> \A k \in 1..Len(Rec.sub) : (WellFormed(Rec.sub[k][2]) /\ Rec.sub[k][1] \in SubShells /\ Preserves(Rec.sub[k][1], R)) =>
                             IsOrthogonal(MatOf(Rec.sub[k][2])) ]

(* a product: g, h and the matrix gh passed to the code for the right-hand side; per shell (only shells whose span both g
   and h preserve are recorded) the residual buckets of orthogonality of D(g), D(h) and of D(g) D(h) - D(gh) *)
HomClauses ==
   LET g == MatOf(Rec.g)  hh == MatOf(Rec.h)  gh == MatOf(Rec.gh) IN
   [ inputs_in_O3 |-> WellFormed(Rec.g) /\ WellFormed(Rec.h) /\ IsOrthogonal(g) /\ IsOrthogonal(hh),
     product      |-> MatMul(g, hh) = gh,
     shells_known |-> \A k \in 1..Len(Rec.shells) : Rec.shells[k].sh \in AllShells,
     domain       |-> \A k \in 1..Len(Rec.shells) : Rec.shells[k].sh \in AllShells =>
                         (Preserves(Rec.shells[k].sh, g) /\ Preserves(Rec.shells[k].sh, hh)),
     orthogonal   |-> \A k \in 1..Len(Rec.shells) : LET e == Rec.shells[k] IN
                         /\ Preserves(e.sh, g) => e.orth_g <= BucketLimit
                         /\ Preserves(e.sh, hh) => e.orth_h <= BucketLimit,
     homomorphism |-> \A k \in 1..Len(Rec.shells) : LET e == Rec.shells[k] IN
                         (Preserves(e.sh, g) /\ Preserves(e.sh, hh)) => e.hom <= BucketLimit ]

Clauses == CASE Rec.fn = "mat" -> MatClauses
             [] Rec.fn = "hom" -> HomClauses
Report == \A n \in DOMAIN Clauses : Clauses[n] \/ PrintT(<<"BAD", i, n>>)
RecInit == i \in 1..Len(Recs)
RecSpec == RecInit /\ [][UNCHANGED i]_i
=============================================================================
