----------------------------- MODULE BandSelectRec -----------------------------
(* code -> spec (X03): records of calls of the real classes, one TLC state per record.
     file  : obj, sel and what <file>.select_bands(sel) left of the object (or that it raised)
     cont  : the files of a real WannierData, whether bands had been selected before, the argument of select_bands
             (list / mask / window / none, allow_again), what it returned (or that it raised) and the files afterwards
     later : a freshly made .amn (all bands), the selections the container went through (as returned), how the file was
             brought in (set_projections / cut by hand) and the .amn of the container afterwards
   The clauses are the statement (representation-free: status, every entry from the right band, sizes, the returned bands
   as a set where the order is not promised); clauses named info_* compare with the transcription of today's code.
   JSON: objects as in W90StoreRec ({cls, attr, dic [[tag, [[k, table], ..]], ..], dim}), containers as lists of
   [key, object]. *)
EXTENDS BandSelect, Json, IOUtils, TLCExt
VARIABLE i
Recs == JsonDeserialize(IOEnv.TRACE_FILE).recs
Rec == Recs[i]
PairsFn(ps) == [k \in {ps[j][1] : j \in 1..Len(ps)} |-> ps[CHOOSE j \in 1..Len(ps) : ps[j][1] = k][2]]
DicOf(l) == [t \in {l[j][1] : j \in 1..Len(l)} |-> PairsFn(l[CHOOSE j \in 1..Len(l) : l[j][1] = t][2])]
ObjOfJson(o) == [cls |-> o.cls, attr |-> o.attr, dic |-> DicOf(o.dic), dim |-> o.dim]
FilesOf(l) == [key \in {l[j][1] : j \in 1..Len(l)} |-> ObjOfJson(l[CHOOSE j \in 1..Len(l) : l[j][1] = key][2])]
Seq0(q) == [j \in 1..Len(q) |-> q[j]]

(* ---- file *)
FileClauses ==
   LET X == TLCEval(ObjOfJson(Rec.obj))
       sel == Seq0(Rec.sel)
       ok == Rec.out.err = ""
       Y == TLCEval(ObjOfJson(Rec.out.obj))
       refusable == \/ (X.cls \in BandCarrying /\ ~InRange(sel, X.dim.NB))
                    \/ (X.cls = "chk" /\ (~InRange(sel, X.attr["num_bands"]) \/ Wannierised(X)))
       m == SelectFile(X, sel)
   IN [ status      |-> (refusable => ~ok) /\ ((~refusable /\ ~(X.cls = "chk" /\ sel = << >>)) => ok),
        restricted  |-> ok => Restricted(Y, X, sel),
        shape       |-> (ok /\ X.cls \in BandCarrying /\ sel # << >>) =>
                           LET r == Construct(X.cls, Y.attr, Y.dic) IN r.err = "" /\ r.obj.dim = Y.dim,
        info_model  |-> ((m.err = "") = ok) /\ (ok => SameButBook(m.obj, Y)),
        info_book   |-> (ok /\ X.cls = "chk") => Y.attr["selected_bands"] = sel ]
FileClass == LET X == ObjOfJson(Rec.obj)  sel == Seq0(Rec.sel) IN
   IF X.cls \notin BandCarrying \cup {"chk"} THEN "nothing_to_do"
   ELSE IF ~InRange(sel, IF X.cls = "chk" THEN X.attr["num_bands"] ELSE X.dim.NB) THEN "out_of_range"
   ELSE IF X.cls = "chk" /\ Wannierised(X) THEN "wannierised"
   ELSE IF sel = << >> THEN "empty"
   ELSE IF HasDuplicates(sel) THEN "duplicates"
   ELSE IF sel = Ident(IF X.cls = "chk" THEN X.attr["num_bands"] ELSE X.dim.NB) THEN "identity"
   ELSE IF Ascending(sel) THEN "subset" ELSE "permuted"

(* ---- container *)
A == Arg(Rec.arg.kind, Seq0(Rec.arg.list), Seq0(Rec.arg.mask), Rec.arg.lo, Rec.arg.hi, Rec.arg.bs, Rec.arg.be)
C == TLCEval(LET f == FilesOf(Rec.files) IN        \* (the recorded selection is not part of a record: the identity stands in)
             [files |-> f, selected |-> Rec.selected, irreducible |-> FALSE,
              selbands |-> IF "eig" \in DOMAIN f THEN Ident(f["eig"].dim.NB) ELSE << >>])
ContClass == ArgClass(C, A, Rec.again)
ContClauses ==
   LET cls == ContClass
       ok == Rec.out.err = ""
       ret == Seq0(Rec.out.ret)
       after == TLCEval(FilesOf(Rec.out.files))
       clean == ~(HasFile(C, "chk") /\ Wannierised(C.files["chk"]))
       sound == ~(HasFile(C, "chk") /\ HasFile(C, "eig") /\ C.files["chk"].attr["num_bands"] # NbNow(C))
       m == ContSelect(C, A, Rec.again)
   IN [ in_model     |-> /\ A.kind \in {"list", "mask", "window", "none"}
                         /\ (~HasFile(C, "eig") \/ ((A.bs = NoIdx \/ A.bs \in 0..NbNow(C)) /\ (A.be = NoIdx \/ A.be \in 0..NbNow(C))))
                         /\ A.lo >= InfLo /\ A.hi <= InfHi,
        refuse       |-> cls \in MustRefuse => ~ok,
        refuse_unchanged |-> cls \in MustRefuse => after = C.files,
        accept       |-> (cls \in MustAccept /\ clean /\ sound) => ok,
        wannierised_refused |-> (cls \in MustAccept /\ ~clean) => ~ok,
        restricted   |-> ok => DOMAIN after = DOMAIN C.files /\ \A key \in DOMAIN after : Restricted(after[key], C.files[key], ret),
        conform      |-> (ok /\ ret # << >>) =>
                            LET c1 == [C EXCEPT !.files = after] IN Conforming(c1) /\ BandsOf(c1) \subseteq {Len(ret)} /\ (~HasDuplicates(ret) => ChkCounts(c1)),
        ret_value    |-> ok => CASE cls \in {"identity", "subset", "permuted", "duplicates"} -> ret = A.list
                                 [] cls \in {"mask_all", "mask_partial"} -> ret = Where(A.mask)
                                 [] cls \in {"window_clean", "window_all", "none", "range"} ->
                                       SelSet(ret) = DocWindowSet(C.files["eig"], A) /\ Ascending(ret)
                                 [] OTHER -> TRUE,
        identity     |-> (ok /\ sound /\ ret = Ident(NbNow(C))) => FilesSameButBook(after, C.files),
        info_model   |-> ((m.err = "") = ok) /\ (ok => m.ret = ret) /\ FilesSameButBook(m.cont.files, after) ]

(* ---- a file added after the selections *)
RECURSIVE ComposeAll(_, _, _)
ComposeAll(acc, rets, j) == IF j > Len(rets) THEN acc ELSE ComposeAll(Compose(acc, Seq0(rets[j])), rets, j + 1)
LaterClauses ==
   LET fresh == TLCEval(ObjOfJson(Rec.fresh))
       comp == ComposeAll(Ident(fresh.dim.NB), Rec.rets, 1)
       ok == Rec.out.err = ""
   IN [ later_accepted   |-> ok,
        later_restricted |-> ok => Restricted(ObjOfJson(Rec.out.amn), fresh, comp) ]
LaterClass == IF Len(Rec.rets) = 0 THEN "no_selection" ELSE IF Len(Rec.rets) = 1 THEN "one_selection" ELSE "several_selections"

Clauses == CASE Rec.kind = "file" -> FileClauses
             [] Rec.kind = "cont" -> ContClauses
             [] Rec.kind = "later" -> LaterClauses
Class == CASE Rec.kind = "file" -> FileClass
           [] Rec.kind = "cont" -> ContClass
           [] Rec.kind = "later" -> LaterClass
Report == /\ \A n \in DOMAIN Clauses : Clauses[n] \/ PrintT(<<"BAD", i, n>>)
          /\ PrintT(<<"CLASS", i, Class>>)
RecInit == i \in 1..Len(Recs)
RecSpec == RecInit /\ [][UNCHANGED i]_i
=============================================================================
