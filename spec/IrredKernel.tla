----------------------------- MODULE IrredKernel -----------------------------
(* C07 kernel: for a system that has its declared magnetic point group, integrating over the irreducible K-points with
   symmetrisation gives what the unsymmetrised sum over the full grid gives, and the symmetry images collected by
   TABresult.to_grid reproduce a tabulated quantity at every grid point.

   "The system has the group" means here: the integrand is a covariant tensor field on the dense grid N,
        f(g k) = Act(g, f(k))   for every element g,
   where Act is PointSymmetry.transform_tensor with the TRUE behaviour (tTR, tInv) of the quantity under time reversal
   and inversion.  Every covariant field is (1/|G|) times the symmetrisation of itself, so the fields
        SymField(h) (p) = sum_g Act(g, h(g^-1 p)),      h an arbitrary integer field,
   are (up to the factor |G|) all covariant fields; the clauses below are linear in h, so checking them for every
   delta field h = delta_q e_c decides them for every integer field.

   The implementation symmetrises with the DECLARED transforms (dTR, dInv) of the result object
   (EnergyResult.transformTR / transformInv); the property needs declared = true. *)
EXTENDS FactorKernel

(* ---- fields: functions GridPts(N) -> tensor ---- *)
HashInt(p, a, b, seed) == ((3 * p[1] + 5 * p[2] + 7 * p[3] + 2 * a + 3 * b * b + seed * (1 + p[1] * p[2] + a * p[3] + b + p[1])) % 5) - 2
HashT(rank, p, seed) ==
   IF rank = 0 THEN HashInt(p, 0, 0, seed)
   ELSE IF rank = 1 THEN <<HashInt(p, 1, 0, seed), HashInt(p, 2, 0, seed), HashInt(p, 3, 0, seed)>>
   ELSE <<<<HashInt(p, 1, 1, seed), HashInt(p, 1, 2, seed), HashInt(p, 1, 3, seed)>>,
          <<HashInt(p, 2, 1, seed), HashInt(p, 2, 2, seed), HashInt(p, 2, 3, seed)>>,
          <<HashInt(p, 3, 1, seed), HashInt(p, 3, 2, seed), HashInt(p, 3, 3, seed)>>>>
HashField(N, rank, seed) == [p \in GridPts(N) |-> HashT(rank, p, seed)]
(* unit tensors: component c in 1..3^rank *)
UnitT(rank, c) ==
   IF rank = 0 THEN 1
   ELSE IF rank = 1 THEN <<IF c = 1 THEN 1 ELSE 0, IF c = 2 THEN 1 ELSE 0, IF c = 3 THEN 1 ELSE 0>>
   ELSE LET e(a, b) == IF 3 * (a - 1) + b = c THEN 1 ELSE 0
        IN <<<<e(1, 1), e(1, 2), e(1, 3)>>, <<e(2, 1), e(2, 2), e(2, 3)>>, <<e(3, 1), e(3, 2), e(3, 3)>>>>
NComp(rank) == IF rank = 0 THEN 1 ELSE IF rank = 1 THEN 3 ELSE 9
DeltaField(N, rank, q, c) == [p \in GridPts(N) |-> IF p = q THEN UnitT(rank, c) ELSE ZeroT(rank)]

(* sum_g Act(g, h(g^-1 p)), accumulated over all pairs (g, q) at the image point g q *)
SymField(h, N, G, rank, tTR, tInv) ==
   LET acc == FoldSet(LAMBDA gq, a : [a EXCEPT ![ActK(gq[1], gq[2], N)] = AddT(rank, @, Act(gq[1], rank, tTR, tInv, h[gq[2]]))],
                      [p \in GridPts(N) |-> ZeroT(rank)], G \X GridPts(N))
   IN [p \in GridPts(N) |-> NormT(rank, acc[p])]
Covariant(f, N, G, rank, tTR, tInv) ==
   \A g \in G : \A p \in GridPts(N) : f[ActK(g, p, N)] = NormT(rank, Act(g, rank, tTR, tInv, f[p]))

(* ---- what run() computes, in integers ----
   per K-point the calculator returns F_K = sum_{k in kpoints_all} f(k)  (the harness divides by nk);
   paralfunc symmetrises it: pointgroup.symmetrize = (1/|G|) sum_g result.transform(g) with the declared transforms;
   run() adds factor_K * result_K.                                                                              *)
KSum(ks, f, rank) == SumT(rank, 1..Len(ks), LAMBDA m : f[ks[m]])
Symmetrize(G, rank, dTR, dInv, a) == SumT(rank, G, LAMBDA g : Act(g, rank, dTR, dInv, a))          \* times |G|
(* |G| * prod(div) * nk * (result of the irreducible, symmetrised run) *)
IrrIntegral(klist, ksets, f, G, rank, dTR, dInv) ==
   NormT(rank, SumT(rank, 1..Len(klist), LAMBDA j : ScaleT(rank, klist[j][2], Symmetrize(G, rank, dTR, dInv, KSum(ksets[j], f, rank)))))
(* prod(div) * nk * (result of the full, unsymmetrised run) *)
FullIntegral(klist, ksets, f, rank) ==
   NormT(rank, SumT(rank, 1..Len(klist), LAMBDA j : ScaleT(rank, klist[j][2], KSum(ksets[j], f, rank))))
GridSum(f, N, rank) == NormT(rank, SumT(rank, GridPts(N), LAMBDA p : f[p]))

(* ---- tabulation: TABresult.transform maps every tabulated k-point and value with every group element, the images of all
   K-points are concatenated, TABresult.to_grid averages the values that land on the same grid point ---- *)
Triples(ksets, G) == UNION {{<<j, m, g>> : m \in 1..Len(ksets[j]), g \in G} : j \in 1..Len(ksets)}
TabCollect(ksets, f, N, G, rank, dTR, dInv) ==
   FoldSet(LAMBDA t, a : LET k == ksets[t[1]][t[2]] IN
                         [a EXCEPT ![ActK(t[3], k, N)] = [s |-> AddT(rank, @.s, Act(t[3], rank, dTR, dInv, f[k])), c |-> @.c + 1]],
           [p \in GridPts(N) |-> [s |-> ZeroT(rank), c |-> 0]], Triples(ksets, G))
(* every grid point receives at least one image, and the average of what it receives is f there *)
TabReproduces(tab, f, N, rank) ==
   \A p \in GridPts(N) : tab[p].c >= 1 /\ NormT(rank, tab[p].s) = NormT(rank, ScaleT(rank, tab[p].c, f[p]))
=============================================================================
