-------------------------- MODULE MC_ResultAlgAxis --------------------------
(* C17, one smoother along one axis (AbstractSmoother.__call__): every kernel of the catalogue, array shape, axis and
   integer array inside the constants; one TLC state per input, carrying the specified output for the replay. *)
EXTENDS ResultAlg

CONSTANTS FullShapes,    \* set of array shapes
          Kernels        \* set of kernels (non void)
VARIABLES fs, k, a, x, y, sx
avars == <<fs, k, a, x, y, sx>>
Unused == start = 0 /\ store = <<>> /\ files = <<>> /\ hist = <<>>

FullShapesA == {<<2>>, <<3>>, <<4>>, <<2, 3>>, <<3, 2>>, <<2, 3, 3>>, <<3, 1, 3>>}
FullShapesB == FullShapesA \cup {<<5>>, <<3, 3>>, <<2, 2, 3>>, <<3, 3, 3>>, <<2, 3, 3, 3>>}
KernelsA == {<<1>>, <<1, 2, 1>>, <<1, 1, 1>>, <<1, 2, 4, 2, 1>>}
KernelsB == KernelsA \cup {<<1, 3, 1>>, <<1, 0, 2, 0, 1>>, <<1, 1, 2, 3, 2, 1, 1>>}

Dense(n, len) == [p \in 1..len |-> CASE n = 1 -> ((p * p + 2 * p) % 7) - 3
                                     [] n = 2 -> ((5 * p + 1) % 4) * 3 - 4]
OneHot(q, len) == [p \in 1..len |-> IF p = q THEN 3 ELSE 0]
AInit == /\ Unused
        /\ fs \in FullShapes /\ k \in Kernels /\ a \in 1..Len(fs)
        /\ SmootherDefined(k, fs[a])
        /\ x \in {Dense(1, ProdSeq(fs))} \cup {OneHot(q, ProdSeq(fs)) : q \in 1..ProdSeq(fs)}
        /\ y = Dense(2, ProdSeq(fs))
        /\ sx = SmoothAxis(k, fs, RatData(x), a)
ANext == UNCHANGED <<avars, vars>>
Spec17 == AInit /\ [][ANext]_<<avars, vars>>

S(v) == SmoothAxis(k, fs, v, a)
X == RatData(x)
Y == RatData(y)
(* C17: every smoother is linear, *)
Linear == S(RAddV(X, Y)) = RAddV(S(X), S(Y)) /\ S(RScaleV(-3, X)) = RScaleV(-3, S(X))
(* maps a constant array to the same constant, *)
ConstantPreserved == \A c \in {1, -4} : LET cst == [p \in 1..Len(x) |-> RInt(c)] IN S(cst) = cst
(* and acts along the requested axis only: every line along the axis is smoothed on its own *)
AlongAxisOnly == \A base \in LineBases(fs, a) : Line(fs, sx, a, base) = SmoothAxis(k, <<fs[a]>>, Line(fs, X, a, base), 1)
(* a unit kernel is the identity; the rows of the cut kernel are weights summing to one *)
UnitKernelIdentity == k = <<1>> => sx = X
RowsNormalised == \A i \in 0..(fs[a] - 1) :
   ISum([j \in 0..(fs[a] - 1) |-> IF j >= WinStart(k, i) /\ j < WinEnd(k, fs[a], i) THEN KW(k, i, j) ELSE 0], fs[a] - 1) = RowSum(k, fs[a], i)
=============================================================================
