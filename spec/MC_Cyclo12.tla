----------------------------- MODULE MC_Cyclo12 -----------------------------
(* self-check of the Z[zeta12] library: ring laws on all pairs of elements with coefficients in -1..1 (first factor) and a
   fixed list of second factors; the products / conjugates / rotations are dumped and compared with complex arithmetic by
   the harness (binding of the exact-number representation to floating point). *)
EXTENDS Cyclo12, TLC
VARIABLES x, y, n, prod, conj, rot
vars == <<x, y, n, prod, conj, rot>>
Ys == {<<0, 1, 0, 0>>, <<0, 0, 0, 1>>, <<2, -1, 0, 3>>, <<-1, 1, -2, 1>>}
Init == /\ x \in [1..4 -> -1..1] /\ y \in Ys /\ n \in {-5, 0, 7, 15}
        /\ prod = CMul(x, y) /\ conj = CConj(x) /\ rot = CRot(x, n)
Next == UNCHANGED vars
Spec == Init /\ [][Next]_vars
RotIsMul     == rot = CMul(Zeta(n), x) /\ CMulZ(x) = CRot(x, 1)
MulCommutes  == prod = CMul(y, x)
MulDistrib   == CMul(x, CAdd(y, COne)) = CAdd(prod, x)
ConjMult     == CConj(prod) = CMul(conj, CConj(y)) /\ CConj(conj) = x
NormReal     == CIsReal(CMul(x, conj))
ZetaOrder    == Zeta(12) = COne /\ Zeta(6) = CNeg(COne) /\ Zeta(3) = CI /\ CMul(Zeta(n), Zeta(-n)) = COne
                /\ CAdd(Zeta(4), COne) = Zeta(2)
SumOk        == CSumSet({1, 2, 3}, LAMBDA k : CScale(k, x)) = CScale(6, x) /\ CSumSeq(<<x, y>>) = CAdd(x, y)
=============================================================================
