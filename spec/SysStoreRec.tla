----------------------------- MODULE SysStoreRec -----------------------------
(* code -> spec (C18): records of round trips of real System_R objects (random dyadic systems built with from_sparse),
   one TLC state per record.  A record carries the projection of the system, the tokens of the files the real writer
   produced, the options of the read call and the projection of what the real reader returned (or the exception). *)
EXTENDS SysStore, Json, IOUtils, TLCExt
VARIABLE i
Recs == JsonDeserialize(IOEnv.TRACE_FILE).recs
Rec == Recs[i]
(* JSON objects become records, arrays sequences; the point group arrives as a sequence of <<matrix, TR>> *)
AsSet(q) == {q[k] : k \in 1..Len(q)}
S == Rec.sys
Out == Rec.out
OutOK == Out.err = ""
T == Out.sys

(* the same system up to the order of the R-vectors *)
SameSystem(a, b) == b.nw = a.nw /\ b.lat = a.lat /\ b.cen = a.cen /\ SameMats(a, b)
(* clauses named file_layout, reader_model, files_written describe HOW the code does it (layout of the files it writes, the
   reader step by step, names of the files of the directory); the harness reports them as information.  The other clauses
   are the statement of C18. *)
TbClauses ==
   LET spec == ReadTbC(Rec.tb, Rec.needAA, Rec.given, S.cen, Rec.conv2)
       carries == (Rec.needAA => Has(S, "AA")) /\ (~Rec.given => Has(S, "AA"))
       centres == Rec.given \/ (Rec.conv2 /\ Has(S, "AA") /\ AADiagZero(S)) IN
   [ file_layout   |-> Rec.tb = TbLinesC(S, Rec.conv2),
     reader_model  |-> IF spec.err = "" THEN OutOK /\ SameSystem(spec.sys, T) ELSE ~OutOK,
     no_failure    |-> carries => OutOK,
     core          |-> (carries /\ OutOK) => SameCore(S, T) /\ SameLattice(S, T),
     centres       |-> (carries /\ OutOK /\ centres) => SameCentres(S, T),
     aa            |-> (carries /\ OutOK /\ (centres \/ ~Rec.conv2) /\ Rec.needAA) => SameTable(S, T, "AA") ]
HrClauses ==
   LET spec == ReadHr(Rec.hr, Rec.wcc, S.lat, Rec.given, S.cen) IN
   [ file_layout   |-> Rec.hr = HrLines(S) /\ Rec.wcc = WccLines(S.cen),
     reader_model  |-> IF spec.err = "" THEN OutOK /\ SameSystem(spec.sys, T) ELSE ~OutOK,
     no_failure    |-> OutOK,
     core          |-> OutOK => SameCore(S, T) /\ SameLattice(S, T),
     centres       |-> OutOK => SameCentres(S, T) ]
(* names of the .npz files of a freshly written directory *)
EssentialProps == {"num_wann", "real_lattice", "iRvec", "periodic", "is_phonon", "wannier_centers_cart", "pointgroup"}
NpzClauses ==
   LET spec == LoadDir(SaveDir(EmptyDir, [S EXCEPT !.pg = AsSet(S.pg)])) IN
   [ files_written |-> AsSet(Rec.props) = EssentialProps /\ AsSet(Rec.matfiles) = DOMAIN S.mats,
     no_failure    |-> OutOK /\ spec.err = "",
     core          |-> OutOK => SameCore(S, T) /\ SameLattice(S, T) /\ SameCentres(S, T),
     all_matrices  |-> OutOK => SameMats(S, T),
     periodic      |-> OutOK => T.periodic = S.periodic,
     phonon        |-> OutOK => T.phon = S.phon,
     pointgroup    |-> OutOK => AsSet(T.pg) = AsSet(S.pg) /\ GroupClosure(AsSet(S.pg)) = AsSet(S.pg) ]
Clauses == CASE Rec.fmt = "tb" -> TbClauses
             [] Rec.fmt = "hr" -> HrClauses
             [] Rec.fmt = "npz" -> NpzClauses
Report == \A n \in DOMAIN Clauses : Clauses[n] \/ PrintT(<<"BAD", i, n>>)
RecInit == i \in 1..Len(Recs)
RecSpec == RecInit /\ [][UNCHANGED i]_i
=============================================================================
