----------------------------- MODULE MC_WinObj -----------------------------
(* the WIN object as a state machine: an object read from a preset file, then every sequence (length <= MAXLEN) of
   __setitem__ / __delitem__ / update from a pool of entries, of to_npz + from_npz, and of write(seedname) followed by from_w90_file(seedname)
   (under the object's own name or under another one).  `hist` keeps the behaviour (one state = one behaviour), `prev` the
   dictionary before the last action, `disk` the file written last, `loaded` what reading it back gave. *)
EXTENDS MC_WinRead
CONSTANTS MAXLEN, PRESETS, POOL
VARIABLES data, prev, disk, loaded, target, hist
ovars == <<data, prev, disk, loaded, target, hist>>

KMesh112 == VKpts(<<0, 0, 0, 0, 0, 12>>)
PoolKey(id) == CASE id = "nw3" -> "num_wann" [] id = "froz" -> "dis_froz_max" [] id = "spin0" -> "spinors" [] id = "plot" -> "restart"
                 [] id = "x" -> "wannier_plot_format" [] id = "excl" -> "exclude_bands" [] id = "projnone" -> "projections"
                 [] id = "proj1" -> "projections" [] id = "kmesh" -> "kpoints" [] id = "mp112" -> "mp_grid" [] id = "cell2" -> "unit_cell_cart"
                 [] id = "winmax_none" -> "dis_win_max" [] id = "bulk" -> "transport_mode"
PoolVal(id) == CASE id = "nw3" -> VInt(3) [] id = "froz" -> VFlt(-12) [] id = "spin0" -> VBool(FALSE) [] id = "plot" -> VStr("plot")
                 [] id = "x" -> VStr("x") [] id = "excl" -> VInts(<<2, 4, 5>>) [] id = "projnone" -> VNone
                 [] id = "proj1" -> VStrs(<<"Fe:s">>) [] id = "kmesh" -> KMesh112 [] id = "mp112" -> VInts(<<1, 1, 2>>)
                 [] id = "cell2" -> VCell(<<8, 0, 0, 0, 8, 0, 0, 0, 8>>, 0) [] id = "winmax_none" -> VNone [] id = "bulk" -> VStr("bulk")
UpdDict(id) == CASE id = "mesh" -> ("kpoints" :> KMesh112) @@ ("mp_grid" :> VInts(<<1, 1, 2>>))
                 [] id = "two" -> ("num_wann" :> VInt(5)) @@ ("num_bands" :> VInt(7))
DelKeys == {"num_wann", "mp_grid", "projections", "restart", "nothere"}
KeyOrderAll == <<"seedname", "num_wann", "num_bands", "dis_froz_max", "dis_win_min", "dis_win_max", "spinors", "guiding_centres", "restart",
                 "bands_plot_mode", "wannier_plot_format", "transport_mode", "exclude_bands", "select_projections", "mp_grid",
                 "unit_cell_cart", "kpoints", "projections", "atoms_frac", "atoms_names">>
AllKeys == {KeyOrderAll[n] : n \in 1..Len(KeyOrderAll)} \cup {"nothere"}
Other == "copy"               \* the other seedname

(* chg: the entries the action puts into the dictionary (None for a deleted key) - what the harness hands to the real object *)
Entry0(op) == [op |-> op, id |-> "", err |-> "", chg |-> <<>>]
PresetIs(p) == CASE p = 1 -> cu = "none" /\ at = "frac" /\ kp = "2x1x1" /\ mpp = "right" /\ pj = "two" /\ pset = "A"
                 [] p = 2 -> cu = "bohr" /\ at = "cart_bohr" /\ kp = "3x1x2" /\ mpp = "absent" /\ pj = "absent" /\ pset = "B"
OInit == /\ style = Canon /\ pc = "done"
         /\ \E p \in PRESETS : PresetIs(p) /\ hist = <<[Entry0("init") EXCEPT !.id = ToString(p)]>>
         /\ file = MkFile(Canon) /\ rd = FromFile(MkFile(Canon), Seed)
         /\ data = rd.data /\ prev = rd.data /\ disk = <<>> /\ loaded = Err("nothing loaded") /\ target = ""
Room == Len(hist) <= MAXLEN
DoSet(id) == /\ Room /\ data' = SetItem(data, PoolKey(id), PoolVal(id)) /\ prev' = data
             /\ hist' = Append(hist, [Entry0("set") EXCEPT !.id = id, !.chg = (PoolKey(id) :> PoolVal(id))]) /\ UNCHANGED <<disk, loaded, target>>
DoDel(k) == /\ Room /\ data' = DelItem(data, k) /\ prev' = data
            /\ hist' = Append(hist, [Entry0("del") EXCEPT !.id = k, !.chg = (k :> VNone)]) /\ UNCHANGED <<disk, loaded, target>>
DoUpdate(id) == /\ Room /\ data' = Update(data, UpdDict(id)) /\ prev' = data
                /\ hist' = Append(hist, [Entry0("update") EXCEPT !.id = id, !.chg = UpdDict(id)]) /\ UNCHANGED <<disk, loaded, target>>
(* write(seedname = t) and WIN.from_w90_file(t) *)
DoWriteRead(t) ==
   /\ Room /\ Writable(data)
   /\ \E f \in {WriteWin(data, KeyOrderAll)} : \E r \in {FromFile(f, t)} :
        /\ disk' = f /\ loaded' = r /\ target' = t
        /\ hist' = Append(hist, [Entry0("write_read") EXCEPT !.id = t, !.err = r.err])
   /\ prev' = data /\ UNCHANGED data
(* to_npz(f) ; WIN.from_npz(f): as_dict() leaves out the entries that are None, from_dict() puts the rest into a new object *)
DoNpz == /\ Room /\ data' = [k \in {j \in DOMAIN data : data[j].t # "none"} |-> data[k]] /\ prev' = data
         /\ hist' = Append(hist, Entry0("npz")) /\ UNCHANGED <<disk, loaded, target>>
ONext == (\/ \E id \in POOL : DoSet(id)
          \/ DoNpz
          \/ \E k \in DelKeys : DoDel(k)
          \/ \E id \in {"mesh", "two"} : DoUpdate(id)
          \/ \E t \in {Seed, Other} : DoWriteRead(t))
         /\ UNCHANGED vars
OSpec == OInit /\ [][ONext]_<<ovars, vars>>

LastE == hist[Len(hist)]
TypeOK == DOMAIN data \subseteq AllKeys
(* __setitem__ / __getitem__ / __contains__: the key holds the value, nothing else changes *)
GetSet == LastE.op = "set" => /\ HasKey(data, PoolKey(LastE.id)) /\ data[PoolKey(LastE.id)] = PoolVal(LastE.id)
                             /\ SameBut(data, prev, {PoolKey(LastE.id)})
(* __delitem__: the key is gone, nothing else changes; a key that was not there changes nothing *)
DelRemoves == LastE.op = "del" => /\ ~HasKey(data, LastE.id) /\ \A k \in DOMAIN prev \ {LastE.id} : HasKey(data, k) /\ data[k] = prev[k]
                                 /\ (~HasKey(prev, LastE.id) => data = prev)
UpdateLaw == LastE.op = "update" => /\ \A k \in DOMAIN UpdDict(LastE.id) : data[k] = UpdDict(LastE.id)[k]
                                   /\ SameBut(data, prev, DOMAIN UpdDict(LastE.id))
(* an object saved to .npz and loaded again holds the same dictionary *)
NpzKeeps == LastE.op = "npz" => SameData(data, prev)
WR == LastE.op = "write_read"
(* the written file is well formed and names every entry that is not None exactly once (atoms_names go into the atoms block) *)
FileKeys(f) == LET F == Significant(f) IN {F[p].name : p \in {r \in 1..Len(F) : F[r].k \in {"param", "begin"}}}
FileWellFormed == WR => /\ WellFormed(disk) /\ FileKeys(disk) = Written(data)
                        /\ \A k \in FileKeys(disk) : Cardinality({p \in 1..Len(disk) : disk[p].k \in {"param", "begin"} /\ disk[p].name = k}) = 1
(* write then read gives the dictionary back - whenever the dictionary is consistent (k-points a mesh, mp_grid that mesh) *)
RoundTrip == (WR /\ MeshConsistent(data)) => /\ loaded.err = "" /\ SameBut(loaded.data, data, {"seedname", "mp_grid"})
                                             /\ (Get(data, "mp_grid").t # "none" => loaded.data["mp_grid"] = data["mp_grid"])
(* reading always leaves the mesh of the k-points in mp_grid *)
MpGridDerived == (WR /\ loaded.err = "") => (Get(loaded.data, "mp_grid").t = "ints" /\ MeshConsistent(loaded.data))
(* the object read from <t>.win is called t *)
SeednameFollowsFile == (WR /\ loaded.err = "") => loaded.data["seedname"] = VStr(target)
(* an inconsistent dictionary (k-points replaced, mp_grid left) is not read back silently *)
InconsistentRejected == (WR /\ ~MeshConsistent(data)) => loaded.err # ""
(* what was read is a fixed point: written and read once more it is the same dictionary and the same file *)
FileFixpoint == (WR /\ loaded.err = "") =>
                   LET f2 == WriteWin(loaded.data, KeyOrderAll)  l2 == FromFile(f2, target) IN
                   l2.err = "" /\ SameData(l2.data, loaded.data) /\ WriteWin(l2.data, KeyOrderAll) = f2
=============================================================================
