--------------------------- MODULE MC_Disentangle ---------------------------
(* every sorted energy array built from the gaps GAPS (gaps < 3 are degenerate), every quadruple of window edges taken at
   or just above a band energy (the frozen window may stick out of the outer one at the top), an optional explicitly
   frozen band, every number of Wannier functions (chosen when the gauge is initialised); the window part of wannierise step by step and then the abstract disentanglement loop. *)
EXTENDS Disentangle
CONSTANTS NB, GAPS, MAXIT,
          Variant     \* "code"; "swapped" = include_degen flags exchanged (sensitivity); "dropnull" = the alignment with the
                      \* projections drops the null directions of a rank-deficient projection matrix (sensitivity)

VARIABLES E, flo, fhi, olo, ohi, extra, nw, pc, frozen, outer, free, gauge, it,
          amn      \* class of the projections on the selected bands: "full" rank, or "deficient" (a zero column, two equal columns,
                   \* a column supported only outside the outer window); "none" before the gauge is initialised
vars == <<E, flo, fhi, olo, ohi, extra, nw, pc, frozen, outer, free, gauge, it, amn>>

RECURSIVE FromGaps(_, _)
FromGaps(g, n) == IF n = 0 THEN <<0>> ELSE LET s == FromGaps(g, n - 1) IN Append(s, s[n] + g[n])
Arrays == UNION { {FromGaps(g, n - 1) : g \in [1..(n - 1) -> GAPS]} : n \in 1..NB }
Edges(e) == {-1} \cup {e[j] : j \in 1..Len(e)} \cup {e[j] + 1 : j \in 1..Len(e)}
NoGauge == [support |-> {}, rank |-> 0, captured |-> FALSE]

Init == /\ E \in Arrays
        /\ flo \in Edges(E) /\ fhi \in Edges(E) /\ olo \in Edges(E) /\ ohi \in Edges(E)
        /\ flo <= fhi /\ olo <= ohi /\ olo <= flo          \* the frozen window may stick out at the top only
        /\ extra \in {{}} \cup {{j} : j \in 1..Len(E)}
        /\ (extra # {} => (flo = olo /\ fhi = ohi))         \* keep the explicit-band cases few
        /\ nw = 0 /\ pc = "start" /\ frozen = {} /\ outer = {} /\ free = {} /\ gauge = NoGauge /\ it = 0 /\ amn = "none"

SelectFrozen == /\ pc = "start"
                /\ frozen' = SelectWindow(E, TH, flo, fhi, Variant = "swapped")
                /\ pc' = "frozen" /\ UNCHANGED <<E, flo, fhi, olo, ohi, extra, nw, outer, free, gauge, it, amn>>
SelectOuter == /\ pc = "frozen"
               /\ outer' = SelectWindow(E, TH, olo, ohi, Variant # "swapped")
               /\ pc' = "outer" /\ UNCHANGED <<E, flo, fhi, olo, ohi, extra, nw, frozen, free, gauge, it, amn>>
AddFrozenStates == /\ pc = "outer"
                   /\ frozen' = frozen \cup extra
                   /\ pc' = "added" /\ UNCHANGED <<E, flo, fhi, olo, ohi, extra, nw, outer, free, gauge, it, amn>>
(* free = ~frozen; deselected = ~selected & free; assert selected[frozen]; free[deselected] = False *)
ComputeFree == /\ pc = "added"
               /\ IF frozen \subseteq outer
                  THEN free' = ((1..Len(E)) \ frozen) \ (((1..Len(E)) \ outer) \cap ((1..Len(E)) \ frozen)) /\ pc' = "ready"
                  ELSE free' = {} /\ pc' = "assert_failed"
               /\ UNCHANGED <<E, flo, fhi, olo, ohi, extra, nw, frozen, outer, gauge, it, amn>>
(* Kpoint_and_neighbours.__init__: U[frozen, :nf] = 1, U[free, nf:] = get_max_eig(..., nw - nf, |free|), rotate_to_projections:
   U_loc . orthogonalize(U_loc^+ amn) is the block matrix times a UNITARY num_wann x num_wann matrix also when the
   projections are rank deficient (U V^+ of the SVD); dropping the null directions would lose a column and a frozen state *)
InitU == /\ pc = "ready"
         /\ \E n \in 1..Len(E) : \E a \in {"full", "deficient"} :
              /\ nw' = n /\ amn' = a
              /\ IF Feasible(Cardinality(frozen), Cardinality(frozen \cup free), n)
                 THEN /\ LET lost == IF Variant = "dropnull" /\ a = "deficient" THEN 1 ELSE 0 IN
                         gauge' = [support |-> frozen \cup free, rank |-> Cardinality(frozen) + (n - Cardinality(frozen)) - lost,
                                   captured |-> (lost = 0 \/ frozen = {})]
                      /\ pc' = "running"
                 ELSE gauge' = NoGauge /\ pc' = "infeasible"
         /\ UNCHANGED <<E, flo, fhi, olo, ohi, extra, frozen, outer, free, it>>
(* update: the same block structure times a unitary num_wann x num_wann matrix, re-orthogonalised *)
Update == /\ pc = "running" /\ it < MAXIT
          /\ it' = it + 1
          /\ gauge' = [support |-> frozen \cup free, rank |-> gauge.rank, captured |-> gauge.captured]
          /\ UNCHANGED <<E, flo, fhi, olo, ohi, extra, nw, pc, frozen, outer, free, amn>>
Finalize == /\ pc = "running"
            /\ pc' = "done" /\ UNCHANGED <<E, flo, fhi, olo, ohi, extra, nw, frozen, outer, free, gauge, it, amn>>
Next == SelectFrozen \/ SelectOuter \/ AddFrozenStates \/ ComputeFree \/ InitU \/ Update \/ Finalize
Spec == Init /\ [][Next]_vars

Selected == pc \in {"ready", "running", "done", "infeasible"}
-----------------------------------------------------------------------------
WindowsMeaning  == Selected => /\ frozen = Frozen(E, flo, fhi, extra) /\ outer = OuterWindow(E, olo, ohi)
                               /\ free = Free(E, flo, fhi, extra, olo, ohi)
FrozenInOuter   == Selected => frozen \subseteq outer
FreePartition   == Selected => free \cap frozen = {} /\ free \cup frozen = outer
NeverSplit      == Selected => /\ NeverSplits(E, TH, outer)
                               /\ (extra = {} => NeverSplits(E, TH, frozen))
(* nested windows can never trip the assertion *)
NestedNeverFails == (WindowsNested(flo, fhi, olo, ohi) /\ extra = {}) => pc # "assert_failed"
AssertMeaning   == (pc = "assert_failed") <=> (pc \notin {"start", "frozen", "outer", "added"} /\ ~AssertPasses(E, flo, fhi, extra, olo, ohi))
FeasibleMeaning == (pc = "infeasible") => ~Feasible(Cardinality(frozen), Cardinality(outer), nw)
(* C24 *)
GaugeInvariant  == pc \in {"running", "done"} => GaugeValid(gauge, frozen, outer, nw)
=============================================================================
