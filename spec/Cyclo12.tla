------------------------------ MODULE Cyclo12 ------------------------------
(* Exact arithmetic in the ring of cyclotomic integers Z[zeta], zeta = exp(2 pi i / 12).
   An element a0 + a1 zeta + a2 zeta^2 + a3 zeta^3 is the 4-tuple <<a0, a1, a2, a3>>; the minimal polynomial is
   zeta^4 = zeta^2 - 1, so the representation is unique and equality of tuples is equality of numbers.
   The ring contains every N-th root of unity for N | 12 (i = zeta^3), i.e. every Fourier phase exp(2 pi i k.R) with
   12 k integer: meshes / FFT grids with 1, 2, 3, 4, 6, 12 points per direction, K-shifts in twelfths.
   (TLC has no reals; magnitudes stay far below 2^31.) *)
EXTENDS Integers, Sequences, FiniteSets, FiniteSetsExt, SequencesExt

CZero == <<0, 0, 0, 0>>
COne  == <<1, 0, 0, 0>>
CI    == <<0, 0, 0, 1>>
CInt(n) == <<n, 0, 0, 0>>
CGauss(re, im) == <<re, 0, 0, im>>

CAdd(x, y) == <<x[1] + y[1], x[2] + y[2], x[3] + y[3], x[4] + y[4]>>
CNeg(x)    == <<-x[1], -x[2], -x[3], -x[4]>>
CSub(x, y) == <<x[1] - y[1], x[2] - y[2], x[3] - y[3], x[4] - y[4]>>
CScale(n, x) == <<n * x[1], n * x[2], n * x[3], n * x[4]>>
(* multiplication by zeta: zeta * zeta^3 = zeta^4 = zeta^2 - 1 *)
CMulZ(x) == <<-x[4], x[1], x[2] + x[4], x[3]>>
(* general product: polynomial product, then zeta^4 = zeta^2 - 1, zeta^5 = zeta^3 - zeta, zeta^6 = -1 *)
CMul(x, y) ==
   LET c0 == x[1] * y[1]
       c1 == x[1] * y[2] + x[2] * y[1]
       c2 == x[1] * y[3] + x[2] * y[2] + x[3] * y[1]
       c3 == x[1] * y[4] + x[2] * y[3] + x[3] * y[2] + x[4] * y[1]
       c4 == x[2] * y[4] + x[3] * y[3] + x[4] * y[2]
       c5 == x[3] * y[4] + x[4] * y[3]
       c6 == x[4] * y[4]
   IN <<c0 - c4 - c6, c1 - c5, c2 + c4, c3 + c5>>
(* powers of zeta; n is any integer *)
ZetaTable == << <<1, 0, 0, 0>>, <<0, 1, 0, 0>>, <<0, 0, 1, 0>>, <<0, 0, 0, 1>>, <<-1, 0, 1, 0>>, <<0, -1, 0, 1>>,
                <<-1, 0, 0, 0>>, <<0, -1, 0, 0>>, <<0, 0, -1, 0>>, <<0, 0, 0, -1>>, <<1, 0, -1, 0>>, <<0, 1, 0, -1>> >>
Zeta(n) == ZetaTable[(n % 12) + 1]
(* x * zeta^n, written out (CMulZ applied n % 12 times) *)
CRot(x, n) ==
   LET m == n % 12 IN
   CASE m = 0 -> x
     [] m = 1 -> <<-x[4], x[1], x[2] + x[4], x[3]>>
     [] m = 2 -> <<-x[3], -x[4], x[1] + x[3], x[2] + x[4]>>
     [] m = 3 -> <<-x[2] - x[4], -x[3], x[2], x[1] + x[3]>>
     [] m = 4 -> <<-x[1] - x[3], -x[2] - x[4], x[1], x[2]>>
     [] m = 5 -> <<-x[2], -x[1] - x[3], -x[4], x[1]>>
     [] m = 6 -> <<-x[1], -x[2], -x[3], -x[4]>>
     [] m = 7 -> <<x[4], -x[1], -x[2] - x[4], -x[3]>>
     [] m = 8 -> <<x[3], x[4], -x[1] - x[3], -x[2] - x[4]>>
     [] m = 9 -> <<x[2] + x[4], x[3], -x[2], -x[1] - x[3]>>
     [] m = 10 -> <<x[1] + x[3], x[2] + x[4], -x[1], -x[2]>>
     [] m = 11 -> <<x[2], x[1] + x[3], x[4], -x[1]>>
(* complex conjugation: conj(zeta) = zeta^11 = zeta - zeta^3, conj(zeta^2) = 1 - zeta^2, conj(zeta^3) = -zeta^3 *)
CConj(x) == <<x[1] + x[3], x[2], -x[3], -x[2] - x[4]>>
CIsReal(x) == CConj(x) = x
(* sums *)
CSumSeq(s) == FoldLeft(CAdd, CZero, s)
CSumSet(S, f(_)) ==
   LET q == SetToSeq(S) IN FoldLeft(CAdd, CZero, [i \in 1..Len(q) |-> f(q[i])])

(* TLC evaluates LET-bound tables lazily and may re-evaluate them at every use inside a LAMBDA; With(v, Body) evaluates
   v once (a bound variable of a set constructor is a value) and returns Body(v). Semantically With(v, Body) = Body(v). *)
With(v, Body(_)) == CHOOSE res \in {Body(y) : y \in {v}} : TRUE

(* integer helpers used by the lattice specifications *)
Abs(n) == IF n < 0 THEN -n ELSE n
RECURSIVE Gcd(_, _)
Gcd(a, b) == IF b = 0 THEN Abs(a) ELSE Gcd(b, a % b)
Lcm(a, b) == (a * b) \div Gcd(a, b)
LcmSet(S) == FoldSet(Lcm, 1, S)
IntPow(b, n) == FoldLeft(LAMBDA acc, e : acc * b, 1, [j \in 1..n |-> j])
(* smallest s with s * s >= n  (n >= 0) *)
RECURSIVE ISqrtUp(_, _)
ISqrtUp(n, s) == IF s * s >= n THEN s ELSE ISqrtUp(n, s + 1)
SqrtCeil(n) == ISqrtUp(n, 0)
=============================================================================
